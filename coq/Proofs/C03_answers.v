(* C03 (part 3): what each answer strategy puts into its answer set, and strategies vs candidates. *)
From ZC Require Import Model.Base Model.PyRec Model.Dict Model.Re Model.Cache Model.Respond Gen.Const Gen.Extra Gen.DnsPure Spec.AnswerSpec Proofs.C20_identity Proofs.C03_reg Proofs.C03_sets.
From Coq Require Import Permutation.

Section Ans.
  Variable known : list pyrec.

  (* [unsup l a]: l contains a record with the identity of a that the querier does not suppress *)
  Definition unsup (l : list pyrec) (a : pyrec) : Prop :=
    exists r, In r l /\ suppresses known r = false /\ gen_eq r a = true.

  Lemma unsup_nil a : unsup [] a <-> False.
  Proof. split; [intros (r & [] & _)|intros []]. Qed.

  Lemma unsup_app l1 l2 a : unsup (l1 ++ l2) a <-> unsup l1 a \/ unsup l2 a.
  Proof.
    unfold unsup. split.
    - intros (r & HIn & E). apply in_app_or in HIn as [HIn|HIn]; [left|right]; exists r; auto.
    - intros [(r & HIn & E)|(r & HIn & E)]; exists r; split; auto; apply in_or_app; auto.
  Qed.

  Lemma unsup_single r a : unsup [r] a <-> suppresses known r = false /\ gen_eq r a = true.
  Proof.
    unfold unsup. split.
    - intros (r' & [<-|[]] & E). exact E.
    - intro E. exists r. split; [left; reflexivity|exact E].
  Qed.

  Lemma unsup_map {X} (f : X -> pyrec) l a :
    unsup (map f l) a <-> exists x, In x l /\ suppresses known (f x) = false /\ gen_eq (f x) a = true.
  Proof.
    unfold unsup. split.
    - intros (r & HIn & E). apply in_map_iff in HIn as (x & <- & HIn). exists x. auto.
    - intros (x & HIn & E). exists (f x). split; [apply in_map; exact HIn|exact E].
  Qed.

  Lemma unsup_incl l l' a : (forall r, In r l -> In r l') -> unsup l a -> unsup l' a.
  Proof. intros H (r & HIn & E). exists r. auto. Qed.

  Lemma unsup_map_perm {X} (f : X -> pyrec) l l' a :
    Permutation l l' -> (unsup (map f l) a <-> unsup (map f l') a).
  Proof.
    intro HP. rewrite !unsup_map. split; intros (x & HIn & E); exists x; split; auto.
    - eapply Permutation_in; eassumption.
    - eapply Permutation_in; [apply Permutation_sym|]; eassumption.
  Qed.

  (* ---- per strategy ---- *)
  Lemma ans_enum t types a :
    has (map fst (answer_question known t (SEnum types))) a <-> unsup (map enum_pointer types) a.
  Proof.
    cbn [answer_question]. etransitivity; [apply (has_fold_cond known enum_pointer (fun _ => []))|].
    cbn [map]. rewrite has_nil, unsup_map. tauto.
  Qed.

  Lemma ans_ptr t l a :
    has (map fst (answer_question known t (SPointer l))) a <-> unsup (map dns_pointer l) a.
  Proof.
    cbn [answer_question].
    etransitivity; [apply (has_fold_cond known dns_pointer (fun s => [dns_service s; dns_text s] ++ address_and_nsec s))|].
    cbn [map]. rewrite has_nil, unsup_map. tauto.
  Qed.

  Lemma ans_srv t s a :
    has (map fst (answer_question known t (SService s))) a <-> unsup [dns_service s] a.
  Proof.
    cbn [answer_question]. rewrite unsup_single. destruct (suppresses known (dns_service s)).
    - cbn [map]. rewrite has_nil. split; [intros []|intros [H _]; discriminate].
    - rewrite has_as_set. cbn [map]. rewrite has_nil. tauto.
  Qed.

  Lemma ans_txt t s a :
    has (map fst (answer_question known t (SText s))) a <-> unsup [dns_text s] a.
  Proof.
    cbn [answer_question]. rewrite unsup_single. destruct (suppresses known (dns_text s)).
    - cbn [map]. rewrite has_nil. split; [intros []|intros [H _]; discriminate].
    - rewrite has_as_set. cbn [map]. rewrite has_nil. tauto.
  Qed.

  (* address questions *)
  Definition the_nsec (s : svc) : pyrec := dns_nsec s (missing_types (map p_type_ (dns_addresses s))).

  Definition addr_ans (t : Z) (s : svc) (a : pyrec) : Prop :=
    (exists d, In d (dns_addresses s) /\ p_type_ d = t /\ suppresses known d = false /\ gen_eq d a = true) \/
    (filter (fun d => (p_type_ d =? t) && negb (suppresses known d)) (dns_addresses s) = [] /\
     existsb (Z.eqb t) (missing_types (map p_type_ (dns_addresses s))) = true /\
     gen_eq (the_nsec s) a = true).

  Lemma has_addr_answers t s a :
    has (filter (fun d => (p_type_ d =? t) && negb (suppresses known d)) (dns_addresses s)) a <->
    exists d, In d (dns_addresses s) /\ p_type_ d = t /\ suppresses known d = false /\ gen_eq d a = true.
  Proof.
    unfold has. split.
    - intros (d & HIn & E). apply filter_In in HIn as [HIn Hc]. apply andb_true_iff in Hc as [H1 H2].
      apply Z.eqb_eq in H1. apply negb_true_iff in H2. exists d. auto.
    - intros (d & HIn & Ht & Hs & E). exists d. split; [|exact E]. apply filter_In. split; [exact HIn|].
      apply andb_true_iff. split; [apply Z.eqb_eq; exact Ht|apply negb_true_iff; exact Hs].
  Qed.

  Lemma has_add_address t acc s a :
    has (map fst (add_address_answers known t acc s)) a <-> has (map fst acc) a \/ addr_ans t s a.
  Proof.
    unfold add_address_answers, addr_ans. cbv zeta. fold (the_nsec s).
    pose proof (has_addr_answers t s a) as HA.
    destruct (filter (fun d => (p_type_ d =? t) && negb (suppresses known d)) (dns_addresses s)) as [|x l] eqn:F.
    - cbn [nonempty]. rewrite has_nil in HA.
      destruct (existsb (Z.eqb t) (missing_types (map p_type_ (dns_addresses s)))) eqn:M.
      + rewrite has_as_set. split.
        * intros [H|H]; [left; exact H|right; right; auto].
        * intros [H|[H|(_ & _ & H)]]; [left; exact H| |right; exact H]. exfalso. apply HA. exact H.
      + split; [intro H; left; exact H|]. intros [H|[H|(_ & H & _)]]; [exact H| |discriminate].
        exfalso. apply HA. exact H.
    - cbn [nonempty].
      assert (R : forall adds, has (map fst (fold_left (fun acc0 ans => as_set acc0 ans adds) (x :: l) acc)) a <->
                               has (map fst acc) a \/ addr_ans t s a).
      { intro adds. rewrite has_fold_as_set, HA. unfold addr_ans. rewrite F. split.
        - intros [H|H]; [left; exact H|right; left; exact H].
        - intros [H|[H|(H & _)]]; [left; exact H|right; exact H|discriminate]. }
      unfold addr_ans in R. fold (the_nsec s) in R. rewrite F in R.
      destruct (nonempty (missing_types (map p_type_ (dns_addresses s)))); apply R.
  Qed.

  Lemma ans_addr_fold t l acc a :
    has (map fst (fold_left (add_address_answers known t) l acc)) a <->
    has (map fst acc) a \/ exists s, In s l /\ addr_ans t s a.
  Proof.
    revert acc. induction l as [|s l IH]; intro acc; cbn [fold_left].
    - split; [intro H; left; exact H|]. intros [H|(s & [] & _)]. exact H.
    - rewrite IH, has_add_address. split.
      + intros [[H|H]|(s' & HIn & H)]; [left; exact H|right; exists s; split; [left; reflexivity|exact H]|].
        right. exists s'. split; [right; exact HIn|exact H].
      + intros [H|(s' & [<-|HIn] & H)]; [left; left; exact H|left; right; exact H|].
        right. exists s'. auto.
  Qed.

  Lemma ans_addr t l a :
    has (map fst (answer_question known t (SAddress l))) a <-> exists s, In s l /\ addr_ans t s a.
  Proof.
    cbn [answer_question]. rewrite ans_addr_fold. cbn [map]. rewrite has_nil. tauto.
  Qed.

  (* address records carry type A or AAAA *)
  Lemma addr_type s d : In d (dns_addresses s) -> is_in (p_type_ d) [C_TYPE_A; C_TYPE_AAAA] = true.
  Proof.
    unfold dns_addresses. intro H. apply in_app_or in H as [H|H]; apply in_map_iff in H as (x & <- & _); reflexivity.
  Qed.

  Lemma in_missing t seen :
    existsb (Z.eqb t) (missing_types seen) = true <->
    is_in t [C_TYPE_A; C_TYPE_AAAA] = true /\ existsb (Z.eqb t) seen = false.
  Proof.
    unfold missing_types, is_in. change [C_TYPE_A; C_TYPE_AAAA] with C_ADDRESS_RECORD_TYPES. split.
    - intro H. apply existsb_exists in H as (x & HIn & Hx). apply Z.eqb_eq in Hx. subst x.
      apply filter_In in HIn as [HIn Hn]. apply negb_true_iff in Hn. split; [|exact Hn].
      apply existsb_exists. exists t. split; [exact HIn|apply Z.eqb_refl].
    - intros [H1 H2]. apply existsb_exists in H1 as (x & HIn & Hx). apply Z.eqb_eq in Hx. subst x.
      apply existsb_exists. exists t. split; [|apply Z.eqb_refl]. apply filter_In. split; [exact HIn|].
      apply negb_true_iff. exact H2.
  Qed.

  Lemma hits_nil t (l : list pyrec) :
    filter (fun d => p_type_ d =? t) l = [] <-> existsb (Z.eqb t) (map p_type_ l) = false.
  Proof.
    induction l as [|d l IH]; cbn [filter map existsb]; [tauto|].
    rewrite (Z.eqb_sym t (p_type_ d)). destruct (p_type_ d =? t); cbn [orb]; [|exact IH].
    split; discriminate.
  Qed.

  Lemma addr_ans_type t s a : addr_ans t s a -> is_in t [C_TYPE_A; C_TYPE_AAAA] = true.
  Proof.
    intros [(d & HIn & <- & _)|(_ & H & _)].
    - eapply addr_type. exact HIn.
    - apply in_missing in H. tauto.
  Qed.

  Definition addr_cand (t : Z) (s : svc) : list pyrec :=
    let hits := filter (fun d => p_type_ d =? t) (dns_addresses s) in
    if nonempty hits then hits else [the_nsec s].

  (* every unsuppressed candidate of an address question is answered ... *)
  Lemma addr_ans_of_cand t s a :
    is_in t [C_TYPE_A; C_TYPE_AAAA] = true -> unsup (addr_cand t s) a -> addr_ans t s a.
  Proof.
    intros Ht. unfold addr_cand. cbv zeta.
    destruct (filter (fun d => p_type_ d =? t) (dns_addresses s)) as [|x l] eqn:F; cbn [nonempty].
    - intro H. apply unsup_single in H as [_ H]. right. split; [|split; [|exact H]].
      + destruct (filter (fun d => (p_type_ d =? t) && negb (suppresses known d)) (dns_addresses s)) as [|y l'] eqn:F2;
          [reflexivity|].
        assert (HIn : In y (filter (fun d => p_type_ d =? t) (dns_addresses s))).
        { assert (Hy : In y (y :: l')) by (left; reflexivity). rewrite <- F2 in Hy.
          apply filter_In in Hy as [Hy1 Hy2]. apply andb_true_iff in Hy2 as [Hy2 _].
          apply filter_In. auto. }
        rewrite F in HIn. destruct HIn.
      + apply in_missing. split; [exact Ht|]. apply hits_nil. exact F.
    - intros (r & HIn & Hs & E). rewrite <- F in HIn. apply filter_In in HIn as [HIn Hr].
      apply Z.eqb_eq in Hr. left. exists r. auto.
  Qed.

  (* ... and the converse holds when the NSEC for a missing address type is not itself suppressed *)
  Lemma cand_of_addr_ans t s a :
    (filter (fun d => p_type_ d =? t) (dns_addresses s) = [] -> suppresses known (the_nsec s) = false) ->
    addr_ans t s a -> unsup (addr_cand t s) a.
  Proof.
    intros Hn [(d & HIn & Ht & Hs & E)|(_ & HM & E)]; unfold addr_cand; cbv zeta.
    - assert (HF : In d (filter (fun d => p_type_ d =? t) (dns_addresses s)))
        by (apply filter_In; split; [exact HIn|apply Z.eqb_eq; exact Ht]).
      destruct (filter (fun d => p_type_ d =? t) (dns_addresses s)) as [|x l]; [destruct HF|].
      cbn [nonempty]. exists d. auto.
    - apply in_missing in HM as [_ HM]. apply hits_nil in HM. rewrite HM. cbn [nonempty].
      apply unsup_single. split; [apply Hn; exact HM|exact E].
  Qed.

  (* ---- strategies of one question ---- *)
  Definition Mx (t : Z) (sts : list strategy) (a : pyrec) : Prop :=
    exists st, In st sts /\ has (map fst (answer_question known t st)) a.

  Lemma Mx_nil t a : Mx t [] a <-> False.
  Proof. split; [intros (st & [] & _)|intros []]. Qed.

  Lemma Mx_app t l1 l2 a : Mx t (l1 ++ l2) a <-> Mx t l1 a \/ Mx t l2 a.
  Proof.
    unfold Mx. split.
    - intros (r & HIn & E). apply in_app_or in HIn as [HIn|HIn]; [left|right]; exists r; auto.
    - intros [(r & HIn & E)|(r & HIn & E)]; exists r; split; auto; apply in_or_app; auto.
  Qed.

  Lemma Mx_single t st a : Mx t [st] a <-> has (map fst (answer_question known t st)) a.
  Proof.
    unfold Mx. split.
    - intros (st' & [<-|[]] & E). exact E.
    - intro E. exists st. split; [left; reflexivity|exact E].
  Qed.

  Lemma Mx_list t (C : list svc -> strategy) (l : list svc) a :
    (has (map fst (answer_question known t (C []))) a -> False) ->
    (Mx t (match l with [] => [] | x :: l0 => [C (x :: l0)] end) a <-> has (map fst (answer_question known t (C l))) a).
  Proof.
    intro H0. destruct l as [|x l].
    - rewrite Mx_nil. split; [intros []|exact H0].
    - apply Mx_single.
  Qed.

  (* the shape both sides are compared through; only the address block keeps the model's view *)
  Definition shape (svcs : list svc) (q : pyrec) (addr : Z -> svc -> pyrec -> Prop) (a : pyrec) : Prop :=
    let n := lower (p_name q) in
    let t := p_type_ q in
    if (t =? C_TYPE_PTR) && text_eqb n C_SERVICE_TYPE_ENUMERATION_NAME then
      unsup (map (fun s => enum_pointer (lower (s_type s))) svcs) a
    else
      (is_in t [C_TYPE_PTR; C_TYPE_ANY] = true /\
       unsup (map dns_pointer (filter (fun s => text_eqb (lower (s_type s)) n) svcs)) a) \/
      (is_in t [C_TYPE_A; C_TYPE_AAAA] = true /\
       exists s, In s (filter (fun s => text_eqb (s_server_key s) n) svcs) /\ addr t s a) \/
      (is_in t [C_TYPE_SRV; C_TYPE_ANY] = true /\
       unsup (map dns_service (filter (fun s => text_eqb (s_key s) n) svcs)) a) \/
      (is_in t [C_TYPE_TXT; C_TYPE_ANY] = true /\
       unsup (map dns_text (filter (fun s => text_eqb (s_key s) n) svcs)) a).

  Lemma unsup_if (b : bool) l a : unsup (if b then l else []) a <-> b = true /\ unsup l a.
  Proof. destruct b; [tauto|]. rewrite unsup_nil. split; [intros []|intros [H _]; discriminate]. Qed.

  Lemma candidates_shape svcs q a :
    unsup (candidates svcs q) a <-> shape svcs q (fun t s a => unsup (addr_cand t s) a) a.
  Proof.
    unfold candidates, shape. cbv zeta.
    destruct ((p_type_ q =? C_TYPE_PTR) && text_eqb (lower (p_name q)) C_SERVICE_TYPE_ENUMERATION_NAME); [reflexivity|].
    rewrite !unsup_app, !unsup_if.
    assert (R : unsup (flat_map (fun s =>
                  let hits := filter (fun d => p_type_ d =? p_type_ q) (dns_addresses s) in
                  if nonempty hits then hits else [dns_nsec s (missing_types (map p_type_ (dns_addresses s)))])
                  (filter (fun s => text_eqb (s_server_key s) (lower (p_name q))) svcs)) a <->
                exists s, In s (filter (fun s => text_eqb (s_server_key s) (lower (p_name q))) svcs) /\
                          unsup (addr_cand (p_type_ q) s) a).
    { unfold unsup at 1. split.
      - intros (r & HIn & E). apply in_flat_map in HIn as (s & Hs & HIn). exists s. split; [exact Hs|].
        exists r. split; [exact HIn|exact E].
      - intros (s & Hs & r & HIn & E). exists r. split; [|exact E]. apply in_flat_map. exists s. split; [exact Hs|exact HIn]. }
    rewrite R. tauto.
  Qed.

  Lemma is_in2 t x y : is_in t [x; y] = (t =? x) || (t =? y).
  Proof. unfold is_in. cbn [existsb]. rewrite orb_false_r. reflexivity. Qed.

  Lemma strategies_shape g q a :
    RegInv g -> (Mx (p_type_ q) (get_strategies g q) a <-> shape (registered g) q addr_ans a).
  Proof.
    intros RI. pose proof RI as (ND & KEY & PT & PS & TY & NDT).
    unfold get_strategies, shape. cbv zeta.
    set (t := p_type_ q). set (n := lower (p_name q)).
    destruct ((t =? C_TYPE_PTR) && text_eqb n C_SERVICE_TYPE_ENUMERATION_NAME).
    - (* service type enumeration *)
      assert (R : Mx t (match get_types g with [] => [] | _ => [SEnum (get_types g)] end) a <->
                  unsup (map enum_pointer (get_types g)) a).
      { destruct (get_types g) as [|x l]; [|rewrite Mx_single; apply ans_enum].
        rewrite Mx_nil. cbn [map]. rewrite unsup_nil. tauto. }
      destruct (get_types g) as [|x0 l0] eqn:GT; rewrite <- ?GT in *;
        (rewrite R; rewrite !unsup_map; split;
         [ intros (ty & HIn & E); apply TY in HIn as (s & Hs & <-); exists s; split; [exact Hs|exact E]
         | intros (s & Hs & E); exists (lower (s_type s)); split; [apply TY; exists s; auto|exact E] ]).
    - rewrite !Mx_app, !is_in2.
      (* pointer block *)
      assert (RP : Mx t (if (t =? C_TYPE_PTR) || (t =? C_TYPE_ANY)
                         then match get_infos g (g_types g) n with [] => [] | x :: l0 => [SPointer (x :: l0)] end
                         else []) a <->
                   (t =? C_TYPE_PTR) || (t =? C_TYPE_ANY) = true /\
                   unsup (map dns_pointer (filter (fun s => text_eqb (lower (s_type s)) n) (registered g))) a).
      { destruct ((t =? C_TYPE_PTR) || (t =? C_TYPE_ANY)).
        - rewrite (Mx_list t SPointer); [|cbn; rewrite has_nil; tauto].
          rewrite ans_ptr, (unsup_map_perm dns_pointer _ _ a (PT n)). tauto.
        - rewrite Mx_nil. split; [intros []|intros [H _]; discriminate]. }
      (* address block *)
      assert (RA : Mx t (if (t =? C_TYPE_A) || (t =? C_TYPE_AAAA) || (t =? C_TYPE_ANY)
                         then match get_infos g (g_servers g) n with [] => [] | x :: l0 => [SAddress (x :: l0)] end
                         else []) a <->
                   (t =? C_TYPE_A) || (t =? C_TYPE_AAAA) = true /\
                   exists s, In s (filter (fun s => text_eqb (s_server_key s) n) (registered g)) /\ addr_ans t s a).
      { assert (RA0 : has (map fst (answer_question known t (SAddress (get_infos g (g_servers g) n)))) a <->
                      exists s, In s (filter (fun s => text_eqb (s_server_key s) n) (registered g)) /\ addr_ans t s a).
        { rewrite ans_addr. split; intros (s & HIn & E); exists s; split; auto.
          - eapply Permutation_in; [apply PS|exact HIn].
          - eapply Permutation_in; [apply Permutation_sym; apply PS|exact HIn]. }
        destruct ((t =? C_TYPE_A) || (t =? C_TYPE_AAAA) || (t =? C_TYPE_ANY)) eqn:CA.
        - rewrite (Mx_list t SAddress); [|cbn; rewrite has_nil; tauto].
          rewrite RA0. split; [|tauto]. intros (s & HIn & E). split; [|exists s; auto].
          rewrite <- is_in2. eapply addr_ans_type. exact E.
        - rewrite Mx_nil. split; [intros []|]. intros [H _].
          apply orb_false_iff in CA as [CA _]. rewrite CA in H. discriminate. }
      (* service / text block *)
      assert (RL : forall f : svc -> pyrec,
                 unsup (map f (filter (fun s => text_eqb (s_key s) n) (registered g))) a <->
                 exists s, d_get text_eqb (g_services g) n = Some s /\ unsup [f s] a).
      { intro f. rewrite unsup_map. split.
        - intros (s & HIn & E). apply filter_In in HIn as [HIn Hk]. apply text_eqb_eq in Hk.
          exists s. split; [apply (services_lookup g n s RI); auto|apply unsup_single; exact E].
        - intros (s & G & E). apply (services_lookup g n s RI) in G as [HIn Hk]. apply unsup_single in E.
          exists s. split; [|exact E]. apply filter_In. split; [exact HIn|apply text_eqb_eq; exact Hk]. }
      assert (RS : Mx t (if (t =? C_TYPE_SRV) || (t =? C_TYPE_TXT) || (t =? C_TYPE_ANY)
                         then match d_get text_eqb (g_services g) n with
                              | None => []
                              | Some s => (if (t =? C_TYPE_SRV) || (t =? C_TYPE_ANY) then [SService s] else [])
                                          ++ (if (t =? C_TYPE_TXT) || (t =? C_TYPE_ANY) then [SText s] else [])
                              end
                         else []) a <->
                   ((t =? C_TYPE_SRV) || (t =? C_TYPE_ANY) = true /\
                    unsup (map dns_service (filter (fun s => text_eqb (s_key s) n) (registered g))) a) \/
                   ((t =? C_TYPE_TXT) || (t =? C_TYPE_ANY) = true /\
                    unsup (map dns_text (filter (fun s => text_eqb (s_key s) n) (registered g))) a)).
      { rewrite !RL. destruct (d_get text_eqb (g_services g) n) as [s|].
        - assert (X : forall (f : svc -> pyrec), (exists s0, Some s = Some s0 /\ unsup [f s0] a) <-> unsup [f s] a).
          { intro f. split; [intros (s0 & H & E); inversion H; subst; exact E|intro E; exists s; auto]. }
          rewrite !X.
          destruct (t =? C_TYPE_SRV), (t =? C_TYPE_TXT), (t =? C_TYPE_ANY); cbn [orb app];
            rewrite ?Mx_app, ?Mx_single, ?Mx_nil, ?ans_srv, ?ans_txt;
            change ([SService s; SText s]) with ([SService s] ++ [SText s]);
            rewrite ?Mx_app, ?Mx_single, ?ans_srv, ?ans_txt;
            intuition discriminate.
        - assert (X : forall (f : svc -> pyrec), (exists s0, @None svc = Some s0 /\ unsup [f s0] a) <-> False).
          { intro f. split; [intros (s0 & H & _); discriminate|intros []]. }
          rewrite !X. destruct ((t =? C_TYPE_SRV) || (t =? C_TYPE_TXT) || (t =? C_TYPE_ANY)); rewrite Mx_nil; tauto. }
      rewrite RP, RA, RS. tauto.
  Qed.
End Ans.
