(* C07, lookup half (helper 3): the responder's answer to the lookup's first query WITHOUT the assumption that no host is named
   like the instance: the A / AAAA questions for the instance name may then be answered too (by the address records of services whose
   host name is the instance name); the SRV and TXT answers and the SRV record's additionals are still there. *)
From Coq Require Import ZArith List Bool Lia ZifyBool Permutation.
From ZC Require Import Model.Base Model.PyRec Model.Dict Model.Re Model.Cache Model.Respond Model.Route Model.WireEnc
  Model.OutQueue Model.Query Model.Info Model.Node Gen.Const Gen.Extra Gen.DnsPure Spec.AnswerSpec.
From ZC Require Import Proofs.C20_identity Proofs.C03_reg Proofs.C03_sets Proofs.C03_respond Proofs.C11_lemmas Proofs.C09_register
  Proofs.C07_r1.
Import ListNotations.
Open Scope Z_scope.
Ltac Zify.zify_post_hook ::= Z.to_euclidean_division_equations.

(* ---- dict facts ---- *)
Lemma d_get_set_other {V} (d : list (pyrec * V)) r v x : gen_eq r x = false ->
  d_get gen_eq (d_set gen_eq d r v) x = d_get gen_eq d x.
Proof.
  intro Hrx. induction d as [|[k0 v0] d IH]; cbn [d_set d_get].
  - rewrite Hrx. reflexivity.
  - destruct (gen_eq k0 r) eqn:E0; cbn [d_get].
    + destruct (gen_eq k0 x) eqn:E1; [|reflexivity]. exfalso.
      assert (E : gen_eq r x = true) by (eapply eq_trans_; [rewrite eq_sym_; exact E0|exact E1]). congruence.
    + destruct (gen_eq k0 x); [reflexivity|exact IH].
Qed.

Lemma sadd_keeps l r x : In x l -> In x (sadd l r).
Proof. intro H. unfold sadd. destruct (existsb (fun y => gen_eq y r) l); [exact H|apply in_or_app; left; exact H]. Qed.

(* ---- the keys of an address strategy's answers are address or NSEC records ---- *)
Definition addrish (r : pyrec) : Prop := p_kind r = KAddress \/ p_kind r = KNsec.

Lemma dns_addresses_kind s d : In d (dns_addresses s) -> p_kind d = KAddress.
Proof.
  unfold dns_addresses. intro H. apply in_app_or in H as [H|H]; apply in_map_iff in H as (a & <- & _); reflexivity.
Qed.

Lemma address_answers_keys known ty : forall l acc,
  (forall r, In r (map fst acc) -> addrish r) ->
  forall r, In r (map fst (fold_left (add_address_answers known ty) l acc)) -> addrish r.
Proof.
  induction l as [|s l IH]; intros acc Hacc r Hr; cbn [fold_left] in Hr; [apply Hacc; exact Hr|].
  apply (IH (add_address_answers known ty acc s)); [|exact Hr]. clear r Hr IH.
  unfold add_address_answers.
  set (answers := filter (fun d => (p_type_ d =? ty) && negb (suppresses known d)) (dns_addresses s)).
  assert (Hans : forall d, In d answers -> p_kind d = KAddress).
  { intros d Hd. apply filter_In in Hd as [Hd _]. apply (dns_addresses_kind s). exact Hd. }
  destruct (nonempty answers).
  - generalize dependent acc. clearbody answers. induction answers as [|a answers IHa]; intros acc Hacc; cbn [fold_left]; [exact Hacc|].
    apply IHa; [intros d Hd; apply Hans; right; exact Hd|].
    intros r Hr. unfold as_set in Hr. apply keys_d_set_in in Hr as [Hr| ->]; [apply Hacc; exact Hr|].
    left. apply Hans. left. reflexivity.
  - destruct (existsb (Z.eqb ty) (missing_types (map p_type_ (dns_addresses s)))); [|exact Hacc].
    intros r Hr. unfold as_set in Hr. apply keys_d_set_in in Hr as [Hr| ->]; [apply Hacc; exact Hr|]. right. reflexivity.
Qed.

Lemma addrish_not_srv s r : addrish r -> gen_eq r (dns_service s) = false.
Proof. intros [K|K]; unfold gen_eq; rewrite K; reflexivity. Qed.
Lemma addrish_not_txt s r : addrish r -> gen_eq r (dns_text s) = false.
Proof. intros [K|K]; unfold gen_eq; rewrite K; reflexivity. Qed.

Section General.
  Variables (g : registry) (c : cache) (s : svc) (name : text) (now : Z).
  Hypothesis Hname : lower name = s_key s.
  Hypothesis Hget : d_get text_eqb (g_services g) (s_key s) = Some s.

  Let srv := dns_service s.
  Let txt := dns_text s.
  Let rs := recent c now srv.
  Let rt := recent c now txt.

  (* what stays true while further (address) answers are classified *)
  Definition Inv (qr : qresp) : Prop :=
    d_get gen_eq (q_additionals qr) srv = Some (address_and_nsec s) /\
    In srv (if rs then q_ucast qr else q_mcast_now qr) /\
    In txt (if rt then q_ucast qr else q_mcast_now qr) /\
    q_mcast_aggregate qr = [] /\ q_mcast_last_second qr = [].

  Lemma add_qu_inv : forall (A : answer_set) qr, (forall r, In r (map fst A) -> addrish r) -> Inv qr -> Inv (add_qu c now false qr A).
  Proof.
    unfold add_qu. induction A as [|[r adds] A IH]; intros qr HA HI; cbn [fold_left]; [exact HI|].
    apply IH; [intros x Hx; apply HA; right; exact Hx|].
    assert (Hr : addrish r) by (apply HA; left; reflexivity).
    destruct HI as (I1 & I2 & I3 & I4 & I5). unfold Inv.
    cbn [q_additionals q_ucast q_mcast_now q_mcast_aggregate q_mcast_last_second].
    split; [unfold as_set; rewrite d_get_set_other; [exact I1|apply addrish_not_srv; exact Hr]|].
    split; [|split; [|split; assumption]].
    - destruct rs; destruct (has_mcast_within_one_quarter_ttl c now r); cbn [negb]; try exact I2; apply sadd_keeps; exact I2.
    - destruct rt; destruct (has_mcast_within_one_quarter_ttl c now r); cbn [negb]; try exact I3; apply sadd_keeps; exact I3.
  Qed.

  (* the strategies of the two address questions *)
  Lemma strat_addr_only ty st : ty = C_TYPE_A \/ ty = C_TYPE_AAAA -> In st (get_strategies g (mkq name ty true)) -> exists l, st = SAddress l.
  Proof.
    intros Hty. unfold get_strategies. cbn [mkq p_name p_type_].
    destruct Hty as [-> | ->]; cbn; destruct (get_infos g (g_servers g) (lower name)) as [|x l]; cbn; intro H;
      try (destruct H as [<-|[]]; eexists; reflexivity); destruct H.
  Qed.

  Definition F := rstep c now false (lookup_questions name) [] false.

  Lemma fold_inv : forall X qr,
    (forall q st, In (q, st) X -> DNSEntry_unique q = true /\ exists l, st = SAddress l) -> Inv qr -> Inv (fold_left F X qr).
  Proof.
    induction X as [|[q st] X IH]; intros qr HX HI; cbn [fold_left]; [exact HI|].
    apply IH; [intros q' st' H'; apply HX; right; exact H'|].
    destruct (HX q st (or_introl eq_refl)) as [Hu (l & ->)].
    unfold F, rstep. rewrite Hu. cbn [negb andb]. apply add_qu_inv; [|exact HI].
    unfold answer_question. apply address_answers_keys. intros r [].
  Qed.

  Lemma inv_after_two : Inv (F (F qr_empty (mkq name C_TYPE_SRV true, SService s)) (mkq name C_TYPE_TXT true, SText s)).
  Proof.
    unfold F, rstep.
    change (DNSEntry_unique (mkq name C_TYPE_SRV true)) with true. change (DNSEntry_unique (mkq name C_TYPE_TXT true)) with true.
    cbn [negb andb]. cbn [mkq p_type_]. unfold answer_question.
    change (suppresses [] (dns_service s)) with false. change (suppresses [] (dns_text s)) with false. cbv iota.
    unfold as_set. cbn [d_set]. unfold add_qu, qr_empty. cbn [fold_left].
    cbn [q_additionals q_ucast q_mcast_now q_mcast_aggregate q_mcast_last_second negb].
    unfold as_set. cbn [d_set]. rewrite srv_txt_distinct. unfold Inv, rs, rt, srv, txt, recent.
    destruct (has_mcast_within_one_quarter_ttl c now (dns_service s)),
             (has_mcast_within_one_quarter_ttl c now (dns_text s));
      cbn [negb]; unfold sadd; cbn [existsb app]; rewrite ?srv_txt_distinct; cbn [orb app];
      cbn [d_get q_additionals q_ucast q_mcast_now q_mcast_aggregate q_mcast_last_second]; rewrite ?eq_refl_;
      (split; [reflexivity|]); (split; [cbn [In]; tauto|]); (split; [cbn [In]; tauto|]); split; reflexivity.
  Qed.

  Lemma general_response : exists qr,
    async_response g c [lookup_qmsg name now] false = Some (qa_of qr) /\ Inv qr.
  Proof.
    rewrite async_response_eq. unfold strategies_of, lookup_qmsg. cbn [flat_map qm_questions lookup_questions app].
    rewrite (strat_srv g s name Hname Hget), (strat_txt g s name Hname Hget). cbn [map app].
    cbn [last existsb qm_is_probe orb qm_now qm_questions]. unfold known_answers. cbn [flat_map qm_is_probe qm_answers app].
    fold (lookup_questions name). fold F. cbn [fold_left].
    eexists. split; [reflexivity|]. apply fold_inv; [|apply inv_after_two].
    intros q st H. rewrite !app_nil_r in H. apply in_app_or in H as [H|H]; apply in_map_iff in H as (st' & E & Hst); inversion E; subst q st'.
    - split; [reflexivity|]. apply (strat_addr_only C_TYPE_A st (or_introl eq_refl) Hst).
    - split; [reflexivity|]. apply (strat_addr_only C_TYPE_AAAA st (or_intror eq_refl) Hst).
  Qed.
End General.

(* ---- what a message built from an answer set that holds (r, adds) carries ---- *)
Lemma answer_in_message (a : answer_set) r adds : In (r, adds) a ->
  In r (fst (answers_additionals a)) /\
  forall x, In x adds -> exists y, In y (fst (answers_additionals a) ++ snd (answers_additionals a)) /\ gen_eq y x = true.
Proof.
  intro H. rewrite answers_additionals_eq. cbn [fst snd]. split.
  - change r with (fst (r, adds)). apply in_map. exact H.
  - intros x Hx. apply add_fold_has. apply in_flat_map. exists (r, adds). split; [exact H|exact Hx].
Qed.

Lemma with_additionals_in qr l r adds : In r l -> d_get gen_eq (q_additionals qr) r = Some adds -> In (r, adds) (with_additionals qr l).
Proof.
  intros Hr Hg. unfold with_additionals. apply in_map_iff. exists r. split; [rewrite Hg; reflexivity|exact Hr].
Qed.

Lemma with_additionals_key qr l r : In r l -> In r (map fst (with_additionals qr l)).
Proof. intro Hr. rewrite map_fst_with_additionals. exact Hr. Qed.

(* the node step, from the classified answers *)
Lemma general_nstep n name now id addr rq rd qr :
  n_done n = false -> async_response (n_reg n) (n_cache n) [lookup_qmsg name now] false = Some (qa_of qr) ->
  q_mcast_aggregate qr = [] -> q_mcast_last_second qr = [] ->
  nstep n (LQuery now [lookup_qmsg name now] id addr C_MDNS_PORT rq rd) =
  (n, (match with_additionals qr (q_ucast qr) with
       | [] => []
       | u => [OSend now (Some (addr, C_MDNS_PORT)) (construct_unicast u false (lookup_questions name) id)]
       end)
      ++ (match with_additionals qr (q_mcast_now qr) with
          | [] => []
          | u => [OSend now None (construct_multicast u)]
          end)).
Proof.
  intros Hd Hr Ha Hl. cbn [nstep]. unfold handle_assembled_query.
  change (negb (C_MDNS_PORT =? C_MDNS_PORT)) with false. rewrite Hr.
  unfold qa_of. cbn [qa_ucast qa_mcast_now qa_mcast_aggregate qa_mcast_last_second lookup_qmsg qm_questions qm_now].
  rewrite Ha, Hl. unfold with_additionals at 3 4. cbn [map app]. unfold gate. rewrite Hd.
  destruct (with_additionals qr (q_ucast qr)), (with_additionals qr (q_mcast_now qr)); reflexivity.
Qed.

Print Assumptions general_response.
Print Assumptions general_nstep.
