(* C01 stage 3: one question / one resource record written by DNSOutgoing is read back by the strict parser. *)
From Coq Require Import ZArith List Bool Lia ZifyBool.
From ZC Require Import Model.Base Model.PyRec Model.Dict Model.Re Model.Utf8 Model.Names Model.WireEnc
                       Spec.Rfc1035 Gen.Const Gen.DnsPure Gen.Shapes.
From ZC Require Import Proofs.C01_utf8 Proofs.C01_defs Proofs.C01_name Proofs.C01_rebase Proofs.C01_nsec.
Import ListNotations.
Open Scope Z_scope.
Ltac Zify.zify_post_hook ::= Z.to_euclidean_division_equations.

(* ---------- what the parser is expected to return ---------- *)
Definition class_field (mc : bool) (r : pyrec) : Z :=
  if DNSEntry_unique r && mc then Z.lor (DNSEntry_class_ r) C_CLASS_UNIQUE else DNSEntry_class_ r.

Definition expected_record (mc : bool) (now now' : Z) (r : pyrec) : pyrec :=
  let base := mk now' (p_kind r) (p_name r) (p_type_ r) (class_field mc r) (ttl_field r now) in
  match p_kind r with
  | KAddress => upd_address base (p_address r)
  | KHinfo => upd_hinfo base (p_cpu r) (p_os r)
  | KPointer => upd_alias base (p_alias r)
  | KText => upd_text base (p_text r)
  | KService => upd_srv base (p_priority r) (p_weight r) (p_port r) (p_server r)
  | KNsec => upd_nsec base (p_next_name r) (nsec_types (p_rdtypes r))
  | KQuestion => base
  end.

Definition expected_question (mc : bool) (now' : Z) (q : pyrec) : pyrec :=
  mk now' KQuestion (p_name q) (p_type_ q) (class_field mc q) 0.

(* ---------- well-formedness of the entries ---------- *)
Definition wf_rdata (r : pyrec) : Prop :=
  match p_kind r with
  | KAddress => (p_type_ r = 1 /\ len (p_address r) = 4) \/ (p_type_ r = 28 /\ len (p_address r) = 16)
  | KHinfo => p_type_ r = 13 /\ scalar_text (p_cpu r) = true /\ scalar_text (p_os r) = true
  | KPointer => (p_type_ r = 5 \/ p_type_ r = 12) /\ wf_name (p_alias r)
  | KText => p_type_ r = 16
  | KService => p_type_ r = 33 /\ wf_name (p_server r)
  | KNsec => p_type_ r = 47 /\ wf_name (p_next_name r)
  | KQuestion => False
  end.
Definition wf_record (r : pyrec) : Prop := wf_name (p_name r) /\ wf_rdata r.
Definition wf_question (q : pyrec) : Prop := wf_name (p_name q).

(* ---------- small parser-side facts ---------- *)
Lemma su16_at d h l x i : i = len d -> su16 (d ++ h :: l :: x) i = Some (h * 256 + l).
Proof.
  intros ->. unfold su16. rewrite sbyte_at.
  replace (d ++ h :: l :: x) with ((d ++ [h]) ++ l :: x) by (rewrite <- app_assoc; reflexivity).
  rewrite (sbyte_at' (d ++ [h]) l x (len d + 1)); [reflexivity|].
  unfold len. rewrite app_length. cbn [length]. lia.
Qed.

Lemma int_bytes v : 0 <= v <= 4294967295 ->
  (v / 16777216 * 256 + (v / 65536) mod 256) * 65536 + ((v / 256) mod 256 * 256 + v mod 256) = v.
Proof. intro H. lia. Qed.

(* the fixed part of a resource record, as the parser sees it *)
Definition rr_header (D : bytes) (off : Z) (name : text) (o ty cl t1 t2 rdlen : Z) : Prop :=
  sname D off = Some (name, o) /\ su16 D o = Some ty /\ su16 D (o + 2) = Some cl /\
  su16 D (o + 4) = Some t1 /\ su16 D (o + 6) = Some t2 /\
  su16 D (o + 8) = Some rdlen /\ o + 10 + rdlen <= len D.

Ltac open_srecord H D o rdlen :=
  let H1 := fresh "Hh" in let H2 := fresh "Hh" in let H3 := fresh "Hh" in let H4 := fresh "Hh" in
  let H5 := fresh "Hh" in let H6 := fresh "Hh" in let H7 := fresh "Hh" in
  destruct H as (H1 & H2 & H3 & H4 & H5 & H6 & H7);
  unfold srecord; rewrite H1, H2, H3, H4, H5, H6; cbv zeta;
  replace (slen D <? o + 10 + rdlen) with false by (unfold slen, len in *; lia).

Lemma srecord_a4 D now' off name o cl t1 t2 a :
  rr_header D off name o 1 cl t1 t2 4 -> sslice D (o + 10) 4 = Some a ->
  srecord D now' off = Some (Some (upd_address (mk now' KAddress name 1 cl (t1 * 65536 + t2)) a), o + 10 + 4).
Proof. intros H Ha. open_srecord H D o 4. change (1 =? 1) with true. cbv iota. change (4 =? 4) with true. cbv iota. rewrite Ha. reflexivity. Qed.

Lemma srecord_a16 D now' off name o cl t1 t2 a :
  rr_header D off name o 28 cl t1 t2 16 -> sslice D (o + 10) 16 = Some a ->
  srecord D now' off = Some (Some (upd_address (mk now' KAddress name 28 cl (t1 * 65536 + t2)) a), o + 10 + 16).
Proof.
  intros H Ha. open_srecord H D o 16. change (28 =? 1) with false. change (28 =? 28) with true. cbv iota.
  change (16 =? 16) with true. cbv iota. rewrite Ha. reflexivity.
Qed.

Lemma srecord_ptr D now' off name o ty cl t1 t2 rdlen target :
  ty = 5 \/ ty = 12 ->
  rr_header D off name o ty cl t1 t2 rdlen -> sname D (o + 10) = Some (target, o + 10 + rdlen) ->
  srecord D now' off = Some (Some (upd_alias (mk now' KPointer name ty cl (t1 * 65536 + t2)) target), o + 10 + rdlen).
Proof.
  intros Hty H Ha. open_srecord H D o rdlen.
  replace (ty =? 1) with false by lia. replace (ty =? 28) with false by lia.
  replace ((ty =? 5) || (ty =? 12)) with true by lia. cbv iota.
  rewrite Ha. rewrite Z.eqb_refl. reflexivity.
Qed.

Lemma srecord_txt D now' off name o cl t1 t2 rdlen t :
  rr_header D off name o 16 cl t1 t2 rdlen -> sslice D (o + 10) rdlen = Some t ->
  srecord D now' off = Some (Some (upd_text (mk now' KText name 16 cl (t1 * 65536 + t2)) t), o + 10 + rdlen).
Proof.
  intros H Ha. open_srecord H D o rdlen.
  change (16 =? 1) with false. change (16 =? 28) with false. change ((16 =? 5) || (16 =? 12)) with false.
  change (16 =? 16) with true. cbv iota. rewrite Ha. reflexivity.
Qed.

Lemma srecord_srv D now' off name o cl t1 t2 rdlen pr w po target :
  rr_header D off name o 33 cl t1 t2 rdlen ->
  su16 D (o + 10) = Some pr -> su16 D (o + 10 + 2) = Some w -> su16 D (o + 10 + 4) = Some po ->
  sname D (o + 10 + 6) = Some (target, o + 10 + rdlen) -> 7 <= rdlen ->
  srecord D now' off = Some (Some (upd_srv (mk now' KService name 33 cl (t1 * 65536 + t2)) pr w po target), o + 10 + rdlen).
Proof.
  intros H H1 H2 H3 H4 H5. open_srecord H D o rdlen.
  change (33 =? 1) with false. change (33 =? 28) with false. change ((33 =? 5) || (33 =? 12)) with false.
  change (33 =? 16) with false. change (33 =? 33) with true. cbv iota.
  rewrite H1, H2, H3, H4. rewrite Z.eqb_refl. replace (7 <=? rdlen) with true by lia. reflexivity.
Qed.

Lemma srecord_hinfo D now' off name o cl t1 t2 rdlen cpu os o2 :
  rr_header D off name o 13 cl t1 t2 rdlen ->
  scharstr D (o + 10) (o + 10 + rdlen) = Some (cpu, o2) -> scharstr D o2 (o + 10 + rdlen) = Some (os, o + 10 + rdlen) ->
  srecord D now' off = Some (Some (upd_hinfo (mk now' KHinfo name 13 cl (t1 * 65536 + t2)) cpu os), o + 10 + rdlen).
Proof.
  intros H H1 H2. open_srecord H D o rdlen.
  change (13 =? 1) with false. change (13 =? 28) with false. change ((13 =? 5) || (13 =? 12)) with false.
  change (13 =? 16) with false. change (13 =? 33) with false. change (13 =? 13) with true. cbv iota.
  rewrite H1, H2. rewrite Z.eqb_refl. reflexivity.
Qed.

Lemma srecord_nsec D now' off name o cl t1 t2 rdlen nx o2 ts :
  rr_header D off name o 47 cl t1 t2 rdlen ->
  sname D (o + 10) = Some (nx, o2) -> o2 <= o + 10 + rdlen ->
  swindows D (S (length D)) o2 (o + 10 + rdlen) [] = Some ts ->
  srecord D now' off = Some (Some (upd_nsec (mk now' KNsec name 47 cl (t1 * 65536 + t2)) nx ts), o + 10 + rdlen).
Proof.
  intros H H1 H2 H3. open_srecord H D o rdlen.
  change (47 =? 1) with false. change (47 =? 28) with false. change ((47 =? 5) || (47 =? 12)) with false.
  change (47 =? 16) with false. change (47 =? 33) with false. change (47 =? 13) with false.
  change (47 =? 47) with true. cbv iota.
  rewrite H1. replace (o + 10 + rdlen <? o2) with false by lia. rewrite H3. reflexivity.
Qed.

(* ---------- writer inversions ---------- *)
Lemma write_byte_inv a v b : write_byte a v = Ok b -> 0 <= v <= 255 /\ b = put a [v].
Proof.
  unfold write_byte. destruct ((v <? 0) || (255 <? v)) eqn:E; [discriminate|]. intro H. inversion H. split; [lia|reflexivity].
Qed.

Lemma write_short_inv a v b : write_short a v = Ok b -> 0 <= v <= 65535 /\ b = put a [v / 256; v mod 256].
Proof.
  unfold write_short. destruct ((v <? 0) || (65535 <? v)) eqn:E; [discriminate|]. intro H. inversion H. split; [lia|reflexivity].
Qed.

Lemma write_int_inv a v b : write_int a v = Ok b ->
  0 <= v <= 4294967295 /\ b = put a [v / 16777216; (v / 65536) mod 256; (v / 256) mod 256; v mod 256].
Proof.
  unfold write_int. destruct ((v <? 0) || (4294967295 <? v)) eqn:E; [discriminate|]. intro H. inversion H. split; [lia|reflexivity].
Qed.

Lemma write_record_class_eq mc a r : write_record_class mc a r = write_short a (class_field mc r).
Proof. unfold write_record_class, class_field. cbv zeta. destruct (DNSEntry_unique r && mc); reflexivity. Qed.

Lemma check_fit s st st' : check_limit_or_rollback s st = (st', true) ->
  st' = {| e_rev := e_rev s; e_size := e_size s; e_names := e_names s; e_allow_long := false |} /\
  e_size s <= C_MAX_MSG_ABSOLUTE.
Proof.
  unfold check_limit_or_rollback. cbv zeta.
  destruct (e_size s <=? (if e_allow_long s then C_MAX_MSG_ABSOLUTE else C_MAX_MSG_TYPICAL)) eqn:E; intro H; inversion H.
  split; [reflexivity|]. unfold C_MAX_MSG_ABSOLUTE, C_MAX_MSG_TYPICAL in *. destruct (e_allow_long s); lia.
Qed.

Lemma check_rollback s st st' : check_limit_or_rollback s st = (st', false) ->
  st' = {| e_rev := e_rev st; e_size := e_size st;
           e_names := filter (fun ni => snd ni <? e_size st) (e_names s); e_allow_long := false |}.
Proof.
  unfold check_limit_or_rollback. cbv zeta.
  destruct (e_size s <=? (if e_allow_long s then C_MAX_MSG_ABSOLUTE else C_MAX_MSG_TYPICAL)) eqn:E; intro H; inversion H.
  reflexivity.
Qed.

Section Rec.
  Variable hdr : bytes.
  Hypothesis Hhdr : length hdr = 12%nat.

  Definition Ext (a b : enc) : Prop := exists extra, rev (e_rev b) = rev (e_rev a) ++ extra.

  Lemma Ext_refl a : Ext a a.
  Proof. exists []. rewrite app_nil_r. reflexivity. Qed.
  Lemma Ext_trans a b c : Ext a b -> Ext b c -> Ext a c.
  Proof. intros [x Hx] [y Hy]. exists (x ++ y). rewrite Hy, Hx, app_assoc. reflexivity. Qed.
  Lemma Ext_put a bs : Ext a (put a bs).
  Proof. exists bs. apply put_rev. Qed.

  Lemma lift (P : bytes -> Prop) a b rest : Ext a b -> (forall x, P (buf hdr a ++ x)) -> P (buf hdr b ++ rest).
  Proof.
    intros [x Hx] H. unfold buf in *. rewrite Hx.
    replace ((hdr ++ rev (e_rev a) ++ x) ++ rest) with ((hdr ++ rev (e_rev a)) ++ (x ++ rest))
      by (rewrite <- !app_assoc; reflexivity).
    apply H.
  Qed.

  Definition Step (a b : enc) : Prop :=
    NamesOk hdr b /\ Ext a b /\ Frame a b /\ e_size a <= e_size b /\ e_allow_long b = e_allow_long a.

  Lemma Step_trans a b c : Step a b -> Step b c -> Step a c.
  Proof.
    intros (_ & E1 & F1 & S1 & A1) (N2 & E2 & F2 & S2 & A2).
    split; [exact N2|]. split; [exact (Ext_trans _ _ _ E1 E2)|].
    split.
    - intros n i Hin. destruct (F2 n i Hin) as [Hb|Hb]; [|right; lia]. apply F1. exact Hb.
    - split; [lia|congruence].
  Qed.

  Lemma NamesOk_put a bs : NamesOk hdr a -> NamesOk hdr (put a bs).
  Proof.
    intros (H1 & H2 & H3). split; [exact H1|]. split; [apply put_SizeOk; exact H2|].
    intros n i Hin. rewrite buf_put. apply Valid_app. apply H3. exact Hin.
  Qed.

  Lemma put_step a bs : NamesOk hdr a -> Step a (put a bs).
  Proof.
    intro H. split; [apply NamesOk_put; exact H|]. split; [apply Ext_put|].
    split; [intros n i Hin; left; exact Hin|].
    split; [rewrite put_size; unfold len; lia|reflexivity].
  Qed.

  Lemma NamesOk_buf_len a : NamesOk hdr a -> len (buf hdr a) = e_size a.
  Proof. intros (_ & H2 & _). apply buf_len; assumption. Qed.

  Lemma name_step a b n : NamesOk hdr a -> wf_name n -> e_size a < 16084 -> write_name a n = Ok b ->
    Step a b /\ e_size a < e_size b <= e_size a + 255 /\
    forall x, sname (buf hdr b ++ x) (e_size a) = Some (n, e_size b).
  Proof.
    intros Hok [ls [Hn Hwf]] Hlim Hw. subst n.
    pose proof Hok as (_ & Hs & _).
    destruct (write_name_spec hdr Hhdr a ls b Hok Hwf ltac:(lia) Hw) as (Hok' & Hext & Hal & Htr & Hfr & Hsz).
    pose proof Hwf as (_ & _ & _ & _ & Hwire).
    split.
    - split; [exact Hok'|]. split; [exact Hext|]. split; [exact Hfr|]. split; [lia|exact Hal].
    - split; [lia|]. intro x. apply tail_reads_sname; [exact Hwf|apply tail_reads_app; exact Htr|].
      unfold SizeOk, len in Hs. lia.
  Qed.

  Lemma short_step a v b : NamesOk hdr a -> write_short a v = Ok b ->
    Step a b /\ e_size b = e_size a + 2 /\ 0 <= v <= 65535 /\
    forall x, su16 (buf hdr b ++ x) (e_size a) = Some v.
  Proof.
    intros Hok Hw. apply write_short_inv in Hw. destruct Hw as [Hv ->].
    split; [apply put_step; exact Hok|]. split; [reflexivity|]. split; [exact Hv|].
    intro x. rewrite buf_put, <- app_assoc. cbn [app].
    rewrite su16_at by (symmetry; apply (NamesOk_buf_len a); exact Hok). f_equal. lia.
  Qed.

  Lemma int_step a v b : NamesOk hdr a -> write_int a v = Ok b ->
    exists t1 t2, Step a b /\ e_size b = e_size a + 4 /\ t1 * 65536 + t2 = v /\
    forall x, su16 (buf hdr b ++ x) (e_size a) = Some t1 /\ su16 (buf hdr b ++ x) (e_size a + 2) = Some t2.
  Proof.
    intros Hok Hw. apply write_int_inv in Hw. destruct Hw as [Hv ->].
    exists (v / 16777216 * 256 + (v / 65536) mod 256), ((v / 256) mod 256 * 256 + v mod 256).
    split; [apply put_step; exact Hok|]. split; [reflexivity|]. split; [apply int_bytes; exact Hv|].
    pose proof (NamesOk_buf_len a Hok) as Hlen.
    intro x. rewrite buf_put, <- app_assoc. cbn [app]. split.
    - apply su16_at. symmetry. exact Hlen.
    - replace (buf hdr a ++ v / 16777216 :: (v / 65536) mod 256 :: (v / 256) mod 256 :: v mod 256 :: x)
        with ((buf hdr a ++ [v / 16777216; (v / 65536) mod 256]) ++ (v / 256) mod 256 :: v mod 256 :: x)
        by (rewrite <- app_assoc; reflexivity).
      apply su16_at. unfold len in *. rewrite app_length. cbn [length]. lia.
  Qed.

  Lemma string_step a bs : NamesOk hdr a ->
    Step a (put a bs) /\ e_size (put a bs) = e_size a + len bs /\
    forall x, sslice (buf hdr (put a bs) ++ x) (e_size a) (len bs) = Some bs.
  Proof.
    intro Hok. split; [apply put_step; exact Hok|]. split; [reflexivity|].
    intro x. rewrite buf_put, <- app_assoc. apply sslice_at'; [|reflexivity].
    symmetry. apply (NamesOk_buf_len a); exact Hok.
  Qed.

  Lemma byte_step a v b : NamesOk hdr a -> write_byte a v = Ok b ->
    Step a b /\ e_size b = e_size a + 1 /\ 0 <= v <= 255 /\
    forall x, sbyte (buf hdr b ++ x) (e_size a) = Some v.
  Proof.
    intros Hok Hw. apply write_byte_inv in Hw. destruct Hw as [Hv ->].
    split; [apply put_step; exact Hok|]. split; [reflexivity|]. split; [exact Hv|].
    intro x. rewrite buf_put, <- app_assoc. cbn [app]. apply sbyte_at'.
    symmetry. apply (NamesOk_buf_len a); exact Hok.
  Qed.

  Lemma charstr_step a bs b : NamesOk hdr a -> write_character_string a bs = Ok b ->
    Step a b /\ e_size b = e_size a + 1 + len bs /\ len bs <= 255 /\
    forall x, sbyte (buf hdr b ++ x) (e_size a) = Some (len bs) /\
              sslice (buf hdr b ++ x) (e_size a + 1) (len bs) = Some bs.
  Proof.
    intros Hok Hw. unfold write_character_string in Hw. cbv zeta in Hw.
    destruct (256 <? Z.of_nat (length bs)); [discriminate|].
    destruct (write_byte a (Z.of_nat (length bs))) as [a1|e] eqn:E1; [|discriminate]. cbn [bind] in Hw.
    inversion Hw; subst b. clear Hw. unfold write_string.
    destruct (byte_step a _ a1 Hok E1) as (S1 & Z1 & V1 & B1).
    pose proof S1 as (Hok1 & _).
    destruct (string_step a1 bs Hok1) as (S2 & Z2 & B2).
    split; [exact (Step_trans _ _ _ S1 S2)|]. split; [fold (len bs) in *; lia|]. split; [unfold len; lia|].
    intro x. split.
    - pattern (buf hdr (put a1 bs) ++ x). apply (lift _ a1 _ x (Ext_put a1 bs)). exact B1.
    - rewrite <- Z1. apply B2.
  Qed.

  (* ---------- rdata, kind by kind ---------- *)
  Definition rdata_ok (now' : Z) (mc : bool) (now : Z) (r : pyrec) (D : bytes) (off o : Z) (rdlen : Z) : Prop :=
    forall name cl t1 t2,
      name = p_name r -> cl = class_field mc r -> t1 * 65536 + t2 = ttl_field r now ->
      rr_header D off name o (p_type_ r) cl t1 t2 rdlen ->
      srecord D now' off = Some (Some (expected_record mc now now' r), o + 10 + rdlen).

  Lemma rdata_step now' mc now r a b off o :
    NamesOk hdr a -> wf_rdata r -> e_size a < 15000 -> e_size a = o + 10 ->
    write_rdata a r = Ok b ->
    Step a b /\ forall x, rdata_ok now' mc now r (buf hdr b ++ x) off o (e_size b - e_size a).
  Proof.
    intros Hok Hwf Hlim Ho Hw. unfold wf_rdata in Hwf. unfold write_rdata in Hw.
    unfold rdata_ok, expected_record.
    destruct (p_kind r) eqn:Ekind.
    - contradiction.
    - (* address *)
      inversion Hw; subst b. clear Hw. unfold write_string.
      destruct (string_step a (p_address r) Hok) as (S1 & Z1 & B1).
      split; [exact S1|]. intros x name cl t1 t2 -> -> Httl Hh. rewrite <- Httl.
      replace (e_size (put a (p_address r)) - e_size a) with (len (p_address r)) in * by lia.
      specialize (B1 x). rewrite Ho in B1.
      destruct Hwf as [[Hty Hl]|[Hty Hl]]; rewrite Hty in *; rewrite Hl in *.
      + apply srecord_a4; assumption.
      + apply srecord_a16; assumption.
    - (* hinfo *)
      destruct Hwf as (Hty & Hcpu & Hos).
      destruct (utf8_encode (p_cpu r)) as [cpu|e] eqn:Ecpu; [|discriminate]. cbn [bind] in Hw.
      destruct (write_character_string a cpu) as [a1|e] eqn:E1; [|discriminate]. cbn [bind] in Hw.
      destruct (utf8_encode (p_os r)) as [os|e] eqn:Eos; [|discriminate]. cbn [bind] in Hw.
      destruct (charstr_step a cpu a1 Hok E1) as (S1 & Z1 & L1 & B1).
      pose proof S1 as (Hok1 & X1 & _).
      destruct (charstr_step a1 os b Hok1 Hw) as (S2 & Z2 & L2 & B2).
      pose proof S2 as (Hok2 & X2 & _).
      split; [exact (Step_trans _ _ _ S1 S2)|].
      intros x name cl t1 t2 -> -> Httl Hh. rewrite <- Httl. rewrite Hty in *.
      assert (Hl1 : 0 <= len cpu) by (unfold len; lia). assert (Hl2 : 0 <= len os) by (unfold len; lia).
      apply (srecord_hinfo _ _ _ _ _ _ _ _ _ _ _ (e_size a1) Hh).
      + unfold scharstr. rewrite <- Ho.
        replace (e_size a + (e_size b - e_size a) <=? e_size a) with false by lia.
        assert (Hb : sbyte (buf hdr b ++ x) (e_size a) = Some (len cpu)).
        { pattern (buf hdr b ++ x). apply (lift _ a1 b x X2). intro y. apply B1. }
        rewrite Hb.
        replace (e_size a + (e_size b - e_size a) <? e_size a + 1 + len cpu) with false by lia.
        assert (Hsl : sslice (buf hdr b ++ x) (e_size a + 1) (len cpu) = Some cpu).
        { pattern (buf hdr b ++ x). apply (lift _ a1 b x X2). intro y. apply B1. }
        rewrite Hsl. rewrite (utf8_roundtrip _ _ Hcpu Ecpu). f_equal. f_equal. lia.
      + unfold scharstr. rewrite <- Ho.
        replace (e_size a + (e_size b - e_size a) <=? e_size a1) with false by lia.
        destruct (B2 x) as [Hb Hsl]. rewrite Hb.
        replace (e_size a + (e_size b - e_size a) <? e_size a1 + 1 + len os) with false by lia.
        rewrite Hsl. rewrite (utf8_roundtrip _ _ Hos Eos). f_equal. f_equal. lia.
    - (* pointer *)
      destruct Hwf as (Hty & Hn).
      destruct (name_step a b _ Hok Hn ltac:(lia) Hw) as (S1 & Z1 & B1).
      split; [exact S1|].
      intros x name cl t1 t2 -> -> Httl Hh. rewrite <- Httl.
      apply srecord_ptr; [exact Hty|exact Hh|].
      rewrite <- Ho. replace (e_size a + (e_size b - e_size a)) with (e_size b) by lia. apply B1.
    - (* text *)
      inversion Hw; subst b. clear Hw. unfold write_string.
      destruct (string_step a (p_text r) Hok) as (S1 & Z1 & B1).
      split; [exact S1|]. intros x name cl t1 t2 -> -> Httl Hh. rewrite <- Httl.
      replace (e_size (put a (p_text r)) - e_size a) with (len (p_text r)) in * by lia.
      specialize (B1 x). rewrite Ho in B1. rewrite Hwf in *.
      apply srecord_txt; assumption.
    - (* service *)
      destruct Hwf as (Hty & Hn).
      destruct (write_short a (p_priority r)) as [a1|e] eqn:E1; [|discriminate]. cbn [bind] in Hw.
      destruct (write_short a1 (p_weight r)) as [a2|e] eqn:E2; [|discriminate]. cbn [bind] in Hw.
      destruct (write_short a2 (p_port r)) as [a3|e] eqn:E3; [|discriminate]. cbn [bind] in Hw.
      destruct (short_step a _ a1 Hok E1) as (S1 & Z1 & V1 & B1). pose proof S1 as (Hok1 & X1 & _).
      destruct (short_step a1 _ a2 Hok1 E2) as (S2 & Z2 & V2 & B2). pose proof S2 as (Hok2 & X2 & _).
      destruct (short_step a2 _ a3 Hok2 E3) as (S3 & Z3 & V3 & B3). pose proof S3 as (Hok3 & X3 & _).
      destruct (name_step a3 b _ Hok3 Hn ltac:(lia) Hw) as (S4 & Z4 & B4). pose proof S4 as (Hok4 & X4 & _).
      split; [exact (Step_trans _ _ _ S1 (Step_trans _ _ _ S2 (Step_trans _ _ _ S3 S4)))|].
      intros x name cl t1 t2 -> -> Httl Hh. rewrite <- Httl. rewrite Hty in *.
      apply srecord_srv; [exact Hh| | | | |lia].
      + rewrite <- Ho. pattern (buf hdr b ++ x).
        apply (lift _ a1 b x (Ext_trans _ _ _ X2 (Ext_trans _ _ _ X3 X4))). exact B1.
      + rewrite <- Ho, <- Z1. pattern (buf hdr b ++ x).
        apply (lift _ a2 b x (Ext_trans _ _ _ X3 X4)). exact B2.
      + rewrite <- Ho. replace (e_size a + 4) with (e_size a2) by lia. pattern (buf hdr b ++ x).
        apply (lift _ a3 b x X4). exact B3.
      + rewrite <- Ho. replace (e_size a + 6) with (e_size a3) by lia.
        replace (e_size a + (e_size b - e_size a)) with (e_size b) by lia. apply B4.
    - (* nsec *)
      destruct Hwf as (Hty & Hn).
      destruct (nsec_bitmap (sorted (p_rdtypes r)) (repeat 0 32) 0) as [[bitmap total]|e] eqn:Ebm; [|discriminate].
      cbn [bind] in Hw.
      destruct (total =? 0) eqn:Etot; [discriminate|].
      destruct (nsec_roundtrip _ _ _ Ebm Etot) as (Ht & Hlen & Hbits).
      set (out := firstn (Z.to_nat total) bitmap) in *.
      destruct (write_name a (p_next_name r)) as [a1|e] eqn:E1; [|discriminate]. cbn [bind] in Hw.
      destruct (write_byte a1 0) as [a2|e] eqn:E2; [|discriminate]. cbn [bind] in Hw.
      destruct (write_byte a2 (Z.of_nat (length out))) as [a3|e] eqn:E3; [|discriminate]. cbn [bind] in Hw.
      inversion Hw; subst b. clear Hw. unfold write_string.
      destruct (name_step a a1 _ Hok Hn ltac:(lia) E1) as (S1 & Z1 & B1). pose proof S1 as (Hok1 & X1 & _).
      destruct (byte_step a1 _ a2 Hok1 E2) as (S2 & Z2 & V2 & B2). pose proof S2 as (Hok2 & X2 & _).
      destruct (byte_step a2 _ a3 Hok2 E3) as (S3 & Z3 & V3 & B3). pose proof S3 as (Hok3 & X3 & _).
      destruct (string_step a3 out Hok3) as (S4 & Z4 & B4). pose proof S4 as (Hok4 & X4 & _).
      split; [exact (Step_trans _ _ _ S1 (Step_trans _ _ _ S2 (Step_trans _ _ _ S3 S4)))|].
      intros x name cl t1 t2 -> -> Httl Hh. rewrite <- Httl. rewrite Hty in *.
      set (D := buf hdr (put a3 out) ++ x) in *.
      set (endo := o + 10 + (e_size (put a3 out) - e_size a)) in *.
      assert (Hendo : endo = e_size a1 + 2 + total) by (unfold endo; fold (len out) in *; lia).
      apply (srecord_nsec _ _ _ _ _ _ _ _ _ _ (e_size a1)); [exact Hh| | fold endo; lia |].
      + rewrite <- Ho. unfold D. pattern (buf hdr (put a3 out) ++ x).
        apply (lift _ a1 _ x (Ext_trans _ _ _ X2 (Ext_trans _ _ _ X3 X4))). exact B1.
      + fold endo.
        assert (Hb0 : sbyte D (e_size a1) = Some 0).
        { unfold D. pattern (buf hdr (put a3 out) ++ x). apply (lift _ a2 _ x (Ext_trans _ _ _ X3 X4)). exact B2. }
        assert (Hb1 : sbyte D (e_size a1 + 1) = Some total).
        { rewrite <- Z2. unfold D. pattern (buf hdr (put a3 out) ++ x). apply (lift _ a3 _ x X4).
          fold (len out) in B3. rewrite Hlen in B3. exact B3. }
        assert (Hsl : sslice D (e_size a1 + 2) total = Some out).
        { replace (e_size a1 + 2) with (e_size a3) by lia. rewrite <- Hlen. apply B4. }
        assert (HD : (1 <= length D)%nat).
        { pose proof (sbyte_some _ _ _ Hb0) as Hr. unfold len in Hr. lia. }
        destruct (length D) as [|f] eqn:ElD; [lia|].
        cbn [swindows]. replace (e_size a1 =? endo) with false by lia.
        replace (endo <? e_size a1 + 2) with false by lia.
        rewrite Hb0, Hb1.
        replace ((total <? 1) || (32 <? total) || (endo <? e_size a1 + 2 + total)) with false by lia.
        rewrite Hsl. replace (e_size a1 + 2 + total =? endo) with true by lia.
        cbn [app]. rewrite Hbits. reflexivity.
  Qed.

  (* ---------- one record ---------- *)
  Lemma NamesOk_allow s : NamesOk hdr s ->
    NamesOk hdr {| e_rev := e_rev s; e_size := e_size s; e_names := e_names s; e_allow_long := false |}.
  Proof. intro H. exact H. Qed.

  Lemma NamesOk_rollback st s : NamesOk hdr st -> Frame st s ->
    NamesOk hdr {| e_rev := e_rev st; e_size := e_size st;
                   e_names := filter (fun ni => snd ni <? e_size st) (e_names s); e_allow_long := false |}.
  Proof.
    intros (H1 & H2 & H3) Hfr. split; [exact H1|]. split; [exact H2|].
    intros n i Hin. cbn [e_names] in Hin. apply filter_In in Hin. destruct Hin as [Hin Hlt]. cbn [snd] in Hlt.
    destruct (Hfr n i Hin) as [Hold|Hge]; [|lia].
    apply (H3 n i Hold).
  Qed.

  Lemma record_steps mc st r now now' s1 s2 s3 s4 s7 rdlen :
    NamesOk hdr st -> wf_record r -> e_size st <= C_MAX_MSG_ABSOLUTE ->
    write_name st (p_name r) = Ok s1 ->
    write_short s1 (p_type_ r) = Ok s2 ->
    write_record_class mc s2 r = Ok s3 ->
    write_int s3 (ttl_field r now) = Ok s4 ->
    0 <= rdlen <= 65535 ->
    write_rdata (put s4 [rdlen / 256; rdlen mod 256]) r = Ok s7 ->
    rdlen = e_size s7 - (e_size s4 + 2) ->
    Step st s7 /\ e_size st < e_size s7 /\
    forall x, srecord (buf hdr s7 ++ x) now' (e_size st) = Some (Some (expected_record mc now now' r), e_size s7).
  Proof.
    intros Hok [Hwn Hwr] Hlim E1 E2 E3 E4 Hrd E7 Hrdlen.
    unfold C_MAX_MSG_ABSOLUTE in Hlim.
    rewrite write_record_class_eq in E3.
    destruct (name_step st s1 _ Hok Hwn ltac:(lia) E1) as (S1 & Z1 & B1). pose proof S1 as (Hok1 & X1 & _).
    destruct (short_step s1 _ s2 Hok1 E2) as (S2 & Z2 & V2 & B2). pose proof S2 as (Hok2 & X2 & _).
    destruct (short_step s2 _ s3 Hok2 E3) as (S3 & Z3 & V3 & B3). pose proof S3 as (Hok3 & X3 & _).
    destruct (int_step s3 _ s4 Hok3 E4) as (t1 & t2 & S4 & Z4 & Httl & B4). pose proof S4 as (Hok4 & X4 & _).
    set (s5 := put s4 [rdlen / 256; rdlen mod 256]) in *.
    assert (E5 : write_short s4 rdlen = Ok s5).
    { unfold write_short. replace ((rdlen <? 0) || (65535 <? rdlen)) with false by lia. reflexivity. }
    destruct (short_step s4 _ s5 Hok4 E5) as (S5 & Z5 & V5 & B5). pose proof S5 as (Hok5 & X5 & _).
    destruct (rdata_step now' mc now r s5 s7 (e_size st) (e_size s1) Hok5 Hwr ltac:(lia) ltac:(lia) E7)
      as (S7 & B7). pose proof S7 as (Hok7 & X7 & _ & Z7 & _).
    split; [exact (Step_trans _ _ _ S1 (Step_trans _ _ _ S2 (Step_trans _ _ _ S3
                   (Step_trans _ _ _ S4 (Step_trans _ _ _ S5 S7)))))|].
    split; [lia|].
    intro x. specialize (B7 x (p_name r) (class_field mc r) t1 t2 eq_refl eq_refl Httl).
    replace (e_size s1 + 10 + (e_size s7 - e_size s5)) with (e_size s7) in B7 by lia.
    apply B7. clear B7.
    assert (X57 := X7). assert (X47 := Ext_trans _ _ _ X5 X57). assert (X37 := Ext_trans _ _ _ X4 X47).
    assert (X27 := Ext_trans _ _ _ X3 X37). assert (X17 := Ext_trans _ _ _ X2 X27).
    unfold rr_header.
    split; [pattern (buf hdr s7 ++ x); apply (lift _ s1 s7 x X17); exact B1|].
    split; [pattern (buf hdr s7 ++ x); apply (lift _ s2 s7 x X27); exact B2|].
    split; [rewrite <- Z2; pattern (buf hdr s7 ++ x); apply (lift _ s3 s7 x X37); exact B3|].
    split; [replace (e_size s1 + 4) with (e_size s3) by lia;
            pattern (buf hdr s7 ++ x); apply (lift _ s4 s7 x X47); intro y; apply B4|].
    split; [replace (e_size s1 + 6) with (e_size s3 + 2) by lia;
            pattern (buf hdr s7 ++ x); apply (lift _ s4 s7 x X47); intro y; apply B4|].
    split; [replace (e_size s1 + 8) with (e_size s4) by lia;
            replace (e_size s7 - e_size s5) with rdlen by lia;
            pattern (buf hdr s7 ++ x); apply (lift _ s5 s7 x X57); exact B5|].
    pose proof (NamesOk_buf_len s7 Hok7) as Hl7. unfold len in *. rewrite app_length. lia.
  Qed.

  Theorem write_record_fit : forall mc st r now now' st' rest,
    NamesOk hdr st -> wf_record r -> e_size st <= C_MAX_MSG_ABSOLUTE ->
    write_record mc st r now = Ok (st', true) ->
    NamesOk hdr st' /\ Ext st st' /\ e_size st < e_size st' <= C_MAX_MSG_ABSOLUTE /\ e_allow_long st' = false /\
    srecord (buf hdr st' ++ rest) now' (e_size st) = Some (Some (expected_record mc now now' r), e_size st').
  Proof.
    intros mc st r now now' st' rest Hok Hwf Hlim Hw.
    destruct (write_record_linear mc st r now _ Hw) as (s1 & s2 & s3 & s4 & s7 & rdlen & E1 & E2 & E3 & E4 & Hrd & E7 & Hrdlen & Hres).
    destruct (record_steps mc st r now now' s1 s2 s3 s4 s7 rdlen Hok Hwf Hlim E1 E2 E3 E4 Hrd E7 Hrdlen)
      as ((Hok7 & X7 & _) & Hsz & Hsrec).
    symmetry in Hres. apply check_fit in Hres. destruct Hres as [-> Hle].
    split; [apply NamesOk_allow; exact Hok7|]. split; [exact X7|].
    split; [cbn [e_size]; lia|]. split; [reflexivity|].
    apply Hsrec.
  Qed.

  Theorem write_record_rollback : forall mc st r now st',
    NamesOk hdr st -> wf_record r -> e_size st <= C_MAX_MSG_ABSOLUTE ->
    write_record mc st r now = Ok (st', false) ->
    NamesOk hdr st' /\ e_rev st' = e_rev st /\ e_size st' = e_size st /\ e_allow_long st' = false.
  Proof.
    intros mc st r now st' Hok Hwf Hlim Hw.
    destruct (write_record_linear mc st r now _ Hw) as (s1 & s2 & s3 & s4 & s7 & rdlen & E1 & E2 & E3 & E4 & Hrd & E7 & Hrdlen & Hres).
    destruct (record_steps mc st r now 0 s1 s2 s3 s4 s7 rdlen Hok Hwf Hlim E1 E2 E3 E4 Hrd E7 Hrdlen)
      as ((Hok7 & X7 & F7 & _) & Hsz & Hsrec).
    symmetry in Hres. apply check_rollback in Hres. subst st'.
    split; [apply NamesOk_rollback; assumption|]. repeat split; reflexivity.
  Qed.

  (* ---------- one question ---------- *)
  Lemma question_steps mc st q s1 s2 s3 :
    NamesOk hdr st -> wf_question q -> e_size st <= C_MAX_MSG_ABSOLUTE ->
    write_name st (p_name q) = Ok s1 -> write_short s1 (p_type_ q) = Ok s2 -> write_record_class mc s2 q = Ok s3 ->
    Step st s3 /\ e_size st < e_size s3 /\
    forall x now' n acc, squestions (buf hdr s3 ++ x) now' (S n) (e_size st) acc =
                         squestions (buf hdr s3 ++ x) now' n (e_size s3) (acc ++ [expected_question mc now' q]).
  Proof.
    intros Hok Hwn Hlim E1 E2 E3. unfold C_MAX_MSG_ABSOLUTE in Hlim.
    rewrite write_record_class_eq in E3.
    destruct (name_step st s1 _ Hok Hwn ltac:(lia) E1) as (S1 & Z1 & B1). pose proof S1 as (Hok1 & X1 & _).
    destruct (short_step s1 _ s2 Hok1 E2) as (S2 & Z2 & V2 & B2). pose proof S2 as (Hok2 & X2 & _).
    destruct (short_step s2 _ s3 Hok2 E3) as (S3 & Z3 & V3 & B3). pose proof S3 as (Hok3 & X3 & _).
    split; [exact (Step_trans _ _ _ S1 (Step_trans _ _ _ S2 S3))|]. split; [lia|].
    intros x now' n acc. cbn [squestions].
    assert (H1 : sname (buf hdr s3 ++ x) (e_size st) = Some (p_name q, e_size s1)).
    { pattern (buf hdr s3 ++ x). apply (lift _ s1 s3 x (Ext_trans _ _ _ X2 X3)). exact B1. }
    assert (H2 : su16 (buf hdr s3 ++ x) (e_size s1) = Some (p_type_ q)).
    { pattern (buf hdr s3 ++ x). apply (lift _ s2 s3 x X3). exact B2. }
    rewrite H1, H2. rewrite <- Z2. rewrite (B3 x).
    replace (e_size s1 + 4) with (e_size s3) by lia. reflexivity.
  Qed.

  Theorem write_question_fit : forall mc st q now' st' rest n acc,
    NamesOk hdr st -> wf_question q -> e_size st <= C_MAX_MSG_ABSOLUTE ->
    write_question mc st q = Ok (st', true) ->
    NamesOk hdr st' /\ Ext st st' /\ e_size st < e_size st' <= C_MAX_MSG_ABSOLUTE /\ e_allow_long st' = false /\
    squestions (buf hdr st' ++ rest) now' (S n) (e_size st) acc =
    squestions (buf hdr st' ++ rest) now' n (e_size st') (acc ++ [expected_question mc now' q]).
  Proof.
    intros mc st q now' st' rest n acc Hok Hwf Hlim Hw. unfold write_question in Hw.
    destruct (write_name st (p_name q)) as [s1|e] eqn:E1; [|discriminate]. cbn [bind] in Hw.
    destruct (write_short s1 (p_type_ q)) as [s2|e] eqn:E2; [|discriminate]. cbn [bind] in Hw.
    destruct (write_record_class mc s2 q) as [s3|e] eqn:E3; [|discriminate]. cbn [bind] in Hw.
    inversion Hw as [Hres]. clear Hw.
    destruct (question_steps mc st q s1 s2 s3 Hok Hwf Hlim E1 E2 E3) as ((Hok3 & X3 & _) & Hsz & Hq).
    apply check_fit in Hres. destruct Hres as [-> Hle].
    split; [apply NamesOk_allow; exact Hok3|]. split; [exact X3|].
    split; [cbn [e_size]; lia|]. split; [reflexivity|].
    apply Hq.
  Qed.

  Theorem write_question_rollback : forall mc st q st',
    NamesOk hdr st -> wf_question q -> e_size st <= C_MAX_MSG_ABSOLUTE ->
    write_question mc st q = Ok (st', false) ->
    NamesOk hdr st' /\ e_rev st' = e_rev st /\ e_size st' = e_size st /\ e_allow_long st' = false.
  Proof.
    intros mc st q st' Hok Hwf Hlim Hw. unfold write_question in Hw.
    destruct (write_name st (p_name q)) as [s1|e] eqn:E1; [|discriminate]. cbn [bind] in Hw.
    destruct (write_short s1 (p_type_ q)) as [s2|e] eqn:E2; [|discriminate]. cbn [bind] in Hw.
    destruct (write_record_class mc s2 q) as [s3|e] eqn:E3; [|discriminate]. cbn [bind] in Hw.
    inversion Hw as [Hres]. clear Hw.
    destruct (question_steps mc st q s1 s2 s3 Hok Hwf Hlim E1 E2 E3) as ((Hok3 & X3 & F3 & _) & Hsz & Hq).
    apply check_rollback in Hres. subst st'.
    split; [apply NamesOk_rollback; assumption|]. repeat split; reflexivity.
  Qed.
End Rec.

Print Assumptions write_record_fit.
Print Assumptions write_record_rollback.
Print Assumptions write_question_fit.
Print Assumptions write_question_rollback.
