(* C04, extra: the browser is created later. The node first runs with the browser not registered (bn_on = false,
   nothing is reported), then `blisten` registers it: it first reaps the expired records of the cache (the way the
   periodic cleanup does, the browser not being registered yet, so nothing is reported for them) and then replays the
   cached, unexpired pointer records as Added; then the run continues. No extra hypothesis is needed any more: after
   the purge at time `now` no record of the cache is expired at `now` (purge_no_expired), so the former hypothesis
   `no_stale types now (bn_cache n0)` holds of the purged cache by construction (purge_no_stale), and under the index
   invariant the purge does not raise (purge_inv). *)
From ZC Require Import Model.Base Model.PyRec Model.Dict Model.Re Model.Names Model.Cache Model.Ingest Model.Sched
  Model.Browser Gen.Const Gen.DnsPure Spec.CacheSpec Spec.IngestSpec.
From ZC Require Import Proofs.C20_identity Proofs.C05_index Proofs.C05_cache Proofs.C06_lemmas Proofs.C06_ingest.
From ZC Require Import Proofs.C04_enqueue Proofs.C04_defs Proofs.C04_step Proofs.C04_browser.

Definition bnode_off (types : list text) (s : sched) : bnode :=
  {| bn_cache := empty_cache; bn_sched := s; bn_types := types; bn_on := false |}.

(* no expired-but-unpurged pointer record of a browsed type *)
Definition no_stale (types : list text) (now : Z) (c : cache) : Prop :=
  forall x ty, In x (flat c) -> p_type_ x = C_TYPE_PTR -> In ty types -> rkey x = lower ty ->
    DNSRecord_is_expired x now = false.

(* ------------------------------------------------------------------ *)
(* before registration: the cache evolves, nothing is reported *)
Definition Joff (types : list text) (n : bnode) : Prop :=
  bn_on n = false /\ bn_types n = types /\ Inv (bn_cache n) /\ cache_ok types (bn_cache n).

Lemma Joff_step types n l n' o :
  Joff types n -> label_ok types l -> bstep n l = Some (n', o) -> Joff types n' /\ bo_callbacks o = [].
Proof.
  intros [Hoff [Htys [Hinv Hok]]] Hl Hs. destruct l as [now answers|now|now rnd|now].
  - destruct Hl as [Hwf [Hptr _]]. unfold bstep in Hs.
    destruct (i_final (ingest now answers (bn_cache n))) as [c'|e] eqn:Ef; [|discriminate Hs].
    unfold run_updates in Hs. rewrite Hoff in Hs. cbn [negb] in Hs. inversion Hs; subst n' o.
    unfold Joff. cbn [bn_on bn_types bn_cache bo_callbacks]. split; [|reflexivity].
    split; [reflexivity|]. split; [exact Htys|]. split.
    + apply (resp_inv now answers (bn_cache n) c' Hinv Hwf Ef).
    + apply (resp_ok types now answers (bn_cache n) c' Hinv Hok Hwf Hptr Ef).
  - unfold bstep in Hs.
    destruct (pg_final (purge now (bn_cache n))) as [c'|e] eqn:Ef; [|discriminate Hs].
    unfold run_updates in Hs. rewrite Hoff in Hs. cbn [negb] in Hs. inversion Hs; subst n' o.
    unfold Joff. cbn [bn_on bn_types bn_cache bo_callbacks]. split; [|reflexivity].
    split; [reflexivity|]. split; [exact Htys|]. split.
    + apply (purge_facts now (bn_cache n) c' Hinv Ef).
    + apply (purge_ok types now (bn_cache n) c' Hinv Hok Ef).
  - destruct (bstep_sched n (BStart now rnd) n' o ltac:(repeat intro; discriminate) ltac:(repeat intro; discriminate) Hs)
      as [Ec [Et [Eo Hcb]]].
    split; [|exact Hcb]. unfold Joff. rewrite Ec, Et, Eo. auto.
  - destruct (bstep_sched n (BFire now) n' o ltac:(repeat intro; discriminate) ltac:(repeat intro; discriminate) Hs)
      as [Ec [Et [Eo Hcb]]].
    split; [|exact Hcb]. unfold Joff. rewrite Ec, Et, Eo. auto.
Qed.

Lemma Joff_run types : forall ls n n' cbs,
  (forall l, In l ls -> label_ok types l) -> Joff types n -> brun n ls = Some (n', cbs) ->
  Joff types n' /\ cbs = [].
Proof.
  induction ls as [|l ls IH]; intros n n' cbs Hl HJ Hr.
  - cbn [brun] in Hr. inversion Hr; subst. split; [exact HJ|reflexivity].
  - cbn [brun] in Hr. destruct (bstep n l) as [[n1 o]|] eqn:Hs; [|discriminate Hr].
    destruct (brun n1 ls) as [[n2 cbs1]|] eqn:Hr1; [|discriminate Hr]. inversion Hr; subst n2 cbs.
    destruct (Joff_step types n l n1 o HJ (Hl l (or_introl eq_refl)) Hs) as [HJ1 Ecb].
    destruct (IH n1 n' cbs1 (fun l0 H0 => Hl l0 (or_intror H0)) HJ1 Hr1) as [HJ' Ecbs].
    split; [exact HJ'|]. rewrite Ecb, Ecbs. reflexivity.
Qed.

(* ------------------------------------------------------------------ *)
(* registration *)
Definition listen_recs (types : list text) (now : Z) (c : cache) : list pyrec :=
  flat_map (fun t => filter (fun r => negb (DNSRecord_is_expired r now) && answered_by t C_TYPE_PTR C_CLASS_IN r)
                            (entries_with_name c t)) types.

Definition listen_ops (types : list text) (now : Z) (c : cache) : list op :=
  flat_map (update_ops types now c) (map (fun r => (r, true)) (listen_recs types now c)).

(* after the purge at [now] no record of the cache is expired at [now] *)
Lemma purge_no_expired now c c' : Inv c -> pg_final (purge now c) = Ok c' ->
  forall x, In x (flat c') -> DNSRecord_is_expired x now = false.
Proof.
  intros Hinv Ef x Hx. destruct (purge_facts now c c' Hinv Ef) as [_ [_ F]].
  rewrite F in Hx. apply filter_In in Hx as [_ X]. apply negb_true_iff in X. exact X.
Qed.

Lemma purge_no_stale types now c c' : Inv c -> pg_final (purge now c) = Ok c' -> no_stale types now c'.
Proof.
  intros Hinv Ef x ty Hx _ _ _. exact (purge_no_expired now c c' Hinv Ef x Hx).
Qed.

(* [c0] is the purged cache *)
Lemma blisten_spec n0 now c0 n1 o : pg_final (purge now (bn_cache n0)) = Ok c0 -> blisten n0 now = (n1, o) ->
  bn_cache n1 = c0 /\ bn_types n1 = bn_types n0 /\ bn_on n1 = true /\
  bo_callbacks o = enqueue_all [] (listen_ops (bn_types n0) now c0).
Proof.
  intro Ef. unfold blisten, listen_ops. rewrite Ef. cbv zeta. cbn [bn_cache bn_types bn_on].
  fold (listen_recs (bn_types n0) now c0).
  destruct (listen_recs (bn_types n0) now c0) as [|r0 recs] eqn:Er.
  - intro H. inversion H; subst n1 o. cbn. auto.
  - set (n := {| bn_cache := c0; bn_sched := bn_sched n0; bn_types := bn_types n0; bn_on := true |}).
    pose proof (run_updates_pending n now c0 (map (fun r => (r, true)) (r0 :: recs)) eq_refl) as Hp.
    destruct (run_updates n now c0 (map (fun r => (r, true)) (r0 :: recs))) as [s' p].
    cbn [snd] in Hp. intro H. inversion H; subst n1 o. cbn [bn_cache bn_types bn_on bo_callbacks].
    split; [reflexivity|]. split; [reflexivity|]. split; [reflexivity|]. exact Hp.
Qed.

Section Listen.
  Variables (types : list text) (now : Z) (c : cache).
  Hypothesis Htypes : types_distinct types.
  Hypothesis HInv : Inv c.
  Hypothesis Hok : cache_ok types c.
  Hypothesis Hns : no_stale types now c.

  Lemma listen_recs_in r :
    In r (listen_recs types now c) <->
    In r (flat c) /\ DNSRecord_is_expired r now = false /\ DNSEntry_class_ r = C_CLASS_IN /\
    p_type_ r = C_TYPE_PTR /\ In (p_name r) types.
  Proof using HInv.
    unfold listen_recs. rewrite in_flat_map. split.
    - intros [t [Ht H]]. apply filter_In in H as [Hr Hc].
      rewrite (entries_with_name_flat c t HInv) in Hr. apply filter_In in Hr as [Hr _].
      apply andb_true_iff in Hc as [X A]. apply negb_true_iff in X.
      unfold answered_by in A. apply andb_true_iff in A as [A N]. apply andb_true_iff in A as [C T].
      apply text_eqb_eq in N. apply Z.eqb_eq in C. subst t.
      apply orb_true_iff in T as [T|T]; [apply Z.eqb_eq in T|discriminate T].
      repeat split; auto.
    - intros [Hr [X [C [T Hn]]]]. exists (p_name r). split; [exact Hn|]. apply filter_In. split.
      + rewrite (entries_with_name_flat c _ HInv). apply filter_In. split; [exact Hr|]. apply text_eqb_refl.
      + rewrite X. unfold answered_by. rewrite C, T, Z.eqb_refl, Z.eqb_refl, text_eqb_refl. reflexivity.
  Qed.

  Lemma listen_added ty n :
    In (Added, ty, n) (listen_ops types now c) <->
    exists r, In r (listen_recs types now c) /\ p_type_ r = C_TYPE_PTR /\
              In ty (inter_types types (possible_types (p_name r))) /\ n = p_alias r.
  Proof using.
    unfold listen_ops. rewrite in_flat_map. split.
    - intros [[new on] [Hu H]]. apply in_map_iff in Hu as [r [E Hr]]. inversion E; subst new on.
      apply in_update_ops_added in H as [T [_ [Hty En]]]. exists r. auto.
    - intros [r [Hr [T [Hty En]]]]. exists (r, true). split; [apply in_map_iff; exists r; auto|].
      apply in_update_ops_added. auto.
  Qed.

  Lemma listen_no_removed ty n : ~ In (Removed, ty, n) (listen_ops types now c).
  Proof using.
    unfold listen_ops. intro H. apply in_flat_map in H as [[new on] [Hu H]].
    apply in_map_iff in Hu as [r [E _]]. inversion E; subst new on.
    apply in_update_ops_removed in H as [_ [C _]]. discriminate C.
  Qed.

  (* registration reports exactly the pointers held for the browsed types, each once *)
  Lemma listen_events ty k : In ty types ->
    (events_of (enqueue_all [] (listen_ops types now c)) ty k = [Added] /\ instb c ty k = true) \/
    (events_of (enqueue_all [] (listen_ops types now c)) ty k = [] /\ instb c ty k = false).
  Proof using Htypes HInv Hok Hns.
    intro Hty.
    destruct (events_trichotomy (listen_ops types now c) ty (fun _ => false) (instb c ty)) with (k := k)
      as [[E [_ A]]|[[_ [B _]]|[E B]]].
    - intros n H. split; [reflexivity|]. apply listen_added in H as [r [Hr [T [Hi En]]]]. subst n.
      apply listen_recs_in in Hr as [Hr _].
      destruct (ptr_ok_is_ptr types r (Hok r Hr) T) as [_ Nr].
      destruct (name_ok_inter types _ ty Nr Hi) as [Ety _]. subst ty.
      apply (instb_true c _ _ HInv). exists r. auto.
    - intros n H. exfalso. exact (listen_no_removed _ _ H).
    - intros k0 _ A. apply (instb_true c _ _ HInv) in A. destruct A as [x [Hx [T [N Al]]]].
      destruct (ptr_ok_is_ptr types x (Hok x Hx) T) as [[_ [_ Cx]] Nx].
      assert (En : p_name x = ty) by (apply (name_ok_lower types _ ty Htypes Nx Hty); exact N).
      exists (p_alias x). split; [exact Al|]. apply listen_added. exists x. split.
      + apply listen_recs_in. split; [exact Hx|]. split; [apply (Hns x ty Hx T Hty N)|].
        split; [exact Cx|]. split; [exact T|]. rewrite En. exact Hty.
      + split; [exact T|]. split; [|reflexivity]. rewrite En. apply name_ok_self; [rewrite <- En; exact Nx|exact Hty].
    - intros k0 C. discriminate C.
    - intros c1 c2 n1 n2 H1 H2 A1 A2 El.
      destruct c1; [|exfalso; exact (listen_no_removed _ _ H1)|discriminate A1].
      destruct c2; [|exfalso; exact (listen_no_removed _ _ H2)|discriminate A2].
      apply listen_added in H1 as [r1 [Hr1 [T1 [Hi1 En1]]]]. apply listen_added in H2 as [r2 [Hr2 [T2 [Hi2 En2]]]].
      subst n1 n2. apply listen_recs_in in Hr1 as [Hr1 _]. apply listen_recs_in in Hr2 as [Hr2 _].
      destruct (ptr_ok_is_ptr types r1 (Hok r1 Hr1) T1) as [P1 N1].
      destruct (ptr_ok_is_ptr types r2 (Hok r2 Hr2) T2) as [P2 N2].
      destruct (name_ok_inter types _ ty N1 Hi1) as [E1 _]. destruct (name_ok_inter types _ ty N2 Hi2) as [E2 _].
      assert (E : gen_eq r1 r2 = true).
      { apply ptr_gen_eq; try assumption. unfold rkey, DNSEntry_key. congruence. }
      rewrite (di_unique (flat c) r1 r2 (di_flat c HInv) Hr1 Hr2 E). reflexivity.
    - left. split; [exact E|exact A].
    - discriminate B.
    - right. split; [exact E|symmetry; exact B].
  Qed.
End Listen.

Lemma J_listen types n0 now n1 o :
  types_distinct types -> Joff types n0 -> blisten n0 now = (n1, o) ->
  J types n1 (bo_callbacks o).
Proof.
  intros Htd [_ [Htys [Hinv Hok]]] Hl.
  destruct (purge_inv now (bn_cache n0) Hinv) as [c0 [Ef Hinv0]].
  pose proof (purge_ok types now (bn_cache n0) c0 Hinv Hok Ef) as Hok0.
  pose proof (purge_no_stale types now (bn_cache n0) c0 Hinv Ef) as Hns.
  destruct (blisten_spec n0 now c0 n1 o Ef Hl) as [Ec [Et [Eon Ecb]]]. rewrite Htys in *.
  unfold J. rewrite Ec, Et, Eon, Ecb.
  split; [reflexivity|]. split; [reflexivity|]. split; [exact Hinv0|]. split; [exact Hok0|]. split.
  - intro cb. unfold listen_ops. apply pending_types.
  - intros ty Hty k.
    destruct (listen_events types now c0 Htd Hinv0 Hok0 Hns ty k Hty) as [[E A]|[E A]]; rewrite E, A; reflexivity.
Qed.

(* ------------------------------------------------------------------ *)
(* run ls0 with the browser off, register it at time [now], run ls1 *)
Lemma listen_invariant types s ls0 now ls1 n0 cbs0 n1 o n cbs :
  hyp types (ls0 ++ ls1) ->
  brun (bnode_off types s) ls0 = Some (n0, cbs0) ->
  blisten n0 now = (n1, o) ->
  brun n1 ls1 = Some (n, cbs) ->
  cbs0 = [] /\ J types n (cbs0 ++ bo_callbacks o ++ cbs).
Proof.
  intros Hh Hr0 Hl Hr1. pose proof Hh as [Htd _].
  assert (Hlab : forall l, In l (ls0 ++ ls1) -> label_ok types l) by (apply hyp_labels; exact Hh).
  assert (H0 : Joff types (bnode_off types s)).
  { unfold Joff, bnode_off. cbn. split; [reflexivity|]. split; [reflexivity|]. split; [apply inv_empty|intros x []]. }
  destruct (Joff_run types ls0 _ n0 cbs0 (fun l Hin => Hlab l (in_or_app _ _ _ (or_introl Hin))) H0 Hr0) as [HJ0 E0].
  split; [exact E0|]. subst cbs0. cbn [app].
  apply (J_run types Htd ls1 n1 (bo_callbacks o) n cbs (fun l Hin => Hlab l (in_or_app _ _ _ (or_intror Hin)))).
  - apply (J_listen types n0 now n1 o Htd HJ0 Hl).
  - exact Hr1.
Qed.

Theorem C04_live_listen : forall types s ls0 now ls1 n0 cbs0 n1 o n cbs,
  hyp types (ls0 ++ ls1) ->
  brun (bnode_off types s) ls0 = Some (n0, cbs0) ->
  blisten n0 now = (n1, o) ->
  brun n1 ls1 = Some (n, cbs) ->
  forall ty, In ty types ->
    (forall k, In k (live_after (cbs0 ++ bo_callbacks o ++ cbs) ty) <-> In k (cached_instances (bn_cache n) ty)) /\
    NoDup (live_after (cbs0 ++ bo_callbacks o ++ cbs) ty).
Proof.
  intros types s ls0 now ls1 n0 cbs0 n1 o n cbs Hh Hr0 Hl Hr1.
  apply (J_live types n). apply (listen_invariant types s ls0 now ls1 n0 cbs0 n1 o n cbs Hh Hr0 Hl Hr1).
Qed.

Theorem C04_alternate_listen : forall types s ls0 now ls1 n0 cbs0 n1 o n cbs,
  hyp types (ls0 ++ ls1) ->
  brun (bnode_off types s) ls0 = Some (n0, cbs0) ->
  blisten n0 now = (n1, o) ->
  brun n1 ls1 = Some (n, cbs) ->
  forall ty k, alternates false (events_of (cbs0 ++ bo_callbacks o ++ cbs) ty k).
Proof.
  intros types s ls0 now ls1 n0 cbs0 n1 o n cbs Hh Hr0 Hl Hr1.
  apply (J_alternate types n). apply (listen_invariant types s ls0 now ls1 n0 cbs0 n1 o n cbs Hh Hr0 Hl Hr1).
Qed.

(* ------------------------------------------------------------------ *)
(* non-vacuity / sharpness: the browser is off, one pointer record of the browsed type "_a._tcp.local." (ttl 4500 s,
   received at 0) is cached and never purged; at 5 000 000 ms it is expired but still in the cache (the former no_stale
   hypothesis fails there). Registration reports nothing and leaves a cache without that record. *)
Definition stale_now : Z := 5000000.

Example listen_purges_stale :
  match brun (bnode_off [ex_type] (sched_init 10000 true)) [BResp 0 [ok_rec 120 4500 0]] with
  | Some (n0, cbs0) =>
      cbs0 = [] /\
      flat (bn_cache n0) = [ok_rec 120 4500 0] /\
      DNSRecord_is_expired (ok_rec 120 4500 0) stale_now = true /\
      cached_instances (bn_cache n0) ex_type = [lower (p_alias (ok_rec 120 4500 0))] /\
      (let '(n1, o) := blisten n0 stale_now in
       bo_callbacks o = [] /\ bo_sends o = [] /\ bn_on n1 = true /\
       flat (bn_cache n1) = [] /\ cached_instances (bn_cache n1) ex_type = [])
  | None => False
  end.
Proof. vm_compute. repeat split; reflexivity. Qed.

(* the hypothesis that has been removed was genuinely false on that node *)
Example listen_stale_node_not_no_stale :
  match brun (bnode_off [ex_type] (sched_init 10000 true)) [BResp 0 [ok_rec 120 4500 0]] with
  | Some (n0, _) => ~ no_stale [ex_type] stale_now (bn_cache n0)
  | None => False
  end.
Proof.
  destruct (brun (bnode_off [ex_type] (sched_init 10000 true)) [BResp 0 [ok_rec 120 4500 0]]) as [[n0 cbs0]|] eqn:Hr;
    [|vm_compute in Hr; discriminate Hr].
  intro Hns. vm_compute in Hr. inversion Hr as [[En Ec]]. clear Hr.
  assert (X : DNSRecord_is_expired (ok_rec 120 4500 0) stale_now = false).
  { apply (Hns (ok_rec 120 4500 0) ex_type).
    - rewrite <- En. vm_compute. left. reflexivity.
    - reflexivity.
    - left. reflexivity.
    - vm_compute. reflexivity. }
  vm_compute in X. discriminate X.
Qed.

Print Assumptions C04_live_listen.
Print Assumptions C04_alternate_listen.
