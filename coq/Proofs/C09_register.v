(* C09: registration.  Parts 1-4 (dec, the rename loop, one turn, whole runs of async_check_service) are in
   C09_dec.v, C09_turn.v and C09_run.v; this file has the announcements (5), "one name once" (6), and prints the
   assumptions of every C09 theorem. *)
From Coq Require Import ZArith List Bool Lia ZifyBool Permutation.
From ZC Require Import Model.Base Model.PyRec Model.Dict Model.Re Model.Names Model.Cache Model.Respond Gen.Const Gen.Extra Gen.DnsPure
  Model.Register Spec.AnswerSpec Proofs.C20_identity Proofs.C03_reg Proofs.C09_dec Proofs.C09_turn Proofs.C09_run.
Ltac Zify.zify_post_hook ::= Z.to_euclidean_division_equations.

(* ---- 5. announcements ---- *)
Definition a_record (s : svc) (a : bytes) : pyrec :=
  set_address (blank KAddress (s_server s) C_TYPE_A C_CLASS_IN_UNIQUE (s_host_ttl s)) a.
Definition aaaa_record (s : svc) (a : bytes) : pyrec :=
  set_address (blank KAddress (s_server s) C_TYPE_AAAA C_CLASS_IN_UNIQUE (s_host_ttl s)) a.

(* the NSEC record lists the address types the host does NOT have *)
Definition nsec_part (s : svc) : list pyrec :=
  match s_v4 s, s_v6 s with
  | [], [] => [dns_nsec s [C_TYPE_A; C_TYPE_AAAA]]
  | [], _ :: _ => [dns_nsec s [C_TYPE_A]]
  | _ :: _, [] => [dns_nsec s [C_TYPE_AAAA]]
  | _ :: _, _ :: _ => []
  end.

Lemma seen_types s :
  map p_type_ (dns_addresses s) = map (fun _ => 1) (s_v4 s) ++ map (fun _ => 28) (s_v6 s).
Proof. unfold dns_addresses. rewrite map_app, !map_map. reflexivity. Qed.

Lemma seen_a (v4 v6 : list bytes) :
  existsb (Z.eqb 1) (map (fun _ => 1) v4 ++ map (fun _ => 28) v6) = nonempty v4.
Proof.
  destruct v4 as [|a v4]; [|reflexivity]. cbn [map app nonempty].
  induction v6 as [|b v6 IH]; [reflexivity|exact IH].
Qed.

Lemma seen_aaaa (v4 v6 : list bytes) :
  existsb (Z.eqb 28) (map (fun _ => 1) v4 ++ map (fun _ => 28) v6) = nonempty v6.
Proof.
  induction v4 as [|a v4 IH]; [|exact IH]. destruct v6 as [|b v6]; reflexivity.
Qed.

Lemma missing_types_spec s :
  missing_types (map p_type_ (dns_addresses s)) =
  (if nonempty (s_v4 s) then [] else [C_TYPE_A]) ++ (if nonempty (s_v6 s) then [] else [C_TYPE_AAAA]).
Proof.
  rewrite seen_types. unfold missing_types, C_ADDRESS_RECORD_TYPES. cbn [filter].
  rewrite seen_a, seen_aaaa. destruct (nonempty (s_v4 s)), (nonempty (s_v6 s)); reflexivity.
Qed.

Lemma address_and_nsec_content s :
  address_and_nsec s = map (a_record s) (s_v4 s) ++ map (aaaa_record s) (s_v6 s) ++ nsec_part s.
Proof.
  unfold address_and_nsec. rewrite missing_types_spec. unfold dns_addresses, nsec_part.
  rewrite <- app_assoc. fold (a_record s). fold (aaaa_record s).
  destruct (s_v4 s) as [|a v4], (s_v6 s) as [|b v6]; reflexivity.
Qed.

(* exactly: pointer, service, text, one A per IPv4 address, one AAAA per IPv6 address, the NSEC record *)
Theorem broadcast_records_content : forall s,
  broadcast_records s None true =
  [dns_pointer s; dns_service s; dns_text s] ++ map (a_record s) (s_v4 s) ++ map (aaaa_record s) (s_v6 s) ++ nsec_part s.
Proof. intro s. unfold broadcast_records. rewrite address_and_nsec_content. reflexivity. Qed.

(* the NSEC record is there iff one of the two address families is missing *)
Theorem nsec_iff_family_missing : forall s,
  (exists r, In r (broadcast_records s None true) /\ p_kind r = KNsec) <-> (s_v4 s = [] \/ s_v6 s = []).
Proof.
  intro s. rewrite broadcast_records_content. split.
  - intros (r & HIn & Hk). cbn [app] in HIn.
    destruct HIn as [HIn|[HIn|[HIn|HIn]]]; try (subst r; discriminate Hk).
    apply in_app_or in HIn as [HIn|HIn].
    { apply in_map_iff in HIn as (a & Ha & _). subst r. discriminate Hk. }
    apply in_app_or in HIn as [HIn|HIn].
    { apply in_map_iff in HIn as (a & Ha & _). subst r. discriminate Hk. }
    unfold nsec_part in HIn. destruct (s_v4 s), (s_v6 s); auto. destruct HIn.
  - intro H. unfold nsec_part.
    destruct (s_v4 s) as [|a v4] eqn:E4, (s_v6 s) as [|b v6] eqn:E6.
    + exists (dns_nsec s [C_TYPE_A; C_TYPE_AAAA]). split; [|reflexivity]. cbn. auto.
    + exists (dns_nsec s [C_TYPE_A]). split; [|reflexivity].
      apply in_or_app. right. apply in_or_app. right. apply in_or_app. right. left. reflexivity.
    + exists (dns_nsec s [C_TYPE_AAAA]). split; [|reflexivity].
      apply in_or_app. right. apply in_or_app. right. apply in_or_app. right. left. reflexivity.
    + destruct H as [H|H]; discriminate H.
Qed.

Lemma broadcast_records_override s ov b :
  broadcast_records s ov b = broadcast_records (match ov with Some t => with_ttl s t | None => s end) None b.
Proof. destruct ov; reflexivity. Qed.

Lemma address_and_nsec_unique s r : In r (address_and_nsec s) -> DNSEntry_unique r = true.
Proof.
  rewrite address_and_nsec_content. intro HIn.
  apply in_app_or in HIn as [HIn|HIn].
  { apply in_map_iff in HIn as (a & Ha & _). subst r. reflexivity. }
  apply in_app_or in HIn as [HIn|HIn].
  { apply in_map_iff in HIn as (a & Ha & _). subst r. reflexivity. }
  unfold nsec_part in HIn.
  destruct (s_v4 s), (s_v6 s); cbn [In] in HIn; try (destruct HIn as [HIn|[]]; subst r; reflexivity). destruct HIn.
Qed.

(* the cache-flush bit is set on every record except the (shared) pointer *)
Theorem broadcast_unique_flags : forall s ov b,
  exists p rest, broadcast_records s ov b = p :: rest /\
    p_kind p = KPointer /\ DNSEntry_unique p = false /\
    (forall r, In r rest -> DNSEntry_unique r = true).
Proof.
  intros s ov b. rewrite broadcast_records_override.
  set (s' := match ov with Some t => with_ttl s t | None => s end).
  unfold broadcast_records. cbn [app].
  eexists. eexists. split; [reflexivity|]. split; [reflexivity|]. split; [reflexivity|].
  intros r [HIn|[HIn|HIn]]; try (subst r; reflexivity).
  destruct b; [apply (address_and_nsec_unique s'); exact HIn|destruct HIn].
Qed.

(* with a TTL override the same records go out, each with the overriding TTL *)
Theorem broadcast_override_ttl : forall s t b,
  broadcast_records s (Some t) b = map (fun r => set_lifetime r 0 t) (broadcast_records s None b).
Proof.
  intros s t b. unfold broadcast_records. cbn [app map]. f_equal. f_equal. f_equal.
  destruct b; [|reflexivity].
  rewrite !address_and_nsec_content, !map_app, !map_map. cbn [with_ttl s_v4 s_v6].
  f_equal. f_equal. unfold nsec_part. cbn [with_ttl s_v4 s_v6].
  destruct (s_v4 s), (s_v6 s); reflexivity.
Qed.

Lemma set_lifetime_same_identity r created ttl : gen_eq r (set_lifetime r created ttl) = true.
Proof. apply eq_iff_ident. reflexivity. Qed.

Corollary broadcast_override_identity : forall s t b,
  Forall2 (fun r r' => gen_eq r r' = true /\ p_ttl r' = t /\ DNSEntry_unique r' = DNSEntry_unique r)
          (broadcast_records s None b) (broadcast_records s (Some t) b).
Proof.
  intros s t b. rewrite broadcast_override_ttl.
  induction (broadcast_records s None b) as [|r l IH]; cbn [map]; constructor; [|exact IH].
  split; [apply set_lifetime_same_identity|]. split; reflexivity.
Qed.

(* the announcement task with n broadcasts to go *)
Definition announce_left (s : svc) (n : Z) : bcast :=
  {| bc_svc := s; bc_ttl := None; bc_addresses := true; bc_interval := C_REGISTER_TIME; bc_left := n |}.

Theorem announce_three : forall s a1 a2 a3,
  let recs := broadcast_records s None true in
  announce_task s = announce_left s 3 /\
  bcast_turn (announce_left s 3) a1 = (announce_left s 2, [BSend a1 recs; BSleep 225]) /\
  bcast_turn (announce_left s 2) a2 = (announce_left s 1, [BSend a2 recs; BSleep 225]) /\
  bcast_turn (announce_left s 1) a3 = (announce_left s 0, [BSend a3 recs; BEnd]) /\
  (forall a, bcast_turn (announce_left s 0) a = (announce_left s 0, [BEnd])).
Proof. intros s a1 a2 a3 recs. repeat split. Qed.

(* ---- 6. one name once ---- *)
Theorem register_finish_fails_iff : forall g k,
  (register_finish g k = Raise ServiceNameAlreadyRegistered <->
   In (lower (s_name (ck_svc k))) (map fst (g_services g))) /\
  (forall e, register_finish g k = Raise e -> e = ServiceNameAlreadyRegistered).
Proof.
  intros g k. unfold register_finish, reg_add, d_mem. fold (s_key (ck_svc k)).
  destruct (d_get text_eqb (g_services g) (s_key (ck_svc k))) as [old|] eqn:G; cbn [bind].
  - split; [|intros e H; inversion H; reflexivity].
    split; [|reflexivity]. intros _. apply td_get_in in G.
    change (s_key (ck_svc k)) with (fst (s_key (ck_svc k), old)). apply in_map. exact G.
  - split; [|intros e H; discriminate H].
    split; [discriminate|]. intro HIn. apply td_get_none in G. contradiction.
Qed.

Theorem register_finish_ok : forall g k g' b, register_finish g k = Ok (g', b) ->
  b = announce_task (ck_svc k) /\
  ~ In (lower (s_name (ck_svc k))) (map fst (g_services g)) /\
  g_services g' = g_services g ++ [(lower (s_name (ck_svc k)), ck_svc k)] /\
  (NoDup (map fst (g_services g)) -> NoDup (map fst (g_services g'))) /\
  (J g -> J g' /\ RegInv g').
Proof.
  intros g k g' b H. unfold register_finish in H.
  destruct (reg_add g (ck_svc k)) as [g1|e] eqn:A; cbn [bind] in H; [|discriminate].
  inversion H; subst g1 b. clear H.
  split; [reflexivity|].
  pose proof A as A'. unfold reg_add, d_mem in A'.
  destruct (d_get text_eqb (g_services g) (s_key (ck_svc k))) as [old|] eqn:G; [discriminate|].
  inversion A'; subst g'. cbn [g_services]. clear A'.
  split; [apply td_get_none; exact G|]. split; [reflexivity|]. split.
  - intro ND. apply td_nodup_snoc; assumption.
  - intro HJ. pose proof (J_add g (ck_svc k) _ HJ A) as HJ'. split; [exact HJ'|apply J_RegInv; exact HJ'].
Qed.

(* in particular for every registry that register / update / unregister calls can produce *)
Theorem register_finish_reachable : forall ops k g' b, register_finish (reg_run ops) k = Ok (g', b) ->
  g' = reg_run (ops ++ [OpAdd (ck_svc k)]) /\ RegInv g' /\ NoDup (map fst (g_services g')).
Proof.
  intros ops k g' b H.
  destruct (register_finish_ok _ _ _ _ H) as (_ & _ & _ & _ & HJ).
  destruct (HJ (J_run ops)) as [HJ' HR].
  split; [|split; [exact HR|destruct HJ' as [ND _]; exact ND]].
  unfold reg_run. rewrite fold_left_app. cbn [fold_left reg_step]. fold (reg_run ops).
  unfold register_finish in H. destruct (reg_add (reg_run ops) (ck_svc k)) as [g1|e]; cbn [bind] in H; [|discriminate].
  inversion H. reflexivity.
Qed.

(* "preserves RegInv" is false for an arbitrary registry satisfying RegInv: RegInv tolerates a dangling name in an
   index bucket, and registering that very name then lists the service twice. *)
Definition cx_svc (name : text) : svc :=
  {| s_type := [116]; s_name := name; s_server := [104]; s_port := 80; s_weight := 0; s_priority := 0; s_text := [];
     s_host_ttl := 120; s_other_ttl := 4500; s_v4 := []; s_v6 := [] |}.
Definition cx_reg : registry :=
  {| g_services := [([97], cx_svc [97])];
     g_types := [([116], [[97]; [98]])];       (* "b" is not registered *)
     g_servers := [([104], [[97]])] |}.
Definition cx_chk : chk :=
  {| ck_svc := cx_svc [98]; ck_instance := [98]; ck_num := 2; ck_next := 0; ck_i := 3; ck_allow := true; ck_strict := false |}.

Lemma cx_reg_inv : RegInv cx_reg.
Proof.
  unfold RegInv. split; [|split; [|split; [|split; [|split]]]].
  - cbn. constructor; [intros []|constructor].
  - intros key s [HIn|[]]. inversion HIn. reflexivity.
  - intro key. destruct (text_eqb [116] key) eqn:E.
    + apply text_eqb_eq in E. subst key. vm_compute. apply Permutation_refl.
    + unfold get_infos, registered.
      change (d_get text_eqb (g_types cx_reg) key) with (if text_eqb [116] key then Some [[97]; [98]] else None).
      change (filter (fun s => text_eqb (lower (s_type s)) key) (map snd (g_services cx_reg)))
        with (if text_eqb [116] key then [cx_svc [97]] else []).
      rewrite E. apply Permutation_refl.
  - intro key. destruct (text_eqb [104] key) eqn:E.
    + apply text_eqb_eq in E. subst key. vm_compute. apply Permutation_refl.
    + unfold get_infos, registered.
      change (d_get text_eqb (g_servers cx_reg) key) with (if text_eqb [104] key then Some [[97]] else None).
      change (filter (fun s => text_eqb (s_server_key s) key) (map snd (g_services cx_reg)))
        with (if text_eqb [104] key then [cx_svc [97]] else []).
      rewrite E. apply Permutation_refl.
  - intro t. unfold get_types, registered. cbn [cx_reg g_types g_services map fst snd In]. split.
    + intros [Ht|[]]. subst t. exists (cx_svc [97]). split; [left; reflexivity|reflexivity].
    + intros (s & [Hs|[]] & Ht). subst s. left. exact Ht.
  - cbn. constructor; [intros []|constructor].
Qed.

Theorem register_finish_breaks_bare_RegInv :
  RegInv cx_reg /\
  exists g' b, register_finish cx_reg cx_chk = Ok (g', b) /\ ~ RegInv g'.
Proof.
  split; [exact cx_reg_inv|].
  destruct (register_finish cx_reg cx_chk) as [[g' b]|e] eqn:E; [|vm_compute in E; discriminate E].
  exists g', b. split; [reflexivity|].
  intros (_ & _ & Hty & _). specialize (Hty [116]).
  vm_compute in E. inversion E; subst g' b. clear E.
  apply Permutation_length in Hty. vm_compute in Hty. discriminate Hty.
Qed.

(* ---- the `_partial` names of the statements that needed an extra hypothesis ---- *)
(* 3e: CDone -> ck_i k' = 3 needs ck_i k <= 3 (counterexample turn_done_needs_i_le_3) *)
Theorem turn_done_partial : forall c now k k' outs, check_turn c now k = (k', outs) ->
  ck_i k <= 3 -> ends_with outs CDone -> ck_i k' = 3.
Proof.
  intros c now k k' outs H Hi He. destruct (turn_final c now k k' outs H) as [_ HD].
  destruct (HD He) as [_ H3]. apply H3. exact Hi.
Qed.

(* 6: register_finish preserves the registry invariant J of Proofs/C03_reg.v (which implies RegInv); bare RegInv is
   not preserved (register_finish_breaks_bare_RegInv) *)
Theorem register_finish_preserves_inv_partial : forall g k g' b,
  J g -> register_finish g k = Ok (g', b) -> J g' /\ RegInv g' /\ NoDup (map fst (g_services g')).
Proof.
  intros g k g' b HJ H. destruct (register_finish_ok g k g' b H) as (_ & _ & _ & _ & HJ').
  destruct (HJ' HJ) as [HJ1 HR]. split; [exact HJ1|]. split; [exact HR|]. destruct HJ1 as [ND _]. exact ND.
Qed.

(* ---- every C09 theorem ---- *)
Print Assumptions dec_inj.
Print Assumptions dec_digits_only.
Print Assumptions rename_loop_fuel_ok.
Print Assumptions turn_never_out_of_fuel.
Print Assumptions turn_never_out_of_fuel_gen.
Print Assumptions turn_out_of_fuel_negative_i.
Print Assumptions turn_shape.
Print Assumptions turn_probes.
Print Assumptions turn_conflict_no_rename.
Print Assumptions turn_rename_partial.
Print Assumptions turn_rename_needs_i.
Print Assumptions turn_final.
Print Assumptions turn_done_needs_i_le_3.
Print Assumptions late_turn_sends_probes_back_to_back.
Print Assumptions done_after_three_probes_any_schedule.
Print Assumptions done_after_three_probes_partial.
Print Assumptions quiet_run.
Print Assumptions never_registers_taken_name.
Print Assumptions broadcast_records_content.
Print Assumptions nsec_iff_family_missing.
Print Assumptions broadcast_unique_flags.
Print Assumptions broadcast_override_ttl.
Print Assumptions broadcast_override_identity.
Print Assumptions announce_three.
Print Assumptions register_finish_fails_iff.
Print Assumptions register_finish_ok.
Print Assumptions register_finish_reachable.
Print Assumptions register_finish_breaks_bare_RegInv.
Print Assumptions turn_done_partial.
Print Assumptions register_finish_preserves_inv_partial.
