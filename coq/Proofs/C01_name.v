(* C01 stage 2: one name written through an arbitrary (well-formed) compression dictionary is read back by the
   strict parser. *)
From Coq Require Import ZArith List Bool Lia ZifyBool.
From ZC Require Import Model.Base Model.PyRec Model.Dict Model.Re Model.Utf8 Model.Names Model.WireEnc
                       Spec.Rfc1035 Gen.Const Gen.DnsPure Gen.Shapes.
From ZC Require Import Proofs.C01_utf8 Proofs.C01_defs.
Import ListNotations.
Open Scope Z_scope.
Ltac Zify.zify_post_hook ::= Z.to_euclidean_division_equations.

(* ---------- primitive writers ---------- *)
Lemma write_byte_ok st v : 0 <= v <= 255 -> write_byte st v = Ok (put st [v]).
Proof. intro H. unfold write_byte. replace ((v <? 0) || (255 <? v)) with false by lia. reflexivity. Qed.

Lemma write_utf_ok st l : wf_label l -> write_utf st l = Ok (put (put st [ulen l]) (u8 l)).
Proof.
  intro Hw. pose proof (wf_label_len l Hw) as Hl. unfold write_utf.
  pose proof (wf_label_enc_ok l Hw) as Hok. unfold enc_ok in Hok. rewrite Hok. cbn [bind].
  change (Z.of_nat (length (u8 l))) with (ulen l).
  unfold write_utf_rejects, cmp_apply, write_utf_reject_op, write_utf_reject_bound.
  replace (ulen l >? 63) with false by lia.
  rewrite write_byte_ok by lia. reflexivity.
Qed.

Lemma write_link_ok st i : 0 <= i < 16384 ->
  write_link st i = Ok (put (put st [Z.lor (Z.shiftr i 8) 192]) [Z.land i 255]).
Proof.
  intro H. destruct (link_bytes i H) as (H1 & H2 & _). unfold write_link.
  rewrite write_byte_ok by lia. cbn [bind]. rewrite write_byte_ok by exact H2. reflexivity.
Qed.

Lemma wire_len_cons x r : wire_len (x :: r) = 1 + len x + wire_len r.
Proof. reflexivity. Qed.

Lemma wire_len_pos r : 1 <= wire_len r.
Proof. induction r as [|x r IH]; [cbn; lia|]. rewrite wire_len_cons. unfold len. lia. Qed.

Lemma wire_len_join l0 rest : Forall wf_label (l0 :: rest) ->
  ulen (join_dot (l0 :: rest)) + 2 = wire_len (map u8 (l0 :: rest)).
Proof.
  revert l0. induction rest as [|l1 rest IH]; intros l0 Hwf.
  - cbn [join_dot map]. rewrite wire_len_cons. change (wire_len []) with 1. unfold ulen. lia.
  - rewrite join_ulen by (discriminate || exact Hwf).
    inversion Hwf as [|l' rest' Hl Hrest]; subst l' rest'.
    specialize (IH l1 Hrest). cbn [map] in *. rewrite (wire_len_cons (u8 l0)). fold (ulen l0). lia.
Qed.

Section Name.
  Variable hdr : bytes.
  Hypothesis Hhdr : length hdr = 12%nat.

  Definition EntriesOk (Pend : text -> Z -> Prop) (st : enc) : Prop :=
    forall n idx, In (n, idx) (e_names st) -> Valid (buf hdr st) n idx \/ Pend n idx.

  Definition Frame (st st' : enc) : Prop :=
    forall n idx, In (n, idx) (e_names st') -> In (n, idx) (e_names st) \/ e_size st <= idx.

  (* writing a compression pointer at the current position *)
  Lemma link_case st idx ls e0 (Pend : text -> Z -> Prop) :
    SizeOk st -> e_size st <= 16384 -> ls <> [] ->
    12 <= idx -> reads (buf hdr st) idx ls e0 ->
    EntriesOk Pend st ->
    let st' := put (put st [Z.lor (Z.shiftr idx 8) 192]) [Z.land idx 255] in
    write_link st idx = Ok st' /\
    SizeOk st' /\ rev (e_rev st') = rev (e_rev st) ++ [Z.lor (Z.shiftr idx 8) 192; Z.land idx 255] /\
    e_allow_long st' = e_allow_long st /\ e_names st' = e_names st /\
    tail_reads (buf hdr st') (e_size st) ls (e_size st') /\
    EntriesOk Pend st' /\ e_size st' = e_size st + 2.
  Proof.
    intros Hs Hlim Hne Hidx Hr Hent st'.
    pose proof (reads_pos _ _ _ _ Hr) as Hpos. rewrite (buf_len hdr st Hhdr Hs) in Hpos.
    assert (Hrange : 0 <= idx < 16384) by lia.
    destruct (link_bytes idx Hrange) as (H1 & H2 & H3).
    assert (Hbuf : buf hdr st' = buf hdr st ++ [Z.lor (Z.shiftr idx 8) 192; Z.land idx 255]).
    { unfold st'. rewrite !buf_put, <- app_assoc. reflexivity. }
    split; [apply write_link_ok; exact Hrange|].
    split; [unfold st'; apply put_SizeOk, put_SizeOk; exact Hs|].
    split; [unfold st'; rewrite !put_rev, <- app_assoc; reflexivity|].
    split; [reflexivity|]. split; [reflexivity|].
    assert (Hsz : e_size st' = e_size st + 2).
    { unfold st'. rewrite !put_size. unfold len. cbn [length]. lia. }
    split.
    - right. split; [exact Hne|]. split; [lia|]. exists idx, e0. split.
      + exists (Z.lor (Z.shiftr idx 8) 192), (Z.land idx 255). rewrite Hbuf.
        split; [apply sbyte_at'; symmetry; apply buf_len; assumption|].
        split.
        { change (buf hdr st ++ [Z.lor (Z.shiftr idx 8) 192; Z.land idx 255])
            with (buf hdr st ++ [Z.lor (Z.shiftr idx 8) 192] ++ [Z.land idx 255]).
          rewrite app_assoc. apply sbyte_at'. unfold len. rewrite app_length. cbn [length].
          pose proof (buf_len hdr st Hhdr Hs) as Hb. unfold len in Hb. lia. }
        split; [lia|]. split; [lia|lia].
      + rewrite Hbuf. apply reads_app. exact Hr.
    - split; [|exact Hsz].
      intros n i Hin. destruct (Hent n i Hin) as [Hv|Hp]; [left|right; exact Hp].
      rewrite Hbuf. apply Valid_app. exact Hv.
  Qed.

  Lemma rest_ok : forall labels st ss nl st' (Pend : text -> Z -> Prop),
    SizeOk st -> Forall wf_label labels ->
    (labels <> [] -> e_size st = ss + nl - ulen (join_dot labels)) ->
    ss + nl <= 16384 ->
    EntriesOk Pend st ->
    (forall n idx, Pend n idx -> (length (join_dot labels) < length n)%nat) ->
    write_name_rest st ss nl labels = Ok st' ->
    SizeOk st' /\ (exists extra, rev (e_rev st') = rev (e_rev st) ++ extra) /\
    e_allow_long st' = e_allow_long st /\
    tail_reads (buf hdr st') (e_size st) (map u8 labels) (e_size st') /\
    EntriesOk Pend st' /\ Frame st st' /\
    e_size st < e_size st' <= e_size st + wire_len (map u8 labels).
  Proof.
    induction labels as [|l rest IH]; intros st ss nl st' Pend Hs Hwf Hpos Hlim Hent Hpend Hw.
    - cbn [write_name_rest] in Hw. rewrite write_byte_ok in Hw by lia. inversion Hw; subst st'. clear Hw.
      split; [apply put_SizeOk; exact Hs|].
      split; [exists [0]; apply put_rev|].
      split; [reflexivity|].
      split.
      { left. cbn [map reads]. rewrite buf_put. split.
        - apply sbyte_at'. symmetry. apply buf_len; assumption.
        - rewrite put_size. reflexivity. }
      split.
      { intros n i Hin. destruct (Hent n i Hin) as [Hv|Hp]; [left|right; exact Hp].
        rewrite buf_put. apply Valid_app. exact Hv. }
      split; [intros n i Hin; left; exact Hin|].
      rewrite put_size. cbn. lia.
    - inversion Hwf as [|l' rest' Hl Hrest]; subst l' rest'.
      pose proof (wf_label_len l Hl) as Hll.
      assert (Hcur : e_size st = ss + nl - ulen (join_dot (l :: rest))) by (apply Hpos; discriminate).
      assert (Hule : 0 <= ulen (join_dot (l :: rest))) by (unfold ulen, len; lia).
      cbn [write_name_rest] in Hw.
      destruct (names_get st (join_dot (l :: rest)) =? 0) eqn:Eidx; cbn [negb] in Hw.
      + (* not in the dictionary: register, write the label, continue *)
        pose proof (join_enc_ok (l :: rest) Hwf) as Hok. unfold enc_ok in Hok.
        unfold utf8_len in Hw. rewrite Hok in Hw. cbn [bind] in Hw.
        change (Z.of_nat (length (u8 (join_dot (l :: rest))))) with (ulen (join_dot (l :: rest))) in Hw.
        rewrite <- Hcur in Hw.
        set (st1 := names_set st (join_dot (l :: rest)) (e_size st)) in *.
        rewrite write_utf_ok in Hw by exact Hl. cbn [bind] in Hw.
        set (st2 := put (put st1 [ulen l]) (u8 l)) in *.
        assert (Hs2 : SizeOk st2) by (unfold st2; apply put_SizeOk, put_SizeOk; exact Hs).
        assert (Hbuf2 : buf hdr st2 = buf hdr st ++ [ulen l] ++ u8 l).
        { unfold st2. rewrite !buf_put, <- app_assoc. reflexivity. }
        assert (Hsz2 : e_size st2 = e_size st + 1 + ulen l).
        { unfold st2. rewrite !put_size. unfold ulen, len. cbn [length]. cbn [st1 names_set e_size]. lia. }
        set (Pend' := fun n idx => Pend n idx \/ (n = join_dot (l :: rest) /\ idx = e_size st)).
        assert (Hent2 : EntriesOk Pend' st2).
        { intros n i Hin. change (e_names st2) with (d_set text_eqb (e_names st) (join_dot (l :: rest)) (e_size st)) in Hin.
          apply d_set_In in Hin. destruct Hin as [Hin|Hin].
          - destruct (Hent n i Hin) as [Hv|Hp]; [left|right; left; exact Hp].
            rewrite Hbuf2. apply Valid_app. exact Hv.
          - right. right. exact Hin. }
        assert (Hpend2 : forall n idx, Pend' n idx -> (length (join_dot rest) < length n)%nat).
        { intros n i [Hp|[Hn _]].
          - specialize (Hpend n i Hp). pose proof (join_length_lt l rest (proj1 Hl)). lia.
          - subst n. apply join_length_lt. exact (proj1 Hl). }
        assert (Hpos2 : rest <> [] -> e_size st2 = ss + nl - ulen (join_dot rest)).
        { intro Hne. rewrite (join_ulen l rest Hne Hwf) in Hcur. lia. }
        destruct (IH st2 ss nl st' Pend' Hs2 Hrest Hpos2 Hlim Hent2 Hpend2 Hw)
          as (Hs' & [extra Hext] & Hal & Htr & Hent' & Hfr & Hsz').
        assert (Hbuf' : buf hdr st' = buf hdr st2 ++ extra).
        { unfold buf. rewrite Hext, app_assoc. reflexivity. }
        assert (Hlab : label_at (buf hdr st') (e_size st) (u8 l)).
        { rewrite Hbuf', Hbuf2. apply label_at_app. fold (ulen l). split; [exact Hll|]. split.
          - apply sbyte_at'. symmetry. apply buf_len; assumption.
          - rewrite app_assoc.
            replace ((buf hdr st ++ [ulen l]) ++ u8 l) with ((buf hdr st ++ [ulen l]) ++ u8 l ++ []) by (rewrite app_nil_r; reflexivity).
            apply sslice_at'; [|reflexivity].
            unfold len. rewrite app_length. cbn [length].
            pose proof (buf_len hdr st Hhdr Hs) as Hb. unfold len in Hb. lia. }
        assert (Hreads : reads (buf hdr st') (e_size st) (map u8 (l :: rest)) (e_size st')).
        { cbn [map]. apply reads_cons. split; [exact Hlab|].
          fold (ulen l). replace (e_size st + 1 + ulen l) with (e_size st2) by lia. exact Htr. }
        split; [exact Hs'|].
        split.
        { exists (([ulen l] ++ u8 l) ++ extra). rewrite Hext. unfold st2. rewrite !put_rev.
          cbn [st1 names_set e_rev]. rewrite <- !app_assoc. reflexivity. }
        split; [rewrite Hal; reflexivity|].
        split; [left; exact Hreads|].
        split.
        { intros n i Hin. destruct (Hent' n i Hin) as [Hv|[Hp|[Hn Hi]]].
          - left. exact Hv.
          - right. exact Hp.
          - left. subst n i. split; [unfold SizeOk, len in Hs; lia|].
            exists (e_size st'). rewrite split_join; [exact Hreads|discriminate|apply wf_labels_nodot; exact Hwf]. }
        split.
        { intros n i Hin. destruct (Hfr n i Hin) as [Hin2|Hge].
          - change (e_names st2) with (d_set text_eqb (e_names st) (join_dot (l :: rest)) (e_size st)) in Hin2.
            apply d_set_In in Hin2. destruct Hin2 as [Hin2|[_ Hi]]; [left; exact Hin2|right; lia].
          - right. lia. }
        cbn [map]. rewrite wire_len_cons. fold (ulen l). lia.
      + (* found: compression pointer *)
        set (idx := names_get st (join_dot (l :: rest))) in *.
        assert (Hnz : idx <> 0) by lia.
        pose proof (names_get_nonzero st _ idx eq_refl Hnz) as Hin.
        destruct (Hent _ _ Hin) as [[Hidx [e0 Hr]]|Hp]; [|specialize (Hpend _ _ Hp); lia].
        rewrite split_join in Hr; [|discriminate|apply wf_labels_nodot; exact Hwf].
        assert (Hlim' : e_size st <= 16384) by lia.
        destruct (link_case st idx (map u8 (l :: rest)) e0 Pend Hs Hlim' ltac:(discriminate) Hidx Hr Hent)
          as (Hwl & Hs' & Hrev & Hal & Hnm & Htr & Hent' & Hsz').
        rewrite Hwl in Hw. inversion Hw; subst st'. clear Hw.
        split; [exact Hs'|]. split; [eexists; exact Hrev|]. split; [exact Hal|].
        split; [exact Htr|]. split; [exact Hent'|].
        split; [intros n i Hi; left; rewrite Hnm in Hi; exact Hi|].
        rewrite Hsz'. cbn [map]. rewrite wire_len_cons. fold (ulen l). pose proof (wire_len_pos (map u8 rest)). lia.
  Qed.

  (* the full specification of write_name that the later stages use *)
  Lemma write_name_spec : forall st ls st',
    NamesOk hdr st -> wf_labels ls -> e_size st < 16384 - 300 ->
    write_name st (name_of ls) = Ok st' ->
    NamesOk hdr st' /\ (exists extra, rev (e_rev st') = rev (e_rev st) ++ extra) /\
    e_allow_long st' = e_allow_long st /\
    tail_reads (buf hdr st') (e_size st) (map u8 ls) (e_size st') /\
    Frame st st' /\
    e_size st < e_size st' <= e_size st + wire_len (map u8 ls).
  Proof.
    intros st ls st' (_ & Hs & Hent) (Hne & Hwf & Hcnt & Hlen & Hwire) Hlim Hw.
    unfold write_name, name_of in Hw. rewrite strip_dot_app in Hw.
    assert (Hent0 : EntriesOk (fun _ _ => False) st) by (intros n i Hin; left; apply Hent; exact Hin).
    destruct (names_get st (join_dot ls) =? 0) eqn:Eidx; cbn [negb] in Hw.
    - rewrite split_join in Hw; [|exact Hne|apply wf_labels_nodot; exact Hwf].
      destruct ls as [|l0 rest]; [contradiction|].
      inversion Hwf as [|l' rest' Hl Hrest]; subst l' rest'.
      pose proof (wf_label_len l0 Hl) as Hll.
      set (st1 := names_set st (join_dot (l0 :: rest)) (e_size st)) in *.
      rewrite write_utf_ok in Hw by exact Hl. cbn [bind] in Hw.
      set (st2 := put (put st1 [ulen l0]) (u8 l0)) in *.
      set (nl := ulen (join_dot (l0 :: rest))).
      assert (Hw2 : write_name_rest st2 (e_size st) nl rest = Ok st').
      { destruct rest as [|l1 rest]; [exact Hw|].
        pose proof (join_enc_ok (l0 :: l1 :: rest) Hwf) as Hok. unfold enc_ok in Hok.
        unfold utf8_len in Hw. rewrite Hok in Hw. cbn [bind] in Hw. exact Hw. }
      clear Hw.
      assert (Hs2 : SizeOk st2) by (unfold st2; apply put_SizeOk, put_SizeOk; exact Hs).
      assert (Hbuf2 : buf hdr st2 = buf hdr st ++ [ulen l0] ++ u8 l0).
      { unfold st2. rewrite !buf_put, <- app_assoc. reflexivity. }
      assert (Hsz2 : e_size st2 = e_size st + 1 + ulen l0).
      { unfold st2. rewrite !put_size. unfold ulen, len. cbn [length]. cbn [st1 names_set e_size]. lia. }
      set (Pend' := fun (n : text) (idx : Z) => n = join_dot (l0 :: rest) /\ idx = e_size st).
      assert (Hent2 : EntriesOk Pend' st2).
      { intros n i Hin. change (e_names st2) with (d_set text_eqb (e_names st) (join_dot (l0 :: rest)) (e_size st)) in Hin.
        apply d_set_In in Hin. destruct Hin as [Hin|Hin].
        - left. rewrite Hbuf2. apply Valid_app. apply Hent. exact Hin.
        - right. exact Hin. }
      assert (Hpend2 : forall n idx, Pend' n idx -> (length (join_dot rest) < length n)%nat).
      { intros n i [Hn _]. subst n. apply join_length_lt. exact (proj1 Hl). }
      assert (Hpos2 : rest <> [] -> e_size st2 = e_size st + nl - ulen (join_dot rest)).
      { intro Hne'. unfold nl. rewrite (join_ulen l0 rest Hne' Hwf). lia. }
      assert (Hnl : nl + 2 = wire_len (map u8 (l0 :: rest))).
      { unfold nl. apply wire_len_join. exact Hwf. }
      assert (Hlim2 : e_size st + nl <= 16384) by lia.
      destruct (rest_ok rest st2 (e_size st) nl st' Pend' Hs2 Hrest Hpos2 Hlim2 Hent2 Hpend2 Hw2)
        as (Hs' & [extra Hext] & Hal & Htr & Hent' & Hfr & Hsz').
      assert (Hbuf' : buf hdr st' = buf hdr st2 ++ extra).
      { unfold buf. rewrite Hext, app_assoc. reflexivity. }
      assert (Hlab : label_at (buf hdr st') (e_size st) (u8 l0)).
      { rewrite Hbuf', Hbuf2. apply label_at_app. fold (ulen l0). split; [exact Hll|]. split.
        - apply sbyte_at'. symmetry. apply buf_len; assumption.
        - rewrite app_assoc.
          replace ((buf hdr st ++ [ulen l0]) ++ u8 l0) with ((buf hdr st ++ [ulen l0]) ++ u8 l0 ++ []) by (rewrite app_nil_r; reflexivity).
          apply sslice_at'; [|reflexivity].
          unfold len. rewrite app_length. cbn [length].
          pose proof (buf_len hdr st Hhdr Hs) as Hb. unfold len in Hb. lia. }
      assert (Hreads : reads (buf hdr st') (e_size st) (map u8 (l0 :: rest)) (e_size st')).
      { cbn [map]. apply reads_cons. split; [exact Hlab|].
        fold (ulen l0). replace (e_size st + 1 + ulen l0) with (e_size st2) by lia. exact Htr. }
      split.
      { split; [exact Hhdr|]. split; [exact Hs'|].
        intros n i Hin. destruct (Hent' n i Hin) as [Hv|[Hn Hi]]; [exact Hv|].
        subst n i. split; [unfold SizeOk, len in Hs; lia|].
        exists (e_size st'). rewrite split_join; [exact Hreads|discriminate|apply wf_labels_nodot; exact Hwf]. }
      split.
      { exists (([ulen l0] ++ u8 l0) ++ extra). rewrite Hext. unfold st2. rewrite !put_rev.
        cbn [st1 names_set e_rev]. rewrite <- !app_assoc. reflexivity. }
      split; [rewrite Hal; reflexivity|].
      split; [left; exact Hreads|].
      split.
      { intros n i Hin. destruct (Hfr n i Hin) as [Hin2|Hge].
        - change (e_names st2) with (d_set text_eqb (e_names st) (join_dot (l0 :: rest)) (e_size st)) in Hin2.
          apply d_set_In in Hin2. destruct Hin2 as [Hin2|[_ Hi]]; [left; exact Hin2|right; lia].
        - right. lia. }
      cbn [map] in *. rewrite wire_len_cons in *. fold (ulen l0) in *. lia.
    - set (idx := names_get st (join_dot ls)) in *.
      assert (Hnz : idx <> 0) by lia.
      pose proof (names_get_nonzero st _ idx eq_refl Hnz) as Hin.
      destruct (Hent _ _ Hin) as [Hidx [e0 Hr]].
      rewrite split_join in Hr; [|exact Hne|apply wf_labels_nodot; exact Hwf].
      assert (Hlim' : e_size st <= 16384) by lia.
      assert (Hne' : map u8 ls <> []) by (destruct ls; [contradiction|discriminate]).
      destruct (link_case st idx (map u8 ls) e0 (fun _ _ => False) Hs Hlim' Hne' Hidx Hr Hent0)
        as (Hwl & Hs' & Hrev & Hal & Hnm & Htr & Hent' & Hsz').
      rewrite Hwl in Hw. inversion Hw; subst st'. clear Hw.
      split.
      { split; [exact Hhdr|]. split; [exact Hs'|].
        intros n i Hi. destruct (Hent' n i Hi) as [Hv|[]]. exact Hv. }
      split; [eexists; exact Hrev|]. split; [exact Hal|].
      split; [exact Htr|].
      split; [intros n i Hi; left; rewrite Hnm in Hi; exact Hi|].
      rewrite Hsz'. destruct ls as [|l0 rest]; [contradiction|]. cbn [map]. rewrite wire_len_cons.
      inversion Hwf as [|l' rest' Hl Hrest]; subst l' rest'.
      pose proof (wf_label_len l0 Hl) as Hll. fold (ulen l0). pose proof (wire_len_pos (map u8 rest)). lia.
  Qed.

End Name.

  (* from [tail_reads] to the parser's [sname] *)
  Lemma tail_reads_sname d pos ls e :
    wf_labels ls -> tail_reads d pos (map u8 ls) e -> 0 <= pos ->
    sname d pos = Some (name_of ls, e).
  Proof.
    intros (Hne & Hwf & Hcnt & Hlen & Hwire) Ht Hpos. unfold sname.
    rewrite (tail_reads_sname_labels d pos (map u8 ls) e Ht); [|rewrite map_length; exact Hcnt|exact Hpos].
    rewrite map_map.
    assert (Hdec : map (fun x => utf8_decode_replace (u8 x)) ls = ls).
    { clear - Hwf. induction Hwf as [|l ls Hl Hls IH]; [reflexivity|].
      cbn [map]. rewrite IH. rewrite u8_roundtrip; [reflexivity|]. exact (proj1 (proj2 Hl)). }
    rewrite Hdec, sjoin_join. fold (name_of ls). rewrite map_length.
    change (Z.of_nat (length (name_of ls))) with (len (name_of ls)).
    replace ((128 <? Z.of_nat (length ls)) || (253 <? len (name_of ls)) || (255 <? wire_len (map u8 ls)))
      with false by lia.
    reflexivity.
  Qed.


Theorem write_name_roundtrip : forall hdr st n st' anything, NamesOk hdr st -> wf_name n -> e_size st < 16384 - 300 ->
  write_name st n = Ok st' ->
  NamesOk hdr st' /\ (exists extra, rev (e_rev st') = rev (e_rev st) ++ extra) /\
  sname (buf hdr st' ++ anything) (e_size st) = Some (n, e_size st').
Proof.
  intros hdr st n st' anything Hok [ls [Hn Hwf]] Hlim Hw. subst n.
  pose proof Hok as (Hhdr & Hs & _).
  destruct (write_name_spec hdr Hhdr st ls st' Hok Hwf Hlim Hw) as (Hok' & Hext & _ & Htr & _ & _).
  split; [exact Hok'|]. split; [exact Hext|].
  apply tail_reads_sname; [exact Hwf|apply tail_reads_app; exact Htr|unfold SizeOk, len in Hs; lia].
Qed.

(* a way to establish [wf_name] from the dotted text itself *)
Lemma join_split s : join_dot (split_dot s) = s.
Proof.
  induction s as [|c s IH]; [reflexivity|].
  cbn [split_dot]. destruct (Z.eqb_spec c DOT) as [Hc|Hc].
  - subst c. rewrite join_dot_cons by apply split_dot_nonnil. rewrite IH. reflexivity.
  - destruct (split_dot s) as [|h t] eqn:E; [exfalso; exact (split_dot_nonnil s E)|].
    rewrite <- IH. destruct t as [|y t]; reflexivity.
Qed.

Lemma split_dot_no_dot s : Forall (fun l => ~ In 46 l) (split_dot s).
Proof.
  induction s as [|c s IH]; [constructor; [intros []|constructor]|].
  cbn [split_dot]. unfold DOT. destruct (Z.eqb_spec c 46) as [Hc|Hc].
  - constructor; [intros []|exact IH].
  - destruct (split_dot s) as [|h t]; [constructor; [intros [Hx|[]]; congruence|constructor]|].
    inversion IH as [|h' t' Hh Ht]; subst h' t'.
    constructor; [|exact Ht]. intros [Hx|Hx]; [congruence|exact (Hh Hx)].
Qed.

Lemma wf_name_of_text body :
  Forall (fun l => l <> [] /\ scalar_text l = true /\ ulen l <= 63) (split_dot body) ->
  (length (split_dot body) <= 128)%nat -> len body <= 252 -> wire_len (map u8 (split_dot body)) <= 255 ->
  wf_name (body ++ [46]).
Proof.
  intros Hl Hc Hn Hw. exists (split_dot body). unfold name_of. rewrite join_split. split; [reflexivity|].
  split; [apply split_dot_nonnil|]. split.
  - pose proof (split_dot_no_dot body) as Hd. revert Hl Hd. generalize (split_dot body) as ls.
    induction ls as [|l ls IH]; intros Hl Hd; [constructor|].
    inversion Hl as [|l1 ls1 (H1 & H2 & H3) Hl']; subst l1 ls1.
    inversion Hd as [|l2 ls2 H4 Hd']; subst l2 ls2.
    constructor; [|apply IH; assumption]. unfold wf_label. auto.
  - split; [exact Hc|]. split; [|exact Hw]. unfold name_of. rewrite join_split.
    unfold len in *. rewrite app_length. cbn [length]. lia.
Qed.

Print Assumptions write_name_roundtrip.
