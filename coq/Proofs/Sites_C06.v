(* Sites_C06: the PTR TTL floor of Model.Ingest and the one-second rule of Model.Cache.mark_one are the comparisons record_manager.py and
   _cache.py write now. *)
From ZC Require Import Model.Base Model.PyRec Model.Cache Model.Ingest Gen.Const Gen.DnsPure Gen.Sites.

Lemma tie_ptr_floor r :
  apply_ptr_floor r =
  if negb (p_ttl r =? 0) && (p_type_ r =? C_TYPE_PTR) && sop_apply site_ingest_ptr_min_ttl (p_ttl r) C_DNS_PTR_MIN_TTL
  then set_lifetime r (p_created r) C_DNS_PTR_MIN_TTL else r.
Proof. reflexivity. Qed.

Lemma tie_mark_one now answers c name ty cl :
  mark_one now answers c (name, ty, cl) =
  fold_left (fun c r =>
               if sop_apply site_cache_flush_age (now - DNSRecord_created r) site_cache_flush_age_rhs
                  && negb (existsb (fun a => gen_eq a r) answers)
               then cache_set_lifetime c r now 1 else c)
            (async_all_by_details c name ty cl) c.
Proof. reflexivity. Qed.

Definition sites_C06_counts : Prop :=
  sites_found_C06 = true /\ ncmp_handlers_record_manager_RecordManager_async_updates_from_response = 1 /\
  ncmp_cache_DNSCache_async_mark_unique_records_older_than_1s_to_expire = 1.
Lemma sites_C06_counts_ok : sites_C06_counts. Proof. repeat split; reflexivity. Qed.
