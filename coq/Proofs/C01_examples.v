(* C01: concrete checks. (1) the whole pipeline on a message that needs several datagrams, with name compression,
   rollbacks, every record kind and non-ASCII labels: model-side evidence that the hypotheses of the theorems are
   satisfiable and the statements are the intended ones. (2) the inputs outside [wf_name] on which the round trip
   fails, which is why the hypotheses are there. *)
From Coq Require Import ZArith List Bool Lia.
From ZC Require Import Model.Base Model.PyRec Model.Utf8 Model.Names Model.WireEnc Spec.Rfc1035 Gen.Const.
From ZC Require Import Proofs.C01_defs Proofs.C01_nsec Proofs.C01_record Proofs.C01_packets.
Import ListNotations.
Open Scope Z_scope.

Definition q1 : pyrec :=
  {| p_kind := KQuestion; p_name := [95; 104; 116; 116; 112; 46; 95; 116; 99; 112; 46; 108; 111; 99; 97; 108; 46];
     p_type_ := 12; p_class_ := 1; p_ttl := 120; p_created := 0; p_address := []; p_scope_id := None;
     p_cpu := []; p_os := []; p_alias := [];
     p_text := []; p_priority := 0; p_weight := 0; p_port := 0; p_server := [];
     p_next_name := []; p_rdtypes := [] |}.
Definition q2 : pyrec :=
  {| p_kind := KQuestion; p_name := [99; 97; 102; 233; 46; 95; 104; 116; 116; 112; 46; 95; 116; 99; 112; 46; 108; 111; 99; 97; 108; 46];
     p_type_ := 33; p_class_ := 32769; p_ttl := 120; p_created := 0; p_address := []; p_scope_id := None;
     p_cpu := []; p_os := []; p_alias := [];
     p_text := []; p_priority := 0; p_weight := 0; p_port := 0; p_server := [];
     p_next_name := []; p_rdtypes := [] |}.
Definition a1 : pyrec :=
  {| p_kind := KPointer; p_name := [95; 104; 116; 116; 112; 46; 95; 116; 99; 112; 46; 108; 111; 99; 97; 108; 46];
     p_type_ := 12; p_class_ := 1; p_ttl := 4500; p_created := 0; p_address := []; p_scope_id := None;
     p_cpu := []; p_os := []; p_alias := [99; 97; 102; 233; 46; 95; 104; 116; 116; 112; 46; 95; 116; 99; 112; 46; 108; 111; 99; 97; 108; 46];
     p_text := []; p_priority := 0; p_weight := 0; p_port := 0; p_server := [];
     p_next_name := []; p_rdtypes := [] |}.
Definition a2 : pyrec :=
  {| p_kind := KService; p_name := [99; 97; 102; 233; 46; 95; 104; 116; 116; 112; 46; 95; 116; 99; 112; 46; 108; 111; 99; 97; 108; 46];
     p_type_ := 33; p_class_ := 32769; p_ttl := 120; p_created := 0; p_address := []; p_scope_id := None;
     p_cpu := []; p_os := []; p_alias := [];
     p_text := []; p_priority := 1; p_weight := 2; p_port := 8080; p_server := [104; 111; 115; 116; 45; 128512; 46; 108; 111; 99; 97; 108; 46];
     p_next_name := []; p_rdtypes := [] |}.
Definition a3 : pyrec :=
  {| p_kind := KText; p_name := [99; 97; 102; 233; 46; 95; 104; 116; 116; 112; 46; 95; 116; 99; 112; 46; 108; 111; 99; 97; 108; 46];
     p_type_ := 16; p_class_ := 32769; p_ttl := 120; p_created := 0; p_address := []; p_scope_id := None;
     p_cpu := []; p_os := []; p_alias := [];
     p_text := [3; 97; 61; 98; 0]; p_priority := 0; p_weight := 0; p_port := 0; p_server := [];
     p_next_name := []; p_rdtypes := [] |}.
Definition a4 : pyrec :=
  {| p_kind := KAddress; p_name := [104; 111; 115; 116; 45; 128512; 46; 108; 111; 99; 97; 108; 46];
     p_type_ := 1; p_class_ := 32769; p_ttl := 120; p_created := 0; p_address := [10; 0; 0; 7]; p_scope_id := None;
     p_cpu := []; p_os := []; p_alias := [];
     p_text := []; p_priority := 0; p_weight := 0; p_port := 0; p_server := [];
     p_next_name := []; p_rdtypes := [] |}.
Definition a5 : pyrec :=
  {| p_kind := KAddress; p_name := [104; 111; 115; 116; 45; 128512; 46; 108; 111; 99; 97; 108; 46];
     p_type_ := 28; p_class_ := 32769; p_ttl := 120; p_created := 0; p_address := [254; 128; 0; 0; 0; 0; 0; 0; 1; 2; 3; 4; 5; 6; 7; 8]; p_scope_id := None;
     p_cpu := []; p_os := []; p_alias := [];
     p_text := []; p_priority := 0; p_weight := 0; p_port := 0; p_server := [];
     p_next_name := []; p_rdtypes := [] |}.
Definition a6 : pyrec :=
  {| p_kind := KNsec; p_name := [104; 111; 115; 116; 45; 128512; 46; 108; 111; 99; 97; 108; 46];
     p_type_ := 47; p_class_ := 32769; p_ttl := 120; p_created := 0; p_address := []; p_scope_id := None;
     p_cpu := []; p_os := []; p_alias := [];
     p_text := []; p_priority := 0; p_weight := 0; p_port := 0; p_server := [];
     p_next_name := [104; 111; 115; 116; 45; 128512; 46; 108; 111; 99; 97; 108; 46]; p_rdtypes := [28; 1; 28; 47; 255; 0] |}.
Definition a7 : pyrec :=
  {| p_kind := KHinfo; p_name := [104; 111; 115; 116; 45; 128512; 46; 108; 111; 99; 97; 108; 46];
     p_type_ := 13; p_class_ := 1; p_ttl := 120; p_created := 0; p_address := []; p_scope_id := None;
     p_cpu := [120; 56; 54; 233]; p_os := [108; 105; 110; 117; 120]; p_alias := [];
     p_text := []; p_priority := 0; p_weight := 0; p_port := 0; p_server := [];
     p_next_name := []; p_rdtypes := [] |}.
(* a TXT record of 1300 bytes: two of them never fit into one 1460-byte datagram *)
Definition a8 : pyrec :=
  {| p_kind := KText; p_name := [98; 105; 103; 46; 95; 104; 116; 116; 112; 46; 95; 116; 99; 112; 46; 108; 111; 99; 97; 108; 46];
     p_type_ := 16; p_class_ := 1; p_ttl := 120; p_created := 0; p_address := []; p_scope_id := None;
     p_cpu := []; p_os := []; p_alias := [];
     p_text := repeat 65 1300; p_priority := 0; p_weight := 0; p_port := 0; p_server := [];
     p_next_name := []; p_rdtypes := [] |}.

Definition msg (mc : bool) : out_msg :=
  {| o_flags := 0; o_multicast := mc; o_id := 4660; o_questions := [q1; q2];
     o_answers := [(a1, 0); (a2, 1000); (a8, 0); (a8, 0)];
     o_authorities := [a3; a4; a8; a8]; o_additionals := [a5; a6; a7; a8] |}.

Definition parsed (mc : bool) (now' : Z) : option (list (option (list pyrec * list pyrec))) :=
  match packets_info (msg mc) with
  | Ok ps => Some (map (fun p => match strict_parse (fst p) now' with
                                 | Some sm => Some (s_questions sm, s_records sm) | None => None end) ps)
  | Raise _ => None
  end.
Definition wanted (mc : bool) (now' : Z) : option (list (option (list pyrec * list pyrec))) :=
  match packets_info (msg mc) with
  | Ok ps => Some (map Some (expected_stream mc now' (o_questions (msg mc)) (o_answers (msg mc))
                                             (o_authorities (msg mc)) (o_additionals (msg mc)) (map snd ps)))
  | Raise _ => None
  end.

Example pipeline_multicast : parsed true 77 = wanted true 77 /\ parsed true 77 <> None.
Proof. split; [vm_compute; reflexivity|vm_compute; discriminate]. Qed.
Example pipeline_unicast : parsed false 77 = wanted false 77 /\ parsed false 77 <> None.
Proof. split; [vm_compute; reflexivity|vm_compute; discriminate]. Qed.
Example pipeline_counts :
  match packets_info (msg true) with Ok ps => map snd ps | Raise _ => [] end
  = [(2, 3, 2, 0); (0, 1, 0, 3); (0, 0, 1, 0); (0, 0, 1, 0); (0, 0, 0, 1)]%nat.
Proof. vm_compute. reflexivity. Qed.

(* ---- outside wf_name ---- *)
Definition name_at_12 (n : text) : option (option (text * Z) * Z) :=
  match write_name enc_init n with
  | Ok st => Some (sname (repeat 0 12 ++ rev (e_rev st)) 12, e_size st)
  | Raise _ => None
  end.

(* 5 labels of 30 x U+00E9: 155 characters, but 306 octets on the wire (> 255): the encoder writes it, the strict
   parser rejects it. Hence [wire_len (map u8 ls) <= 255] in wf_labels (implied by the 253-character bound only for
   ASCII names). *)
Definition long_utf8_name : text := [233; 233; 233; 233; 233; 233; 233; 233; 233; 233; 233; 233; 233; 233; 233; 233; 233; 233; 233; 233; 233; 233; 233; 233; 233; 233; 233; 233; 233; 233; 46; 233; 233; 233; 233; 233; 233; 233; 233; 233; 233; 233; 233; 233; 233; 233; 233; 233; 233; 233; 233; 233; 233; 233; 233; 233; 233; 233; 233; 233; 233; 46; 233; 233; 233; 233; 233; 233; 233; 233; 233; 233; 233; 233; 233; 233; 233; 233; 233; 233; 233; 233; 233; 233; 233; 233; 233; 233; 233; 233; 233; 233; 46; 233; 233; 233; 233; 233; 233; 233; 233; 233; 233; 233; 233; 233; 233; 233; 233; 233; 233; 233; 233; 233; 233; 233; 233; 233; 233; 233; 233; 233; 233; 46; 233; 233; 233; 233; 233; 233; 233; 233; 233; 233; 233; 233; 233; 233; 233; 233; 233; 233; 233; 233; 233; 233; 233; 233; 233; 233; 233; 233; 233; 233; 46].
Example wire_length_needed :
  len long_utf8_name = 155 /\ name_at_12 long_utf8_name = Some (None, 318).
Proof. split; vm_compute; reflexivity. Qed.

(* the root name "." is written as TWO zero octets (empty first label, then the terminator): the parser stops after
   the first one. Hence labels must be non-empty. *)
Example root_name_two_zero_bytes : name_at_12 [46] = Some (Some ([46], 13), 14).
Proof. vm_compute. reflexivity. Qed.

(* without the trailing dot the same octets are written and the parser (which always returns the dotted form) gives
   back a different text. Hence the trailing dot in [name_of]. *)
Example trailing_dot_needed :
  name_at_12 [97; 46; 108; 111; 99; 97; 108] = Some (Some ([97; 46; 108; 111; 99; 97; 108; 46], 21), 21).
Proof. vm_compute. reflexivity. Qed.

(* an A record whose address is not 4 octets is written but rejected by the strict parser. Hence wf_rdata. *)
Definition bad_a : pyrec :=
  {| p_kind := KAddress; p_name := [97; 46; 108; 111; 99; 97; 108; 46];
     p_type_ := 1; p_class_ := 1; p_ttl := 120; p_created := 0; p_address := [1; 2; 3; 4; 5]; p_scope_id := None;
     p_cpu := []; p_os := []; p_alias := [];
     p_text := []; p_priority := 0; p_weight := 0; p_port := 0; p_server := [];
     p_next_name := []; p_rdtypes := [] |}.
Example address_length_needed :
  match write_record false enc_init bad_a 0 with
  | Ok (st, fit) => Some (fit, srecord (repeat 0 12 ++ rev (e_rev st)) 0 12)
  | Raise _ => None
  end = Some (true, None).
Proof. vm_compute. reflexivity. Qed.
