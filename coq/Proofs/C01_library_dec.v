(* C01, library half, decoder side: the agreement of the library decoder (Model.WireDec) with the strict parser
   (C02_strict) re-derived WITHOUT the global hypothesis that every octet of the datagram is a byte.
   What the decoder needs is only that the compression-pointer octets met on the name walks are below 256 (that is
   part of [C02_strict_names.walk]); so the theorems below are stated relative to a predicate [NP pos] -- "a name the
   strict parser accepts at [pos] has such a walk" -- which must hold at the positions where the parser reads names
   ([squestionsN], [srecordsN], [parseN]).  Proof scripts follow C02_strict_names / C02_strict. *)
From Coq Require Import ZArith List Bool Lia ZifyBool.
From ZC Require Import Model.Base Model.PyRec Model.Dict Model.Utf8 Model.WireDec Spec.Rfc1035 Gen.Const Gen.Shapes.
From ZC Require Import Proofs.C02_strict_names Proofs.C02_strict.
Ltac Zify.zify_post_hook ::= Z.to_euclidean_division_equations.

Local Strategy 100 [sname read_name scharstr swindows read_bitmap_loop su16 short_at sslice slice sbyte byte_at].
Local Strategy 50 [srecord read_record].
Ltac mstep := cbv [mbind get_off set_off get_cache set_cache ret]; cbn [d_off d_cache].

Section Dec.
  Variable data : bytes.
  Notation dec := utf8_decode_replace.

  Lemma sbyte_pos i b : sbyte data i = Some b -> 0 <= i < slen data.
  Proof.
    unfold sbyte, slen. destruct (i <? 0) eqn:E; [discriminate|]. intro H.
    assert (Hlt : (Z.to_nat i < length data)%nat) by (apply nth_error_Some; congruence).
    lia.
  Qed.

  Lemma walk_pos' pos raw h e : walk data pos raw h e -> 0 <= pos < slen data.
  Proof.
    intro W. inversion W as [p H0 | p n l r hh ee Hb _ _ _ | p n lo r hh ee Hb _ _ _ _ _]; subst;
      eapply sbyte_pos; eassumption.
  Qed.

  (* the library decoder follows the walk (C02_strict_names.dl_loop_walk, without wf_bytes) *)
  Lemma dl_loop_walk' : forall pos raw h e, walk data pos raw h e ->
    forall hops fuel labels seen s,
      (h <= hops)%nat ->
      Z.of_nat fuel > dlen data - pos ->
      CacheOk data (d_cache s) ->
      SeenOk data h seen ->
      (length seen + h <= 128)%nat ->
      (length labels + length raw <= 128)%nat ->
      exists seen' c',
        dl_loop data (decode_labels data hops) fuel pos labels seen s =
          DOk (e, labels ++ map dec raw, seen') {| d_off := d_off s; d_cache := c' |} /\ CacheOk data c'.
  Proof.
    induction 1 as [pos H0 | pos n l raw h e Hb Hn Hs Hw IH | pos n lo raw h e Hb Hn Hlo Hlt H12 Hw IH];
      intros hops fuel labels seen s Hh Hfuel Hc Hseen Hlen Hlab.
    - (* end *)
      pose proof (sbyte_pos _ _ H0) as Hr. unfold slen in Hr. unfold dlen in Hfuel.
      destruct fuel as [|fuel]; [lia|]. cbn [dl_loop].
      unfold dlen. destruct (pos <? Z.of_nat (length data)) eqn:E; [|lia]. cbn [negb].
      unfold mbind. rewrite (byte_at_ok _ _ _ s H0). rewrite Z.eqb_refl.
      exists seen, (d_cache s). split; [|exact Hc].
      cbn [map]. rewrite app_nil_r. unfold ret. destruct s; reflexivity.
    - (* label *)
      pose proof (sbyte_pos _ _ Hb) as Hr. unfold slen in Hr. unfold dlen in Hfuel.
      destruct fuel as [|fuel]; [lia|]. cbn [dl_loop].
      unfold dlen at 1. destruct (pos <? Z.of_nat (length data)) eqn:E; [|lia]. cbn [negb].
      unfold mbind at 1. rewrite (byte_at_ok _ _ _ s Hb).
      destruct (n =? 0) eqn:E0; [lia|]. destruct (n <? 64) eqn:E64; [|lia].
      cbv zeta. change C_DNS_COMPRESSION_HEADER_LEN with 1.
      rewrite (slice_ok _ _ _ _ Hs).
      destruct (IH hops fuel (labels ++ [dec l]) seen s Hh) as (seen' & c' & Hrun & Hc'); auto.
      + unfold dlen. lia.
      + rewrite app_length. cbn [length] in *. lia.
      + exists seen', c'. split; [|exact Hc'].
        rewrite Hrun. cbn [map]. rewrite <- app_assoc. reflexivity.
    - (* pointer *)
      pose proof (sbyte_pos _ _ Hb) as Hr. unfold slen in Hr. unfold dlen in Hfuel.
      set (T := (n - 192) * 256 + lo) in *.
      destruct fuel as [|fuel]; [lia|]. cbn [dl_loop].
      unfold dlen at 1. destruct (pos <? Z.of_nat (length data)) eqn:E; [|lia]. cbn [negb].
      unfold mbind at 1. rewrite (byte_at_ok _ _ _ s Hb).
      destruct (n =? 0) eqn:E0; [lia|]. destruct (n <? 64) eqn:E64; [lia|].
      destruct (n <? 192) eqn:E192; [lia|].
      unfold mbind at 1. rewrite (byte_at_ok _ _ _ s Hlo).
      cbv zeta. rewrite (land63 n Hn). fold T.
      unfold dlen at 1. destruct (T >? Z.of_nat (length data)) eqn:E1; [lia|].
      destruct (T =? pos) eqn:E2; [lia|].
      rewrite (seen_fresh data h seen T raw e Hseen Hw).
      unfold mbind at 1. unfold get_cache at 1.
      change C_MAX_DNS_LABELS with 128. change C_DNS_COMPRESSION_POINTER_LEN with 2.
      unfold cache_get_labels.
      assert (Hmiss :
        exists seen' c',
          (if Z.of_nat (length seen) >=? 128
           then raise IncomingDecodeError
           else x <- decode_labels data hops T [] (seen ++ [T]) ;;
                (let '(_, linked, seen'') := x in
                 c' <- get_cache ;; _ <- set_cache (d_set Z.eqb c' T linked) ;; ret (linked, seen''))) s =
          DOk (map dec raw, seen') {| d_off := d_off s; d_cache := c' |} /\ CacheOk data c').
      { destruct (Z.of_nat (length seen) >=? 128) eqn:E3; [lia|].
        destruct hops as [|hops]; [lia|]. rewrite decode_labels_S.
        destruct (IH hops (S (length data)) [] (seen ++ [T]) s) as (seen' & c' & Hrun & Hc'); auto.
        - lia.
        - pose proof (walk_pos' _ _ _ _ Hw) as Hp. unfold dlen. lia.
        - unfold SeenOk. apply Forall_app. split.
          + apply (SeenOk_le data (S h)); [lia|exact Hseen].
          + constructor; [|constructor]. exists raw, h, e. split; [exact Hw|lia].
        - rewrite app_length. cbn [length]. lia.
        - cbn [length] in *. lia.
        - exists seen', (d_set Z.eqb c' T (map dec raw)). split.
          + unfold mbind at 1. rewrite Hrun. cbn [app].
            unfold mbind, get_cache, set_cache, ret. cbn [d_cache d_off]. reflexivity.
          + eapply CacheOk_set; eauto. }
      assert (Hr2 :
        exists seen' c',
          match d_get Z.eqb (d_cache s) T with
          | Some (l0 :: ls) => ret (l0 :: ls, seen)
          | _ => if Z.of_nat (length seen) >=? 128
                 then raise IncomingDecodeError
                 else x <- decode_labels data hops T [] (seen ++ [T]) ;;
                      (let '(_, linked, seen'') := x in
                       c' <- get_cache ;; _ <- set_cache (d_set Z.eqb c' T linked) ;; ret (linked, seen''))
          end s = DOk (map dec raw, seen') {| d_off := d_off s; d_cache := c' |} /\ CacheOk data c').
      { destruct (d_get Z.eqb (d_cache s) T) as [[|l0 ls]|] eqn:Eg; try exact Hmiss.
        destruct (Hc _ _ _ Eg) as (raw2 & h2 & e2 & W2 & Heq).
        destruct (walk_det _ _ _ _ _ Hw _ _ _ W2) as (E5 & _ & _). subst raw2.
        exists seen, (d_cache s). split; [|exact Hc]. rewrite Heq. unfold ret. destruct s; reflexivity. }
      destruct Hr2 as (seen' & c' & Hrun & Hc').
      exists seen', c'. split; [|exact Hc'].
      unfold mbind at 1. cbv zeta in Hrun. rewrite Hrun.
      destruct (Z.of_nat (length (labels ++ map dec raw)) >? 128) eqn:E6.
      { rewrite app_length, map_length in E6. lia. }
      reflexivity.
  Qed.

  Lemma decode_labels_walk' pos raw h e hops s :
    walk data pos raw h e -> (h < hops)%nat -> (h <= 128)%nat -> (length raw <= 128)%nat -> CacheOk data (d_cache s) ->
    exists seen' c',
      decode_labels data hops pos [] [] s =
        DOk (e, map dec raw, seen') {| d_off := d_off s; d_cache := c' |} /\ CacheOk data c'.
  Proof.
    intros W Hh H128 Hl Hc. destruct hops as [|hops]; [lia|]. rewrite decode_labels_S.
    pose proof (walk_pos' _ _ _ _ W) as Hp.
    destruct (dl_loop_walk' _ _ _ _ W hops (S (length data)) [] [] s) as (seen' & c' & Hrun & Hc'); auto.
    - lia.
    - unfold dlen, slen in *. lia.
    - constructor.
    - exists seen', c'. split; auto.
  Qed.

  (* a name at [pos] whose walk meets only in-range pointer octets *)
  Definition GoodName (pos : Z) (name : text) (e : Z) : Prop :=
    exists raw h, walk data pos raw h e /\ (h <= 128)%nat /\ (length raw <= 128)%nat /\
                  name = sjoin (map dec raw) ++ [46] /\ Z.of_nat (length name) <= 253.

  Definition NP (pos : Z) : Prop := forall name e, sname data pos = Some (name, e) -> GoodName pos name e.

  Theorem good_name_agrees frames pos name e s :
    (129 <= frames)%nat ->
    GoodName pos name e -> d_off s = pos -> CacheOk data (d_cache s) ->
    exists c', read_name data frames s = DOk name {| d_off := e; d_cache := c' |} /\ CacheOk data c'.
  Proof.
    intros Hf (raw & h & W & Hh & Hl & Hname & Hnl) Hoff Hc.
    destruct (decode_labels_walk' pos raw h e frames s W) as (seen' & c' & Hrun & Hc'); auto; [lia|].
    exists (d_set Z.eqb c' pos (map dec raw)). split; [|eapply CacheOk_set; eauto].
    unfold read_name. unfold mbind at 1. unfold get_off at 1. rewrite Hoff.
    unfold mbind at 1. rewrite Hrun.
    unfold mbind, set_off, get_cache, set_cache. cbn [d_off d_cache].
    rewrite join_sjoin. rewrite <- Hname. change C_MAX_NAME_LENGTH with 253.
    destruct (Z.of_nat (length name) >? 253) eqn:E; [lia|]. reflexivity.
  Qed.

  Variable now : Z.
  Variable frames : nat.
  Hypothesis Hframes : (130 <= frames)%nat.

  Lemma name_ok' pos name e c :
    NP pos -> sname data pos = Some (name, e) -> CacheOk data c ->
    exists c', read_name data frames {| d_off := pos; d_cache := c |} = DOk name {| d_off := e; d_cache := c' |}
               /\ CacheOk data c'.
  Proof.
    intros HN Hs Hc. eapply (good_name_agrees frames pos name e); eauto. lia.
  Qed.

  (* ---------------- the positions at which names are read ---------------- *)
  Fixpoint squestionsN (n : nat) (off : Z) : Prop :=
    match n with
    | O => True
    | S n' => NP off /\ forall name o, sname data off = Some (name, o) -> squestionsN n' (o + 4)
    end.

  Definition rdN (ty rd : Z) : Prop := (ty = 5 \/ ty = 12 \/ ty = 47 -> NP rd) /\ (ty = 33 -> NP (rd + 6)).

  Definition srecordN (off : Z) : Prop :=
    NP off /\ forall name o ty, sname data off = Some (name, o) -> su16 data o = Some ty -> rdN ty (o + 10).

  Fixpoint srecordsN (n : nat) (off : Z) : Prop :=
    match n with
    | O => True
    | S n' => srecordN off /\ forall r e, srecord data now off = Some (r, e) -> srecordsN n' e
    end.

  Definition parseN : Prop :=
    forall nq na nau nad, su16 data 4 = Some nq -> su16 data 6 = Some na -> su16 data 8 = Some nau -> su16 data 10 = Some nad ->
      squestionsN (Z.to_nat nq) 12 /\
      forall qs o, squestions data now (Z.to_nat nq) 12 [] = Some (qs, o) -> srecordsN (Z.to_nat (na + nau + nad)) o.

  (* ---------------- questions ---------------- *)
  Theorem strict_questions_agree' : forall n off acc qs o c,
    squestions data now n off acc = Some (qs, o) -> squestionsN n off -> CacheOk data c ->
    exists c', read_questions data now frames n acc {| d_off := off; d_cache := c |}
               = (qs, None, {| d_off := o; d_cache := c' |}) /\ CacheOk data c'.
  Proof.
    induction n as [|n IH]; intros off acc qs o c H HN Hc.
    - cbn [squestions] in H. inversion H; subst. exists c. split; [reflexivity|exact Hc].
    - cbn [squestions] in H. cbn [read_questions]. cbn [squestionsN] in HN. destruct HN as [HN0 HN1].
      destruct (sname data off) as [[name o1]|] eqn:Hn; [|discriminate].
      destruct (su16 data o1) as [ty|] eqn:Hty; [|discriminate].
      destruct (su16 data (o1 + 2)) as [cl|] eqn:Hcl; [|discriminate].
      destruct (name_ok' _ _ _ c HN0 Hn Hc) as (c1 & Hrn & Hc1).
      unfold mbind at 1. rewrite Hrn. mstep.
      rewrite (short_at_ok _ _ _ _ Hty). rewrite (short_at_ok _ _ _ _ Hcl).
      destruct (IH _ _ _ _ c1 H (HN1 _ _ eq_refl) Hc1) as (c' & Hrun & Hc').
      exists c'. split; [|exact Hc'].
      change (mk_rec now KQuestion name ty cl 0) with (mk now KQuestion name ty cl 0). exact Hrun.
  Qed.

  (* ---------------- rdata ---------------- *)
  Lemma rdata_agrees' name ty cl ttl rd rdlen r e c :
    srd data now name ty cl ttl rd rdlen = Some (r, e) -> rdN ty rd -> CacheOk data c ->
    exists c', read_record data now None frames name ty cl ttl rdlen {| d_off := rd; d_cache := c |}
               = DOk r {| d_off := e; d_cache := c' |} /\ CacheOk data c'.
  Proof.
    unfold srd, read_record. cbv zeta.
    change C_TYPE_A with 1. change C_TYPE_CNAME with 5. change C_TYPE_PTR with 12. change C_TYPE_TXT with 16.
    change C_TYPE_SRV with 33. change C_TYPE_HINFO with 13. change C_TYPE_AAAA with 28. change C_TYPE_NSEC with 47.
    intros H [HNa HNb] Hc.
    destruct (ty =? 1) eqn:E1.
    { (* A *)
      destruct (rdlen =? 4) eqn:El; [|discriminate]. apply Z.eqb_eq in El. subst rdlen.
      destruct (sslice data rd 4) as [a|] eqn:Hs; [|discriminate]. inversion H; subst.
      exists c. split; [|exact Hc]. unfold read_string. mstep. rewrite (slice_ok _ _ _ _ Hs). reflexivity. }
    destruct (ty =? 28) eqn:E28.
    { (* AAAA *)
      apply Z.eqb_eq in E28. subst ty.
      destruct (rdlen =? 16) eqn:El; [|discriminate]. apply Z.eqb_eq in El. subst rdlen.
      destruct (sslice data rd 16) as [a|] eqn:Hs; [|discriminate]. inversion H; subst.
      exists c. split; [|exact Hc].
      replace ((28 =? 5) || (28 =? 12)) with false by reflexivity.
      replace (28 =? 16) with false by reflexivity. replace (28 =? 33) with false by reflexivity.
      replace (28 =? 13) with false by reflexivity. replace (28 =? 28) with true by reflexivity.
      unfold read_string. mstep. rewrite (slice_ok _ _ _ _ Hs). reflexivity. }
    destruct ((ty =? 5) || (ty =? 12)) eqn:E5.
    { (* CNAME / PTR *)
      destruct (sname data rd) as [[target e1]|] eqn:Hn; [|discriminate].
      destruct (e1 =? rd + rdlen) eqn:Ee; [|discriminate]. apply Z.eqb_eq in Ee. inversion H; subst.
      assert (HNrd : NP rd) by (apply HNa; lia).
      destruct (name_ok' _ _ _ c HNrd Hn Hc) as (c' & Hrn & Hc').
      exists c'. split; [|exact Hc']. unfold mbind at 1. rewrite Hrn. reflexivity. }
    destruct (ty =? 16) eqn:E16.
    { (* TXT *)
      destruct (sslice data rd rdlen) as [t|] eqn:Hs; [|discriminate]. inversion H; subst.
      exists c. split; [|exact Hc]. unfold read_string. mstep. rewrite (slice_ok _ _ _ _ Hs). reflexivity. }
    destruct (ty =? 33) eqn:E33.
    { (* SRV *)
      destruct (su16 data rd) as [pr|] eqn:Hpr; [|discriminate].
      destruct (su16 data (rd + 2)) as [w|] eqn:Hw; [|discriminate].
      destruct (su16 data (rd + 4)) as [po|] eqn:Hpo; [|discriminate].
      destruct (sname data (rd + 6)) as [[target e1]|] eqn:Hn; [|discriminate].
      destruct ((e1 =? rd + rdlen) && (7 <=? rdlen)) eqn:Ee; [|discriminate]. inversion H; subst.
      assert (HNrd : NP (rd + 6)) by (apply HNb; lia).
      destruct (name_ok' _ _ _ c HNrd Hn Hc) as (c' & Hrn & Hc').
      exists c'. split; [|exact Hc'].
      unfold mbind at 1. unfold get_off at 1. cbn [d_off].
      unfold mbind at 1. unfold set_off at 1. cbn [d_off d_cache].
      unfold mbind at 1. rewrite (short_at_ok _ _ _ _ Hpr).
      unfold mbind at 1. rewrite (short_at_ok _ _ _ _ Hw).
      unfold mbind at 1. rewrite (short_at_ok _ _ _ _ Hpo).
      unfold mbind at 1. rewrite Hrn.
      assert (e1 = rd + rdlen) by lia. subst e1. reflexivity. }
    destruct (ty =? 13) eqn:E13.
    { (* HINFO *)
      destruct (scharstr data rd (rd + rdlen)) as [[cpu o2]|] eqn:H1; [|discriminate].
      destruct (scharstr data o2 (rd + rdlen)) as [[os o3]|] eqn:H2; [|discriminate].
      destruct (o3 =? rd + rdlen) eqn:Ee; [|discriminate]. apply Z.eqb_eq in Ee. inversion H; subst.
      exists c. split; [|exact Hc].
      unfold mbind at 1. rewrite (charstr_agrees _ _ _ _ _ c H1).
      unfold mbind at 1. rewrite (charstr_agrees _ _ _ _ _ c H2). reflexivity. }
    destruct (ty =? 47) eqn:E47.
    { (* NSEC *)
      destruct (sname data rd) as [[nx o2]|] eqn:Hn; [|discriminate].
      destruct (rd + rdlen <? o2) eqn:Ee; [discriminate|].
      destruct (swindows data (S (length data)) o2 (rd + rdlen) []) as [ts|] eqn:Hsw; [|discriminate].
      inversion H; subst.
      assert (HNrd : NP rd) by (apply HNa; lia).
      destruct (name_ok' _ _ _ c HNrd Hn Hc) as (c' & Hrn & Hc').
      exists c'. split; [|exact Hc'].
      unfold mbind at 1. unfold get_off at 1. cbn [d_off].
      unfold mbind at 1. rewrite Hrn.
      unfold mbind at 1. rewrite (bitmap_agrees data frames Hframes _ _ _ _ _ c' Hsw). reflexivity. }
    (* unsupported type: skipped by both *)
    inversion H; subst. exists c. split; [|exact Hc]. mstep. reflexivity.
  Qed.

  (* one resource record: header + rdata *)
  Theorem strict_record_agrees' off r e c :
    srecord data now off = Some (r, e) -> srecordN off -> CacheOk data c ->
    exists name ty cl ttl len c1 c',
      rr_header data frames {| d_off := off; d_cache := c |} = DOk (name, ty, cl, ttl, len, e) {| d_off := e - len; d_cache := c1 |} /\
      read_record data now None frames name ty cl ttl len {| d_off := e - len; d_cache := c1 |}
        = DOk r {| d_off := e; d_cache := c' |} /\ CacheOk data c'.
  Proof.
    rewrite srecord_unfold. intros H [HN0 HN1] Hc.
    destruct (sname data off) as [[name o]|] eqn:Hn; [|discriminate].
    destruct (su16 data o) as [ty|] eqn:Hty; [|discriminate].
    destruct (su16 data (o + 2)) as [cl|] eqn:Hcl; [|discriminate].
    destruct (su16 data (o + 4)) as [t1|] eqn:Ht1; [|discriminate].
    destruct (su16 data (o + 6)) as [t2|] eqn:Ht2; [|discriminate].
    destruct (su16 data (o + 8)) as [rdlen|] eqn:Hlen; [|discriminate].
    destruct (slen data <? o + 10 + rdlen) eqn:Esl; [discriminate|].
    assert (He : e = o + 10 + rdlen).
    { unfold srd in H. cbv zeta in H.
      repeat match type of H with
             | (if ?b then _ else _) = _ => destruct b
             | match ?x with _ => _ end = _ => destruct x
             | (let (_, _) := ?x in _) = _ => destruct x
             end; try discriminate; inversion H; reflexivity. }
    destruct (name_ok' _ _ _ c HN0 Hn Hc) as (c1 & Hrn & Hc1).
    destruct (rdata_agrees' _ _ _ _ _ _ _ _ c1 H (HN1 _ _ _ eq_refl Hty) Hc1) as (c' & Hrd & Hc').
    exists name, ty, cl, (t1 * 65536 + t2), rdlen, c1, c'.
    replace (e - rdlen) with (o + 10) by lia.
    split; [|split; [exact Hrd|exact Hc']].
    unfold rr_header. unfold mbind at 1. rewrite Hrn. mstep.
    rewrite (short_at_ok _ _ _ _ Hty), (short_at_ok _ _ _ _ Hcl), (short_at_ok _ _ _ _ Ht1),
            (short_at_ok _ _ _ _ Ht2), (short_at_ok _ _ _ _ Hlen).
    rewrite He. reflexivity.
  Qed.

  Theorem strict_records_agree' : forall n off acc b rs o b' c,
    srecords data now n off acc b = Some (rs, o, b') -> srecordsN n off -> CacheOk data c ->
    exists c', read_others data now None frames n acc {| d_off := off; d_cache := c |}
               = (rs, None, {| d_off := o; d_cache := c' |}) /\ CacheOk data c'.
  Proof.
    induction n as [|n IH]; intros off acc b rs o b' c H HN Hc.
    - cbn [srecords] in H. inversion H; subst. exists c. split; [reflexivity|exact Hc].
    - cbn [srecords] in H. rewrite read_others_S. cbn [srecordsN] in HN. destruct HN as [HN0 HN1].
      destruct (srecord data now off) as [[r e]|] eqn:Hr; [|discriminate].
      destruct (strict_record_agrees' _ _ _ c Hr HN0 Hc) as (name & ty & cl & ttl & len & c1 & c2 & Hh & Hrd & Hc2).
      rewrite Hh. rewrite Hrd.
      specialize (HN1 _ _ eq_refl).
      destruct r as [r|]; eapply IH; eauto.
  Qed.
End Dec.

Theorem parse_agrees_with_strict_N : forall data now frames m,
  (130 <= frames)%nat -> parseN data now ->
  strict_parse data now = Some m ->
  let p := parse data now None frames in
  m_valid p = true /\ m_escaped p = None /\
  m_id p = s_id m /\ m_flags p = s_flags m /\
  m_nq p = s_nq m /\ m_nans p = s_nan m /\ m_nauth p = s_nau m /\ m_nadd p = s_nad m /\
  m_questions p = s_questions m /\ m_answers p = s_records m.
Proof.
  intros data now frames m Hfr HN Hsp.
  unfold strict_parse in Hsp.
  destruct (su16 data 0) as [id|] eqn:H0; [|discriminate].
  destruct (su16 data 2) as [fl|] eqn:H2; [|discriminate].
  destruct (su16 data 4) as [nq|] eqn:H4; [|discriminate].
  destruct (su16 data 6) as [na|] eqn:H6; [|discriminate].
  destruct (su16 data 8) as [nau|] eqn:H8; [|discriminate].
  destruct (su16 data 10) as [nad|] eqn:H10; [|discriminate].
  destruct (HN nq na nau nad H4 H6 H8 H10) as [HNq HNr].
  destruct (squestions data now (Z.to_nat nq) 12 []) as [[qs o]|] eqn:Hq; [|discriminate].
  specialize (HNr qs o eq_refl).
  destruct (srecords data now (Z.to_nat (na + nau + nad)) o [] true) as [[[rs o'] sup]|] eqn:Hr; [|discriminate].
  destruct (o' =? slen data); [|discriminate].
  inversion Hsp; subst m. cbn [s_id s_flags s_nq s_nan s_nau s_nad s_questions s_records].
  destruct (strict_questions_agree' data now frames Hfr _ _ _ _ _ [] Hq HNq (CacheOk_nil data)) as (c1 & Hrq & Hc1).
  destruct (strict_records_agree' data now frames Hfr _ _ _ _ _ _ _ c1 Hr HNr Hc1) as (c2 & Hro & Hc2).
  assert (Hp : parse data now None frames =
               {| m_valid := (if nq =? 0 then true else true); m_id := id; m_flags := fl;
                  m_nq := nq; m_nans := na; m_nauth := nau; m_nadd := nad;
                  m_questions := qs; m_answers := rs; m_escaped := None |}).
  { unfold parse. cbv zeta.
    unfold mbind at 1. rewrite (short_at_ok data 0 id _ H0).
    unfold mbind at 1. rewrite (short_at_ok data 2 fl _ H2).
    unfold mbind at 1. rewrite (short_at_ok data 4 nq _ H4).
    unfold mbind at 1. rewrite (short_at_ok data 6 na _ H6).
    unfold mbind at 1. rewrite (short_at_ok data 8 nau _ H8).
    unfold mbind at 1. rewrite (short_at_ok data 10 nad _ H10).
    unfold mbind at 1. unfold set_off at 1. cbn [d_off d_cache]. unfold ret at 1.
    rewrite Hrq. cbn [escapes]. rewrite Hro. cbn [escapes]. reflexivity. }
  cbv zeta. rewrite Hp.
  cbn [m_valid m_escaped m_id m_flags m_nq m_nans m_nauth m_nadd m_questions m_answers].
  destruct (nq =? 0); repeat split; reflexivity.
Qed.

Print Assumptions parse_agrees_with_strict_N.
