(* C02_strict_names: the name layer of C02_strict.
   A relational specification [walk] of the strict label walk, shown (a) to be what the strict parser
   computes and (b) to be what the library's memoising recursive decoder computes (under a cache invariant). *)
From Coq Require Import ZArith List Bool Lia ZifyBool.
From ZC Require Import Model.Base Model.PyRec Model.Dict Model.Utf8 Model.WireDec Spec.Rfc1035 Gen.Const Gen.Shapes.
Ltac Zify.zify_post_hook ::= Z.to_euclidean_division_equations.

Definition wf_bytes (d : bytes) : Prop := Forall (fun b => 0 <= b < 256) d.

(* ------------------------------------------------------------------ *)
(* small arithmetic facts *)

Lemma land63_sweep : all_below 64 (fun k => Z.land (192 + k) 63 =? k) = true.
Proof. vm_compute. reflexivity. Qed.

Lemma land63 n : 192 <= n < 256 -> Z.land n 63 = n - 192.
Proof.
  intro Hn. pose proof (all_below_spec 64 _ land63_sweep (n - 192)) as H.
  cbv beta in H. replace (192 + (n - 192)) with n in H by lia.
  apply Z.eqb_eq. apply H. lia.
Qed.

(* ------------------------------------------------------------------ *)
(* dictionary facts *)

Lemma d_get_d_set {V} (c : list (Z * V)) k v k' :
  d_get Z.eqb (d_set Z.eqb c k v) k' = if k =? k' then Some v else d_get Z.eqb c k'.
Proof.
  induction c as [|[k0 v0] c IH]; cbn [d_set d_get].
  - reflexivity.
  - destruct (k0 =? k) eqn:E0; cbn [d_get].
    + apply Z.eqb_eq in E0. subst k0. destruct (k =? k') eqn:E1; reflexivity.
    + destruct (k0 =? k') eqn:E1.
      * apply Z.eqb_eq in E1. subst k0. rewrite Z.eqb_sym in E0. rewrite E0. reflexivity.
      * exact IH.
Qed.

(* ------------------------------------------------------------------ *)
Section Names.
  Variable data : bytes.
  Hypothesis Hwf : wf_bytes data.

  Notation dec := utf8_decode_replace.

  (* strict label walk from [pos]: raw labels, number of pointers followed, end offset of the name *)
  Inductive walk : Z -> list bytes -> nat -> Z -> Prop :=
  | W_end pos : sbyte data pos = Some 0 -> walk pos [] 0 (pos + 1)
  | W_label pos n l raw h e :
      sbyte data pos = Some n -> 0 < n < 64 -> sslice data (pos + 1) n = Some l ->
      walk (pos + 1 + n) raw h e -> walk pos (l :: raw) h e
  | W_ptr pos n lo raw h e :
      sbyte data pos = Some n -> 192 <= n < 256 -> sbyte data (pos + 1) = Some lo ->
      (n - 192) * 256 + lo < pos -> 12 <= (n - 192) * 256 + lo ->
      walk ((n - 192) * 256 + lo) raw h e -> walk pos raw (S h) (pos + 2).

  Lemma walk_det pos raw h e : walk pos raw h e ->
    forall raw' h' e', walk pos raw' h' e' -> raw = raw' /\ h = h' /\ e = e'.
  Proof.
    induction 1 as [pos H0 | pos n l raw h e Hb Hn Hs Hw IH | pos n lo raw h e Hb Hn Hlo Hlt H12 Hw IH];
      intros raw' h' e' W'; inversion W' as [p' H0' | p' n' l' r' hh' ee' Hb' Hn' Hs' Hw' | p' n' lo' r' hh' ee' Hb' Hn' Hlo' Hlt' H12' Hw']; subst.
    - auto.
    - rewrite H0 in Hb'. inversion Hb'. lia.
    - rewrite H0 in Hb'. inversion Hb'. lia.
    - rewrite Hb in H0'. inversion H0'. lia.
    - rewrite Hb in Hb'. inversion Hb'. subst n'. rewrite Hs in Hs'. inversion Hs'. subst l'.
      destruct (IH _ _ _ Hw') as (E1 & E2 & E3). subst. auto.
    - rewrite Hb in Hb'. inversion Hb'. lia.
    - rewrite Hb in H0'. inversion H0'. lia.
    - rewrite Hb in Hb'. inversion Hb'. lia.
    - rewrite Hb in Hb'. inversion Hb'. subst n'. rewrite Hlo in Hlo'. inversion Hlo'. subst lo'.
      destruct (IH _ _ _ Hw') as (E1 & E2 & E3). subst. auto.
  Qed.

  Lemma sbyte_range i b : sbyte data i = Some b -> 0 <= i < slen data /\ 0 <= b < 256.
  Proof.
    unfold sbyte, slen. destruct (i <? 0) eqn:E; [discriminate|]. intro H.
    assert (Hlt : (Z.to_nat i < length data)%nat) by (apply nth_error_Some; congruence).
    split; [lia|].
    apply nth_error_In in H. unfold wf_bytes in Hwf. rewrite Forall_forall in Hwf. apply Hwf. exact H.
  Qed.

  Lemma walk_pos pos raw h e : walk pos raw h e -> 0 <= pos < slen data.
  Proof.
    intro W. inversion W as [p H0 | p n l r hh ee Hb _ _ _ | p n lo r hh ee Hb _ _ _ _ _]; subst;
      eapply sbyte_range; eassumption.
  Qed.

  (* ---------------- (a) the strict parser computes a walk ---------------- *)

  Definition sw_loop (rec : nat -> Z -> list bytes -> option Z -> option (list bytes * Z)) (hops : nat) :=
    fix walk (fuel : nat) (pos : Z) (acc : list bytes) (endo : option Z) {struct fuel} : option (list bytes * Z) :=
       match fuel with
       | O => None
       | S fuel' =>
           match sbyte data pos with
           | None => None
           | Some n =>
               if n =? 0 then Some (acc, match endo with Some e => e | None => pos + 1 end)
               else if n <? 64 then
                 match sslice data (pos + 1) n with
                 | None => None
                 | Some l => walk fuel' (pos + 1 + n) (acc ++ [l]) endo
                 end
               else if n <? 192 then None
               else
                 match sbyte data (pos + 1), hops with
                 | Some lo, S hops' =>
                     let target := (n - 192) * 256 + lo in
                     if (target <? pos) && (12 <=? target)
                     then rec hops' target acc (match endo with Some e => Some e | None => Some (pos + 2) end)
                     else None
                 | _, _ => None
                 end
           end
       end.

  Lemma sname_labels_unfold hops pos acc endo :
    sname_labels data hops pos acc endo = sw_loop (sname_labels data) hops (S (length data)) pos acc endo.
  Proof. destruct hops; reflexivity. Qed.

  Definition oend (endo : option Z) (e : Z) : Z := match endo with Some x => x | None => e end.

  Lemma sslice_nonneg a n l : sslice data a n = Some l -> 0 <= a /\ 0 <= n /\ a + n <= slen data.
  Proof.
    unfold sslice. destruct ((a <? 0) || (n <? 0) || (slen data <? a + n)) eqn:E; [discriminate|].
    intros _. lia.
  Qed.

  Lemma sname_labels_walk : forall hops pos acc endo ls e,
    sname_labels data hops pos acc endo = Some (ls, e) ->
    exists raw h e', walk pos raw h e' /\ (h <= hops)%nat /\ ls = acc ++ raw /\ e = oend endo e'.
  Proof.
    induction hops as [|hops IHh]; intros pos acc endo ls e; rewrite sname_labels_unfold;
      generalize (S (length data)) as fuel; intro fuel; revert pos acc endo ls e.
    - induction fuel as [|fuel IHf]; intros pos acc endo ls e H; cbn [sw_loop] in H; [discriminate|].
      destruct (sbyte data pos) as [n|] eqn:Hb; [|discriminate].
      destruct (n =? 0) eqn:E0.
      { apply Z.eqb_eq in E0. subst n. inversion H; subst.
        exists [], 0%nat, (pos + 1). rewrite app_nil_r.
        split; [constructor; auto|]. split; [lia|]. split; reflexivity. }
      destruct (n <? 64) eqn:E64.
      { destruct (sslice data (pos + 1) n) as [l|] eqn:Hs; [|discriminate].
        apply IHf in H. destruct H as (raw & h & e' & W & Hh & Hls & He).
        pose proof (sslice_nonneg _ _ _ Hs) as Hnn.
        exists (l :: raw), h, e'. repeat split; auto.
        - eapply W_label; eauto. lia.
        - rewrite Hls, <- app_assoc. reflexivity. }
      destruct (n <? 192); [discriminate|].
      destruct (sbyte data (pos + 1)); discriminate.
    - induction fuel as [|fuel IHf]; intros pos acc endo ls e H; cbn [sw_loop] in H; [discriminate|].
      destruct (sbyte data pos) as [n|] eqn:Hb; [|discriminate].
      destruct (n =? 0) eqn:E0.
      { apply Z.eqb_eq in E0. subst n. inversion H; subst.
        exists [], 0%nat, (pos + 1). rewrite app_nil_r.
        split; [constructor; auto|]. split; [lia|]. split; reflexivity. }
      destruct (n <? 64) eqn:E64.
      { destruct (sslice data (pos + 1) n) as [l|] eqn:Hs; [|discriminate].
        apply IHf in H. destruct H as (raw & h & e' & W & Hh & Hls & He).
        pose proof (sslice_nonneg _ _ _ Hs) as Hnn.
        exists (l :: raw), h, e'. repeat split; auto.
        - eapply W_label; eauto. lia.
        - rewrite Hls, <- app_assoc. reflexivity. }
      destruct (n <? 192) eqn:E192; [discriminate|].
      destruct (sbyte data (pos + 1)) as [lo|] eqn:Hlo; [|discriminate].
      cbv zeta in H.
      destruct (((n - 192) * 256 + lo <? pos) && (12 <=? (n - 192) * 256 + lo)) eqn:Et; [|discriminate].
      apply IHh in H. destruct H as (raw & h & e' & W & Hh & Hls & He).
      pose proof (sbyte_range _ _ Hb) as Hr.
      exists raw, (S h), (pos + 2). repeat split; auto.
      + eapply W_ptr; eauto; lia.
      + lia.
      + rewrite He. destruct endo; reflexivity.
  Qed.

  (* ---------------- (b) the library decoder follows the walk ---------------- *)

  Definition dl_loop (rec : Z -> list text -> list Z -> M (Z * list text * list Z)) :=
    fix loop (fuel : nat) (off : Z) (labels : list text) (seen : list Z) {struct fuel}
           : M (Z * list text * list Z) :=
           match fuel with
           | O => raise OtherError
           | S fuel' =>
               if negb (off <? dlen data) then raise IncomingDecodeError
               else
                 length <- byte_at data off ;;
                 if length =? 0 then ret (off + C_DNS_COMPRESSION_HEADER_LEN, labels, seen)
                 else if length <? 64 then
                   let label_idx := off + C_DNS_COMPRESSION_HEADER_LEN in
                   loop fuel' (off + C_DNS_COMPRESSION_HEADER_LEN + length)
                        (labels ++ [utf8_decode_replace (slice data label_idx (label_idx + length))]) seen
                 else if length <? 192 then raise IncomingDecodeError
                 else
                   link_data <- byte_at data (off + 1) ;;
                   let link := (Z.land length 63) * 256 + link_data in
                   if link >? dlen data then raise IncomingDecodeError
                   else if link =? off then raise IncomingDecodeError
                   else if existsb (Z.eqb link) seen then raise IncomingDecodeError
                   else
                     c <- get_cache ;;
                     r <- (match cache_get_labels c link with
                           | Some (l0 :: ls) => ret (l0 :: ls, seen)
                           | _ =>
                               if (Z.of_nat (List.length seen) >=? C_MAX_DNS_LABELS) then raise IncomingDecodeError
                               else
                                 let seen' := seen ++ [link] in
                                 x <- rec link [] seen' ;;
                                 let '(_, linked, seen'') := x in
                                 c' <- get_cache ;;
                                 _ <- set_cache (d_set Z.eqb c' link linked) ;;
                                 ret (linked, seen'')
                           end) ;;
                     let '(linked, seen2) := r in
                     let labels' := labels ++ linked in
                     if Z.of_nat (List.length labels') >? C_MAX_DNS_LABELS then raise IncomingDecodeError
                     else ret (off + C_DNS_COMPRESSION_POINTER_LEN, labels', seen2)
           end.

  Lemma decode_labels_S hops off labels seen :
    decode_labels data (S hops) off labels seen =
    dl_loop (decode_labels data hops) (S (length data)) off labels seen.
  Proof. reflexivity. Qed.

  Lemma byte_at_ok i b s : sbyte data i = Some b -> byte_at data i s = DOk b s.
  Proof.
    unfold sbyte, byte_at. destruct (i <? 0); [discriminate|]. intros ->. reflexivity.
  Qed.

  Lemma slice_ok a n l : sslice data a n = Some l -> slice data a (a + n) = l.
  Proof.
    intro H. pose proof (sslice_nonneg _ _ _ H) as Hnn. unfold sslice in H.
    destruct ((a <? 0) || (n <? 0) || (slen data <? a + n)); [discriminate|]. inversion H as [Hl].
    unfold slice. destruct ((a <? 0) || (a + n <=? a)) eqn:E.
    - assert (n = 0) by lia. subst n. reflexivity.
    - replace (a + n - a) with n by lia. reflexivity.
  Qed.

  Definition CacheOk (c : list (Z * list text)) : Prop :=
    forall k l0 ls, d_get Z.eqb c k = Some (l0 :: ls) ->
      exists raw h e, walk k raw h e /\ l0 :: ls = map dec raw.

  Lemma CacheOk_nil : CacheOk [].
  Proof. intros k l0 ls H. discriminate. Qed.

  Lemma CacheOk_set c k raw h e : CacheOk c -> walk k raw h e -> CacheOk (d_set Z.eqb c k (map dec raw)).
  Proof.
    intros Hc W k' l0 ls H. rewrite d_get_d_set in H. destruct (k =? k') eqn:E.
    - apply Z.eqb_eq in E. subst k'. inversion H as [H1]. exists raw, h, e. auto.
    - apply Hc in H. exact H.
  Qed.

  Definition SeenOk (h : nat) (seen : list Z) : Prop :=
    Forall (fun t => exists raw' h' e', walk t raw' h' e' /\ (h <= h')%nat) seen.

  Lemma SeenOk_le h h' seen : (h' <= h)%nat -> SeenOk h seen -> SeenOk h' seen.
  Proof.
    intros Hle H. unfold SeenOk in *. eapply Forall_impl; [|exact H].
    cbv beta. intros t (r & hh & ee & W & Hh). exists r, hh, ee. split; [auto|lia].
  Qed.

  Lemma seen_fresh h seen t raw e :
    SeenOk (S h) seen -> walk t raw h e -> existsb (Z.eqb t) seen = false.
  Proof.
    intros Hs W. destruct (existsb (Z.eqb t) seen) eqn:E; [|reflexivity].
    apply existsb_exists in E. destruct E as (x & Hin & Hx). apply Z.eqb_eq in Hx. subst x.
    unfold SeenOk in Hs. rewrite Forall_forall in Hs. destruct (Hs _ Hin) as (r & hh & ee & W' & Hh).
    destruct (walk_det _ _ _ _ W _ _ _ W') as (_ & E2 & _). lia.
  Qed.

  Lemma dl_loop_walk : forall pos raw h e, walk pos raw h e ->
    forall hops fuel labels seen s,
      (h <= hops)%nat ->
      Z.of_nat fuel > dlen data - pos ->
      CacheOk (d_cache s) ->
      SeenOk h seen ->
      (length seen + h <= 128)%nat ->
      (length labels + length raw <= 128)%nat ->
      exists seen' c',
        dl_loop (decode_labels data hops) fuel pos labels seen s =
          DOk (e, labels ++ map dec raw, seen') {| d_off := d_off s; d_cache := c' |} /\ CacheOk c'.
  Proof.
    induction 1 as [pos H0 | pos n l raw h e Hb Hn Hs Hw IH | pos n lo raw h e Hb Hn Hlo Hlt H12 Hw IH];
      intros hops fuel labels seen s Hh Hfuel Hc Hseen Hlen Hlab.
    - (* end *)
      pose proof (sbyte_range _ _ H0) as Hr. unfold slen in Hr. unfold dlen in Hfuel.
      destruct fuel as [|fuel]; [lia|]. cbn [dl_loop].
      unfold dlen. destruct (pos <? Z.of_nat (length data)) eqn:E; [|lia]. cbn [negb].
      unfold mbind. rewrite (byte_at_ok _ _ s H0). rewrite Z.eqb_refl.
      exists seen, (d_cache s). split; [|exact Hc].
      cbn [map]. rewrite app_nil_r. unfold ret. destruct s; reflexivity.
    - (* label *)
      pose proof (sbyte_range _ _ Hb) as Hr. unfold slen in Hr. unfold dlen in Hfuel.
      destruct fuel as [|fuel]; [lia|]. cbn [dl_loop].
      unfold dlen at 1. destruct (pos <? Z.of_nat (length data)) eqn:E; [|lia]. cbn [negb].
      unfold mbind at 1. rewrite (byte_at_ok _ _ s Hb).
      destruct (n =? 0) eqn:E0; [lia|]. destruct (n <? 64) eqn:E64; [|lia].
      cbv zeta. change C_DNS_COMPRESSION_HEADER_LEN with 1.
      rewrite (slice_ok _ _ _ Hs).
      destruct (IH hops fuel (labels ++ [dec l]) seen s Hh) as (seen' & c' & Hrun & Hc'); auto.
      + unfold dlen. lia.
      + rewrite app_length. cbn [length] in *. lia.
      + exists seen', c'. split; [|exact Hc'].
        rewrite Hrun. cbn [map]. rewrite <- app_assoc. reflexivity.
    - (* pointer *)
      pose proof (sbyte_range _ _ Hb) as Hr. unfold slen in Hr. unfold dlen in Hfuel.
      set (T := (n - 192) * 256 + lo) in *.
      destruct fuel as [|fuel]; [lia|]. cbn [dl_loop].
      unfold dlen at 1. destruct (pos <? Z.of_nat (length data)) eqn:E; [|lia]. cbn [negb].
      unfold mbind at 1. rewrite (byte_at_ok _ _ s Hb).
      destruct (n =? 0) eqn:E0; [lia|]. destruct (n <? 64) eqn:E64; [lia|].
      destruct (n <? 192) eqn:E192; [lia|].
      unfold mbind at 1. rewrite (byte_at_ok _ _ s Hlo).
      cbv zeta. rewrite (land63 n Hn). fold T.
      unfold dlen at 1. destruct (T >? Z.of_nat (length data)) eqn:E1; [lia|].
      destruct (T =? pos) eqn:E2; [lia|].
      rewrite (seen_fresh h seen T raw e Hseen Hw).
      unfold mbind at 1. unfold get_cache at 1.
      change C_MAX_DNS_LABELS with 128. change C_DNS_COMPRESSION_POINTER_LEN with 2.
      unfold cache_get_labels.
      assert (Hmiss :
        exists seen' c',
          (if Z.of_nat (length seen) >=? 128
           then raise IncomingDecodeError
           else x <- decode_labels data hops T [] (seen ++ [T]) ;;
                (let '(_, linked, seen'') := x in
                 c' <- get_cache ;; _ <- set_cache (d_set Z.eqb c' T linked) ;; ret (linked, seen''))) s =
          DOk (map dec raw, seen') {| d_off := d_off s; d_cache := c' |} /\ CacheOk c').
      { destruct (Z.of_nat (length seen) >=? 128) eqn:E3; [lia|].
        destruct hops as [|hops]; [lia|]. rewrite decode_labels_S.
        destruct (IH hops (S (length data)) [] (seen ++ [T]) s) as (seen' & c' & Hrun & Hc'); auto.
        - lia.
        - pose proof (walk_pos _ _ _ _ Hw) as Hp. unfold dlen. lia.
        - unfold SeenOk. apply Forall_app. split.
          + apply (SeenOk_le (S h)); [lia|exact Hseen].
          + constructor; [|constructor]. exists raw, h, e. split; [exact Hw|lia].
        - rewrite app_length. cbn [length]. lia.
        - cbn [length] in *. lia.
        - exists seen', (d_set Z.eqb c' T (map dec raw)). split.
          + unfold mbind at 1. rewrite Hrun. cbn [app].
            unfold mbind, get_cache, set_cache, ret. cbn [d_cache d_off]. reflexivity.
          + eapply CacheOk_set; eauto. }
      assert (Hr2 :
        exists seen' c',
          match d_get Z.eqb (d_cache s) T with
          | Some (l0 :: ls) => ret (l0 :: ls, seen)
          | _ => if Z.of_nat (length seen) >=? 128
                 then raise IncomingDecodeError
                 else x <- decode_labels data hops T [] (seen ++ [T]) ;;
                      (let '(_, linked, seen'') := x in
                       c' <- get_cache ;; _ <- set_cache (d_set Z.eqb c' T linked) ;; ret (linked, seen''))
          end s = DOk (map dec raw, seen') {| d_off := d_off s; d_cache := c' |} /\ CacheOk c').
      { destruct (d_get Z.eqb (d_cache s) T) as [[|l0 ls]|] eqn:Eg; try exact Hmiss.
        destruct (Hc _ _ _ Eg) as (raw2 & h2 & e2 & W2 & Heq).
        destruct (walk_det _ _ _ _ Hw _ _ _ W2) as (E5 & _ & _). subst raw2.
        exists seen, (d_cache s). split; [|exact Hc]. rewrite Heq. unfold ret. destruct s; reflexivity. }
      destruct Hr2 as (seen' & c' & Hrun & Hc').
      exists seen', c'. split; [|exact Hc'].
      unfold mbind at 1. cbv zeta in Hrun. rewrite Hrun.
      destruct (Z.of_nat (length (labels ++ map dec raw)) >? 128) eqn:E6.
      { rewrite app_length, map_length in E6. lia. }
      reflexivity.
  Qed.

  Lemma decode_labels_walk pos raw h e hops s :
    walk pos raw h e -> (h < hops)%nat -> (h <= 128)%nat -> (length raw <= 128)%nat -> CacheOk (d_cache s) ->
    exists seen' c',
      decode_labels data hops pos [] [] s =
        DOk (e, map dec raw, seen') {| d_off := d_off s; d_cache := c' |} /\ CacheOk c'.
  Proof.
    intros W Hh H128 Hl Hc. destruct hops as [|hops]; [lia|]. rewrite decode_labels_S.
    pose proof (walk_pos _ _ _ _ W) as Hp.
    destruct (dl_loop_walk _ _ _ _ W hops (S (length data)) [] [] s) as (seen' & c' & Hrun & Hc'); auto.
    - lia.
    - unfold dlen. lia.
    - constructor.
    - exists seen', c'. split; auto.
  Qed.

  (* ---------------- names ---------------- *)

  Lemma join_sjoin ls : join_labels ls = sjoin ls.
  Proof.
    induction ls as [|l r IH]; [reflexivity|]. cbn [join_labels sjoin]. rewrite IH. reflexivity.
  Qed.

  (* what the strict name parser guarantees *)
  Lemma sname_walk pos name e : sname data pos = Some (name, e) ->
    exists raw h, walk pos raw h e /\ (h <= 128)%nat /\ (length raw <= 128)%nat /\
                  name = sjoin (map dec raw) ++ [46] /\ Z.of_nat (length name) <= 253.
  Proof.
    unfold sname. destruct (sname_labels data 128 pos [] None) as [[labels e0]|] eqn:Hs; [|discriminate].
    apply sname_labels_walk in Hs. destruct Hs as (raw & h & e' & W & Hh & Hls & He).
    cbn [app oend] in Hls, He. subst labels e0. cbv zeta.
    destruct ((128 <? Z.of_nat (length raw)) || (253 <? Z.of_nat (length (sjoin (map dec raw) ++ [46])))
              || (255 <? wire_len raw)) eqn:E; [discriminate|].
    intro H. inversion H; subst. exists raw, h. repeat split; auto; lia.
  Qed.

  (* the library's _read_name on a name the strict parser accepts *)
  Theorem strict_name_agrees frames pos name e s :
    (129 <= frames)%nat ->
    sname data pos = Some (name, e) -> d_off s = pos -> CacheOk (d_cache s) ->
    exists c', read_name data frames s = DOk name {| d_off := e; d_cache := c' |} /\ CacheOk c'.
  Proof.
    intros Hf Hs Hoff Hc. apply sname_walk in Hs. destruct Hs as (raw & h & W & Hh & Hl & Hname & Hnl).
    destruct (decode_labels_walk pos raw h e frames s W) as (seen' & c' & Hrun & Hc'); auto; [lia|].
    exists (d_set Z.eqb c' pos (map dec raw)). split; [|eapply CacheOk_set; eauto].
    unfold read_name. unfold mbind at 1. unfold get_off at 1. rewrite Hoff.
    unfold mbind at 1. rewrite Hrun.
    unfold mbind, set_off, get_cache, set_cache. cbn [d_off d_cache].
    rewrite join_sjoin. rewrite <- Hname. change C_MAX_NAME_LENGTH with 253.
    destruct (Z.of_nat (length name) >? 253) eqn:E; [lia|]. reflexivity.
  Qed.
End Names.

Print Assumptions strict_name_agrees.
