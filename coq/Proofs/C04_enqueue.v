(* C04, part 1: the pending-callback dictionary of _ServiceBrowserBase.
   - facts about insertion-ordered dicts whose key comparison is an equality test;
   - enqueue_precedence: what survives in the pending dict after any sequence of _enqueue_callback calls;
   - the pending dict computed by browser_update / run_updates is a fold of `enqueue` over an explicit
     list of operations (update_ops), with a characterisation of its Added / Removed members. *)
From ZC Require Import Model.Base Model.PyRec Model.Dict Model.Re Model.Names Model.Cache Model.Ingest Model.Sched
  Model.Browser Gen.Const Gen.DnsPure.

(* ------------------------------------------------------------------ *)
(* dicts with a key comparison that decides equality *)
Section DictFacts.
  Context {K V : Type}.
  Variable keqb : K -> K -> bool.
  Hypothesis keqb_eq : forall a b, keqb a b = true <-> a = b.

  Lemma keqb_refl a : keqb a a = true.
  Proof. apply keqb_eq. reflexivity. Qed.

  Lemma keqb_false a b : keqb a b = false <-> a <> b.
  Proof.
    split.
    - intros E C. apply keqb_eq in C. congruence.
    - intro N. destruct (keqb a b) eqn:E; [|reflexivity]. apply keqb_eq in E. contradiction.
  Qed.

  Lemma d_get_set (d : list (K * V)) k v k' :
    d_get keqb (d_set keqb d k v) k' = if keqb k k' then Some v else d_get keqb d k'.
  Proof.
    induction d as [|[k0 v0] d IH]; cbn [d_set d_get].
    - reflexivity.
    - destruct (keqb k0 k) eqn:E0.
      + apply keqb_eq in E0. subst k0. cbn [d_get]. destruct (keqb k k'); reflexivity.
      + cbn [d_get]. rewrite IH. destruct (keqb k0 k') eqn:E1; [|reflexivity].
        apply keqb_eq in E1. subst k'.
        assert (E2 : keqb k k0 = false).
        { apply keqb_false. intro C. subst k0. rewrite keqb_refl in E0. discriminate. }
        rewrite E2. reflexivity.
  Qed.

  Lemma d_set_key_in (d : list (K * V)) k v x :
    In x (map fst (d_set keqb d k v)) -> In x (map fst d) \/ x = k.
  Proof.
    induction d as [|[k0 v0] d IH]; cbn [d_set map fst].
    - intros [H|[]]. right. symmetry. exact H.
    - destruct (keqb k0 k); cbn [map fst In].
      + intros [H|H]; left; [left|right]; exact H.
      + intros [H|H]; [left; left; exact H|]. destruct (IH H) as [H1|H1]; [left; right; exact H1|right; exact H1].
  Qed.

  Lemma d_set_nodup (d : list (K * V)) k v :
    NoDup (map fst d) -> NoDup (map fst (d_set keqb d k v)).
  Proof.
    induction d as [|[k0 v0] d IH]; cbn [d_set map fst]; intro H.
    - constructor; [intros []|constructor].
    - inversion H as [|? ? Hn Hd]; subst. destruct (keqb k0 k) eqn:E0; cbn [map fst].
      + constructor; assumption.
      + constructor; [|apply IH; exact Hd]. intro C. apply d_set_key_in in C as [C|C]; [contradiction|].
        subst k0. rewrite keqb_refl in E0. discriminate.
  Qed.

  Lemma d_get_some_in (d : list (K * V)) k v : d_get keqb d k = Some v -> In (k, v) d.
  Proof.
    induction d as [|[k0 v0] d IH]; cbn [d_get]; [discriminate|].
    destruct (keqb k0 k) eqn:E0.
    - intro H. inversion H; subst. apply keqb_eq in E0. subst k0. left. reflexivity.
    - intro H. right. apply IH. exact H.
  Qed.

  Lemma d_get_in (d : list (K * V)) k v :
    NoDup (map fst d) -> (In (k, v) d <-> d_get keqb d k = Some v).
  Proof.
    intro Hd. split; [|apply d_get_some_in].
    induction d as [|[k0 v0] d IH]; [intros []|].
    cbn [map fst] in Hd. inversion Hd as [|? ? Hn Hd']; subst. cbn [d_get]. intros [H|H].
    - inversion H; subst. rewrite keqb_refl. reflexivity.
    - assert (E0 : keqb k0 k = false).
      { apply keqb_false. intro C. subst k0. apply Hn. apply in_map_iff. exists (k, v). split; [reflexivity|exact H]. }
      rewrite E0. apply IH; assumption.
  Qed.

  (* at most one entry of a dict satisfies a test that pins the key down *)
  Lemma filter_keys_nodup (f : K * V -> bool) (d : list (K * V)) :
    NoDup (map fst d) -> NoDup (map fst (filter f d)).
  Proof.
    induction d as [|e d IH]; cbn [filter map]; intro H; [constructor|].
    cbn [map] in H. inversion H as [|? ? Hn Hd]; subst. destruct (f e); [|apply IH; exact Hd].
    cbn [map]. constructor; [|apply IH; exact Hd].
    intro C. apply Hn. apply in_map_iff in C as [e' [E' He']]. apply filter_In in He' as [He' _].
    apply in_map_iff. exists e'. split; assumption.
  Qed.

  Lemma filter_at_most_one (f : K * V -> bool) (d : list (K * V)) :
    NoDup (map fst d) ->
    (forall e1 e2, In e1 (filter f d) -> In e2 (filter f d) -> fst e1 = fst e2) ->
    filter f d = [] \/ exists e, filter f d = [e].
  Proof.
    intros Hd Hsame. pose proof (filter_keys_nodup f d Hd) as Hn.
    destruct (filter f d) as [|e1 [|e2 l]]; [left; reflexivity|right; exists e1; reflexivity|].
    exfalso. cbn [map] in Hn. inversion Hn as [|? ? Hnot _]; subst. apply Hnot.
    rewrite (Hsame e1 e2); [left; reflexivity|left; reflexivity|right; left; reflexivity].
  Qed.
End DictFacts.

(* ------------------------------------------------------------------ *)
(* the pending dict *)

Lemma change_eqb_eq a b : change_eqb a b = true <-> a = b.
Proof. destruct a, b; cbn; split; intro H; try reflexivity; try discriminate. Qed.

Lemma pkey_eqb_eq (a b : pkey) : pkey_eqb a b = true <-> a = b.
Proof.
  destruct a as [a1 a2], b as [b1 b2]. unfold pkey_eqb. cbn [fst snd].
  rewrite andb_true_iff, !text_eqb_eq. split; [intros [H1 H2]; congruence|intro H; inversion H; auto].
Qed.

(* one call _enqueue_callback(change, type_, name) *)
Definition op := (change * text * text)%type.
Definition enq (p : pending) (o : op) : pending := let '(c, t, n) := o in enqueue p c t n.
Definition enqueue_all (p : pending) (ops : list op) : pending := fold_left enq ops p.

Lemma enqueue_all_app p l1 l2 : enqueue_all p (l1 ++ l2) = enqueue_all (enqueue_all p l1) l2.
Proof. unfold enqueue_all. apply fold_left_app. Qed.

(* what one call does to the value stored under a key *)
Definition prec (cur : option change) (c : change) : option change :=
  match c with
  | Added => Some Added
  | Removed => match cur with Some Added => Some Added | _ => Some Removed end
  | Updated => match cur with None => Some Updated | Some x => Some x end
  end.

Lemma d_get_enqueue p c t n key :
  d_get pkey_eqb (enqueue p c t n) key
  = if pkey_eqb (n, t) key then prec (d_get pkey_eqb p key) c else d_get pkey_eqb p key.
Proof.
  unfold enqueue. cbv zeta.
  destruct (pkey_eqb (n, t) key) eqn:E.
  - apply pkey_eqb_eq in E. subst key.
    destruct c; destruct (d_get pkey_eqb p (n, t)) as [[]|] eqn:G; cbn [prec];
      rewrite ?(d_get_set pkey_eqb pkey_eqb_eq), ?(keqb_refl pkey_eqb pkey_eqb_eq); try reflexivity; exact G.
  - destruct c; destruct (d_get pkey_eqb p (n, t)) as [[]|]; cbn [prec];
      rewrite ?(d_get_set pkey_eqb pkey_eqb_eq), ?E; reflexivity.
Qed.

Definition pending_wf (p : pending) : Prop := NoDup (map fst p).

Lemma enqueue_wf p c t n : pending_wf p -> pending_wf (enqueue p c t n).
Proof.
  unfold enqueue, pending_wf. cbv zeta. intro H.
  match goal with |- context [if ?b then _ else _] => destruct b end; [|exact H].
  apply (d_set_nodup pkey_eqb pkey_eqb_eq). exact H.
Qed.

Lemma enqueue_all_wf ops : forall p, pending_wf p -> pending_wf (enqueue_all p ops).
Proof.
  induction ops as [|[[c t] n] ops IH]; intros p H; [exact H|].
  cbn [enqueue_all fold_left enq]. apply IH. apply enqueue_wf. exact H.
Qed.

(* ------------------------------------------------------------------ *)
(* Theorem 4: precedence *)

Definition is_op (c : change) (ty name : text) (o : op) : bool :=
  let '(c', t, n) := o in change_eqb c' c && pkey_eqb (n, t) (name, ty).

(* `_enqueue_callback(c, ty, name)` occurs in the sequence *)
Definition enqueued (c : change) (ty name : text) (ops : list op) : bool := existsb (is_op c ty name) ops.

Lemma is_op_iff c ty name o : is_op c ty name o = true <-> o = (c, ty, name).
Proof.
  destruct o as [[c' t] n]. unfold is_op. rewrite andb_true_iff, change_eqb_eq, pkey_eqb_eq.
  split; [intros [H1 H2]; inversion H2; subst; reflexivity|intro H; inversion H; subst; auto].
Qed.

Lemma enqueued_iff c ty name ops : enqueued c ty name ops = true <-> In (c, ty, name) ops.
Proof.
  unfold enqueued. rewrite existsb_exists. split.
  - intros [o [Ho E]]. apply is_op_iff in E. subst o. exact Ho.
  - intro H. exists (c, ty, name). split; [exact H|apply is_op_iff; reflexivity].
Qed.

Theorem enqueue_precedence : forall (ops : list op) (name ty : text),
  d_get pkey_eqb (enqueue_all [] ops) (name, ty)
  = if enqueued Added ty name ops then Some Added
    else if enqueued Removed ty name ops then Some Removed
    else if enqueued Updated ty name ops then Some Updated
    else None.
Proof.
  intros ops name ty. induction ops as [|[[c t] n] ops IH] using rev_ind; [reflexivity|].
  rewrite enqueue_all_app. cbn [enqueue_all fold_left enq]. fold (enqueue_all [] ops).
  rewrite d_get_enqueue, IH. unfold enqueued. rewrite !existsb_app. cbn [existsb is_op]. rewrite !orb_false_r.
  destruct (pkey_eqb (n, t) (name, ty)); rewrite ?andb_false_r, ?andb_true_r, ?orb_false_r; [|reflexivity].
  destruct c; cbn [change_eqb change_code Z.eqb Pos.eqb prec]; rewrite ?orb_false_r, ?orb_true_r;
    destruct (existsb (is_op Added ty name) ops), (existsb (is_op Removed ty name) ops),
             (existsb (is_op Updated ty name) ops); reflexivity.
Qed.

(* consequences used later *)
Lemma pending_added ops name ty :
  In ((name, ty), Added) (enqueue_all [] ops) <-> In (Added, ty, name) ops.
Proof.
  rewrite (d_get_in pkey_eqb pkey_eqb_eq) by (apply enqueue_all_wf; constructor).
  rewrite enqueue_precedence, <- enqueued_iff.
  destruct (enqueued Added ty name ops), (enqueued Removed ty name ops), (enqueued Updated ty name ops);
    split; intro H; try reflexivity; try discriminate.
Qed.

Lemma pending_removed ops name ty :
  In ((name, ty), Removed) (enqueue_all [] ops) <-> In (Removed, ty, name) ops /\ ~ In (Added, ty, name) ops.
Proof.
  rewrite (d_get_in pkey_eqb pkey_eqb_eq) by (apply enqueue_all_wf; constructor).
  rewrite enqueue_precedence, <- !enqueued_iff.
  destruct (enqueued Added ty name ops), (enqueued Removed ty name ops), (enqueued Updated ty name ops);
    split; intro H; try reflexivity; try discriminate; try (split; [reflexivity|discriminate]);
    destruct H as [H1 H2]; try discriminate; exfalso; apply H2; reflexivity.
Qed.

Lemma pending_member ops name ty ch :
  In ((name, ty), ch) (enqueue_all [] ops) -> In (ch, ty, name) ops.
Proof.
  rewrite (d_get_in pkey_eqb pkey_eqb_eq) by (apply enqueue_all_wf; constructor).
  rewrite enqueue_precedence. intro H. apply enqueued_iff.
  destruct (enqueued Added ty name ops) eqn:A; [inversion H; subst; exact A|].
  destruct (enqueued Removed ty name ops) eqn:R; [inversion H; subst; exact R|].
  destruct (enqueued Updated ty name ops) eqn:U; [inversion H; subst; exact U|discriminate].
Qed.

(* ------------------------------------------------------------------ *)
(* browser_update as a list of enqueue operations *)

Definition ptr_ops (types : list text) (now : Z) (new : pyrec) (old_is_none : bool) : list op :=
  flat_map (fun type_ => if old_is_none then [(Added, type_, p_alias new)]
                         else if DNSRecord_is_expired new now then [(Removed, type_, p_alias new)]
                         else [])
           (inter_types types (possible_types (p_name new))).

Definition other_ops (types : list text) (now : Z) (c1 : cache) (new : pyrec) (old_is_none : bool) : list op :=
  if negb old_is_none || DNSRecord_is_expired new now then [] else
  let names := if existsb (Z.eqb (p_type_ new)) C_ADDRESS_RECORD_TYPES
               then dedup_texts (map p_name (entries_with_server c1 (p_name new)))
               else [p_name new] in
  flat_map (fun name => map (fun type_ => (Updated, type_, name)) (inter_types types (possible_types name))) names.

Definition update_ops (types : list text) (now : Z) (c1 : cache) (u : pyrec * bool) : list op :=
  if p_type_ (fst u) =? C_TYPE_PTR then ptr_ops types now (fst u) (snd u)
  else other_ops types now c1 (fst u) (snd u).

Lemma ptr_fold (now : Z) (new : pyrec) (on : bool) : forall l p calls,
  fst (fold_left (fun (acc : pending * list sched_call) type_ =>
         let '(p, calls) := acc in
         if on then (enqueue p Added type_ (p_alias new), calls ++ [CResched (p_alias new) (p_name new) (p_created new) (p_ttl new)])
         else if DNSRecord_is_expired new now then (enqueue p Removed type_ (p_alias new), calls ++ [CCancel (p_alias new)])
         else (p, calls ++ [CResched (p_alias new) (p_name new) (p_created new) (p_ttl new)])) l (p, calls))
  = enqueue_all p (flat_map (fun type_ => if on then [(Added, type_, p_alias new)]
                         else if DNSRecord_is_expired new now then [(Removed, type_, p_alias new)]
                         else []) l).
Proof.
  induction l as [|t l IH]; intros p calls; [reflexivity|].
  cbn [fold_left flat_map]. rewrite enqueue_all_app.
  destruct on; [rewrite IH; reflexivity|].
  destruct (DNSRecord_is_expired new now); rewrite IH; reflexivity.
Qed.

Lemma updated_inner name : forall l p,
  fold_left (fun p type_ => enqueue p Updated type_ name) l p
  = enqueue_all p (map (fun type_ => (Updated, type_, name)) l).
Proof. induction l as [|t l IH]; intro p; [reflexivity|]. cbn [fold_left map enqueue_all enq]. apply IH. Qed.

Lemma updated_outer (I : text -> list text) : forall names p,
  fold_left (fun p name => fold_left (fun p type_ => enqueue p Updated type_ name) (I name) p) names p
  = enqueue_all p (flat_map (fun name => map (fun type_ => (Updated, type_, name)) (I name)) names).
Proof.
  induction names as [|nm names IH]; intro p; [reflexivity|].
  cbn [fold_left flat_map]. rewrite enqueue_all_app, IH, updated_inner. reflexivity.
Qed.

Lemma browser_update_pending types now c1 p calls new on :
  fst (browser_update types now c1 (p, calls) new on) = enqueue_all p (update_ops types now c1 (new, on)).
Proof.
  unfold browser_update, update_ops. cbn [fst snd].
  destruct (p_type_ new =? C_TYPE_PTR).
  - unfold ptr_ops. apply ptr_fold.
  - unfold other_ops. destruct (negb on || DNSRecord_is_expired new now); [reflexivity|].
    cbn [fst]. cbv zeta. apply updated_outer.
Qed.

Lemma updates_fold types now c1 : forall ups st,
  fst (fold_left (fun st u => browser_update types now c1 st (fst u) (snd u)) ups st)
  = enqueue_all (fst st) (flat_map (update_ops types now c1) ups).
Proof.
  induction ups as [|u ups IH]; intro st; [reflexivity|].
  cbn [fold_left flat_map]. rewrite IH, enqueue_all_app. f_equal.
  destruct st as [p calls]. destruct u as [new on]. cbn [fst snd]. apply browser_update_pending.
Qed.

(* the callbacks fired by run_updates *)
Lemma run_updates_pending n now c1 ups : bn_on n = true ->
  snd (run_updates n now c1 ups) = enqueue_all [] (flat_map (update_ops (bn_types n) now c1) ups).
Proof.
  intro Hon. unfold run_updates. rewrite Hon. cbn [negb].
  pose proof (updates_fold (bn_types n) now c1 ups ([], [])) as H.
  destruct (fold_left (fun st u => browser_update (bn_types n) now c1 st (fst u) (snd u)) ups ([], [])) as [p calls].
  cbn [fst snd] in *. exact H.
Qed.

Lemma run_updates_off n now c1 ups : bn_on n = false -> snd (run_updates n now c1 ups) = [].
Proof. intro Hoff. unfold run_updates. rewrite Hoff. reflexivity. Qed.

(* members of update_ops *)
Lemma in_inter_types types cands t : In t (inter_types types cands) -> In t types.
Proof. unfold inter_types. intro H. apply filter_In in H as [H _]. exact H. Qed.

Lemma in_update_ops_type types now c1 u c ty n :
  In (c, ty, n) (update_ops types now c1 u) -> In ty types.
Proof.
  unfold update_ops, ptr_ops, other_ops. destruct (p_type_ (fst u) =? C_TYPE_PTR).
  - intro H. apply in_flat_map in H as [t [Ht H]]. apply in_inter_types in Ht.
    destruct (snd u); [|destruct (DNSRecord_is_expired (fst u) now)]; cbn in H.
    + destruct H as [H|[]]. inversion H; subst. exact Ht.
    + destruct H as [H|[]]. inversion H; subst. exact Ht.
    + destruct H.
  - destruct (negb (snd u) || DNSRecord_is_expired (fst u) now); [intros []|]. cbv zeta.
    intro H. apply in_flat_map in H as [nm [_ H]]. apply in_map_iff in H as [t [E Ht]].
    inversion E; subst. apply in_inter_types in Ht. exact Ht.
Qed.

Lemma in_update_ops_added types now c1 new on ty n :
  In (Added, ty, n) (update_ops types now c1 (new, on)) <->
  p_type_ new = C_TYPE_PTR /\ on = true /\ In ty (inter_types types (possible_types (p_name new))) /\ n = p_alias new.
Proof.
  unfold update_ops, ptr_ops, other_ops. cbn [fst snd]. destruct (p_type_ new =? C_TYPE_PTR) eqn:T.
  - apply Z.eqb_eq in T. rewrite in_flat_map. split.
    + intros [t [Ht H]]. destruct on; [|destruct (DNSRecord_is_expired new now)]; cbn in H.
      * destruct H as [H|[]]. inversion H; subst. auto.
      * destruct H as [H|[]]. discriminate H.
      * destruct H.
    + intros [_ [Eon [Ht En]]]. subst on n. exists ty. split; [exact Ht|left; reflexivity].
  - apply Z.eqb_neq in T. split; [|intros [C _]; contradiction].
    destruct (negb on || DNSRecord_is_expired new now); [intros []|]. cbv zeta.
    intro H. apply in_flat_map in H as [nm [_ H]]. apply in_map_iff in H as [t [E _]]. discriminate E.
Qed.

Lemma in_update_ops_removed types now c1 new on ty n :
  In (Removed, ty, n) (update_ops types now c1 (new, on)) <->
  p_type_ new = C_TYPE_PTR /\ on = false /\ DNSRecord_is_expired new now = true /\
  In ty (inter_types types (possible_types (p_name new))) /\ n = p_alias new.
Proof.
  unfold update_ops, ptr_ops, other_ops. cbn [fst snd]. destruct (p_type_ new =? C_TYPE_PTR) eqn:T.
  - apply Z.eqb_eq in T. rewrite in_flat_map. split.
    + intros [t [Ht H]]. destruct on; [|destruct (DNSRecord_is_expired new now)]; cbn in H.
      * destruct H as [H|[]]. discriminate H.
      * destruct H as [H|[]]. inversion H; subst. auto.
      * destruct H.
    + intros [_ [Eon [Ex [Ht En]]]]. subst on n. rewrite Ex. exists ty. split; [exact Ht|left; reflexivity].
  - apply Z.eqb_neq in T. split; [|intros [C _]; contradiction].
    destruct (negb on || DNSRecord_is_expired new now); [intros []|]. cbv zeta.
    intro H. apply in_flat_map in H as [nm [_ H]]. apply in_map_iff in H as [t [E _]]. discriminate E.
Qed.

Print Assumptions enqueue_precedence.
