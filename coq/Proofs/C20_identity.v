(* C20: record identity. Proofs about the definitions REGENERATED from _dns.py (Gen/DnsPure.v). *)
From ZC Require Import Model.Base Model.PyRec Model.Dict Gen.Const Gen.DnsPure.
From Coq Require Import ZifyBool.
Ltac Zify.zify_post_hook ::= Z.to_euclidean_division_equations.

(* ---- the specification: what "the same record" means in the property text ---- *)
Definition class15 (r : pyrec) : Z := (p_class_ r) mod 32768.

Inductive ident :=
| IQuestion (name : text) (ty cls : Z)
| IAddress (name : text) (ty cls : Z) (addr : bytes) (scope : option Z)
| IHinfo (name : text) (ty cls : Z) (cpu os : text)
| IPointer (name : text) (ty cls : Z) (target : text)
| IText (name : text) (ty cls : Z) (txt : bytes)
| IService (name : text) (ty cls : Z) (prio weight port : Z) (host : text)
| INsec (name : text) (ty cls : Z) (next : text) (types : list Z).

Definition ident_of (r : pyrec) : ident :=
  let n := lower (p_name r) in
  let t := p_type_ r in
  let c := class15 r in
  match p_kind r with
  | KQuestion => IQuestion n t c
  | KAddress => IAddress n t c (p_address r) (p_scope_id r)
  | KHinfo => IHinfo n t c (p_cpu r) (p_os r)
  | KPointer => IPointer n t c (lower (p_alias r))
  | KText => IText n t c (p_text r)
  | KService => IService n t c (p_priority r) (p_weight r) (p_port r) (lower (p_server r))
  | KNsec => INsec n t c (p_next_name r) (sorted (p_rdtypes r))
  end.

(* ---- helper facts ---- *)
Lemma class_mask_mod c : Z.land c C_CLASS_MASK = c mod 32768.
Proof. change C_CLASS_MASK with (Z.ones 15). rewrite Z.land_ones by lia. reflexivity. Qed.

Lemma listZ_eqb_eq a b : list_eqb Z.eqb a b = true <-> a = b.
Proof. apply list_eqb_eq. intros; apply Z.eqb_eq. Qed.

Lemma bytes_eqb_eq a b : bytes_eqb a b = true <-> a = b.
Proof. apply text_eqb_eq. Qed.

Lemma entry_matches_iff a b :
  DNSEntry__dns_entry_matches a b = true <->
  lower (p_name a) = lower (p_name b) /\ p_type_ a = p_type_ b /\ class15 a = class15 b.
Proof.
  unfold DNSEntry__dns_entry_matches, DNSEntry_key, DNSEntry_type, DNSEntry_class_, class15.
  rewrite !andb_true_iff, text_eqb_eq, !Z.eqb_eq, !class_mask_mod. tauto.
Qed.

Ltac unfold_gen :=
  unfold gen_eq, gen_hashkey, ident_of,
    DNSQuestion_eq, DNSAddress_eq, DNSHinfo_eq, DNSPointer_eq, DNSText_eq, DNSService_eq, DNSNsec_eq,
    DNSAddress__eq, DNSHinfo__eq, DNSPointer__eq, DNSText__eq, DNSService__eq, DNSNsec__eq,
    DNSQuestion_hashkey, DNSAddress_hashkey, DNSHinfo_hashkey, DNSPointer_hashkey, DNSText_hashkey,
    DNSService_hashkey, DNSNsec_hashkey,
    DNSAddress_address, DNSAddress_scope_id, DNSHinfo_cpu, DNSHinfo_os, DNSPointer_alias_key,
    DNSText_text, DNSService_priority, DNSService_weight, DNSService_port, DNSService_server_key,
    DNSNsec_next_name, DNSNsec_rdtypes, DNSEntry_key, DNSEntry_class_ in *.

Ltac iff_rewrite :=
  rewrite ?andb_true_iff, ?kind_eqb_eq, ?entry_matches_iff, ?text_eqb_eq, ?bytes_eqb_eq,
    ?optZ_eqb_eq, ?Z.eqb_eq, ?listZ_eqb_eq in *.

Lemma eq_iff_ident a b : gen_eq a b = true <-> ident_of a = ident_of b.
Proof.
  unfold_gen.
  destruct (p_kind a) eqn:Ka; destruct (p_kind b) eqn:Kb; cbn [kind_eqb andb];
    try (split; intro H; [discriminate H | inversion H]; fail);
    iff_rewrite; (split; intro H; [ | inversion H ]); intuition congruence.
Qed.

Lemma kinds_disjoint a b : p_kind a <> p_kind b -> gen_eq a b = false.
Proof.
  intro H. destruct (gen_eq a b) eqn:E; [|reflexivity].
  apply eq_iff_ident in E. exfalso. apply H.
  unfold ident_of in E. destruct (p_kind a), (p_kind b); try reflexivity; discriminate E.
Qed.

Lemma map_AZ_inj a b : map AZ a = map AZ b -> a = b.
Proof.
  revert b; induction a as [|x a IH]; intros [|y b] H; simpl in H; try discriminate; [reflexivity|].
  inversion H; subst. f_equal. apply IH; assumption.
Qed.

Lemma hash_exact a b :
  p_kind a = p_kind b -> (gen_hashkey a = gen_hashkey b <-> ident_of a = ident_of b).
Proof.
  intro K. unfold_gen. rewrite <- K. rewrite !class_mask_mod. fold (class15 a) (class15 b).
  destruct (p_kind a); cbn [app]; split; intro H; inversion H; try congruence.
  - (* NSEC -> *) f_equal; try congruence. apply map_AZ_inj; assumption.
Qed.

Lemma hash_congruent a b : gen_eq a b = true -> gen_hashkey a = gen_hashkey b.
Proof.
  intro H. pose proof H as H'. apply eq_iff_ident in H.
  assert (K : p_kind a = p_kind b).
  { destruct (kind_eqb (p_kind a) (p_kind b)) eqn:E; [apply kind_eqb_eq; exact E|].
    rewrite kinds_disjoint in H'; [discriminate|]. intro K. apply kind_eqb_eq in K. congruence. }
  apply hash_exact; assumption.
Qed.

(* TTL, creation time and the cache-flush / QU bit never affect identity *)
Definition set_unique (c : Z) (u : bool) : Z := c mod 32768 + (if u then 32768 else 0).

Definition with_lifetime (r : pyrec) (ttl created : Z) (u : bool) : pyrec :=
  {| p_kind := p_kind r; p_name := p_name r; p_type_ := p_type_ r;
     p_class_ := set_unique (p_class_ r) u; p_ttl := ttl; p_created := created;
     p_address := p_address r; p_scope_id := p_scope_id r; p_cpu := p_cpu r; p_os := p_os r;
     p_alias := p_alias r; p_text := p_text r; p_priority := p_priority r; p_weight := p_weight r;
     p_port := p_port r; p_server := p_server r; p_next_name := p_next_name r;
     p_rdtypes := p_rdtypes r |}.

Lemma set_unique_class15 c u : (set_unique c u) mod 32768 = c mod 32768.
Proof. unfold set_unique. destruct u; lia. Qed.

Lemma land_pow2_eq0 a n : 0 <= n -> (Z.land a (2 ^ n) =? 0) = negb (Z.testbit a n).
Proof.
  intro Hn. destruct (Z.testbit a n) eqn:T; cbn [negb].
  - apply Z.eqb_neq. intro E.
    assert (F : Z.testbit (Z.land a (2 ^ n)) n = false) by (rewrite E; apply Z.testbit_0_l).
    rewrite Z.land_spec, T, Z.pow2_bits_true in F by lia. discriminate.
  - apply Z.eqb_eq. apply Z.bits_inj'. intros i Hi. rewrite Z.land_spec, Z.testbit_0_l.
    destruct (Z.eq_dec n i) as [<-|Hne]; [rewrite T; reflexivity|].
    rewrite Z.pow2_bits_false by lia. apply andb_false_r.
Qed.

Lemma testbit15 a : 0 <= a -> Z.testbit a 15 = Z.odd (a / 32768).
Proof. intro H. rewrite Z.testbit_odd, Z.shiftr_div_pow2 by lia. reflexivity. Qed.

Lemma set_unique_bit c u : negb (Z.land (set_unique c u) C_CLASS_UNIQUE =? 0) = u.
Proof.
  unfold set_unique. change C_CLASS_UNIQUE with (2 ^ 15).
  rewrite land_pow2_eq0 by lia. rewrite negb_involutive.
  assert (R : 0 <= c mod 32768 < 32768) by lia.
  rewrite testbit15 by (destruct u; lia).
  destruct u.
  - replace ((c mod 32768 + 32768) / 32768) with 1 by lia. reflexivity.
  - replace ((c mod 32768 + 0) / 32768) with 0 by lia. reflexivity.
Qed.

Lemma ignores_lifetime r ttl created u : gen_eq r (with_lifetime r ttl created u) = true.
Proof.
  apply eq_iff_ident. unfold ident_of, with_lifetime, class15; cbn.
  rewrite set_unique_class15. reflexivity.
Qed.

Lemma unique_bit_is_settable r ttl created u :
  DNSEntry_unique (with_lifetime r ttl created u) = u.
Proof. unfold DNSEntry_unique, with_lifetime; cbn. apply set_unique_bit. Qed.

(* equivalence relation *)
Lemma eq_refl_ a : gen_eq a a = true.
Proof. apply eq_iff_ident; reflexivity. Qed.
Lemma eq_sym_ a b : gen_eq a b = gen_eq b a.
Proof.
  destruct (gen_eq a b) eqn:E1, (gen_eq b a) eqn:E2; try reflexivity.
  - apply eq_iff_ident in E1. symmetry in E1. apply eq_iff_ident in E1. congruence.
  - apply eq_iff_ident in E2. symmetry in E2. apply eq_iff_ident in E2. congruence.
Qed.
Lemma eq_trans_ a b c : gen_eq a b = true -> gen_eq b c = true -> gen_eq a c = true.
Proof. rewrite !eq_iff_ident. congruence. Qed.

Lemma eq_congr_l a a' b : ident_of a = ident_of a' -> gen_eq a b = gen_eq a' b.
Proof.
  intro H. destruct (gen_eq a b) eqn:E1, (gen_eq a' b) eqn:E2; try reflexivity.
  - apply eq_iff_ident in E1. rewrite H in E1. apply eq_iff_ident in E1. congruence.
  - apply eq_iff_ident in E2. rewrite <- H in E2. apply eq_iff_ident in E2. congruence.
Qed.

(* questions *)
Lemma question_identity p q :
  p_kind p = KQuestion -> p_kind q = KQuestion ->
  (gen_eq p q = true <->
   lower (p_name p) = lower (p_name q) /\ p_type_ p = p_type_ q /\ class15 p = class15 q).
Proof.
  intros Kp Kq. rewrite eq_iff_ident. unfold ident_of. rewrite Kp, Kq.
  split; [intro H; inversion H; auto | intros (A & B & C); congruence].
Qed.

(* DNSRRSet: {record: record for record in records} then lookup.get(record) *)
Definition rrset_lookup (records : list pyrec) : list (pyrec * pyrec) :=
  d_of_list gen_eq (fun r => r) records.

Definition rrset_suppresses (records : list pyrec) (record : pyrec) : bool :=
  match d_get gen_eq (rrset_lookup records) record with
  | None => false
  | Some other => DNSRRSet_suppresses_cmp other record
  end.

Lemma d_get_congr (d : list (pyrec * pyrec)) r r' :
  ident_of r = ident_of r' -> d_get gen_eq d r = d_get gen_eq d r'.
Proof.
  intro H. induction d as [|[k v] d IH]; [reflexivity|]. cbn [d_get].
  rewrite (eq_sym_ k r), (eq_sym_ k r'), (eq_congr_l r r' k H), IH. reflexivity.
Qed.

Lemma suppresses_cmp_spec other record :
  DNSRRSet_suppresses_cmp other record = (p_ttl record <? 2 * p_ttl other).
Proof.
  unfold DNSRRSet_suppresses_cmp, q_ltb, q_of_Z, DNSRecord_ttl; cbn [q_num q_den].
  destruct (p_ttl record * 1 <? p_ttl other * 2) eqn:E, (p_ttl record <? 2 * p_ttl other) eqn:E'; lia.
Qed.

Lemma rrset_depends_on_ident_and_ttl records r r' :
  ident_of r = ident_of r' -> p_ttl r = p_ttl r' ->
  rrset_suppresses records r = rrset_suppresses records r'.
Proof.
  intros H T. unfold rrset_suppresses. rewrite (d_get_congr _ r r' H).
  destruct (d_get gen_eq (rrset_lookup records) r'); [|reflexivity].
  rewrite !suppresses_cmp_spec, T. reflexivity.
Qed.

(* a looked-up value is always a member of the list with the same identity as the query *)
Lemma d_set_vk (d : list (pyrec * pyrec)) k v :
  Forall (fun kv => gen_eq (snd kv) (fst kv) = true) d -> gen_eq v k = true ->
  Forall (fun kv => gen_eq (snd kv) (fst kv) = true) (d_set gen_eq d k v).
Proof.
  intros Hd Hv. induction d as [|[k' v'] d IH]; cbn [d_set].
  - constructor; [exact Hv|constructor].
  - inversion Hd as [|? ? Hh Ht]; subst. destruct (gen_eq k' k) eqn:E.
    + constructor; [|exact Ht]. cbn. eapply eq_trans_; [exact Hv|]. rewrite eq_sym_. exact E.
    + constructor; [exact Hh|]. apply IH. exact Ht.
Qed.

Lemma rrset_lookup_vk records :
  Forall (fun kv => gen_eq (snd kv) (fst kv) = true) (rrset_lookup records).
Proof.
  unfold rrset_lookup, d_of_list.
  assert (G : forall l d, Forall (fun kv => gen_eq (snd kv) (fst kv) = true) d ->
              Forall (fun kv => gen_eq (snd kv) (fst kv) = true)
                     (fold_left (fun d k => d_set gen_eq d k k) l d)).
  { induction l as [|x l IH]; intros d Hd; cbn [fold_left]; [exact Hd|].
    apply IH. apply d_set_vk; [exact Hd|apply eq_refl_]. }
  apply G. constructor.
Qed.

Lemma d_get_vk (d : list (pyrec * pyrec)) q o :
  Forall (fun kv => gen_eq (snd kv) (fst kv) = true) d ->
  d_get gen_eq d q = Some o -> gen_eq o q = true.
Proof.
  induction d as [|[k v] d IH]; intros Hd; cbn [d_get]; [discriminate|].
  inversion Hd as [|? ? Hh Ht]; subst. destruct (gen_eq k q) eqn:E.
  - intro X; inversion X; subst. cbn in Hh. eapply eq_trans_; eassumption.
  - apply IH; exact Ht.
Qed.

Lemma rrset_suppresses_sound records r :
  rrset_suppresses records r = true ->
  exists other, gen_eq other r = true /\ p_ttl r < 2 * p_ttl other.
Proof.
  unfold rrset_suppresses. destruct (d_get gen_eq (rrset_lookup records) r) as [o|] eqn:G; [|discriminate].
  intro H. exists o. split.
  - eapply d_get_vk; [apply rrset_lookup_vk|exact G].
  - rewrite suppresses_cmp_spec in H. lia.
Qed.
