(* C16 (and the TC part of C12, the oversize part of C15): the guards of AsyncListener.
   Model: ZC.Model.Listener (datagram / tc_fire).  All statements are about that model. *)
From Coq Require Import ZArith List Bool Lia ZifyBool.
From ZC Require Import Model.Base Model.Dict Model.Listener Gen.Const.
Ltac Zify.zify_post_hook ::= Z.to_euclidean_division_equations.
Open Scope Z_scope.

(* ------------------------------------------------------------------------------------------ *)
(** * Vocabulary *)

(** the datagram is longer than _MAX_MSG_ABSOLUTE *)
Definition oversize (m : lmsg) : Prop := Z.of_nat (length (lm_data m)) > 8966.
Definition fits (m : lmsg) : Prop := Z.of_nat (length (lm_data m)) <= 8966.

(** the state / the observable outcome of one delivery *)
Definition after (s : lstate) (m : lmsg) (a : text) (t : Z) (he : bool) (tc : Z) : lstate :=
  fst (datagram s m a t he tc).
Definition outcome (s : lstate) (m : lmsg) (a : text) (t : Z) (he : bool) (tc : Z) : lout :=
  snd (datagram s m a t he tc).

Lemma datagram_after_outcome s m a t he tc :
  datagram s m a t he tc = (after s m a t he tc, outcome s m a t he tc).
Proof. unfold after, outcome. destruct (datagram s m a t he tc); reflexivity. Qed.

(* ------------------------------------------------------------------------------------------ *)
(** * Basic facts *)

Lemma bytes_eqb_eq (a b : bytes) : bytes_eqb a b = true <-> a = b.
Proof. apply list_eqb_eq. intros x y; apply Z.eqb_eq. Qed.

Lemma bytes_eqb_refl (a : bytes) : bytes_eqb a a = true.
Proof. apply bytes_eqb_eq; reflexivity. Qed.

Lemma text_eqb_neq (a b : text) : a <> b -> text_eqb a b = false.
Proof.
  intros Hne. destruct (text_eqb a b) eqn:E; [|reflexivity].
  apply text_eqb_eq in E. contradiction.
Qed.

Lemma oversize_test_true (m : lmsg) :
  oversize m -> (Z.of_nat (length (lm_data m)) >? C_MAX_MSG_ABSOLUTE) = true.
Proof.
  unfold oversize, C_MAX_MSG_ABSOLUTE. intros Hov.
  rewrite Z.gtb_ltb. apply Z.ltb_lt. lia.
Qed.

Lemma oversize_test_false (m : lmsg) :
  fits m -> (Z.of_nat (length (lm_data m)) >? C_MAX_MSG_ABSOLUTE) = false.
Proof.
  unfold fits, C_MAX_MSG_ABSOLUTE. intros Hfit.
  rewrite Z.gtb_ltb. apply Z.ltb_ge. lia.
Qed.

Lemma lout_eq_dup (o : lout) : o = ODuplicate \/ o <> ODuplicate.
Proof. destruct o; (left; reflexivity) || (right; discriminate). Qed.

Lemma fits_or_oversize (m : lmsg) : fits m \/ oversize m.
Proof. unfold fits, oversize. lia. Qed.

Lemma fits_not_oversize (m : lmsg) : fits m <-> ~ oversize m.
Proof. unfold fits, oversize. lia. Qed.

(* ------------------------------------------------------------------------------------------ *)
(** * 3. window_exact: direct characterisation of the duplicate guard *)

Theorem window_exact (s : lstate) (data : bytes) (now : Z) :
  is_duplicate s data now = true
  <-> ls_data s = Some data            (* same bytes as the previous datagram *)
      /\ now - 1000 < ls_last_time s   (* strictly less than 1000 ms ago *)
      /\ ls_last_msg s = Some false.   (* a previous message exists and it had no QU question *)
Proof.
  unfold is_duplicate, opt_bytes_eqb, C_DUPLICATE_PACKET_SUPPRESSION_INTERVAL.
  split.
  - intros Hdup.
    apply andb_true_iff in Hdup as [Hdup Hmsg].
    apply andb_true_iff in Hdup as [Hdata Htime].
    apply Z.ltb_lt in Htime.
    destruct (ls_data s) as [x|] eqn:Ed; [|discriminate].
    apply bytes_eqb_eq in Hdata. subst x.
    destruct (ls_last_msg s) as [[|]|] eqn:El; try discriminate.
    auto.
  - intros (Hdata & Htime & Hmsg).
    rewrite Hdata, Hmsg, bytes_eqb_refl.
    apply Z.ltb_lt in Htime. rewrite Htime. reflexivity.
Qed.

(* ------------------------------------------------------------------------------------------ *)
(** * 4. oversize_ignored *)

Theorem oversize_ignored (s : lstate) (m : lmsg) (a : text) (t : Z) (he : bool) (tc : Z) :
  Z.of_nat (length (lm_data m)) > 8966 ->
  datagram s m a t he tc = (s, OOversize).
Proof.
  intros Hov. unfold datagram.
  rewrite (oversize_test_true m Hov). reflexivity.
Qed.

(** how one delivery decomposes *)
Lemma datagram_dropped_duplicate s m a t he tc :
  fits m -> is_duplicate s (lm_data m) t = true ->
  datagram s m a t he tc = (s, ODuplicate).
Proof.
  intros Hfit Hdup. unfold datagram.
  rewrite (oversize_test_false m Hfit), Hdup. reflexivity.
Qed.

(** a processed delivery records bytes, time and the QU flag, and is never reported ODuplicate/OOversize *)
Lemma datagram_processed s m a t he tc :
  fits m -> is_duplicate s (lm_data m) t = false ->
  ls_data (after s m a t he tc) = Some (lm_data m)
  /\ ls_last_time (after s m a t he tc) = t
  /\ ls_last_msg (after s m a t he tc) = Some (lm_has_qu m)
  /\ outcome s m a t he tc <> ODuplicate
  /\ outcome s m a t he tc <> OOversize.
Proof.
  intros Hfit Hdup. unfold after, outcome, datagram.
  rewrite (oversize_test_false m Hfit), Hdup.
  destruct (lm_valid m), (lm_is_query m), he, (lm_truncated m);
    cbn [negb fst snd respond_query set_deferred ls_data ls_last_time ls_last_msg ls_deferred ls_timers];
    try (repeat split; (reflexivity || discriminate)).
  destruct (existsb _ _);
    cbn [fst snd set_deferred ls_data ls_last_time ls_last_msg];
    repeat split; (reflexivity || discriminate).
Qed.

(** the guard drops a datagram exactly when it fits and [is_duplicate] holds *)
Theorem dropped_as_duplicate_iff s m a t he tc :
  outcome s m a t he tc = ODuplicate
  <-> fits m
      /\ ls_data s = Some (lm_data m) /\ t - 1000 < ls_last_time s /\ ls_last_msg s = Some false.
Proof.
  rewrite <- window_exact. split.
  - intros Hout. destruct (fits_or_oversize m) as [Hfit|Hov].
    + split; [exact Hfit|].
      destruct (is_duplicate s (lm_data m) t) eqn:Hdup; [reflexivity|].
      destruct (datagram_processed s m a t he tc Hfit Hdup) as (_ & _ & _ & Hnd & _).
      contradiction.
    + unfold outcome in Hout. rewrite (oversize_ignored s m a t he tc Hov) in Hout.
      discriminate.
  - intros [Hfit Hdup]. unfold outcome.
    rewrite (datagram_dropped_duplicate s m a t he tc Hfit Hdup). reflexivity.
Qed.

(* ------------------------------------------------------------------------------------------ *)
(** * 1. duplicate_ignored *)

(** General form.  [m] has no QU question and fits; [s1] is the state after delivering it once at
    time [t] (from any address, any registry state).  A second delivery of the same datagram at
    any time [t'] less than 1000 ms after the time stamp recorded in [s1] is dropped and leaves
    [s1] untouched.  The source address, registry state and TC delay of the second delivery are
    irrelevant. *)
Theorem duplicate_ignored_general s m a a' t t' he he' tc tc' :
  lm_has_qu m = false -> fits m ->
  t' - 1000 < ls_last_time (after s m a t he tc) ->
  datagram (after s m a t he tc) m a' t' he' tc' = (after s m a t he tc, ODuplicate).
Proof.
  intros Hqu Hfit Hwin.
  apply datagram_dropped_duplicate; [exact Hfit|].
  apply window_exact.
  destruct (is_duplicate s (lm_data m) t) eqn:Hdup.
  - (* the first delivery was itself dropped: state unchanged *)
    unfold after in *. rewrite (datagram_dropped_duplicate s m a t he tc Hfit Hdup) in *.
    cbn [fst] in *. apply window_exact in Hdup as (Hd & _ & Hm). auto.
  - destruct (datagram_processed s m a t he tc Hfit Hdup) as (Hd & Ht & Hm & _ & _).
    rewrite Hd, Hm, Hqu. auto.
Qed.

(** The first delivery was processed (not dropped by the guard): any repeat strictly less than
    1000 ms later is dropped.  [t <= t'] is not needed. *)
Theorem duplicate_ignored s m a a' t t' he he' tc tc' :
  lm_has_qu m = false -> fits m ->
  outcome s m a t he tc <> ODuplicate ->
  t' - t < 1000 ->
  datagram (after s m a t he tc) m a' t' he' tc' = (after s m a t he tc, ODuplicate).
Proof.
  intros Hqu Hfit Hproc Hwin.
  apply duplicate_ignored_general; [exact Hqu|exact Hfit|].
  destruct (is_duplicate s (lm_data m) t) eqn:Hdup.
  - exfalso. apply Hproc. unfold outcome.
    rewrite (datagram_dropped_duplicate s m a t he tc Hfit Hdup). reflexivity.
  - destruct (datagram_processed s m a t he tc Hfit Hdup) as (_ & Ht & _).
    rewrite Ht. lia.
Qed.

(** Immediate succession ([t' = t]): unconditional, whatever happened to the first delivery. *)
Theorem duplicate_ignored_same_time s m a a' t he he' tc tc' :
  lm_has_qu m = false -> fits m ->
  datagram (after s m a t he tc) m a' t he' tc' = (after s m a t he tc, ODuplicate).
Proof.
  intros Hqu Hfit.
  apply duplicate_ignored_general; [exact Hqu|exact Hfit|].
  destruct (is_duplicate s (lm_data m) t) eqn:Hdup.
  - unfold after. rewrite (datagram_dropped_duplicate s m a t he tc Hfit Hdup). cbn [fst].
    apply window_exact in Hdup as (_ & Hw & _). exact Hw.
  - destruct (datagram_processed s m a t he tc Hfit Hdup) as (_ & Ht & _).
    rewrite Ht. lia.
Qed.

(** The oversize case: both deliveries are ignored, the state never changes. *)
Theorem duplicate_ignored_oversize s m a a' t t' he he' tc tc' :
  oversize m ->
  datagram s m a t he tc = (s, OOversize)
  /\ datagram (after s m a t he tc) m a' t' he' tc' = (s, OOversize).
Proof.
  intros Hov. unfold after.
  rewrite (oversize_ignored s m a t he tc Hov). cbn [fst].
  split; [reflexivity|]. apply oversize_ignored. exact Hov.
Qed.

(** The sketch "[t <= t'], [t' - t < 1000]" WITHOUT "the first delivery was processed" is false:
    the first delivery (t = 500) is dropped as a duplicate of a datagram seen at time 0, so the
    time stamp stays 0, and the second one (t' = 1200, only 700 ms later) is processed. *)
Definition cx_msg : lmsg :=
  {| lm_data := [1]; lm_valid := true; lm_is_query := true; lm_truncated := false; lm_has_qu := false |}.
Definition cx_state : lstate :=
  {| ls_data := Some [1]; ls_last_time := 0; ls_last_msg := Some false; ls_deferred := []; ls_timers := [] |}.

Example duplicate_ignored_sketch_counterexample :
  lm_has_qu cx_msg = false /\ fits cx_msg /\ 500 <= 1200 /\ 1200 - 500 < 1000
  /\ outcome cx_state cx_msg [] 500 true 400 = ODuplicate
  /\ outcome (after cx_state cx_msg [] 500 true 400) cx_msg [] 1200 true 400 = ORespond [] [cx_msg].
Proof. unfold fits. repeat split; try (vm_compute; congruence). Qed.

(* ------------------------------------------------------------------------------------------ *)
(** * 2. qu_processed_again (partial: needs "the first delivery was processed") *)

(** QU exemption: a datagram with a QU question that was processed is processed again when it is
    repeated, at ANY later or equal time [t'] (no window at all). *)
Theorem qu_processed_again_partial s m a a' t t' he he' tc tc' :
  lm_has_qu m = true -> fits m ->
  outcome s m a t he tc <> ODuplicate ->            (* extra hypothesis *)
  outcome (after s m a t he tc) m a' t' he' tc' <> ODuplicate
  /\ outcome (after s m a t he tc) m a' t' he' tc' <> OOversize.
Proof.
  intros Hqu Hfit Hproc.
  destruct (is_duplicate s (lm_data m) t) eqn:Hdup.
  - exfalso. apply Hproc. unfold outcome.
    rewrite (datagram_dropped_duplicate s m a t he tc Hfit Hdup). reflexivity.
  - destruct (datagram_processed s m a t he tc Hfit Hdup) as (_ & _ & Hm & _ & _).
    assert (Hnd : is_duplicate (after s m a t he tc) (lm_data m) t' = false).
    { destruct (is_duplicate (after s m a t he tc) (lm_data m) t') eqn:Hd2; [|reflexivity].
      apply window_exact in Hd2 as (_ & _ & Hm2). rewrite Hm, Hqu in Hm2. discriminate. }
    destruct (datagram_processed (after s m a t he tc) m a' t' he' tc' Hfit Hnd)
      as (_ & _ & _ & Hnd2 & Hno2).
    split; assumption.
Qed.

(** Without the extra hypothesis the statement is false in the model (where the QU flag is not
    tied to the bytes): the state remembers the same bytes WITHOUT QU, so the first delivery is
    dropped, the state is unchanged, and so is the second. *)
Definition cx_msg_qu : lmsg :=
  {| lm_data := [1]; lm_valid := true; lm_is_query := true; lm_truncated := false; lm_has_qu := true |}.

Example qu_processed_again_counterexample :
  lm_has_qu cx_msg_qu = true /\ fits cx_msg_qu
  /\ outcome cx_state cx_msg_qu [] 500 true 400 = ODuplicate
  /\ outcome (after cx_state cx_msg_qu [] 500 true 400) cx_msg_qu [] 500 true 400 = ODuplicate.
Proof. unfold fits. repeat split; try (vm_compute; congruence). Qed.

(** Equivalent unconditional reading: with a QU question, the repeat is dropped only if the
    first delivery was. *)
Corollary qu_repeat_dropped_only_if_first_dropped s m a a' t t' he he' tc tc' :
  lm_has_qu m = true ->
  outcome (after s m a t he tc) m a' t' he' tc' = ODuplicate ->
  outcome s m a t he tc = ODuplicate.
Proof.
  intros Hqu Hsecond.
  destruct (lout_eq_dup (outcome s m a t he tc)) as [Hd|Hnd]; [exact Hd|].
  exfalso.
  assert (Hfit : fits m) by (apply dropped_as_duplicate_iff in Hsecond as [Hfit _]; exact Hfit).
  destruct (qu_processed_again_partial s m a a' t t' he he' tc tc' Hqu Hfit Hnd) as [Hno _].
  contradiction.
Qed.

(** window_exact, in particular: a processed datagram repeated exactly 1000 ms later (or any
    time from then on) is processed again, QU question or not. *)
Theorem repeat_after_1000_processed s m a a' t t' he he' tc tc' :
  fits m ->
  outcome s m a t he tc <> ODuplicate ->
  t + 1000 <= t' ->
  outcome (after s m a t he tc) m a' t' he' tc' <> ODuplicate.
Proof.
  intros Hfit Hproc Hlate Hsecond.
  apply dropped_as_duplicate_iff in Hsecond as (_ & _ & Hwin & _).
  destruct (is_duplicate s (lm_data m) t) eqn:Hdup.
  - apply Hproc. unfold outcome.
    rewrite (datagram_dropped_duplicate s m a t he tc Hfit Hdup). reflexivity.
  - destruct (datagram_processed s m a t he tc Hfit Hdup) as (_ & Ht & _).
    rewrite Ht in Hwin. lia.
Qed.

Corollary repeat_at_exactly_1000_processed s m a a' t he he' tc tc' :
  fits m ->
  outcome s m a t he tc <> ODuplicate ->
  outcome (after s m a t he tc) m a' (t + 1000) he' tc' <> ODuplicate.
Proof.
  intros Hfit Hproc.
  apply repeat_after_1000_processed; [exact Hfit|exact Hproc|lia].
Qed.

(** ... while 999 ms later it is still dropped (no QU question): the window is exact. *)
Corollary repeat_at_999_dropped s m a a' t he he' tc tc' :
  lm_has_qu m = false -> fits m ->
  outcome s m a t he tc <> ODuplicate ->
  outcome (after s m a t he tc) m a' (t + 999) he' tc' = ODuplicate.
Proof.
  intros Hqu Hfit Hproc. unfold outcome at 1.
  rewrite (duplicate_ignored s m a a' t (t + 999) he he' tc tc' Hqu Hfit Hproc); [reflexivity|lia].
Qed.

(* ------------------------------------------------------------------------------------------ *)
(** * Dictionary facts (keys are texts compared with text_eqb) *)

Section DictFacts.
  Context {V : Type}.
  Implicit Types (d : list (text * V)) (k a : text).

  Lemma d_get_set_same d k v : d_get text_eqb (d_set text_eqb d k v) k = Some v.
  Proof.
    induction d as [|[k' v'] d IH]; cbn [d_set d_get].
    - rewrite text_eqb_refl. reflexivity.
    - destruct (text_eqb k' k) eqn:E; cbn [d_get]; rewrite E; [reflexivity|exact IH].
  Qed.

  Lemma d_get_set_other d k a v :
    k <> a -> d_get text_eqb (d_set text_eqb d k v) a = d_get text_eqb d a.
  Proof.
    intros Hne. induction d as [|[k' v'] d IH]; cbn [d_set d_get].
    - rewrite (text_eqb_neq k a Hne). reflexivity.
    - destruct (text_eqb k' k) eqn:E; cbn [d_get].
      + apply text_eqb_eq in E. subst k'. rewrite (text_eqb_neq k a Hne). reflexivity.
      + destruct (text_eqb k' a); [reflexivity|exact IH].
  Qed.

  Lemma d_get_del_other d k a :
    k <> a -> d_get text_eqb (d_del text_eqb d k) a = d_get text_eqb d a.
  Proof.
    intros Hne. induction d as [|[k' v'] d IH]; cbn [d_del d_get]; [reflexivity|].
    destruct (text_eqb k' k) eqn:E; cbn [d_get].
    - apply text_eqb_eq in E. subst k'. rewrite (text_eqb_neq k a Hne). reflexivity.
    - destruct (text_eqb k' a); [reflexivity|exact IH].
  Qed.

  Lemma d_get_absent d k : ~ In k (map fst d) -> d_get text_eqb d k = None.
  Proof.
    induction d as [|[k' v'] d IH]; cbn [d_get map fst In]; intros Hni; [reflexivity|].
    destruct (text_eqb k' k) eqn:E.
    - apply text_eqb_eq in E. exfalso. apply Hni. left. exact E.
    - apply IH. intros Hin. apply Hni. right. exact Hin.
  Qed.

  (** deleting really removes the key when keys are unique *)
  Lemma d_get_del_same d k :
    NoDup (map fst d) -> d_get text_eqb (d_del text_eqb d k) k = None.
  Proof.
    induction d as [|[k' v'] d IH]; cbn [d_del d_get map fst]; intros Hnd; [reflexivity|].
    inversion Hnd as [|x l Hni Hnd']; subst x l.
    destruct (text_eqb k' k) eqn:E.
    - apply text_eqb_eq in E. subst k'. apply d_get_absent. exact Hni.
    - cbn [d_get]. rewrite E. apply IH. exact Hnd'.
  Qed.

  Lemma d_set_keys_in d k v x :
    In x (map fst (d_set text_eqb d k v)) -> In x (map fst d) \/ x = k.
  Proof.
    induction d as [|[k' v'] d IH]; cbn [d_set map fst In].
    - intros [Hx|[]]. right. symmetry. exact Hx.
    - destruct (text_eqb k' k) eqn:E; cbn [map fst In].
      + intros Hin. left. exact Hin.
      + intros [Hx|Hin]; [left; left; exact Hx|].
        destruct (IH Hin) as [Hin'|Hk]; [left; right; exact Hin'|right; exact Hk].
  Qed.

  Lemma d_del_keys_in d k x : In x (map fst (d_del text_eqb d k)) -> In x (map fst d).
  Proof.
    induction d as [|[k' v'] d IH]; cbn [d_del map fst In]; [intros []|].
    destruct (text_eqb k' k) eqn:E; cbn [map fst In].
    - intros Hin. right. exact Hin.
    - intros [Hx|Hin]; [left; exact Hx|right; apply IH; exact Hin].
  Qed.

  Lemma d_set_keys_nodup d k v : NoDup (map fst d) -> NoDup (map fst (d_set text_eqb d k v)).
  Proof.
    induction d as [|[k' v'] d IH]; cbn [d_set map fst]; intros Hnd.
    - constructor; [intros []|constructor].
    - inversion Hnd as [|x l Hni Hnd']; subst x l.
      destruct (text_eqb k' k) eqn:E; cbn [map fst].
      + constructor; assumption.
      + constructor; [|apply IH; exact Hnd'].
        intros Hin. destruct (d_set_keys_in d k v k' Hin) as [Hin'|Hk].
        * contradiction.
        * subst k'. rewrite text_eqb_refl in E. discriminate.
  Qed.

  Lemma d_del_keys_nodup d k : NoDup (map fst d) -> NoDup (map fst (d_del text_eqb d k)).
  Proof.
    induction d as [|[k' v'] d IH]; cbn [d_del map fst]; intros Hnd; [constructor|].
    inversion Hnd as [|x l Hni Hnd']; subst x l.
    destruct (text_eqb k' k) eqn:E; cbn [map fst]; [exact Hnd'|].
    constructor; [|apply IH; exact Hnd'].
    intros Hin. apply Hni. apply (d_del_keys_in d k k' Hin).
  Qed.
End DictFacts.

(* ------------------------------------------------------------------------------------------ *)
(** * Well-formed listener states: both dictionaries have unique keys (they are Python dicts) *)

Definition wf (s : lstate) : Prop :=
  NoDup (map fst (ls_deferred s)) /\ NoDup (map fst (ls_timers s)).

Lemma wf_init : wf lstate_init.
Proof. split; constructor. Qed.

Lemma wf_datagram s m a t he tc : wf s -> wf (after s m a t he tc).
Proof.
  intros [Hd Ht]. unfold after, datagram.
  destruct (Z.of_nat (length (lm_data m)) >? C_MAX_MSG_ABSOLUTE); [split; assumption|].
  destruct (is_duplicate s (lm_data m) t); [split; assumption|].
  destruct (lm_valid m), (lm_is_query m), he, (lm_truncated m);
    cbn [negb fst respond_query set_deferred ls_deferred ls_timers];
    try (split; assumption);
    try (split; cbn [ls_deferred ls_timers]; apply d_del_keys_nodup; assumption).
  destruct (existsb _ _); cbn [fst]; split; cbn [set_deferred ls_deferred ls_timers];
    try assumption; apply d_set_keys_nodup; assumption.
Qed.

Lemma wf_tc_fire s a now s' o : wf s -> tc_fire s a now = Some (s', o) -> wf s'.
Proof.
  intros [Hd Ht]. unfold tc_fire.
  destruct (d_get text_eqb (ls_timers s) a) as [dl|]; [|discriminate].
  destruct (dl <=? now); [|discriminate].
  unfold respond_query. intros Heq. inversion Heq; subst s' o.
  split; cbn [set_deferred ls_deferred ls_timers]; apply d_del_keys_nodup; assumption.
Qed.

(* ------------------------------------------------------------------------------------------ *)
(** * Truncated (TC) queries: vocabulary *)

(** what is deferred / the pending timer deadline for source address [a] *)
Definition deferred_for (s : lstate) (a : text) : list lmsg :=
  match d_get text_eqb (ls_deferred s) a with Some l => l | None => [] end.
Definition timer_for (s : lstate) (a : text) : option Z := d_get text_eqb (ls_timers s) a.

(** some packet in [l] has exactly these bytes *)
Definition seen_bytes (l : list lmsg) (data : bytes) : bool :=
  existsb (fun x => bytes_eqb (lm_data x) data) l.

Lemma seen_bytes_true_iff l data :
  seen_bytes l data = true <-> exists x, In x l /\ lm_data x = data.
Proof.
  unfold seen_bytes. rewrite existsb_exists. split.
  - intros (x & Hin & Heq). exists x. split; [exact Hin|]. apply bytes_eqb_eq. exact Heq.
  - intros (x & Hin & Heq). exists x. split; [exact Hin|]. apply bytes_eqb_eq. exact Heq.
Qed.

(** a valid truncated query / a valid complete query, of admissible size *)
Definition tc_query (m : lmsg) : Prop :=
  lm_valid m = true /\ lm_is_query m = true /\ lm_truncated m = true /\ fits m.
Definition full_query (m : lmsg) : Prop :=
  lm_valid m = true /\ lm_is_query m = true /\ lm_truncated m = false /\ fits m.

Lemma not_dropped_not_duplicate s m a t he tc :
  fits m -> outcome s m a t he tc <> ODuplicate -> is_duplicate s (lm_data m) t = false.
Proof.
  intros Hfit Hproc. destruct (is_duplicate s (lm_data m) t) eqn:Hdup; [|reflexivity].
  exfalso. apply Hproc. unfold outcome.
  rewrite (datagram_dropped_duplicate s m a t he tc Hfit Hdup). reflexivity.
Qed.

(** one processed truncated query from [a], registry non-empty *)
Lemma tc_step s m a t tc :
  tc_query m -> outcome s m a t true tc <> ODuplicate ->
  outcome s m a t true tc = ODeferred
  /\ (if seen_bytes (deferred_for s a) (lm_data m)
      then ls_deferred (after s m a t true tc) = ls_deferred s
           /\ ls_timers (after s m a t true tc) = ls_timers s
      else ls_deferred (after s m a t true tc)
             = d_set text_eqb (ls_deferred s) a (deferred_for s a ++ [m])
           /\ ls_timers (after s m a t true tc) = d_set text_eqb (ls_timers s) a (t + tc)).
Proof.
  intros (Hv & Hq & Htc & Hfit) Hproc.
  pose proof (not_dropped_not_duplicate s m a t true tc Hfit Hproc) as Hdup.
  unfold outcome, after, datagram, deferred_for, seen_bytes.
  rewrite (oversize_test_false m Hfit), Hdup, Hv, Hq, Htc.
  cbn [negb ls_deferred ls_timers].
  destruct (existsb _ _); cbn [fst snd set_deferred ls_deferred ls_timers]; auto.
Qed.

(* ------------------------------------------------------------------------------------------ *)
(** * 5. tc_identical_ignored *)

Theorem tc_identical_ignored s m a t tc l x :
  tc_query m ->
  outcome s m a t true tc <> ODuplicate ->          (* got past the duplicate guard *)
  d_get text_eqb (ls_deferred s) a = Some l ->      (* packets already deferred for a *)
  In x l -> lm_data x = lm_data m ->                (* one of them has the same bytes *)
  outcome s m a t true tc = ODeferred
  /\ ls_deferred (after s m a t true tc) = ls_deferred s
  /\ ls_timers (after s m a t true tc) = ls_timers s.
Proof.
  intros Hm Hproc Hget Hin Hbytes.
  destruct (tc_step s m a t tc Hm Hproc) as [Hout Hst].
  assert (Hseen : seen_bytes (deferred_for s a) (lm_data m) = true).
  { apply seen_bytes_true_iff. exists x. unfold deferred_for. rewrite Hget. auto. }
  rewrite Hseen in Hst. destruct Hst as [Hd Ht]. auto.
Qed.

(** (if it is dropped by the duplicate guard instead, the whole state is unchanged anyway) *)

(* ------------------------------------------------------------------------------------------ *)
(** * 6. tc_answered_once *)

(** an arriving datagram: decoded message, arrival time, the TC delay drawn for it *)
Record arrival := { ar_msg : lmsg; ar_time : Z; ar_delay : Z }.

(** [train a s es s']: starting in [s], the truncated queries [es] arrive one after the other from
    address [a] (registry non-empty), none is dropped by the duplicate guard, ending in [s'] *)
Inductive train (a : text) : lstate -> list arrival -> lstate -> Prop :=
| train_nil s : train a s [] s
| train_cons s e es s' :
    tc_query (ar_msg e) ->
    outcome s (ar_msg e) a (ar_time e) true (ar_delay e) <> ODuplicate ->
    train a (after s (ar_msg e) a (ar_time e) true (ar_delay e)) es s' ->
    train a s (e :: es) s'.

(** the packets of [ms] whose bytes are neither in [seen] nor earlier in [ms], in arrival order *)
Fixpoint new_packets (seen : list lmsg) (ms : list lmsg) : list lmsg :=
  match ms with
  | [] => []
  | m :: r => if seen_bytes seen (lm_data m) then new_packets seen r
              else m :: new_packets (seen ++ [m]) r
  end.
Definition distinct_by_bytes (ms : list lmsg) : list lmsg := new_packets [] ms.

(** (arrival time + TC delay) of the last arrival that was new in the above sense; [dl] if none *)
Fixpoint last_new_deadline (seen : list lmsg) (dl : option Z) (es : list arrival) : option Z :=
  match es with
  | [] => dl
  | e :: r => if seen_bytes seen (lm_data (ar_msg e)) then last_new_deadline seen dl r
              else last_new_deadline (seen ++ [ar_msg e]) (Some (ar_time e + ar_delay e)) r
  end.
Definition train_deadline (es : list arrival) : option Z := last_new_deadline [] None es.

Lemma train_general a s es s' :
  train a s es s' ->
  deferred_for s' a = deferred_for s a ++ new_packets (deferred_for s a) (map ar_msg es)
  /\ timer_for s' a = last_new_deadline (deferred_for s a) (timer_for s a) es.
Proof.
  intros Htr. induction Htr as [s|s e es s' Hq Hproc Htr IH].
  - cbn [map new_packets last_new_deadline]. rewrite app_nil_r. auto.
  - destruct (tc_step s (ar_msg e) a (ar_time e) (ar_delay e) Hq Hproc) as [_ Hst].
    cbn [map new_packets last_new_deadline].
    destruct (seen_bytes (deferred_for s a) (lm_data (ar_msg e))) eqn:Hseen.
    + destruct Hst as [Hd Ht].
      assert (Hd1 : deferred_for (after s (ar_msg e) a (ar_time e) true (ar_delay e)) a
                    = deferred_for s a) by (unfold deferred_for; rewrite Hd; reflexivity).
      assert (Ht1 : timer_for (after s (ar_msg e) a (ar_time e) true (ar_delay e)) a
                    = timer_for s a) by (unfold timer_for; rewrite Ht; reflexivity).
      rewrite Hd1, Ht1 in IH. exact IH.
    + destruct Hst as [Hd Ht].
      assert (Hd1 : deferred_for (after s (ar_msg e) a (ar_time e) true (ar_delay e)) a
                    = deferred_for s a ++ [ar_msg e])
        by (unfold deferred_for at 1; rewrite Hd, d_get_set_same; reflexivity).
      assert (Ht1 : timer_for (after s (ar_msg e) a (ar_time e) true (ar_delay e)) a
                    = Some (ar_time e + ar_delay e))
        by (unfold timer_for; rewrite Ht, d_get_set_same; reflexivity).
      rewrite Hd1, Ht1 in IH.
      destruct IH as [IHd IHt]. split.
      * rewrite IHd. rewrite <- app_assoc. reflexivity.
      * exact IHt.
Qed.

Lemma wf_train a s es s' : wf s -> train a s es s' -> wf s'.
Proof.
  intros Hwf Htr. induction Htr as [s|s e es s' Hq Hproc Htr IH]; [exact Hwf|].
  apply IH. apply wf_datagram. exact Hwf.
Qed.

Lemma last_new_deadline_some seen x es : exists dl, last_new_deadline seen (Some x) es = Some dl.
Proof.
  revert seen x. induction es as [|e es IH]; intros seen x; cbn [last_new_deadline].
  - exists x. reflexivity.
  - destruct (seen_bytes seen (lm_data (ar_msg e))); apply IH.
Qed.

(** the first arrival of a train that starts with nothing deferred is new, so the initial timer is irrelevant *)
Lemma last_new_deadline_nonempty dl0 es :
  es <> [] -> exists dl, train_deadline es = Some dl /\ last_new_deadline [] dl0 es = Some dl.
Proof.
  destruct es as [|e es]; [congruence|]. intros _.
  unfold train_deadline. cbn [last_new_deadline seen_bytes existsb app].
  destruct (last_new_deadline_some [ar_msg e] (ar_time e + ar_delay e) es) as [dl Hdl].
  exists dl. auto.
Qed.

(** 6a. What a train leaves behind. *)
Theorem tc_train_state a s es s' :
  deferred_for s a = [] ->                         (* nothing deferred for a initially *)
  train a s es s' ->
  deferred_for s' a = distinct_by_bytes (map ar_msg es)
  /\ (es <> [] -> exists dl, train_deadline es = Some dl /\ timer_for s' a = Some dl).
Proof.
  intros Hempty Htr.
  destruct (train_general a s es s' Htr) as [Hd Ht].
  rewrite Hempty in Hd, Ht. cbn [app] in Hd.
  split; [exact Hd|].
  intros Hne. destruct (last_new_deadline_nonempty (timer_for s a) es Hne) as (dl & H1 & H2).
  exists dl. split; [exact H1|]. rewrite Ht. exact H2.
Qed.

(** what [respond_query] does to the entries of [a] *)
Lemma respond_query_spec s msg a :
  wf s ->
  exists s'', respond_query s msg a
              = (s'', ORespond a (deferred_for s a ++ match msg with Some m => [m] | None => [] end))
    /\ d_get text_eqb (ls_deferred s'') a = None /\ timer_for s'' a = None
    /\ (forall now, tc_fire s'' a now = None).
Proof.
  intros [Hd Ht]. unfold respond_query, deferred_for.
  eexists. split.
  - destruct msg as [m|]; [reflexivity|]. rewrite app_nil_r. reflexivity.
  - assert (Htimer : timer_for (set_deferred s (d_del text_eqb (ls_deferred s) a)
                                              (d_del text_eqb (ls_timers s) a)) a = None).
    { unfold timer_for. cbn [set_deferred ls_timers]. apply d_get_del_same. exact Ht. }
    split; [|split].
    + cbn [set_deferred ls_deferred]. apply d_get_del_same. exact Hd.
    + exact Htimer.
    + intros now. unfold tc_fire. unfold timer_for in Htimer. rewrite Htimer. reflexivity.
Qed.

(** 6b. The timer answers the whole train, once: before the deadline nothing happens; at or after
    it the distinct packets are handed over in arrival order, both entries of [a] are cleared and
    the timer cannot fire again. *)
Theorem tc_answered_once_timer a s es s' dl :
  wf s -> deferred_for s a = [] -> es <> [] ->
  train a s es s' ->
  train_deadline es = Some dl ->
  (forall now, now < dl -> tc_fire s' a now = None)
  /\ (forall now, dl <= now ->
        exists s'', tc_fire s' a now = Some (s'', ORespond a (distinct_by_bytes (map ar_msg es)))
          /\ d_get text_eqb (ls_deferred s'') a = None /\ timer_for s'' a = None
          /\ (forall now', tc_fire s'' a now' = None)).
Proof.
  intros Hwf Hempty Hne Htr Hdl.
  destruct (tc_train_state a s es s' Hempty Htr) as [Hd Ht].
  destruct (Ht Hne) as (dl' & Hdl' & Htimer). rewrite Hdl in Hdl'. inversion Hdl'; subst dl'.
  unfold timer_for in Htimer.
  split.
  - intros now Hnow. unfold tc_fire. rewrite Htimer.
    destruct (dl <=? now) eqn:E; [|reflexivity]. apply Z.leb_le in E. lia.
  - intros now Hnow. unfold tc_fire. rewrite Htimer.
    destruct (dl <=? now) eqn:E; [|apply Z.leb_gt in E; lia].
    destruct (respond_query_spec s' None a (wf_train a s es s' Hwf Htr)) as (s'' & Hr & Hc).
    exists s''. rewrite Hr, Hd, app_nil_r. split; [reflexivity|exact Hc].
Qed.

(** 6c. Likewise a complete (non-truncated) valid query from [a] that passes the duplicate guard
    answers the train plus itself at once, and cancels the timer. *)
Theorem tc_answered_once_query a s es s' m now tc :
  wf s -> deferred_for s a = [] ->
  train a s es s' ->
  full_query m ->
  outcome s' m a now true tc <> ODuplicate ->
  exists s'', datagram s' m a now true tc
              = (s'', ORespond a (distinct_by_bytes (map ar_msg es) ++ [m]))
    /\ d_get text_eqb (ls_deferred s'') a = None /\ timer_for s'' a = None
    /\ (forall now', tc_fire s'' a now' = None).
Proof.
  intros Hwf Hempty Htr (Hv & Hq & Htc & Hfit) Hproc.
  destruct (tc_train_state a s es s' Hempty Htr) as [Hd _].
  pose proof (not_dropped_not_duplicate s' m a now true tc Hfit Hproc) as Hdup.
  pose proof (wf_train a s es s' Hwf Htr) as [Hwd Hwt].
  unfold datagram.
  rewrite (oversize_test_false m Hfit), Hdup, Hv, Hq, Htc. cbn [negb].
  match goal with |- exists s'', respond_query ?s1 _ _ = _ /\ _ =>
    destruct (respond_query_spec s1 (Some m) a) as (s'' & Hr & Hc);
      [split; cbn [ls_deferred ls_timers]; assumption|];
    assert (Hdf : deferred_for s1 a = deferred_for s' a) by reflexivity
  end.
  exists s''. rewrite Hr, Hdf, Hd. split; [reflexivity|exact Hc].
Qed.

(* ------------------------------------------------------------------------------------------ *)
(** * [distinct_by_bytes] is what its name says *)

Lemma not_seen_not_in seen data :
  seen_bytes seen data = false -> ~ In data (map lm_data seen).
Proof.
  intros Hns Hin. apply in_map_iff in Hin as (x & Hx & Hin).
  assert (Hs : seen_bytes seen data = true) by (apply seen_bytes_true_iff; exists x; auto).
  congruence.
Qed.

Lemma seen_bytes_app l1 l2 data :
  seen_bytes (l1 ++ l2) data = seen_bytes l1 data || seen_bytes l2 data.
Proof. unfold seen_bytes. apply existsb_app. Qed.

Lemma NoDup_snoc {A} (l : list A) (x : A) : NoDup l -> ~ In x l -> NoDup (l ++ [x]).
Proof.
  induction l as [|y l IH]; cbn [app]; intros Hnd Hni.
  - constructor; [intros []|constructor].
  - inversion Hnd as [|y' l' Hy Hnd']; subst y' l'.
    constructor.
    + intros Hin. apply in_app_or in Hin as [Hin|[Hin|[]]]; [contradiction|].
      apply Hni. left. symmetry. exact Hin.
    + apply IH; [exact Hnd'|]. intros Hin. apply Hni. right. exact Hin.
Qed.

(** it is a sub-list (every kept packet is one of the arrivals) *)
Lemma new_packets_incl seen ms x : In x (new_packets seen ms) -> In x ms.
Proof.
  revert seen. induction ms as [|m r IH]; intros seen; cbn [new_packets]; [intros []|].
  destruct (seen_bytes seen (lm_data m)).
  - intros Hin. right. apply (IH seen). exact Hin.
  - intros [Hx|Hin]; [left; exact Hx|right; apply (IH (seen ++ [m])); exact Hin].
Qed.

(** no two kept packets have the same bytes *)
Lemma new_packets_nodup seen ms :
  NoDup (map lm_data seen) -> NoDup (map lm_data (seen ++ new_packets seen ms)).
Proof.
  revert seen. induction ms as [|m r IH]; intros seen Hnd; cbn [new_packets].
  - rewrite app_nil_r. exact Hnd.
  - destruct (seen_bytes seen (lm_data m)) eqn:Hs; [apply IH; exact Hnd|].
    replace (seen ++ m :: new_packets (seen ++ [m]) r)
      with ((seen ++ [m]) ++ new_packets (seen ++ [m]) r)
      by (rewrite <- app_assoc; reflexivity).
    apply IH. rewrite map_app. cbn [map].
    apply NoDup_snoc; [exact Hnd|]. apply not_seen_not_in. exact Hs.
Qed.

(** every arrival's bytes are represented *)
Lemma new_packets_cover seen ms m :
  In m ms -> seen_bytes (seen ++ new_packets seen ms) (lm_data m) = true.
Proof.
  revert seen. induction ms as [|m' r IH]; intros seen; cbn [new_packets In]; [intros []|].
  intros [Hm|Hin].
  - subst m'. destruct (seen_bytes seen (lm_data m)) eqn:Hs.
    + rewrite seen_bytes_app, Hs. reflexivity.
    + rewrite seen_bytes_app. apply orb_true_iff. right.
      unfold seen_bytes. cbn [existsb]. rewrite bytes_eqb_refl. reflexivity.
  - destruct (seen_bytes seen (lm_data m')) eqn:Hs; [apply IH; exact Hin|].
    replace (seen ++ m' :: new_packets (seen ++ [m']) r)
      with ((seen ++ [m']) ++ new_packets (seen ++ [m']) r)
      by (rewrite <- app_assoc; reflexivity).
    apply IH. exact Hin.
Qed.

Lemma new_packets_id seen ms :
  NoDup (map lm_data (seen ++ ms)) -> new_packets seen ms = ms.
Proof.
  revert seen. induction ms as [|m r IH]; intros seen Hnd; cbn [new_packets]; [reflexivity|].
  destruct (seen_bytes seen (lm_data m)) eqn:Hs.
  - exfalso. apply seen_bytes_true_iff in Hs as (x & Hin & Hx).
    rewrite map_app in Hnd. cbn [map] in Hnd. apply NoDup_remove_2 in Hnd.
    apply Hnd. apply in_or_app. left. rewrite <- Hx. apply in_map. exact Hin.
  - f_equal. apply IH. rewrite <- app_assoc. exact Hnd.
Qed.

Theorem distinct_by_bytes_spec ms :
  (forall x, In x (distinct_by_bytes ms) -> In x ms)
  /\ NoDup (map lm_data (distinct_by_bytes ms))
  /\ (forall m, In m ms -> exists x, In x (distinct_by_bytes ms) /\ lm_data x = lm_data m)
  /\ (NoDup (map lm_data ms) -> distinct_by_bytes ms = ms).
Proof.
  unfold distinct_by_bytes. repeat split.
  - intros x. apply new_packets_incl.
  - apply (new_packets_nodup [] ms). constructor.
  - intros m Hin. apply seen_bytes_true_iff. apply (new_packets_cover [] ms m Hin).
  - intros Hnd. apply new_packets_id. exact Hnd.
Qed.

(* ------------------------------------------------------------------------------------------ *)
(** * Frame: datagrams from other addresses do not touch the entries of [a] *)

Theorem other_address_frame s m a b t he tc :
  b <> a ->
  deferred_for (after s m b t he tc) a = deferred_for s a
  /\ timer_for (after s m b t he tc) a = timer_for s a.
Proof.
  intros Hne. unfold after, datagram, deferred_for, timer_for.
  destruct (Z.of_nat (length (lm_data m)) >? C_MAX_MSG_ABSOLUTE); [auto|].
  destruct (is_duplicate s (lm_data m) t); [auto|].
  destruct (lm_valid m), (lm_is_query m), he, (lm_truncated m);
    cbn [negb fst respond_query set_deferred ls_deferred ls_timers]; auto.
  - destruct (existsb _ _); cbn [fst set_deferred ls_deferred ls_timers]; [auto|].
    rewrite !(d_get_set_other _ b a _ Hne). auto.
  - rewrite !(d_get_del_other _ b a Hne). auto.
Qed.

(* ------------------------------------------------------------------------------------------ *)
(** * A concrete run (sanity check of the statements against the model) *)

Definition ex_pkt (b : Z) : lmsg :=
  {| lm_data := [b]; lm_valid := true; lm_is_query := true; lm_truncated := true; lm_has_qu := true |}.
Definition ex_train : list arrival :=
  [ {| ar_msg := ex_pkt 1; ar_time := 10; ar_delay := 400 |};
    {| ar_msg := ex_pkt 2; ar_time := 20; ar_delay := 450 |};
    {| ar_msg := ex_pkt 1; ar_time := 30; ar_delay := 500 |} ].
Definition ex_run : lstate :=
  fold_left (fun s e => after s (ar_msg e) [7] (ar_time e) true (ar_delay e)) ex_train lstate_init.

Example ex_train_values :
  distinct_by_bytes (map ar_msg ex_train) = [ex_pkt 1; ex_pkt 2]
  /\ train_deadline ex_train = Some 470
  /\ deferred_for ex_run [7] = [ex_pkt 1; ex_pkt 2]
  /\ timer_for ex_run [7] = Some 470
  /\ tc_fire ex_run [7] 469 = None
  /\ option_map snd (tc_fire ex_run [7] 470) = Some (ORespond [7] [ex_pkt 1; ex_pkt 2]).
Proof. vm_compute. repeat split. Qed.

(* ------------------------------------------------------------------------------------------ *)
Print Assumptions window_exact.
Print Assumptions dropped_as_duplicate_iff.
Print Assumptions oversize_ignored.
Print Assumptions duplicate_ignored_general.
Print Assumptions duplicate_ignored.
Print Assumptions duplicate_ignored_same_time.
Print Assumptions duplicate_ignored_oversize.
Print Assumptions duplicate_ignored_sketch_counterexample.
Print Assumptions qu_processed_again_partial.
Print Assumptions qu_processed_again_counterexample.
Print Assumptions qu_repeat_dropped_only_if_first_dropped.
Print Assumptions repeat_after_1000_processed.
Print Assumptions repeat_at_exactly_1000_processed.
Print Assumptions repeat_at_999_dropped.
Print Assumptions tc_identical_ignored.
Print Assumptions tc_train_state.
Print Assumptions tc_answered_once_timer.
Print Assumptions tc_answered_once_query.
Print Assumptions distinct_by_bytes_spec.
Print Assumptions other_address_frame.
Print Assumptions wf_init.
Print Assumptions wf_datagram.
Print Assumptions wf_tc_fire.
Print Assumptions ex_train_values.
