(* C11 (helpers): where async_response puts an answer, set by set, up to record identity.
   The statements of the property itself are in C11_route.v. *)
From Coq Require Import ZArith List Bool Lia ZifyBool.
From ZC Require Import Model.Base Model.PyRec Model.Dict Model.Re Model.Cache Model.Respond Gen.Const Gen.Extra Gen.DnsPure Spec.AnswerSpec.
From ZC Require Import Proofs.C20_identity Proofs.C03_sets Proofs.C03_respond.
Ltac Zify.zify_post_hook ::= Z.to_euclidean_division_equations.

(* ================= vocabulary ================= *)
Definition recent (c : cache) (now : Z) (r : pyrec) : bool := has_mcast_within_one_quarter_ttl c now r.
Definition last_second (c : cache) (now : Z) (r : pyrec) : bool := has_mcast_record_in_last_second c now r.

Definition keys (a : answer_set) : list pyrec := map fst a.

(* [inset r a]: the answer set a has a key with the identity of r (C03_sets.has: exists k, In k l /\ gen_eq k r = true) *)
Definition inset (r : pyrec) (a : answer_set) : Prop := has (keys a) r.

(* the keys of the answer sets that the strategies of question q produce *)
Definition answers_of (g : registry) (msgs : list qmsg) (q : pyrec) : list pyrec :=
  flat_map (fun st => keys (answer_question (known_answers msgs) (p_type_ q) st)) (get_strategies g q).

(* q is a question of one of the packets *)
Definition asked (msgs : list qmsg) (q : pyrec) : Prop := exists m, In m msgs /\ In q (qm_questions m).

(* `len(questions) == 1 and questions[0].type in _RESPOND_IMMEDIATE_TYPES` of the first packet *)
Definition immediate (qs : list pyrec) : bool :=
  match qs with [q] => respond_immediate (p_type_ q) | _ => false end.

(* the QU branch of async_response is taken for question q *)
Definition qu_path (ucast_source : bool) (q : pyrec) : bool := negb ucast_source && DNSEntry_unique q.

(* the routing table of _QueryResponse, per (question, record identity) *)
Definition to_ucast (c : cache) (now : Z) (p ucast_source : bool) (q a : pyrec) : Prop :=
  if qu_path ucast_source q then p = true \/ recent c now a = true else ucast_source = true.
Definition to_now (c : cache) (now : Z) (p : bool) (qs : list pyrec) (ucast_source : bool) (q a : pyrec) : Prop :=
  if qu_path ucast_source q then recent c now a = false
  else p = true \/ (last_second c now a = false /\ immediate qs = true).
Definition to_aggregate (c : cache) (now : Z) (p : bool) (qs : list pyrec) (ucast_source : bool) (q a : pyrec) : Prop :=
  if qu_path ucast_source q then False
  else p = false /\ last_second c now a = false /\ immediate qs = false.
Definition to_last_second (c : cache) (now : Z) (p ucast_source : bool) (q a : pyrec) : Prop :=
  if qu_path ucast_source q then False else p = false /\ last_second c now a = true.

(* ================= identity congruences ================= *)
Lemma gen_eq_key a b : gen_eq a b = true -> rkey a = rkey b.
Proof. intro E. apply eq_iff_ident in E. apply ident_lower_name in E. exact E. Qed.

Lemma gen_eq_congr_r x a b : gen_eq a b = true -> gen_eq x a = gen_eq x b.
Proof.
  intro E. rewrite (eq_sym_ x a), (eq_sym_ x b). apply eq_congr_l. apply eq_iff_ident. exact E.
Qed.

Lemma b_get_congr b a a' : gen_eq a a' = true -> b_get b a = b_get b a'.
Proof.
  intro E. unfold b_get. induction b as [|x b IH]; cbn [find]; [reflexivity|].
  rewrite (gen_eq_congr_r x a a' E), IH. reflexivity.
Qed.

Lemma get_unique_congr c a a' : gen_eq a a' = true -> async_get_unique c a = async_get_unique c a'.
Proof.
  intro E. unfold async_get_unique. rewrite (gen_eq_key a a' E).
  destruct (idx_get (c_main c) (rkey a')) as [b|]; [|reflexivity]. apply b_get_congr. exact E.
Qed.

Lemma recent_congr c now a a' : gen_eq a a' = true -> recent c now a = recent c now a'.
Proof.
  intro E. unfold recent, has_mcast_within_one_quarter_ttl. rewrite (get_unique_congr c a a' E). reflexivity.
Qed.

Lemma last_second_congr c now a a' : gen_eq a a' = true -> last_second c now a = last_second c now a'.
Proof.
  intro E. unfold last_second, has_mcast_record_in_last_second. rewrite (get_unique_congr c a a' E). reflexivity.
Qed.

(* ================= [has] ================= *)
Lemma has_cons x l a : has (x :: l) a <-> gen_eq x a = true \/ has l a.
Proof. change (x :: l) with ([x] ++ l). rewrite has_app, has_single. tauto. Qed.

Lemma has_in l r : In r l -> has l r.
Proof. intro H. exists r. split; [exact H|apply eq_refl_]. Qed.

Lemma no_has_nil l : (forall a, ~ has l a) -> l = [].
Proof.
  destruct l as [|x l]; [reflexivity|]. intro H. exfalso. apply (H x). apply has_in. left. reflexivity.
Qed.

Lemma inset_none_nil (s : answer_set) : (forall a, ~ inset a s) -> s = [].
Proof. intro H. apply map_eq_nil with (f := fst). apply no_has_nil. exact H. Qed.

Lemma inset_app r a b : inset r (a ++ b) <-> inset r a \/ inset r b.
Proof. unfold inset, keys. rewrite map_app. apply has_app. Qed.

Lemma inset_nil r : inset r [] <-> False.
Proof. unfold inset, keys. cbn [map]. apply has_nil. Qed.

(* ================= add_qu ================= *)
Lemma add_qu_ucast c now p answers qr a :
  has (q_ucast (add_qu c now p qr answers)) a <->
  has (q_ucast qr) a \/ (has (keys answers) a /\ (p = true \/ recent c now a = true)).
Proof.
  unfold add_qu, keys. revert qr. induction answers as [|[r adds] l IH]; intro qr; cbn [fold_left map fst].
  - rewrite has_nil. tauto.
  - rewrite IH. cbn [q_ucast]. rewrite has_cons.
    assert (C : gen_eq r a = true -> recent c now a = has_mcast_within_one_quarter_ttl c now r).
    { intro E. symmetry. apply (recent_congr c now r a E). }
    destruct p, (has_mcast_within_one_quarter_ttl c now r); cbn [negb]; rewrite ?has_sadd; intuition congruence.
Qed.

Lemma add_qu_now c now p answers qr a :
  has (q_mcast_now (add_qu c now p qr answers)) a <->
  has (q_mcast_now qr) a \/ (has (keys answers) a /\ recent c now a = false).
Proof.
  unfold add_qu, keys. revert qr. induction answers as [|[r adds] l IH]; intro qr; cbn [fold_left map fst].
  - rewrite has_nil. tauto.
  - rewrite IH. cbn [q_mcast_now]. rewrite has_cons.
    assert (C : gen_eq r a = true -> recent c now a = has_mcast_within_one_quarter_ttl c now r).
    { intro E. symmetry. apply (recent_congr c now r a E). }
    destruct (has_mcast_within_one_quarter_ttl c now r); cbn [negb]; rewrite ?has_sadd; intuition congruence.
Qed.

Lemma add_qu_aggregate c now p answers qr :
  q_mcast_aggregate (add_qu c now p qr answers) = q_mcast_aggregate qr.
Proof.
  unfold add_qu. revert qr. induction answers as [|[r adds] l IH]; intro qr; cbn [fold_left]; [reflexivity|].
  rewrite IH. reflexivity.
Qed.

Lemma add_qu_last_second c now p answers qr :
  q_mcast_last_second (add_qu c now p qr answers) = q_mcast_last_second qr.
Proof.
  unfold add_qu. revert qr. induction answers as [|[r adds] l IH]; intro qr; cbn [fold_left]; [reflexivity|].
  rewrite IH. reflexivity.
Qed.

(* ================= add_ucast ================= *)
Lemma add_ucast_ucast answers qr a :
  has (q_ucast (add_ucast qr answers)) a <-> has (q_ucast qr) a \/ has (keys answers) a.
Proof. unfold add_ucast, keys; cbn [q_ucast]. apply has_fold_sadd. Qed.

(* ================= add_mcast ================= *)
Definition mstep (c : cache) (now : Z) (p : bool) (qs : list pyrec) (qr : qresp) (ra : pyrec * list pyrec) : qresp :=
  let r := fst ra in
  if p then
    {| q_additionals := q_additionals qr; q_ucast := q_ucast qr; q_mcast_now := sadd (q_mcast_now qr) r;
       q_mcast_aggregate := q_mcast_aggregate qr; q_mcast_last_second := q_mcast_last_second qr |}
  else if has_mcast_record_in_last_second c now r then
    {| q_additionals := q_additionals qr; q_ucast := q_ucast qr; q_mcast_now := q_mcast_now qr;
       q_mcast_aggregate := q_mcast_aggregate qr; q_mcast_last_second := sadd (q_mcast_last_second qr) r |}
  else if immediate qs then
    {| q_additionals := q_additionals qr; q_ucast := q_ucast qr; q_mcast_now := sadd (q_mcast_now qr) r;
       q_mcast_aggregate := q_mcast_aggregate qr; q_mcast_last_second := q_mcast_last_second qr |}
  else
    {| q_additionals := q_additionals qr; q_ucast := q_ucast qr; q_mcast_now := q_mcast_now qr;
       q_mcast_aggregate := sadd (q_mcast_aggregate qr) r; q_mcast_last_second := q_mcast_last_second qr |}.

Lemma add_mcast_eq c now p qs qr answers :
  add_mcast c now p qs qr answers =
  fold_left (mstep c now p qs) answers
    {| q_additionals := fold_left (fun acc ra => as_set acc (fst ra) (snd ra)) answers (q_additionals qr);
       q_ucast := q_ucast qr; q_mcast_now := q_mcast_now qr; q_mcast_aggregate := q_mcast_aggregate qr;
       q_mcast_last_second := q_mcast_last_second qr |}.
Proof. reflexivity. Qed.

Lemma mstep_fold c now p qs a : forall l q,
  q_ucast (fold_left (mstep c now p qs) l q) = q_ucast q /\
  (has (q_mcast_now (fold_left (mstep c now p qs) l q)) a <->
     has (q_mcast_now q) a \/ (has (map fst l) a /\ (p = true \/ (last_second c now a = false /\ immediate qs = true)))) /\
  (has (q_mcast_aggregate (fold_left (mstep c now p qs) l q)) a <->
     has (q_mcast_aggregate q) a \/ (has (map fst l) a /\ p = false /\ last_second c now a = false /\ immediate qs = false)) /\
  (has (q_mcast_last_second (fold_left (mstep c now p qs) l q)) a <->
     has (q_mcast_last_second q) a \/ (has (map fst l) a /\ p = false /\ last_second c now a = true)).
Proof.
  induction l as [|ra l IH]; intro q; cbn [fold_left map].
  - rewrite has_nil. split; [reflexivity|]. tauto.
  - destruct (IH (mstep c now p qs q ra)) as (U & N & A & L). rewrite U, N, A, L. clear U N A L IH.
    rewrite has_cons.
    assert (C : gen_eq (fst ra) a = true -> last_second c now a = has_mcast_record_in_last_second c now (fst ra)).
    { intro E. symmetry. apply (last_second_congr c now (fst ra) a E). }
    unfold mstep.
    destruct p; [|destruct (has_mcast_record_in_last_second c now (fst ra)); [|destruct (immediate qs)]];
      cbn [q_ucast q_mcast_now q_mcast_aggregate q_mcast_last_second]; rewrite ?has_sadd;
      (split; [reflexivity|]); intuition congruence.
Qed.

Lemma add_mcast_spec c now p qs answers qr a :
  q_ucast (add_mcast c now p qs qr answers) = q_ucast qr /\
  (has (q_mcast_now (add_mcast c now p qs qr answers)) a <->
     has (q_mcast_now qr) a \/ (has (keys answers) a /\ (p = true \/ (last_second c now a = false /\ immediate qs = true)))) /\
  (has (q_mcast_aggregate (add_mcast c now p qs qr answers)) a <->
     has (q_mcast_aggregate qr) a \/ (has (keys answers) a /\ p = false /\ last_second c now a = false /\ immediate qs = false)) /\
  (has (q_mcast_last_second (add_mcast c now p qs qr answers)) a <->
     has (q_mcast_last_second qr) a \/ (has (keys answers) a /\ p = false /\ last_second c now a = true)).
Proof.
  rewrite add_mcast_eq. unfold keys.
  match goal with |- q_ucast (fold_left _ _ ?q0) = _ /\ _ => pose proof (mstep_fold c now p qs a answers q0) as G end.
  cbn [q_ucast q_mcast_now q_mcast_aggregate q_mcast_last_second] in G. exact G.
Qed.

(* ================= one strategy ================= *)
Lemma rstep_spec c now p qs known ucast qr x a :
  (has (q_ucast (rstep c now p qs known ucast qr x)) a <->
     has (q_ucast qr) a \/
     (has (keys (answer_question known (p_type_ (fst x)) (snd x))) a /\ to_ucast c now p ucast (fst x) a)) /\
  (has (q_mcast_now (rstep c now p qs known ucast qr x)) a <->
     has (q_mcast_now qr) a \/
     (has (keys (answer_question known (p_type_ (fst x)) (snd x))) a /\ to_now c now p qs ucast (fst x) a)) /\
  (has (q_mcast_aggregate (rstep c now p qs known ucast qr x)) a <->
     has (q_mcast_aggregate qr) a \/
     (has (keys (answer_question known (p_type_ (fst x)) (snd x))) a /\ to_aggregate c now p qs ucast (fst x) a)) /\
  (has (q_mcast_last_second (rstep c now p qs known ucast qr x)) a <->
     has (q_mcast_last_second qr) a \/
     (has (keys (answer_question known (p_type_ (fst x)) (snd x))) a /\ to_last_second c now p ucast (fst x) a)).
Proof.
  destruct x as [q st]. cbn [fst snd]. unfold rstep, to_ucast, to_now, to_aggregate, to_last_second, qu_path.
  destruct (negb ucast && DNSEntry_unique q).
  - rewrite add_qu_ucast, add_qu_now, add_qu_aggregate, add_qu_last_second. tauto.
  - destruct (add_mcast_spec c now p qs (answer_question known (p_type_ q) st)
                (if ucast then add_ucast qr (answer_question known (p_type_ q) st) else qr) a) as (U & N & A & L).
    rewrite U, N, A, L. clear U N A L. destruct ucast.
    + rewrite add_ucast_ucast. cbn [add_ucast q_mcast_now q_mcast_aggregate q_mcast_last_second]. intuition.
    + intuition congruence.
Qed.

(* ================= all strategies ================= *)
Lemma fold_has (proj : qresp -> list pyrec) (f : qresp -> pyrec * strategy -> qresp)
               (ans : pyrec * strategy -> list pyrec) (P : pyrec -> pyrec -> Prop) :
  (forall qr x a, has (proj (f qr x)) a <-> has (proj qr) a \/ (has (ans x) a /\ P (fst x) a)) ->
  forall S qr a, has (proj (fold_left f S qr)) a <->
                 has (proj qr) a \/ exists x, In x S /\ has (ans x) a /\ P (fst x) a.
Proof.
  intros Hf S. induction S as [|x S IH]; intros qr a; cbn [fold_left].
  - split; [intro H; left; exact H|]. intros [H|(x & [] & _)]. exact H.
  - rewrite IH, Hf. split.
    + intros [[H|H]|(y & HIn & H)]; [left; exact H|right; exists x; split; [left; reflexivity|exact H]|].
      right. exists y. split; [right; exact HIn|exact H].
    + intros [H|(y & [<-|HIn] & H)]; [left; left; exact H|left; right; exact H|]. right. exists y. auto.
Qed.

Lemma has_answers_of g msgs q a :
  has (answers_of g msgs q) a <->
  exists st, In st (get_strategies g q) /\ has (keys (answer_question (known_answers msgs) (p_type_ q) st)) a.
Proof.
  unfold answers_of, has. split.
  - intros (r & HIn & E). apply in_flat_map in HIn as (st & Hst & Hr). exists st. split; [exact Hst|]. exists r. auto.
  - intros (st & Hst & r & Hr & E). exists r. split; [|exact E]. apply in_flat_map. exists st. auto.
Qed.

Lemma strategies_exists g msgs (P : pyrec -> pyrec -> Prop) a :
  (exists x, In x (strategies_of g msgs) /\
             has (keys (answer_question (known_answers msgs) (p_type_ (fst x)) (snd x))) a /\ P (fst x) a) <->
  (exists q, asked msgs q /\ has (answers_of g msgs q) a /\ P q a).
Proof.
  split.
  - intros (x & HIn & Ha & HP). apply in_strategies_of in HIn as (m & Hm & Hq & Hst).
    exists (fst x). split; [exists m; auto|]. split; [|exact HP].
    apply has_answers_of. exists (snd x). auto.
  - intros (q & (m & Hm & Hq) & Ha & HP). apply has_answers_of in Ha as (st & Hst & Ha).
    exists (q, st). cbn [fst snd]. split; [|auto]. apply in_strategies_of. exists m. cbn [fst snd]. auto.
Qed.

(* the four sets of a response, for any number of packets and questions *)
Lemma response_routing_ g c m0 ms ucast qa :
  async_response g c (m0 :: ms) ucast = Some qa ->
  forall a,
    (inset a (qa_ucast qa) <->
       exists q, asked (m0 :: ms) q /\ has (answers_of g (m0 :: ms) q) a /\
                 to_ucast c (qm_now (last (m0 :: ms) m0)) (existsb qm_is_probe (m0 :: ms)) ucast q a) /\
    (inset a (qa_mcast_now qa) <->
       exists q, asked (m0 :: ms) q /\ has (answers_of g (m0 :: ms) q) a /\
                 to_now c (qm_now (last (m0 :: ms) m0)) (existsb qm_is_probe (m0 :: ms)) (qm_questions m0) ucast q a) /\
    (inset a (qa_mcast_aggregate qa) <->
       exists q, asked (m0 :: ms) q /\ has (answers_of g (m0 :: ms) q) a /\
                 to_aggregate c (qm_now (last (m0 :: ms) m0)) (existsb qm_is_probe (m0 :: ms)) (qm_questions m0) ucast q a) /\
    (inset a (qa_mcast_last_second qa) <->
       exists q, asked (m0 :: ms) q /\ has (answers_of g (m0 :: ms) q) a /\
                 to_last_second c (qm_now (last (m0 :: ms) m0)) (existsb qm_is_probe (m0 :: ms)) ucast q a).
Proof.
  intros H a.
  set (now := qm_now (last (m0 :: ms) m0)). set (p := existsb qm_is_probe (m0 :: ms)). set (qs := qm_questions m0).
  set (known := known_answers (m0 :: ms)).
  assert (E : qa = qa_of (fold_left (rstep c now p qs known ucast) (strategies_of g (m0 :: ms)) qr_empty)).
  { rewrite async_response_eq in H.
    destruct (strategies_of g (m0 :: ms)) as [|x0 S0] eqn:ES; [discriminate H|].
    injection H as H. symmetry. exact H. }
  clear H. subst qa.
  unfold inset, keys, qa_of; cbn [qa_ucast qa_mcast_now qa_mcast_aggregate qa_mcast_last_second].
  rewrite !map_fst_with_additionals.
  rewrite <- !strategies_exists. fold known.
  pose proof (fun qr x a => proj1 (rstep_spec c now p qs known ucast qr x a)) as R1.
  pose proof (fun qr x a => proj1 (proj2 (rstep_spec c now p qs known ucast qr x a))) as R2.
  pose proof (fun qr x a => proj1 (proj2 (proj2 (rstep_spec c now p qs known ucast qr x a)))) as R3.
  pose proof (fun qr x a => proj2 (proj2 (proj2 (rstep_spec c now p qs known ucast qr x a)))) as R4.
  rewrite (fold_has q_ucast _ _ _ R1), (fold_has q_mcast_now _ _ _ R2),
          (fold_has q_mcast_aggregate _ _ _ R3), (fold_has q_mcast_last_second _ _ _ R4).
  unfold qr_empty; cbn [q_ucast q_mcast_now q_mcast_aggregate q_mcast_last_second]. rewrite has_nil. tauto.
Qed.

(* one packet with one question *)
Lemma asked_single m q q' : qm_questions m = [q] -> (asked [m] q' <-> q' = q).
Proof.
  intro Hq. unfold asked. split.
  - intros (m' & [<-|[]] & HIn). rewrite Hq in HIn. destruct HIn as [<-|[]]. reflexivity.
  - intros ->. exists m. split; [left; reflexivity|]. rewrite Hq. left. reflexivity.
Qed.

Lemma exists_single m q (Hq : qm_questions m = [q]) (P : pyrec -> Prop) :
  (exists q', asked [m] q' /\ P q') <-> P q.
Proof.
  split.
  - intros (q' & Ha & HP). apply (asked_single m q q' Hq) in Ha. subst q'. exact HP.
  - intro HP. exists q. split; [apply (asked_single m q q Hq); reflexivity|exact HP].
Qed.

Lemma single_routing g c m q ucast qa :
  qm_questions m = [q] -> async_response g c [m] ucast = Some qa ->
  forall a,
    (inset a (qa_ucast qa) <-> has (answers_of g [m] q) a /\ to_ucast c (qm_now m) (qm_is_probe m) ucast q a) /\
    (inset a (qa_mcast_now qa) <-> has (answers_of g [m] q) a /\ to_now c (qm_now m) (qm_is_probe m) [q] ucast q a) /\
    (inset a (qa_mcast_aggregate qa) <->
       has (answers_of g [m] q) a /\ to_aggregate c (qm_now m) (qm_is_probe m) [q] ucast q a) /\
    (inset a (qa_mcast_last_second qa) <->
       has (answers_of g [m] q) a /\ to_last_second c (qm_now m) (qm_is_probe m) ucast q a).
Proof.
  intros Hq H a. destruct (response_routing_ g c m [] ucast qa H a) as (U & N & A & L).
  cbn [last existsb] in U, N, A, L. rewrite orb_false_r in U, N, A, L. rewrite Hq in N, A.
  rewrite U, N, A, L. clear U N A L.
  rewrite !(exists_single m q Hq). tauto.
Qed.

Print Assumptions response_routing_.
Print Assumptions single_routing.
