(* C07 - link convergence: announcements and goodbyes sent over a lossy, delaying, duplicating, reordering link make every
   receiver cache converge.  Receiver side: Proofs/C07_recv.v (theorems 1, 2), sender records: Proofs/C07_send.v,
   the link: Proofs/C07_net.v (theorem 3), lookup order: Proofs/C07_lookup.v (theorem 7). *)
From Coq Require Import ZArith List Bool Lia ZifyBool.
From ZC Require Import Model.Base Model.PyRec Model.Dict Model.Re Model.Cache Model.Ingest Model.Respond Model.WireEnc Model.Register
  Model.Node Model.Link Gen.Const Gen.DnsPure Spec.CacheSpec Spec.IngestSpec Spec.AnswerSpec.
From ZC Require Import Proofs.C20_identity Proofs.C05_cache Proofs.C06_lemmas.
From ZC Require Export Proofs.C07_recv Proofs.C07_send Proofs.C07_net Proofs.C07_lookup.
Ltac Zify.zify_post_hook ::= Z.to_euclidean_division_equations.

(* ------------------------------------------------------------------ *)
(* the messages *)
Definition wm (t : Z) (recs : list pyrec) : wmsg := {| w_time := t; w_recs := recs |}.

(* the three announcements of s, 225 ms apart *)
Definition announce_msgs (s : svc) (a : Z) : list wmsg :=
  [wm a (broadcast_records s None true); wm (a + 225) (broadcast_records s None true);
   wm (a + 450) (broadcast_records s None true)].

(* one goodbye message sent three times *)
Definition goodbye_msgs (G : list pyrec) (g1 g2 g3 : Z) : list wmsg := [wm g1 G; wm g2 G; wm g3 G].

(* they are what the node lets out: the three resumptions of the announcement task of Model.Node *)
Lemma wmsgs_of_bsend t rs : wmsgs_of [OSend t None (broadcast_msg rs)] = [wm t rs].
Proof.
  unfold wmsgs_of, broadcast_msg, wm. cbn [flat_map app o_answers o_additionals].
  rewrite map_map, app_nil_r. cbn [fst]. rewrite map_id. reflexivity.
Qed.

Lemma d_get_set_same {V} (d : list (Z * V)) k v : d_get Z.eqb (d_set Z.eqb d k v) k = Some v.
Proof.
  induction d as [|[k' v'] d IH]; cbn [d_set d_get].
  - rewrite Z.eqb_refl. reflexivity.
  - destruct (k' =? k) eqn:E; cbn [d_get]; rewrite E; [reflexivity|exact IH].
Qed.

Lemma lbcast_step n id b now : n_done n = false -> d_get Z.eqb (n_tasks n) id = Some b ->
  0 < bc_left b ->
  let b' := fst (bcast_turn b now) in
  n_done (fst (nstep n (LBcast id now))) = false /\
  d_get Z.eqb (n_tasks (fst (nstep n (LBcast id now)))) id = Some b' /\
  wmsgs_of (snd (nstep n (LBcast id now))) = [wm now (broadcast_records (bc_svc b) (bc_ttl b) (bc_addresses b))].
Proof.
  intros Hd Hg Hl b'. unfold b'. cbn [nstep]. rewrite Hg. unfold bcast_turn.
  destruct (bc_left b <=? 0) eqn:E; [apply Z.leb_le in E; lia|].
  cbn [fst snd set_reg n_done n_tasks]. split; [exact Hd|]. split; [apply d_get_set_same|].
  unfold gate. rewrite Hd. cbn [flat_map app].
  match goal with |- context [if ?c then [BEnd] else _] => destruct c end; cbn [flat_map app];
    (change (OSend now None (broadcast_msg ?rs) :: ?rest) with ([OSend now None (broadcast_msg rs)] ++ rest));
    unfold wmsgs_of; rewrite flat_map_app; fold (wmsgs_of [OSend now None (broadcast_msg (broadcast_records (bc_svc b) (bc_ttl b) (bc_addresses b)))]);
    rewrite wmsgs_of_bsend; reflexivity.
Qed.

Theorem announce_task_sends : forall n id s a, n_done n = false -> d_get Z.eqb (n_tasks n) id = Some (announce_task s) ->
  wmsgs_of (concat (nrun n [LBcast id a; LBcast id (a + 225); LBcast id (a + 450)])) = announce_msgs s a.
Proof.
  intros n id s a Hd Hg. cbn [nrun].
  destruct (nstep n (LBcast id a)) as [n1 o1] eqn:E1.
  destruct (nstep n1 (LBcast id (a + 225))) as [n2 o2] eqn:E2.
  destruct (nstep n2 (LBcast id (a + 450))) as [n3 o3] eqn:E3.
  destruct (lbcast_step n id (announce_task s) a Hd Hg ltac:(reflexivity)) as [D1 [G1 W1]].
  rewrite E1 in D1, G1, W1. cbn [fst snd] in D1, G1, W1.
  destruct (lbcast_step n1 id _ (a + 225) D1 G1 ltac:(reflexivity)) as [D2 [G2 W2]].
  rewrite E2 in D2, G2, W2. cbn [fst snd] in D2, G2, W2.
  destruct (lbcast_step n2 id _ (a + 450) D2 G2 ltac:(reflexivity)) as [_ [_ W3]].
  rewrite E3 in W3. cbn [fst snd] in W3.
  cbn [concat]. rewrite app_nil_r. unfold wmsgs_of in *. rewrite !flat_map_app, W1, W2, W3. reflexivity.
Qed.

(* ------------------------------------------------------------------ *)
(* 4. the announcements converge *)

Lemma ends_with s l l' x : l = l' ++ [x] -> mentions s x = true -> last_mention s l = Some x.
Proof. intros E M. rewrite E, last_mention_snoc, M. reflexivity. Qed.

Lemma announce_msgs_in s a m : In m (announce_msgs s a) ->
  w_recs m = broadcast_records s None true /\ a <= w_time m <= a + 450.
Proof.
  unfold announce_msgs. cbn [In]. intros [H|[H|[H|[]]]]; subst m; cbn [w_recs w_time wm]; split; try reflexivity; lia.
Qed.

Theorem announcements_converge_partial : forall c s a fates t',
  Recv c s -> svc_ok s ->
  length fates = 3%nat -> Forall fate_ok fates -> (losses fates <= 1)%nat ->
  a + 550 <= t' < a + 1000 * s_other_ttl s ->
  knows (receive_all c (deliveries (announce_msgs s a) fates)) t' s = true.
Proof.
  intros c s a fates t' HR Hs Hlen Hok Hloss Ht'.
  set (l := deliveries (announce_msgs s a) fates).
  assert (Hfrom : forall x, In x l -> exists d, 0 <= d <= 100 /\ a <= fst x - d <= a + 450 /\
                                       snd x = broadcast_records s None true).
  { intros x Hx. destruct (deliveries_from _ _ x Hok Hx) as [m [d [Hm [Hd E]]]].
    destruct (announce_msgs_in s a m Hm) as [Er Et]. exists d. subst x. cbn [fst snd]. split; [exact Hd|]. split; [lia|exact Er]. }
  assert (Hall : Forall (arrival_ok s (s_other_ttl s)) l).
  { apply Forall_forall. intros [t recs] Hx. destruct (Hfrom _ Hx) as [d [_ [_ Er]]]. cbn [snd] in Er. subst recs.
    apply announce_arrival_ok. exact Hs. }
  assert (Hne : l <> []).
  { destruct fates as [|f1 [|f2 [|f3 [|f4 fs]]]]; try discriminate Hlen.
    inversion Hok as [|? ? O1 Hok1]; subst. inversion Hok1 as [|? ? O2 Hok2]; subst. inversion Hok2 as [|? ? O3 _]; subst.
    destruct (one_loss_two_arrive (wm a (broadcast_records s None true)) (wm (a + 225) (broadcast_records s None true))
                (wm (a + 450) (broadcast_records s None true)) f1 f2 f3 O1 O2 O3 Hloss) as [[[d [_ A1]] _]|[[[d [_ A1]] _]|[[d [_ A1]] _]]];
      intro C; fold (announce_msgs s a) in A1; fold l in A1; rewrite C in A1; destruct A1. }
  destruct (exists_last Hne) as [l' [[t recs] E]].
  assert (Hx : In (t, recs) l) by (rewrite E; apply in_or_app; right; left; reflexivity).
  destruct (Hfrom _ Hx) as [d [Hd [Ht Er]]]. cbn [fst snd] in Ht, Er. subst recs.
  pose proof (bcast_is_announcement s true) as Han.
  assert (Hm : mentions s (t, broadcast_records s None true) = true) by exact (proj1 Han).
  pose proof (ends_with s l l' _ E Hm) as Hlm.
  destruct Hs as [Ho Hh].
  rewrite (last_arrival_wins_partial c s (s_other_ttl s) l t' HR (proj1 Ho) Hall).
  - rewrite Hlm. apply (announcement_announces s (s_other_ttl s)); [exact (proj1 Ho)|exact Han].
  - intros t0 recs0 E0 _. rewrite Hlm in E0. inversion E0; subst. lia.
Qed.

(* all copies have arrived by a + 550 *)
Lemma announce_deliveries_in_time s a fates x : Forall fate_ok fates ->
  In x (deliveries (announce_msgs s a) fates) -> a <= fst x <= a + 550.
Proof.
  intros Hok Hx. destruct (deliveries_from _ _ x Hok Hx) as [m [d [Hm [Hd E]]]].
  destruct (announce_msgs_in s a m Hm) as [_ Et]. subst x. cbn [fst]. lia.
Qed.

(* ------------------------------------------------------------------ *)
(* 5, 6. withdrawal: announcements, then (not overlapping) a goodbye message sent three times *)

Theorem withdrawal_general : forall c s a G g1 g2 g3 fates t',
  Recv c s -> svc_ok s ->
  (forall t, arrival_ok s (s_other_ttl s) (t, G)) -> goodbye s G ->
  a + 550 < g1 -> a + 550 < g2 -> a + 550 < g3 ->
  length fates = 6%nat -> Forall fate_ok fates -> (losses fates <= 1)%nat ->
  knows (receive_all c (deliveries (announce_msgs s a ++ goodbye_msgs G g1 g2 g3) fates)) t' s = false.
Proof.
  intros c s a G g1 g2 g3 fates t' HR Hs HG Hgb H1 H2 H3 Hlen Hok Hloss.
  set (msgs := announce_msgs s a ++ goodbye_msgs G g1 g2 g3).
  set (l := deliveries msgs fates).
  assert (Hfrom : forall x, In x l ->
             (snd x = broadcast_records s None true /\ fst x <= a + 550) \/
             (snd x = G /\ (a + 550 < fst x))).
  { intros x Hx. destruct (deliveries_from _ _ x Hok Hx) as [m [d [Hm [Hd E]]]]. subst x. cbn [fst snd].
    unfold msgs in Hm. apply in_app_or in Hm as [Hm|Hm].
    - left. destruct (announce_msgs_in s a m Hm) as [Er Et]. split; [exact Er|lia].
    - right. unfold goodbye_msgs in Hm. cbn [In] in Hm.
      destruct Hm as [Hm|[Hm|[Hm|[]]]]; subst m; cbn [w_recs w_time wm]; split; try reflexivity; lia. }
  assert (Hall : Forall (arrival_ok s (s_other_ttl s)) l).
  { apply Forall_forall. intros [t recs] Hx. destruct (Hfrom _ Hx) as [[Er _]|[Er _]]; cbn [snd] in Er; subst recs.
    - apply announce_arrival_ok. exact Hs.
    - apply HG. }
  (* some goodbye copy arrives *)
  assert (Hgl : exists e, In e l /\ a + 550 < fst e).
  { destruct fates as [|f1 [|f2 [|f3 [|f4 [|f5 [|f6 [|f7 fs]]]]]]]; try discriminate Hlen.
    destruct (one_loss_of_six f1 f2 f3 f4 f5 f6 Hloss) as [_ L2].
    assert (O4 : fate_ok f4 /\ fate_ok f5 /\ fate_ok f6).
    { rewrite Forall_forall in Hok. repeat split; apply Hok; cbn; auto 10. }
    destruct O4 as [O4 [O5 O6]].
    assert (I4 : In (wm g1 G, f4) (combine msgs [f1; f2; f3; f4; f5; f6])) by (cbn; auto 10).
    assert (I5 : In (wm g2 G, f5) (combine msgs [f1; f2; f3; f4; f5; f6])) by (cbn; auto 10).
    assert (I6 : In (wm g3 G, f6) (combine msgs [f1; f2; f3; f4; f5; f6])) by (cbn; auto 10).
    destruct (one_loss_leaves_two f4 f5 f6 L2) as [[N _]|[[N _]|[N _]]].
    - destruct (not_lost_arrives _ _ _ _ I4 O4 N) as [d [Hd Hin]]. eexists. split; [exact Hin|]. cbn [fst w_time wm]. lia.
    - destruct (not_lost_arrives _ _ _ _ I4 O4 N) as [d [Hd Hin]]. eexists. split; [exact Hin|]. cbn [fst w_time wm]. lia.
    - destruct (not_lost_arrives _ _ _ _ I5 O5 N) as [d [Hd Hin]]. eexists. split; [exact Hin|]. cbn [fst w_time wm]. lia. }
  destruct Hgl as [e [He Hte]].
  assert (Hne : l <> []) by (intro C; rewrite C in He; destruct He).
  destruct (sorted_last l (deliveries_sorted msgs fates) Hne) as [l' [[t recs] [E Hmax]]].
  assert (Hx : In (t, recs) l) by (rewrite E; apply in_or_app; right; left; reflexivity).
  pose proof (Hmax e He) as Hle. cbn [fst] in Hle.
  destruct (Hfrom _ Hx) as [[_ Ht]|[Er _]]; cbn [fst snd] in *; [lia|]. subst recs.
  assert (Hm : mentions s (t, G) = true) by exact (proj1 Hgb).
  pose proof (ends_with s l l' _ E Hm) as Hlm.
  destruct Hs as [Ho Hh].
  rewrite (last_arrival_wins_partial c s (s_other_ttl s) l t' HR (proj1 Ho) Hall).
  - rewrite Hlm. apply goodbye_announces. exact Hgb.
  - intros t0 recs0 E0 An. rewrite Hlm in E0. injection E0 as Et Er0. rewrite <- Er0, (goodbye_announces s G Hgb) in An. discriminate.
Qed.

(* 5. unregistering one service *)
Theorem withdrawal_converges_partial : forall c s a g b fates t',
  Recv c s -> svc_ok s ->
  a + 450 + 100 < g ->
  length fates = 6%nat -> Forall fate_ok fates -> (losses fates <= 1)%nat ->
  g + 350 <= t' ->
  knows (receive_all c (deliveries (announce_msgs s a ++ goodbye_msgs (broadcast_records s (Some 0) b) g (g + 125) (g + 250)) fates))
        t' s = false.
Proof.
  intros c s a g b fates t' HR Hs Hg Hlen Hok Hloss _.
  apply withdrawal_general; try assumption; try lia.
  - intro t. apply goodbye_arrival_ok.
  - apply bcast_is_goodbye.
Qed.

(* 6. shutdown: the goodbye message of unregister_all (every registered service) *)
Theorem close_converges_partial : forall c reg s a g fates t',
  Recv c s -> svc_ok s -> RegInv reg -> In s (all_services reg) ->
  a + 450 + 100 < g ->
  length fates = 6%nat -> Forall fate_ok fates -> (losses fates <= 1)%nat ->
  g + 350 <= t' ->
  knows (receive_all c (deliveries (announce_msgs s a ++ goodbye_msgs (snd (unregister_all reg)) g (g + 125) (g + 250)) fates))
        t' s = false.
Proof.
  intros c reg s a g fates t' HR Hs RI Hin Hg Hlen Hok Hloss _.
  apply withdrawal_general; try assumption; try lia.
  - intro t. apply close_arrival_ok; assumption.
  - apply close_is_goodbye. exact Hin.
Qed.

(* ------------------------------------------------------------------ *)
(* counterexamples: why the hypotheses are what they are *)

Definition ex_svc : svc :=
  {| s_type := [95; 116; 46]; s_name := [97; 46; 95; 116; 46]; s_server := [104; 46]; s_port := 80; s_weight := 0; s_priority := 0;
     s_text := [0]; s_host_ttl := 120; s_other_ttl := 4500; s_v4 := [[10; 0; 0; 1]]; s_v6 := [] |}.
Definition ex_ptr : pyrec := dns_pointer ex_svc.
Definition ex_bye : pyrec := set_lifetime ex_ptr 0 0.

Lemma ex_svc_ok : svc_ok ex_svc.
Proof. unfold svc_ok. cbn. lia. Qed.

(* 5, the recorded finding C07-withdrawal-during-broadcast: the service is unregistered 50 ms after the first announcement
   (g = a + 50, goodbyes at 50, 175, 300; the last announcement at 450 comes after all of them).  One copy is lost, every
   other hypothesis of withdrawal_converges_partial holds - and the instance stays known (for 4500 s). *)
Example withdrawal_overlap_counterexample :
  let fates := [[0]; [0]; [0]; []; [0]; [0]] in
  let l := deliveries (announce_msgs ex_svc 0 ++ goodbye_msgs (broadcast_records ex_svc (Some 0) true) 50 175 300) fates in
  length fates = 6%nat /\ losses fates = 1%nat /\ forallb (forallb (fun d => (0 <=? d) && (d <=? 100))) fates = true /\
  map fst l = [0; 175; 225; 300; 450] /\
  knows (receive_all empty_cache l) 400 ex_svc = true /\ knows (receive_all empty_cache l) 4000000 ex_svc = true.
Proof. vm_compute. repeat split; reflexivity. Qed.

(* the same run without overlap (g = 551): forgotten *)
Example withdrawal_example :
  let fates := [[0]; [0]; [0]; []; [0]; [0]] in
  let l := deliveries (announce_msgs ex_svc 0 ++ goodbye_msgs (broadcast_records ex_svc (Some 0) true) 551 676 801) fates in
  knows (receive_all empty_cache l) 901 ex_svc = false.
Proof. vm_compute. reflexivity. Qed.

(* 1a/1b as sketched ("no LATER goodbye" / "no LATER positive copy") are false: within one datagram the position does not matter.
   A cached pointer is withdrawn by a goodbye that PRECEDES a positive copy ... *)
Example order_irrelevant_cached :
  let c := receive empty_cache (0, [ex_ptr]) in
  knows c 1000 ex_svc = true /\ knows (receive c (1000, [ex_bye; ex_ptr])) 1000 ex_svc = false.
Proof. vm_compute. split; reflexivity. Qed.
(* ... and an unknown pointer is learnt from a positive copy that PRECEDES a goodbye *)
Example order_irrelevant_uncached :
  knows (receive empty_cache (1000, [ex_ptr; ex_bye])) 1000 ex_svc = true.
Proof. vm_compute. reflexivity. Qed.

(* Inv alone is not enough for 1a: the cache holds the pointer under another spelling of the instance name ("A._t." for "a._t.");
   the announcement refreshes THAT object, and `knows` (exact alias) does not find it *)
Definition ex_ptr_upper : pyrec := set_alias ex_ptr [65; 46; 95; 116; 46].
Example arrival_teaches_needs_faithful_cache :
  let c := receive empty_cache (0, [ex_ptr_upper]) in
  Inv c /\ knows (receive c (1000, broadcast_records ex_svc None true)) 1000 ex_svc = false.
Proof.
  split.
  - apply receive_inv; [apply inv_empty|]. intros r [H|[]]. subst r. split; [cbn; lia|discriminate].
  - vm_compute. reflexivity.
Qed.

(* Inv alone is not enough for 1b: a PTR record of another class looks like the pointer to `knows` but is another record to the cache *)
Definition ex_ptr_cs : pyrec :=
  {| p_kind := KPointer; p_name := s_type ex_svc; p_type_ := C_TYPE_PTR; p_class_ := C_CLASS_CS; p_ttl := 4500; p_created := 0;
     p_address := []; p_scope_id := None; p_cpu := []; p_os := []; p_alias := s_name ex_svc; p_text := [];
     p_priority := 0; p_weight := 0; p_port := 0; p_server := []; p_next_name := []; p_rdtypes := [] |}.
Example goodbye_forgets_needs_faithful_cache :
  let c := receive empty_cache (0, [ex_ptr_cs; ex_ptr]) in
  Inv c /\ knows (receive c (1000, broadcast_records ex_svc (Some 0) true)) 1000 ex_svc = true.
Proof.
  split.
  - apply receive_inv; [apply inv_empty|]. intros r [H|[H|[]]]; subst r; (split; [cbn; lia|discriminate]).
  - vm_compute. reflexivity.
Qed.

(* 1c needs "no cache-flush record aimed at the pointer": a PTR record type -> other with the cache-flush bit (which no
   well-behaved sender emits, broadcast_unique_flags) is not equal to the pointer, yet makes it expire one second later *)
Definition ex_flush : pyrec :=
  {| p_kind := KPointer; p_name := s_type ex_svc; p_type_ := C_TYPE_PTR; p_class_ := C_CLASS_IN_UNIQUE; p_ttl := 4500; p_created := 0;
     p_address := []; p_scope_id := None; p_cpu := []; p_os := []; p_alias := [98; 46; 95; 116; 46]; p_text := [];
     p_priority := 0; p_weight := 0; p_port := 0; p_server := []; p_next_name := []; p_rdtypes := [] |}.
Example others_matter_when_flushing :
  let c := receive empty_cache (0, [ex_ptr]) in
  listed [ex_flush] ex_ptr = false /\ faithful ex_svc ex_flush /\
  knows c 5000 ex_svc = true /\ knows (receive c (2000, [ex_flush])) 5000 ex_svc = false.
Proof. vm_compute. repeat split; reflexivity. Qed.

(* ... and so 4 and 5/6 are false for a receiver that only satisfies Inv: all three announcements arrive, the instance is not known;
   all announcements and goodbyes arrive, the (look-alike) instance stays known *)
Example announcements_converge_needs_faithful_cache :
  let c := receive empty_cache (0, [ex_ptr_upper]) in
  Inv c /\ knows (receive_all c (deliveries (announce_msgs ex_svc 1000) [[0]; [0]; [0]])) 1600 ex_svc = false.
Proof.
  split.
  - apply receive_inv; [apply inv_empty|]. intros r [H|[]]. subst r. split; [cbn; lia|discriminate].
  - vm_compute. reflexivity.
Qed.

Example withdrawal_converges_needs_faithful_cache :
  let c := receive empty_cache (0, [ex_ptr_cs]) in
  let l := deliveries (announce_msgs ex_svc 1000 ++ goodbye_msgs (broadcast_records ex_svc (Some 0) true) 2000 2125 2250)
                      [[0]; [0]; [0]; [0]; [0]; [0]] in
  Inv c /\ knows (receive_all c l) 2350 ex_svc = true.
Proof.
  split.
  - apply receive_inv; [apply inv_empty|]. intros r [H|[]]. subst r. split; [cbn; lia|discriminate].
  - vm_compute. reflexivity.
Qed.

(* non-vacuity of 4, 5, 6 on the empty receiver *)
Example converge_examples :
  knows (receive_all empty_cache (deliveries (announce_msgs ex_svc 0) [[100; 30]; []; [0]])) 550 ex_svc = true /\
  knows (receive_all empty_cache
           (deliveries (announce_msgs ex_svc 0 ++ goodbye_msgs (broadcast_records ex_svc (Some 0) true) 551 676 801)
                       [[100; 30]; [5]; [0]; [100]; []; [7; 7]])) 901 ex_svc = false.
Proof. vm_compute. split; reflexivity. Qed.

(* ------------------------------------------------------------------ *)
Check arrival_teaches_partial.
Check goodbye_forgets_partial.
Check others_do_not_matter_partial.
Check last_arrival_wins_partial.
Check one_loss_leaves_two.
Check one_loss_two_arrive.
Check announcements_converge_partial.
Check withdrawal_converges_partial.
Check close_converges_partial.
Check batch_order_irrelevant.

Print Assumptions arrival_teaches_partial.
Print Assumptions arrival_teaches_broadcast.
Print Assumptions goodbye_forgets_partial.
Print Assumptions goodbye_forgets_broadcast.
Print Assumptions others_do_not_matter_partial.
Print Assumptions last_arrival_wins_partial.
Print Assumptions last_arrival_wins_iff_partial.
Print Assumptions recv_history.
Print Assumptions one_loss_leaves_two.
Print Assumptions one_loss_two_arrive.
Print Assumptions announce_task_sends.
Print Assumptions announcements_converge_partial.
Print Assumptions withdrawal_general.
Print Assumptions withdrawal_converges_partial.
Print Assumptions close_converges_partial.
Print Assumptions batch_order_irrelevant.
Print Assumptions withdrawal_overlap_counterexample.
Print Assumptions packet_order_fails.
