(* C15 (helper): every record the responder puts into a reply - answers and additionals, in whichever routing
   class - is literally one of the records of a registered service, so any predicate that holds of those
   records holds of everything construct_multicast / construct_unicast hand to the encoder. *)
From Coq Require Import ZArith List Bool Lia.
From ZC Require Import Model.Base Model.PyRec Model.Dict Model.Re Model.Cache Model.Respond Model.Route Model.WireEnc
  Gen.Const Gen.Extra Gen.DnsPure Spec.AnswerSpec.
From ZC Require Import Proofs.C03_reg Proofs.C03_respond.
Import ListNotations.
Open Scope Z_scope.

(* the records the responder can emit on behalf of one registered service *)
Definition svc_records (s : svc) : list pyrec :=
  [enum_pointer (lower (s_type s)); dns_pointer s; dns_service s; dns_text s] ++ address_and_nsec s.

Section Pred.
  Variable Pr : pyrec -> Prop.

  Definition RegP (g : registry) : Prop := forall s, In s (registered g) -> Forall Pr (svc_records s).

  Definition AS (a : answer_set) : Prop := forall r adds, In (r, adds) a -> Pr r /\ Forall Pr adds.

  Lemma AS_nil : AS [].
  Proof. intros r adds []. Qed.

  Lemma AS_as_set a k v : AS a -> Pr k -> Forall Pr v -> AS (as_set a k v).
  Proof.
    unfold as_set. intros Ha Hk Hv. induction a as [|[k' v'] a IH]; cbn [d_set].
    - intros r adds [H|[]]. inversion H; subst. split; assumption.
    - assert (Ha' : AS a) by (intros r adds Hin; apply Ha; right; exact Hin).
      destruct (gen_eq k' k).
      + intros r adds [H|H]; [|apply Ha; right; exact H]. inversion H; subst.
        split; [|exact Hv]. apply (Ha r v'). left. reflexivity.
      + intros r adds [H|H]; [apply Ha; left; exact H|exact (IH Ha' r adds H)].
  Qed.

  Lemma gd_get_In {V} (d : list (pyrec * V)) k v : d_get gen_eq d k = Some v -> exists k', In (k', v) d.
  Proof.
    induction d as [|[k0 v0] d IH]; cbn [d_get]; [discriminate|].
    destruct (gen_eq k0 k); intro H.
    - inversion H; subst. exists k0. left. reflexivity.
    - destruct (IH H) as [k' Hk']. exists k'. right. exact Hk'.
  Qed.

  Lemma Forall_sadd s r : Forall Pr s -> Pr r -> Forall Pr (sadd s r).
  Proof.
    intros Hs Hr. unfold sadd. destruct (existsb (fun x => gen_eq x r) s); [exact Hs|].
    apply Forall_app. split; [exact Hs|constructor; [exact Hr|constructor]].
  Qed.

  (* ---- answer_question ---- *)
  Lemma AS_fold_cond {X} known (f : X -> pyrec) (h : X -> list pyrec) l : forall acc,
    (forall x, In x l -> Pr (f x) /\ Forall Pr (h x)) -> AS acc ->
    AS (fold_left (fun acc x => if suppresses known (f x) then acc else as_set acc (f x) (h x)) l acc).
  Proof.
    induction l as [|x l IH]; intros acc Hl Ha; cbn [fold_left]; [exact Ha|].
    apply IH; [intros y Hy; apply Hl; right; exact Hy|].
    destruct (suppresses known (f x)); [exact Ha|].
    destruct (Hl x (or_introl eq_refl)) as [H1 H2]. apply AS_as_set; assumption.
  Qed.

  Lemma AS_fold_const adds (answers : list pyrec) : forall acc,
    Forall Pr adds -> Forall Pr answers -> AS acc -> AS (fold_left (fun acc ans => as_set acc ans adds) answers acc).
  Proof.
    induction answers as [|x l IH]; intros acc Hadds Hans Ha; cbn [fold_left]; [exact Ha|].
    inversion Hans as [|x' l' Hx Hl]; subst x' l'.
    apply IH; [exact Hadds|exact Hl|]. apply AS_as_set; assumption.
  Qed.

  Definition svc_good (s : svc) : Prop := Forall Pr (svc_records s).

  Lemma svc_good_parts s : svc_good s ->
    Pr (enum_pointer (lower (s_type s))) /\ Pr (dns_pointer s) /\ Pr (dns_service s) /\ Pr (dns_text s) /\
    Forall Pr (address_and_nsec s).
  Proof.
    unfold svc_good, svc_records. intro H. cbn [app] in H.
    inversion H as [|x1 l1 H1 T1]; subst. inversion T1 as [|x2 l2 H2 T2]; subst.
    inversion T2 as [|x3 l3 H3 T3]; subst. inversion T3 as [|x4 l4 H4 T4]; subst.
    repeat split; assumption.
  Qed.

  Lemma addresses_good s : svc_good s -> Forall Pr (dns_addresses s).
  Proof.
    intro H. apply svc_good_parts in H as (_ & _ & _ & _ & H). unfold address_and_nsec in H. cbv zeta in H.
    apply Forall_app in H. apply H.
  Qed.

  Lemma nsec_good s : svc_good s -> nonempty (missing_types (map p_type_ (dns_addresses s))) = true ->
    Pr (dns_nsec s (missing_types (map p_type_ (dns_addresses s)))).
  Proof.
    intros H Hne. apply svc_good_parts in H as (_ & _ & _ & _ & H). unfold address_and_nsec in H. cbv zeta in H.
    apply Forall_app in H as [_ H]. rewrite Hne in H. inversion H; assumption.
  Qed.

  Lemma Forall_filter (f : pyrec -> bool) l : Forall Pr l -> Forall Pr (filter f l).
  Proof.
    intro H. apply Forall_forall. intros x Hx. apply filter_In in Hx as [Hx _].
    rewrite Forall_forall in H. exact (H x Hx).
  Qed.

  Lemma AS_add_address known t acc s : svc_good s -> AS acc -> AS (add_address_answers known t acc s).
  Proof.
    intros Hs Ha. unfold add_address_answers. cbv zeta.
    pose proof (addresses_good s Hs) as Haddr.
    destruct (nonempty (filter (fun d => (p_type_ d =? t) && negb (suppresses known d)) (dns_addresses s))).
    - apply AS_fold_const; [|apply Forall_filter; exact Haddr|exact Ha].
      destruct (nonempty (missing_types (map p_type_ (dns_addresses s)))) eqn:Em.
      + apply Forall_app. split; [apply Forall_filter; exact Haddr|].
        constructor; [apply nsec_good; assumption|constructor].
      + apply Forall_filter; exact Haddr.
    - destruct (existsb (Z.eqb t) (missing_types (map p_type_ (dns_addresses s)))) eqn:Ee; [|exact Ha].
      apply AS_as_set; [exact Ha| |constructor]. apply nsec_good; [exact Hs|].
      destruct (missing_types (map p_type_ (dns_addresses s))); [discriminate|reflexivity].
  Qed.

  Definition st_good (st : strategy) : Prop :=
    match st with
    | SEnum types => Forall (fun t => Pr (enum_pointer t)) types
    | SPointer l | SAddress l => Forall svc_good l
    | SService s | SText s => svc_good s
    end.

  Lemma answer_question_AS known t st : st_good st -> AS (answer_question known t st).
  Proof.
    destruct st as [types|l|l|s|s]; cbn [st_good answer_question]; intro H.
    - apply (AS_fold_cond known enum_pointer (fun _ => [])); [|apply AS_nil].
      intros x Hx. rewrite Forall_forall in H. split; [exact (H x Hx)|constructor].
    - apply (AS_fold_cond known dns_pointer (fun s => [dns_service s; dns_text s] ++ address_and_nsec s)); [|apply AS_nil].
      intros s Hs. rewrite Forall_forall in H. destruct (svc_good_parts s (H s Hs)) as (_ & H1 & H2 & H3 & H4).
      split; [exact H1|]. cbn [app]. constructor; [exact H2|]. constructor; [exact H3|exact H4].
    - assert (G : forall acc, AS acc -> AS (fold_left (add_address_answers known t) l acc)).
      { induction H as [|s l Hs Hl IH]; intros acc Ha; cbn [fold_left]; [exact Ha|].
        apply IH. apply AS_add_address; assumption. }
      apply G. apply AS_nil.
    - destruct (suppresses known (dns_service s)); [apply AS_nil|].
      destruct (svc_good_parts s H) as (_ & _ & H2 & _ & H4). apply AS_as_set; [apply AS_nil|exact H2|exact H4].
    - destruct (suppresses known (dns_text s)); [apply AS_nil|].
      destruct (svc_good_parts s H) as (_ & _ & _ & H3 & _). apply AS_as_set; [apply AS_nil|exact H3|constructor].
  Qed.

  (* ---- which strategies the registry hands out ---- *)
  Lemma get_strategies_good g q st : RegInv g -> RegP g -> In st (get_strategies g q) -> st_good st.
  Proof.
    intros HI HP. unfold get_strategies. cbv zeta.
    assert (Hreg : forall I k, Forall svc_good (get_infos g I k)).
    { intros I0 k. apply Forall_forall. intros s Hs. apply HP. eapply get_infos_registered. exact Hs. }
    destruct ((p_type_ q =? C_TYPE_PTR) && text_eqb (lower (p_name q)) C_SERVICE_TYPE_ENUMERATION_NAME).
    - destruct (get_types g) as [|t0 ts] eqn:Et; [intros []|]. intros [<-|[]]. cbn [st_good].
      apply Forall_forall. intros t Ht. rewrite <- Et in Ht.
      destruct HI as (_ & _ & _ & _ & H5 & _). apply H5 in Ht as (s & Hs & <-).
      apply (svc_good_parts s (HP s Hs)).
    - intro H. apply in_app_or in H as [H|H]; [|apply in_app_or in H as [H|H]].
      + destruct ((p_type_ q =? C_TYPE_PTR) || (p_type_ q =? C_TYPE_ANY)); [|destruct H].
        destruct (get_infos g (g_types g) (lower (p_name q))) as [|x l] eqn:G; [destruct H|].
        destruct H as [<-|[]]. cbn [st_good]. rewrite <- G. apply Hreg.
      + destruct ((p_type_ q =? C_TYPE_A) || (p_type_ q =? C_TYPE_AAAA) || (p_type_ q =? C_TYPE_ANY)); [|destruct H].
        destruct (get_infos g (g_servers g) (lower (p_name q))) as [|x l] eqn:G; [destruct H|].
        destruct H as [<-|[]]. cbn [st_good]. rewrite <- G. apply Hreg.
      + destruct ((p_type_ q =? C_TYPE_SRV) || (p_type_ q =? C_TYPE_TXT) || (p_type_ q =? C_TYPE_ANY)); [|destruct H].
        destruct (d_get text_eqb (g_services g) (lower (p_name q))) as [s|] eqn:G; [|destruct H].
        assert (Hs : svc_good s).
        { apply HP. apply td_get_in in G. unfold registered. change s with (snd (lower (p_name q), s)). apply in_map. exact G. }
        apply in_app_or in H as [H|H].
        * destruct ((p_type_ q =? C_TYPE_SRV) || (p_type_ q =? C_TYPE_ANY)); [|destruct H]. destruct H as [<-|[]]. exact Hs.
        * destruct ((p_type_ q =? C_TYPE_TXT) || (p_type_ q =? C_TYPE_ANY)); [|destruct H]. destruct H as [<-|[]]. exact Hs.
  Qed.

  (* ---- the response accumulator ---- *)
  Definition QR (qr : qresp) : Prop :=
    AS (q_additionals qr) /\ Forall Pr (q_ucast qr) /\ Forall Pr (q_mcast_now qr) /\
    Forall Pr (q_mcast_aggregate qr) /\ Forall Pr (q_mcast_last_second qr).

  Lemma QR_empty : QR qr_empty.
  Proof. unfold QR, qr_empty; cbn [q_additionals q_ucast q_mcast_now q_mcast_aggregate q_mcast_last_second]. split; [apply AS_nil|repeat split; constructor]. Qed.

  Lemma AS_head ra (a : answer_set) : AS (ra :: a) -> (Pr (fst ra) /\ Forall Pr (snd ra)) /\ AS a.
  Proof.
    intro H. split.
    - destruct ra as [r adds]. apply H. left. reflexivity.
    - intros r adds Hin. apply H. right. exact Hin.
  Qed.

  Lemma AS_fold_pairs (answers : answer_set) : forall d, AS answers -> AS d ->
    AS (fold_left (fun acc ra => as_set acc (fst ra) (snd ra)) answers d).
  Proof.
    induction answers as [|ra l IH]; intros d Hans Hd; cbn [fold_left]; [exact Hd|].
    apply AS_head in Hans as [[H1 H2] Hl]. apply IH; [exact Hl|]. apply AS_as_set; assumption.
  Qed.

  Lemma Forall_fold_sadd (answers : answer_set) : forall s, AS answers -> Forall Pr s ->
    Forall Pr (fold_left (fun acc ra => sadd acc (fst ra)) answers s).
  Proof.
    induction answers as [|ra l IH]; intros s Hans Hs; cbn [fold_left]; [exact Hs|].
    apply AS_head in Hans as [[H1 _] Hl]. apply IH; [exact Hl|]. apply Forall_sadd; assumption.
  Qed.

  Lemma QR_add_qu c now p answers : forall qr, AS answers -> QR qr -> QR (add_qu c now p qr answers).
  Proof.
    unfold add_qu. induction answers as [|[r adds] l IH]; intros qr Hans Hq; cbn [fold_left]; [exact Hq|].
    apply AS_head in Hans as [[H1 H2] Hl]. cbn [fst snd] in H1, H2.
    apply IH; [exact Hl|]. destruct Hq as (Q1 & Q2 & Q3 & Q4 & Q5).
    unfold QR; cbn [q_additionals q_ucast q_mcast_now q_mcast_aggregate q_mcast_last_second].
    split; [apply AS_as_set; assumption|]. split; [|split; [|split; assumption]].
    - destruct p; destruct (negb (has_mcast_within_one_quarter_ttl c now r)); cbn [negb];
        repeat apply Forall_sadd; assumption.
    - destruct (negb (has_mcast_within_one_quarter_ttl c now r)); [apply Forall_sadd; assumption|exact Q3].
  Qed.

  Lemma QR_add_ucast answers qr : AS answers -> QR qr -> QR (add_ucast qr answers).
  Proof.
    intros Hans (Q1 & Q2 & Q3 & Q4 & Q5). unfold add_ucast, QR;
      cbn [q_additionals q_ucast q_mcast_now q_mcast_aggregate q_mcast_last_second].
    split; [apply AS_fold_pairs; assumption|]. split; [apply Forall_fold_sadd; assumption|]. repeat split; assumption.
  Qed.

  Lemma QR_add_mcast c now p qs answers qr : AS answers -> QR qr -> QR (add_mcast c now p qs qr answers).
  Proof.
    intros Hans (Q1 & Q2 & Q3 & Q4 & Q5). unfold add_mcast. cbv zeta.
    match goal with |- QR (fold_left ?F answers ?q0) => assert (H0 : QR q0); [|revert H0; generalize q0] end.
    { unfold QR; cbn [q_additionals q_ucast q_mcast_now q_mcast_aggregate q_mcast_last_second].
      split; [apply AS_fold_pairs; assumption|]. repeat split; assumption. }
    clear Q1 Q2 Q3 Q4 Q5 qr.
    induction answers as [|ra l IH]; intros q0 H0; cbn [fold_left]; [exact H0|].
    apply AS_head in Hans as [[H1 _] Hl]. apply IH; [exact Hl|].
    destruct H0 as (Q1 & Q2 & Q3 & Q4 & Q5).
    destruct p; [|destruct (has_mcast_record_in_last_second c now (fst ra));
                   [|destruct (match qs with [q] => respond_immediate (p_type_ q) | _ => false end)]];
      unfold QR; cbn [q_additionals q_ucast q_mcast_now q_mcast_aggregate q_mcast_last_second];
      (split; [exact Q1|]); repeat split; try assumption; apply Forall_sadd; assumption.
  Qed.

  Lemma QR_rstep c now p qs known ucast qr x : st_good (snd x) -> QR qr -> QR (rstep c now p qs known ucast qr x).
  Proof.
    destruct x as [q st]. cbn [snd]. intros Hst Hq. unfold rstep.
    pose proof (answer_question_AS known (p_type_ q) st Hst) as Ha.
    destruct (negb ucast && DNSEntry_unique q).
    - apply QR_add_qu; assumption.
    - apply QR_add_mcast; [exact Ha|]. destruct ucast; [apply QR_add_ucast; assumption|exact Hq].
  Qed.

  Lemma QR_fold c now p qs known ucast S : forall qr,
    (forall x, In x S -> st_good (snd x)) -> QR qr -> QR (fold_left (rstep c now p qs known ucast) S qr).
  Proof.
    induction S as [|x S IH]; intros qr HS Hq; cbn [fold_left]; [exact Hq|].
    apply IH; [intros y Hy; apply HS; right; exact Hy|]. apply QR_rstep; [apply HS; left; reflexivity|exact Hq].
  Qed.

  Lemma AS_with_additionals qr rs : QR qr -> Forall Pr rs -> AS (with_additionals qr rs).
  Proof.
    intros (Q1 & _) Hrs r adds Hin. unfold with_additionals in Hin. apply in_map_iff in Hin as (r' & E & Hr').
    inversion E; subst. rewrite Forall_forall in Hrs. split; [exact (Hrs r Hr')|].
    destruct (d_get gen_eq (q_additionals qr) r) as [w|] eqn:G; [|constructor].
    apply gd_get_In in G as [k' Hk']. apply (Q1 k' w Hk').
  Qed.

  (* every routing class of the response consists of records of registered services *)
  Theorem response_AS g c msgs ucast qa : RegInv g -> RegP g -> async_response g c msgs ucast = Some qa ->
    AS (qa_ucast qa) /\ AS (qa_mcast_now qa) /\ AS (qa_mcast_aggregate qa) /\ AS (qa_mcast_last_second qa).
  Proof.
    intros HI HP E.
    destruct (async_response_cases g c msgs ucast) as [[_ E']|(now & p & qs & E')]; rewrite E' in E; [discriminate|].
    inversion E; subst qa; clear E.
    match goal with |- AS (qa_ucast (qa_of ?q)) /\ _ => set (qr := q) end.
    assert (Hq : QR qr).
    { apply QR_fold; [|apply QR_empty]. intros y Hy. apply in_strategies_of in Hy as (m & _ & _ & Hst).
      eapply get_strategies_good; eassumption. }
    pose proof Hq as (_ & Q2 & Q3 & Q4 & Q5).
    unfold qa_of; cbn [qa_ucast qa_mcast_now qa_mcast_aggregate qa_mcast_last_second].
    split; [|split; [|split]]; apply AS_with_additionals; assumption.
  Qed.

  (* ---- answers.py: the sections of the constructed message ---- *)
  Lemma answers_additionals_good a : AS a ->
    Forall Pr (fst (answers_additionals a)) /\ Forall Pr (snd (answers_additionals a)).
  Proof.
    intro Ha. unfold answers_additionals. cbv zeta. cbn [fst snd]. split.
    - apply Forall_forall. intros r Hr. apply in_map_iff in Hr as ([r' adds] & <- & Hin). apply (Ha r' adds Hin).
    - generalize (map fst a) as answers. intro answers.
      assert (Inner : forall xs acc, Forall Pr xs -> Forall Pr acc ->
                Forall Pr (fold_left (fun acc x => if existsb (fun y => gen_eq y x) (answers ++ acc) then acc else acc ++ [x]) xs acc)).
      { induction xs as [|x xs IH]; intros acc Hxs Hacc; cbn [fold_left]; [exact Hacc|].
        inversion Hxs as [|x' xs' Hx Hxs']; subst x' xs'. apply IH; [exact Hxs'|].
        destruct (existsb (fun y => gen_eq y x) (answers ++ acc)); [exact Hacc|].
        apply Forall_app. split; [exact Hacc|constructor; [exact Hx|constructor]]. }
      assert (Outer : forall (l : answer_set) acc, AS l -> Forall Pr acc ->
                Forall Pr (fold_left (fun acc ra => fold_left (fun acc x => if existsb (fun y => gen_eq y x) (answers ++ acc) then acc else acc ++ [x])
                                                 (snd ra) acc) l acc)).
      { induction l as [|ra l IH]; intros acc Hl Hacc; cbn [fold_left]; [exact Hacc|].
        apply AS_head in Hl as [[_ H2] Hl]. apply IH; [exact Hl|]. apply Inner; assumption. }
      apply Outer; [exact Ha|constructor].
  Qed.

  Lemma construct_multicast_good a : AS a ->
    let m := construct_multicast a in
    o_questions m = [] /\ Forall (fun rn => Pr (fst rn) /\ snd rn = 0) (o_answers m) /\ o_authorities m = [] /\
    Forall Pr (o_additionals m) /\ o_flags m = FLAGS_QR_RESPONSE_AA /\ o_id m = 0.
  Proof.
    intro Ha. unfold construct_multicast. destruct (answers_additionals_good a Ha) as [H1 H2].
    destruct (answers_additionals a) as [ans adds]. cbn [fst snd] in H1, H2.
    cbn [o_questions o_answers o_authorities o_additionals o_flags o_id]. repeat split; try assumption.
    apply Forall_forall. intros rn Hrn. apply in_map_iff in Hrn as (r & <- & Hr). cbn [fst snd].
    rewrite Forall_forall in H1. split; [exact (H1 r Hr)|reflexivity].
  Qed.

  Lemma construct_unicast_good a ucast questions id : AS a ->
    let m := construct_unicast a ucast questions id in
    (o_questions m = questions \/ o_questions m = []) /\ Forall (fun rn => Pr (fst rn) /\ snd rn = 0) (o_answers m) /\
    o_authorities m = [] /\ Forall Pr (o_additionals m) /\ o_flags m = FLAGS_QR_RESPONSE_AA /\ o_id m = id.
  Proof.
    intro Ha. unfold construct_unicast. destruct (answers_additionals_good a Ha) as [H1 H2].
    destruct (answers_additionals a) as [ans adds]. cbn [fst snd] in H1, H2.
    cbn [o_questions o_answers o_authorities o_additionals o_flags o_id].
    split; [destruct ucast; [left|right]; reflexivity|]. repeat split; try assumption.
    apply Forall_forall. intros rn Hrn. apply in_map_iff in Hrn as (r & <- & Hr). cbn [fst snd].
    rewrite Forall_forall in H1. split; [exact (H1 r Hr)|reflexivity].
  Qed.
End Pred.

Print Assumptions response_AS.
Print Assumptions construct_multicast_good.
Print Assumptions construct_unicast_good.
