(* C01, library half, encoder side, names: the invariant of C01_defs / C01_name ([reads], [NamesOk], write_name_spec)
   re-established with the additional information that every compression-pointer octet on a name path is <= 255
   ([ptrB_at]); this is what the library decoder's pointer arithmetic (Z.land length 63) needs.  The scripts are those of
   C01_defs (reads .. Valid_lt) and C01_name (Section Name) with [ptr_at] strengthened; then the link to
   C02_strict_names.walk / C01_library_dec.GoodName. *)
From Coq Require Import ZArith List Bool Lia ZifyBool.
From ZC Require Import Model.Base Model.PyRec Model.Dict Model.Re Model.Utf8 Model.Names Model.WireEnc
                       Spec.Rfc1035 Gen.Const Gen.DnsPure Gen.Shapes.
From ZC Require Import Proofs.C01_utf8 Proofs.C01_defs Proofs.C01_name Proofs.C02_strict_names Proofs.C01_library_dec.
Import ListNotations.
Open Scope Z_scope.
Ltac Zify.zify_post_hook ::= Z.to_euclidean_division_equations.

Definition ptrB_at (d : bytes) (pos target : Z) : Prop :=
  exists hi lo, sbyte d pos = Some hi /\ sbyte d (pos + 1) = Some lo /\ 192 <= hi <= 255 /\
                target = (hi - 192) * 256 + lo /\ 12 <= target < pos.

(* [readsB d pos ls e]: starting at the label byte at [pos] the walk collects exactly [ls]; [e] is the end offset
   it reports when started with endo = None *)
Fixpoint readsB (d : bytes) (pos : Z) (ls : list bytes) (e : Z) {struct ls} : Prop :=
  match ls with
  | [] => sbyte d pos = Some 0 /\ e = pos + 1
  | l :: rest =>
      label_at d pos l /\
      (readsB d (pos + 1 + len l) rest e \/
       (rest <> [] /\ e = pos + 1 + len l + 2 /\
        exists t e', ptrB_at d (pos + 1 + len l) t /\ readsB d t rest e'))
  end.

Definition tail_readsB (d : bytes) (pos : Z) (ls : list bytes) (e : Z) : Prop :=
  readsB d pos ls e \/ (ls <> [] /\ e = pos + 2 /\ exists t e', ptrB_at d pos t /\ readsB d t ls e').

Lemma readsB_cons d pos l rest e :
  readsB d pos (l :: rest) e <-> label_at d pos l /\ tail_readsB d (pos + 1 + len l) rest e.
Proof. unfold tail_readsB. cbn [readsB]. tauto. Qed.

Lemma ptrB_at_app d x pos t : ptrB_at d pos t -> ptrB_at (d ++ x) pos t.
Proof.
  intros (hi & lo & H1 & H2 & H3). exists hi, lo.
  split; [apply sbyte_app_l; exact H1|]. split; [apply sbyte_app_l; exact H2|exact H3].
Qed.

Lemma readsB_app d x : forall ls pos e, readsB d pos ls e -> readsB (d ++ x) pos ls e.
Proof.
  induction ls as [|l rest IH]; intros pos e H.
  - destruct H as [H1 H2]. split; [apply sbyte_app_l; exact H1|exact H2].
  - cbn [readsB] in *. destruct H as [Hl Ht]. split; [apply label_at_app; exact Hl|].
    destruct Ht as [Ht|(Hne & He & t & e' & Hp & Hr)].
    + left. apply IH. exact Ht.
    + right. split; [exact Hne|]. split; [exact He|]. exists t, e'.
      split; [apply ptrB_at_app; exact Hp|apply IH; exact Hr].
Qed.

Lemma tail_readsB_app d x ls pos e : tail_readsB d pos ls e -> tail_readsB (d ++ x) pos ls e.
Proof.
  intros [H|(Hne & He & t & e' & Hp & Hr)].
  - left. apply readsB_app. exact H.
  - right. split; [exact Hne|]. split; [exact He|]. exists t, e'.
    split; [apply ptrB_at_app; exact Hp|apply readsB_app; exact Hr].
Qed.

Lemma readsB_pos d pos ls e : readsB d pos ls e -> 0 <= pos < len d.
Proof.
  destruct ls as [|l rest]; cbn [readsB].
  - intros [H _]. apply (sbyte_some _ _ _ H).
  - intros [(_ & H & _) _]. apply (sbyte_some _ _ _ H).
Qed.

Definition ValidB (d : bytes) (n : text) (idx : Z) : Prop :=
  12 <= idx /\ exists e, readsB d idx (map u8 (split_dot n)) e.

Definition NamesOkB (hdr : bytes) (st : enc) : Prop :=
  length hdr = 12%nat /\ SizeOk st /\
  forall n idx, In (n, idx) (e_names st) -> ValidB (buf hdr st) n idx.

Lemma ValidB_app d x n idx : ValidB d n idx -> ValidB (d ++ x) n idx.
Proof. intros [H1 [e H2]]. split; [exact H1|]. exists e. apply readsB_app. exact H2. Qed.

Lemma ValidB_lt d n idx : ValidB d n idx -> idx < len d.
Proof. intros [_ [e H]]. apply readsB_pos in H. lia. Qed.

Section Name.
  Variable hdr : bytes.
  Hypothesis Hhdr : length hdr = 12%nat.

  Definition EntriesOkB (Pend : text -> Z -> Prop) (st : enc) : Prop :=
    forall n idx, In (n, idx) (e_names st) -> ValidB (buf hdr st) n idx \/ Pend n idx.

  (* writing a compression pointer at the current position *)
  Lemma link_caseB st idx ls e0 (Pend : text -> Z -> Prop) :
    SizeOk st -> e_size st <= 16384 -> ls <> [] ->
    12 <= idx -> readsB (buf hdr st) idx ls e0 ->
    EntriesOkB Pend st ->
    let st' := put (put st [Z.lor (Z.shiftr idx 8) 192]) [Z.land idx 255] in
    write_link st idx = Ok st' /\
    SizeOk st' /\ rev (e_rev st') = rev (e_rev st) ++ [Z.lor (Z.shiftr idx 8) 192; Z.land idx 255] /\
    e_allow_long st' = e_allow_long st /\ e_names st' = e_names st /\
    tail_readsB (buf hdr st') (e_size st) ls (e_size st') /\
    EntriesOkB Pend st' /\ e_size st' = e_size st + 2.
  Proof.
    intros Hs Hlim Hne Hidx Hr Hent st'.
    pose proof (readsB_pos _ _ _ _ Hr) as Hpos. rewrite (buf_len hdr st Hhdr Hs) in Hpos.
    assert (Hrange : 0 <= idx < 16384) by lia.
    destruct (link_bytes idx Hrange) as (H1 & H2 & H3).
    assert (Hbuf : buf hdr st' = buf hdr st ++ [Z.lor (Z.shiftr idx 8) 192; Z.land idx 255]).
    { unfold st'. rewrite !buf_put, <- app_assoc. reflexivity. }
    split; [apply write_link_ok; exact Hrange|].
    split; [unfold st'; apply put_SizeOk, put_SizeOk; exact Hs|].
    split; [unfold st'; rewrite !put_rev, <- app_assoc; reflexivity|].
    split; [reflexivity|]. split; [reflexivity|].
    assert (Hsz : e_size st' = e_size st + 2).
    { unfold st'. rewrite !put_size. unfold len. cbn [length]. lia. }
    split.
    - right. split; [exact Hne|]. split; [lia|]. exists idx, e0. split.
      + exists (Z.lor (Z.shiftr idx 8) 192), (Z.land idx 255). rewrite Hbuf.
        split; [apply sbyte_at'; symmetry; apply buf_len; assumption|].
        split.
        { change (buf hdr st ++ [Z.lor (Z.shiftr idx 8) 192; Z.land idx 255])
            with (buf hdr st ++ [Z.lor (Z.shiftr idx 8) 192] ++ [Z.land idx 255]).
          rewrite app_assoc. apply sbyte_at'. unfold len. rewrite app_length. cbn [length].
          pose proof (buf_len hdr st Hhdr Hs) as Hb. unfold len in Hb. lia. }
        split; [lia|]. split; [lia|lia].
      + rewrite Hbuf. apply readsB_app. exact Hr.
    - split; [|exact Hsz].
      intros n i Hin. destruct (Hent n i Hin) as [Hv|Hp]; [left|right; exact Hp].
      rewrite Hbuf. apply ValidB_app. exact Hv.
  Qed.

  Lemma rest_okB : forall labels st ss nl st' (Pend : text -> Z -> Prop),
    SizeOk st -> Forall wf_label labels ->
    (labels <> [] -> e_size st = ss + nl - ulen (join_dot labels)) ->
    ss + nl <= 16384 ->
    EntriesOkB Pend st ->
    (forall n idx, Pend n idx -> (length (join_dot labels) < length n)%nat) ->
    write_name_rest st ss nl labels = Ok st' ->
    SizeOk st' /\ (exists extra, rev (e_rev st') = rev (e_rev st) ++ extra) /\
    e_allow_long st' = e_allow_long st /\
    tail_readsB (buf hdr st') (e_size st) (map u8 labels) (e_size st') /\
    EntriesOkB Pend st' /\ Frame st st' /\
    e_size st < e_size st' <= e_size st + wire_len (map u8 labels).
  Proof.
    induction labels as [|l rest IH]; intros st ss nl st' Pend Hs Hwf Hpos Hlim Hent Hpend Hw.
    - cbn [write_name_rest] in Hw. rewrite write_byte_ok in Hw by lia. inversion Hw; subst st'. clear Hw.
      split; [apply put_SizeOk; exact Hs|].
      split; [exists [0]; apply put_rev|].
      split; [reflexivity|].
      split.
      { left. cbn [map readsB]. rewrite buf_put. split.
        - apply sbyte_at'. symmetry. apply buf_len; assumption.
        - rewrite put_size. reflexivity. }
      split.
      { intros n i Hin. destruct (Hent n i Hin) as [Hv|Hp]; [left|right; exact Hp].
        rewrite buf_put. apply ValidB_app. exact Hv. }
      split; [intros n i Hin; left; exact Hin|].
      rewrite put_size. cbn. lia.
    - inversion Hwf as [|l' rest' Hl Hrest]; subst l' rest'.
      pose proof (wf_label_len l Hl) as Hll.
      assert (Hcur : e_size st = ss + nl - ulen (join_dot (l :: rest))) by (apply Hpos; discriminate).
      assert (Hule : 0 <= ulen (join_dot (l :: rest))) by (unfold ulen, len; lia).
      cbn [write_name_rest] in Hw.
      destruct (names_get st (join_dot (l :: rest)) =? 0) eqn:Eidx; cbn [negb] in Hw.
      + (* not in the dictionary: register, write the label, continue *)
        pose proof (join_enc_ok (l :: rest) Hwf) as Hok. unfold enc_ok in Hok.
        unfold utf8_len in Hw. rewrite Hok in Hw. cbn [bind] in Hw.
        change (Z.of_nat (length (u8 (join_dot (l :: rest))))) with (ulen (join_dot (l :: rest))) in Hw.
        rewrite <- Hcur in Hw.
        set (st1 := names_set st (join_dot (l :: rest)) (e_size st)) in *.
        rewrite write_utf_ok in Hw by exact Hl. cbn [bind] in Hw.
        set (st2 := put (put st1 [ulen l]) (u8 l)) in *.
        assert (Hs2 : SizeOk st2) by (unfold st2; apply put_SizeOk, put_SizeOk; exact Hs).
        assert (Hbuf2 : buf hdr st2 = buf hdr st ++ [ulen l] ++ u8 l).
        { unfold st2. rewrite !buf_put, <- app_assoc. reflexivity. }
        assert (Hsz2 : e_size st2 = e_size st + 1 + ulen l).
        { unfold st2. rewrite !put_size. unfold ulen, len. cbn [length]. cbn [st1 names_set e_size]. lia. }
        set (Pend' := fun n idx => Pend n idx \/ (n = join_dot (l :: rest) /\ idx = e_size st)).
        assert (Hent2 : EntriesOkB Pend' st2).
        { intros n i Hin. change (e_names st2) with (d_set text_eqb (e_names st) (join_dot (l :: rest)) (e_size st)) in Hin.
          apply d_set_In in Hin. destruct Hin as [Hin|Hin].
          - destruct (Hent n i Hin) as [Hv|Hp]; [left|right; left; exact Hp].
            rewrite Hbuf2. apply ValidB_app. exact Hv.
          - right. right. exact Hin. }
        assert (Hpend2 : forall n idx, Pend' n idx -> (length (join_dot rest) < length n)%nat).
        { intros n i [Hp|[Hn _]].
          - specialize (Hpend n i Hp). pose proof (join_length_lt l rest (proj1 Hl)). lia.
          - subst n. apply join_length_lt. exact (proj1 Hl). }
        assert (Hpos2 : rest <> [] -> e_size st2 = ss + nl - ulen (join_dot rest)).
        { intro Hne. rewrite (join_ulen l rest Hne Hwf) in Hcur. lia. }
        destruct (IH st2 ss nl st' Pend' Hs2 Hrest Hpos2 Hlim Hent2 Hpend2 Hw)
          as (Hs' & [extra Hext] & Hal & Htr & Hent' & Hfr & Hsz').
        assert (Hbuf' : buf hdr st' = buf hdr st2 ++ extra).
        { unfold buf. rewrite Hext, app_assoc. reflexivity. }
        assert (Hlab : label_at (buf hdr st') (e_size st) (u8 l)).
        { rewrite Hbuf', Hbuf2. apply label_at_app. fold (ulen l). split; [exact Hll|]. split.
          - apply sbyte_at'. symmetry. apply buf_len; assumption.
          - rewrite app_assoc.
            replace ((buf hdr st ++ [ulen l]) ++ u8 l) with ((buf hdr st ++ [ulen l]) ++ u8 l ++ []) by (rewrite app_nil_r; reflexivity).
            apply sslice_at'; [|reflexivity].
            unfold len. rewrite app_length. cbn [length].
            pose proof (buf_len hdr st Hhdr Hs) as Hb. unfold len in Hb. lia. }
        assert (Hreads : readsB (buf hdr st') (e_size st) (map u8 (l :: rest)) (e_size st')).
        { cbn [map]. apply readsB_cons. split; [exact Hlab|].
          fold (ulen l). replace (e_size st + 1 + ulen l) with (e_size st2) by lia. exact Htr. }
        split; [exact Hs'|].
        split.
        { exists (([ulen l] ++ u8 l) ++ extra). rewrite Hext. unfold st2. rewrite !put_rev.
          cbn [st1 names_set e_rev]. rewrite <- !app_assoc. reflexivity. }
        split; [rewrite Hal; reflexivity|].
        split; [left; exact Hreads|].
        split.
        { intros n i Hin. destruct (Hent' n i Hin) as [Hv|[Hp|[Hn Hi]]].
          - left. exact Hv.
          - right. exact Hp.
          - left. subst n i. split; [unfold SizeOk, len in Hs; lia|].
            exists (e_size st'). rewrite split_join; [exact Hreads|discriminate|apply wf_labels_nodot; exact Hwf]. }
        split.
        { intros n i Hin. destruct (Hfr n i Hin) as [Hin2|Hge].
          - change (e_names st2) with (d_set text_eqb (e_names st) (join_dot (l :: rest)) (e_size st)) in Hin2.
            apply d_set_In in Hin2. destruct Hin2 as [Hin2|[_ Hi]]; [left; exact Hin2|right; lia].
          - right. lia. }
        cbn [map]. rewrite wire_len_cons. fold (ulen l). lia.
      + (* found: compression pointer *)
        set (idx := names_get st (join_dot (l :: rest))) in *.
        assert (Hnz : idx <> 0) by lia.
        pose proof (names_get_nonzero st _ idx eq_refl Hnz) as Hin.
        destruct (Hent _ _ Hin) as [[Hidx [e0 Hr]]|Hp]; [|specialize (Hpend _ _ Hp); lia].
        rewrite split_join in Hr; [|discriminate|apply wf_labels_nodot; exact Hwf].
        assert (Hlim' : e_size st <= 16384) by lia.
        destruct (link_caseB st idx (map u8 (l :: rest)) e0 Pend Hs Hlim' ltac:(discriminate) Hidx Hr Hent)
          as (Hwl & Hs' & Hrev & Hal & Hnm & Htr & Hent' & Hsz').
        rewrite Hwl in Hw. inversion Hw; subst st'. clear Hw.
        split; [exact Hs'|]. split; [eexists; exact Hrev|]. split; [exact Hal|].
        split; [exact Htr|]. split; [exact Hent'|].
        split; [intros n i Hi; left; rewrite Hnm in Hi; exact Hi|].
        rewrite Hsz'. cbn [map]. rewrite wire_len_cons. fold (ulen l). pose proof (wire_len_pos (map u8 rest)). lia.
  Qed.

  (* the full specification of write_name that the later stages use *)
  Lemma write_name_specB : forall st ls st',
    NamesOkB hdr st -> wf_labels ls -> e_size st < 16384 - 300 ->
    write_name st (name_of ls) = Ok st' ->
    NamesOkB hdr st' /\ (exists extra, rev (e_rev st') = rev (e_rev st) ++ extra) /\
    e_allow_long st' = e_allow_long st /\
    tail_readsB (buf hdr st') (e_size st) (map u8 ls) (e_size st') /\
    Frame st st' /\
    e_size st < e_size st' <= e_size st + wire_len (map u8 ls).
  Proof.
    intros st ls st' (_ & Hs & Hent) (Hne & Hwf & Hcnt & Hlen & Hwire) Hlim Hw.
    unfold write_name, name_of in Hw. rewrite strip_dot_app in Hw.
    assert (Hent0 : EntriesOkB (fun _ _ => False) st) by (intros n i Hin; left; apply Hent; exact Hin).
    destruct (names_get st (join_dot ls) =? 0) eqn:Eidx; cbn [negb] in Hw.
    - rewrite split_join in Hw; [|exact Hne|apply wf_labels_nodot; exact Hwf].
      destruct ls as [|l0 rest]; [contradiction|].
      inversion Hwf as [|l' rest' Hl Hrest]; subst l' rest'.
      pose proof (wf_label_len l0 Hl) as Hll.
      set (st1 := names_set st (join_dot (l0 :: rest)) (e_size st)) in *.
      rewrite write_utf_ok in Hw by exact Hl. cbn [bind] in Hw.
      set (st2 := put (put st1 [ulen l0]) (u8 l0)) in *.
      set (nl := ulen (join_dot (l0 :: rest))).
      assert (Hw2 : write_name_rest st2 (e_size st) nl rest = Ok st').
      { destruct rest as [|l1 rest]; [exact Hw|].
        pose proof (join_enc_ok (l0 :: l1 :: rest) Hwf) as Hok. unfold enc_ok in Hok.
        unfold utf8_len in Hw. rewrite Hok in Hw. cbn [bind] in Hw. exact Hw. }
      clear Hw.
      assert (Hs2 : SizeOk st2) by (unfold st2; apply put_SizeOk, put_SizeOk; exact Hs).
      assert (Hbuf2 : buf hdr st2 = buf hdr st ++ [ulen l0] ++ u8 l0).
      { unfold st2. rewrite !buf_put, <- app_assoc. reflexivity. }
      assert (Hsz2 : e_size st2 = e_size st + 1 + ulen l0).
      { unfold st2. rewrite !put_size. unfold ulen, len. cbn [length]. cbn [st1 names_set e_size]. lia. }
      set (Pend' := fun (n : text) (idx : Z) => n = join_dot (l0 :: rest) /\ idx = e_size st).
      assert (Hent2 : EntriesOkB Pend' st2).
      { intros n i Hin. change (e_names st2) with (d_set text_eqb (e_names st) (join_dot (l0 :: rest)) (e_size st)) in Hin.
        apply d_set_In in Hin. destruct Hin as [Hin|Hin].
        - left. rewrite Hbuf2. apply ValidB_app. apply Hent. exact Hin.
        - right. exact Hin. }
      assert (Hpend2 : forall n idx, Pend' n idx -> (length (join_dot rest) < length n)%nat).
      { intros n i [Hn _]. subst n. apply join_length_lt. exact (proj1 Hl). }
      assert (Hpos2 : rest <> [] -> e_size st2 = e_size st + nl - ulen (join_dot rest)).
      { intro Hne'. unfold nl. rewrite (join_ulen l0 rest Hne' Hwf). lia. }
      assert (Hnl : nl + 2 = wire_len (map u8 (l0 :: rest))).
      { unfold nl. apply wire_len_join. exact Hwf. }
      assert (Hlim2 : e_size st + nl <= 16384) by lia.
      destruct (rest_okB rest st2 (e_size st) nl st' Pend' Hs2 Hrest Hpos2 Hlim2 Hent2 Hpend2 Hw2)
        as (Hs' & [extra Hext] & Hal & Htr & Hent' & Hfr & Hsz').
      assert (Hbuf' : buf hdr st' = buf hdr st2 ++ extra).
      { unfold buf. rewrite Hext, app_assoc. reflexivity. }
      assert (Hlab : label_at (buf hdr st') (e_size st) (u8 l0)).
      { rewrite Hbuf', Hbuf2. apply label_at_app. fold (ulen l0). split; [exact Hll|]. split.
        - apply sbyte_at'. symmetry. apply buf_len; assumption.
        - rewrite app_assoc.
          replace ((buf hdr st ++ [ulen l0]) ++ u8 l0) with ((buf hdr st ++ [ulen l0]) ++ u8 l0 ++ []) by (rewrite app_nil_r; reflexivity).
          apply sslice_at'; [|reflexivity].
          unfold len. rewrite app_length. cbn [length].
          pose proof (buf_len hdr st Hhdr Hs) as Hb. unfold len in Hb. lia. }
      assert (Hreads : readsB (buf hdr st') (e_size st) (map u8 (l0 :: rest)) (e_size st')).
      { cbn [map]. apply readsB_cons. split; [exact Hlab|].
        fold (ulen l0). replace (e_size st + 1 + ulen l0) with (e_size st2) by lia. exact Htr. }
      split.
      { split; [exact Hhdr|]. split; [exact Hs'|].
        intros n i Hin. destruct (Hent' n i Hin) as [Hv|[Hn Hi]]; [exact Hv|].
        subst n i. split; [unfold SizeOk, len in Hs; lia|].
        exists (e_size st'). rewrite split_join; [exact Hreads|discriminate|apply wf_labels_nodot; exact Hwf]. }
      split.
      { exists (([ulen l0] ++ u8 l0) ++ extra). rewrite Hext. unfold st2. rewrite !put_rev.
        cbn [st1 names_set e_rev]. rewrite <- !app_assoc. reflexivity. }
      split; [rewrite Hal; reflexivity|].
      split; [left; exact Hreads|].
      split.
      { intros n i Hin. destruct (Hfr n i Hin) as [Hin2|Hge].
        - change (e_names st2) with (d_set text_eqb (e_names st) (join_dot (l0 :: rest)) (e_size st)) in Hin2.
          apply d_set_In in Hin2. destruct Hin2 as [Hin2|[_ Hi]]; [left; exact Hin2|right; lia].
        - right. lia. }
      cbn [map] in *. rewrite wire_len_cons in *. fold (ulen l0) in *. lia.
    - set (idx := names_get st (join_dot ls)) in *.
      assert (Hnz : idx <> 0) by lia.
      pose proof (names_get_nonzero st _ idx eq_refl Hnz) as Hin.
      destruct (Hent _ _ Hin) as [Hidx [e0 Hr]].
      rewrite split_join in Hr; [|exact Hne|apply wf_labels_nodot; exact Hwf].
      assert (Hlim' : e_size st <= 16384) by lia.
      assert (Hne' : map u8 ls <> []) by (destruct ls; [contradiction|discriminate]).
      destruct (link_caseB st idx (map u8 ls) e0 (fun _ _ => False) Hs Hlim' Hne' Hidx Hr Hent0)
        as (Hwl & Hs' & Hrev & Hal & Hnm & Htr & Hent' & Hsz').
      rewrite Hwl in Hw. inversion Hw; subst st'. clear Hw.
      split.
      { split; [exact Hhdr|]. split; [exact Hs'|].
        intros n i Hi. destruct (Hent' n i Hi) as [Hv|[]]. exact Hv. }
      split; [eexists; exact Hrev|]. split; [exact Hal|].
      split; [exact Htr|].
      split; [intros n i Hi; left; rewrite Hnm in Hi; exact Hi|].
      rewrite Hsz'. destruct ls as [|l0 rest]; [contradiction|]. cbn [map]. rewrite wire_len_cons.
      inversion Hwf as [|l' rest' Hl Hrest]; subst l' rest'.
      pose proof (wf_label_len l0 Hl) as Hll. fold (ulen l0). pose proof (wire_len_pos (map u8 rest)). lia.
  Qed.

End Name.

(* ---------- back to the predicates of C01_defs ---------- *)
Lemma ptrB_at_ptr_at d pos t : ptrB_at d pos t -> ptr_at d pos t.
Proof.
  intros (hi & lo & H1 & H2 & H3 & H4 & H5). exists hi, lo.
  split; [exact H1|]. split; [exact H2|]. split; [lia|]. split; [exact H4|exact H5].
Qed.

Lemma readsB_reads d : forall ls pos e, readsB d pos ls e -> reads d pos ls e.
Proof.
  induction ls as [|l rest IH]; intros pos e H; [exact H|].
  cbn [readsB reads] in *. destruct H as [Hl Ht]. split; [exact Hl|].
  destruct Ht as [Ht|(Hne & He & t & e' & Hp & Hr)].
  - left. apply IH. exact Ht.
  - right. split; [exact Hne|]. split; [exact He|]. exists t, e'.
    split; [apply ptrB_at_ptr_at; exact Hp|apply IH; exact Hr].
Qed.

Lemma ValidB_Valid d n idx : ValidB d n idx -> Valid d n idx.
Proof. intros [H1 [e H2]]. split; [exact H1|]. exists e. apply readsB_reads. exact H2. Qed.

Lemma NamesOkB_NamesOk hdr st : NamesOkB hdr st -> NamesOk hdr st.
Proof.
  intros (H1 & H2 & H3). split; [exact H1|]. split; [exact H2|].
  intros n idx Hin. apply ValidB_Valid. apply H3. exact Hin.
Qed.

(* ---------- the strengthened walk is a walk of C02_strict_names ---------- *)
Lemma readsB_walk d : forall ls,
  (forall pos e, readsB d pos ls e -> exists h, walk d pos ls h e /\ (h <= pred (length ls))%nat) /\
  (forall pos e, tail_readsB d pos ls e -> exists h, walk d pos ls h e /\ (h <= length ls)%nat).
Proof.
  induction ls as [|l rest IH].
  - assert (R : forall pos e, readsB d pos [] e -> exists h, walk d pos [] h e /\ (h <= 0)%nat).
    { intros pos e [H1 H2]. subst e. exists 0%nat. split; [constructor; exact H1|lia]. }
    split; [exact R|]. intros pos e [H|(Hne & _)]; [apply R; exact H|contradiction].
  - destruct IH as [_ IHt].
    assert (R : forall pos e, readsB d pos (l :: rest) e ->
                exists h, walk d pos (l :: rest) h e /\ (h <= length rest)%nat).
    { intros pos e H. apply readsB_cons in H. destruct H as [(Hl1 & Hl2 & Hl3) Ht].
      destruct (IHt _ _ Ht) as (h & W & Hh). exists h. split; [|exact Hh].
      eapply W_label; [exact Hl2|lia|exact Hl3|exact W]. }
    split; [exact R|].
    intros pos e [H|(Hne & He & t & e' & Hp & Hr)].
    + destruct (R _ _ H) as (h & W & Hh). exists h. split; [exact W|cbn [length]; lia].
    + destruct Hp as (hi & lo & Hb1 & Hb2 & Hhi & Ht & Hrange).
      destruct (R _ _ Hr) as (h & W & Hh). exists (S h). subst e t. split; [|cbn [length]; lia].
      eapply W_ptr; [exact Hb1|lia|exact Hb2|lia|lia|exact W].
Qed.

Lemma tail_readsB_good d pos ls e :
  wf_labels ls -> tail_readsB d pos (map u8 ls) e -> GoodName d pos (name_of ls) e.
Proof.
  intros (Hne & Hwf & Hcnt & Hlen & Hwire) Ht.
  destruct (readsB_walk d (map u8 ls)) as [_ Hw]. destruct (Hw _ _ Ht) as (h & W & Hh).
  rewrite map_length in Hh.
  exists (map u8 ls), h. split; [exact W|]. split; [lia|]. split; [rewrite map_length; exact Hcnt|].
  rewrite map_map.
  assert (Hdec : map (fun x => utf8_decode_replace (u8 x)) ls = ls).
  { clear - Hwf. induction Hwf as [|l ls Hl Hls IH]; [reflexivity|].
    cbn [map]. rewrite IH. rewrite u8_roundtrip; [reflexivity|]. exact (proj1 (proj2 Hl)). }
  rewrite Hdec, sjoin_join. split; [reflexivity|]. exact Hlen.
Qed.

Lemma NP_of_good D pos n e : sname D pos = Some (n, e) -> GoodName D pos n e -> NP D pos.
Proof. intros Hs Hg name e' Hs'. rewrite Hs in Hs'. inversion Hs'; subst. exact Hg. Qed.

Section NameB.
  Variable hdr : bytes.
  Hypothesis Hhdr : length hdr = 12%nat.

  Lemma NamesOkB_init : NamesOkB hdr enc_init.
  Proof. split; [exact Hhdr|]. split; [reflexivity|]. intros n i []. Qed.

  Lemma NamesOkB_put a bs : NamesOkB hdr a -> NamesOkB hdr (put a bs).
  Proof.
    intros (H1 & H2 & H3). split; [exact H1|]. split; [apply put_SizeOk; exact H2|].
    intros n i Hin. rewrite buf_put. apply ValidB_app. apply H3. exact Hin.
  Qed.

  Lemma NamesOkB_rollback st s : NamesOkB hdr st -> Frame st s ->
    NamesOkB hdr {| e_rev := e_rev st; e_size := e_size st;
                    e_names := filter (fun ni => snd ni <? e_size st) (e_names s); e_allow_long := false |}.
  Proof.
    intros (H1 & H2 & H3) Hfr. split; [exact H1|]. split; [exact H2|].
    intros n i Hin. cbn [e_names] in Hin. apply filter_In in Hin. destruct Hin as [Hin Hlt]. cbn [snd] in Hlt.
    destruct (Hfr n i Hin) as [Hold|Hge]; [|lia].
    apply (H3 n i Hold).
  Qed.

  (* one name: the dictionary invariant is kept, and the name is a good name at the place it was written *)
  Lemma name_stepB a b n : NamesOkB hdr a -> wf_name n -> e_size a < 16084 -> write_name a n = Ok b ->
    NamesOkB hdr b /\ forall x, GoodName (buf hdr b ++ x) (e_size a) n (e_size b).
  Proof.
    intros Hok [ls [Hn Hwf]] Hlim Hw. subst n.
    destruct (write_name_specB hdr Hhdr a ls b Hok Hwf ltac:(lia) Hw) as (Hok' & Hext & Hal & Htr & Hfr & Hsz).
    split; [exact Hok'|]. intro x. apply tail_readsB_good; [exact Hwf|apply tail_readsB_app; exact Htr].
  Qed.
End NameB.

Print Assumptions write_name_specB.
Print Assumptions name_stepB.
