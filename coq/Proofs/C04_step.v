(* C04, part 2: what one handler invocation (a response datagram, the periodic purge) makes the browser
   report, related to what it does to the cache. Derived from the C05 / C06 theorems. *)
From ZC Require Import Model.Base Model.PyRec Model.Dict Model.Re Model.Names Model.Cache Model.Ingest Model.Sched
  Model.Browser Gen.Const Gen.DnsPure Spec.CacheSpec Spec.IngestSpec.
From ZC Require Import Proofs.C20_identity Proofs.C05_index Proofs.C05_cache Proofs.C06_lemmas Proofs.C06_ingest.
From ZC Require Import Proofs.C04_enqueue Proofs.C04_defs.

(* ------------------------------------------------------------------ *)
(* from the operations of one batch to the events of one (type, instance) *)
Section Events.
  Variables (ops : list op) (ty : text) (bf af : text -> bool).     (* reported before / after, per instance *)
  Hypothesis HA1 : forall n, In (Added, ty, n) ops -> bf (lower n) = false /\ af (lower n) = true.
  Hypothesis HR1 : forall n, In (Removed, ty, n) ops -> bf (lower n) = true /\ af (lower n) = false.
  Hypothesis HA2 : forall k, bf k = false -> af k = true -> exists n, lower n = k /\ In (Added, ty, n) ops.
  Hypothesis HR2 : forall k, bf k = true -> af k = false -> exists n, lower n = k /\ In (Removed, ty, n) ops.
  Hypothesis HU : forall c1 c2 n1 n2, In (c1, ty, n1) ops -> In (c2, ty, n2) ops ->
    is_ar c1 = true -> is_ar c2 = true -> lower n1 = lower n2 -> n1 = n2.

  Lemma about_in k n t ch : In ((n, t), ch) (filter (about ty k) (enqueue_all [] ops)) ->
    t = ty /\ lower n = k /\ is_ar ch = true /\ In (ch, ty, n) ops.
  Proof using.
    intro H. apply filter_In in H as [Hin Hab]. unfold about in Hab. cbn [fst snd] in Hab.
    apply andb_true_iff in Hab as [Hab H3]. apply andb_true_iff in Hab as [H1 H2].
    apply text_eqb_eq in H1, H2. subst t. repeat split; try assumption.
    apply pending_member. exact Hin.
  Qed.

  Lemma events_trichotomy k :
    (events_of (enqueue_all [] ops) ty k = [Added] /\ bf k = false /\ af k = true) \/
    (events_of (enqueue_all [] ops) ty k = [Removed] /\ bf k = true /\ af k = false) \/
    (events_of (enqueue_all [] ops) ty k = [] /\ bf k = af k).
  Proof using HA1 HR1 HA2 HR2 HU.
    assert (Hwf : pending_wf (enqueue_all [] ops)) by (apply enqueue_all_wf; constructor).
    assert (Hsame : forall e1 e2, In e1 (filter (about ty k) (enqueue_all [] ops)) ->
              In e2 (filter (about ty k) (enqueue_all [] ops)) -> fst e1 = fst e2).
    { intros [[n1 t1] ch1] [[n2 t2] ch2] H1 H2.
      apply about_in in H1 as [Et1 [El1 [A1 I1]]]. apply about_in in H2 as [Et2 [El2 [A2 I2]]].
      subst t1 t2. cbn [fst]. f_equal. apply (HU ch1 ch2 n1 n2 I1 I2 A1 A2). congruence. }
    unfold events_of.
    destruct (filter_at_most_one (about ty k) (enqueue_all [] ops) Hwf Hsame) as [E|[[[n t] ch] E]].
    - rewrite E. cbn [map]. right. right. split; [reflexivity|].
      destruct (bf k) eqn:B, (af k) eqn:A; try reflexivity; exfalso.
      + destruct (HR2 k B A) as [n [El Hn]].
        assert (Hp : In ((n, ty), Removed) (enqueue_all [] ops)).
        { apply pending_removed. split; [exact Hn|]. intro C. destruct (HA1 n C) as [C1 _]. rewrite El in C1. congruence. }
        assert (Hf : In ((n, ty), Removed) (filter (about ty k) (enqueue_all [] ops))).
        { apply filter_In. split; [exact Hp|]. unfold about. cbn [fst snd is_ar].
          rewrite text_eqb_refl, El, text_eqb_refl. reflexivity. }
        rewrite E in Hf. destruct Hf.
      + destruct (HA2 k B A) as [n [El Hn]].
        assert (Hp : In ((n, ty), Added) (enqueue_all [] ops)) by (apply pending_added; exact Hn).
        assert (Hf : In ((n, ty), Added) (filter (about ty k) (enqueue_all [] ops))).
        { apply filter_In. split; [exact Hp|]. unfold about. cbn [fst snd is_ar].
          rewrite text_eqb_refl, El, text_eqb_refl. reflexivity. }
        rewrite E in Hf. destruct Hf.
    - assert (Hin : In ((n, t), ch) (filter (about ty k) (enqueue_all [] ops))) by (rewrite E; left; reflexivity).
      apply about_in in Hin as [Et [El [Har Hop]]]. subst t. rewrite E. cbn [map snd].
      destruct ch.
      + left. split; [reflexivity|]. rewrite <- El. apply HA1. exact Hop.
      + right. left. split; [reflexivity|]. rewrite <- El. apply HR1. exact Hop.
      + discriminate Har.
  Qed.
End Events.

(* ------------------------------------------------------------------ *)
(* pointer records: identity and the cache *)

Lemma cached_instances_in c ty k : Inv c ->
  (In k (cached_instances c ty) <->
   exists x, In x (flat c) /\ p_type_ x = C_TYPE_PTR /\ rkey x = lower ty /\ lower (p_alias x) = k).
Proof.
  intro Hinv. unfold cached_instances. rewrite (entries_with_name_flat c ty Hinv). rewrite in_map_iff. split.
  - intros [x [E Hx]]. apply filter_In in Hx as [Hx T]. apply filter_In in Hx as [Hx N].
    apply Z.eqb_eq in T. apply text_eqb_eq in N. exists x. auto.
  - intros [x [Hx [T [N E]]]]. exists x. split; [exact E|]. apply filter_In. split.
    + apply filter_In. split; [exact Hx|]. apply text_eqb_eq. exact N.
    + apply Z.eqb_eq. exact T.
Qed.

Lemma instb_iff c ty k : instb c ty k = true <-> In k (cached_instances c ty).
Proof.
  unfold instb. rewrite existsb_exists. split.
  - intros [x [Hx E]]. apply text_eqb_eq in E. subst x. exact Hx.
  - intro H. exists k. split; [exact H|apply text_eqb_refl].
Qed.

Lemma instb_true c ty k : Inv c ->
  (instb c ty k = true <->
   exists x, In x (flat c) /\ p_type_ x = C_TYPE_PTR /\ rkey x = lower ty /\ lower (p_alias x) = k).
Proof. intro Hinv. rewrite instb_iff. apply cached_instances_in. exact Hinv. Qed.

Definition is_ptr (r : pyrec) : Prop :=
  p_type_ r = C_TYPE_PTR /\ p_kind r = KPointer /\ DNSEntry_class_ r = C_CLASS_IN.

Lemma ptr_ok_is_ptr types r : ptr_ok types r -> p_type_ r = C_TYPE_PTR -> is_ptr r /\ name_ok types (p_name r).
Proof. intros H T. destruct (H T) as [K [C N]]. split; [split; [exact T|split; assumption]|exact N]. Qed.

Lemma ptr_ident r : p_kind r = KPointer ->
  ident_of r = IPointer (lower (p_name r)) (p_type_ r) (class15 r) (lower (p_alias r)).
Proof. intro K. unfold ident_of. rewrite K. reflexivity. Qed.

Lemma class15_entry r : class15 r = DNSEntry_class_ r.
Proof. unfold class15, DNSEntry_class_. symmetry. apply class_mask_mod. Qed.

Lemma ptr_gen_eq a b : is_ptr a -> is_ptr b -> rkey a = rkey b -> lower (p_alias a) = lower (p_alias b) ->
  gen_eq a b = true.
Proof.
  intros [Ta [Ka Ca]] [Tb [Kb Cb]] N A. apply eq_iff_ident. rewrite (ptr_ident a Ka), (ptr_ident b Kb).
  rewrite !class15_entry, Ta, Tb, Ca, Cb, A. unfold rkey, DNSEntry_key in N. rewrite N. reflexivity.
Qed.

Lemma gen_eq_ptr a b : gen_eq a b = true -> p_kind a = KPointer ->
  p_kind b = KPointer /\ rkey a = rkey b /\ p_type_ a = p_type_ b /\ lower (p_alias a) = lower (p_alias b).
Proof.
  intros E Ka. pose proof (gen_eq_kind a b E) as K. rewrite Ka in K. symmetry in K.
  apply eq_iff_ident in E. rewrite (ptr_ident a Ka), (ptr_ident b K) in E. inversion E.
  unfold rkey, DNSEntry_key. auto.
Qed.

Lemma get_unique_some c r x : Inv c -> async_get_unique c r = Some x -> In x (flat c) /\ gen_eq x r = true.
Proof. intros Hinv G. rewrite (get_unique_flat c r Hinv) in G. apply find_some in G. exact G. Qed.

(* for a pointer record, "an equal record is cached" is "its instance is held for its type" *)
Lemma in_cache_instb types c a : Inv c -> cache_ok types c -> is_ptr a ->
  in_cache c a = instb c (p_name a) (lower (p_alias a)).
Proof.
  intros Hinv Hok Ha. pose proof Ha as [Ta [Ka Ca]]. destruct (in_cache c a) eqn:I.
  - symmetry. apply (instb_true c _ _ Hinv). apply in_cache_has in I. destruct I as [x [Hx E]].
    rewrite eq_sym_ in E. destruct (gen_eq_ptr a x E Ka) as [_ [N [T A]]].
    exists x. split; [exact Hx|]. split; [congruence|]. split; [symmetry; exact N|symmetry; exact A].
  - destruct (instb c (p_name a) (lower (p_alias a))) eqn:B; [|reflexivity]. exfalso.
    apply (instb_true c _ _ Hinv) in B. destruct B as [x [Hx [T [N A]]]].
    destruct (ptr_ok_is_ptr types x (Hok x Hx) T) as [Px _].
    assert (E : gen_eq x a = true) by (apply ptr_gen_eq; assumption).
    assert (C : in_cache c a = true) by (apply has_in_cache; [exact Hinv|exists x; split; assumption]).
    congruence.
Qed.

(* owner names *)
Lemma name_ok_inter types nm t : name_ok types nm -> In t (inter_types types (possible_types nm)) ->
  t = nm /\ In nm types.
Proof.
  intros [H|[H _]] Hin.
  - assert (Hnm : In nm (inter_types types (possible_types nm))) by (rewrite H; left; reflexivity).
    apply in_inter_types in Hnm. rewrite H in Hin. destruct Hin as [Hin|[]]. split; [symmetry; exact Hin|exact Hnm].
  - rewrite H in Hin. destruct Hin.
Qed.

Lemma name_ok_self types nm : name_ok types nm -> In nm types -> In nm (inter_types types (possible_types nm)).
Proof.
  intros [H|[_ H]] Hin.
  - rewrite H. left. reflexivity.
  - exfalso. apply (H nm Hin). reflexivity.
Qed.

Lemma name_ok_lower types nm ty : types_distinct types -> name_ok types nm -> In ty types ->
  lower nm = lower ty -> nm = ty.
Proof.
  intros Hd Hn Hty El. destruct Hn as [H|[_ H]].
  - apply Hd; [|exact Hty|exact El].
    assert (Hnm : In nm (inter_types types (possible_types nm))) by (rewrite H; left; reflexivity).
    apply in_inter_types in Hnm. exact Hnm.
  - exfalso. apply (H ty Hty El).
Qed.

(* lifetime changes keep everything the browser looks at *)
Definition same_static (x y : pyrec) : Prop :=
  p_kind x = p_kind y /\ p_name x = p_name y /\ p_type_ x = p_type_ y /\ p_class_ x = p_class_ y /\
  p_alias x = p_alias y.

Lemma static_refl x : same_static x x.
Proof. repeat split. Qed.

Lemma static_sl x a b : same_static (set_lifetime x a b) x.
Proof. repeat split. Qed.

Lemma static_floor r : same_static (floorr r) r.
Proof.
  unfold floorr, apply_ptr_floor.
  match goal with |- context [if ?b then _ else _] => destruct b end; [apply static_sl|apply static_refl].
Qed.

Lemma static_h now answers x : same_static (hfun now answers x) x.
Proof.
  unfold hfun, mk.
  match goal with |- context [if ?b then _ else _] => destruct b end;
    unfold refresh; destruct (last_nonzero answers x); repeat split.
Qed.

Lemma ptr_ok_static types x y : same_static x y -> ptr_ok types y -> ptr_ok types x.
Proof.
  intros [K [N [T [C A]]]] H. unfold ptr_ok, DNSEntry_class_ in *. rewrite K, N, T, C. exact H.
Qed.

(* ------------------------------------------------------------------ *)
(* one response datagram *)
Section Resp.
  Variables (types : list text) (now : Z) (answers : list pyrec) (c c' : cache).
  Hypothesis Htypes : types_distinct types.
  Hypothesis HInv : Inv c.
  Hypothesis Hok : cache_ok types c.
  Hypothesis Hwf : wf_answers now answers.
  Hypothesis Hptr : forall r, In r answers -> ptr_ok types r.
  Hypothesis Hcase : no_case_clash answers.
  Hypothesis Ef : i_final (ingest now answers c) = Ok c'.

  Lemma resp_inv : Inv c'.
  Proof using HInv Hwf Ef.
    destruct (ingest_total now answers c HInv Hwf) as [c1 [E1 H1]]. rewrite Ef in E1. inversion E1; subst c1. exact H1.
  Qed.

  Lemma resp_ok : cache_ok types c'.
  Proof using HInv Hok Hwf Hptr Ef.
    intros x Hx. destruct (final_flat now answers c HInv Hwf) as [c1 [E1 [_ F']]].
    rewrite Ef in E1. inversion E1; subst c1. clear E1.
    apply (in_final_phase2 now answers c c' x F') in Hx.
    apply (phase2_origin now answers c HInv Hwf) in Hx as [[y [Hy E]]|[_ Hx]].
    - subst x. apply (ptr_ok_static types _ y (static_h now answers y)). apply Hok. exact Hy.
    - destruct (in_adds now answers c HInv Hwf x Hx) as [a0 [Ha0 [E _]]]. subst x.
      apply (ptr_ok_static types _ a0 (static_floor a0)). apply Hptr. exact Ha0.
  Qed.

  (* the batch handed to the listener, and the enqueue operations it causes *)
  Definition resp_ups : list (pyrec * bool) :=
    map (fun u => (u_new u, match u_old u with None => true | Some _ => false end)) (i_updates (ingest now answers c)).

  Definition resp_ops : list op :=
    flat_map (update_ops types now (i_phase1 (ingest now answers c))) resp_ups.

  Lemma resp_ups_in new on :
    In (new, on) resp_ups <->
    exists a, In a answers /\ new = floorr a /\ (p_ttl a <> 0 \/ in_cache c a = true) /\ on = negb (in_cache c a).
  Proof using HInv Hwf.
    destruct (ingest_contract now answers c HInv Hwf) as [_ [Hm [Hold _]]].
    assert (Hon : forall u, In u (i_updates (ingest now answers c)) ->
              match u_old u with None => true | Some _ => false end = negb (in_cache c (u_new u))).
    { intros u Hu. pose proof (Hold u Hu) as [H1 H2]. destruct (u_old u) as [e|].
      - rewrite H1 by discriminate. reflexivity.
      - destruct (in_cache c (u_new u)); [|reflexivity]. exfalso. apply H2; reflexivity. }
    assert (Hrep : forall x, In x (reported now c answers) <->
              exists a, In a answers /\ x = floorr a /\ (p_ttl a <> 0 \/ in_cache c a = true)).
    { intro x. unfold reported. rewrite filter_In, in_map_iff. split.
      - intros [[a [E Ha]] Hc]. exists a. split; [exact Ha|]. split; [symmetry; exact E|]. subst x.
        rewrite floor_ttl0, (in_cache_floor c a HInv) in Hc. apply orb_true_iff in Hc as [Hc|Hc].
        + left. apply negb_true_iff, Z.eqb_neq in Hc. exact Hc.
        + right. exact Hc.
      - intros [a [Ha [E Hc]]]. subst x. split; [exists a; split; [reflexivity|exact Ha]|].
        rewrite floor_ttl0, (in_cache_floor c a HInv). apply orb_true_iff. destruct Hc as [Hc|Hc].
        + left. apply negb_true_iff, Z.eqb_neq. exact Hc.
        + right. exact Hc. }
    unfold resp_ups. rewrite in_map_iff. split.
    - intros [u [E Hu]]. inversion E; subst new on. clear E.
      assert (Hr : In (u_new u) (reported now c answers)) by (rewrite <- Hm; apply in_map; exact Hu).
      apply Hrep in Hr as [a [Ha [E Hc]]]. exists a. split; [exact Ha|]. split; [exact E|]. split; [exact Hc|].
      rewrite (Hon u Hu), E, (in_cache_floor c a HInv). reflexivity.
    - intros [a [Ha [E [Hc Eon]]]].
      assert (Hr : In (floorr a) (reported now c answers)) by (apply Hrep; exists a; auto).
      rewrite <- Hm in Hr. apply in_map_iff in Hr as [u [Eu Hu]]. exists u. split; [|exact Hu].
      rewrite (Hon u Hu), Eu, (in_cache_floor c a HInv). congruence.
  Qed.

  Lemma resp_added ty n :
    In (Added, ty, n) resp_ops <->
    exists a, In a answers /\ p_type_ a = C_TYPE_PTR /\ In ty (inter_types types (possible_types (p_name a))) /\
              n = p_alias a /\ p_ttl a <> 0 /\ in_cache c a = false.
  Proof using HInv Hwf.
    unfold resp_ops. rewrite in_flat_map. split.
    - intros [[new on] [Hu H]]. apply in_update_ops_added in H as [T [Eon [Hty En]]].
      apply resp_ups_in in Hu as [a [Ha [E [Hc Eon']]]]. rewrite Eon in Eon'. subst new n.
      destruct (static_floor a) as [_ [N [T' [_ A]]]]. rewrite N in Hty. rewrite T' in T.
      exists a. split; [exact Ha|]. split; [exact T|]. split; [exact Hty|]. split; [exact A|].
      destruct (in_cache c a); [discriminate Eon'|]. split; [|reflexivity].
      destruct Hc as [Hc|Hc]; [exact Hc|discriminate Hc].
    - intros [a [Ha [T [Hty [En [Tt Hin]]]]]]. exists (floorr a, true). split.
      + apply resp_ups_in. exists a. split; [exact Ha|]. split; [reflexivity|]. split; [left; exact Tt|].
        rewrite Hin. reflexivity.
      + apply in_update_ops_added. destruct (static_floor a) as [_ [N [T' [_ A]]]].
        rewrite N, T', A. auto.
  Qed.

  Lemma resp_removed ty n :
    In (Removed, ty, n) resp_ops <->
    exists a, In a answers /\ p_type_ a = C_TYPE_PTR /\ In ty (inter_types types (possible_types (p_name a))) /\
              n = p_alias a /\ p_ttl a = 0 /\ in_cache c a = true.
  Proof using HInv Hwf.
    unfold resp_ops. rewrite in_flat_map. split.
    - intros [[new on] [Hu H]]. apply in_update_ops_removed in H as [T [Eon [Ex [Hty En]]]].
      apply resp_ups_in in Hu as [a [Ha [E [Hc Eon']]]]. rewrite Eon in Eon'. subst new n.
      destruct (static_floor a) as [_ [N [T' [_ A]]]]. rewrite N in Hty. rewrite T' in T.
      destruct (Hwf a Ha) as [Hcr [[Ht0 _] _]]. rewrite (floor_expired now a Hcr Ht0) in Ex. apply Z.eqb_eq in Ex.
      exists a. split; [exact Ha|]. split; [exact T|]. split; [exact Hty|]. split; [exact A|]. split; [exact Ex|].
      destruct (in_cache c a); [reflexivity|discriminate Eon'].
    - intros [a [Ha [T [Hty [En [Tt Hin]]]]]]. exists (floorr a, false). split.
      + apply resp_ups_in. exists a. split; [exact Ha|]. split; [reflexivity|]. split; [right; exact Hin|].
        rewrite Hin. reflexivity.
      + apply in_update_ops_removed. destruct (static_floor a) as [_ [N [T' [_ A]]]].
        destruct (Hwf a Ha) as [Hcr [[Ht0 _] _]].
        rewrite N, T', A, (floor_expired now a Hcr Ht0), Tt. auto.
  Qed.

  (* Added: the pointer was not held before and is held after *)
  Lemma resp_A1 ty n : In (Added, ty, n) resp_ops ->
    instb c ty (lower n) = false /\ instb c' ty (lower n) = true.
  Proof using HInv Hok Hwf Hptr Ef.
    intro H. apply resp_added in H as [a [Ha [T [Hty [En [Tt Hin]]]]]]. subst n.
    destruct (ptr_ok_is_ptr types a (Hptr a Ha) T) as [Pa Na].
    destruct (name_ok_inter types _ ty Na Hty) as [Ety _]. subst ty.
    rewrite <- (in_cache_instb types c a HInv Hok Pa), <- (in_cache_instb types c' a resp_inv resp_ok Pa).
    split; [exact Hin|].
    assert (Hvac : in_cache c a = true -> has_goodbye answers a = false) by (intro C; congruence).
    destruct (ingest_cached now answers c HInv Hwf c' a Ef Ha Tt Hvac) as [x [a0 [G _]]].
    apply (get_unique_some c' a x resp_inv) in G as [Hx Ex].
    apply has_in_cache; [exact resp_inv|]. exists x. split; assumption.
  Qed.

  (* Removed: the pointer was held before and is not held after *)
  Lemma resp_R1 ty n : In (Removed, ty, n) resp_ops ->
    instb c ty (lower n) = true /\ instb c' ty (lower n) = false.
  Proof using HInv Hok Hwf Hptr Ef.
    intro H. apply resp_removed in H as [a [Ha [T [Hty [En [Tt Hin]]]]]]. subst n.
    destruct (ptr_ok_is_ptr types a (Hptr a Ha) T) as [Pa Na].
    destruct (name_ok_inter types _ ty Na Hty) as [Ety _]. subst ty.
    rewrite <- (in_cache_instb types c a HInv Hok Pa), <- (in_cache_instb types c' a resp_inv resp_ok Pa).
    split; [exact Hin|].
    apply (ingest_goodbye now answers c HInv Hwf c' a Ef); [|exact Hin].
    unfold has_goodbye. apply existsb_exists. exists a. split; [exact Ha|].
    rewrite eq_refl_, Tt. reflexivity.
  Qed.

  Lemma resp_A2 ty k : In ty types -> instb c ty k = false -> instb c' ty k = true ->
    exists n, lower n = k /\ In (Added, ty, n) resp_ops.
  Proof using Htypes HInv Hok Hwf Hptr Ef.
    intros Hty B A. apply (instb_true c' ty k resp_inv) in A. destruct A as [x [Hx [Tx [Nx Ax]]]].
    destruct (ptr_ok_is_ptr types x (resp_ok x Hx) Tx) as [[_ [Kx _]] _].
    destruct (ingest_no_invention now answers c HInv Hwf c' x Ef Hx) as [[y [Hy E]]|[a [Ha [E Tt]]]].
    - exfalso. rewrite eq_sym_ in E. destruct (gen_eq_ptr x y E Kx) as [_ [N [T Al]]].
      assert (C : instb c ty k = true).
      { apply (instb_true c ty k HInv). exists y. split; [exact Hy|]. split; [congruence|]. split; congruence. }
      congruence.
    - rewrite eq_sym_ in E. destruct (gen_eq_ptr x a E Kx) as [_ [N [T Al]]].
      assert (Ta : p_type_ a = C_TYPE_PTR) by congruence.
      destruct (ptr_ok_is_ptr types a (Hptr a Ha) Ta) as [Pa Na].
      assert (En : p_name a = ty).
      { apply (name_ok_lower types _ ty Htypes Na Hty). unfold rkey, DNSEntry_key in N, Nx. congruence. }
      exists (p_alias a). split; [congruence|]. apply resp_added. exists a.
      split; [exact Ha|]. split; [exact Ta|]. split; [|split; [reflexivity|split; [exact Tt|]]].
      + rewrite En. apply name_ok_self; [rewrite <- En; exact Na|exact Hty].
      + rewrite (in_cache_instb types c a HInv Hok Pa), En. rewrite <- Al, Ax. exact B.
  Qed.

  Lemma resp_R2 ty k : In ty types -> instb c ty k = true -> instb c' ty k = false ->
    exists n, lower n = k /\ In (Removed, ty, n) resp_ops.
  Proof using Htypes HInv Hok Hwf Hptr Ef.
    intros Hty B A. apply (instb_true c ty k HInv) in B. destruct B as [x [Hx [Tx [Nx Ax]]]].
    destruct (ptr_ok_is_ptr types x (Hok x Hx) Tx) as [[_ [Kx _]] _].
    destruct (has_goodbye answers x) eqn:G.
    - unfold has_goodbye in G. apply existsb_exists in G as [g [Hg Eg]].
      apply andb_true_iff in Eg as [Eg Tg]. apply Z.eqb_eq in Tg.
      rewrite eq_sym_ in Eg. destruct (gen_eq_ptr x g Eg Kx) as [_ [N [T Al]]].
      assert (Ta : p_type_ g = C_TYPE_PTR) by congruence.
      destruct (ptr_ok_is_ptr types g (Hptr g Hg) Ta) as [Pg Ng].
      assert (En : p_name g = ty).
      { apply (name_ok_lower types _ ty Htypes Ng Hty). unfold rkey, DNSEntry_key in N, Nx. congruence. }
      exists (p_alias g). split; [congruence|]. apply resp_removed. exists g.
      split; [exact Hg|]. split; [exact Ta|]. split; [|split; [reflexivity|split; [exact Tg|]]].
      + rewrite En. apply name_ok_self; [rewrite <- En; exact Ng|exact Hty].
      + rewrite (in_cache_instb types c g HInv Hok Pg), En. rewrite <- Al, Ax.
        apply (instb_true c ty k HInv). exists x. auto.
    - exfalso. destruct (final_flat now answers c HInv Hwf) as [c1 [E1 [_ F']]].
      rewrite Ef in E1. inversion E1; subst c1. clear E1.
      pose proof (kept now answers c HInv Hwf c' x F' Hx G) as Hk.
      destruct (static_h now answers x) as [_ [N [T [_ Al]]]].
      assert (C : instb c' ty k = true).
      { apply (instb_true c' ty k resp_inv). exists (hfun now answers x). split; [exact Hk|].
        unfold rkey, DNSEntry_key in *. rewrite N, T, Al. auto. }
      congruence.
  Qed.

  Lemma resp_ar ch ty n : is_ar ch = true -> In (ch, ty, n) resp_ops ->
    exists a, In a answers /\ p_type_ a = C_TYPE_PTR /\ p_name a = ty /\ n = p_alias a.
  Proof using HInv Hwf Hptr.
    intros Har H. destruct ch; [| |discriminate Har].
    - apply resp_added in H as [a [Ha [T [Hty [En _]]]]].
      destruct (ptr_ok_is_ptr types a (Hptr a Ha) T) as [_ Na].
      destruct (name_ok_inter types _ ty Na Hty) as [Ety _]. exists a. auto.
    - apply resp_removed in H as [a [Ha [T [Hty [En _]]]]].
      destruct (ptr_ok_is_ptr types a (Hptr a Ha) T) as [_ Na].
      destruct (name_ok_inter types _ ty Na Hty) as [Ety _]. exists a. auto.
  Qed.

  Lemma resp_U ty c1 c2 n1 n2 : In (c1, ty, n1) resp_ops -> In (c2, ty, n2) resp_ops ->
    is_ar c1 = true -> is_ar c2 = true -> lower n1 = lower n2 -> n1 = n2.
  Proof using HInv Hwf Hptr Hcase.
    intros H1 H2 A1 A2 El.
    destruct (resp_ar c1 ty n1 A1 H1) as [a1 [Ha1 [T1 [N1 E1]]]].
    destruct (resp_ar c2 ty n2 A2 H2) as [a2 [Ha2 [T2 [N2 E2]]]].
    subst n1 n2. apply (Hcase a1 a2 Ha1 Ha2 T1 T2); congruence.
  Qed.

  (* the per-datagram key lemma: for a browsed type and any instance, the datagram fires exactly one Added
     iff the pointer was not held before and is held after, exactly one Removed iff it was held before and is
     not held after, and no Added/Removed otherwise *)
  Theorem resp_events ty k : In ty types ->
    (events_of (enqueue_all [] resp_ops) ty k = [Added] /\ instb c ty k = false /\ instb c' ty k = true) \/
    (events_of (enqueue_all [] resp_ops) ty k = [Removed] /\ instb c ty k = true /\ instb c' ty k = false) \/
    (events_of (enqueue_all [] resp_ops) ty k = [] /\ instb c ty k = instb c' ty k).
  Proof using Htypes HInv Hok Hwf Hptr Hcase Ef.
    intro Hty. apply (events_trichotomy resp_ops ty (instb c ty) (instb c' ty)).
    - apply resp_A1.
    - apply resp_R1.
    - intros k0. apply resp_A2. exact Hty.
    - intros k0. apply resp_R2. exact Hty.
    - intros c1 c2 n1 n2. apply resp_U.
  Qed.
End Resp.

(* ------------------------------------------------------------------ *)
(* the periodic purge *)
Section Purge.
  Variables (types : list text) (now : Z) (c c' : cache).
  Hypothesis Htypes : types_distinct types.
  Hypothesis HInv : Inv c.
  Hypothesis Hok : cache_ok types c.
  Hypothesis Ef : pg_final (purge now c) = Ok c'.

  Lemma purge_facts :
    Inv c' /\ pg_expired (purge now c) = filter (fun r => DNSRecord_is_expired r now) (flat c) /\
    flat c' = filter (fun r => negb (DNSRecord_is_expired r now)) (flat c).
  Proof using HInv Ef.
    destruct (purge_inv now c HInv) as [c1 [E1 H1]]. rewrite Ef in E1. inversion E1; subst c1.
    destruct (purge_exact now c HInv) as [c2 [E2 [Hex [Hfl _]]]]. rewrite Ef in E2. inversion E2; subst c2.
    auto.
  Qed.

  Lemma purge_ok : cache_ok types c'.
  Proof using HInv Hok Ef.
    destruct purge_facts as [_ [_ F]]. intros x Hx. rewrite F in Hx. apply filter_In in Hx as [Hx _].
    apply Hok. exact Hx.
  Qed.

  Definition purge_ops : list op :=
    flat_map (update_ops types now c') (map (fun x => (x, false)) (pg_expired (purge now c))).

  Lemma purge_no_added ty n : ~ In (Added, ty, n) purge_ops.
  Proof using.
    unfold purge_ops. intro H. apply in_flat_map in H as [[new on] [Hu H]].
    apply in_map_iff in Hu as [x [E _]]. inversion E; subst new on.
    apply in_update_ops_added in H as [_ [C _]]. discriminate C.
  Qed.

  Lemma purge_removed ty n :
    In (Removed, ty, n) purge_ops <->
    exists x, In x (flat c) /\ DNSRecord_is_expired x now = true /\ p_type_ x = C_TYPE_PTR /\
              In ty (inter_types types (possible_types (p_name x))) /\ n = p_alias x.
  Proof using HInv Ef.
    destruct purge_facts as [_ [Ex _]]. unfold purge_ops. rewrite Ex, in_flat_map. split.
    - intros [[new on] [Hu H]]. apply in_map_iff in Hu as [x [E Hx]]. inversion E; subst new on.
      apply filter_In in Hx as [Hx X]. apply in_update_ops_removed in H as [T [_ [_ [Hty En]]]].
      exists x. auto.
    - intros [x [Hx [X [T [Hty En]]]]]. exists (x, false). split.
      + apply in_map_iff. exists x. split; [reflexivity|]. apply filter_In. split; assumption.
      + apply in_update_ops_removed. auto.
  Qed.

  Lemma purge_R1 ty n : In (Removed, ty, n) purge_ops ->
    instb c ty (lower n) = true /\ instb c' ty (lower n) = false.
  Proof using HInv Hok Ef.
    destruct purge_facts as [Hinv' [_ F]].
    intro H. apply purge_removed in H as [x [Hx [X [T [Hty En]]]]]. subst n.
    destruct (ptr_ok_is_ptr types x (Hok x Hx) T) as [Px Nx].
    destruct (name_ok_inter types _ ty Nx Hty) as [Ety _]. subst ty. split.
    - apply (instb_true c _ _ HInv). exists x. auto.
    - destruct (instb c' (p_name x) (lower (p_alias x))) eqn:B; [|reflexivity]. exfalso.
      apply (instb_true c' _ _ Hinv') in B. destruct B as [y [Hy [Ty [Ny Ay]]]].
      rewrite F in Hy. apply filter_In in Hy as [Hy Xy].
      destruct (ptr_ok_is_ptr types y (Hok y Hy) Ty) as [Py _].
      assert (E : gen_eq y x = true) by (apply ptr_gen_eq; assumption).
      rewrite (di_unique (flat c) y x (di_flat c HInv) Hy Hx E), X in Xy. discriminate Xy.
  Qed.

  Lemma purge_mono ty k : instb c' ty k = true -> instb c ty k = true.
  Proof using HInv Ef.
    destruct purge_facts as [Hinv' [_ F]]. intro B.
    apply (instb_true c' _ _ Hinv') in B. destruct B as [y [Hy R]].
    rewrite F in Hy. apply filter_In in Hy as [Hy _]. apply (instb_true c _ _ HInv). exists y. auto.
  Qed.

  Lemma purge_R2 ty k : In ty types -> instb c ty k = true -> instb c' ty k = false ->
    exists n, lower n = k /\ In (Removed, ty, n) purge_ops.
  Proof using Htypes HInv Hok Ef.
    destruct purge_facts as [Hinv' [_ F]]. intros Hty B A.
    apply (instb_true c _ _ HInv) in B. destruct B as [x [Hx [T [N Al]]]].
    destruct (ptr_ok_is_ptr types x (Hok x Hx) T) as [Px Nx].
    assert (En : p_name x = ty) by (apply (name_ok_lower types _ ty Htypes Nx Hty); exact N).
    exists (p_alias x). split; [exact Al|]. apply purge_removed. exists x. split; [exact Hx|].
    split; [|split; [exact T|split; [|reflexivity]]].
    - destruct (DNSRecord_is_expired x now) eqn:X; [reflexivity|]. exfalso.
      assert (C : instb c' ty k = true).
      { apply (instb_true c' _ _ Hinv'). exists x. split; [|auto]. rewrite F. apply filter_In.
        split; [exact Hx|]. rewrite X. reflexivity. }
      congruence.
    - rewrite En. apply name_ok_self; [rewrite <- En; exact Nx|exact Hty].
  Qed.

  Lemma purge_U ty c1 c2 n1 n2 : In (c1, ty, n1) purge_ops -> In (c2, ty, n2) purge_ops ->
    is_ar c1 = true -> is_ar c2 = true -> lower n1 = lower n2 -> n1 = n2.
  Proof using HInv Hok Ef.
    intros H1 H2 A1 A2 El.
    destruct c1; [exfalso; exact (purge_no_added _ _ H1)| |discriminate A1].
    destruct c2; [exfalso; exact (purge_no_added _ _ H2)| |discriminate A2].
    apply purge_removed in H1 as [x1 [Hx1 [_ [T1 [Hty1 En1]]]]].
    apply purge_removed in H2 as [x2 [Hx2 [_ [T2 [Hty2 En2]]]]]. subst n1 n2.
    destruct (ptr_ok_is_ptr types x1 (Hok x1 Hx1) T1) as [P1 N1].
    destruct (ptr_ok_is_ptr types x2 (Hok x2 Hx2) T2) as [P2 N2].
    destruct (name_ok_inter types _ ty N1 Hty1) as [E1 _]. destruct (name_ok_inter types _ ty N2 Hty2) as [E2 _].
    assert (E : gen_eq x1 x2 = true).
    { apply ptr_gen_eq; try assumption. unfold rkey, DNSEntry_key. congruence. }
    rewrite (di_unique (flat c) x1 x2 (di_flat c HInv) Hx1 Hx2 E). reflexivity.
  Qed.

  (* expired pointers are removed and reported Removed; nothing else is reported Added/Removed *)
  Theorem purge_events ty k : In ty types ->
    (events_of (enqueue_all [] purge_ops) ty k = [Added] /\ instb c ty k = false /\ instb c' ty k = true) \/
    (events_of (enqueue_all [] purge_ops) ty k = [Removed] /\ instb c ty k = true /\ instb c' ty k = false) \/
    (events_of (enqueue_all [] purge_ops) ty k = [] /\ instb c ty k = instb c' ty k).
  Proof using Htypes HInv Hok Ef.
    intro Hty. apply (events_trichotomy purge_ops ty (instb c ty) (instb c' ty)).
    - intros n H. exfalso. exact (purge_no_added _ _ H).
    - apply purge_R1.
    - intros k0 B A. apply purge_mono in A. congruence.
    - intros k0. apply purge_R2. exact Hty.
    - intros c1 c2 n1 n2. apply purge_U.
  Qed.
End Purge.

(* ------------------------------------------------------------------ *)
(* the steps of the node *)

Lemma bstep_resp n now answers n' o : bn_on n = true -> bstep n (BResp now answers) = Some (n', o) ->
  i_final (ingest now answers (bn_cache n)) = Ok (bn_cache n') /\
  bn_types n' = bn_types n /\ bn_on n' = true /\
  bo_callbacks o = enqueue_all [] (resp_ops (bn_types n) now answers (bn_cache n)).
Proof.
  intros Hon H. unfold bstep in H.
  destruct (i_final (ingest now answers (bn_cache n))) as [c'|e] eqn:Ef; [|discriminate H].
  match type of H with context [run_updates n now ?c1 ?ups] =>
    pose proof (run_updates_pending n now c1 ups Hon) as Hp; destruct (run_updates n now c1 ups) as [s' p] end.
  cbn [snd] in Hp. inversion H; subst n' o. cbn [bn_cache bn_types bn_on bo_callbacks].
  split; [reflexivity|]. split; [reflexivity|]. split; [exact Hon|]. exact Hp.
Qed.

Lemma bstep_purge n now n' o : bn_on n = true -> bstep n (BPurge now) = Some (n', o) ->
  pg_final (purge now (bn_cache n)) = Ok (bn_cache n') /\
  bn_types n' = bn_types n /\ bn_on n' = true /\
  bo_callbacks o = enqueue_all [] (purge_ops (bn_types n) now (bn_cache n) (bn_cache n')).
Proof.
  intros Hon H. unfold bstep in H.
  destruct (pg_final (purge now (bn_cache n))) as [c'|e] eqn:Ef; [|discriminate H].
  match type of H with context [run_updates n now ?c1 ?ups] =>
    pose proof (run_updates_pending n now c1 ups Hon) as Hp; destruct (run_updates n now c1 ups) as [s' p] end.
  cbn [snd] in Hp. inversion H; subst n' o. cbn [bn_cache bn_types bn_on bo_callbacks].
  split; [reflexivity|]. split; [reflexivity|]. split; [exact Hon|]. exact Hp.
Qed.

Lemma bstep_sched n l n' o : (forall now answers, l <> BResp now answers) -> (forall now, l <> BPurge now) ->
  bstep n l = Some (n', o) ->
  bn_cache n' = bn_cache n /\ bn_types n' = bn_types n /\ bn_on n' = bn_on n /\ bo_callbacks o = [].
Proof.
  intros H1 H2 H. destruct l as [now answers|now|now rnd|now].
  - exfalso. apply (H1 now answers). reflexivity.
  - exfalso. apply (H2 now). reflexivity.
  - unfold bstep in H. destruct (sstep (bn_types n) false (bn_sched n) (LStart now rnd)) as [[s' out]|]; [|discriminate H].
    inversion H; subst n' o. cbn. auto.
  - unfold bstep in H. destruct (sstep (bn_types n) false (bn_sched n) (LFire now)) as [[s' out]|]; [|discriminate H].
    inversion H; subst n' o. cbn. auto.
Qed.

Print Assumptions resp_events.
Print Assumptions purge_events.
