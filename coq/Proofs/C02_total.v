(* C02_total: totality / boundedness / name-length theorems for the DNS wire decoder model (Model/WireDec.v).

   parse_names is proved as stated.
   parse_total is FALSE as stated: [bytes] is [list Z], and a "byte" -1 used as a label length makes the
   label loop stand still (off + 1 + (-1) = off) until its fuel runs out, which raises OtherError.
   The counterexamples are checked below with vm_compute; the theorem is proved as [parse_total_partial]
   under the visible extra hypothesis that every element of [data] is non-negative (true of every Python
   bytes object, whose elements are 0..255). *)
From Coq Require Import ZArith List Bool Lia ZifyBool.
From ZC Require Import Model.Base Model.PyRec Model.Dict Model.Utf8 Model.WireDec Gen.Const Gen.Shapes.
Ltac Zify.zify_post_hook ::= Z.to_euclidean_division_equations.
Import ListNotations.
Open Scope Z_scope.

(* ---------- counterexamples to parse_total as stated ---------- *)

(* header with one question, then a "length byte" -1 at offset 12: the loop never advances *)
Definition cex1 : bytes := [0;0;0;0;0;1;0;0;0;0;0;0;-1].
Lemma cex1_escapes : m_escaped (parse cex1 0 None 130) = Some OtherError.
Proof. vm_compute. reflexivity. Qed.

(* a cycle 12 -> 14 -> 12 built from a label of length 1 and a "length byte" -3; more frames do not help *)
Definition cex2 : bytes := [0;0;0;0;0;1;0;0;0;0;0;0;1;0;-3].
Lemma cex2_escapes : m_escaped (parse cex2 0 None 1000) = Some OtherError.
Proof. vm_compute. reflexivity. Qed.

Lemma parse_total_false :
  ~ (forall data now scope frames, (130 <= frames)%nat -> m_escaped (parse data now scope frames) = None).
Proof.
  intro H. specialize (H cex1 0 None 130%nat (le_n _)). rewrite cex1_escapes in H. discriminate H.
Qed.

(* ---------- post-conditions of monadic steps ---------- *)

Definition dpost {A} (Q : exn -> Prop) (P : A -> Prop) (r : dres A) : Prop :=
  match r with DOk a _ => P a | DErr e _ => Q e end.

Definition anyv {A} : A -> Prop := fun _ => True.

Lemma dpost_bind {A B} (Q : exn -> Prop) (P1 : A -> Prop) (P2 : B -> Prop) (m : M A) (f : A -> M B) s :
  dpost Q P1 (m s) -> (forall a s', P1 a -> dpost Q P2 (f a s')) -> dpost Q P2 (mbind m f s).
Proof.
  unfold mbind. intros Hm Hf. destruct (m s) as [a s'|e s']; simpl in *; auto.
Qed.

Lemma dpost_weaken {A} (Q : exn -> Prop) (P1 P2 : A -> Prop) (r : dres A) :
  dpost Q P1 r -> (forall a, P1 a -> P2 a) -> dpost Q P2 r.
Proof. destruct r as [a s|e s]; simpl; auto. Qed.

Lemma mbind_get_off {B} (f : Z -> M B) s : mbind get_off f s = f (d_off s) s.
Proof. reflexivity. Qed.
Lemma mbind_set_off {B} o (f : unit -> M B) s :
  mbind (set_off o) f s = f tt {| d_off := o; d_cache := d_cache s |}.
Proof. reflexivity. Qed.
Lemma mbind_get_cache {B} (f : list (Z * list text) -> M B) s : mbind get_cache f s = f (d_cache s) s.
Proof. reflexivity. Qed.
Lemma mbind_set_cache {B} c (f : unit -> M B) s :
  mbind (set_cache c) f s = f tt {| d_off := d_off s; d_cache := c |}.
Proof. reflexivity. Qed.

Definition caught (e : exn) : Prop := decode_catches e = true.
Definition namelen (n : text) : Prop := Z.of_nat (length n) <= 253.
Definition names_of (r : pyrec) : list text := [p_name r; p_alias r; p_server r; p_next_name r].
Definition recok (r : pyrec) : Prop := Forall namelen (names_of r).

Lemma caught_index : caught IndexError. Proof. reflexivity. Qed.
Lemma caught_ide : caught IncomingDecodeError. Proof. reflexivity. Qed.

(* ---------- the label loop with the recursive call abstracted ---------- *)

Definition dl_loop (data : bytes) (rec : Z -> list text -> list Z -> M (Z * list text * list Z)) :=
  fix loop (fuel : nat) (off : Z) (labels : list text) (seen : list Z) {struct fuel}
    : M (Z * list text * list Z) :=
    match fuel with
    | O => raise OtherError
    | S fuel' =>
        if negb (off <? dlen data) then raise IncomingDecodeError
        else
          len <- byte_at data off ;;
          if len =? 0 then ret (off + C_DNS_COMPRESSION_HEADER_LEN, labels, seen)
          else if len <? 64 then
            let label_idx := off + C_DNS_COMPRESSION_HEADER_LEN in
            loop fuel' (off + C_DNS_COMPRESSION_HEADER_LEN + len)
                 (labels ++ [utf8_decode_replace (slice data label_idx (label_idx + len))]) seen
          else if len <? 192 then raise IncomingDecodeError
          else
            link_data <- byte_at data (off + 1) ;;
            let link := (Z.land len 63) * 256 + link_data in
            if link >? dlen data then raise IncomingDecodeError
            else if link =? off then raise IncomingDecodeError
            else if existsb (Z.eqb link) seen then raise IncomingDecodeError
            else
              c <- get_cache ;;
              r <- (match cache_get_labels c link with
                    | Some (l0 :: ls) => ret (l0 :: ls, seen)
                    | _ =>
                        if (Z.of_nat (List.length seen) >=? C_MAX_DNS_LABELS) then raise IncomingDecodeError
                        else
                          let seen' := seen ++ [link] in
                          x <- rec link [] seen' ;;
                          let '(_, linked, seen'') := x in
                          c' <- get_cache ;;
                          _ <- set_cache (d_set Z.eqb c' link linked) ;;
                          ret (linked, seen'')
                    end) ;;
              let '(linked, seen2) := r in
              let labels' := labels ++ linked in
              if Z.of_nat (List.length labels') >? C_MAX_DNS_LABELS then raise IncomingDecodeError
              else ret (off + C_DNS_COMPRESSION_POINTER_LEN, labels', seen2)
    end.

Lemma decode_labels_S data h off labels seen :
  decode_labels data (S h) off labels seen
  = dl_loop data (decode_labels data h) (S (length data)) off labels seen.
Proof. reflexivity. Qed.

Lemma dl_loop_S data rec f off labels seen :
  dl_loop data rec (S f) off labels seen =
        if negb (off <? dlen data) then raise IncomingDecodeError
        else
          len <- byte_at data off ;;
          if len =? 0 then ret (off + C_DNS_COMPRESSION_HEADER_LEN, labels, seen)
          else if len <? 64 then
            let label_idx := off + C_DNS_COMPRESSION_HEADER_LEN in
            dl_loop data rec f (off + C_DNS_COMPRESSION_HEADER_LEN + len)
                 (labels ++ [utf8_decode_replace (slice data label_idx (label_idx + len))]) seen
          else if len <? 192 then raise IncomingDecodeError
          else
            link_data <- byte_at data (off + 1) ;;
            let link := (Z.land len 63) * 256 + link_data in
            if link >? dlen data then raise IncomingDecodeError
            else if link =? off then raise IncomingDecodeError
            else if existsb (Z.eqb link) seen then raise IncomingDecodeError
            else
              c <- get_cache ;;
              r <- (match cache_get_labels c link with
                    | Some (l0 :: ls) => ret (l0 :: ls, seen)
                    | _ =>
                        if (Z.of_nat (List.length seen) >=? C_MAX_DNS_LABELS) then raise IncomingDecodeError
                        else
                          let seen' := seen ++ [link] in
                          x <- rec link [] seen' ;;
                          let '(_, linked, seen'') := x in
                          c' <- get_cache ;;
                          _ <- set_cache (d_set Z.eqb c' link linked) ;;
                          ret (linked, seen'')
                    end) ;;
              let '(linked, seen2) := r in
              let labels' := labels ++ linked in
              if Z.of_nat (List.length labels') >? C_MAX_DNS_LABELS then raise IncomingDecodeError
              else ret (off + C_DNS_COMPRESSION_POINTER_LEN, labels', seen2).
Proof. reflexivity. Qed.

Section Total.
  Variable data : bytes.
  Hypothesis Hnn : Forall (fun b => 0 <= b) data.

  Lemma byte_at_val i s :
    dpost caught (fun b => 0 <= i < dlen data /\ 0 <= b) (byte_at data i s).
  Proof.
    unfold byte_at. destruct (i <? 0) eqn:Ei; [reflexivity|].
    destruct (nth_error data (Z.to_nat i)) as [b|] eqn:En; [|reflexivity].
    simpl. split.
    - assert (Hlt : (Z.to_nat i < length data)%nat) by (apply nth_error_Some; congruence).
      unfold dlen. lia.
    - apply nth_error_In in En. rewrite Forall_forall in Hnn. apply Hnn. exact En.
  Qed.

  Lemma dl_loop_total rec seen :
    (length seen <= 128)%nat ->
    (forall link s, (length seen < 128)%nat -> dpost caught anyv (rec link [] (seen ++ [link]) s)) ->
    forall fuel off labels s,
      (1 <= fuel)%nat -> (0 <= off -> Z.of_nat fuel > dlen data - off) ->
      dpost caught anyv (dl_loop data rec fuel off labels seen s).
  Proof.
    intros Hseen Hrec. induction fuel as [|f IHf]; intros off labels s Hf1 Hmeas; [lia|].
    rewrite dl_loop_S.
    destruct (negb (off <? dlen data)) eqn:Eoff; [reflexivity|].
    apply (dpost_bind caught (fun b => 0 <= off < dlen data /\ 0 <= b)); [apply byte_at_val|].
    intros len s1 [Hoff Hlen].
    destruct (len =? 0) eqn:E0; [exact I|].
    destruct (len <? 64) eqn:E64.
    { cbv zeta. apply IHf; unfold C_DNS_COMPRESSION_HEADER_LEN; lia. }
    destruct (len <? 192) eqn:E192; [reflexivity|].
    apply (dpost_bind caught anyv).
    { eapply dpost_weaken; [apply byte_at_val|]. intros a _. exact I. }
    intros link_data s2 _. cbv zeta.
    set (link := Z.land len 63 * 256 + link_data).
    destruct (link >? dlen data) eqn:El1; [reflexivity|].
    destruct (link =? off) eqn:El2; [reflexivity|].
    destruct (existsb (Z.eqb link) seen) eqn:El3; [reflexivity|].
    rewrite mbind_get_cache.
    apply (dpost_bind caught anyv).
    - assert (Hmiss : dpost caught (@anyv (list text * list Z))
         ((if Z.of_nat (length seen) >=? C_MAX_DNS_LABELS
           then raise IncomingDecodeError
           else
            x <- rec link [] (seen ++ [link]);;
            (let '(_, linked, seen'') := x in
              c' <- get_cache;; _ <- set_cache (d_set Z.eqb c' link linked);; ret (linked, seen''))) s2)).
      { destruct (Z.of_nat (length seen) >=? C_MAX_DNS_LABELS) eqn:Eg; [reflexivity|].
        apply (dpost_bind caught anyv).
        - apply Hrec. unfold C_MAX_DNS_LABELS in Eg. lia.
        - intros [[o1 linked] seen''] s3 _. rewrite mbind_get_cache, mbind_set_cache. exact I. }
      destruct (cache_get_labels (d_cache s2) link) as [[|l0 ls]|] eqn:Ec.
      + exact Hmiss.
      + exact I.
      + exact Hmiss.
    - intros [linked seen2] s3 _. cbv zeta.
      destruct (Z.of_nat (length (labels ++ linked)) >? C_MAX_DNS_LABELS) eqn:Ell; [reflexivity|exact I].
  Qed.

  Lemma decode_labels_total : forall hops off labels seen s,
    (length seen <= 128)%nat -> (130 <= length seen + hops)%nat ->
    dpost caught anyv (decode_labels data hops off labels seen s).
  Proof.
    induction hops as [|h IHh]; intros off labels seen s Hseen Hhops; [lia|].
    rewrite decode_labels_S. apply dl_loop_total.
    - exact Hseen.
    - intros link s' Hlt. apply IHh; rewrite app_length; simpl; lia.
    - lia.
    - intros Hoff. unfold dlen. lia.
  Qed.

  Lemma bitmap_total : forall fuel endo acc s,
    (1 <= fuel)%nat -> (0 <= d_off s -> Z.of_nat fuel > dlen data - d_off s) ->
    dpost caught anyv (read_bitmap_loop data fuel endo acc s).
  Proof.
    induction fuel as [|f IHf]; intros endo acc s Hf1 Hmeas; [lia|].
    cbn [read_bitmap_loop]. rewrite mbind_get_off.
    destruct (negb (d_off s <? endo)) eqn:Ee; [exact I|].
    apply (dpost_bind caught (fun b => 0 <= d_off s < dlen data /\ 0 <= b)); [apply byte_at_val|].
    intros window s1 [Ho _].
    apply (dpost_bind caught (fun b => 0 <= d_off s + 1 < dlen data /\ 0 <= b)); [apply byte_at_val|].
    intros blen s2 [_ Hb].
    rewrite mbind_set_off. apply IHf; simpl; lia.
  Qed.
End Total.

(* ---------- the record layer, parametric in the exception post-condition ---------- *)

Section Layer.
  Variable data : bytes.
  Variable now : Z.
  Variable scope : option Z.
  Variable frames : nat.
  Variable Q : exn -> Prop.
  Hypothesis HQidx : Q IndexError.
  Hypothesis HQide : Q IncomingDecodeError.
  Hypothesis Hdec : forall off s, dpost Q anyv (decode_labels data frames off [] [] s).
  Hypothesis Hbm : forall endo acc s, dpost Q anyv (read_bitmap_loop data (S (length data)) endo acc s).

  Lemma byte_at_Q i s : dpost Q anyv (byte_at data i s).
  Proof.
    unfold byte_at. destruct (i <? 0); [exact HQidx|].
    destruct (nth_error data (Z.to_nat i)) as [b|]; [exact I|exact HQidx].
  Qed.

  Lemma short_at_Q i s : dpost Q anyv (short_at data i s).
  Proof.
    unfold short_at.
    apply (dpost_bind Q anyv); [apply byte_at_Q|]. intros hi s1 _.
    apply (dpost_bind Q anyv); [apply byte_at_Q|]. intros lo s2 _. exact I.
  Qed.

  Lemma read_name_Q s : dpost Q namelen (read_name data frames s).
  Proof.
    unfold read_name. rewrite mbind_get_off.
    apply (dpost_bind Q anyv); [apply Hdec|].
    intros [[off' labels] seen'] s1 _.
    rewrite mbind_set_off, mbind_get_cache, mbind_set_cache.
    destruct (Z.of_nat (length (join_labels labels ++ [46])) >? C_MAX_NAME_LENGTH) eqn:El; [exact HQide|].
    simpl. unfold namelen. unfold C_MAX_NAME_LENGTH in El. lia.
  Qed.

  Lemma read_string_Q n s : dpost Q anyv (read_string data n s).
  Proof. unfold read_string. rewrite mbind_get_off, mbind_set_off. exact I. Qed.

  Lemma read_character_string_Q s : dpost Q anyv (read_character_string data s).
  Proof.
    unfold read_character_string. rewrite mbind_get_off.
    apply (dpost_bind Q anyv); [apply byte_at_Q|]. intros n s1 _.
    rewrite mbind_set_off. exact I.
  Qed.

  Lemma namelen_nil : namelen [].
  Proof. unfold namelen. simpl. lia. Qed.

  Definition orecok (o : option pyrec) : Prop := match o with Some r => recok r | None => True end.

  Lemma read_record_Q domain ty cl ttl rdlen s :
    namelen domain -> dpost Q orecok (read_record data now scope frames domain ty cl ttl rdlen s).
  Proof.
    intros Hd. unfold read_record.
    destruct (ty =? C_TYPE_A).
    { apply (dpost_bind Q anyv); [apply read_string_Q|]. intros a s1 _.
      simpl. unfold recok, names_of. simpl. repeat constructor; try exact Hd; apply namelen_nil. }
    destruct ((ty =? C_TYPE_CNAME) || (ty =? C_TYPE_PTR)).
    { apply (dpost_bind Q namelen); [apply read_name_Q|]. intros n s1 Hn.
      simpl. unfold recok, names_of. simpl. repeat constructor; try exact Hd; try exact Hn; apply namelen_nil. }
    destruct (ty =? C_TYPE_TXT).
    { apply (dpost_bind Q anyv); [apply read_string_Q|]. intros a s1 _.
      simpl. unfold recok, names_of. simpl. repeat constructor; try exact Hd; apply namelen_nil. }
    destruct (ty =? C_TYPE_SRV).
    { rewrite mbind_get_off, mbind_set_off.
      apply (dpost_bind Q anyv); [apply short_at_Q|]. intros pr s1 _.
      apply (dpost_bind Q anyv); [apply short_at_Q|]. intros w s2 _.
      apply (dpost_bind Q anyv); [apply short_at_Q|]. intros po s3 _.
      apply (dpost_bind Q namelen); [apply read_name_Q|]. intros n s4 Hn.
      simpl. unfold recok, names_of. simpl. repeat constructor; try exact Hd; try exact Hn; apply namelen_nil. }
    destruct (ty =? C_TYPE_HINFO).
    { apply (dpost_bind Q anyv); [apply read_character_string_Q|]. intros cpu s1 _.
      apply (dpost_bind Q anyv); [apply read_character_string_Q|]. intros os s2 _.
      simpl. unfold recok, names_of. simpl. repeat constructor; try exact Hd; apply namelen_nil. }
    destruct (ty =? C_TYPE_AAAA).
    { apply (dpost_bind Q anyv); [apply read_string_Q|]. intros a s1 _.
      simpl. unfold recok, names_of. simpl. repeat constructor; try exact Hd; apply namelen_nil. }
    destruct (ty =? C_TYPE_NSEC).
    { rewrite mbind_get_off.
      apply (dpost_bind Q namelen); [apply read_name_Q|]. intros n s1 Hn.
      apply (dpost_bind Q anyv); [apply Hbm|]. intros bm s2 _.
      simpl. unfold recok, names_of. simpl. repeat constructor; try exact Hd; try exact Hn; apply namelen_nil. }
    rewrite mbind_get_off, mbind_set_off. exact I.
  Qed.

  Definition res_ok (r : list pyrec * option exn * dstate) : Prop :=
    Forall recok (fst (fst r)) /\ (forall e, snd (fst r) = Some e -> Q e).

  Lemma read_others_Q : forall n acc s,
    Forall recok acc -> res_ok (read_others data now scope frames n acc s).
  Proof.
    induction n as [|n IHn]; intros acc s Hacc.
    { simpl. split; [exact Hacc|]. simpl. intros e He. discriminate He. }
    cbn [read_others].
    match goal with |- res_ok (match ?X with DOk _ _ => _ | DErr _ _ => _ end) =>
      assert (Hhdr : dpost Q (fun t => namelen (fst (fst (fst (fst (fst t)))))) X) end.
    { apply (dpost_bind Q namelen); [apply read_name_Q|]. intros domain s1 Hdom.
      rewrite mbind_get_off, mbind_set_off.
      apply (dpost_bind Q anyv); [apply short_at_Q|]. intros ty s2 _.
      apply (dpost_bind Q anyv); [apply short_at_Q|]. intros cl s3 _.
      apply (dpost_bind Q anyv); [apply short_at_Q|]. intros t1 s4 _.
      apply (dpost_bind Q anyv); [apply short_at_Q|]. intros t2 s5 _.
      apply (dpost_bind Q anyv); [apply short_at_Q|]. intros len s6 _.
      simpl. exact Hdom. }
    match goal with |- res_ok (match ?X with DOk _ _ => _ | DErr _ _ => _ end) =>
      destruct X as [[[[[[domain ty] cl] ttl] len] endo] s1|e s1] end.
    2:{ split; simpl; [exact Hacc|]. intros e' He'. inversion He'; subst e'. exact Hhdr. }
    simpl in Hhdr.
    pose proof (read_record_Q domain ty cl ttl len s1 Hhdr) as Hrr.
    destruct (read_record data now scope frames domain ty cl ttl len s1) as [[r|] s2|e s2].
    - simpl in Hrr. apply IHn. apply Forall_app. split; [exact Hacc|]. constructor; [exact Hrr|constructor].
    - apply IHn. exact Hacc.
    - simpl in Hrr. destruct (catches e).
      + apply IHn. exact Hacc.
      + split; simpl; [exact Hacc|]. intros e' He'. inversion He'; subst e'. exact Hrr.
  Qed.

  Lemma read_questions_Q : forall n acc s,
    Forall recok acc -> res_ok (read_questions data now frames n acc s).
  Proof.
    induction n as [|n IHn]; intros acc s Hacc.
    { simpl. split; [exact Hacc|]. simpl. intros e He. discriminate He. }
    cbn [read_questions].
    match goal with |- res_ok (match ?X with DOk _ _ => _ | DErr _ _ => _ end) =>
      assert (Hq : dpost Q recok X) end.
    { apply (dpost_bind Q namelen); [apply read_name_Q|]. intros name s1 Hname.
      rewrite mbind_get_off, mbind_set_off.
      apply (dpost_bind Q anyv); [apply short_at_Q|]. intros ty s2 _.
      apply (dpost_bind Q anyv); [apply short_at_Q|]. intros cl s3 _.
      simpl. unfold recok, names_of. simpl. repeat constructor; try exact Hname; apply namelen_nil. }
    match goal with |- res_ok (match ?X with DOk _ _ => _ | DErr _ _ => _ end) =>
      destruct X as [q s1|e s1] end.
    - simpl in Hq. apply IHn. apply Forall_app. split; [exact Hacc|]. constructor; [exact Hq|constructor].
    - split; simpl; [exact Hacc|]. intros e' He'. inversion He'; subst e'. exact Hq.
  Qed.

  Lemma escapes_Some oe e : escapes oe = Some e -> oe = Some e /\ decode_catches e = false.
  Proof.
    unfold escapes, catches. destruct oe as [x|]; [|intros He; discriminate He].
    destruct (decode_catches x) eqn:Ex; intros He; [discriminate He|].
    inversion He; subst x. split; [reflexivity|exact Ex].
  Qed.

  Definition hdr : M (Z * Z * Z * Z * Z * Z) :=
    id <- short_at data 0 ;; fl <- short_at data 2 ;; nq <- short_at data 4 ;; na <- short_at data 6 ;;
    nau <- short_at data 8 ;; nad <- short_at data 10 ;; _ <- set_off 12 ;; ret (id, fl, nq, na, nau, nad).

  Lemma hdr_Q s : dpost Q anyv (hdr s).
  Proof.
    unfold hdr.
    apply (dpost_bind Q anyv); [apply short_at_Q|]. intros id s1 _.
    apply (dpost_bind Q anyv); [apply short_at_Q|]. intros fl s2 _.
    apply (dpost_bind Q anyv); [apply short_at_Q|]. intros nq s3 _.
    apply (dpost_bind Q anyv); [apply short_at_Q|]. intros na s4 _.
    apply (dpost_bind Q anyv); [apply short_at_Q|]. intros nau s5 _.
    apply (dpost_bind Q anyv); [apply short_at_Q|]. intros nad s6 _.
    rewrite mbind_set_off. exact I.
  Qed.

  Lemma parse_Q :
    Forall recok (m_questions (parse data now scope frames) ++ m_answers (parse data now scope frames))
    /\ (forall e, m_escaped (parse data now scope frames) = Some e -> Q e /\ decode_catches e = false).
  Proof.
    unfold parse. cbv zeta.
    pose proof (hdr_Q {| d_off := 0; d_cache := [] |}) as Hh. unfold hdr in Hh.
    match type of Hh with dpost _ _ ?X => destruct X as [[[[[[id fl] nq] na] nau] nad] s1|e0 s1] end.
    2:{ cbn [m_questions m_answers m_escaped app]. split; [constructor|]. intros e He. apply escapes_Some in He. destruct He as [He1 He2].
        inversion He1; subst e0. split; [exact Hh|exact He2]. }
    pose proof (read_questions_Q (Z.to_nat nq) [] s1 (Forall_nil _)) as Hrq.
    destruct (read_questions data now frames (Z.to_nat nq) [] s1) as [[qs qe] s2].
    destruct Hrq as [Hqs Hqe]. simpl in Hqs, Hqe.
    destruct (escapes qe) as [e1|] eqn:Eesc.
    { cbn [m_questions m_answers m_escaped app]. split; [rewrite app_nil_r; exact Hqs|].
      intros e He. inversion He; subst e1. apply escapes_Some in Eesc. destruct Eesc as [Eq Ec].
      split; [apply Hqe; exact Eq|exact Ec]. }
    pose proof (read_others_Q (Z.to_nat (na + nau + nad)) [] s2 (Forall_nil _)) as Hro.
    destruct (read_others data now scope frames (Z.to_nat (na + nau + nad)) [] s2) as [[ans ae] s3].
    destruct Hro as [Hans Hae]. simpl in Hans, Hae.
    cbn [m_questions m_answers m_escaped]. split; [apply Forall_app; split; assumption|].
    intros e He. apply escapes_Some in He. destruct He as [He1 He2].
    split; [apply Hae; exact He1|exact He2].
  Qed.
End Layer.

(* ---------- the theorems ---------- *)

(* parse_total with the extra hypothesis that the elements of [data] are non-negative
   (every Python bytes object satisfies 0 <= b < 256) *)
Theorem parse_total_partial : forall data now scope frames,
  Forall (fun b => 0 <= b) data -> (130 <= frames)%nat ->
  m_escaped (parse data now scope frames) = None.
Proof.
  intros data now scope frames Hnn Hfr.
  destruct (m_escaped (parse data now scope frames)) as [e|] eqn:Ee; [|reflexivity].
  exfalso.
  destruct (parse_Q data now scope frames caught caught_index caught_ide) as [_ Hesc].
  - intros off s. apply decode_labels_total; [exact Hnn|simpl; lia|simpl; lia].
  - intros endo acc s. apply bitmap_total; [exact Hnn|lia|]. intros Ho. unfold dlen. lia.
  - destruct (Hesc e Ee) as [Hc Hn]. unfold caught in Hc. congruence.
Qed.

Corollary parse_total_bytes : forall data now scope frames,
  Forall (fun b => 0 <= b < 256) data -> (130 <= frames)%nat ->
  m_escaped (parse data now scope frames) = None.
Proof.
  intros data now scope frames Hb Hfr. apply parse_total_partial; [|exact Hfr].
  eapply Forall_impl; [|exact Hb]. intros b Hb'. simpl in Hb'. lia.
Qed.

Theorem parse_names : forall data now scope frames,
  Forall (fun r => Forall (fun n => Z.of_nat (length n) <= 253) (names_of r))
         (m_questions (parse data now scope frames) ++ m_answers (parse data now scope frames)).
Proof.
  intros data now scope frames.
  destruct (parse_Q data now scope frames (fun _ => True) I I) as [Hrecs _].
  - intros off s. destruct (decode_labels data frames off [] [] s); exact I.
  - intros endo acc s. destruct (read_bitmap_loop data (S (length data)) endo acc s); exact I.
  - exact Hrecs.
Qed.

Print Assumptions parse_total_false.
Print Assumptions parse_total_partial.
Print Assumptions parse_total_bytes.
Print Assumptions parse_names.
