(* C15 (liveness helper 2): what the responder does with the single SRV question of a registered service. *)
From Coq Require Import ZArith List Bool Lia ZifyBool.
From ZC Require Import Model.Base Model.PyRec Model.Dict Model.Re Model.Cache Model.Respond Model.Route Model.WireEnc
  Model.OutQueue Model.Node Spec.Rfc1035 Gen.Const Gen.Extra Gen.DnsPure Spec.AnswerSpec.
From ZC Require Import Proofs.C20_identity Proofs.C03_reg Proofs.C03_sets Proofs.C03_respond Proofs.C11_lemmas Proofs.C11_route.
Import ListNotations.
Open Scope Z_scope.
Ltac Zify.zify_post_hook ::= Z.to_euclidean_division_equations.

Lemma registered_lookup g s : RegInv g -> In s (registered g) -> d_get text_eqb (g_services g) (s_key s) = Some s.
Proof.
  intros (ND & HK & _) Hin. unfold registered in Hin. apply in_map_iff in Hin as ([k s'] & E & Hin). cbn [snd] in E. subst s'.
  pose proof (HK k s Hin) as Ek. subst k. apply td_in_get; assumption.
Qed.

Lemma registered_nonempty g s : In s (registered g) -> nonempty (g_services g) = true.
Proof. unfold registered. destruct (g_services g); [intros []|reflexivity]. Qed.

(* the SRV question as the decoder hands it out *)
Definition srv_q (now : Z) (name : text) : pyrec := mk now KQuestion name C_TYPE_SRV C_CLASS_IN 0.

Lemma srv_strategies g s now name : lower name = s_key s ->
  d_get text_eqb (g_services g) (s_key s) = Some s -> get_strategies g (srv_q now name) = [SService s].
Proof.
  intros Hn Hg. unfold get_strategies. cbn [srv_q mk p_name p_type_]. rewrite Hn, Hg. reflexivity.
Qed.

Definition srv_qmsg (now : Z) (name : text) : qmsg :=
  {| qm_questions := [srv_q now name]; qm_answers := []; qm_is_probe := false; qm_now := now |}.

Definition srv_answer (s : svc) : answer_set := [(dns_service s, address_and_nsec s)].

Lemma gd_get_hd {V} (r : pyrec) (v : V) : d_get gen_eq [(r, v)] r = Some v.
Proof. unfold d_get. rewrite eq_refl_. reflexivity. Qed.

(* the classification: unicast iff the query came from another port than 5353; multicast at once unless the SRV record was
   seen on the wire less than a second ago, in which case it goes to the protected (delay) queue; never aggregated *)
Lemma srv_response g c s now name ucast :
  get_strategies g (srv_q now name) = [SService s] ->
  async_response g c [srv_qmsg now name] ucast =
  Some {| qa_ucast := if ucast then srv_answer s else [];
          qa_mcast_now := if last_second c now (dns_service s) then [] else srv_answer s;
          qa_mcast_aggregate := [];
          qa_mcast_last_second := if last_second c now (dns_service s) then srv_answer s else [] |}.
Proof.
  intro Hs. unfold async_response, srv_qmsg. cbn [flat_map qm_questions map app]. rewrite Hs.
  cbn [map app existsb qm_is_probe orb flat_map qm_answers last qm_now qm_questions fold_left].
  cbn [srv_q mk p_type_]. unfold answer_question.
  change (suppresses [] (dns_service s)) with false. cbv iota.
  change (DNSEntry_unique (mk now KQuestion name C_TYPE_SRV C_CLASS_IN 0)) with false. rewrite andb_false_r. cbv iota.
  unfold as_set. cbn [d_set].
  unfold last_second.
  destruct ucast; unfold add_ucast, add_mcast; cbn [fold_left fst snd q_additionals q_ucast q_mcast_now q_mcast_aggregate q_mcast_last_second];
    unfold as_set; cbn [d_set sadd existsb]; cbn [p_type_];
    change (respond_immediate C_TYPE_SRV) with true; change (respond_immediate (p_type_ (srv_q now name))) with true;
    destruct (has_mcast_record_in_last_second c now (dns_service s));
    cbn [q_additionals q_ucast q_mcast_now q_mcast_aggregate q_mcast_last_second sadd existsb app];
    unfold with_additionals; cbn [map d_get q_additionals q_ucast q_mcast_now q_mcast_aggregate q_mcast_last_second];
    rewrite ?eq_refl_; rewrite ?gd_get_hd; reflexivity.
Qed.

(* what handle_assembled_query does with it *)
Definition srv_unicast (s : svc) (now : Z) (name : text) (id : Z) : out_msg :=
  construct_unicast (srv_answer s) true [srv_q now name] id.
Definition srv_multicast (s : svc) : out_msg := construct_multicast (srv_answer s).

Lemma srv_actions g c s now name id addr port :
  get_strategies g (srv_q now name) = [SService s] ->
  handle_assembled_query g c [srv_qmsg now name] id addr port =
  (if negb (port =? C_MDNS_PORT) then [AUnicast addr port (srv_unicast s now name id)] else [])
  ++ (if last_second c now (dns_service s) then [ADelayQueue now (srv_answer s)] else [AMulticast (srv_multicast s)]).
Proof.
  intro Hs. unfold handle_assembled_query. cbv zeta. rewrite (srv_response g c s now name _ Hs).
  cbn [qa_ucast qa_mcast_now qa_mcast_aggregate qa_mcast_last_second srv_qmsg qm_questions qm_now].
  unfold srv_unicast, srv_multicast, srv_answer.
  destruct (negb (port =? C_MDNS_PORT)), (last_second c now (dns_service s)); reflexivity.
Qed.

(* ... and the node: the unicast reply (legacy source port only) and either the multicast reply at once, or the record
   in the protected queue *)
Lemma srv_nstep n s now name id addr port rq rd :
  get_strategies (n_reg n) (srv_q now name) = [SService s] -> n_done n = false ->
  nstep n (LQuery now [srv_qmsg now name] id addr port rq rd) =
  let u := if negb (port =? C_MDNS_PORT) then [OSend now (Some (addr, port)) (srv_unicast s now name id)] else [] in
  if last_second (n_cache n) now (dns_service s)
  then (let '(tbl, a') := intern_set (n_tbl n) (srv_answer s) in
        set_queues n tbl (n_q n) (async_add (n_qd n) now now rd a'), u)
  else (n, u ++ [OSend now None (srv_multicast s)]).
Proof.
  intros Hs Hd. cbn [nstep]. rewrite (srv_actions _ _ s now name id addr port Hs). unfold gate. rewrite Hd. cbv zeta.
  destruct (negb (port =? C_MDNS_PORT)), (last_second (n_cache n) now (dns_service s)); cbn [app fold_left];
    try reflexivity; destruct (intern_set (n_tbl n) (srv_answer s)) as [tbl a']; reflexivity.
Qed.

Print Assumptions srv_nstep.
