(* C15 (helper): when the encoder (Model/WireEnc.v, DNSOutgoing.packets) raises.
   [encodable_name], [rec_encodable], [msg_encodable] / [msg_soft] and the two containment facts
   packets_encodable : msg_encodable m -> packets m is Ok
   packets_soft      : msg_soft m      -> packets m is Ok or Raise NamePartTooLong *)
From Coq Require Import ZArith List Bool Lia ZifyBool.
From ZC Require Import Model.Base Model.PyRec Model.Dict Model.Re Model.Utf8 Model.Names Model.WireEnc
  Gen.Const Gen.DnsPure Gen.Shapes.
From ZC Require Import Proofs.C01_utf8 Proofs.C01_defs Proofs.C14_sizes.
Import ListNotations.
Open Scope Z_scope.
Ltac Zify.zify_post_hook ::= Z.to_euclidean_division_equations.

(* ------------------------------------------------------------------------------------------ *)
(* 0. vocabulary                                                                                *)

(* no lone surrogate: the text has a UTF-8 encoding *)
Definition nsur (s : text) : Prop := Forall (fun c => is_surrogate c = false) s.

(* what every name on the wire path satisfies (decoder output, C02_names): encodable as UTF-8, at most 253 characters *)
Definition name_soft (n : text) : Prop := nsur n /\ len n <= 253.

(* ... and every label has at most 63 UTF-8 bytes *)
Definition encodable_name (n : text) : Prop :=
  name_soft n /\ Forall (fun l => ulen l <= 63) (split_dot (strip_dot n)).

Definition u16 (v : Z) : Prop := 0 <= v <= 65535.
Definition u32 (v : Z) : Prop := 0 <= v <= 4294967295.

(* a record the encoder writes without raising (as an answer stored with now = 0, an authority or an additional) *)
Definition rec_encodable (r : pyrec) : Prop :=
  encodable_name (p_name r) /\ u16 (p_type_ r) /\ u32 (p_ttl r) /\
  match p_kind r with
  | KAddress => len (p_address r) <= 65535
  | KPointer => encodable_name (p_alias r)
  | KText => len (p_text r) <= 65535
  | KService => u16 (p_priority r) /\ u16 (p_weight r) /\ u16 (p_port r) /\ encodable_name (p_server r)
  | KNsec => encodable_name (p_next_name r) /\ p_rdtypes r <> [] /\ Forall (fun t => 0 <= t <= 255) (p_rdtypes r)
  | KHinfo | KQuestion => False
  end.

Definition ans_encodable (rn : pyrec * Z) : Prop := rec_encodable (fst rn) /\ u32 (ttl_field (fst rn) (snd rn)).

(* a question as it comes off the wire: the label limit is NOT guaranteed (U+FFFD replacement triples the bytes) *)
Definition q_soft (q : pyrec) : Prop := name_soft (p_name q) /\ u16 (p_type_ q).
Definition q_encodable (q : pyrec) : Prop := encodable_name (p_name q) /\ u16 (p_type_ q).

Definition hdr_ok (m : out_msg) : Prop := u16 (o_flags m) /\ u16 (o_id m).

Definition msg_soft (m : out_msg) : Prop :=
  hdr_ok m /\ Forall q_soft (o_questions m) /\ Forall ans_encodable (o_answers m) /\
  Forall rec_encodable (o_authorities m) /\ Forall rec_encodable (o_additionals m).

Definition msg_encodable (m : out_msg) : Prop :=
  hdr_ok m /\ Forall q_encodable (o_questions m) /\ Forall ans_encodable (o_answers m) /\
  Forall rec_encodable (o_authorities m) /\ Forall rec_encodable (o_additionals m).

(* Hoare-style post-condition on a [result] *)
Definition spec {A} (P : exn -> Prop) (Q : A -> Prop) (r : result A) : Prop :=
  match r with Ok a => Q a | Raise e => P e end.

Lemma spec_bind {A B} (P : exn -> Prop) (Q1 : A -> Prop) (Q2 : B -> Prop) (r : result A) (f : A -> result B) :
  spec P Q1 r -> (forall a, Q1 a -> spec P Q2 (f a)) -> spec P Q2 (bind r f).
Proof. destruct r as [a|e]; cbn [spec bind]; auto. Qed.

Lemma spec_weaken {A} (P : exn -> Prop) (Q1 Q2 : A -> Prop) (r : result A) :
  spec P Q1 r -> (forall a, Q1 a -> Q2 a) -> spec P Q2 r.
Proof. destruct r as [a|e]; cbn [spec]; auto. Qed.

(* ------------------------------------------------------------------------------------------ *)
(* 1. UTF-8 facts on surrogate-free texts                                                       *)

Lemma nsur_enc_ok s : nsur s -> enc_ok s.
Proof.
  intro H. assert (G : exists b, utf8_encode s = Ok b).
  { induction H as [|c s Hc Hs IH]; [exists []; reflexivity|].
    destruct IH as [b Hb]. cbn [utf8_encode]. rewrite Hc, Hb. eexists; reflexivity. }
  destruct G as [b Hb]. apply (enc_ok_intro s b Hb).
Qed.

Lemma nsur_app a b : nsur (a ++ b) <-> nsur a /\ nsur b.
Proof. unfold nsur. apply Forall_app. Qed.

Lemma nsur_dot : is_surrogate 46 = false.
Proof. reflexivity. Qed.

Lemma ulen_nil : ulen [] = 0.
Proof. reflexivity. Qed.

Lemma ulen_nonneg s : 0 <= ulen s.
Proof. unfold ulen, len. lia. Qed.

Lemma ulen_app a b : nsur a -> nsur b -> ulen (a ++ b) = ulen a + ulen b.
Proof.
  intros Ha Hb. destruct (enc_ok_app a b (nsur_enc_ok a Ha) (nsur_enc_ok b Hb)) as [_ E].
  unfold ulen, len. rewrite E, app_length. lia.
Qed.

Lemma ulen_dot_cons s : nsur s -> ulen (46 :: s) = 1 + ulen s.
Proof.
  intro H. destruct (enc_ok_dot_cons s (nsur_enc_ok s H)) as [_ E].
  unfold ulen, len. rewrite E. cbn [length]. lia.
Qed.

Lemma ulen_cons c s : is_surrogate c = false -> nsur s -> ulen (c :: s) = len (utf8_cp c) + ulen s.
Proof.
  intros Hc Hs. pose proof (nsur_enc_ok s Hs) as Es. unfold enc_ok in Es.
  unfold ulen, u8. cbn [utf8_encode]. rewrite Hc, Es. fold (u8 s). unfold len. rewrite app_length. lia.
Qed.

Lemma ulen_le s : nsur s -> ulen s <= 4 * len s.
Proof.
  intro H. induction H as [|c s Hc Hs IH]; [unfold ulen, len; cbn; lia|].
  rewrite ulen_cons by assumption. pose proof (utf8_cp_length c) as Hl. unfold len in *. cbn [length]. lia.
Qed.

Lemma utf8_len_nsur s : nsur s -> utf8_len s = Ok (ulen s).
Proof. intro H. unfold utf8_len. pose proof (nsur_enc_ok s H) as E. unfold enc_ok in E. rewrite E. reflexivity. Qed.

(* ---- split / join on surrogate-free texts ---- *)
Lemma join_split s : join_dot (split_dot s) = s.
Proof.
  induction s as [|c s IH]; [reflexivity|].
  cbn [split_dot]. destruct (Z.eqb_spec c DOT) as [Hc|Hc].
  - subst c. rewrite join_dot_cons by apply split_dot_nonnil. rewrite IH. reflexivity.
  - destruct (split_dot s) as [|h t] eqn:E; [exfalso; exact (split_dot_nonnil s E)|].
    rewrite <- IH. destruct t as [|y t]; reflexivity.
Qed.

Lemma nsur_split s : nsur s -> Forall nsur (split_dot s).
Proof.
  intro H. induction H as [|c s Hc Hs IH]; [repeat constructor|].
  cbn [split_dot]. destruct (c =? DOT).
  - constructor; [constructor|exact IH].
  - destruct (split_dot s) as [|h t]; [repeat constructor; exact Hc|].
    inversion IH as [|h' t' Hh Ht]; subst h' t'.
    constructor; [constructor; assumption|exact Ht].
Qed.

Lemma nsur_join ls : Forall nsur ls -> nsur (join_dot ls).
Proof.
  induction ls as [|l ls IH]; intro H; [constructor|].
  inversion H as [|l' ls' Hl Hls]; subst l' ls'.
  destruct ls as [|y r]; [exact Hl|].
  rewrite join_dot_cons by discriminate. apply nsur_app. split; [exact Hl|].
  constructor; [exact nsur_dot|apply IH; exact Hls].
Qed.

Lemma join_ulen_ns l r : r <> [] -> nsur l -> Forall nsur r ->
  ulen (join_dot (l :: r)) = ulen l + 1 + ulen (join_dot r).
Proof.
  intros Hne Hl Hr. rewrite join_dot_cons by exact Hne.
  pose proof (nsur_join r Hr) as Hj.
  rewrite ulen_app; [|exact Hl|constructor; [exact nsur_dot|exact Hj]].
  unfold DOT. rewrite ulen_dot_cons by exact Hj. lia.
Qed.

Lemma nsur_strip n : nsur n -> nsur (strip_dot n) /\ len (strip_dot n) <= len n.
Proof.
  intro H. unfold strip_dot. destruct (rev n) as [|c r] eqn:E; [split; [exact H|lia]|].
  assert (En : n = rev r ++ [c]).
  { rewrite <- (rev_involutive n), E. reflexivity. }
  destruct (Z.eq_dec c 46) as [->|Hc].
  - split.
    + rewrite En in H. apply nsur_app in H. apply H.
    + rewrite En. unfold len. rewrite app_length. cbn [length]. lia.
  - assert (Hm : match c with 46 => rev r | _ => n end = n).
    { destruct c as [|p|p]; try reflexivity.
      repeat (destruct p as [p|p|]; try reflexivity). exfalso. apply Hc. reflexivity. }
    rewrite Hm. split; [exact H|lia].
Qed.

(* the bytes a run of labels costs: one length byte each *)
Fixpoint lab_cost (ls : list text) : Z :=
  match ls with [] => 0 | l :: r => 1 + ulen l + lab_cost r end.

Lemma lab_cost_join ls : Forall nsur ls -> lab_cost ls <= ulen (join_dot ls) + 1.
Proof.
  induction ls as [|l ls IH]; intro H; [cbn [lab_cost join_dot]; rewrite ulen_nil; lia|].
  inversion H as [|l' ls' Hl Hls]; subst l' ls'. cbn [lab_cost].
  destruct ls as [|y r].
  - cbn [lab_cost join_dot]. lia.
  - rewrite join_ulen_ns by (try discriminate; assumption). specialize (IH Hls). lia.
Qed.

(* ------------------------------------------------------------------------------------------ *)
(* 2. primitives                                                                                *)

Definition NR (st : enc) : Prop := forall n i, In (n, i) (e_names st) -> 0 < i < 16384.

(* [st'] = [st] plus [k] bytes, dictionary untouched *)
Definition plus (k : Z) (st st' : enc) : Prop :=
  e_names st' = e_names st /\ e_size st' = e_size st + k /\ e_allow_long st' = e_allow_long st.

Lemma put_plus st bs : plus (len bs) st (put st bs).
Proof. unfold plus, put, len; cbn [e_names e_size e_allow_long]. repeat split. Qed.

Lemma plus_trans a b c j k : plus j a b -> plus k b c -> plus (j + k) a c.
Proof. unfold plus. intros (A1 & A2 & A3) (B1 & B2 & B3). repeat split; [congruence|lia|congruence]. Qed.

Lemma write_byte_ok st v : 0 <= v <= 255 -> write_byte st v = Ok (put st [v]).
Proof. intro H. unfold write_byte. destruct ((v <? 0) || (255 <? v)) eqn:E; [lia|reflexivity]. Qed.

Lemma write_short_ok st v : u16 v -> write_short st v = Ok (put st [v / 256; v mod 256]).
Proof. unfold u16. intro H. unfold write_short. destruct ((v <? 0) || (65535 <? v)) eqn:E; [lia|reflexivity]. Qed.

Lemma write_int_ok st v : u32 v ->
  write_int st v = Ok (put st [v / 16777216; (v / 65536) mod 256; (v / 256) mod 256; v mod 256]).
Proof. unfold u32. intro H. unfold write_int. destruct ((v <? 0) || (4294967295 <? v)) eqn:E; [lia|reflexivity]. Qed.

Lemma write_byte_spec P st v : 0 <= v <= 255 -> spec P (plus 1 st) (write_byte st v).
Proof. intro H. rewrite write_byte_ok by exact H. cbn [spec]. apply (put_plus st [v]). Qed.

Lemma write_short_spec P st v : u16 v -> spec P (plus 2 st) (write_short st v).
Proof. intro H. rewrite write_short_ok by exact H. cbn [spec]. apply (put_plus st [_; _]). Qed.

Lemma write_int_spec P st v : u32 v -> spec P (plus 4 st) (write_int st v).
Proof. intro H. rewrite write_int_ok by exact H. cbn [spec]. apply (put_plus st [_; _; _; _]). Qed.

Lemma write_string_plus st b : plus (len b) st (write_string st b).
Proof. apply put_plus. Qed.

Lemma rejects_eq n : write_utf_rejects n = (63 <? n).
Proof. unfold write_utf_rejects, cmp_apply, write_utf_reject_op, write_utf_reject_bound. lia. Qed.

(* a label: the only possible failure is the 63-byte limit *)
Lemma write_utf_spec (P : exn -> Prop) st l :
  nsur l -> (P NamePartTooLong \/ ulen l <= 63) ->
  spec P (plus (1 + ulen l) st) (write_utf st l).
Proof.
  intros Hl Hs. unfold write_utf.
  pose proof (nsur_enc_ok l Hl) as E. unfold enc_ok in E. rewrite E. cbn [bind].
  fold (len (u8 l)). fold (ulen l).
  rewrite rejects_eq. destruct (63 <? ulen l) eqn:E63.
  - cbn [spec]. destruct Hs as [Hs|Hs]; [exact Hs|lia].
  - pose proof (ulen_nonneg l) as Hn. rewrite write_byte_ok by lia. cbn [bind spec].
    apply (plus_trans st (put st [ulen l]) _ 1 (ulen l)); [apply (put_plus st [ulen l])|apply write_string_plus].
Qed.

(* ------------------------------------------------------------------------------------------ *)
(* 3. names                                                                                     *)

Definition LabShort (P : exn -> Prop) (ls : list text) : Prop :=
  P NamePartTooLong \/ Forall (fun l => ulen l <= 63) ls.

Lemma LabShort_cons P l r : LabShort P (l :: r) -> (P NamePartTooLong \/ ulen l <= 63) /\ LabShort P r.
Proof.
  intros [H|H]; [split; left; exact H|].
  inversion H as [|l' r' Hl Hr]; subst l' r'. split; right; assumption.
Qed.

(* what writing a name does to the state: dictionary positions stay below 2^14, at most B bytes more *)
Definition named (B : Z) (st st' : enc) : Prop :=
  NR st' /\ e_size st <= e_size st' <= e_size st + B /\ e_allow_long st' = e_allow_long st.

Lemma plus_named k B st st' : NR st -> 0 <= k <= B -> plus k st st' -> named B st st'.
Proof.
  intros Hnr Hk (H1 & H2 & H3). unfold named. split; [|split; [lia|exact H3]].
  unfold NR. rewrite H1. exact Hnr.
Qed.

Lemma lab_cost_nonneg ls : 0 <= lab_cost ls.
Proof. induction ls as [|l r IH]; cbn [lab_cost]; [lia|]. pose proof (ulen_nonneg l). lia. Qed.

Lemma write_link_spec P st i : 0 < i < 16384 -> spec P (plus 2 st) (write_link st i).
Proof.
  intro H. unfold write_link. destruct (link_bytes i) as (A & B & _); [lia|]. cbv zeta in A, B.
  rewrite write_byte_ok by lia. cbn [bind]. rewrite write_byte_ok by lia. cbn [spec].
  apply (plus_trans st (put st [Z.lor (Z.shiftr i 8) 192]) _ 1 1); apply (put_plus _ [_]).
Qed.

Lemma NR_names_set st n i : NR st -> 0 < i < 16384 -> NR (names_set st n i).
Proof.
  intros Hnr Hi m j Hin. unfold names_set in Hin; cbn [e_names] in Hin.
  apply d_set_In in Hin as [Hin|[_ ->]]; [exact (Hnr m j Hin)|exact Hi].
Qed.

Lemma names_set_fields st n i :
  e_size (names_set st n i) = e_size st /\ e_allow_long (names_set st n i) = e_allow_long st.
Proof. split; reflexivity. Qed.

Lemma lookup_range st n : NR st -> (names_get st n =? 0) = false -> 0 < names_get st n < 16384.
Proof.
  intros Hnr E. apply (Hnr n). apply names_get_nonzero; [reflexivity|lia].
Qed.

Lemma write_name_rest_spec P labels : forall st start nlen,
  Forall nsur labels -> LabShort P labels -> NR st ->
  0 < start -> start + nlen < 16384 -> ulen (join_dot labels) <= nlen ->
  spec P (named (lab_cost labels + 2) st) (write_name_rest st start nlen labels).
Proof.
  induction labels as [|l rest IH]; intros st start nlen Hns Hsh Hnr Hst Hlim Hpl; cbn [write_name_rest].
  - eapply spec_weaken; [apply (write_byte_spec P st 0); lia|].
    intros st' Hp. eapply plus_named; [exact Hnr| |exact Hp]. cbn [lab_cost]. lia.
  - pose proof (lab_cost_nonneg (l :: rest)) as Hc0.
    destruct (names_get st (join_dot (l :: rest)) =? 0) eqn:Ei; cbn [negb].
    + rewrite utf8_len_nsur by (apply nsur_join; exact Hns). cbn [bind].
      inversion Hns as [|l' r' Hl Hr]; subst l' r'.
      apply LabShort_cons in Hsh as [Hsl Hsr].
      pose proof (ulen_nonneg (join_dot (l :: rest))) as Hp0.
      set (st1 := names_set st (join_dot (l :: rest)) (start + nlen - ulen (join_dot (l :: rest)))).
      assert (Hnr1 : NR st1) by (apply NR_names_set; [exact Hnr|lia]).
      apply (spec_bind P (plus (1 + ulen l) st1)); [apply write_utf_spec; assumption|].
      intros st2 (A1 & A2 & A3).
      assert (Hnr2 : NR st2) by (unfold NR; rewrite A1; exact Hnr1).
      assert (Hpl' : ulen (join_dot rest) <= nlen).
      { destruct rest as [|y r]; [cbn [join_dot]; rewrite ulen_nil; lia|].
        rewrite join_ulen_ns in Hpl by (try discriminate; assumption).
        pose proof (ulen_nonneg l). lia. }
      eapply spec_weaken; [apply (IH st2 start nlen Hr Hsr Hnr2 Hst Hlim Hpl')|].
      intros st' (B1 & B2 & B3). unfold named. split; [exact B1|].
      unfold st1 in A2, A3. cbn [names_set e_size e_allow_long] in A2, A3.
      cbn [lab_cost]. split; [|congruence].
      pose proof (ulen_nonneg l). lia.
    + eapply spec_weaken; [apply write_link_spec; apply lookup_range; assumption|].
      intros st' Hp. eapply plus_named; [exact Hnr| |exact Hp]. lia.
Qed.

Lemma write_name_spec P st n :
  name_soft n -> LabShort P (split_dot (strip_dot n)) -> NR st -> 0 < e_size st <= 12000 ->
  spec P (named 1016 st) (write_name st n).
Proof.
  intros [Hns Hlen] Hsh Hnr Hsz. unfold write_name.
  destruct (nsur_strip n Hns) as [Hns' Hlen'].
  set (name := strip_dot n) in *.
  destruct (names_get st name =? 0) eqn:Ei; cbn [negb].
  2:{ eapply spec_weaken; [apply write_link_spec; apply lookup_range; assumption|].
      intros st' Hp. eapply plus_named; [exact Hnr| |exact Hp]. lia. }
  pose proof (nsur_split name Hns') as Hls.
  pose proof (join_split name) as Hjs.
  pose proof (ulen_le name Hns') as Hul.
  destruct (split_dot name) as [|l0 rest] eqn:Esp; [exfalso; exact (split_dot_nonnil name Esp)|].
  inversion Hls as [|l' r' Hl Hr]; subst l' r'.
  apply LabShort_cons in Hsh as [Hsl Hsr].
  set (st1 := names_set st name (e_size st)).
  assert (Hnr1 : NR st1) by (apply NR_names_set; [exact Hnr|lia]).
  apply (spec_bind P (plus (1 + ulen l0) st1)); [apply write_utf_spec; assumption|].
  intros st2 (A1 & A2 & A3).
  assert (Hnr2 : NR st2) by (unfold NR; rewrite A1; exact Hnr1).
  unfold st1 in A2, A3. cbn [names_set e_size e_allow_long] in A2, A3.
  pose proof (ulen_nonneg l0) as Hl0.
  pose proof (lab_cost_join (l0 :: rest) Hls) as Hcost. rewrite Hjs in Hcost. cbn [lab_cost] in Hcost.
  pose proof (lab_cost_nonneg rest) as Hcr.
  destruct rest as [|l1 rest].
  - eapply spec_weaken; [apply (write_byte_spec P st2 0); lia|].
    intros st' (B1 & B2 & B3). unfold named. split; [unfold NR; rewrite B1; exact Hnr2|].
    cbn [join_dot] in Hjs. subst l0. split; [lia|congruence].
  - rewrite utf8_len_nsur by exact Hns'. cbn [bind].
    assert (Hpl : ulen (join_dot (l1 :: rest)) <= ulen name).
    { rewrite <- Hjs. rewrite (join_ulen_ns l0 (l1 :: rest)) by (try discriminate; assumption). lia. }
    eapply spec_weaken; [apply (write_name_rest_spec P (l1 :: rest) st2 (e_size st) (ulen name) Hr Hsr Hnr2); lia|].
    intros st' (B1 & B2 & B3). unfold named. split; [exact B1|]. split; [lia|congruence].
Qed.

(* ------------------------------------------------------------------------------------------ *)
(* 4. bit arithmetic                                                                            *)

Lemma lor_u16 a b : 0 <= a < 65536 -> 0 <= b < 65536 -> 0 <= Z.lor a b < 65536.
Proof.
  intros Ha Hb. assert (Hnn : 0 <= Z.lor a b) by (apply Z.lor_nonneg; lia).
  split; [exact Hnn|].
  destruct (Z.eq_dec (Z.lor a b) 0) as [E|E]; [lia|].
  change 65536 with (2 ^ 16). apply Z.log2_lt_pow2; [lia|].
  rewrite Z.log2_lor by lia.
  destruct (Z.eq_dec a 0) as [->|Ha0]; destruct (Z.eq_dec b 0) as [->|Hb0]; cbn [Z.log2 Z.max]; try lia.
  - rewrite Z.max_r by apply Z.log2_nonneg. apply Z.log2_lt_pow2; lia.
  - rewrite Z.max_l by apply Z.log2_nonneg. apply Z.log2_lt_pow2; lia.
  - apply Z.max_lub_lt; apply Z.log2_lt_pow2; lia.
Qed.

Lemma class_range r : 0 <= DNSEntry_class_ r <= 32767.
Proof.
  unfold DNSEntry_class_, C_CLASS_MASK. change (Z.land (p_class_ r) 32767) with (Z.land (p_class_ r) (Z.ones 15)).
  rewrite Z.land_ones by lia. change (2 ^ 15) with 32768. lia.
Qed.

(* ------------------------------------------------------------------------------------------ *)
(* 5. NSEC bitmaps                                                                              *)

Lemma nsec_bitmap_ok types : forall bm tot, Forall (fun t => 0 <= t <= 255) types -> 0 <= tot <= 32 ->
  exists bm' tot', nsec_bitmap types bm tot = Ok (bm', tot') /\ 0 <= tot' <= 32 /\ (types <> [] -> 1 <= tot').
Proof.
  induction types as [|t rest IH]; intros bm tot Hall Htot; cbn [nsec_bitmap].
  - exists bm, tot. split; [reflexivity|]. split; [exact Htot|]. intro H; contradiction.
  - inversion Hall as [|t' r' Ht Hr]; subst t' r'.
    destruct (255 <? t) eqn:E1; [lia|]. destruct (t <? 0) eqn:E2; [lia|]. cbv zeta.
    match goal with |- exists _ _, nsec_bitmap rest ?b (t / 8 + 1) = _ /\ _ =>
      destruct (IH b (t / 8 + 1) Hr) as (bm' & tot' & A & B & C); [lia|] end.
    exists bm', tot'. split; [exact A|]. split; [exact B|]. intros _.
    destruct rest as [|t2 rest2]; [|apply C; discriminate].
    cbn [nsec_bitmap] in A. inversion A; subst. lia.
Qed.

Lemma insert_sorted_Forall (P : Z -> Prop) x l : P x -> Forall P l -> Forall P (insert_sorted x l).
Proof.
  intros Hx Hl. induction Hl as [|y l Hy Hl IH]; cbn [insert_sorted]; [repeat constructor; exact Hx|].
  destruct (x <=? y); repeat constructor; assumption.
Qed.

Lemma insert_sorted_ne x l : insert_sorted x l <> [].
Proof. destruct l as [|y l]; cbn [insert_sorted]; [discriminate|]. destruct (x <=? y); discriminate. Qed.

Lemma sorted_Forall (P : Z -> Prop) l : Forall P l -> Forall P (sorted l).
Proof.
  intro H. induction H as [|x l Hx Hl IH]; [constructor|].
  unfold sorted in *. cbn [fold_right]. apply insert_sorted_Forall; assumption.
Qed.

Lemma sorted_ne l : l <> [] -> sorted l <> [].
Proof. destruct l as [|x l]; [intro H; contradiction|]. intros _. unfold sorted. cbn [fold_right]. apply insert_sorted_ne. Qed.

(* ------------------------------------------------------------------------------------------ *)
(* 6. one record                                                                                *)

Definition NoExn : exn -> Prop := fun _ => False.

Lemma plus_NR k a b : plus k a b -> NR a -> NR b.
Proof. intros (H1 & _) H. unfold NR. rewrite H1. exact H. Qed.

Lemma named_plus B k a b c : named B a b -> plus k b c -> 0 <= k -> named (B + k) a c.
Proof.
  intros (A1 & A2 & A3) Hp Hk. pose proof (plus_NR _ _ _ Hp A1) as Hn. destruct Hp as (_ & B2 & B3).
  unfold named. split; [exact Hn|]. split; [lia|congruence].
Qed.

Lemma plus_then_named B k a b c : plus k a b -> named B b c -> 0 <= k -> named (k + B) a c.
Proof.
  intros (_ & A2 & A3) (B1 & B2 & B3) Hk. unfold named. split; [exact B1|]. split; [lia|congruence].
Qed.

Lemma encodable_labshort P n : encodable_name n -> LabShort P (split_dot (strip_dot n)).
Proof. intros [_ H]. right. exact H. Qed.

Lemma write_rdata_spec st r : rec_encodable r -> NR st -> 0 < e_size st <= 10000 ->
  spec NoExn (named 65535 st) (write_rdata st r).
Proof.
  intros (_ & _ & _ & Hk) Hnr Hsz. unfold write_rdata. destruct (p_kind r).
  - contradiction.
  - cbn [spec]. eapply plus_named; [exact Hnr| |apply write_string_plus]. unfold len in *. lia.
  - contradiction.
  - eapply spec_weaken; [apply (write_name_spec NoExn st (p_alias r)); [apply Hk|apply encodable_labshort; exact Hk|exact Hnr|lia]|].
    intros st' (A1 & A2 & A3). unfold named. split; [exact A1|]. split; [lia|exact A3].
  - cbn [spec]. eapply plus_named; [exact Hnr| |apply write_string_plus]. unfold len in *. lia.
  - destruct Hk as (Hp & Hw & Hpo & Hsrv).
    apply (spec_bind NoExn (plus 2 st)); [apply write_short_spec; exact Hp|]. intros s1 P1.
    apply (spec_bind NoExn (plus 2 s1)); [apply write_short_spec; exact Hw|]. intros s2 P2.
    apply (spec_bind NoExn (plus 2 s2)); [apply write_short_spec; exact Hpo|]. intros s3 P3.
    pose proof (plus_trans _ _ _ _ _ (plus_trans _ _ _ _ _ P1 P2) P3) as P13.
    pose proof (plus_NR _ _ _ P13 Hnr) as Hnr3. assert (Hs3 : e_size s3 = e_size st + 6) by (destruct P13 as (_ & E & _); lia).
    eapply spec_weaken; [apply (write_name_spec NoExn s3 (p_server r)); [apply Hsrv|apply encodable_labshort; exact Hsrv|exact Hnr3|lia]|].
    intros st' Hn. pose proof (plus_then_named _ _ _ _ _ P13 Hn) as (A1 & A2 & A3); [lia|].
    unfold named. split; [exact A1|]. split; [lia|exact A3].
  - destruct Hk as (Hnx & Hne & Hty).
    destruct (nsec_bitmap_ok (sorted (p_rdtypes r)) (repeat 0 32) 0) as (bm & tot & E & Ht & Ht1);
      [apply sorted_Forall; exact Hty|lia|].
    rewrite E. cbn [bind]. specialize (Ht1 (sorted_ne _ Hne)).
    destruct (tot =? 0) eqn:E0; [lia|].
    apply (spec_bind NoExn (named 1016 st));
      [apply (write_name_spec NoExn st (p_next_name r)); [apply Hnx|apply encodable_labshort; exact Hnx|exact Hnr|lia]|].
    intros s1 N1.
    apply (spec_bind NoExn (plus 1 s1)); [apply write_byte_spec; lia|]. intros s2 P2.
    assert (Hfl : 0 <= len (firstn (Z.to_nat tot) bm) <= 32).
    { unfold len. pose proof (firstn_le_length (Z.to_nat tot) bm). lia. }
    apply (spec_bind NoExn (plus 1 s2)); [apply write_byte_spec; unfold len in Hfl; lia|]. intros s3 P3.
    cbn [spec].
    pose proof (write_string_plus s3 (firstn (Z.to_nat tot) bm)) as P4.
    pose proof (plus_trans _ _ _ _ _ (plus_trans _ _ _ _ _ P2 P3) P4) as P24.
    pose proof (named_plus _ _ _ _ _ N1 P24) as (A1 & A2 & A3); [lia|].
    unfold named. split; [exact A1|]. split; [lia|exact A3].
Qed.

(* the state between two entries of a datagram *)
Definition Bnd (st : enc) : Prop := NR st /\ 12 <= e_size st <= 8966.

Lemma Bnd_init : Bnd enc_init.
Proof. unfold Bnd, NR, enc_init; cbn [e_names e_size]. unfold C_DNS_PACKET_HEADER_LEN. split; [intros n i []|lia]. Qed.

Lemma check_limit_Bnd s st : NR s -> e_size st <= e_size s -> Bnd st -> Bnd (fst (check_limit_or_rollback s st)).
Proof.
  intros Hnr Hle [Hn0 Hs0]. unfold check_limit_or_rollback.
  destruct (e_size s <=? (if e_allow_long s then C_MAX_MSG_ABSOLUTE else C_MAX_MSG_TYPICAL)) eqn:E; cbn [fst].
  - unfold Bnd, NR; cbn [e_names e_size]. split; [exact Hnr|].
    unfold C_MAX_MSG_ABSOLUTE, C_MAX_MSG_TYPICAL in E. destruct (e_allow_long s); lia.
  - unfold Bnd, NR; cbn [e_names e_size]. split; [|exact Hs0].
    intros n i Hin. apply filter_In in Hin as [Hin _]. exact (Hnr n i Hin).
Qed.

Lemma write_record_class_spec P mc st r : spec P (plus 2 st) (write_record_class mc st r).
Proof.
  unfold write_record_class. pose proof (class_range r) as Hc.
  destruct (DNSEntry_unique r && mc); apply write_short_spec; unfold u16.
  - pose proof (lor_u16 (DNSEntry_class_ r) C_CLASS_UNIQUE) as H. unfold C_CLASS_UNIQUE in *. lia.
  - lia.
Qed.

Lemma write_record_ok mc st r now : rec_encodable r -> u32 (ttl_field r now) -> Bnd st ->
  spec NoExn (fun sf => Bnd (fst sf)) (write_record mc st r now).
Proof.
  intros Hr Httl [Hnr Hsz]. pose proof Hr as (Hname & Hty & _ & _). unfold write_record.
  apply (spec_bind NoExn (named 1016 st));
    [apply (write_name_spec NoExn st (p_name r)); [apply Hname|apply encodable_labshort; exact Hname|exact Hnr|lia]|].
  intros s1 N1.
  apply (spec_bind NoExn (plus 2 s1)); [apply write_short_spec; exact Hty|]. intros s2 P2.
  apply (spec_bind NoExn (plus 2 s2)); [apply write_record_class_spec|]. intros s3 P3.
  apply (spec_bind NoExn (plus 4 s3)); [apply write_int_spec; exact Httl|]. intros s4 P4.
  apply (spec_bind NoExn (plus 2 s4)); [apply write_short_spec; unfold u16; lia|]. intros s5 P5.
  pose proof (plus_trans _ _ _ _ _ (plus_trans _ _ _ _ _ (plus_trans _ _ _ _ _ P2 P3) P4) P5) as P25.
  pose proof (named_plus _ _ _ _ _ N1 P25) as (A1 & A2 & A3); [lia|].
  apply (spec_bind NoExn (named 65535 s5)); [apply write_rdata_spec; [exact Hr|exact A1|lia]|].
  intros s6 (B1 & B2 & B3). cbv zeta.
  destruct ((e_size s6 - e_size s5 <? 0) || (65535 <? e_size s6 - e_size s5)) eqn:Erd; [lia|].
  cbn [spec]. apply check_limit_Bnd; [unfold NR; cbn [e_names]; exact B1|cbn [e_size]; lia|split; assumption].
Qed.

Lemma write_records_ok mc rs : forall st n, Forall ans_encodable rs -> Bnd st ->
  spec NoExn (fun sn => Bnd (fst sn)) (write_records mc st rs n).
Proof.
  induction rs as [|[r now] rest IH]; intros st n Hall Hb; cbn [write_records]; [exact Hb|].
  inversion Hall as [|x l [Hr Ht] Hrest]; subst x l. cbn [fst snd] in Hr, Ht.
  apply (spec_bind NoExn (fun sf => Bnd (fst sf))); [apply write_record_ok; assumption|].
  intros [st' fit] Hb'. cbn [fst] in Hb'. destruct fit; [apply IH; assumption|exact Hb'].
Qed.

Lemma rec_encodable_ans r : rec_encodable r -> ans_encodable (r, 0).
Proof. intro H. split; [exact H|]. cbn [fst snd]. unfold ttl_field. cbn. apply H. Qed.

Lemma recs_encodable_ans rs : Forall rec_encodable rs -> Forall ans_encodable (map (fun r => (r, 0)) rs).
Proof. intro H. induction H as [|r rs Hr Hrs IH]; cbn [map]; constructor; [apply rec_encodable_ans; exact Hr|exact IH]. Qed.

(* ------------------------------------------------------------------------------------------ *)
(* 7. one question: the label limit is the only possible failure                                *)

Definition q_ok (P : exn -> Prop) (q : pyrec) : Prop :=
  q_soft q /\ LabShort P (split_dot (strip_dot (p_name q))).

Lemma write_question_ok P mc st q : q_ok P q -> Bnd st ->
  spec P (fun sf => Bnd (fst sf)) (write_question mc st q).
Proof.
  intros [[Hname Hty] Hsh] [Hnr Hsz]. unfold write_question.
  apply (spec_bind P (named 1016 st)); [apply write_name_spec; [exact Hname|exact Hsh|exact Hnr|lia]|].
  intros s1 (A1 & A2 & A3).
  apply (spec_bind P (plus 2 s1)); [apply write_short_spec; exact Hty|]. intros s2 P2.
  apply (spec_bind P (plus 2 s2)); [apply write_record_class_spec|]. intros s3 P3.
  pose proof (plus_trans _ _ _ _ _ P2 P3) as P23. cbn [spec].
  apply check_limit_Bnd; [exact (plus_NR _ _ _ P23 A1)|destruct P23 as (_ & E & _); lia|split; assumption].
Qed.

Lemma write_questions_ok P mc qs : forall st n, Forall (q_ok P) qs -> Bnd st ->
  spec P (fun sn => Bnd (fst sn)) (write_questions mc st qs n).
Proof.
  induction qs as [|q rest IH]; intros st n Hall Hb; cbn [write_questions]; [exact Hb|].
  inversion Hall as [|x l Hq Hrest]; subst x l.
  apply (spec_bind P (fun sf => Bnd (fst sf))); [apply write_question_ok; assumption|].
  intros [st' fit] Hb'. cbn [fst] in Hb'. destruct fit; [apply IH; assumption|exact Hb'].
Qed.

(* ------------------------------------------------------------------------------------------ *)
(* 8. packets()                                                                                 *)

Lemma Forall_skipn {A} (P : A -> Prop) n : forall l, Forall P l -> Forall P (skipn n l).
Proof.
  induction n as [|n IH]; intros l H; [exact H|]. destruct l as [|x l]; [constructor|].
  cbn [skipn]. apply IH. inversion H; assumption.
Qed.

Lemma flags_u16 m (b : bool) : hdr_ok m -> u16 (if b then Z.lor (o_flags m) C_FLAGS_TC else o_flags m).
Proof.
  intros [Hf _]. unfold u16 in *. destruct b; [|exact Hf].
  pose proof (lor_u16 (o_flags m) C_FLAGS_TC) as H. unfold C_FLAGS_TC in *. lia.
Qed.

Lemma packets_loop_ok P m : hdr_ok m -> forall fuel qs ans auth adds acc,
  (length qs + length ans + length auth + length adds < fuel)%nat ->
  Forall (q_ok P) qs -> Forall ans_encodable ans -> Forall rec_encodable auth -> Forall rec_encodable adds ->
  spec P (fun _ => True) (packets_loop fuel m qs ans auth adds acc).
Proof.
  intro Hh. induction fuel as [|fuel IH]; intros qs ans auth adds acc Hfuel Hq Ha Hu Hd; [lia|].
  cbn [packets_loop]. cbv zeta.
  pose proof (write_questions_ok P (o_multicast m) qs enc_init 0%nat Hq Bnd_init) as S1.
  destruct (write_questions (o_multicast m) enc_init qs 0) as [[s1 nq]|e] eqn:E1; [|exact S1].
  cbn [spec fst] in S1. cbn [bind].
  pose proof (write_records_ok (o_multicast m) ans s1 0%nat Ha S1) as S2.
  destruct (write_records (o_multicast m) s1 ans 0) as [[s2 na]|e] eqn:E2; [|destruct S2].
  cbn [spec fst] in S2. cbn [bind].
  pose proof (write_records_ok (o_multicast m) _ s2 0%nat (recs_encodable_ans auth Hu) S2) as S3.
  destruct (write_records (o_multicast m) s2 (map (fun r => (r, 0)) auth) 0) as [[s3 nau]|e] eqn:E3; [|destruct S3].
  cbn [spec fst] in S3. cbn [bind].
  pose proof (write_records_ok (o_multicast m) _ s3 0%nat (recs_encodable_ans adds Hd) S3) as S4.
  destruct (write_records (o_multicast m) s3 (map (fun r => (r, 0)) adds) 0) as [[s4 nad]|e] eqn:E4; [|destruct S4].
  cbn [bind].
  assert (HS : Sect m qs ans auth adds s4 nq na nau nad) by (exists s1, s2, s3; repeat split; assumption).
  apply Sect_spec in HS as (HI & L1 & L2 & L3 & L4).
  match goal with |- spec _ _ (if ?c then _ else _) => destruct c eqn:Ec end.
  { exfalso. destruct Hh as [Hf Hid]. unfold u16 in Hid.
    match type of Ec with context [if ?b then Z.lor _ _ else _] =>
      pose proof (flags_u16 m b (conj Hf Hid)) as Hfl end.
    unfold u16 in Hfl. lia. }
  destruct (nonempty (e_rev s4)) eqn:Emp; cbn [negb]; [|exact I].
  match goal with |- spec _ _ (if ?c then _ else _) => destruct c eqn:Emore end; [|exact I].
  assert (Hw : (1 <= nq + na + nau + nad)%nat).
  { destruct HI as (_ & _ & I3 & _). destruct (nq + na + nau + nad)%nat; [|lia].
    rewrite (I3 eq_refl) in Emp. discriminate. }
  apply IH.
  - rewrite !skipn_length. lia.
  - apply Forall_skipn; exact Hq.
  - apply Forall_skipn; exact Ha.
  - apply Forall_skipn; exact Hu.
  - apply Forall_skipn; exact Hd.
Qed.

Definition msg_ok (P : exn -> Prop) (m : out_msg) : Prop :=
  hdr_ok m /\ Forall (q_ok P) (o_questions m) /\ Forall ans_encodable (o_answers m) /\
  Forall rec_encodable (o_authorities m) /\ Forall rec_encodable (o_additionals m).

Lemma packets_ok P m : msg_ok P m -> spec P (fun _ => True) (packets m).
Proof.
  intros (Hh & Hq & Ha & Hu & Hd). unfold packets, packets_info.
  match goal with |- spec _ _ (match ?X with Ok _ => _ | Raise _ => _ end) =>
    assert (H : spec P (fun _ => True) X) by (apply packets_loop_ok; [exact Hh|lia|assumption..]);
    destruct X as [ps|e] end; [exact I|exact H].
Qed.

Lemma msg_encodable_ok m : msg_encodable m -> msg_ok NoExn m.
Proof.
  intros (Hh & Hq & R). split; [exact Hh|]. split; [|exact R].
  eapply Forall_impl; [|exact Hq]. intros q [[Hs Hl] Ht]. split; [split; assumption|right; exact Hl].
Qed.

Lemma msg_soft_ok m : msg_soft m -> msg_ok (fun e => e = NamePartTooLong) m.
Proof.
  intros (Hh & Hq & R). split; [exact Hh|]. split; [|exact R].
  eapply Forall_impl; [|exact Hq]. intros q Hq'. split; [exact Hq'|left; reflexivity].
Qed.

(* ---- the two containment facts about the encoder ---- *)
Theorem packets_encodable : forall m, msg_encodable m -> exists ps, packets m = Ok ps.
Proof.
  intros m H. pose proof (packets_ok NoExn m (msg_encodable_ok m H)) as S.
  destruct (packets m) as [ps|e]; [exists ps; reflexivity|destruct S].
Qed.

Theorem packets_soft : forall m, msg_soft m -> (exists ps, packets m = Ok ps) \/ packets m = Raise NamePartTooLong.
Proof.
  intros m H. pose proof (packets_ok _ m (msg_soft_ok m H)) as S.
  destruct (packets m) as [ps|e]; [left; exists ps; reflexivity|right; cbn [spec] in S; rewrite S; reflexivity].
Qed.

(* ------------------------------------------------------------------------------------------ *)
(* 9. with no hypothesis at all: the exact list of exceptions packets() can return              *)

Definition EL (e : exn) : Prop := In e [NamePartTooLong; UnicodeError; IndexError; StructError; ValueError; OtherError].
Definition anyr {A} : A -> Prop := fun _ => True.

Ltac el := cbn [spec]; unfold EL, anyr; cbn [In]; auto 10.

Lemma write_byte_any st v : spec EL anyr (write_byte st v).
Proof. unfold write_byte. destruct ((v <? 0) || (255 <? v)); el. Qed.
Lemma write_short_any st v : spec EL anyr (write_short st v).
Proof. unfold write_short. destruct ((v <? 0) || (65535 <? v)); el. Qed.
Lemma write_int_any st v : spec EL anyr (write_int st v).
Proof. unfold write_int. destruct ((v <? 0) || (4294967295 <? v)); el. Qed.

Lemma utf8_encode_any s : spec EL anyr (utf8_encode s).
Proof.
  induction s as [|c s IH]; cbn [utf8_encode]; [el|]. destruct (is_surrogate c); [el|].
  destruct (utf8_encode s) as [b|e]; [el|exact IH].
Qed.

Lemma utf8_len_any s : spec EL anyr (utf8_len s).
Proof. unfold utf8_len. pose proof (utf8_encode_any s) as H. destruct (utf8_encode s); [el|exact H]. Qed.

Lemma write_utf_any st l : spec EL anyr (write_utf st l).
Proof.
  unfold write_utf. apply (spec_bind EL anyr); [apply utf8_encode_any|]. intros u _.
  destruct (write_utf_rejects (Z.of_nat (length u))); [el|].
  apply (spec_bind EL anyr); [apply write_byte_any|]. intros st' _. el.
Qed.

Lemma write_character_string_any st b : spec EL anyr (write_character_string st b).
Proof.
  unfold write_character_string. destruct (256 <? Z.of_nat (length b)); [el|].
  apply (spec_bind EL anyr); [apply write_byte_any|]. intros st' _. el.
Qed.

Lemma write_link_any st i : spec EL anyr (write_link st i).
Proof. unfold write_link. apply (spec_bind EL anyr); [apply write_byte_any|]. intros st' _. apply write_byte_any. Qed.

Lemma write_name_rest_any labels : forall st ss nl, spec EL anyr (write_name_rest st ss nl labels).
Proof.
  induction labels as [|l rest IH]; intros st ss nl; cbn [write_name_rest]; [apply write_byte_any|].
  destruct (negb (names_get st (join_dot (l :: rest)) =? 0)); [apply write_link_any|].
  apply (spec_bind EL anyr); [apply utf8_len_any|]. intros plen _.
  apply (spec_bind EL anyr); [apply write_utf_any|]. intros st2 _. apply IH.
Qed.

Lemma write_name_any st n : spec EL anyr (write_name st n).
Proof.
  unfold write_name. destruct (negb (names_get st (strip_dot n) =? 0)); [apply write_link_any|].
  destruct (split_dot (strip_dot n)) as [|l0 rest]; [el|].
  apply (spec_bind EL anyr); [apply write_utf_any|]. intros st2 _.
  destruct rest; [apply write_byte_any|].
  apply (spec_bind EL anyr); [apply utf8_len_any|]. intros nlen _. apply write_name_rest_any.
Qed.

Lemma write_record_class_any mc st r : spec EL anyr (write_record_class mc st r).
Proof. unfold write_record_class. destruct (DNSEntry_unique r && mc); apply write_short_any. Qed.

Lemma nsec_bitmap_any types : forall bm tot, spec EL anyr (nsec_bitmap types bm tot).
Proof.
  induction types as [|t rest IH]; intros bm tot; cbn [nsec_bitmap]; [el|].
  destruct (255 <? t); [el|]. destruct (t <? 0); [el|]. apply IH.
Qed.

Lemma write_rdata_any st r : spec EL anyr (write_rdata st r).
Proof.
  unfold write_rdata. destruct (p_kind r).
  - el.
  - el.
  - apply (spec_bind EL anyr); [apply utf8_encode_any|]. intros cpu _.
    apply (spec_bind EL anyr); [apply write_character_string_any|]. intros s1 _.
    apply (spec_bind EL anyr); [apply utf8_encode_any|]. intros os _. apply write_character_string_any.
  - apply write_name_any.
  - el.
  - apply (spec_bind EL anyr); [apply write_short_any|]. intros s1 _.
    apply (spec_bind EL anyr); [apply write_short_any|]. intros s2 _.
    apply (spec_bind EL anyr); [apply write_short_any|]. intros s3 _. apply write_name_any.
  - apply (spec_bind EL anyr); [apply nsec_bitmap_any|]. intros [bm tot] _.
    destruct (tot =? 0); [el|].
    apply (spec_bind EL anyr); [apply write_name_any|]. intros s1 _.
    apply (spec_bind EL anyr); [apply write_byte_any|]. intros s2 _.
    apply (spec_bind EL anyr); [apply write_byte_any|]. intros s3 _. el.
Qed.

Lemma write_question_any mc st q : spec EL anyr (write_question mc st q).
Proof.
  unfold write_question. apply (spec_bind EL anyr); [apply write_name_any|]. intros s1 _.
  apply (spec_bind EL anyr); [apply write_short_any|]. intros s2 _.
  apply (spec_bind EL anyr); [apply write_record_class_any|]. intros s3 _. el.
Qed.

Lemma write_record_any mc st r now : spec EL anyr (write_record mc st r now).
Proof.
  unfold write_record. apply (spec_bind EL anyr); [apply write_name_any|]. intros s1 _.
  apply (spec_bind EL anyr); [apply write_short_any|]. intros s2 _.
  apply (spec_bind EL anyr); [apply write_record_class_any|]. intros s3 _.
  apply (spec_bind EL anyr); [apply write_int_any|]. intros s4 _.
  apply (spec_bind EL anyr); [apply write_short_any|]. intros s5 _.
  apply (spec_bind EL anyr); [apply write_rdata_any|]. intros s6 _. cbv zeta.
  destruct ((e_size s6 - e_size s5 <? 0) || (65535 <? e_size s6 - e_size s5)); el.
Qed.

Lemma write_questions_any mc qs : forall st n, spec EL anyr (write_questions mc st qs n).
Proof.
  induction qs as [|q rest IH]; intros st n; cbn [write_questions]; [el|].
  apply (spec_bind EL anyr); [apply write_question_any|]. intros [st' fit] _. destruct fit; [apply IH|el].
Qed.

Lemma write_records_any mc rs : forall st n, spec EL anyr (write_records mc st rs n).
Proof.
  induction rs as [|[r now] rest IH]; intros st n; cbn [write_records]; [el|].
  apply (spec_bind EL anyr); [apply write_record_any|]. intros [st' fit] _. destruct fit; [apply IH|el].
Qed.

Lemma packets_loop_any m : forall fuel qs ans auth adds acc, spec EL anyr (packets_loop fuel m qs ans auth adds acc).
Proof.
  induction fuel as [|fuel IH]; intros qs ans auth adds acc; cbn [packets_loop]; [el|]. cbv zeta.
  apply (spec_bind EL anyr); [apply write_questions_any|]. intros [s1 nq] _.
  apply (spec_bind EL anyr); [apply write_records_any|]. intros [s2 na] _.
  apply (spec_bind EL anyr); [apply write_records_any|]. intros [s3 nau] _.
  apply (spec_bind EL anyr); [apply write_records_any|]. intros [s4 nad] _.
  match goal with |- spec _ _ (if ?c then _ else _) => destruct c end; [el|].
  destruct (negb (nonempty (e_rev s4))); [el|].
  match goal with |- spec _ _ (if ?c then _ else _) => destruct c end; [apply IH|el].
Qed.

(* whatever the message: packets() returns a list of datagrams or raises one of exactly these six classes *)
Theorem packets_raises_only : forall m e, packets m = Raise e ->
  In e [NamePartTooLong; UnicodeError; IndexError; StructError; ValueError; OtherError].
Proof.
  intros m e H. unfold packets, packets_info in H.
  match type of H with match ?X with Ok _ => _ | Raise _ => _ end = _ =>
    pose proof (packets_loop_any m _ (o_questions m) (o_answers m) (o_authorities m) (o_additionals m) [] : spec EL anyr X) as S;
    destruct X as [ps|e0] end; [discriminate|]. inversion H; subst. exact S.
Qed.

(* ... and each of them does occur once a hypothesis of msg_encodable is dropped (so "the only exception is
   NamePartTooLong" is false without the other side conditions) *)
Definition ex_rec (k : kind) (name : text) (ttl : Z) (rdtypes : list Z) : pyrec :=
  {| p_kind := k; p_name := name; p_type_ := 16; p_class_ := 1; p_ttl := ttl; p_created := 0; p_address := [];
     p_scope_id := None; p_cpu := []; p_os := []; p_alias := []; p_text := []; p_priority := 0; p_weight := 0;
     p_port := 0; p_server := []; p_next_name := [120; 46]; p_rdtypes := rdtypes |}.
Definition ex_msg (r : pyrec) : out_msg :=
  {| o_flags := 33792; o_multicast := true; o_id := 0; o_questions := []; o_answers := [(r, 0)];
     o_authorities := []; o_additionals := [] |}.

Example packets_exceptions :
  (exists ps, packets (ex_msg (ex_rec KText [120; 46] 120 [])) = Ok ps) /\
  packets (ex_msg (ex_rec KText (repeat 120 64 ++ [46]) 120 [])) = Raise NamePartTooLong /\
  packets (ex_msg (ex_rec KText [55296; 46] 120 [])) = Raise UnicodeError /\
  packets (ex_msg (ex_rec KText [120; 46] (-1) [])) = Raise StructError /\
  packets (ex_msg (ex_rec KNsec [120; 46] 120 [])) = Raise ValueError /\
  packets (ex_msg (ex_rec KNsec [120; 46] 120 [-1])) = Raise IndexError /\
  packets (ex_msg (ex_rec KQuestion [120; 46] 120 [])) = Raise OtherError.
Proof. vm_compute. repeat split; try reflexivity. eexists; reflexivity. Qed.

Print Assumptions packets_encodable.
Print Assumptions packets_soft.
Print Assumptions packets_raises_only.
