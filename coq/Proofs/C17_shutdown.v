(* C17 - shutdown: once the instance is done it sends nothing, ever; async_unregister_all_services says goodbye for
   every registered service in one message (three times) and leaves an empty registry that answers nothing; after
   unregister-all + close nothing is sent any more. *)
From Coq Require Import ZArith List Bool Lia ZifyBool Permutation.
From ZC Require Import Model.Base Model.PyRec Model.Dict Model.Re Model.Cache Model.Respond Model.Route Model.WireEnc
  Model.OutQueue Model.Register Model.Node Gen.Const Gen.Extra Gen.DnsPure Spec.AnswerSpec.
From ZC Require Import Proofs.C20_identity Proofs.C03_reg Proofs.C03_respond Proofs.C11_route.
From ZC Require Import Proofs.C08_records Proofs.C08_withdraw.
Import ListNotations.
Open Scope Z_scope.
Ltac Zify.zify_post_hook ::= Z.to_euclidean_division_equations.

Definition is_send (o : nout) : bool := match o with OSend _ _ _ => true | _ => false end.

(* ====================================================================================================== *)
(* 4. closed_quiet                                                                                         *)
(* ====================================================================================================== *)

Lemma gate_done n outs o : n_done n = true -> In o (gate n outs) -> is_send o = false.
Proof.
  intros D H. unfold gate in H. rewrite D in H. apply filter_In in H as [_ H]. destruct o; [discriminate|..]; reflexivity.
Qed.

Lemma query_fold_done now rnd_q rnd_d acts : forall m outs,
  n_done (fst (fold_left (query_act now rnd_q rnd_d) acts (m, outs))) = n_done m.
Proof.
  induction acts as [|a acts IH]; intros m outs; cbn [fold_left]; [reflexivity|].
  destruct a as [ad po msg|msg|t u|t u]; cbn [query_act].
  - apply IH.
  - apply IH.
  - destruct (intern_set (n_tbl m) u) as [tbl a']. rewrite IH. reflexivity.
  - destruct (intern_set (n_tbl m) u) as [tbl a']. rewrite IH. reflexivity.
Qed.

Lemma after_check_done n id k outs now : n_done (fst (after_check n id k outs now)) = n_done n.
Proof.
  unfold after_check. cbv zeta. destruct (last outs CDone); try reflexivity;
    destruct (register_finish (n_reg n) k) as [[g' task]|e]; reflexivity.
Qed.

Definition is_close (l : nlabel) : bool := match l with LClose _ => true | _ => false end.

(* only _close() changes the flag, and it only ever sets it *)
Lemma nstep_done n l : n_done (fst (nstep n l)) = n_done n || is_close l.
Proof.
  destruct l as [now answers|now|now msgs id addr port rnd_q rnd_d|delayq now|id now s allow strict coop|id now|id now
                |id now key|id now s|now|now|now]; cbn [is_close]; rewrite ?orb_false_r, ?orb_true_r.
  - reflexivity.
  - reflexivity.
  - rewrite nstep_query.
    pose proof (query_fold_done now rnd_q rnd_d (handle_assembled_query (n_reg n) (n_cache n) msgs id addr port) n []) as H.
    destruct (fold_left (query_act now rnd_q rnd_d) (handle_assembled_query (n_reg n) (n_cache n) msgs id addr port) (n, [])) as [m o].
    exact H.
  - cbn [nstep]. destruct (async_ready_body (if delayq then n_qd n else n_q n) now) as [q' sent]. destruct delayq; reflexivity.
  - cbn [nstep]. destruct (check_start (n_cache n) now s allow strict coop) as [[k outs]|e]; [|reflexivity].
    pose proof (after_check_done n id k outs now) as H. destruct (after_check n id k outs now) as [n' o]. exact H.
  - cbn [nstep]. destruct (d_get Z.eqb (n_checks n) id) as [k|]; [|reflexivity].
    destruct (check_turn (n_cache n) now k) as [k' outs].
    pose proof (after_check_done n id k' outs now) as H. destruct (after_check n id k' outs now) as [n' o]. exact H.
  - cbn [nstep]. destruct (d_get Z.eqb (n_tasks n) id) as [b|]; [|reflexivity].
    destruct (bcast_turn b now) as [b' outs]. reflexivity.
  - cbn [nstep]. destruct (d_get text_eqb (g_services (n_reg n)) key) as [s|]; [|reflexivity].
    destruct (unregister_service (n_reg n) s) as [[g' task] withdrawn].
    destruct (intern_list (n_tbl n) withdrawn) as [tbl ids]. reflexivity.
  - cbn [nstep]. destruct (update_service (n_reg n) s) as [[g' task]|e]; reflexivity.
  - cbn [nstep]. destruct (unregister_all (n_reg n)) as [g' rs]. destruct rs; reflexivity.
  - reflexivity.
  - reflexivity.
Qed.

(* whatever a done node lets out is not a send *)
Lemma nstep_done_quiet n l o : n_done n = true -> In o (snd (nstep n l)) -> is_send o = false.
Proof.
  intros D.
  destruct l as [now answers|now|now msgs id addr port rnd_q rnd_d|delayq now|id now s allow strict coop|id now|id now
                |id now key|id now s|now|now|now].
  - intros [].
  - intros [].
  - rewrite nstep_query.
    destruct (fold_left (query_act now rnd_q rnd_d) (handle_assembled_query (n_reg n) (n_cache n) msgs id addr port) (n, [])) as [m outs].
    cbn [snd]. apply gate_done. exact D.
  - cbn [nstep]. destruct (async_ready_body (if delayq then n_qd n else n_q n) now) as [q' sent]. cbn [snd]. apply gate_done. exact D.
  - cbn [nstep]. destruct (check_start (n_cache n) now s allow strict coop) as [[k outs]|e].
    + destruct (after_check n id k outs now) as [n' o']. cbn [snd]. apply gate_done. exact D.
    + intros [<-|[]]. reflexivity.
  - cbn [nstep]. destruct (d_get Z.eqb (n_checks n) id) as [k|].
    + destruct (check_turn (n_cache n) now k) as [k' outs]. destruct (after_check n id k' outs now) as [n' o']. cbn [snd].
      apply gate_done. exact D.
    + intros [<-|[]]. reflexivity.
  - cbn [nstep]. destruct (d_get Z.eqb (n_tasks n) id) as [b|].
    + destruct (bcast_turn b now) as [b' outs]. cbn [snd]. apply gate_done. exact D.
    + intros [<-|[]]. reflexivity.
  - cbn [nstep]. destruct (d_get text_eqb (g_services (n_reg n)) key) as [s|].
    + destruct (unregister_service (n_reg n) s) as [[g' task] withdrawn].
      destruct (intern_list (n_tbl n) withdrawn) as [tbl ids]. intros [<-|[]]. reflexivity.
    + intros [<-|[]]. reflexivity.
  - cbn [nstep]. destruct (update_service (n_reg n) s) as [[g' task]|e]; intros [<-|[]]; reflexivity.
  - cbn [nstep]. destruct (unregister_all (n_reg n)) as [g' rs]. destruct rs as [|r rs].
    + intros [<-|[]]. reflexivity.
    + cbn [snd]. apply gate_done. exact D.
  - cbn [nstep snd]. apply gate_done. exact D.
  - intros [].
Qed.

Theorem closed_quiet : forall n ls, n_done n = true ->
  (forall outs o, In outs (nrun n ls) -> In o outs -> is_send o = false) /\
  n_done (nstate n ls) = true.
Proof.
  intros n ls. revert n. induction ls as [|l ls IH]; intros n D; cbn [nrun nstate].
  - split; [intros outs o []|exact D].
  - assert (D' : n_done (fst (nstep n l)) = true) by (rewrite nstep_done, D; reflexivity).
    pose proof (nstep_done_quiet n l) as Q. destruct (nstep n l) as [n' outs0]. cbn [fst snd] in *.
    destruct (IH n' D') as [IH1 IH2]. split; [|exact IH2].
    intros outs o [<-|H] Ho; [apply Q; assumption|eapply IH1; eassumption].
Qed.

(* in the words of the property: no output of a done node is an OSend *)
Corollary closed_sends_nothing : forall n ls, n_done n = true ->
  forall outs t d m, In outs (nrun n ls) -> ~ In (OSend t d m) outs.
Proof.
  intros n ls D outs t d m Ho Hs. pose proof (proj1 (closed_quiet n ls D) outs _ Ho Hs) as H. discriminate.
Qed.

(* _close() emits nothing and is idempotent *)
Theorem close_idempotent : forall n t t',
  snd (nstep n (LClose t)) = [] /\
  n_done (fst (nstep n (LClose t))) = true /\
  nstep (fst (nstep n (LClose t))) (LClose t') = (fst (nstep n (LClose t)), []).
Proof. intros n t t'. repeat split. Qed.

(* ====================================================================================================== *)
(* 5. shutdown_goodbyes                                                                                    *)
(* ====================================================================================================== *)

Lemma remove_all_J l : forall g, J g -> J (fold_left (fun g s => reg_remove g (s_key s)) l g).
Proof. induction l as [|s l IH]; intros g Hg; [exact Hg|]. cbn [fold_left]. apply IH. apply J_remove. exact Hg. Qed.

Lemma remove_all_services : forall l g,
  g_services g = l -> NoDup (map fst l) -> (forall k s, In (k, s) l -> k = s_key s) ->
  g_services (fold_left (fun g s => reg_remove g (s_key s)) (map snd l) g) = [].
Proof.
  induction l as [|[k s] l IH]; intros g E ND KEY; cbn [map snd fold_left]; [exact E|].
  assert (K : k = s_key s) by (apply KEY; left; reflexivity). subst k.
  inversion ND as [|? ? Hnot ND']; subst.
  apply IH; [|exact ND'|intros k0 s0 H0; apply KEY; right; exact H0].
  unfold reg_remove. rewrite E. cbn [d_get]. rewrite text_eqb_refl. cbn [g_services d_del]. rewrite text_eqb_refl. reflexivity.
Qed.

(* a consistent registry without services is THE empty registry: no index bucket is left behind *)
Lemma idx_inv_nil kf I : IdxInv kf I [] -> I = [].
Proof.
  intros [BK NE _]. destruct I as [|[k l] I]; [reflexivity|exfalso].
  specialize (BK k). specialize (NE k). unfold bk in BK. cbn [d_get] in BK, NE. rewrite text_eqb_refl in BK, NE.
  unfold sel in BK. cbn in BK. subst l. apply NE. reflexivity.
Qed.

Lemma J_no_services g : J g -> g_services g = [] -> g = empty_registry.
Proof.
  intros (_ & _ & IT & IS) E. destruct g as [sv ty srv]. cbn [g_services g_types g_servers] in *. subst sv.
  apply idx_inv_nil in IT. apply idx_inv_nil in IS. subst. reflexivity.
Qed.

Lemma unregister_all_empties g : J g -> fst (unregister_all g) = empty_registry.
Proof.
  intro Hg. unfold unregister_all. cbn [fst]. apply J_no_services; [apply remove_all_J; exact Hg|].
  destruct Hg as (ND & KEY & _). unfold all_services. apply remove_all_services; [reflexivity|exact ND|exact KEY].
Qed.

Lemma empty_registry_no_strategy q : get_strategies empty_registry q = [].
Proof.
  unfold get_strategies, get_types, get_infos. cbn [empty_registry g_types g_servers g_services map d_get].
  repeat match goal with |- context [if ?c then _ else _] => destruct c end; reflexivity.
Qed.

(* the empty registry answers nothing *)
Theorem empty_registry_silent : forall c msgs id addr port,
  handle_assembled_query empty_registry c msgs id addr port = [].
Proof.
  intros c msgs id addr port. apply no_strategy_no_action. intros m q _ _. apply empty_registry_no_strategy.
Qed.

(* the goodbye records of all services: every record of every service, TTL 0 *)
Definition goodbye_all (g : registry) : list pyrec :=
  flat_map (fun s => broadcast_records s (Some 0) true) (registered g).

(* J (Proofs/C03_reg): the registry's three dicts are mutually consistent in the concrete sense (it implies RegInv, J_RegInv,
   and holds for every registry reached by register / update / unregister, J_run).  RegInv alone does not survive removals
   when an index holds stale names, and such a registry would still answer type enumeration after unregister-all. *)
Theorem shutdown_goodbyes : forall n now n' outs,
  J (n_reg n) -> n_done n = false ->
  nstep n (LUnregisterAll now) = (n', outs) ->
  let rs := goodbye_all (n_reg n) in
  (* the registry is emptied *)
  n_reg n' = empty_registry /\ g_services (n_reg n') = [] /\
  (* nothing registered: nothing to say *)
  (registered (n_reg n) = [] -> outs = [OEnd]) /\
  (* otherwise exactly one multicast with the goodbye of every service ... *)
  (registered (n_reg n) <> [] ->
     outs = [OSend now None (broadcast_msg rs)] /\
     (* ... which the two following sends repeat *)
     (forall t2 t3, nrun n' [LGoodbyeAll t2; LGoodbyeAll t3] =
                    [[OSend t2 None (broadcast_msg rs)]; [OSend t3 None (broadcast_msg rs)]] /\
                    nstate n' [LGoodbyeAll t2; LGoodbyeAll t3] = n')) /\
  (* rs: for EVERY registered service its PTR, SRV, TXT, address and NSEC records, all with TTL 0 *)
  (forall s x, In s (registered (n_reg n)) ->
     In x ([dns_pointer s; dns_service s; dns_text s] ++ address_and_nsec s) -> In (set_ttl 0 x) rs) /\
  (forall r, In r rs -> p_ttl r = 0) /\
  (* and from then on the responder answers nothing *)
  (forall c msgs id addr port, handle_assembled_query (n_reg n') c msgs id addr port = []).
Proof.
  intros n now n' outs Hj D H rs.
  pose proof (unregister_all_empties _ Hj) as HE.
  assert (Hrs : snd (unregister_all (n_reg n)) = rs) by reflexivity.
  cbn [nstep] in H. destruct (unregister_all (n_reg n)) as [g' rs0] eqn:U. cbn [fst snd] in HE, Hrs. subst g' rs0.
  assert (Hnil : registered (n_reg n) = [] <-> rs = []).
  { unfold rs, goodbye_all. split; [intros ->; reflexivity|].
    destruct (registered (n_reg n)) as [|s l]; [reflexivity|]. cbn [flat_map broadcast_records app]. discriminate. }
  assert (Hreg : n_reg n' = empty_registry).
  { destruct rs as [|r0 rs1] eqn:R.
    - inversion H; subst n'. apply J_no_services; [exact Hj|]. apply proj2 in Hnil. specialize (Hnil eq_refl).
      unfold registered in Hnil. destruct (g_services (n_reg n)); [reflexivity|discriminate].
    - inversion H; subst n'. reflexivity. }
  split; [exact Hreg|]. split; [rewrite Hreg; reflexivity|]. split; [|split; [|split; [|split]]].
  - intro E. apply Hnil in E. rewrite E in H. inversion H. reflexivity.
  - intro NE. destruct rs as [|r0 rs1] eqn:R; [exfalso; apply NE; apply Hnil; reflexivity|]. rewrite <- R in *.
    assert (H' : ({| n_cache := n_cache n; n_reg := empty_registry; n_tbl := n_tbl n; n_q := n_q n; n_qd := n_qd n;
                     n_checks := n_checks n; n_tasks := n_tasks n; n_bye := Some (broadcast_msg rs); n_done := n_done n |},
                  gate n [OSend now None (broadcast_msg rs)]) = (n', outs)).
    { rewrite R in H |- *. exact H. }
    clear H. inversion H'; subst n' outs; clear H'. unfold gate. rewrite D. split; [reflexivity|].
    intros t2 t3. cbn [nrun nstate nstep n_bye fst]. unfold gate. cbn [n_done n_bye]. split; reflexivity.
  - intros s x Hs Hx. unfold rs, goodbye_all. apply in_flat_map. exists s. split; [exact Hs|].
    rewrite broadcast_records_override. apply in_map. exact Hx.
  - intros r Hr. unfold rs, goodbye_all in Hr. apply in_flat_map in Hr as (s & _ & Hr). eapply goodbye_ttl0. exact Hr.
  - intros c msgs id addr port. rewrite Hreg. apply empty_registry_silent.
Qed.

(* for registries with a history *)
Corollary shutdown_goodbyes_reachable : forall n ops now,
  n_reg n = reg_run ops -> n_done n = false ->
  n_reg (fst (nstep n (LUnregisterAll now))) = empty_registry /\
  (registered (n_reg n) <> [] ->
   snd (nstep n (LUnregisterAll now)) = [OSend now None (broadcast_msg (goodbye_all (n_reg n)))]).
Proof.
  intros n ops now E D. assert (Hj : J (n_reg n)) by (rewrite E; apply J_run).
  destruct (shutdown_goodbyes n now _ _ Hj D (surjective_pairing _)) as (H1 & _ & _ & H4 & _).
  split; [exact H1|]. intro NE. apply H4. exact NE.
Qed.

(* why J and not just RegInv: a registry whose type index holds a stale name next to the real one satisfies RegInv, but after
   unregister-all the bucket survives and type enumeration is still answered *)
Definition cxs_g : registry :=
  {| g_services := [(s_key cxa_s, cxa_s)];
     g_types := [(lower (s_type cxa_s), [s_key cxa_s; [0]])];
     g_servers := [(s_server_key cxa_s, [s_key cxa_s])] |}.

Lemma cxs_reginv : RegInv cxs_g.
Proof.
  unfold RegInv, registered, get_types. cbn [cxs_g g_services g_types g_servers map fst snd].
  split; [constructor; [intros []|constructor]|].
  split; [intros k s [H|[]]; inversion H; reflexivity|].
  split; [|split; [|split; [|constructor; [intros []|constructor]]]].
  - intro k. unfold get_infos. cbn [g_services g_types d_get filter].
    destruct (text_eqb (lower (s_type cxa_s)) k); [|constructor].
    replace (flat_map (fun n => match d_get text_eqb [(s_key cxa_s, cxa_s)] n with Some s => [s] | None => [] end) [s_key cxa_s; [0]])
      with [cxa_s] by (vm_compute; reflexivity).
    apply Permutation_refl.
  - intro k. unfold get_infos. cbn [g_services g_servers d_get filter].
    destruct (text_eqb (s_server_key cxa_s) k); [|constructor].
    replace (flat_map (fun n => match d_get text_eqb [(s_key cxa_s, cxa_s)] n with Some s => [s] | None => [] end) [s_key cxa_s])
      with [cxa_s] by (vm_compute; reflexivity).
    apply Permutation_refl.
  - intro t. split.
    + intros [<-|[]]. exists cxa_s. split; [left; reflexivity|reflexivity].
    + intros (s & [<-|[]] & <-). left. reflexivity.
Qed.

Definition cxs_enum_query : qmsg :=
  {| qm_questions := [blank KQuestion C_SERVICE_TYPE_ENUMERATION_NAME C_TYPE_PTR C_CLASS_IN 0];
     qm_answers := []; qm_is_probe := false; qm_now := 10 |}.

Example cxs_still_answers :
  g_services (fst (unregister_all cxs_g)) = [] /\
  length (handle_assembled_query (fst (unregister_all cxs_g)) empty_cache [cxs_enum_query] 0 [49] 5353) = 1%nat.
Proof. vm_compute. split; reflexivity. Qed.

(* ====================================================================================================== *)
(* 6. after_close_sequence                                                                                 *)
(* ====================================================================================================== *)

Lemma nrun_app a : forall n b, nrun n (a ++ b) = nrun n a ++ nrun (nstate n a) b.
Proof.
  induction a as [|l a IH]; intros n b; cbn [app nrun nstate]; [reflexivity|].
  destruct (nstep n l) as [n' outs]. cbn [fst]. rewrite IH. reflexivity.
Qed.

Lemma nstate_app a : forall n b, nstate n (a ++ b) = nstate (nstate n a) b.
Proof. induction a as [|l a IH]; intros n b; cbn [app nstate]; [reflexivity|]. apply IH. Qed.

Lemma nrun_length ls : forall n, length (nrun n ls) = length ls.
Proof.
  induction ls as [|l ls IH]; intro n; cbn [nrun]; [reflexivity|].
  destruct (nstep n l) as [n' outs]. cbn [length]. rewrite IH. reflexivity.
Qed.

(* whatever the node was doing: after unregister-all, its two repeats and _close(), nothing is sent any more *)
Theorem after_close_sequence : forall n t1 t2 t3 t4 ls,
  let pre := [LUnregisterAll t1; LGoodbyeAll t2; LGoodbyeAll t3; LClose t4] in
  forall outs o, In outs (skipn 4 (nrun n (pre ++ ls))) -> In o outs -> is_send o = false.
Proof.
  intros n t1 t2 t3 t4 ls pre outs o Ho Hs. rewrite nrun_app in Ho.
  assert (L : length (nrun n pre) = 4%nat) by apply nrun_length.
  assert (S : skipn 4 (nrun n pre ++ nrun (nstate n pre) ls) = nrun (nstate n pre) ls).
  { rewrite <- L at 1. rewrite skipn_app, skipn_all, Nat.sub_diag. reflexivity. }
  rewrite S in Ho.
  assert (D : n_done (nstate n pre) = true).
  { change pre with ([LUnregisterAll t1; LGoodbyeAll t2; LGoodbyeAll t3] ++ [LClose t4]). rewrite nstate_app.
    cbn [nstate]. rewrite nstep_done. apply orb_true_r. }
  eapply (proj1 (closed_quiet _ ls D)); eassumption.
Qed.

Corollary after_close_sequence_no_send : forall n t1 t2 t3 t4 ls outs t d m,
  In outs (skipn 4 (nrun n ([LUnregisterAll t1; LGoodbyeAll t2; LGoodbyeAll t3; LClose t4] ++ ls))) ->
  ~ In (OSend t d m) outs.
Proof.
  intros n t1 t2 t3 t4 ls outs t d m Ho Hs. pose proof (after_close_sequence n t1 t2 t3 t4 ls outs _ Ho Hs) as H. discriminate.
Qed.

Print Assumptions closed_quiet.
Print Assumptions closed_sends_nothing.
Print Assumptions close_idempotent.
Print Assumptions shutdown_goodbyes.
Print Assumptions shutdown_goodbyes_reachable.
Print Assumptions empty_registry_silent.
Print Assumptions cxs_reginv.
Print Assumptions cxs_still_answers.
Print Assumptions after_close_sequence.
Print Assumptions after_close_sequence_no_send.
