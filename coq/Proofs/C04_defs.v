(* C04, vocabulary: runs of the browser node, the instances it has reported, the pointers the cache holds,
   the Added/Removed events of one (type, instance), and the hypotheses of the property. Definitions only. *)
From ZC Require Import Model.Base Model.PyRec Model.Dict Model.Re Model.Names Model.Cache Model.Ingest Model.Sched
  Model.Browser Gen.Const Gen.DnsPure Spec.CacheSpec Spec.IngestSpec.

(* ------------------------------------------------------------------ *)
(* runs *)

(* the callbacks of a whole run, in order *)
Fixpoint brun (n : bnode) (ls : list blabel) : option (bnode * list (pkey * change)) :=
  match ls with
  | [] => Some (n, [])
  | l :: rest =>
      match bstep n l with
      | None => None
      | Some (n1, o) =>
          match brun n1 rest with
          | None => None
          | Some (n2, cbs) => Some (n2, bo_callbacks o ++ cbs)
          end
      end
  end.

(* the browser is registered from the start, on an empty cache; the scheduler state is arbitrary *)
Definition bnode_init (types : list text) (s : sched) : bnode :=
  {| bn_cache := empty_cache; bn_sched := s; bn_types := types; bn_on := true |}.

(* ------------------------------------------------------------------ *)
(* what the user of the browser has been told *)

(* one callback ((name, type), change) applied to the instances currently reported for type [ty];
   instances are compared case-insensitively; Added is a plain cons, so that duplicate-freeness of the result
   says that Added is never delivered for an instance that is already reported *)
Definition live_step (ty : text) (live : list text) (cb : pkey * change) : list text :=
  let '((name, t), ch) := cb in
  if text_eqb t ty then
    match ch with
    | Added => lower name :: live
    | Removed => filter (fun k => negb (text_eqb k (lower name))) live
    | Updated => live
    end
  else live.

(* instances currently reported for a type: Added and not since Removed *)
Definition live_after (cbs : list (pkey * change)) (ty : text) : list text :=
  fold_left (live_step ty) cbs [].

(* pointer records of the type held in the cache (lower-cased targets) *)
Definition cached_instances (c : cache) (ty : text) : list text :=
  map (fun r => lower (p_alias r)) (filter (fun r => p_type_ r =? C_TYPE_PTR) (entries_with_name c ty)).

Definition instb (c : cache) (ty k : text) : bool := existsb (text_eqb k) (cached_instances c ty).

(* ------------------------------------------------------------------ *)
(* the Added / Removed events of one (type, lower-cased instance) *)

Definition is_ar (c : change) : bool := match c with Updated => false | _ => true end.

Definition about (ty k : text) (cb : pkey * change) : bool :=
  text_eqb (snd (fst cb)) ty && text_eqb (lower (fst (fst cb))) k && is_ar (snd cb).

Definition events_of (cbs : list (pkey * change)) (ty k : text) : list change :=
  map snd (filter (about ty k) cbs).

(* [alternates live l]: starting from "reported" = live, every Added comes when not reported and every
   Removed when reported *)
Fixpoint alternates (live : bool) (l : list change) : Prop :=
  match l with
  | [] => True
  | Added :: r => live = false /\ alternates true r
  | Removed :: r => live = true /\ alternates false r
  | Updated :: r => alternates live r
  end.

(* ------------------------------------------------------------------ *)
(* hypotheses *)

(* browsed types are pairwise different when lower-cased *)
Definition types_distinct (types : list text) : Prop :=
  forall t1 t2, In t1 types -> In t2 types -> lower t1 = lower t2 -> t1 = t2.

(* the owner name of a pointer record is exactly one of the browsed types (as spelled in bn_types), or it
   matches none - not even up to letter case *)
Definition name_ok (types : list text) (nm : text) : Prop :=
  inter_types types (possible_types nm) = [nm] \/
  (inter_types types (possible_types nm) = [] /\ forall ty, In ty types -> lower nm <> lower ty).

(* a record of type PTR (12) is a DNSPointer of class IN whose owner name is as above *)
Definition ptr_ok (types : list text) (r : pyrec) : Prop :=
  p_type_ r = C_TYPE_PTR ->
  p_kind r = KPointer /\ DNSEntry_class_ r = C_CLASS_IN /\ name_ok types (p_name r).

(* no two PTR targets for the same owner name in one datagram differ only in letter case *)
Definition no_case_clash (answers : list pyrec) : Prop :=
  forall a b, In a answers -> In b answers -> p_type_ a = C_TYPE_PTR -> p_type_ b = C_TYPE_PTR ->
    p_name a = p_name b -> lower (p_alias a) = lower (p_alias b) -> p_alias a = p_alias b.

Definition datagram_ok (types : list text) (now : Z) (answers : list pyrec) : Prop :=
  wf_answers now answers /\            (* as decoded: created = arrival time, 0 <= ttl < 2^32, not a question *)
  (forall r, In r answers -> ptr_ok types r) /\
  no_case_clash answers.

(* the hypotheses over a run (no assumption on the times of the labels is needed) *)
Definition hyp (types : list text) (ls : list blabel) : Prop :=
  types_distinct types /\
  forall now answers, In (BResp now answers) ls -> datagram_ok types now answers.

(* the same constraints on what is already cached *)
Definition cache_ok (types : list text) (c : cache) : Prop :=
  forall x, In x (flat c) -> ptr_ok types x.
