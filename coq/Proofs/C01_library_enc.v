(* C01, library half, encoder side, entries and datagrams: at every position where the strict parser reads a name in
   an emitted datagram, the name walk meets only in-range pointer octets ([parseN] of C01_library_dec), whatever the
   raw rdata octets are. *)
From Coq Require Import ZArith List Bool Lia ZifyBool.
From ZC Require Import Model.Base Model.PyRec Model.Dict Model.Re Model.Utf8 Model.Names Model.WireEnc
                       Spec.Rfc1035 Gen.Const Gen.DnsPure Gen.Shapes.
From ZC Require Import Proofs.C01_utf8 Proofs.C01_defs Proofs.C01_name Proofs.C01_rebase Proofs.C01_nsec
                       Proofs.C01_record Proofs.C01_packets Proofs.C01_library_dec Proofs.C01_library_names.
Import ListNotations.
Open Scope Z_scope.
Ltac Zify.zify_post_hook ::= Z.to_euclidean_division_equations.

Section RecB.
  Variable hdr : bytes.
  Hypothesis Hhdr : length hdr = 12%nat.

  (* [NP] at [pos] in every extension of the datagram under construction *)
  Definition NPx (a : enc) (pos : Z) : Prop := forall x, NP (buf hdr a ++ x) pos.

  Lemma NPx_ext a b pos : Ext a b -> NPx a pos -> NPx b pos.
  Proof. intros X H x. pattern (buf hdr b ++ x). apply (lift hdr _ a b x X). exact H. Qed.

  Lemma name_stepNP a b n : NamesOkB hdr a -> wf_name n -> e_size a < 16084 -> write_name a n = Ok b ->
    NamesOkB hdr b /\ NPx b (e_size a).
  Proof.
    intros Hok Hwn Hlim Hw.
    destruct (name_stepB hdr Hhdr a b n Hok Hwn Hlim Hw) as (Hok' & Hg).
    destruct (name_step hdr Hhdr a b n (NamesOkB_NamesOk _ _ Hok) Hwn Hlim Hw) as (_ & _ & Hs).
    split; [exact Hok'|]. intro x. exact (NP_of_good _ _ _ _ (Hs x) (Hg x)).
  Qed.

  Lemma short_B a v b : NamesOkB hdr a -> write_short a v = Ok b -> NamesOkB hdr b.
  Proof. intros Hok Hw. apply write_short_inv in Hw. destruct Hw as [_ ->]. apply NamesOkB_put; assumption. Qed.

  Lemma int_B a v b : NamesOkB hdr a -> write_int a v = Ok b -> NamesOkB hdr b.
  Proof. intros Hok Hw. apply write_int_inv in Hw. destruct Hw as [_ ->]. apply NamesOkB_put; assumption. Qed.

  Lemma byte_B a v b : NamesOkB hdr a -> write_byte a v = Ok b -> NamesOkB hdr b.
  Proof. intros Hok Hw. apply write_byte_inv in Hw. destruct Hw as [_ ->]. apply NamesOkB_put; assumption. Qed.

  Lemma charstr_B a bs b : NamesOkB hdr a -> write_character_string a bs = Ok b -> NamesOkB hdr b.
  Proof.
    intros Hok Hw. unfold write_character_string in Hw. cbv zeta in Hw.
    destruct (256 <? Z.of_nat (length bs)); [discriminate|].
    destruct (write_byte a (Z.of_nat (length bs))) as [a1|e] eqn:E1; [|discriminate]. cbn [bind] in Hw.
    inversion Hw; subst b. unfold write_string. apply NamesOkB_put. exact (byte_B _ _ _ Hok E1).
  Qed.

  Lemma short_size a v b : write_short a v = Ok b -> e_size b = e_size a + 2 /\ Ext a b.
  Proof. intro Hw. apply write_short_inv in Hw. destruct Hw as [_ ->]. split; [reflexivity|apply Ext_put]. Qed.

  Lemma byte_ext a v b : write_byte a v = Ok b -> Ext a b.
  Proof. intro Hw. apply write_byte_inv in Hw. destruct Hw as [_ ->]. apply Ext_put. Qed.

  (* ---------- rdata ---------- *)
  Lemma rdata_stepB r a b : NamesOkB hdr a -> wf_rdata r -> e_size a < 15000 -> write_rdata a r = Ok b ->
    NamesOkB hdr b /\ forall x, rdN (buf hdr b ++ x) (p_type_ r) (e_size a).
  Proof.
    intros Hok Hwf Hlim Hw. unfold wf_rdata in Hwf. unfold write_rdata in Hw.
    destruct (p_kind r) eqn:Ekind.
    - contradiction.
    - (* address *)
      inversion Hw; subst b. unfold write_string. split; [apply NamesOkB_put; assumption|].
      intro x. split; intro Ht; exfalso; lia.
    - (* hinfo *)
      destruct Hwf as (Hty & _).
      destruct (utf8_encode (p_cpu r)) as [cpu|e]; [|discriminate]. cbn [bind] in Hw.
      destruct (write_character_string a cpu) as [a1|e] eqn:E1; [|discriminate]. cbn [bind] in Hw.
      destruct (utf8_encode (p_os r)) as [os|e]; [|discriminate]. cbn [bind] in Hw.
      split; [exact (charstr_B _ _ _ (charstr_B _ _ _ Hok E1) Hw)|].
      intro x. split; intro Ht; exfalso; lia.
    - (* pointer *)
      destruct Hwf as (Hty & Hn).
      destruct (name_stepNP a b _ Hok Hn ltac:(lia) Hw) as (Hok' & HN).
      split; [exact Hok'|]. intro x. split; [intros _; apply HN|intro Ht; exfalso; lia].
    - (* text *)
      inversion Hw; subst b. unfold write_string. split; [apply NamesOkB_put; assumption|].
      intro x. split; intro Ht; exfalso; lia.
    - (* service *)
      destruct Hwf as (Hty & Hn).
      destruct (write_short a (p_priority r)) as [a1|e] eqn:E1; [|discriminate]. cbn [bind] in Hw.
      destruct (write_short a1 (p_weight r)) as [a2|e] eqn:E2; [|discriminate]. cbn [bind] in Hw.
      destruct (write_short a2 (p_port r)) as [a3|e] eqn:E3; [|discriminate]. cbn [bind] in Hw.
      destruct (short_size _ _ _ E1) as [Z1 _]. destruct (short_size _ _ _ E2) as [Z2 _].
      destruct (short_size _ _ _ E3) as [Z3 _].
      pose proof (short_B _ _ _ (short_B _ _ _ (short_B _ _ _ Hok E1) E2) E3) as Hok3.
      destruct (name_stepNP a3 b _ Hok3 Hn ltac:(lia) Hw) as (Hok' & HN).
      split; [exact Hok'|]. intro x. split; [intro Ht; exfalso; lia|].
      intros _. replace (e_size a + 6) with (e_size a3) by lia. apply HN.
    - (* nsec *)
      destruct Hwf as (Hty & Hn).
      destruct (nsec_bitmap (sorted (p_rdtypes r)) (repeat 0 32) 0) as [[bitmap total]|e]; [|discriminate].
      cbn [bind] in Hw.
      destruct (total =? 0); [discriminate|].
      destruct (write_name a (p_next_name r)) as [a1|e] eqn:E1; [|discriminate]. cbn [bind] in Hw.
      destruct (write_byte a1 0) as [a2|e] eqn:E2; [|discriminate]. cbn [bind] in Hw.
      destruct (write_byte a2 (Z.of_nat (length (firstn (Z.to_nat total) bitmap)))) as [a3|e] eqn:E3; [|discriminate].
      cbn [bind] in Hw. inversion Hw; subst b. clear Hw. unfold write_string.
      destruct (name_stepNP a a1 _ Hok Hn ltac:(lia) E1) as (Hok1 & HN).
      split; [apply NamesOkB_put; exact (byte_B _ _ _ (byte_B _ _ _ Hok1 E2) E3)|].
      assert (X : Ext a1 (put a3 (firstn (Z.to_nat total) bitmap))).
      { exact (Ext_trans _ _ _ (byte_ext _ _ _ E2) (Ext_trans _ _ _ (byte_ext _ _ _ E3) (Ext_put _ _))). }
      intro x. split; [intros _; exact (NPx_ext _ _ _ X HN x)|intro Ht; exfalso; lia].
  Qed.

  (* ---------- one record ---------- *)
  Lemma record_stepsB mc st r now s1 s2 s3 s4 s7 rdlen :
    NamesOkB hdr st -> wf_record r -> e_size st <= C_MAX_MSG_ABSOLUTE ->
    write_name st (p_name r) = Ok s1 ->
    write_short s1 (p_type_ r) = Ok s2 ->
    write_record_class mc s2 r = Ok s3 ->
    write_int s3 (ttl_field r now) = Ok s4 ->
    0 <= rdlen <= 65535 ->
    write_rdata (put s4 [rdlen / 256; rdlen mod 256]) r = Ok s7 ->
    rdlen = e_size s7 - (e_size s4 + 2) ->
    NamesOkB hdr s7 /\ forall x, srecordN (buf hdr s7 ++ x) (e_size st).
  Proof.
    intros HokB [Hwn Hwr] Hlim E1 E2 E3 E4 Hrd E7 Hrdlen.
    pose proof (NamesOkB_NamesOk _ _ HokB) as Hok.
    unfold C_MAX_MSG_ABSOLUTE in Hlim.
    rewrite write_record_class_eq in E3.
    destruct (name_step hdr Hhdr st s1 _ Hok Hwn ltac:(lia) E1) as (S1 & Z1 & B1). pose proof S1 as (Hok1 & X1 & _).
    destruct (short_step hdr Hhdr s1 _ s2 Hok1 E2) as (S2 & Z2 & V2 & B2). pose proof S2 as (Hok2 & X2 & _).
    destruct (short_step hdr Hhdr s2 _ s3 Hok2 E3) as (S3 & Z3 & V3 & B3). pose proof S3 as (Hok3 & X3 & _).
    destruct (int_step hdr Hhdr s3 _ s4 Hok3 E4) as (t1 & t2 & S4 & Z4 & Httl & B4). pose proof S4 as (Hok4 & X4 & _).
    set (s5 := put s4 [rdlen / 256; rdlen mod 256]) in *.
    assert (E5 : write_short s4 rdlen = Ok s5).
    { unfold write_short. replace ((rdlen <? 0) || (65535 <? rdlen)) with false by lia. reflexivity. }
    destruct (short_step hdr Hhdr s4 _ s5 Hok4 E5) as (S5 & Z5 & V5 & B5). pose proof S5 as (Hok5 & X5 & _).
    destruct (rdata_step hdr Hhdr 0 mc now r s5 s7 (e_size st) (e_size s1) Hok5 Hwr ltac:(lia) ltac:(lia) E7)
      as (S7 & _). pose proof S7 as (Hok7 & X7 & _).
    (* the strengthened invariant along the same path *)
    destruct (name_stepNP st s1 _ HokB Hwn ltac:(lia) E1) as (HokB1 & HN1).
    pose proof (short_B _ _ _ HokB1 E2) as HokB2. pose proof (short_B _ _ _ HokB2 E3) as HokB3.
    pose proof (int_B _ _ _ HokB3 E4) as HokB4. pose proof (short_B _ _ _ HokB4 E5) as HokB5.
    destruct (rdata_stepB r s5 s7 HokB5 Hwr ltac:(lia) E7) as (HokB7 & HN7).
    split; [exact HokB7|].
    assert (X57 := X7). assert (X47 := Ext_trans _ _ _ X5 X57). assert (X37 := Ext_trans _ _ _ X4 X47).
    assert (X27 := Ext_trans _ _ _ X3 X37). assert (X17 := Ext_trans _ _ _ X2 X27).
    intro x. split; [exact (NPx_ext _ _ _ X17 HN1 x)|].
    intros name o ty Hs Hty.
    assert (H1 : sname (buf hdr s7 ++ x) (e_size st) = Some (p_name r, e_size s1)).
    { pattern (buf hdr s7 ++ x). apply (lift hdr _ s1 s7 x X17). exact B1. }
    rewrite H1 in Hs. inversion Hs; subst name o. clear Hs.
    assert (H2 : su16 (buf hdr s7 ++ x) (e_size s1) = Some (p_type_ r)).
    { pattern (buf hdr s7 ++ x). apply (lift hdr _ s2 s7 x X27). exact B2. }
    rewrite H2 in Hty. inversion Hty; subst ty. clear Hty.
    replace (e_size s1 + 10) with (e_size s5) by lia. apply HN7.
  Qed.

  Lemma NamesOkB_allow s : NamesOkB hdr s ->
    NamesOkB hdr {| e_rev := e_rev s; e_size := e_size s; e_names := e_names s; e_allow_long := false |}.
  Proof. intro H. exact H. Qed.

  Lemma write_record_fitB mc st r now st' :
    NamesOkB hdr st -> wf_record r -> e_size st <= C_MAX_MSG_ABSOLUTE ->
    write_record mc st r now = Ok (st', true) ->
    NamesOkB hdr st' /\ forall x, srecordN (buf hdr st' ++ x) (e_size st).
  Proof.
    intros Hok Hwf Hlim Hw.
    destruct (write_record_linear mc st r now _ Hw)
      as (s1 & s2 & s3 & s4 & s7 & rdlen & E1 & E2 & E3 & E4 & Hrd & E7 & Hrdlen & Hres).
    destruct (record_stepsB mc st r now s1 s2 s3 s4 s7 rdlen Hok Hwf Hlim E1 E2 E3 E4 Hrd E7 Hrdlen) as (Hok7 & HN).
    symmetry in Hres. apply check_fit in Hres. destruct Hres as [-> _].
    split; [apply NamesOkB_allow; exact Hok7|]. exact HN.
  Qed.

  Lemma write_record_rollbackB mc st r now st' :
    NamesOkB hdr st -> wf_record r -> e_size st <= C_MAX_MSG_ABSOLUTE ->
    write_record mc st r now = Ok (st', false) -> NamesOkB hdr st'.
  Proof.
    intros Hok Hwf Hlim Hw.
    destruct (write_record_linear mc st r now _ Hw)
      as (s1 & s2 & s3 & s4 & s7 & rdlen & E1 & E2 & E3 & E4 & Hrd & E7 & Hrdlen & Hres).
    destruct (record_steps hdr Hhdr mc st r now 0 s1 s2 s3 s4 s7 rdlen (NamesOkB_NamesOk _ _ Hok) Hwf Hlim
                E1 E2 E3 E4 Hrd E7 Hrdlen) as ((_ & _ & F7 & _) & _ & _).
    symmetry in Hres. apply check_rollback in Hres. subst st'.
    apply NamesOkB_rollback; assumption.
  Qed.

  (* ---------- one question ---------- *)
  Lemma question_stepsB mc st q s1 s2 s3 :
    NamesOkB hdr st -> wf_question q -> e_size st <= C_MAX_MSG_ABSOLUTE ->
    write_name st (p_name q) = Ok s1 -> write_short s1 (p_type_ q) = Ok s2 -> write_record_class mc s2 q = Ok s3 ->
    NamesOkB hdr s3 /\ Frame st s3 /\
    forall x, NP (buf hdr s3 ++ x) (e_size st) /\
              sname (buf hdr s3 ++ x) (e_size st) = Some (p_name q, e_size s3 - 4).
  Proof.
    intros HokB Hwn Hlim E1 E2 E3. unfold C_MAX_MSG_ABSOLUTE in Hlim.
    pose proof (NamesOkB_NamesOk _ _ HokB) as Hok.
    destruct (question_steps hdr Hhdr mc st q s1 s2 s3 Hok Hwn ltac:(unfold C_MAX_MSG_ABSOLUTE; lia) E1 E2 E3)
      as ((_ & _ & F3 & _) & _ & _).
    rewrite write_record_class_eq in E3.
    destruct (name_step hdr Hhdr st s1 _ Hok Hwn ltac:(lia) E1) as (S1 & Z1 & B1). pose proof S1 as (Hok1 & X1 & _).
    destruct (short_step hdr Hhdr s1 _ s2 Hok1 E2) as (S2 & Z2 & V2 & B2). pose proof S2 as (Hok2 & X2 & _).
    destruct (short_step hdr Hhdr s2 _ s3 Hok2 E3) as (S3 & Z3 & V3 & B3). pose proof S3 as (Hok3 & X3 & _).
    destruct (name_stepNP st s1 _ HokB Hwn ltac:(lia) E1) as (HokB1 & HN1).
    split; [exact (short_B _ _ _ (short_B _ _ _ HokB1 E2) E3)|]. split; [exact F3|].
    assert (X13 := Ext_trans _ _ _ X2 X3).
    intro x. split; [exact (NPx_ext _ _ _ X13 HN1 x)|].
    replace (e_size s3 - 4) with (e_size s1) by lia.
    pattern (buf hdr s3 ++ x). apply (lift hdr _ s1 s3 x X13). exact B1.
  Qed.

  Lemma write_question_NP mc st q st' fit :
    NamesOkB hdr st -> wf_question q -> e_size st <= C_MAX_MSG_ABSOLUTE ->
    write_question mc st q = Ok (st', fit) ->
    NamesOkB hdr st' /\
    (fit = true -> forall x, NP (buf hdr st' ++ x) (e_size st) /\
                             sname (buf hdr st' ++ x) (e_size st) = Some (p_name q, e_size st' - 4)).
  Proof.
    intros Hok Hwf Hlim Hw. unfold write_question in Hw.
    destruct (write_name st (p_name q)) as [s1|e] eqn:E1; [|discriminate]. cbn [bind] in Hw.
    destruct (write_short s1 (p_type_ q)) as [s2|e] eqn:E2; [|discriminate]. cbn [bind] in Hw.
    destruct (write_record_class mc s2 q) as [s3|e] eqn:E3; [|discriminate]. cbn [bind] in Hw.
    inversion Hw as [Hres]. clear Hw.
    destruct (question_stepsB mc st q s1 s2 s3 Hok Hwf Hlim E1 E2 E3) as (Hok3 & F3 & HN).
    destruct fit.
    - apply check_fit in Hres. destruct Hres as [-> _].
      split; [apply NamesOkB_allow; exact Hok3|]. intros _. exact HN.
    - apply check_rollback in Hres. subst st'.
      split; [apply NamesOkB_rollback; assumption|]. intro H; discriminate H.
  Qed.
End RecB.

(* ---------- the section loops ---------- *)
Section LoopsB.
  Variable hdr : bytes.
  Hypothesis Hhdr : length hdr = 12%nat.
  Variable mc : bool.

  Lemma questions_loopB : forall qs st n st' n',
    NamesOkB hdr st -> Forall wf_question qs -> e_size st <= C_MAX_MSG_ABSOLUTE ->
    write_questions mc st qs n = Ok (st', n') ->
    NamesOkB hdr st' /\ (n <= n')%nat /\
    forall rest m, squestionsN (buf hdr st' ++ rest) m (e_size st') ->
                   squestionsN (buf hdr st' ++ rest) ((n' - n) + m) (e_size st).
  Proof.
    induction qs as [|q qs IH]; intros st n st' n' Hok Hwf Hlim Hw.
    - cbn [write_questions] in Hw. inversion Hw; subst. split; [exact Hok|]. split; [lia|].
      intros rest m H. replace (n' - n' + m)%nat with m by lia. exact H.
    - inversion Hwf as [|q' qs' Hq Hqs]; subst q' qs'.
      cbn [write_questions] in Hw.
      destruct (write_question mc st q) as [[st1 fit]|e] eqn:E; [|discriminate]. cbn [bind] in Hw.
      pose proof (NamesOkB_NamesOk _ _ Hok) as HokA.
      destruct (write_question_NP hdr Hhdr mc st q st1 fit Hok Hq Hlim E) as (Hok1 & HN).
      destruct fit.
      + destruct (write_question_fit hdr Hhdr mc st q 0 st1 [] 0%nat [] HokA Hq Hlim E) as (HokA1 & X1 & Z1 & _ & _).
        destruct (IH st1 (S n) st' n' Hok1 Hqs ltac:(lia) Hw) as (Hok' & Hn & P').
        destruct (questions_loop hdr Hhdr mc qs st1 (S n) st' n' HokA1 Hqs ltac:(lia) Hw) as (k & _ & _ & _ & X' & _ & _).
        split; [exact Hok'|]. split; [lia|].
        intros rest m H.
        replace (n' - n + m)%nat with (S (n' - S n + m)) by (clear - Hn; lia). cbn [squestionsN].
        assert (HN' : NP (buf hdr st' ++ rest) (e_size st) /\
                      sname (buf hdr st' ++ rest) (e_size st) = Some (p_name q, e_size st1 - 4)).
        { pattern (buf hdr st' ++ rest). apply (lift hdr _ st1 st' rest X'). exact (HN eq_refl). }
        destruct HN' as [HNP Hs]. split; [exact HNP|].
        intros name o Hs'. rewrite Hs in Hs'. inversion Hs'; subst name o.
        replace (e_size st1 - 4 + 4) with (e_size st1) by lia. apply P'. exact H.
      + inversion Hw; subst st' n'. clear Hw.
        destruct (write_question_rollback hdr Hhdr mc st q st1 HokA Hq Hlim E) as (_ & Hr & Hs & _).
        split; [exact Hok1|]. split; [lia|].
        intros rest m H. replace (n - n + m)%nat with m by lia. rewrite <- Hs. exact H.
  Qed.

  Lemma records_loopB : forall rs st n st' n',
    NamesOkB hdr st -> Forall (fun rn => wf_record (fst rn)) rs -> e_size st <= C_MAX_MSG_ABSOLUTE ->
    write_records mc st rs n = Ok (st', n') ->
    NamesOkB hdr st' /\ (n <= n')%nat /\
    forall rest now' m, srecordsN (buf hdr st' ++ rest) now' m (e_size st') ->
                        srecordsN (buf hdr st' ++ rest) now' ((n' - n) + m) (e_size st).
  Proof.
    induction rs as [|[r now] rs IH]; intros st n st' n' Hok Hwf Hlim Hw.
    - cbn [write_records] in Hw. inversion Hw; subst. split; [exact Hok|]. split; [lia|].
      intros rest now' m H. replace (n' - n' + m)%nat with m by lia. exact H.
    - inversion Hwf as [|q' qs' Hq Hqs]; subst q' qs'. cbn [fst] in Hq.
      cbn [write_records] in Hw.
      destruct (write_record mc st r now) as [[st1 fit]|e] eqn:E; [|discriminate]. cbn [bind] in Hw.
      pose proof (NamesOkB_NamesOk _ _ Hok) as HokA.
      destruct fit.
      + destruct (write_record_fitB hdr Hhdr mc st r now st1 Hok Hq Hlim E) as (Hok1 & HN).
        assert (Hfit := fun now' rest => write_record_fit hdr Hhdr mc st r now now' st1 rest HokA Hq Hlim E).
        destruct (Hfit 0 []) as (HokA1 & X1 & Z1 & _ & _).
        destruct (IH st1 (S n) st' n' Hok1 Hqs ltac:(lia) Hw) as (Hok' & Hn & P').
        destruct (records_loop hdr Hhdr mc rs st1 (S n) st' n' HokA1 Hqs ltac:(lia) Hw) as (k & _ & _ & _ & X' & _ & _).
        split; [exact Hok'|]. split; [lia|].
        intros rest now' m H.
        replace (n' - n + m)%nat with (S (n' - S n + m)) by (clear - Hn; lia). cbn [srecordsN].
        split.
        * pattern (buf hdr st' ++ rest). apply (lift hdr _ st1 st' rest X'). exact HN.
        * assert (H1 : srecord (buf hdr st' ++ rest) now' (e_size st)
                       = Some (Some (expected_record mc now now' r), e_size st1)).
          { pattern (buf hdr st' ++ rest). apply (lift hdr _ st1 st' rest X'). intro x.
            destruct (Hfit now' x) as (_ & _ & _ & _ & H0). exact H0. }
          intros r0 e0 Hr. rewrite H1 in Hr. inversion Hr; subst r0 e0. apply P'. exact H.
      + inversion Hw; subst st' n'. clear Hw.
        destruct (write_record_rollback hdr Hhdr mc st r now st1 HokA Hq Hlim E) as (_ & Hr & Hs & _).
        split; [exact (write_record_rollbackB hdr Hhdr mc st r now st1 Hok Hq Hlim E)|]. split; [lia|].
        intros rest now' m H. replace (n - n + m)%nat with m by lia. rewrite <- Hs. exact H.
  Qed.
End LoopsB.

(* ---------- one datagram ---------- *)
Lemma one_packetN mc now' qs ans auth adds s1 nq s2 na s3 nau s4 nad idv flags :
  Forall wf_question qs -> Forall (fun rn => wf_record (fst rn)) ans -> Forall wf_record auth -> Forall wf_record adds ->
  write_questions mc enc_init qs 0 = Ok (s1, nq) ->
  write_records mc s1 ans 0 = Ok (s2, na) ->
  write_records mc s2 (map (fun r => (r, 0)) auth) 0 = Ok (s3, nau) ->
  write_records mc s3 (map (fun r => (r, 0)) adds) 0 = Ok (s4, nad) ->
  0 <= idv <= 65535 -> 0 <= flags <= 65535 ->
  parseN (short_bytes idv ++ short_bytes flags ++ short_bytes (Z.of_nat nq) ++ short_bytes (Z.of_nat na)
          ++ short_bytes (Z.of_nat nau) ++ short_bytes (Z.of_nat nad) ++ rev (e_rev s4)) now'.
Proof.
  intros Hq Ha Hu Hd E1 E2 E3 E4 Hid Hfl.
  set (hdr := short_bytes idv ++ short_bytes flags ++ short_bytes (Z.of_nat nq) ++ short_bytes (Z.of_nat na)
              ++ short_bytes (Z.of_nat nau) ++ short_bytes (Z.of_nat nad)).
  assert (Hhdr : length hdr = 12%nat) by reflexivity.
  assert (Hu' : Forall (fun rn : pyrec * Z => wf_record (fst rn)) (map (fun r => (r, 0)) auth)).
  { apply Forall_map. exact Hu. }
  assert (Hd' : Forall (fun rn : pyrec * Z => wf_record (fst rn)) (map (fun r => (r, 0)) adds)).
  { apply Forall_map. exact Hd. }
  assert (Hinit : e_size enc_init <= C_MAX_MSG_ABSOLUTE) by (cbn; unfold C_MAX_MSG_ABSOLUTE, C_DNS_PACKET_HEADER_LEN; lia).
  destruct (questions_loop hdr Hhdr mc qs enc_init 0 s1 nq (NamesOk_init hdr Hhdr) Hq Hinit E1)
    as (kq & Hkq & Lq & Hok1 & X1 & Z1 & P1).
  destruct (records_loop hdr Hhdr mc ans s1 0 s2 na Hok1 Ha ltac:(lia) E2)
    as (ka & Hka & La & Hok2 & X2 & Z2 & P2).
  destruct (records_loop hdr Hhdr mc _ s2 0 s3 nau Hok2 Hu' ltac:(lia) E3)
    as (ku & Hku & Lu & Hok3 & X3 & Z3 & P3).
  destruct (records_loop hdr Hhdr mc _ s3 0 s4 nad Hok3 Hd' ltac:(lia) E4)
    as (kd & Hkd & Ld & Hok4 & X4 & Z4 & P4).
  cbn [plus] in Hkq, Hka, Hku, Hkd. subst kq ka ku kd.
  destruct (questions_loopB hdr Hhdr mc qs enc_init 0 s1 nq (NamesOkB_init hdr Hhdr) Hq Hinit E1) as (HokB1 & _ & N1).
  destruct (records_loopB hdr Hhdr mc ans s1 0 s2 na HokB1 Ha ltac:(lia) E2) as (HokB2 & _ & N2).
  destruct (records_loopB hdr Hhdr mc _ s2 0 s3 nau HokB2 Hu' ltac:(lia) E3) as (HokB3 & _ & N3).
  destruct (records_loopB hdr Hhdr mc _ s3 0 s4 nad HokB3 Hd' ltac:(lia) E4) as (_ & _ & N4).
  rewrite Nat.sub_0_r in N1, N2, N3, N4.
  change (e_size enc_init) with 12 in *. unfold C_MAX_MSG_ABSOLUTE in *.
  set (D := buf hdr s4).
  assert (HD : short_bytes idv ++ short_bytes flags ++ short_bytes (Z.of_nat nq) ++ short_bytes (Z.of_nat na)
     ++ short_bytes (Z.of_nat nau) ++ short_bytes (Z.of_nat nad) ++ rev (e_rev s4) = D).
  { unfold D, buf, hdr. rewrite <- !app_assoc. reflexivity. }
  rewrite HD.
  assert (X24 := Ext_trans _ _ _ X3 X4). assert (X14 := Ext_trans _ _ _ X2 X24).
  (* the strict question section ends where the encoder's did *)
  assert (Q : squestions D now' nq 12 [] = Some (map (exp_q mc now') (firstn nq qs), e_size s1)).
  { rewrite <- (app_nil_r D). unfold D. pattern (buf hdr s4 ++ []).
    apply (lift hdr _ s1 s4 [] X14). intro x.
    pose proof (P1 x now' 0%nat []) as H. rewrite Nat.add_0_r in H. cbn [squestions app] in H. exact H. }
  (* name positions *)
  assert (NQ : squestionsN D nq 12).
  { rewrite <- (app_nil_r D). unfold D. pattern (buf hdr s4 ++ []).
    apply (lift hdr _ s1 s4 [] X14). intro x.
    pose proof (N1 x 0%nat I) as H. rewrite Nat.add_0_r in H. exact H. }
  assert (NR3 : srecordsN D now' nad (e_size s3)).
  { rewrite <- (app_nil_r D). unfold D.
    pose proof (N4 [] now' 0%nat I) as H. rewrite Nat.add_0_r in H. exact H. }
  assert (NR2 : srecordsN D now' (nau + nad) (e_size s2)).
  { revert NR3. rewrite <- (app_nil_r D). unfold D. pattern (buf hdr s4 ++ []).
    apply (lift hdr _ s3 s4 [] X4). intro x. apply N3. }
  assert (NR1 : srecordsN D now' (na + (nau + nad)) (e_size s1)).
  { revert NR2. rewrite <- (app_nil_r D). unfold D. pattern (buf hdr s4 ++ []).
    apply (lift hdr _ s2 s4 [] X24). intro x. apply N2. }
  (* header *)
  pose proof (su16_hdr ((idv / 256) mod 256) (idv mod 256) ((flags / 256) mod 256) (flags mod 256)
                       ((Z.of_nat nq / 256) mod 256) (Z.of_nat nq mod 256)
                       ((Z.of_nat na / 256) mod 256) (Z.of_nat na mod 256)
                       ((Z.of_nat nau / 256) mod 256) (Z.of_nat nau mod 256)
                       ((Z.of_nat nad / 256) mod 256) (Z.of_nat nad mod 256) (rev (e_rev s4))) as HH.
  cbv zeta in HH.
  change (((idv / 256) mod 256) :: (idv mod 256) :: ((flags / 256) mod 256) :: (flags mod 256)
          :: ((Z.of_nat nq / 256) mod 256) :: (Z.of_nat nq mod 256)
          :: ((Z.of_nat na / 256) mod 256) :: (Z.of_nat na mod 256)
          :: ((Z.of_nat nau / 256) mod 256) :: (Z.of_nat nau mod 256)
          :: ((Z.of_nat nad / 256) mod 256) :: (Z.of_nat nad mod 256) :: (rev (e_rev s4))) with D in HH.
  destruct HH as (_ & _ & H4 & H6 & H8 & H10).
  assert (Bq : 0 <= Z.of_nat nq <= 65535) by (clear - Z1; lia).
  assert (Ba : 0 <= Z.of_nat na <= 65535) by (clear - Z1 Z2; lia).
  assert (Bu : 0 <= Z.of_nat nau <= 65535) by (clear - Z1 Z2 Z3; lia).
  assert (Bd : 0 <= Z.of_nat nad <= 65535) by (clear - Z1 Z2 Z3 Z4; lia).
  rewrite (short_val _ Bq) in H4. rewrite (short_val _ Ba) in H6.
  rewrite (short_val _ Bu) in H8. rewrite (short_val _ Bd) in H10.
  intros nq' na' nau' nad' G4 G6 G8 G10.
  rewrite H4 in G4. rewrite H6 in G6. rewrite H8 in G8. rewrite H10 in G10.
  inversion G4; subst nq'. inversion G6; subst na'. inversion G8; subst nau'. inversion G10; subst nad'.
  rewrite Nat2Z.id. split; [exact NQ|].
  intros qs0 o Hq0. rewrite Q in Hq0. inversion Hq0; subst qs0 o.
  replace (Z.to_nat (Z.of_nat na + Z.of_nat nau + Z.of_nat nad)) with (na + (nau + nad))%nat by (clear; lia).
  exact NR1.
Qed.

Print Assumptions one_packetN.
