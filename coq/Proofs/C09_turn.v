(* C09 (parts 2 and 3): the rename loop never runs out of fuel; what one resumption of async_check_service does. *)
From Coq Require Import ZArith List Bool Lia ZifyBool.
From ZC Require Import Model.Base Model.PyRec Model.Dict Model.Re Model.Utf8 Model.Names Model.Cache Model.Respond Gen.Const Gen.DnsPure
  Model.Register Proofs.C09_dec.
Ltac Zify.zify_post_hook ::= Z.to_euclidean_division_equations.

(* ---- vocabulary ---- *)
(* some unexpired PTR record for the type [ty] in the cache points at [name] *)
Definition name_taken (c : cache) (now : Z) (ty name : text) : Prop :=
  current_entry_with_name_and_alias c now ty name <> None.
Definition taken_at (c : cache) (now : Z) (s : svc) : Prop := name_taken c now (s_type s) (s_name s).
Definition free_at (c : cache) (now : Z) (s : svc) : Prop :=
  current_entry_with_name_and_alias c now (s_type s) (s_name s) = None.

Definition probe_of (now : Z) (s : svc) : chk_out := CProbe now (probe_question s) (dns_pointer s).
Definition is_probe (o : chk_out) : Prop := match o with CProbe _ _ _ => True | _ => False end.
Definition ends_with (outs : list chk_out) (o : chk_out) : Prop := exists pre, outs = pre ++ [o].

(* the state after one renaming step, and after one probe *)
Definition renamed (k : chk) (now : Z) : chk :=
  {| ck_svc := with_name (ck_svc k) (cand (ck_instance k) (s_type (ck_svc k)) (ck_num k));
     ck_instance := ck_instance k; ck_num := ck_num k + 1; ck_next := now; ck_i := 0;
     ck_allow := ck_allow k; ck_strict := ck_strict k |}.
Definition bump (k : chk) : chk :=
  {| ck_svc := ck_svc k; ck_instance := ck_instance k; ck_num := ck_num k;
     ck_next := ck_next k + C_CHECK_TIME; ck_i := ck_i k + 1;
     ck_allow := ck_allow k; ck_strict := ck_strict k |}.

Lemma rename_loop_eq f c now k :
  rename_loop f c now k =
  match current_entry_with_name_and_alias c now (s_type (ck_svc k)) (s_name (ck_svc k)) with
  | None => Some (Ok k)
  | Some _ =>
      if negb (ck_allow k) then Some (Raise NonUniqueName) else
      match f with
      | O => None
      | S f' =>
          match service_type_name (ck_strict k) (cand (ck_instance k) (s_type (ck_svc k)) (ck_num k)) with
          | Raise e => Some (Raise e)
          | Ok _ => rename_loop f' c now (renamed k now)
          end
      end
  end.
Proof. destruct f; reflexivity. Qed.

Lemma check_loop_S f c now k acc :
  check_loop (S f) c now k acc =
  if negb (ck_i k <? C_REGISTER_BROADCASTS) then (k, acc ++ [CDone]) else
  match rename_loop (rename_fuel c k) c now k with
  | None => (k, acc ++ [CRaise OtherError])
  | Some (Raise e) => (k, acc ++ [CRaise e])
  | Some (Ok k1) =>
      if now <? ck_next k1 then (k1, acc ++ [CWait (ck_next k1 - now)])
      else check_loop f c now (bump k1) (acc ++ [probe_of now (ck_svc k1)])
  end.
Proof. reflexivity. Qed.

Lemma with_name_same s : with_name s (s_name s) = s.
Proof. destruct s; reflexivity. Qed.

Lemma taken_alias c now ty name r :
  current_entry_with_name_and_alias c now ty name = Some r -> In name (map p_alias (entries_with_name c ty)).
Proof.
  unfold current_entry_with_name_and_alias. intro H. apply find_some in H as [HIn Hp].
  apply andb_true_iff in Hp as [_ Ha]. apply text_eqb_eq in Ha. subst name.
  apply in_map. apply in_rev. exact HIn.
Qed.

Lemma rename_free f c now k : free_at c now (ck_svc k) -> rename_loop f c now k = Some (Ok k).
Proof. intro H. rewrite rename_loop_eq. unfold free_at in H. rewrite H. reflexivity. Qed.

(* ---- 2. the rename loop ---- *)
(* what a successful run of the inner while loop did *)
Lemma rename_loop_spec c now : forall f k k1,
  rename_loop f c now k = Some (Ok k1) ->
  free_at c now (ck_svc k1) /\
  (k1 = k \/
   (taken_at c now (ck_svc k) /\ ck_allow k = true /\
    ck_svc k1 = with_name (ck_svc k) (cand (ck_instance k) (s_type (ck_svc k)) (ck_num k1 - 1)) /\
    ck_instance k1 = ck_instance k /\ ck_allow k1 = ck_allow k /\ ck_strict k1 = ck_strict k /\
    ck_i k1 = 0 /\ ck_next k1 = now /\ ck_num k < ck_num k1 /\
    (forall j, ck_num k <= j < ck_num k1 - 1 ->
               name_taken c now (s_type (ck_svc k)) (cand (ck_instance k) (s_type (ck_svc k)) j)))).
Proof.
  induction f as [|f IH]; intros k k1; rewrite rename_loop_eq;
    destruct (current_entry_with_name_and_alias c now (s_type (ck_svc k)) (s_name (ck_svc k))) as [r|] eqn:E.
  - destruct (negb (ck_allow k)); discriminate.
  - intro H. inversion H; subst k1. split; [exact E|left; reflexivity].
  - destruct (negb (ck_allow k)) eqn:A; [discriminate|].
    destruct (service_type_name (ck_strict k) (cand (ck_instance k) (s_type (ck_svc k)) (ck_num k))) as [t|e] eqn:ST;
      [|discriminate].
    intro H. apply IH in H as [Hfree Hcase]. split; [exact Hfree|]. right.
    assert (Htaken : taken_at c now (ck_svc k)) by (unfold taken_at, name_taken; rewrite E; discriminate).
    apply negb_false_iff in A.
    destruct Hcase as [Heq | (Ht & _ & Hsvc & Hinst & Hal & Hstr & Hi & Hnext & Hnum & Hall)].
    + subst k1. cbn [renamed ck_svc ck_instance ck_num ck_next ck_i ck_allow ck_strict].
      replace (ck_num k + 1 - 1) with (ck_num k) by lia.
      repeat split; try reflexivity; try assumption; try lia.
      all: try (intros j Hj; lia).
    + cbn [renamed ck_svc ck_instance ck_num ck_next ck_i ck_allow ck_strict with_name s_type] in Hsvc, Hinst, Hal, Hstr, Hnum, Hall.
      repeat split; try assumption; try lia.
      intros j Hj. destruct (Z.eq_dec j (ck_num k)) as [->|Hne].
      * unfold taken_at in Ht. cbn [renamed ck_svc with_name s_type s_name] in Ht. exact Ht.
      * apply Hall. lia.
  - intro H. inversion H; subst k1. split; [exact E|left; reflexivity].
Qed.

(* every conflict found after the first renaming is with a different cached alias *)
Lemma rename_loop_fuel_aux c now : forall f k seen,
  1 <= ck_num k ->
  s_name (ck_svc k) = cand (ck_instance k) (s_type (ck_svc k)) (ck_num k - 1) ->
  NoDup seen ->
  (forall x, In x seen -> In x (map p_alias (entries_with_name c (s_type (ck_svc k)))) /\
                          exists j, 0 <= j < ck_num k - 1 /\ x = cand (ck_instance k) (s_type (ck_svc k)) j) ->
  (length (entries_with_name c (s_type (ck_svc k))) <= length seen + f)%nat ->
  rename_loop f c now k <> None.
Proof.
  induction f as [|f IH]; intros k seen Hnum Hname Hnd Hseen Hlen; rewrite rename_loop_eq;
    destruct (current_entry_with_name_and_alias c now (s_type (ck_svc k)) (s_name (ck_svc k))) as [r|] eqn:E;
    try discriminate; destruct (negb (ck_allow k)); try discriminate.
  - (* no fuel left: one more distinct alias than the bucket holds *)
    exfalso. apply taken_alias in E.
    assert (Hnot : ~ In (s_name (ck_svc k)) seen).
    { intro HIn. apply Hseen in HIn as [_ (j & Hj & Ej)]. rewrite Hname in Ej.
      apply cand_inj in Ej; lia. }
    assert (Hnd' : NoDup (s_name (ck_svc k) :: seen)) by (constructor; assumption).
    assert (Hincl : incl (s_name (ck_svc k) :: seen) (map p_alias (entries_with_name c (s_type (ck_svc k))))).
    { intros x [Hx|Hx]; [subst x; exact E|apply Hseen; exact Hx]. }
    pose proof (NoDup_incl_length Hnd' Hincl) as HL. rewrite map_length in HL. cbn [length] in HL. lia.
  - destruct (service_type_name (ck_strict k) (cand (ck_instance k) (s_type (ck_svc k)) (ck_num k))); [|discriminate].
    apply taken_alias in E.
    assert (Hnot : ~ In (s_name (ck_svc k)) seen).
    { intro HIn. apply Hseen in HIn as [_ (j & Hj & Ej)]. rewrite Hname in Ej.
      apply cand_inj in Ej; lia. }
    apply (IH (renamed k now) (s_name (ck_svc k) :: seen));
      cbn [renamed ck_svc ck_instance ck_num with_name s_type s_name].
    + lia.
    + replace (ck_num k + 1 - 1) with (ck_num k) by lia. reflexivity.
    + constructor; assumption.
    + intros x [Hx|Hx].
      * subst x. split; [exact E|]. exists (ck_num k - 1). split; [lia|exact Hname].
      * apply Hseen in Hx as [Hx1 (j & Hj & Ej)]. split; [exact Hx1|]. exists j. split; [lia|exact Ej].
    + cbn [length]. lia.
Qed.

(* S (length bucket) would already be enough; the defined fuel S (S (length bucket)) has one to spare *)
Lemma rename_loop_fuel_gen c now k (f : nat) :
  0 <= ck_num k ->
  (S (length (entries_with_name c (s_type (ck_svc k)))) <= f)%nat ->
  rename_loop f c now k <> None.
Proof.
  intros Hnum Hf. rewrite rename_loop_eq.
  destruct (current_entry_with_name_and_alias c now (s_type (ck_svc k)) (s_name (ck_svc k))) as [r|] eqn:E;
    [|discriminate].
  destruct (negb (ck_allow k)); [discriminate|].
  destruct f as [|f]; [lia|].
  destruct (service_type_name (ck_strict k) (cand (ck_instance k) (s_type (ck_svc k)) (ck_num k))); [|discriminate].
  apply (rename_loop_fuel_aux c now f (renamed k now) []);
    cbn [renamed ck_svc ck_instance ck_num with_name s_type s_name].
  - lia.
  - replace (ck_num k + 1 - 1) with (ck_num k) by lia. reflexivity.
  - constructor.
  - intros x [].
  - cbn [length]. lia.
Qed.

Theorem rename_loop_fuel_ok : forall c now k, 2 <= ck_num k ->
  rename_loop (rename_fuel c k) c now k <> None.
Proof.
  intros c now k Hnum. apply rename_loop_fuel_gen; [lia|]. unfold rename_fuel. lia.
Qed.

(* ---- the exceptions of the rename loop ---- *)
Definition no_other {A} (r : result A) : Prop := r <> Raise OtherError.

Lemma no_other_cast {A B} e : no_other (@Raise A e) -> no_other (@Raise B e).
Proof. unfold no_other. intros H H1. apply H. inversion H1. reflexivity. Qed.

Lemma bind_no_other {A B} (r : result A) (f : A -> result B) :
  no_other r -> (forall a, no_other (f a)) -> no_other (bind r f).
Proof.
  intros Hr Hf. destruct r as [a|e]; cbn [bind]; [apply Hf|].
  exact (no_other_cast e Hr).
Qed.

Lemma utf8_encode_no_other s : no_other (utf8_encode s).
Proof.
  induction s as [|ch s IH]; cbn [utf8_encode]; [discriminate|].
  destruct (is_surrogate ch); [discriminate|].
  destruct (utf8_encode s) as [b|e]; [discriminate|exact IH].
Qed.

Lemma utf8_len_no_other s : no_other (utf8_len s).
Proof.
  unfold utf8_len. pose proof (utf8_encode_no_other s) as H.
  destruct (utf8_encode s) as [b|e]; [discriminate|exact (no_other_cast e H)].
Qed.

Ltac no_other_step :=
  match goal with
  | |- no_other (bind _ _) => apply bind_no_other; [|intros]
  | |- no_other (utf8_len _) => apply utf8_len_no_other
  | |- no_other (Ok _) => discriminate
  | |- no_other (Raise _) => discriminate
  | |- no_other (if ?b then _ else _) => destruct b
  | |- no_other (match ?x with _ => _ end) => destruct x
  end.

Lemma check_service_no_other strict ty remaining : no_other (check_service strict ty remaining).
Proof. unfold check_service, pop, first_cp, last_cp. repeat no_other_step. Qed.

Lemma check_instance_no_other remaining : no_other (check_instance remaining).
Proof. unfold check_instance. repeat no_other_step. Qed.

Lemma service_type_name_no_other strict t : no_other (service_type_name strict t).
Proof.
  unfold service_type_name.
  destruct (256 <? len t); [discriminate|].
  apply bind_no_other; [repeat no_other_step|]. intros [[remaining trailer] has_protocol].
  apply bind_no_other.
  - destruct (strict || has_protocol); [apply check_service_no_other|discriminate].
  - intros [remaining' service_name]. apply bind_no_other; [apply check_instance_no_other|].
    intros _. discriminate.
Qed.

Lemma rename_loop_raises c now : forall f k e,
  rename_loop f c now k = Some (Raise e) ->
  taken_at c now (ck_svc k) /\ e <> OtherError.
Proof.
  induction f as [|f IH]; intros k e; rewrite rename_loop_eq;
    destruct (current_entry_with_name_and_alias c now (s_type (ck_svc k)) (s_name (ck_svc k))) as [r|] eqn:E;
    try discriminate;
    (assert (Htaken : taken_at c now (ck_svc k)) by (unfold taken_at, name_taken; rewrite E; discriminate));
    destruct (negb (ck_allow k)).
  - intro H. inversion H. split; [exact Htaken|discriminate].
  - discriminate.
  - intro H. inversion H. split; [exact Htaken|discriminate].
  - pose proof (service_type_name_no_other (ck_strict k) (cand (ck_instance k) (s_type (ck_svc k)) (ck_num k))) as HN.
    destruct (service_type_name (ck_strict k) (cand (ck_instance k) (s_type (ck_svc k)) (ck_num k))) as [t|e'].
    + intro H. apply IH in H as [_ H]. split; [exact Htaken|exact H].
    + intro H. inversion H; subst e'. split; [exact Htaken|]. intro He. subst e. apply HN. reflexivity.
Qed.

(* ---- 3. one turn, unconditionally (any state, any fuel) ---- *)
Definition final_ok (now : Z) (k k' : chk) (final : chk_out) : Prop :=
  match final with
  | CProbe _ _ _ => False
  | CWait ms => ms = ck_next k' - now /\ 0 < ms /\ ck_i k' < 3
  | CDone => 3 <= ck_i k' /\ (ck_i k <= 3 -> ck_i k' = 3)
  | CRaise _ => True
  end.

Lemma check_loop_master c now : forall f k acc k' outs,
  (acc = [] \/ free_at c now (ck_svc k)) ->
  check_loop f c now k acc = (k', outs) ->
  exists probes final,
    outs = acc ++ probes ++ [final] /\ final_ok now k k' final /\
    (forall o, In o probes -> o = probe_of now (ck_svc k') /\ free_at c now (ck_svc k')) /\
    s_type (ck_svc k') = s_type (ck_svc k) /\
    (acc <> [] -> ck_svc k' = ck_svc k /\ ck_num k' = ck_num k).
Proof.
  induction f as [|f IH]; intros k acc k' outs Hacc.
  - cbn [check_loop]. intro H. inversion H; subst k' outs. exists [], (CRaise OtherError).
    cbn [app final_ok]. split; [reflexivity|]. split; [exact I|]. split; [intros o []|].
    split; [reflexivity|]. intros _. split; reflexivity.
  - rewrite check_loop_S. unfold C_REGISTER_BROADCASTS.
    destruct (negb (ck_i k <? 3)) eqn:Ei.
    { intro H. inversion H; subst k' outs. exists [], CDone. cbn [app final_ok].
      split; [reflexivity|]. split; [lia|]. split; [intros o []|].
      split; [reflexivity|]. intros _. split; reflexivity. }
    destruct (rename_loop (rename_fuel c k) c now k) as [[k1|e]|] eqn:R.
    + apply rename_loop_spec in R as [Hfree Hcase].
      assert (Hk1 : s_type (ck_svc k1) = s_type (ck_svc k) /\ ck_i k1 < 3 /\
                    (acc <> [] -> ck_svc k1 = ck_svc k /\ ck_num k1 = ck_num k)).
      { destruct Hcase as [->|(Ht & _ & Hsvc & _ & _ & _ & Hi & _)].
        - repeat split; auto. lia.
        - rewrite Hsvc. cbn [with_name s_type]. split; [reflexivity|]. split; [lia|].
          intro Hne. destruct Hacc as [Hacc|Hacc]; [contradiction|].
          exfalso. apply Ht. exact Hacc. }
      destruct Hk1 as (Hty & Hi1 & Hsame).
      destruct (now <? ck_next k1) eqn:En.
      * intro H. inversion H; subst k' outs. exists [], (CWait (ck_next k1 - now)).
        cbn [app final_ok]. split; [reflexivity|]. split; [lia|]. split; [intros o []|].
        split; [exact Hty|exact Hsame].
      * intro H. apply IH in H; [|right; exact Hfree].
        destruct H as (probes & final & Houts & Hfin & Hprobes & Hty' & Hsame').
        cbn [bump ck_svc ck_num ck_i] in Hfin, Hty', Hsame'.
        destruct Hsame' as [Hs1 Hn1]; [intro Hnil; apply app_eq_nil in Hnil as [_ Hnil]; discriminate|].
        exists (probe_of now (ck_svc k1) :: probes), final.
        split; [rewrite Houts, <- app_assoc; reflexivity|].
        split.
        { destruct final as [t q a|ms|e|]; cbn [final_ok bump ck_i] in *; auto.
          destruct Hfin as [H3 Heq]. split; [exact H3|]. intros _. apply Heq. lia. }
        split.
        { intros o [Ho|Ho]; [|apply Hprobes; exact Ho]. subst o. rewrite Hs1. split; [reflexivity|exact Hfree]. }
        split; [congruence|].
        intro Hne. destruct (Hsame Hne) as [Hs2 Hn2]. split; congruence.
    + intro H. inversion H; subst k' outs. exists [], (CRaise e). cbn [app final_ok].
      split; [reflexivity|]. split; [exact I|]. split; [intros o []|].
      split; [reflexivity|]. intros _. split; reflexivity.
    + intro H. inversion H; subst k' outs. exists [], (CRaise OtherError). cbn [app final_ok].
      split; [reflexivity|]. split; [exact I|]. split; [intros o []|].
      split; [reflexivity|]. intros _. split; reflexivity.
Qed.

(* 3a + 3b + 3e in one statement *)
Theorem turn_shape : forall c now k k' outs, check_turn c now k = (k', outs) ->
  exists probes final,
    outs = probes ++ [final] /\
    (forall o, In o probes -> o = CProbe now (probe_question (ck_svc k')) (dns_pointer (ck_svc k'))) /\
    ~ is_probe final.
Proof.
  intros c now k k' outs H. unfold check_turn in H.
  apply check_loop_master in H; [|left; reflexivity].
  destruct H as (probes & final & Houts & Hfin & Hprobes & _).
  exists probes, final. split; [exact Houts|]. split.
  - intros o Ho. apply Hprobes in Ho as [Ho _]. exact Ho.
  - destruct final; cbn [final_ok is_probe] in *; auto.
Qed.

Theorem turn_probes : forall c now k k' outs t q auth, check_turn c now k = (k', outs) ->
  In (CProbe t q auth) outs ->
  t = now /\ q = probe_question (ck_svc k') /\ auth = dns_pointer (ck_svc k') /\
  p_name q = s_type (ck_svc k) /\ p_type_ q = C_TYPE_PTR /\ p_class_ q = C_CLASS_IN_UNIQUE /\
  current_entry_with_name_and_alias c now (s_type (ck_svc k')) (s_name (ck_svc k')) = None.
Proof.
  intros c now k k' outs t q auth H HIn. unfold check_turn in H.
  apply check_loop_master in H; [|left; reflexivity].
  destruct H as (probes & final & Houts & Hfin & Hprobes & Hty & _).
  subst outs. cbn [app] in HIn. apply in_app_or in HIn as [HIn|[HIn|[]]].
  - apply Hprobes in HIn as [Ho Hfree]. unfold probe_of in Ho. inversion Ho; subst.
    cbn [probe_question p_name p_type_ p_class_]. repeat split; auto.
  - subst final. cbn [final_ok] in Hfin. contradiction.
Qed.

Theorem turn_final : forall c now k k' outs, check_turn c now k = (k', outs) ->
  (forall ms, ends_with outs (CWait ms) -> 0 < ms /\ ms = ck_next k' - now /\ ck_i k' < 3) /\
  (ends_with outs CDone -> 3 <= ck_i k' /\ (ck_i k <= 3 -> ck_i k' = 3)).
Proof.
  intros c now k k' outs H. unfold check_turn in H.
  apply check_loop_master in H; [|left; reflexivity].
  destruct H as (probes & final & Houts & Hfin & _). cbn [app] in Houts.
  split.
  - intros ms [pre Hpre]. rewrite Hpre in Houts. apply app_inj_tail in Houts as [_ Hf]. subst final.
    cbn [final_ok] in Hfin. tauto.
  - intros [pre Hpre]. rewrite Hpre in Houts. apply app_inj_tail in Houts as [_ Hf]. subst final.
    cbn [final_ok] in Hfin. exact Hfin.
Qed.

Lemma check_fuel_ge c k : (12 <= check_fuel c k)%nat.
Proof. unfold check_fuel, rename_fuel. lia. Qed.

Lemma check_fuel_S c k : exists f, check_fuel c k = S f /\ (11 <= f)%nat.
Proof.
  pose proof (check_fuel_ge c k) as H. destruct (check_fuel c k) as [|f]; [lia|].
  exists f. split; [reflexivity|lia].
Qed.

(* 3c *)
Theorem turn_conflict_no_rename : forall c now k, ck_i k < 3 -> taken_at c now (ck_svc k) -> ck_allow k = false ->
  check_turn c now k = (k, [CRaise NonUniqueName]).
Proof.
  intros c now k Hi Ht Ha. unfold check_turn. destruct (check_fuel_S c k) as (f & -> & _).
  rewrite check_loop_S. unfold C_REGISTER_BROADCASTS.
  replace (ck_i k <? 3) with true by lia. cbn [negb].
  rewrite rename_loop_eq. unfold taken_at, name_taken in Ht.
  destruct (current_entry_with_name_and_alias c now (s_type (ck_svc k)) (s_name (ck_svc k))); [|contradiction].
  rewrite Ha. reflexivity.
Qed.

(* 3d (needs ck_i k < 3: see turn_rename_needs_i) *)
Theorem turn_rename_partial : forall c now k k' outs,
  ck_i k < 3 -> taken_at c now (ck_svc k) -> ck_allow k = true ->
  check_turn c now k = (k', outs) -> (forall e, ~ In (CRaise e) outs) ->
  exists N, ck_num k <= N /\ ck_num k' = N + 1 /\
    ck_svc k' = with_name (ck_svc k) (cand (ck_instance k) (s_type (ck_svc k)) N) /\
    s_name (ck_svc k') <> s_name (ck_svc k) /\
    (forall j, ck_num k <= j < N -> name_taken c now (s_type (ck_svc k)) (cand (ck_instance k) (s_type (ck_svc k)) j)) /\
    free_at c now (ck_svc k') /\
    (forall t q auth, In (CProbe t q auth) outs ->
       t = now /\ q = probe_question (ck_svc k') /\ auth = dns_pointer (ck_svc k')) /\
    In (probe_of now (ck_svc k')) outs.
Proof.
  intros c now k k' outs Hi Ht Ha H Hnr.
  assert (Hprobes : forall t q auth, In (CProbe t q auth) outs ->
            t = now /\ q = probe_question (ck_svc k') /\ auth = dns_pointer (ck_svc k')).
  { intros t q auth HIn. pose proof (turn_probes _ _ _ _ _ _ _ _ H HIn) as HP. tauto. }
  unfold check_turn in H. destruct (check_fuel_S c k) as (f & Ef & _). rewrite Ef in H.
  rewrite check_loop_S in H. unfold C_REGISTER_BROADCASTS in H.
  replace (ck_i k <? 3) with true in H by lia. cbn [negb app] in H.
  destruct (rename_loop (rename_fuel c k) c now k) as [[k1|e]|] eqn:R.
  - apply rename_loop_spec in R as [Hfree [->|(_ & _ & Hsvc & Hinst & Hal & Hstr & Hi1 & Hnext & Hnum & Hall)]];
      [exfalso; apply Ht; exact Hfree|].
    replace (now <? ck_next k1) with false in H by lia.
    apply check_loop_master in H; [|right; exact Hfree].
    destruct H as (probes & final & Houts & _ & _ & _ & Hsame).
    destruct Hsame as [Hs Hn]; [discriminate|]. cbn [bump ck_svc ck_num] in Hs, Hn.
    exists (ck_num k1 - 1). rewrite Hs, Hn.
    split; [lia|]. split; [lia|]. split; [exact Hsvc|]. split.
    { intro Heq. apply Ht. unfold free_at in Hfree. rewrite Hsvc in Hfree at 1. cbn [with_name s_type] in Hfree.
      rewrite Heq in Hfree. exact Hfree. }
    split; [exact Hall|]. split; [exact Hfree|]. split.
    { intros t q auth HIn. rewrite <- Hs. apply Hprobes. exact HIn. }
    rewrite Houts. cbn [app]. left. reflexivity.
  - inversion H; subst k' outs. exfalso. apply (Hnr e). left. reflexivity.
  - inversion H; subst k' outs. exfalso. apply (Hnr OtherError). left. reflexivity.
Qed.

(* ---- the complete description of a turn when the fuel suffices ---- *)
(* a turn in which the (current or freshly chosen) name is free: probes while they are due, then wait or return *)
Inductive quiet_turn (now : Z) : chk -> list chk_out -> chk -> Prop :=
| qt_done k : 3 <= ck_i k -> quiet_turn now k [CDone] k
| qt_wait k : ck_i k < 3 -> now < ck_next k -> quiet_turn now k [CWait (ck_next k - now)] k
| qt_probe k outs k' : ck_i k < 3 -> ck_next k <= now -> quiet_turn now (bump k) outs k' ->
    quiet_turn now k (probe_of now (ck_svc k) :: outs) k'.

Lemma free_loop_quiet c now : forall f k acc,
  free_at c now (ck_svc k) -> (0 < f)%nat -> 3 - ck_i k < Z.of_nat f ->
  exists outs k', check_loop f c now k acc = (k', acc ++ outs) /\ quiet_turn now k outs k'.
Proof.
  induction f as [|f IH]; intros k acc Hfree Hpos Hfuel; [lia|].
  rewrite check_loop_S. unfold C_REGISTER_BROADCASTS.
  destruct (negb (ck_i k <? 3)) eqn:Ei.
  { exists [CDone], k. split; [reflexivity|]. apply qt_done. lia. }
  rewrite (rename_free _ c now k Hfree).
  destruct (now <? ck_next k) eqn:En.
  { exists [CWait (ck_next k - now)], k. split; [reflexivity|]. apply qt_wait; lia. }
  destruct (IH (bump k) (acc ++ [probe_of now (ck_svc k)])) as (outs & k' & Hrun & Hq).
  - exact Hfree.
  - lia.
  - cbn [bump ck_i]. lia.
  - exists (probe_of now (ck_svc k) :: outs), k'. split.
    + rewrite Hrun, <- app_assoc. reflexivity.
    + apply qt_probe; [lia|lia|exact Hq].
Qed.

(* the first iteration of a turn may rename; after that the name stays free for the rest of the turn *)
Inductive turn_result (c : cache) (now : Z) (k : chk) : chk -> list chk_out -> Prop :=
| tr_done : 3 <= ck_i k -> turn_result c now k k [CDone]
| tr_raise e : ck_i k < 3 -> rename_loop (rename_fuel c k) c now k = Some (Raise e) -> turn_result c now k k [CRaise e]
| tr_quiet k1 k' outs : ck_i k < 3 -> rename_loop (rename_fuel c k) c now k = Some (Ok k1) ->
    quiet_turn now k1 outs k' -> turn_result c now k k' outs.

Lemma turn_cases c now k k' outs :
  0 <= ck_num k -> 4 - ck_i k <= Z.of_nat (check_fuel c k) ->
  check_turn c now k = (k', outs) -> turn_result c now k k' outs.
Proof.
  intros Hnum Hfuel H. unfold check_turn in H. destruct (check_fuel_S c k) as (f & Ef & Hf). rewrite Ef in H, Hfuel.
  rewrite check_loop_S in H. unfold C_REGISTER_BROADCASTS in H.
  destruct (negb (ck_i k <? 3)) eqn:Ei.
  { inversion H; subst k' outs. apply tr_done. lia. }
  destruct (rename_loop (rename_fuel c k) c now k) as [[k1|e]|] eqn:R.
  - pose proof R as R'. apply rename_loop_spec in R' as [Hfree Hcase].
    assert (Hi1 : 0 < 4 /\ 3 - ck_i k1 < Z.of_nat (S f)).
    { destruct Hcase as [->|(_ & _ & _ & _ & _ & _ & Hi1 & _)]; lia. }
    assert (Hloop : check_loop (S f) c now k1 [] = (k', outs)).
    { rewrite check_loop_S. unfold C_REGISTER_BROADCASTS.
      replace (negb (ck_i k1 <? 3)) with false by (destruct Hcase as [->|(_ & _ & _ & _ & _ & _ & Hi1' & _)]; lia).
      rewrite (rename_free _ c now k1 Hfree). exact H. }
    destruct (free_loop_quiet c now (S f) k1 [] Hfree) as (outs' & k'' & Hrun & Hq); [lia|lia|].
    rewrite Hloop in Hrun. cbn [app] in Hrun. injection Hrun as Hk Ho. subst k'' outs'.
    eapply tr_quiet; [lia|exact R|exact Hq].
  - inversion H; subst k' outs. apply tr_raise; [lia|exact R].
  - exfalso. apply (rename_loop_fuel_gen c now k (rename_fuel c k)); [exact Hnum|unfold rename_fuel; lia|exact R].
Qed.

Lemma quiet_turn_no_raise now k outs k' : quiet_turn now k outs k' -> forall e, ~ In (CRaise e) outs.
Proof.
  induction 1 as [k Hi|k Hi Hn|k outs k' Hi Hn Hq IH]; intros e HIn.
  - destruct HIn as [HIn|[]]; discriminate.
  - destruct HIn as [HIn|[]]; discriminate.
  - destruct HIn as [HIn|HIn]; [discriminate|]. apply (IH e). exact HIn.
Qed.

(* 2 (consequence): out-of-fuel is never reported.  The outer fuel needs 4 - ck_i k <= check_fuel (true whenever 0 <= ck_i k) *)
Theorem turn_never_out_of_fuel_gen : forall c now k,
  0 <= ck_num k -> 4 - ck_i k <= Z.of_nat (check_fuel c k) ->
  ~ In (CRaise OtherError) (snd (check_turn c now k)).
Proof.
  intros c now k Hnum Hfuel. destruct (check_turn c now k) as [k' outs] eqn:H. cbn [snd].
  apply turn_cases in H; [|exact Hnum|exact Hfuel].
  destruct H as [Hi|e Hi R|k1 k' outs Hi R Hq].
  - intros [HIn|[]]. discriminate.
  - apply rename_loop_raises in R as [_ Hne]. intros [HIn|[]]. inversion HIn. contradiction.
  - apply (quiet_turn_no_raise _ _ _ _ Hq).
Qed.

Theorem turn_never_out_of_fuel : forall c now k, 2 <= ck_num k -> 0 <= ck_i k ->
  ~ In (CRaise OtherError) (snd (check_turn c now k)).
Proof.
  intros c now k Hnum Hi. apply turn_never_out_of_fuel_gen; [lia|].
  pose proof (check_fuel_ge c k). lia.
Qed.

(* ---- counterexamples for the statements that need an extra hypothesis ---- *)
Definition ex_type : text := [95; 116].              (* "_t" *)
Definition ex_name : text := [97; 46; 95; 116].      (* "a._t" *)
Definition ex_svc : svc :=
  {| s_type := ex_type; s_name := ex_name; s_server := [104]; s_port := 80; s_weight := 0; s_priority := 0; s_text := [];
     s_host_ttl := 120; s_other_ttl := 4500; s_v4 := [[10; 0; 0; 1]]; s_v6 := [] |}.
Definition ex_chk (i next : Z) : chk :=
  {| ck_svc := ex_svc; ck_instance := [97]; ck_num := 2; ck_next := next; ck_i := i; ck_allow := true; ck_strict := false |}.
(* a cache in which "a._t" is announced by somebody else *)
Definition ex_cache_taken : cache :=
  fst (cache_add empty_cache
         (set_alias (blank KPointer ex_type C_TYPE_PTR C_CLASS_IN 4500) ex_name)).

(* without 0 <= ck_i the outer fuel can run out: 13 probes are due but check_fuel is 12 *)
Lemma turn_out_of_fuel_negative_i :
  In (CRaise OtherError) (snd (check_turn empty_cache 1000000 (ex_chk (-10) 0))) /\ 2 <= ck_num (ex_chk (-10) 0).
Proof. split; [vm_compute; tauto|vm_compute; discriminate]. Qed.

(* 3d as sketched (without ck_i k < 3) fails: the name is taken, renaming is allowed, nothing is raised, nothing is renamed *)
Lemma turn_rename_needs_i :
  current_entry_with_name_and_alias ex_cache_taken 0 ex_type ex_name <> None /\
  ck_allow (ex_chk 3 0) = true /\
  check_turn ex_cache_taken 0 (ex_chk 3 0) = (ex_chk 3 0, [CDone]).
Proof. split; [vm_compute; discriminate|]. split; vm_compute; reflexivity. Qed.

(* 3e as sketched (CDone -> ck_i k' = 3) fails for states with ck_i k > 3 *)
Lemma turn_done_needs_i_le_3 :
  check_turn empty_cache 0 (ex_chk 5 0) = (ex_chk 5 0, [CDone]) /\ ck_i (ex_chk 5 0) = 5.
Proof. split; vm_compute; reflexivity. Qed.

Print Assumptions rename_loop_fuel_ok.
Print Assumptions turn_never_out_of_fuel.
Print Assumptions turn_shape.
Print Assumptions turn_probes.
Print Assumptions turn_final.
Print Assumptions turn_conflict_no_rename.
Print Assumptions turn_rename_partial.
