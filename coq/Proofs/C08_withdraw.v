(* C08 - withdrawal: what async_unregister_service says goodbye to, that the withdrawn records leave the outgoing
   queues for good, and that - from a settled node - nothing the node sends afterwards carries a withdrawn record
   with a positive TTL ("no resurrection").
   Helper files: Proofs/C08_queue.v (queue facts for arbitrary per-entry predicates),
                 Proofs/C08_records.v (interning, records of a service, soundness of the responder w.r.t. the registry). *)
From Coq Require Import ZArith List Bool Lia ZifyBool Permutation.
From ZC Require Import Model.Base Model.PyRec Model.Dict Model.Re Model.Cache Model.Respond Model.Route Model.WireEnc
  Model.OutQueue Model.Register Model.Node Gen.Const Gen.Extra Gen.DnsPure Spec.AnswerSpec.
From ZC Require Import Proofs.C20_identity Proofs.C03_reg Proofs.C03_sets Proofs.C03_answers Proofs.C03_respond Proofs.C12_lemmas.
From ZC Require Import Proofs.C08_queue Proofs.C08_records.
Import ListNotations.
Open Scope Z_scope.
Ltac Zify.zify_post_hook ::= Z.to_euclidean_division_equations.

(* ====================================================================================================== *)
(* 1. goodbye_content                                                                                      *)
(* ====================================================================================================== *)

(* a task resumed at the given times: what each resumption does *)
Fixpoint bcast_run (b : bcast) (ts : list Z) : list (list bc_out) :=
  match ts with
  | [] => []
  | t :: rest => let '(b', o) := bcast_turn b t in o :: bcast_run b' rest
  end.

(* another remaining service announces the same host *)
Definition server_shared (g' : registry) (s : svc) : bool := nonempty (get_infos g' (g_servers g') (s_server_key s)).

Lemma goodbye_ttl0 s b r : In r (broadcast_records s (Some 0) b) -> p_ttl r = 0.
Proof. rewrite broadcast_records_override. intro H. apply in_map_iff in H as (x & <- & _). reflexivity. Qed.

Lemma address_and_nsec_kind s x : In x (address_and_nsec s) -> p_kind x = KAddress \/ p_kind x = KNsec.
Proof.
  intro H. apply address_and_nsec_sub in H. apply in_app_or in H as [H|[<-|[]]]; [left|right; reflexivity].
  unfold dns_addresses in H. apply in_app_or in H as [H|H]; apply in_map_iff in H as (a & <- & _); reflexivity.
Qed.

Theorem goodbye_content : forall g s g' task withdrawn,
  unregister_service g s = (g', task, withdrawn) ->
  let with_addr := negb (server_shared g' s) in
  let goodbye := broadcast_records s (Some 0) with_addr in
  (* the registry *)
  g' = reg_remove g (s_key s) /\
  (* the task: three sends of the goodbye message, C_UNREGISTER_TIME = 125 ms apart, then it ends *)
  (forall t1 t2 t3 t4,
     bcast_run task [t1; t2; t3; t4] =
     [[BSend t1 goodbye; BSleep 125]; [BSend t2 goodbye; BSleep 125]; [BSend t3 goodbye; BEnd]; [BEnd]]) /\
  (* addresses are withdrawn iff no remaining service has the same server key *)
  (RegInv g' -> (with_addr = true <-> forall s', In s' (registered g') -> s_server_key s' <> s_server_key s)) /\
  (* every goodbye record has TTL 0 *)
  (forall r, In r goodbye -> p_ttl r = 0) /\
  (* PTR, SRV, TXT always; address and NSEC records iff with_addr *)
  (In (dns_pointer (with_ttl s 0)) goodbye /\ In (dns_service (with_ttl s 0)) goodbye /\ In (dns_text (with_ttl s 0)) goodbye) /\
  (forall x, In x (address_and_nsec (with_ttl s 0)) -> (In x goodbye <-> with_addr = true)) /\
  (* the withdrawn list: the same records with the service's own TTLs *)
  withdrawn = broadcast_records s None with_addr /\
  goodbye = map (set_ttl 0) withdrawn /\
  Forall2 (fun gb w => gen_eq w gb = true) goodbye withdrawn.
Proof.
  intros g s g' task withdrawn U. unfold unregister_service in U. cbv zeta in U.
  fold (server_shared (reg_remove g (s_key s)) s) in U. inversion U; subst; clear U.
  set (g' := reg_remove g (s_key s)). cbv zeta.
  split; [reflexivity|]. split; [|split; [|split; [|split; [|split; [|split; [|split]]]]]].
  - intros t1 t2 t3 t4. reflexivity.
  - intros RI. destruct RI as (_ & _ & _ & PS & _). unfold server_shared. specialize (PS (s_server_key s)).
    split.
    + intros Hw s' Hs' Hk. apply negb_true_iff in Hw.
      assert (HIn : In s' (filter (fun s0 => text_eqb (s_server_key s0) (s_server_key s)) (registered g'))).
      { apply filter_In. split; [exact Hs'|]. apply text_eqb_eq. exact Hk. }
      eapply Permutation_in in HIn; [|apply Permutation_sym; exact PS].
      destruct (get_infos g' (g_servers g') (s_server_key s)); [destruct HIn|discriminate].
    + intros Hno. apply negb_true_iff.
      destruct (get_infos g' (g_servers g') (s_server_key s)) as [|s' l] eqn:G; [reflexivity|exfalso].
      assert (HIn : In s' (s' :: l)) by (left; reflexivity).
      eapply Permutation_in in HIn; [|exact PS]. apply filter_In in HIn as [Hs' Hk]. apply text_eqb_eq in Hk.
      exact (Hno s' Hs' Hk).
  - intros r. apply goodbye_ttl0.
  - unfold broadcast_records. cbn [app In]. auto 6.
  - intros x Hx. unfold broadcast_records. split.
    + intro H. apply in_app_or in H as [H|H].
      * apply address_and_nsec_kind in Hx. destruct H as [<-|[<-|[<-|[]]]]; cbn in Hx; destruct Hx; discriminate.
      * destruct (negb (server_shared g' s)); [reflexivity|destruct H].
    + intros ->. apply in_or_app. right. exact Hx.
  - reflexivity.
  - apply broadcast_records_override.
  - rewrite broadcast_records_override. induction (broadcast_records s None (negb (server_shared g' s))) as [|w l IH];
      cbn [map]; constructor; [apply set_ttl_same_identity|exact IH].
Qed.

(* ====================================================================================================== *)
(* 2. queue level: stripped keys never come back and are never emitted                                     *)
(* ====================================================================================================== *)

(* what can happen to a queue afterwards *)
Inductive qop :=
| QopAdd (now tnow rnd : Z) (a : answers)
| QopReady (now : Z).

(* the operation adds no key of K / no id of K at all (neither as key nor among the additionals) *)
Definition qop_free (K : list Z) (o : qop) : Prop :=
  match o with QopAdd _ _ _ a => AnsAll (key_not_in K) a | QopReady _ => True end.
Definition qop_free_adds (K : list Z) (o : qop) : Prop :=
  match o with QopAdd _ _ _ a => AnsAll (free_of K) a | QopReady _ => True end.

Fixpoint qops_run (q : oq) (ops : list qop) : oq * list answers :=
  match ops with
  | [] => (q, [])
  | QopAdd now tnow rnd a :: rest => qops_run (async_add q now tnow rnd a) rest
  | QopReady now :: rest =>
      let '(q', sent) := async_ready_body q now in
      let '(qf, tr) := qops_run q' rest in
      (qf, match sent with Some a => a :: tr | None => tr end)
  end.

(* generic form: an entry property that holds after the strip keeps holding, and holds of everything emitted *)
Lemma QAll_never_emitted (E : entry -> Prop) (okop : qop -> Prop) :
  (forall now tnow rnd a, okop (QopAdd now tnow rnd a) -> AnsAll E a) ->
  forall ops, Forall okop ops -> forall q0, QAll E q0 ->
  forall a, In a (snd (qops_run q0 ops)) -> AnsAll E a.
Proof.
  intros Hok ops F. induction F as [|o ops Ho F IH]; intros q0 H0 a Ha; [destruct Ha|].
  destruct o as [now tnow rnd a0|now]; cbn [qops_run] in Ha.
  - eapply IH; [|exact Ha]. apply QAll_add; [exact H0|eapply Hok; exact Ho].
  - destruct (async_ready_body q0 now) as [q' sent] eqn:R.
    destruct (QAll_ready _ _ _ _ _ R H0) as [H' Hout].
    destruct (qops_run q' ops) as [qf tr] eqn:Q. cbn [snd] in Ha.
    assert (Htr : In a tr -> AnsAll E a).
    { intro Hin. eapply (IH q' H' a). rewrite Q. exact Hin. }
    destruct sent as [a1|]; [|apply Htr; exact Ha]. destruct Ha as [<-|Ha]; [|apply Htr; exact Ha].
    apply Hout. reflexivity.
Qed.

Theorem stripped_keys_stay_out : forall (K : list Z) (q : oq),
  (* groups are dicts *)
  QDict q ->
  (* after the strip no group holds a key of K *)
  QAll (key_not_in K) (strip_queue K q) /\
  (* async_add with answers that have no key in K keeps it so *)
  (forall q1 now tnow rnd a, QAll (key_not_in K) q1 -> AnsAll (key_not_in K) a ->
     QAll (key_not_in K) (async_add q1 now tnow rnd a)) /\
  (* async_ready_body keeps it so, and what it emits has no key of K *)
  (forall q1 now q2 out, QAll (key_not_in K) q1 -> async_ready_body q1 now = (q2, out) ->
     QAll (key_not_in K) q2 /\ forall a k, out = Some a -> In k (keys a) -> ~ In k K).
Proof.
  intros K q D. split; [apply strip_removes; exact D|]. split.
  - intros q1 now tnow rnd a H1 Ha. apply QAll_add; assumption.
  - intros q1 now q2 out H1 R. destruct (QAll_ready _ _ _ _ _ R H1) as [H2 Hout]. split; [exact H2|].
    intros a k -> Hk. specialize (Hout a eq_refl). apply AnsAll_keys with (k := k) in Hout; assumption.
Qed.

(* hence: along any later history that does not add a key of K again, async_ready never emits a key of K *)
Theorem stripped_keys_never_emitted : forall (K : list Z) (q : oq) (ops : list qop),
  QDict q -> Forall (qop_free K) ops ->
  forall a k, In a (snd (qops_run (strip_queue K q) ops)) -> In k (keys a) -> ~ In k K.
Proof.
  intros K q ops D F a k Ha Hk.
  assert (H : AnsAll (key_not_in K) a).
  { eapply (QAll_never_emitted (key_not_in K) (qop_free K)); [|exact F|apply strip_removes; exact D|exact Ha].
    intros now tnow rnd a0 H0. exact H0. }
  apply AnsAll_keys with (k := k) in H; assumption.
Qed.

(* the same for the additionals: after the strip no entry of any group mentions an id of K, neither as its key nor among its
   additionals; async_add with answer sets free of K (keys AND additionals) and async_ready_body keep it so; and nothing that
   async_ready_body emits mentions an id of K *)
Theorem stripped_ids_stay_out : forall (K : list Z) (q : oq),
  QDict q ->
  QAll (free_of K) (strip_queue K q) /\
  (* (the additionals are clean even if the groups are not dicts) *)
  QAll (adds_not_in K) (strip_queue K q) /\
  (forall q1 now tnow rnd a, QAll (free_of K) q1 -> AnsAll (free_of K) a ->
     QAll (free_of K) (async_add q1 now tnow rnd a)) /\
  (forall q1 now q2 out, QAll (free_of K) q1 -> async_ready_body q1 now = (q2, out) ->
     QAll (free_of K) q2 /\
     forall a k adds, out = Some a -> In (k, adds) a -> ~ In k K /\ forall x, In x adds -> ~ In x K).
Proof.
  intros K q D. split; [apply strip_frees; exact D|]. split; [apply strip_removes_adds|]. split.
  - intros q1 now tnow rnd a H1 Ha. apply QAll_add; assumption.
  - intros q1 now q2 out H1 R. destruct (QAll_ready _ _ _ _ _ R H1) as [H2 Hout]. split; [exact H2|].
    intros a k adds -> Hin. specialize (Hout a eq_refl). unfold AnsAll in Hout. rewrite Forall_forall in Hout.
    destruct (Hout _ Hin) as [Hk Ha]. split; [exact Hk|]. intros x Hx. apply (Ha x). exact Hx.
Qed.

Theorem stripped_ids_never_emitted : forall (K : list Z) (q : oq) (ops : list qop),
  QDict q -> Forall (qop_free_adds K) ops ->
  forall a k adds, In a (snd (qops_run (strip_queue K q) ops)) -> In (k, adds) a ->
    ~ In k K /\ forall x, In x adds -> ~ In x K.
Proof.
  intros K q ops D F a k adds Ha Hin.
  assert (H : AnsAll (free_of K) a).
  { eapply (QAll_never_emitted (free_of K) (qop_free_adds K)); [|exact F|apply strip_frees; exact D|exact Ha].
    intros now tnow rnd a0 H0. exact H0. }
  unfold AnsAll in H. rewrite Forall_forall in H. destruct (H _ Hin) as [Hk Hadds].
  split; [exact Hk|]. intros x Hx. apply (Hadds x). exact Hx.
Qed.

(* ====================================================================================================== *)
(* 3. node level                                                                                           *)
(* ====================================================================================================== *)

(* the records async_unregister_service takes out of the queues *)
Definition withdrawn_records (g : registry) (s : svc) : list pyrec := snd (unregister_service g s).

Lemma withdrawn_records_eq g s :
  withdrawn_records g s = broadcast_records s None (negb (server_shared (reg_remove g (s_key s)) s)).
Proof. reflexivity. Qed.

(* PTR, SRV, TXT of s, and its address and NSEC records when the addresses were withdrawn *)
Lemma withdrawn_records_spec g s w :
  In w (withdrawn_records g s) <->
  w = dns_pointer s \/ w = dns_service s \/ w = dns_text s \/
  (server_shared (reg_remove g (s_key s)) s = false /\ In w (address_and_nsec s)).
Proof.
  rewrite withdrawn_records_eq. unfold broadcast_records. rewrite in_app_iff. cbn [In].
  destruct (server_shared (reg_remove g (s_key s)) s); cbn [negb In]; intuition (auto; discriminate).
Qed.

(* labels that (may) put a service into the registry or start an announcement *)
Definition calm (l : nlabel) : Prop :=
  match l with
  | LRegister _ _ _ _ _ _ | LCheck _ _ | LUpdate _ _ _ => False
  | _ => True
  end.

(* ---- the interning invariant ---- *)
Definition in_range (tbl : list pyrec) (i : Z) : Prop := 0 <= i < Z.of_nat (length tbl).
Definition EntRange (tbl : list pyrec) (e : entry) : Prop := in_range tbl (fst e) /\ Forall (in_range tbl) (snd e).

(* no two table entries with the same identity; every queue group is a dict; every id in the queues is in the table *)
Definition InternInv (n : node) : Prop :=
  TblInv (n_tbl n) /\
  QDict (n_q n) /\ QDict (n_qd n) /\
  QAll (EntRange (n_tbl n)) (n_q n) /\ QAll (EntRange (n_tbl n)) (n_qd n).

(* ---- what has to be settled in the pre-state ---- *)
Section Node.
  Variable W : list pyrec.

  (* a task that is finished, or whose message carries no withdrawn identity with a positive TTL *)
  Definition task_ok (b : bcast) : Prop :=
    bc_left b <= 0 \/
    forall r, In r (broadcast_records (bc_svc b) (bc_ttl b) (bc_addresses b)) -> p_ttl r > 0 -> NW W r.
  Definition tasks_ok (n : node) : Prop := forall i b, In (i, b) (n_tasks n) -> task_ok b.
  Definition bye_ok (n : node) : Prop := forall m, n_bye n = Some m -> msg_ok W m.

  (* ---- the invariant of the post-states ---- *)
  Definition Quiet (n : node) : Prop :=
    RegClean W (n_reg n) /\ TblInv (n_tbl n) /\
    QAll (EntOK (NW W) (n_tbl n)) (n_q n) /\ QAll (EntOK (NW W) (n_tbl n)) (n_qd n) /\
    tasks_ok n /\ bye_ok n.

  Definition out_ok (o : nout) : Prop := match o with OSend _ _ m => msg_ok W m | _ => True end.

  Lemma EntOK_prune (P : pyrec -> Prop) tbl ids e : EntOK P tbl e -> EntOK P tbl (prune_adds ids e).
  Proof.
    intros [H1 H2]. split; [exact H1|]. cbn [prune_adds snd]. rewrite Forall_forall in *. intros a Ha.
    apply filter_In in Ha as [Ha _]. apply H2. exact Ha.
  Qed.

  Lemma gate_in n outs o : In o (gate n outs) -> In o outs.
  Proof. unfold gate. destruct (n_done n); [intro H; apply filter_In in H; tauto|auto]. Qed.

  Lemma Forall_gate (P : nout -> Prop) n outs : Forall P outs -> Forall P (gate n outs).
  Proof. rewrite !Forall_forall. intros H o Ho. apply H. eapply gate_in. exact Ho. Qed.

  Lemma zd_get_in {V} (d : list (Z * V)) k v : d_get Z.eqb d k = Some v -> In (k, v) d.
  Proof.
    induction d as [|[k0 v0] d IH]; cbn [d_get]; [discriminate|]. destruct (k0 =? k) eqn:E.
    - intro H. inversion H; subst. apply Z.eqb_eq in E. subst. left. reflexivity.
    - intro H. right. apply IH. exact H.
  Qed.

  Lemma zd_set_in {V} (d : list (Z * V)) k v e : In e (d_set Z.eqb d k v) -> In e d \/ e = (k, v).
  Proof.
    induction d as [|[k0 v0] d IH]; cbn [d_set].
    - intros [<-|[]]. right. reflexivity.
    - destruct (k0 =? k) eqn:E.
      + apply Z.eqb_eq in E. subst k0. intros [<-|H]; [right; reflexivity|left; right; exact H].
      + intros [<-|H]; [left; left; reflexivity|]. apply IH in H as [H|H]; [left; right; exact H|right; exact H].
  Qed.

  Lemma registered_remove g k s : In s (registered (reg_remove g k)) -> In s (registered g).
  Proof.
    unfold reg_remove. destruct (d_get text_eqb (g_services g) k); [|auto].
    unfold registered. cbn [g_services]. intro H. apply in_map_iff in H as (e & <- & He).
    apply in_map. eapply td_in_del. exact He.
  Qed.

  Lemma registered_remove_all l : forall g s,
    In s (registered (fold_left (fun g s => reg_remove g (s_key s)) l g)) -> In s (registered g).
  Proof.
    induction l as [|x l IH]; intros g s H; [exact H|]. cbn [fold_left] in H.
    apply IH in H. eapply registered_remove. exact H.
  Qed.

  Lemma RegClean_sub g g' : (forall s, In s (registered g') -> In s (registered g)) -> RegClean W g -> RegClean W g'.
  Proof. intros S H s x Hs Hx. eapply H; [apply S; exact Hs|exact Hx]. Qed.

  (* a goodbye task is always fine: its records have TTL 0 *)
  Lemma goodbye_task_ok s b i l : task_ok {| bc_svc := s; bc_ttl := Some 0; bc_addresses := b; bc_interval := i; bc_left := l |}.
  Proof. right. cbn [bc_svc bc_ttl bc_addresses]. intros r Hr Ht. apply goodbye_ttl0 in Hr. lia. Qed.

  Lemma broadcast_msg_records rs : msg_records (broadcast_msg rs) = rs.
  Proof. unfold msg_records, broadcast_msg. cbn [o_answers o_additionals]. rewrite app_nil_r. apply map_fst_pair0. Qed.

  (* ---- one answered query ---- *)
  Definition query_act (now rnd_q rnd_d : Z) (acc : node * list nout) (a : action) : node * list nout :=
    let '(m, outs) := acc in
    match a with
    | AUnicast ad po msg => (m, outs ++ [OSend now (Some (ad, po)) msg])
    | AMulticast msg => (m, outs ++ [OSend now None msg])
    | AQueue t s => let '(tbl, a') := intern_set (n_tbl m) s in
                    (set_queues m tbl (async_add (n_q m) t now rnd_q a') (n_qd m), outs)
    | ADelayQueue t s => let '(tbl, a') := intern_set (n_tbl m) s in
                         (set_queues m tbl (n_q m) (async_add (n_qd m) t now rnd_d a'), outs)
    end.

  Lemma nstep_query n now msgs id addr port rnd_q rnd_d :
    nstep n (LQuery now msgs id addr port rnd_q rnd_d) =
    let '(n', outs) := fold_left (query_act now rnd_q rnd_d)
                                 (handle_assembled_query (n_reg n) (n_cache n) msgs id addr port) (n, []) in
    (n', gate n outs).
  Proof. reflexivity. Qed.

  Lemma query_fold now rnd_q rnd_d acts : Forall (act_clean W) acts ->
    forall m outs, Quiet m -> Forall out_ok outs ->
    Quiet (fst (fold_left (query_act now rnd_q rnd_d) acts (m, outs))) /\
    Forall out_ok (snd (fold_left (query_act now rnd_q rnd_d) acts (m, outs))) /\
    n_reg (fst (fold_left (query_act now rnd_q rnd_d) acts (m, outs))) = n_reg m.
  Proof.
    induction 1 as [|a acts Ha F IH]; intros m outs Q O; cbn [fold_left]; [auto|].
    destruct Q as (Q1 & Q2 & Q3 & Q4 & Q5 & Q6).
    destruct a as [ad po msg|msg|t u|t u]; cbn [query_act act_clean] in *.
    - apply IH; [repeat split; assumption|]. apply Forall_app. split; [exact O|]. constructor; [|constructor].
      cbn [out_ok]. apply msg_clean_ok. exact Ha.
    - apply IH; [repeat split; assumption|]. apply Forall_app. split; [exact O|]. constructor; [|constructor].
      cbn [out_ok]. apply msg_clean_ok. exact Ha.
    - destruct (intern_set (n_tbl m) u) as [tbl a'] eqn:I.
      pose proof (intern_set_clean W _ _ _ _ I Ha) as Ca. apply intern_set_spec in I as (X & T & _).
      match goal with |- context [fold_left _ acts (?mm, outs)] => destruct (IH mm outs) as (R1 & R2 & R3) end.
      + repeat split; cbn [set_queues n_reg n_tbl n_q n_qd n_tasks n_bye]; auto.
        * apply QAll_add; [eapply QAll_EntOK_ext; eassumption|exact Ca].
        * eapply QAll_EntOK_ext; eassumption.
      + exact O.
      + split; [exact R1|]. split; [exact R2|exact R3].
    - destruct (intern_set (n_tbl m) u) as [tbl a'] eqn:I.
      pose proof (intern_set_clean W _ _ _ _ I Ha) as Ca. apply intern_set_spec in I as (X & T & _).
      match goal with |- context [fold_left _ acts (?mm, outs)] => destruct (IH mm outs) as (R1 & R2 & R3) end.
      + repeat split; cbn [set_queues n_reg n_tbl n_q n_qd n_tasks n_bye]; auto.
        * eapply QAll_EntOK_ext; eassumption.
        * apply QAll_add; [eapply QAll_EntOK_ext; eassumption|exact Ca].
      + exact O.
      + split; [exact R1|]. split; [exact R2|exact R3].
  Qed.

  (* ---- one step ---- *)
  Lemma quiet_step n l n' outs :
    EnumClean W -> Quiet n -> calm l -> nstep n l = (n', outs) -> Quiet n' /\ Forall out_ok outs.
  Proof.
    intros EC Q C H. pose proof Q as (Q1 & Q2 & Q3 & Q4 & Q5 & Q6).
    destruct l as [now answers|now|now msgs id addr port rnd_q rnd_d|delayq now|id now s allow strict coop|id now|id now
                  |id now key|id now s|now|now|now]; try (destruct C; fail).
    - (* LResp *) cbn [nstep] in H. inversion H; subst. split; [exact Q|constructor].
    - (* LPurge *) cbn [nstep] in H. inversion H; subst. split; [exact Q|constructor].
    - (* LQuery *)
      rewrite nstep_query in H.
      assert (Hacts : Forall (act_clean W) (handle_assembled_query (n_reg n) (n_cache n) msgs id addr port)).
      { apply Forall_forall. intros a Ha. eapply handle_clean; eassumption. }
      destruct (query_fold now rnd_q rnd_d _ Hacts n [] Q (Forall_nil _)) as (R1 & R2 & _).
      destruct (fold_left (query_act now rnd_q rnd_d) (handle_assembled_query (n_reg n) (n_cache n) msgs id addr port) (n, []))
        as [m o]. inversion H; subst. cbn [fst snd] in *. split; [exact R1|apply Forall_gate; exact R2].
    - (* LReady *)
      cbn [nstep] in H. destruct (async_ready_body (if delayq then n_qd n else n_q n) now) as [q' sent] eqn:R.
      assert (Hq : QAll (EntOK (NW W) (n_tbl n)) (if delayq then n_qd n else n_q n)) by (destruct delayq; assumption).
      destruct (QAll_ready _ _ _ _ _ R Hq) as [Hq' Hsent]. inversion H; subst; clear H. split.
      + destruct delayq; repeat split; cbn [set_queues n_reg n_tbl n_q n_qd n_tasks n_bye]; assumption.
      + apply Forall_gate. destruct sent as [a|]; [|constructor]. constructor; [|constructor]. cbn [out_ok].
        apply msg_clean_ok. apply construct_multicast_clean. apply extern_clean. apply Hsent. reflexivity.
    - (* LBcast *)
      cbn [nstep] in H. destruct (d_get Z.eqb (n_tasks n) id) as [b|] eqn:G.
      + apply zd_get_in in G. pose proof (Q5 _ _ G) as Hb.
        destruct (bcast_turn b now) as [b' bo] eqn:BT. inversion H; subst; clear H.
        unfold bcast_turn in BT. destruct (bc_left b <=? 0) eqn:L.
        * inversion BT; subst; clear BT. split.
          -- repeat split; cbn [set_reg n_reg n_tbl n_q n_qd n_tasks n_bye]; try assumption.
             intros i b0 Hin. apply zd_set_in in Hin as [Hin|Hin]; [eapply Q5; exact Hin|]. inversion Hin; subst. exact Hb.
          -- apply Forall_gate. cbn [flat_map app]. constructor; [exact I|constructor].
        * inversion BT; subst; clear BT.
          assert (Hrec : forall r, In r (broadcast_records (bc_svc b) (bc_ttl b) (bc_addresses b)) -> p_ttl r > 0 -> NW W r).
          { destruct Hb as [Hb|Hb]; [lia|exact Hb]. }
          split.
          -- repeat split; cbn [set_reg n_reg n_tbl n_q n_qd n_tasks n_bye]; try assumption.
             intros i b0 Hin. apply zd_set_in in Hin as [Hin|Hin]; [eapply Q5; exact Hin|]. inversion Hin; subst.
             right. cbn [bc_svc bc_ttl bc_addresses]. exact Hrec.
          -- apply Forall_gate. cbn [flat_map]. apply Forall_app. split.
             ++ constructor; [|constructor]. cbn [out_ok]. intros r Hr. rewrite broadcast_msg_records in Hr. apply Hrec. exact Hr.
             ++ match goal with |- context [if ?c then _ else _] => destruct c end; cbn [flat_map app];
                  (constructor; [exact I|constructor]).
      + inversion H; subst. split; [exact Q|]. constructor; [exact I|constructor].
    - (* LUnregister *)
      cbn [nstep] in H. destruct (d_get text_eqb (g_services (n_reg n)) key) as [s|] eqn:G.
      + unfold unregister_service in H. cbv zeta in H.
        destruct (intern_list (n_tbl n) (broadcast_records s None
                   (negb (nonempty (get_infos (reg_remove (n_reg n) (s_key s)) (g_servers (reg_remove (n_reg n) (s_key s))) (s_server_key s))))))
          as [tbl ids] eqn:IL.
        apply intern_list_spec in IL as (X & T & _). inversion H; subst; clear H. split; [|constructor; [exact I|constructor]].
        repeat split; cbn [set_queues set_reg n_reg n_tbl n_q n_qd n_tasks n_bye].
        * eapply RegClean_sub; [|exact Q1]. intros s0. apply registered_remove.
        * auto.
        * eapply QAll_EntOK_ext; [exact X|]. apply (QAll_strip _ ids); [apply EntOK_prune|exact Q3].
        * eapply QAll_EntOK_ext; [exact X|]. apply (QAll_strip _ ids); [apply EntOK_prune|exact Q4].
        * intros i b0 Hin. apply zd_set_in in Hin as [Hin|Hin]; [eapply Q5; exact Hin|]. inversion Hin; subst.
          apply goodbye_task_ok.
        * exact Q6.
      + inversion H; subst. split; [exact Q|]. constructor; [exact I|constructor].
    - (* LUnregisterAll *)
      cbn [nstep] in H. unfold unregister_all in H. cbv zeta in H.
      destruct (flat_map (fun s => broadcast_records s (Some 0) true) (all_services (n_reg n))) as [|r0 rs] eqn:RS.
      + inversion H; subst. split; [exact Q|]. constructor; [exact I|constructor].
      + rewrite <- RS in H. inversion H; subst; clear H.
        assert (Hm : msg_ok W (broadcast_msg (flat_map (fun s => broadcast_records s (Some 0) true) (all_services (n_reg n))))).
        { intros r Hr Ht. rewrite broadcast_msg_records in Hr. apply in_flat_map in Hr as (s & _ & Hr).
          apply goodbye_ttl0 in Hr. lia. }
        split.
        * repeat split; cbn [n_reg n_tbl n_q n_qd n_tasks n_bye]; try assumption.
          -- eapply RegClean_sub; [|exact Q1]. intros s0. apply registered_remove_all.
          -- intros m Hm'. inversion Hm'; subst. exact Hm.
        * apply Forall_gate. constructor; [exact Hm|constructor].
    - (* LGoodbyeAll *)
      cbn [nstep] in H. injection H as Hn Ho. subst n' outs. split; [exact Q|]. apply Forall_gate.
      destruct (n_bye n) as [m|] eqn:B; (constructor; [|constructor]); [|exact I]. cbn [out_ok]. apply Q6. exact B.
    - (* LClose *)
      cbn [nstep] in H. inversion H; subst; clear H. split; [|constructor].
      repeat split; cbn [n_reg n_tbl n_q n_qd n_tasks n_bye]; assumption.
  Qed.

  Lemma quiet_run ls : EnumClean W -> Forall calm ls ->
    forall n, Quiet n -> Forall (Forall out_ok) (nrun n ls).
  Proof.
    intros EC F. induction F as [|l ls Hl F IH]; intros n Q; cbn [nrun]; [constructor|].
    destruct (nstep n l) as [n' outs] eqn:S. destruct (quiet_step _ _ _ _ EC Q Hl S) as [Q' O].
    constructor; [exact O|apply IH; exact Q'].
  Qed.
End Node.

(* ---- the state right after the unregistration ---- *)
Lemma in_remove_first l x y : In y l -> y <> x -> In y (remove_first l x).
Proof.
  induction l as [|z l IH]; intros H N; [destruct H|]. cbn [remove_first]. destruct (text_eqb z x) eqn:E.
  - destruct H as [->|H]; [|exact H]. apply text_eqb_eq in E. contradiction.
  - destruct H as [->|H]; [left; reflexivity|right; apply IH; assumption].
Qed.

Lemma in_nonempty {A} (x : A) l : In x l -> nonempty l = true.
Proof. destruct l; [intros []|reflexivity]. Qed.

Section Remaining.
  Variables (g : registry) (key : text) (s : svc).
  Hypothesis RI : RegInv g.
  Hypothesis G : d_get text_eqb (g_services g) key = Some s.

  Lemma found_key : key = s_key s.
  Proof. destruct RI as (_ & KEY & _). apply KEY. apply td_get_in. exact G. Qed.

  Lemma remaining_entry s' :
    In s' (registered (reg_remove g (s_key s))) ->
    d_get text_eqb (g_services g) (s_key s') = Some s' /\ s_key s' <> s_key s /\
    d_get text_eqb (d_del text_eqb (g_services g) (s_key s)) (s_key s') = Some s'.
  Proof.
    pose proof found_key as K. destruct RI as (ND & KEY & _). rewrite <- K. unfold reg_remove. rewrite G.
    unfold registered. cbn [g_services]. intro H. apply in_map_iff in H as ([k' s0] & E & He). cbn [snd] in E. subst s0.
    pose proof (td_in_del _ _ _ He) as He0. pose proof (KEY _ _ He0) as Hk. subst k'.
    pose proof (td_in_get _ _ _ (td_nodup_del _ key ND) He) as G1. pose proof G1 as G2.
    rewrite td_get_del in G2 by exact ND. destruct (text_eqb key (s_key s')) eqn:E; [discriminate|].
    split; [exact G2|]. split; [|exact G1]. intro X. rewrite X in E. rewrite text_eqb_refl in E. discriminate.
  Qed.

  (* a remaining service on the same host keeps the addresses from being withdrawn *)
  Lemma same_server_shared s' :
    In s' (registered (reg_remove g (s_key s))) -> s_server_key s' = s_server_key s ->
    server_shared (reg_remove g (s_key s)) s = true.
  Proof.
    intros Hs' Hk. destruct (remaining_entry s' Hs') as (G0 & Hne & G1).
    pose proof found_key as K. pose proof RI as (ND & KEY & _ & PS & _).
    assert (Hreg : In s' (registered g)).
    { unfold registered. change s' with (snd (s_key s', s')). apply in_map. apply td_get_in. exact G0. }
    assert (HIn : In s' (get_infos g (g_servers g) (s_server_key s))).
    { eapply Permutation_in; [apply Permutation_sym; apply PS|]. apply filter_In. split; [exact Hreg|].
      apply text_eqb_eq. exact Hk. }
    unfold get_infos in HIn. destruct (d_get text_eqb (g_servers g) (s_server_key s)) as [nms|] eqn:GS; [|destruct HIn].
    apply in_flat_map in HIn as (nm & Hnm & HIn).
    destruct (d_get text_eqb (g_services g) nm) as [s0|] eqn:Gn; [|destruct HIn]. destruct HIn as [->|[]].
    assert (nm = s_key s') by (apply KEY; apply td_get_in; exact Gn). subst nm.
    unfold server_shared, reg_remove. rewrite <- K, G. cbn [g_servers g_services]. unfold idx_remove_name. rewrite GS.
    assert (Hl : In (s_key s') (remove_first nms key)) by (apply in_remove_first; [exact Hnm|rewrite K; exact Hne]).
    assert (Hget : In s' (get_infos {| g_services := d_del text_eqb (g_services g) key;
                                       g_types := idx_remove_name (g_types g) (lower (s_type s)) key;
                                       g_servers := d_set text_eqb (g_servers g) (s_server_key s) (remove_first nms key) |}
                                    (d_set text_eqb (g_servers g) (s_server_key s) (remove_first nms key)) (s_server_key s))).
    { unfold get_infos. cbn [g_services]. rewrite td_get_set, text_eqb_refl. apply in_flat_map. exists (s_key s').
      split; [exact Hl|]. rewrite K. rewrite G1. left. reflexivity. }
    destruct (remove_first nms key) as [|x l] eqn:RF; [destruct Hl|]. cbn [nonempty].
    eapply in_nonempty. exact Hget.
  Qed.

  Hypothesis NotEnum : lower (s_type s) <> C_SERVICE_TYPE_ENUMERATION_NAME.

  Lemma withdrawn_enum_clean : EnumClean (withdrawn_records g s).
  Proof.
    intros t (w & Hw & E). rewrite withdrawn_records_eq in Hw. apply broadcast_records_sub in Hw.
    pose proof (gen_eq_true_kind _ _ E) as Kd. pose proof (gen_eq_true_name _ _ E) as Nm.
    rewrite (svc_records_pointer_name _ _ Hw Kd) in Nm. apply NotEnum. exact Nm.
  Qed.

  Lemma remaining_clean : RegClean (withdrawn_records g s) (reg_remove g (s_key s)).
  Proof.
    intros s' x Hs' Hx (w & Hw & E). rewrite withdrawn_records_eq in Hw.
    pose proof (broadcast_records_sub _ _ _ Hw) as Hw'.
    destruct (owned_same_identity _ _ _ _ _ _ (svc_records_owned _ _ Hw') (svc_records_owned _ _ Hx) E) as [[Ka Hv]|[_ Hk]].
    - pose proof (broadcast_records_address _ _ _ Hw Ka) as Hb. apply negb_true_iff in Hb.
      rewrite (same_server_shared s' Hs' (eq_sym Hv)) in Hb. discriminate.
    - destruct (remaining_entry s' Hs') as (_ & Hne & _). apply Hne. symmetry. exact Hk.
  Qed.
End Remaining.

Lemma QAll_intro (E : entry -> Prop) q :
  (forall g e, In g (q_groups q) -> In e (g_answers g) -> E e) -> QAll E q.
Proof.
  intro H. unfold QAll, AnsAll. apply Forall_forall. intros g Hg. apply Forall_forall. intros e He. eapply H; eassumption.
Qed.

Lemma Forall2_in_r {A B} (R : A -> B -> Prop) l l' b : Forall2 R l l' -> In b l' -> exists a, In a l /\ R a b.
Proof.
  induction 1 as [|x y l l' Hxy F IH]; intro H; [destruct H|]. destruct H as [<-|H].
  - exists x. split; [left; reflexivity|exact Hxy].
  - destruct (IH H) as (a & Ha & Hr). exists a. split; [right; exact Ha|exact Hr].
Qed.

Lemma in_range_resolves tbl i : in_range tbl i -> exists x, resolves tbl i x.
Proof.
  intros [H0 H1]. destruct (nth_error tbl (Z.to_nat i)) as [x|] eqn:N.
  - exists x. split; assumption.
  - apply nth_error_None in N. lia.
Qed.

(* stripping the withdrawn ids from a queue leaves only entries that do not name a withdrawn identity - neither as the
   answer nor among its additionals *)
Lemma strip_quiet W tbl tbl' ids q :
  TblInv tbl' -> ext tbl tbl' -> Forall2 (names tbl') ids W ->
  QDict q -> QAll (EntRange tbl) q ->
  QAll (EntOK (NW W) tbl') (strip_queue ids q).
Proof.
  intros T X F D HR. apply QAll_intro. intros g' e Hg' He.
  destruct (QAll_in _ _ _ _ (strip_frees _ _ D) Hg' He) as [Hnk Hna]. unfold key_not_in in Hnk.
  destruct (strip_groups_in _ _ _ _ Hg' He) as (g & e0 & Hg & He0 & ->).
  destruct (QAll_in _ _ _ _ HR Hg He0) as [Rk Radds].
  (* an id of the old table that is not one of the withdrawn ids names a record that is not withdrawn *)
  assert (Key : forall i, in_range tbl i -> ~ In i ids -> IdAll (NW W) tbl' i).
  { intros i Ri Hni. destruct (in_range_resolves _ _ Ri) as (x & Hx). exists x.
    split; [eapply resolves_ext; eassumption|].
    intros (w & Hw & Ew). destruct (Forall2_in_r _ _ _ _ F Hw) as (i' & Hi' & y & Hy & Ey).
    assert (i' = i).
    { eapply (TblInv_resolves tbl'); [exact T|exact Hy|eapply resolves_ext; eassumption|].
      eapply eq_trans_; eassumption. }
    subst i'. contradiction. }
  split.
  - apply Key; [exact Rk|exact Hnk].
  - apply Forall_forall. intros a Ha. apply Key; [|apply (Hna a Ha)].
    cbn [prune_adds snd] in Ha. apply filter_In in Ha as [Ha _]. rewrite Forall_forall in Radds. apply Radds. exact Ha.
Qed.

Lemma unregister_quiet n id now key s n1 outs :
  RegInv (n_reg n) -> InternInv n ->
  d_get text_eqb (g_services (n_reg n)) key = Some s ->
  nstep n (LUnregister id now key) = (n1, outs) ->
  lower (s_type s) <> C_SERVICE_TYPE_ENUMERATION_NAME ->
  tasks_ok (withdrawn_records (n_reg n) s) n -> bye_ok (withdrawn_records (n_reg n) s) n ->
  Quiet (withdrawn_records (n_reg n) s) n1.
Proof.
  intros RI (T & D1 & D2 & R1 & R2) G H NE HT HB.
  pose proof (remaining_clean _ _ _ RI G) as RC.
  set (W := withdrawn_records (n_reg n) s) in *.
  cbn [nstep] in H. rewrite G in H.
  assert (U : unregister_service (n_reg n) s =
              (reg_remove (n_reg n) (s_key s),
               {| bc_svc := s; bc_ttl := Some 0; bc_addresses := negb (server_shared (reg_remove (n_reg n) (s_key s)) s);
                  bc_interval := C_UNREGISTER_TIME; bc_left := C_REGISTER_BROADCASTS |}, W)) by reflexivity.
  rewrite U in H. destruct (intern_list (n_tbl n) W) as [tbl ids] eqn:IL.
  apply intern_list_spec in IL as (X & T' & F). inversion H; subst n1 outs; clear H.
  repeat split; cbn [set_queues set_reg n_reg n_tbl n_q n_qd n_tasks n_bye].
  - exact RC.
  - auto.
  - apply (strip_quiet W (n_tbl n)); auto.
  - apply (strip_quiet W (n_tbl n)); auto.
  - intros i b Hin. apply zd_set_in in Hin as [Hin|Hin]; [eapply HT; exact Hin|]. inversion Hin; subst. apply goodbye_task_ok.
  - exact HB.
Qed.

(* ---- no resurrection ---- *)
(* After async_unregister_service(s), and as long as nothing is registered again, no message the node sends carries - as
   answer or additional - a record with TTL > 0 that has the identity of a withdrawn record (PTR, SRV, TXT of s; its address and
   NSEC records when no remaining service shares the host).  The goodbye task's messages carry them with TTL 0.
   Assumed of the pre-state: no other task (e.g. the announcement of s, if it is still running) and no shutdown message
   carries those records with a positive TTL.  The outgoing queues need no assumption beyond the interning invariant:
   async_remove_answers takes the withdrawn records out as answers and as additionals. *)
Theorem no_resurrection : forall n id now key s n1 outs,
  RegInv (n_reg n) -> InternInv n ->
  d_get text_eqb (g_services (n_reg n)) key = Some s ->
  nstep n (LUnregister id now key) = (n1, outs) ->
  let W := withdrawn_records (n_reg n) s in
  (* side condition of the derivation from the registry: s is not registered under the service-type-enumeration name *)
  lower (s_type s) <> C_SERVICE_TYPE_ENUMERATION_NAME ->
  (* nothing else is still announcing s *)
  tasks_ok W n -> bye_ok W n ->
  forall ls, Forall calm ls ->
  forall outs' t d m r,
    In outs' (nrun n1 ls) -> In (OSend t d m) outs' ->
    In r (map fst (o_answers m) ++ o_additionals m) -> p_ttl r > 0 ->
    forall w, In w W -> gen_eq w r = false.
Proof.
  intros n id now key s n1 outs RI II G H W NE HT HB ls C outs' t d m r Ho Hs Hr Ht w Hw.
  pose proof (unregister_quiet _ _ _ _ _ _ _ RI II G H NE HT HB) as Q.
  pose proof (withdrawn_enum_clean (n_reg n) s NE) as EC.
  pose proof (quiet_run W ls EC C n1 Q) as F. rewrite Forall_forall in F. specialize (F _ Ho).
  rewrite Forall_forall in F. specialize (F _ Hs). cbn [out_ok] in F. specialize (F r Hr Ht).
  destruct (gen_eq w r) eqn:E; [|reflexivity]. exfalso. apply F. exists w. split; assumption.
Qed.

(* the settled pre-state that matters in practice: every announcement / goodbye task has finished, no shutdown message,
   both outgoing queues empty *)
Corollary no_resurrection_idle : forall n id now key s n1 outs,
  RegInv (n_reg n) -> TblInv (n_tbl n) ->
  q_groups (n_q n) = [] -> q_groups (n_qd n) = [] ->
  (forall i b, In (i, b) (n_tasks n) -> bc_left b <= 0) -> n_bye n = None ->
  d_get text_eqb (g_services (n_reg n)) key = Some s ->
  nstep n (LUnregister id now key) = (n1, outs) ->
  lower (s_type s) <> C_SERVICE_TYPE_ENUMERATION_NAME ->
  forall ls, Forall calm ls ->
  forall outs' t d m r,
    In outs' (nrun n1 ls) -> In (OSend t d m) outs' ->
    In r (map fst (o_answers m) ++ o_additionals m) -> p_ttl r > 0 ->
    forall w, In w (withdrawn_records (n_reg n) s) -> gen_eq w r = false.
Proof.
  intros n id now key s n1 outs RI T E1 E2 HT HB G H NE.
  assert (QE : forall (E : entry -> Prop) q, q_groups q = [] -> QAll E q).
  { intros E q Hq. unfold QAll. rewrite Hq. constructor. }
  assert (QD : forall q, q_groups q = [] -> QDict q).
  { intros q Hq. unfold QDict. rewrite Hq. constructor. }
  eapply no_resurrection; try eassumption.
  - repeat split; auto.
  - intros i b Hin. left. eapply HT. exact Hin.
  - intros m Hm. rewrite HB in Hm. discriminate.
Qed.

(* ====================================================================================================== *)
(* 4. why the extra hypotheses are there: counterexamples                                                  *)
(* ====================================================================================================== *)

(* '_t._tcp.local.' and 'h.local.' *)
Definition cx_type : text := [95;116;46;95;116;99;112;46;108;111;99;97;108;46].
Definition cx_host : text := [104;46;108;111;99;97;108;46].
Definition cx_svc (c : Z) (v4 v6 : list bytes) : svc :=
  {| s_type := cx_type; s_name := [c; 46] ++ cx_type; s_server := cx_host; s_port := 80; s_weight := 0; s_priority := 0;
     s_text := []; s_host_ttl := 120; s_other_ttl := 4500; s_v4 := v4; s_v6 := v6 |}.

(* does the output carry a record with TTL > 0 that has the identity of a record in W? *)
Definition resurrects (W : list pyrec) (o : nout) : bool :=
  match o with
  | OSend _ _ m => existsb (fun r => (0 <? p_ttl r) && existsb (fun w => gen_eq w r) W) (map fst (o_answers m) ++ o_additionals m)
  | _ => false
  end.

Lemma TblInv_nil : TblInv [].
Proof. intros i j x y Hi. destruct i; discriminate. Qed.

Fixpoint fresh_all (tbl : list pyrec) : bool :=
  match tbl with [] => true | x :: r => forallb (fun y => negb (gen_eq x y)) r && fresh_all r end.

Lemma fresh_all_sound tbl : fresh_all tbl = true -> TblInv tbl.
Proof.
  induction tbl as [|a tbl IH]; intro H; [apply TblInv_nil|]. cbn [fresh_all] in H. apply andb_true_iff in H as [H1 H2].
  rewrite forallb_forall in H1. intros i j x y Hi Hj E. destruct i as [|i], j as [|j]; cbn [nth_error] in Hi, Hj.
  - reflexivity.
  - inversion Hi; subst. apply nth_error_In in Hj. apply H1 in Hj. rewrite E in Hj. discriminate.
  - inversion Hj; subst. apply nth_error_In in Hi. apply H1 in Hi. rewrite eq_sym_, E in Hi. discriminate.
  - f_equal. eapply IH; eassumption.
Qed.

(* (a) the sketched statement - only RegInv and the interning invariant - is false: a service is registered and unregistered
   before its announcement task has finished; the task goes on announcing it with the full TTL after the goodbye *)
Definition cxa_s : svc := cx_svc 97 [[10;0;0;1]] [].
Definition cxa_n : node := nstate node_init [LRegister 1 0 cxa_s true false true].

Theorem no_resurrection_refuted :
  ~ (forall n id now key s n1 outs,
       RegInv (n_reg n) -> InternInv n ->
       d_get text_eqb (g_services (n_reg n)) key = Some s ->
       nstep n (LUnregister id now key) = (n1, outs) ->
       lower (s_type s) <> C_SERVICE_TYPE_ENUMERATION_NAME ->
       forall ls, Forall calm ls ->
       forall outs' t d m r,
         In outs' (nrun n1 ls) -> In (OSend t d m) outs' ->
         In r (map fst (o_answers m) ++ o_additionals m) -> p_ttl r > 0 ->
         forall w, In w (withdrawn_records (n_reg n) s) -> gen_eq w r = false).
Proof.
  intro H.
  assert (RI : RegInv (n_reg cxa_n)).
  { replace (n_reg cxa_n) with (reg_run [OpAdd cxa_s]) by (vm_compute; reflexivity). apply reg_run_inv. }
  assert (II : InternInv cxa_n).
  { unfold InternInv, QDict, QAll. change (n_tbl cxa_n) with (@nil pyrec).
    change (q_groups (n_q cxa_n)) with (@nil group). change (q_groups (n_qd cxa_n)) with (@nil group).
    repeat split; try constructor. apply TblInv_nil. }
  specialize (H cxa_n 2 1000 (s_key cxa_s) cxa_s
                (fst (nstep cxa_n (LUnregister 2 1000 (s_key cxa_s)))) (snd (nstep cxa_n (LUnregister 2 1000 (s_key cxa_s))))
                RI II).
  assert (E : gen_eq (dns_pointer cxa_s) (dns_pointer cxa_s) = false).
  { eapply (H eq_refl (surjective_pairing _)) with
        (ls := [LBcast 1 1002]) (t := 1002) (d := None) (m := broadcast_msg (broadcast_records cxa_s None true))
        (outs' := [OSend 1002 None (broadcast_msg (broadcast_records cxa_s None true)); OWait 225]).
    - vm_compute. discriminate.
    - constructor; [exact I|constructor].
    - left. vm_compute. reflexivity.
    - left. reflexivity.
    - left. reflexivity.
    - vm_compute. reflexivity.
    - left. reflexivity. }
  rewrite eq_refl_ in E. discriminate.
Qed.

(* (b) the history that defeated the first C08 repair (which stripped the withdrawn records only as answers): two services
   share a host; s1 has an A and an AAAA address, s2 only the AAAA address.  A query puts "A -> additional AAAA" into the
   aggregation queue.  s1 is unregistered (the host is shared: its addresses stay), then s2 (nobody shares the host any more: the
   AAAA record is withdrawn).  The A entry is still queued; before async_remove_answers also pruned the additionals it dragged the
   withdrawn AAAA record along with TTL 120 after all goodbyes had been sent.  Now the very same history lets nothing withdrawn
   out: what async_ready sends at 5100 is the A record alone (an instance of no_resurrection; here by computation). *)
Definition cxb_v6 : bytes := [1;2;3;4;5;6;7;8;9;10;11;12;13;14;15;16].
Definition cxb_s1 : svc := cx_svc 97 [[10;0;0;1]] [cxb_v6].
Definition cxb_s2 : svc := cx_svc 98 [] [cxb_v6].
Definition cxb_query : qmsg :=
  {| qm_questions := [blank KQuestion cx_host C_TYPE_A C_CLASS_IN 0; blank KQuestion cx_type C_TYPE_PTR C_CLASS_IN 0];
     qm_answers := []; qm_is_probe := false; qm_now := 5000 |}.
Definition cxb_history : list nlabel :=
  [LRegister 1 0 cxb_s1 true false true; LRegister 2 0 cxb_s2 true false true;
   LBcast 1 1; LBcast 1 2; LBcast 1 3; LBcast 2 1; LBcast 2 2; LBcast 2 3;          (* both announcements complete *)
   LQuery 5000 [cxb_query] 0 [49] 5353 20 20;
   LUnregister 3 5010 (s_key cxb_s1); LBcast 3 5011; LBcast 3 5012; LBcast 3 5013].  (* s1 gone, its goodbyes sent *)
Definition cxb_n : node := nstate node_init cxb_history.
Definition cxb_W : list pyrec := withdrawn_records (n_reg cxb_n) cxb_s2.
Definition cxb_later : list nlabel := [LBcast 4 5021; LBcast 4 5022; LBcast 4 5023; LReady false 5100].

Example cxb_settled :
  map (fun x => bc_left (snd x)) (n_tasks cxb_n) = [0; 0; 0] /\ n_bye cxb_n = None /\
  names_of (n_reg cxb_n) = [s_key cxb_s2].
Proof. vm_compute. auto. Qed.

Example cxb_no_resurrection :
  map (map (resurrects cxb_W)) (nrun cxb_n (LUnregister 4 5020 (s_key cxb_s2) :: cxb_later)) =
  [[false]; [false; false]; [false; false]; [false; false]; [false]].
Proof. vm_compute. reflexivity. Qed.

(* what is left of the queued entry: the answer (kind, type, TTL) without additionals *)
Example cxb_last_send :
  match last (nrun cxb_n (LUnregister 4 5020 (s_key cxb_s2) :: cxb_later)) [] with
  | [OSend 5100 None m] => (map (fun ra => (p_kind (fst ra), p_type_ (fst ra), p_ttl (fst ra))) (o_answers m), o_additionals m)
  | _ => ([], [])
  end = ([(KAddress, C_TYPE_A, 120)], []).
Proof. vm_compute. reflexivity. Qed.

(* (c) the side condition on the type: a "service" registered under the service-type-enumeration name whose instance name is the
   type of another registered service has a PTR record with the identity of that type's enumeration pointer; the enumeration
   answer for the remaining service brings it back *)
Definition cxc_s : svc :=
  {| s_type := C_SERVICE_TYPE_ENUMERATION_NAME; s_name := cx_type; s_server := [120; 46]; s_port := 1; s_weight := 0; s_priority := 0;
     s_text := []; s_host_ttl := 120; s_other_ttl := 4500; s_v4 := []; s_v6 := [] |}.
Definition cxc_n : node := set_reg node_init (reg_run [OpAdd cxc_s; OpAdd cxa_s]) [] [].
Definition cxc_query : qmsg :=
  {| qm_questions := [blank KQuestion C_SERVICE_TYPE_ENUMERATION_NAME C_TYPE_PTR C_CLASS_IN 0];
     qm_answers := []; qm_is_probe := false; qm_now := 10 |}.

Example cxc_resurrection :
  map (map (resurrects (withdrawn_records (n_reg cxc_n) cxc_s)))
      (nrun cxc_n [LUnregister 1 0 (s_key cxc_s); LQuery 10 [cxc_query] 0 [49] 5353 20 20; LReady false 600]) =
  [[false]; []; [true]].
Proof. vm_compute. reflexivity. Qed.

Print Assumptions goodbye_content.
Print Assumptions stripped_keys_stay_out.
Print Assumptions stripped_keys_never_emitted.
Print Assumptions stripped_ids_stay_out.
Print Assumptions stripped_ids_never_emitted.
Print Assumptions no_resurrection.
Print Assumptions no_resurrection_idle.
Print Assumptions no_resurrection_refuted.
Print Assumptions cxb_settled.
Print Assumptions cxb_no_resurrection.
Print Assumptions cxb_last_send.
Print Assumptions cxc_resurrection.
