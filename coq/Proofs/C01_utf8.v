(* C01 stage 1: UTF-8 encode / decode('replace') round trip on scalar-value texts. *)
From Coq Require Import ZArith List Bool Lia ZifyBool.
From ZC Require Import Model.Base Model.Utf8.
Import ListNotations.
Open Scope Z_scope.
Ltac Zify.zify_post_hook ::= Z.to_euclidean_division_equations.

(* ---------- per code point ---------- *)

Lemma utf8_cp_range c : is_scalar c = true -> Forall (fun x => 0 <= x < 256) (utf8_cp c).
Proof.
  unfold is_scalar, is_surrogate, utf8_cp. intro H.
  destruct (c <? 128) eqn:E1; [repeat constructor; lia|].
  destruct (c <? 2048) eqn:E2; [repeat constructor; lia|].
  destruct (c <? 65536) eqn:E3; repeat constructor; lia.
Qed.

Lemma utf8_cp_length c : (1 <= length (utf8_cp c) <= 4)%nat.
Proof.
  unfold utf8_cp.
  destruct (c <? 128); [simpl; lia|].
  destruct (c <? 2048); [simpl; lia|].
  destruct (c <? 65536); simpl; lia.
Qed.

Lemma decode_cp1 c f rest : is_scalar c = true -> c <? 128 = true ->
  utf8_decode_fuel (S f) (c :: rest) = c :: utf8_decode_fuel f rest.
Proof. intros _ H. cbn [utf8_decode_fuel]. rewrite H. reflexivity. Qed.

Lemma decode_cp2 c f rest : 128 <= c < 2048 ->
  utf8_decode_fuel (S f) ((192 + c / 64) :: (128 + c mod 64) :: rest) = c :: utf8_decode_fuel f rest.
Proof.
  intro H. cbn [utf8_decode_fuel].
  replace (192 + c / 64 <? 128) with false by lia.
  replace ((194 <=? 192 + c / 64) && (192 + c / 64 <=? 223)) with true by lia.
  unfold is_cont.
  replace ((128 <=? 128 + c mod 64) && (128 + c mod 64 <=? 191)) with true by lia.
  f_equal. lia.
Qed.

Lemma decode_cp3 c f rest : 2048 <= c < 65536 -> is_surrogate c = false ->
  utf8_decode_fuel (S f) ((224 + c / 4096) :: (128 + (c / 64) mod 64) :: (128 + c mod 64) :: rest)
  = c :: utf8_decode_fuel f rest.
Proof.
  intros H Hs. unfold is_surrogate in Hs. cbn [utf8_decode_fuel].
  replace (224 + c / 4096 <? 128) with false by lia.
  replace ((194 <=? 224 + c / 4096) && (224 + c / 4096 <=? 223)) with false by lia.
  replace ((224 <=? 224 + c / 4096) && (224 + c / 4096 <=? 239)) with true by lia.
  assert (Hsec : second_ok (224 + c / 4096) (128 + (c / 64) mod 64) = true).
  { unfold second_ok, is_cont.
    destruct (224 + c / 4096 =? 224) eqn:E1; [lia|].
    destruct (224 + c / 4096 =? 237) eqn:E2; [lia|].
    destruct (224 + c / 4096 =? 240) eqn:E3; [lia|].
    destruct (224 + c / 4096 =? 244) eqn:E4; lia. }
  rewrite Hsec. unfold is_cont.
  replace ((128 <=? 128 + c mod 64) && (128 + c mod 64 <=? 191)) with true by lia.
  f_equal. lia.
Qed.

Lemma decode_cp4 c f rest : 65536 <= c <= 1114111 ->
  utf8_decode_fuel (S f) ((240 + c / 262144) :: (128 + (c / 4096) mod 64) :: (128 + (c / 64) mod 64)
                          :: (128 + c mod 64) :: rest)
  = c :: utf8_decode_fuel f rest.
Proof.
  intros H. cbn [utf8_decode_fuel].
  replace (240 + c / 262144 <? 128) with false by lia.
  replace ((194 <=? 240 + c / 262144) && (240 + c / 262144 <=? 223)) with false by lia.
  replace ((224 <=? 240 + c / 262144) && (240 + c / 262144 <=? 239)) with false by lia.
  replace ((240 <=? 240 + c / 262144) && (240 + c / 262144 <=? 244)) with true by lia.
  assert (Hsec : second_ok (240 + c / 262144) (128 + (c / 4096) mod 64) = true).
  { unfold second_ok, is_cont.
    destruct (240 + c / 262144 =? 224) eqn:E1; [lia|].
    destruct (240 + c / 262144 =? 237) eqn:E2; [lia|].
    destruct (240 + c / 262144 =? 240) eqn:E3; [lia|].
    destruct (240 + c / 262144 =? 244) eqn:E4; lia. }
  rewrite Hsec. unfold is_cont.
  replace ((128 <=? 128 + (c / 64) mod 64) && (128 + (c / 64) mod 64 <=? 191)) with true by lia.
  replace ((128 <=? 128 + c mod 64) && (128 + c mod 64 <=? 191)) with true by lia.
  f_equal. lia.
Qed.

Lemma decode_cp c f rest : is_scalar c = true ->
  utf8_decode_fuel (S f) (utf8_cp c ++ rest) = c :: utf8_decode_fuel f rest.
Proof.
  intro H. assert (H' := H). unfold is_scalar in H'.
  unfold utf8_cp.
  destruct (c <? 128) eqn:E1; [apply decode_cp1; assumption|].
  destruct (c <? 2048) eqn:E2; [apply decode_cp2; lia|].
  destruct (c <? 65536) eqn:E3.
  - apply decode_cp3; [lia|]. destruct (is_surrogate c); [discriminate H' || (exfalso; lia)|reflexivity].
  - apply decode_cp4. lia.
Qed.

(* ---------- whole texts ---------- *)

Lemma utf8_roundtrip_fuel : forall s b fuel, scalar_text s = true -> utf8_encode s = Ok b ->
  (length b <= fuel)%nat -> utf8_decode_fuel fuel b = s.
Proof.
  induction s as [|c s IH]; intros b fuel Hs He Hf.
  - cbn [utf8_encode] in He. inversion He; subst b. destruct fuel; reflexivity.
  - cbn [scalar_text forallb] in Hs. apply andb_true_iff in Hs as [Hc Hs].
    cbn [utf8_encode] in He.
    destruct (is_surrogate c) eqn:Esur; [discriminate|].
    destruct (utf8_encode s) as [b'|e] eqn:Eb; [|discriminate].
    inversion He; subst b. clear He.
    rewrite app_length in Hf. pose proof (utf8_cp_length c) as Hl.
    destruct fuel as [|f]; [lia|].
    rewrite decode_cp by exact Hc. f_equal.
    apply IH; [exact Hs|reflexivity|lia].
Qed.

Theorem utf8_roundtrip : forall s b, scalar_text s = true -> utf8_encode s = Ok b -> utf8_decode_replace b = s.
Proof.
  intros s b Hs He. unfold utf8_decode_replace. apply (utf8_roundtrip_fuel s b); [exact Hs|exact He|lia].
Qed.

Theorem utf8_bytes_range : forall s b, scalar_text s = true -> utf8_encode s = Ok b -> Forall (fun x => 0 <= x < 256) b.
Proof.
  induction s as [|c s IH]; intros b Hs He.
  - cbn [utf8_encode] in He. inversion He. constructor.
  - cbn [scalar_text forallb] in Hs. apply andb_true_iff in Hs as [Hc Hs].
    cbn [utf8_encode] in He.
    destruct (is_surrogate c) eqn:Esur; [discriminate|].
    destruct (utf8_encode s) as [b'|e] eqn:Eb; [|discriminate].
    inversion He; subst b. apply Forall_app. split; [apply utf8_cp_range; exact Hc|].
    apply IH; [exact Hs|reflexivity].
Qed.

Print Assumptions utf8_roundtrip.
Print Assumptions utf8_bytes_range.
