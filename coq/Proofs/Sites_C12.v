(* Sites_C12: the comparisons of Model.OutQueue and of the one-second test of Model.Respond are the ones
   multicast_outgoing_queue.py / query_handler.py write now. *)
From ZC Require Import Model.Base Model.PyRec Model.Dict Model.Cache Model.Respond Model.OutQueue Gen.Const Gen.DnsPure Gen.Sites.

Lemma tie_last_second c now r :
  has_mcast_record_in_last_second c now r =
  match async_get_unique c r with
  | Some e => sop_apply site_resp_last_second (now - DNSRecord_created e) site_resp_last_second_rhs
  | None => false end.
Proof. reflexivity. Qed.

(* async_add on a non-empty queue: joins the last group iff the source's comparison says so, otherwise appends a group *)
Lemma tie_async_add_merge q now tnow rnd a g gs :
  q_groups q = g :: gs ->
  let send_after := now + (rnd + q_additional q) in
  let lastg := last (g :: gs) {| g_after := 0; g_before := 0; g_answers := [] |} in
  length (q_groups (async_add q now tnow rnd a)) =
  if sop_apply site_oq_merge send_after (g_after lastg) then length (g :: gs) else S (length (g :: gs)).
Proof.
  intros Hq. unfold async_add. rewrite Hq. cbn [sop_apply site_oq_merge].
  destruct (now + (rnd + q_additional q) <=? g_after (last (g :: gs) {| g_after := 0; g_before := 0; g_answers := [] |})); cbn [q_groups].
  - clear Hq. revert g. induction gs as [|g' gs IH]; intros g; [reflexivity|].
    change (replace_last (g :: g' :: gs) ?f) with (g :: replace_last (g' :: gs) f). cbn [length]. f_equal. apply IH.
  - rewrite app_length. cbn [length]. rewrite Nat.add_1_r. reflexivity.
Qed.

(* pop_due sends the head group iff the source's `send_after <= now` holds *)
Lemma tie_pop_due g r now acc :
  pop_due (g :: r) now acc =
  if sop_apply site_oq_ready_due (g_after g) now then pop_due r now (a_update acc (g_answers g)) else (g :: r, acc).
Proof. reflexivity. Qed.

(* with two or more groups waiting, async_ready re-arms without sending iff the source's `send_before > now` holds *)
Lemma tie_ready_wait q now g0 g1 gs :
  q_groups q = g0 :: g1 :: gs ->
  sop_apply site_oq_ready_wait (g_before g0) now = true ->
  snd (async_ready_body q now) = None /\ q_groups (fst (async_ready_body q now)) = q_groups q.
Proof. intros Hq H. unfold async_ready_body. rewrite Hq. cbn [sop_apply site_oq_ready_wait] in H. rewrite H. cbn [fst snd q_groups]. split; reflexivity. Qed.

Definition sites_C12_ops : Prop :=
  sites_found_C12 = true /\ site_oq_ready_many = Sgt /\ site_oq_ready_many_rhs = 1 /\
  ncmp_handlers_multicast_outgoing_queue_MulticastOutgoingQueue_async_add = 1 /\
  ncmp_handlers_multicast_outgoing_queue_MulticastOutgoingQueue_async_ready = 3 /\
  ncmp_handlers_query_handler_QueryResponse_has_mcast_record_in_last_second = 1.
Lemma sites_C12_ops_ok : sites_C12_ops. Proof. repeat split; reflexivity. Qed.
