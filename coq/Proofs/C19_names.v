(* C19 (name part): service_type_name (suffix view, follows the code) agrees with the label-view
   specification of RFC 6763 service names (Spec/Rfc6763Name.v). *)
From Coq Require Import Lia ZArith List Bool.
From ZC Require Import Model.Base Model.Re Model.Utf8 Model.Names Gen.Const Gen.Shapes Spec.Rfc6763Name.
Import ListNotations.
Open Scope Z_scope.

(* ---------- generic list facts ---------- *)
Lemma firstn_length_app {A} (a b : list A) : firstn (length a) (a ++ b) = a.
Proof. induction a as [|x a IH]; simpl; [destruct b; reflexivity | rewrite IH; reflexivity]. Qed.

Lemma skipn_length_app {A} (a b : list A) : skipn (length a) (a ++ b) = b.
Proof. induction a as [|x a IH]; simpl; [reflexivity | exact IH]. Qed.

Lemma forallb_ext' {A} (f g : A -> bool) l : (forall x, f x = g x) -> forallb f l = forallb g l.
Proof. intro H. induction l as [|x l IH]; simpl; [reflexivity | rewrite H, IH; reflexivity]. Qed.

Lemma existsb_ext' {A} (f g : A -> bool) l : (forall x, f x = g x) -> existsb f l = existsb g l.
Proof. intro H. induction l as [|x l IH]; simpl; [reflexivity | rewrite H, IH; reflexivity]. Qed.

Lemma rev_eq_cons {A} (l : list A) x r : rev l = x :: r -> l = rev r ++ [x].
Proof. intro H. rewrite <- (rev_involutive l), H. reflexivity. Qed.

Lemma rev_nil_inv {A} (l : list A) : rev l = [] -> l = [].
Proof. intro H. rewrite <- (rev_involutive l), H. reflexivity. Qed.

(* ---------- split_dot / join_dot ---------- *)
Lemma split_dot_nonnil s : split_dot s <> [].
Proof.
  destruct s as [|c s]; simpl; [discriminate|].
  destruct (c =? DOT); [discriminate|]. destruct (split_dot s); discriminate.
Qed.

Lemma split_dot_app a b : split_dot (a ++ DOT :: b) = split_dot a ++ split_dot b.
Proof.
  induction a as [|c a IH].
  - reflexivity.
  - cbn [app split_dot]. rewrite IH. destruct (c =? DOT); [reflexivity|].
    destruct (split_dot a) as [|h t] eqn:E; [exfalso; exact (split_dot_nonnil a E)|]. reflexivity.
Qed.

Lemma join_dot_cons x r : r <> [] -> join_dot (x :: r) = x ++ DOT :: join_dot r.
Proof. destruct r as [|y r]; [intro H; contradiction|]. reflexivity. Qed.

Lemma join_split s : join_dot (split_dot s) = s.
Proof.
  induction s as [|c s IH]; [reflexivity|].
  cbn [split_dot]. destruct (Z.eqb_spec c DOT) as [Hc|Hc].
  - subst c. rewrite join_dot_cons by apply split_dot_nonnil. rewrite IH. reflexivity.
  - destruct (split_dot s) as [|h t] eqn:E; [exfalso; exact (split_dot_nonnil s E)|].
    rewrite <- IH. destruct t as [|y t]; reflexivity.
Qed.

Lemma join_dot_app L1 L2 : L1 <> [] -> L2 <> [] ->
  join_dot (L1 ++ L2) = join_dot L1 ++ DOT :: join_dot L2.
Proof.
  intros H1 H2. induction L1 as [|x L1 IH]; [contradiction|].
  destruct L1 as [|y L1'].
  - cbn [app]. rewrite join_dot_cons by exact H2. reflexivity.
  - change ((x :: y :: L1') ++ L2) with (x :: ((y :: L1') ++ L2)).
    rewrite join_dot_cons by discriminate.
    rewrite IH by discriminate.
    rewrite (join_dot_cons x (y :: L1')) by discriminate.
    rewrite <- app_assoc. reflexivity.
Qed.

Lemma split_dot_forallb (P : Z -> bool) s :
  forallb P s = true -> forall x, In x (split_dot s) -> forallb P x = true.
Proof.
  induction s as [|c s IH]; intros H x Hin.
  - simpl in Hin. destruct Hin as [Hx|[]]. subst x. reflexivity.
  - cbn [forallb] in H. apply andb_true_iff in H as [Hc Hs].
    cbn [split_dot] in Hin. destruct (c =? DOT).
    + destruct Hin as [Hx|Hin]; [subst x; reflexivity | exact (IH Hs x Hin)].
    + destruct (split_dot s) as [|h t] eqn:E.
      * destruct Hin as [Hx|[]]. subst x. simpl. rewrite Hc. reflexivity.
      * destruct Hin as [Hx|Hin].
        -- subst x. cbn [forallb]. rewrite Hc. simpl. apply (IH Hs). left; reflexivity.
        -- apply (IH Hs). right; exact Hin.
Qed.

Lemma join_dot_forallb (P : Z -> bool) L :
  P DOT = true -> (forall x, In x L -> forallb P x = true) -> forallb P (join_dot L) = true.
Proof.
  intros Hd. induction L as [|x L IH]; intro H; [reflexivity|].
  destruct L as [|y L'].
  - simpl. apply H. left; reflexivity.
  - rewrite join_dot_cons by discriminate. rewrite forallb_app. cbn [forallb].
    rewrite (H x (or_introl eq_refl)), Hd. simpl.
    apply IH. intros z Hz. apply H. right; exact Hz.
Qed.

(* ---------- endswith / slices ---------- *)
Lemma endswith_inv s suf : endswith s suf = true -> exists a, s = a ++ suf.
Proof.
  unfold endswith. intro H. apply andb_true_iff in H as [_ H]. apply text_eqb_eq in H.
  exists (firstn (length s - length suf) s).
  pose proof (firstn_skipn (length s - length suf) s) as E. rewrite H in E. symmetry. exact E.
Qed.

Lemma endswith_app a suf : endswith (a ++ suf) suf = true.
Proof.
  unfold endswith. apply andb_true_iff. split.
  - apply Nat.leb_le. rewrite app_length. lia.
  - replace (length (a ++ suf) - length suf)%nat with (length a) by (rewrite app_length; lia).
    rewrite skipn_length_app. apply text_eqb_refl.
Qed.

Lemma drop_last_app n a suf : n = length suf -> drop_last n (a ++ suf) = a.
Proof.
  intro Hn. unfold drop_last.
  replace (length (a ++ suf) - n)%nat with (length a) by (rewrite app_length; lia).
  apply firstn_length_app.
Qed.

Lemma take_last_app n a suf : n = length suf -> take_last n (a ++ suf) = suf.
Proof.
  intro Hn. unfold take_last.
  replace (length (a ++ suf) - n)%nat with (length a) by (rewrite app_length; lia).
  apply skipn_length_app.
Qed.

(* labels -> suffix *)
Lemma labels_suffix s Lsuf R :
  rev (split_dot s) = rev Lsuf ++ R -> R <> [] -> Lsuf <> [] ->
  endswith s (DOT :: join_dot Lsuf) = true.
Proof.
  intros Hrev HR HL.
  assert (Hs : split_dot s = rev R ++ Lsuf).
  { rewrite <- (rev_involutive (split_dot s)), Hrev, rev_app_distr, rev_involutive. reflexivity. }
  assert (HR' : rev R <> []).
  { intro E. apply HR. apply rev_nil_inv. exact E. }
  rewrite <- (join_split s), Hs, (join_dot_app _ _ HR' HL).
  apply endswith_app.
Qed.

(* ---------- character classes ---------- *)
Lemma in_range_single n c : in_range n n c = (c =? n).
Proof.
  unfold in_range.
  destruct (Z.leb_spec n c), (Z.leb_spec c n), (Z.eqb_spec c n); simpl; try reflexivity; lia.
Qed.

Lemma cls_strict c : cls_HAS_ONLY_A_TO_Z_NUM_HYPHEN c = svc_char true c.
Proof.
  unfold cls_HAS_ONLY_A_TO_Z_NUM_HYPHEN, svc_char, is_letter, is_digit.
  rewrite in_range_single. cbn [negb andb]. rewrite orb_false_r. reflexivity.
Qed.

Lemma cls_nonstrict c : cls_HAS_ONLY_A_TO_Z_NUM_HYPHEN_UNDERSCORE c = svc_char false c.
Proof.
  unfold cls_HAS_ONLY_A_TO_Z_NUM_HYPHEN_UNDERSCORE, svc_char, is_letter, is_digit.
  rewrite !in_range_single. reflexivity.
Qed.

Lemma cls_ctrl c : cls_HAS_ASCII_CONTROL_CHARS c = is_ctrl c.
Proof. unfold cls_HAS_ASCII_CONTROL_CHARS, is_ctrl. rewrite in_range_single. reflexivity. Qed.

Lemma re_only (strict : bool) (body : text) :
  (if strict then re_HAS_ONLY_A_TO_Z_NUM_HYPHEN else re_HAS_ONLY_A_TO_Z_NUM_HYPHEN_UNDERSCORE) body
  = nonempty body && forallb (svc_char strict) body.
Proof.
  destruct strict.
  - unfold re_HAS_ONLY_A_TO_Z_NUM_HYPHEN, re_plus_end.
    rewrite (forallb_ext' cls_HAS_ONLY_A_TO_Z_NUM_HYPHEN (svc_char true) body cls_strict). reflexivity.
  - unfold re_HAS_ONLY_A_TO_Z_NUM_HYPHEN_UNDERSCORE, re_plus_end.
    rewrite (forallb_ext' cls_HAS_ONLY_A_TO_Z_NUM_HYPHEN_UNDERSCORE (svc_char false) body cls_nonstrict). reflexivity.
Qed.

Lemma re_letter body : re_HAS_A_TO_Z body = existsb is_letter body.
Proof. reflexivity. Qed.

Lemma re_ctrl j : re_HAS_ASCII_CONTROL_CHARS j = existsb is_ctrl j.
Proof. unfold re_HAS_ASCII_CONTROL_CHARS, re_any. apply existsb_ext'. exact cls_ctrl. Qed.

(* ---------- the service label ---------- *)
Definition is_single_empty (l : list text) : bool := match l with [[]] => true | _ => false end.

Lemma single_empty l :
  ((length (rev l) =? 1)%nat && match rev l with r0 :: _ => negb (nonempty r0) | [] => false end)
  = is_single_empty l.
Proof.
  destruct l as [|x [|y l']].
  - reflexivity.
  - destruct x; reflexivity.
  - rewrite rev_length. destruct x; reflexivity.
Qed.

Lemma svc_label_ok_cons strict c body :
  svc_label_ok strict (c :: body) =
  (c =? 95) &&
  (nonempty body
      && (negb strict || (len body <=? 15))
      && negb (has_double_hyphen body)
      && negb (match body with c :: _ => c =? 45 | [] => false end)
      && negb (match rev body with c :: _ => c =? 45 | [] => false end)
      && existsb is_letter body
      && forallb (svc_char strict) body).
Proof.
  unfold svc_label_ok.
  destruct c as [|p|p]; try reflexivity.
  repeat (destruct p as [p|p|]; try reflexivity).
Qed.

Lemma check_service_ok strict ty R svc inst_rev :
  rev R = svc :: inst_rev ->
  check_service strict ty R =
  if svc_label_ok strict svc && negb (is_single_empty inst_rev)
  then Ok (rev inst_rev, svc) else Raise BadTypeInName.
Proof.
  intro Hrev. unfold check_service, pop. rewrite Hrev. cbn [bind].
  rewrite single_empty.
  destruct svc as [|c0 body]; [reflexivity|].
  rewrite svc_label_ok_cons. cbn [nonempty negb first_cp bind tl].
  destruct (is_single_empty inst_rev); [cbn [negb]; rewrite andb_false_r; reflexivity|].
  cbn [negb]. rewrite andb_true_r.
  destruct (c0 =? 95); cbn [negb andb]; [|reflexivity].
  rewrite re_only, re_letter.
  destruct body as [|b0 body']; [reflexivity|].
  assert (Hf : first_cp (b0 :: body') = Ok b0) by reflexivity.
  assert (Hm : (match b0 :: body' with c :: _ => c =? 45 | [] => false end) = (b0 =? 45)) by reflexivity.
  assert (Hn : nonempty (b0 :: body') = true) by reflexivity.
  destruct (rev (b0 :: body')) as [|lst rb] eqn:Hr.
  { apply rev_nil_inv in Hr. discriminate. }
  assert (Hl : last_cp (b0 :: body') = Ok lst) by (unfold last_cp; rewrite Hr; reflexivity).
  remember (b0 :: body') as body eqn:Hbody.
  rewrite Hf, Hl, Hn, ?Hm. cbn [bind negb andb].
  rewrite Z.leb_antisym.
  destruct strict, (15 <? len body), (has_double_hyphen body), (b0 =? 45), (lst =? 45),
    (existsb is_letter body), (forallb (svc_char true) body), (forallb (svc_char false) body);
    reflexivity.
Qed.

(* ---------- the instance part ---------- *)
Lemma post_core j : scalar_text j = true ->
  bind (utf8_len j) (fun length =>
      if 63 <? length then Raise BadTypeInName else
      if re_HAS_ASCII_CONTROL_CHARS j then Raise BadTypeInName else Ok tt)
  = if (match utf8_len j with
        | Ok n => (n <=? 63) && negb (existsb is_ctrl j)
        | Raise _ => false
        end) then Ok tt else Raise BadTypeInName.
Proof.
  intro Hs. unfold utf8_len. destruct (utf8_encode_scalar j Hs) as [b Hb]. rewrite Hb.
  cbn [bind]. rewrite re_ctrl, Z.leb_antisym.
  destruct (63 <? Z.of_nat (length b)), (existsb is_ctrl j); reflexivity.
Qed.

Lemma post_lemma L : (forall x, In x L -> scalar_text x = true) ->
  bind (Ok L) (fun remaining =>
  let remaining := match remaining with _ :: _ :: _ => [join_dot remaining] | _ => remaining end in
  match remaining with
  | [] => Ok tt
  | r0 :: _ =>
      bind (utf8_len r0) (fun length =>
      if 63 <? length then Raise BadTypeInName else
      if re_HAS_ASCII_CONTROL_CHARS r0 then Raise BadTypeInName else Ok tt)
  end)
  = if (match Some L with
        | None => false
        | Some [] => true
        | Some ls =>
            let j := join_dot ls in
            match utf8_len j with
            | Ok n => (n <=? 63) && negb (existsb is_ctrl j)
            | Raise _ => false
            end
        end) then Ok tt else Raise BadTypeInName.
Proof.
  intro H. destruct L as [|x [|y L']].
  - reflexivity.
  - exact (post_core x (H x (or_introl eq_refl))).
  - apply (post_core (join_dot (x :: y :: L'))).
    apply join_dot_forallb; [reflexivity | exact H].
Qed.

Lemma check_instance_spec ls :
  (forall x, In x ls -> scalar_text x = true) ->
  check_instance ls = if inst_ok ls then Ok tt else Raise BadTypeInName.
Proof.
  intro H. unfold check_instance, inst_ok.
  destruct (rev ls) as [|last r] eqn:Hr.
  - exact (post_lemma ls H).
  - destruct (text_eqb last SUB).
    + assert (Hrr : forall x, In x (rev r) -> scalar_text x = true).
      { intros x Hx. apply H. rewrite (rev_eq_cons _ _ _ Hr). apply in_or_app. left; exact Hx. }
      destruct (rev r) as [|r0 rr] eqn:Err; [reflexivity|].
      destruct r0 as [|c r0']; [reflexivity|].
      exact (post_lemma _ Hrr).
    + exact (post_lemma ls H).
Qed.

(* ---------- constants ---------- *)
Lemma tcp_trailer : C_TCP_PROTOCOL_LOCAL_TRAILER = DOT :: join_dot [TCP; LOCAL; []].
Proof. reflexivity. Qed.
Lemma udp_trailer : C_NONTCP_PROTOCOL_LOCAL_TRAILER = DOT :: join_dot [UDP; LOCAL; []].
Proof. reflexivity. Qed.
Lemma loc_trailer : C_LOCAL_TRAILER = DOT :: join_dot [LOCAL; []].
Proof. reflexivity. Qed.

(* ---------- the specification is None unless a trailer matches ---------- *)
Lemma spec_none strict s :
  endswith s C_TCP_PROTOCOL_LOCAL_TRAILER = false ->
  endswith s C_NONTCP_PROTOCOL_LOCAL_TRAILER = false ->
  (strict = true \/ endswith s C_LOCAL_TRAILER = false) ->
  spec_type strict s = None.
Proof.
  intros Etcp Eudp Hloc. unfold spec_type.
  destruct (256 <? len s); [reflexivity|].
  destruct (rev (split_dot s)) as [|l0 rs] eqn:Hrev; [reflexivity|].
  destruct l0 as [|c0 l0']; [|reflexivity].
  destruct rs as [|loc rest]; [reflexivity|].
  destruct (text_eqb loc LOCAL) eqn:El; cbn [negb]; [|reflexivity].
  apply text_eqb_eq in El. subst loc.
  destruct rest as [|proto rest']; [reflexivity|].
  destruct ((text_eqb proto TCP || text_eqb proto UDP) && nonempty rest') eqn:Ec.
  - exfalso. apply andb_true_iff in Ec as [Ep Hne].
    assert (Hne' : rest' <> []) by (intro E; subst rest'; discriminate).
    apply orb_true_iff in Ep as [Ep|Ep]; apply text_eqb_eq in Ep; subst proto.
    + assert (H := labels_suffix s [TCP; LOCAL; []] rest' Hrev Hne' ltac:(discriminate)).
      rewrite <- tcp_trailer in H. congruence.
    + assert (H := labels_suffix s [UDP; LOCAL; []] rest' Hrev Hne' ltac:(discriminate)).
      rewrite <- udp_trailer in H. congruence.
  - destruct strict; [reflexivity|].
    destruct Hloc as [Hloc|Hloc]; [discriminate|].
    exfalso.
    assert (H := labels_suffix s [LOCAL; []] (proto :: rest') Hrev ltac:(discriminate) ltac:(discriminate)).
    rewrite <- loc_trailer in H. congruence.
Qed.

(* ---------- a protocol trailer matches ---------- *)
Lemma proto_case strict s a proto :
  (proto = TCP \/ proto = UDP) ->
  s = a ++ DOT :: join_dot [proto; LOCAL; []] ->
  scalar_text s = true ->
  endswith s C_TCP_PROTOCOL_LOCAL_TRAILER || endswith s C_NONTCP_PROTOCOL_LOCAL_TRAILER = true ->
  service_type_name strict s =
  match spec_type strict s with Some t => Ok t | None => Raise BadTypeInName end.
Proof.
  intros Hp Hs Hsc He. unfold service_type_name, spec_type.
  destruct (256 <? len s) eqn:Hlen; [reflexivity|].
  cbv zeta. rewrite He.
  assert (Hn : length C_TCP_PROTOCOL_LOCAL_TRAILER = length (DOT :: join_dot [proto; LOCAL; []])).
  { destruct Hp; subst proto; reflexivity. }
  assert (Hdrop : drop_last (length C_TCP_PROTOCOL_LOCAL_TRAILER) s = a).
  { rewrite Hs. apply drop_last_app. exact Hn. }
  assert (Htake : take_last (length C_TCP_PROTOCOL_LOCAL_TRAILER) s = DOT :: join_dot [proto; LOCAL; []]).
  { rewrite Hs. apply take_last_app. exact Hn. }
  assert (Hrev : rev (split_dot s) = [] :: LOCAL :: proto :: rev (split_dot a)).
  { rewrite Hs, split_dot_app, rev_app_distr. destruct Hp; subst proto; reflexivity. }
  assert (Hsa : forall x, In x (split_dot a) -> scalar_text x = true).
  { apply split_dot_forallb. rewrite Hs in Hsc. unfold scalar_text in Hsc.
    rewrite forallb_app in Hsc. apply andb_true_iff in Hsc as [Hsc _]. exact Hsc. }
  rewrite Hdrop, Htake, Hrev. cbn [bind].
  rewrite orb_true_r.
  destruct (rev (split_dot a)) as [|svc inst_rev] eqn:HR.
  { exfalso. apply rev_nil_inv in HR. exact (split_dot_nonnil a HR). }
  rewrite (check_service_ok strict s (split_dot a) svc inst_rev HR).
  rewrite text_eqb_refl. cbn [negb].
  assert (Hpe : (text_eqb proto TCP || text_eqb proto UDP) && nonempty (svc :: inst_rev) = true).
  { destruct Hp; subst proto; reflexivity. }
  rewrite Hpe.
  change (match inst_rev with [[]] => true | _ => false end) with (is_single_empty inst_rev).
  assert (Hinst : forall x, In x (rev inst_rev) -> scalar_text x = true).
  { intros x Hx. apply Hsa. rewrite (rev_eq_cons _ _ _ HR). apply in_or_app. left; exact Hx. }
  destruct (svc_label_ok strict svc && negb (is_single_empty inst_rev)); cbn [bind andb]; [|reflexivity].
  rewrite (check_instance_spec _ Hinst).
  destruct (inst_ok (rev inst_rev)); cbn [bind]; [|reflexivity].
  destruct Hp; subst proto; reflexivity.
Qed.

(* ---------- only ".local." matches (non-strict) ---------- *)
Lemma local_case s a :
  s = a ++ C_LOCAL_TRAILER ->
  scalar_text s = true ->
  endswith s C_TCP_PROTOCOL_LOCAL_TRAILER = false ->
  endswith s C_NONTCP_PROTOCOL_LOCAL_TRAILER = false ->
  endswith s C_LOCAL_TRAILER = true ->
  service_type_name false s =
  match spec_type false s with Some t => Ok t | None => Raise BadTypeInName end.
Proof.
  intros Hs Hsc Etcp Eudp Eloc. unfold service_type_name, spec_type.
  destruct (256 <? len s) eqn:Hlen; [reflexivity|].
  cbv zeta. rewrite Etcp, Eudp, Eloc. cbn [orb].
  assert (Hdrop : drop_last (length C_LOCAL_TRAILER) s = a).
  { rewrite Hs. apply drop_last_app. reflexivity. }
  assert (Htake : take_last (length C_LOCAL_TRAILER - 1) s = LOCAL ++ [DOT]).
  { rewrite Hs. change (a ++ C_LOCAL_TRAILER) with (a ++ [DOT] ++ (LOCAL ++ [DOT])).
    rewrite app_assoc. apply take_last_app. reflexivity. }
  assert (Hrev : rev (split_dot s) = [] :: LOCAL :: rev (split_dot a)).
  { rewrite Hs, loc_trailer, split_dot_app, rev_app_distr. reflexivity. }
  assert (Hsa : forall x, In x (split_dot a) -> scalar_text x = true).
  { apply split_dot_forallb. rewrite Hs in Hsc. unfold scalar_text in Hsc.
    rewrite forallb_app in Hsc. apply andb_true_iff in Hsc as [Hsc _]. exact Hsc. }
  rewrite Hdrop, Htake. cbn [bind].
  rewrite (check_instance_spec _ Hsa).
  rewrite Hrev. rewrite text_eqb_refl. cbn [negb].
  destruct (rev (split_dot a)) as [|proto rest'] eqn:HR.
  { exfalso. apply rev_nil_inv in HR. exact (split_dot_nonnil a HR). }
  destruct ((text_eqb proto TCP || text_eqb proto UDP) && nonempty rest') eqn:Ec.
  - exfalso. apply andb_true_iff in Ec as [Ep Hne].
    assert (Hne' : rest' <> []) by (intro E; subst rest'; discriminate).
    apply orb_true_iff in Ep as [Ep|Ep]; apply text_eqb_eq in Ep; subst proto.
    + assert (H := labels_suffix s [TCP; LOCAL; []] rest' Hrev Hne' ltac:(discriminate)).
      rewrite <- tcp_trailer in H. congruence.
    + assert (H := labels_suffix s [UDP; LOCAL; []] rest' Hrev Hne' ltac:(discriminate)).
      rewrite <- udp_trailer in H. congruence.
  - rewrite <- HR, rev_involutive.
    destruct (inst_ok (split_dot a)); reflexivity.
Qed.

(* ---------- main theorem ---------- *)
Theorem validator_matches_spec : forall strict s, scalar_text s = true ->
  service_type_name strict s =
  match spec_type strict s with Some t => Ok t | None => Raise BadTypeInName end.
Proof.
  intros strict s Hsc.
  destruct (endswith s C_TCP_PROTOCOL_LOCAL_TRAILER) eqn:Etcp.
  { destruct (endswith_inv _ _ Etcp) as [a Ha].
    apply (proto_case strict s a TCP); [left; reflexivity | exact Ha | exact Hsc |].
    rewrite Etcp. reflexivity. }
  destruct (endswith s C_NONTCP_PROTOCOL_LOCAL_TRAILER) eqn:Eudp.
  { destruct (endswith_inv _ _ Eudp) as [a Ha].
    apply (proto_case strict s a UDP); [right; reflexivity | exact Ha | exact Hsc |].
    rewrite Etcp, Eudp. reflexivity. }
  destruct strict.
  { rewrite (spec_none true s Etcp Eudp (or_introl eq_refl)).
    unfold service_type_name. destruct (256 <? len s); [reflexivity|].
    cbv zeta. rewrite Etcp, Eudp. reflexivity. }
  destruct (endswith s C_LOCAL_TRAILER) eqn:Eloc.
  { destruct (endswith_inv _ _ Eloc) as [a Ha].
    exact (local_case s a Ha Hsc Etcp Eudp Eloc). }
  rewrite (spec_none false s Etcp Eudp (or_intror Eloc)).
  unfold service_type_name. destruct (256 <? len s); [reflexivity|].
  cbv zeta. rewrite Etcp, Eudp, Eloc. reflexivity.
Qed.

Print Assumptions validator_matches_spec.
