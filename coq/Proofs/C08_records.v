(* C08 (helper 2): interning, the records of a service, and "what the responder can still say":
   every record the responder offers (answer or additional) is, up to identity, a record of a
   service that is registered at that moment, or a service-type-enumeration pointer. *)
From Coq Require Import ZArith List Bool Lia ZifyBool.
From ZC Require Import Model.Base Model.PyRec Model.Dict Model.Re Model.Cache Model.Respond Model.Route Model.WireEnc
  Model.OutQueue Model.Register Model.Node Gen.Const Gen.Extra Gen.DnsPure Spec.AnswerSpec.
From ZC Require Import Proofs.C20_identity Proofs.C03_reg Proofs.C03_sets Proofs.C03_answers Proofs.C03_respond.
From ZC Require Import Proofs.C08_queue.
Import ListNotations.
Open Scope Z_scope.
Ltac Zify.zify_post_hook ::= Z.to_euclidean_division_equations.

(* ================= interning ================= *)
(* id i names record x in the table *)
Definition resolves (tbl : list pyrec) (i : Z) (x : pyrec) : Prop := 0 <= i /\ nth_error tbl (Z.to_nat i) = Some x.

(* the intern table never holds two records with the same identity *)
Definition TblInv (tbl : list pyrec) : Prop :=
  forall i j x y, nth_error tbl i = Some x -> nth_error tbl j = Some y -> gen_eq x y = true -> i = j.

(* the table only grows at the end *)
Definition ext (t t' : list pyrec) : Prop := exists e, t' = t ++ e.

Lemma ext_refl t : ext t t.
Proof. exists []. rewrite app_nil_r. reflexivity. Qed.

Lemma ext_trans t1 t2 t3 : ext t1 t2 -> ext t2 t3 -> ext t1 t3.
Proof. intros [e1 ->] [e2 ->]. exists (e1 ++ e2). rewrite app_assoc. reflexivity. Qed.

Lemma resolves_ext t t' i x : ext t t' -> resolves t i x -> resolves t' i x.
Proof.
  intros [e ->] [H0 H]. split; [exact H0|]. rewrite nth_error_app1; [exact H|].
  apply nth_error_Some. rewrite H. discriminate.
Qed.

Lemma resolves_fun t i x y : resolves t i x -> resolves t i y -> x = y.
Proof. intros [_ H1] [_ H2]. congruence. Qed.

Lemma resolves_lookup t i x : resolves t i x -> lookup_id t i = [x].
Proof. intros [_ H]. unfold lookup_id. rewrite H. reflexivity. Qed.

Lemma lookup_resolves t i x : 0 <= i -> In x (lookup_id t i) -> resolves t i x.
Proof.
  intros H0 H. unfold lookup_id in H. destruct (nth_error t (Z.to_nat i)) as [y|] eqn:N; [|destruct H].
  destruct H as [<-|[]]. split; assumption.
Qed.

Lemma TblInv_resolves t i j x y :
  TblInv t -> resolves t i x -> resolves t j y -> gen_eq x y = true -> i = j.
Proof. intros T [Hi Hx] [Hj Hy] E. pose proof (T _ _ _ _ Hx Hy E). lia. Qed.

Lemma index_of_some tbl r : forall i0 k, index_of tbl r i0 = Some k ->
  exists n x, k = i0 + Z.of_nat n /\ nth_error tbl n = Some x /\ gen_eq x r = true.
Proof.
  induction tbl as [|y tbl IH]; intros i0 k H; cbn [index_of] in H; [discriminate|].
  destruct (gen_eq y r) eqn:E.
  - inversion H; subst. exists O, y. split; [lia|]. split; [reflexivity|exact E].
  - apply IH in H as (n & x & Hk & Hn & Hx). exists (S n), x. split; [lia|]. split; [exact Hn|exact Hx].
Qed.

Lemma index_of_none tbl r : forall i0, index_of tbl r i0 = None -> forall x, In x tbl -> gen_eq x r = false.
Proof.
  induction tbl as [|y tbl IH]; intros i0 H x Hx; [destruct Hx|]. cbn [index_of] in H.
  destruct (gen_eq y r) eqn:E; [discriminate|]. destruct Hx as [<-|Hx]; [exact E|]. eapply IH; eassumption.
Qed.

Lemma TblInv_snoc tbl r : TblInv tbl -> (forall x, In x tbl -> gen_eq x r = false) -> TblInv (tbl ++ [r]).
Proof.
  intros T Hr i j x y Hi Hj E.
  destruct (Nat.lt_ge_cases i (length tbl)) as [Li|Li]; destruct (Nat.lt_ge_cases j (length tbl)) as [Lj|Lj].
  - rewrite nth_error_app1 in Hi, Hj by assumption. eapply T; eassumption.
  - rewrite nth_error_app1 in Hi by assumption. rewrite nth_error_app2 in Hj by assumption.
    destruct (j - length tbl)%nat as [|m]; cbn in Hj; [|destruct m; discriminate]. inversion Hj; subst y.
    apply nth_error_In in Hi. rewrite (Hr x Hi) in E. discriminate.
  - rewrite nth_error_app2 in Hi by assumption. rewrite nth_error_app1 in Hj by assumption.
    destruct (i - length tbl)%nat as [|m]; cbn in Hi; [|destruct m; discriminate]. inversion Hi; subst x.
    apply nth_error_In in Hj. rewrite eq_sym_ in E. rewrite (Hr y Hj) in E. discriminate.
  - rewrite nth_error_app2 in Hi, Hj by assumption.
    destruct (i - length tbl)%nat as [|m] eqn:Ei; cbn in Hi; [|destruct m; discriminate].
    destruct (j - length tbl)%nat as [|m'] eqn:Ej; cbn in Hj; [|destruct m'; discriminate]. lia.
Qed.

Lemma intern_spec tbl r tbl' i :
  intern tbl r = (tbl', i) ->
  ext tbl tbl' /\ (TblInv tbl -> TblInv tbl') /\ exists x, resolves tbl' i x /\ gen_eq x r = true.
Proof.
  unfold intern. destruct (index_of tbl r 0) as [k|] eqn:I; intro H; inversion H; subst; clear H.
  - split; [apply ext_refl|]. split; [auto|].
    apply index_of_some in I as (n & x & Hk & Hn & Hx). exists x. split; [|exact Hx].
    split; [lia|]. replace (Z.to_nat i) with n by lia. exact Hn.
  - split; [exists [r]; reflexivity|]. split.
    + intro T. apply TblInv_snoc; [exact T|]. eapply index_of_none. exact I.
    + exists r. split; [|apply eq_refl_]. split; [lia|]. rewrite Nat2Z.id.
      rewrite nth_error_app2 by lia. rewrite Nat.sub_diag. reflexivity.
Qed.

(* id i names a record with the identity of r *)
Definition names (tbl : list pyrec) (i : Z) (r : pyrec) : Prop := exists x, resolves tbl i x /\ gen_eq x r = true.

Lemma names_ext t t' i r : ext t t' -> names t i r -> names t' i r.
Proof. intros X (x & H & E). exists x. split; [eapply resolves_ext; eassumption|exact E]. Qed.

Lemma intern_list_gen rs : forall t0 acc tbl' ids,
  fold_left (fun acc r => let '(t, i) := intern (fst acc) r in (t, snd acc ++ [i])) rs (t0, acc) = (tbl', ids) ->
  ext t0 tbl' /\ (TblInv t0 -> TblInv tbl') /\
  exists ids', ids = acc ++ ids' /\ Forall2 (names tbl') ids' rs.
Proof.
  induction rs as [|r rs IH]; intros t0 acc tbl' ids H; cbn [fold_left] in H.
  - inversion H; subst. split; [apply ext_refl|]. split; [auto|]. exists []. rewrite app_nil_r. split; [reflexivity|constructor].
  - cbn [fst snd] in H. destruct (intern t0 r) as [t1 i] eqn:I.
    apply intern_spec in I as (X1 & T1 & N1). apply IH in H as (X2 & T2 & ids' & Hids & F).
    split; [eapply ext_trans; eassumption|]. split; [auto|].
    exists (i :: ids'). split; [rewrite Hids, <- app_assoc; reflexivity|].
    constructor; [eapply names_ext; eassumption|exact F].
Qed.

Lemma intern_list_spec tbl rs tbl' ids :
  intern_list tbl rs = (tbl', ids) ->
  ext tbl tbl' /\ (TblInv tbl -> TblInv tbl') /\ Forall2 (names tbl') ids rs.
Proof.
  unfold intern_list. intro H. apply intern_list_gen in H as (X & T & ids' & Hids & F).
  cbn [app] in Hids. subst ids'. auto.
Qed.

Lemma Forall2_weaken {A B} (R R' : A -> B -> Prop) l l' :
  (forall a b, R a b -> R' a b) -> Forall2 R l l' -> Forall2 R' l l'.
Proof. intros H F. induction F; constructor; auto. Qed.

Definition names_entry (tbl : list pyrec) (e : entry) (ra : pyrec * list pyrec) : Prop :=
  names tbl (fst e) (fst ra) /\ Forall2 (names tbl) (snd e) (snd ra).

Lemma names_entry_ext t t' e ra : ext t t' -> names_entry t e ra -> names_entry t' e ra.
Proof.
  intros X [H1 H2]. split; [eapply names_ext; eassumption|].
  eapply Forall2_weaken; [|exact H2]. intros a b Hab. eapply names_ext; eassumption.
Qed.

Lemma intern_set_gen a : forall t0 acc tbl' a',
  fold_left (fun acc ra =>
               let '(t1, k) := intern (fst acc) (fst ra) in
               let '(t2, adds) := intern_list t1 (snd ra) in
               (t2, snd acc ++ [(k, adds)])) a (t0, acc) = (tbl', a') ->
  ext t0 tbl' /\ (TblInv t0 -> TblInv tbl') /\
  exists a'', a' = acc ++ a'' /\ Forall2 (names_entry tbl') a'' a.
Proof.
  induction a as [|ra a IH]; intros t0 acc tbl' a' H; cbn [fold_left] in H.
  - inversion H; subst. split; [apply ext_refl|]. split; [auto|]. exists []. rewrite app_nil_r. split; [reflexivity|constructor].
  - cbn [fst snd] in H. destruct (intern t0 (fst ra)) as [t1 k] eqn:I.
    destruct (intern_list t1 (snd ra)) as [t2 adds] eqn:IL.
    apply intern_spec in I as (X1 & T1 & N1). apply intern_list_spec in IL as (X2 & T2 & N2).
    apply IH in H as (X3 & T3 & a'' & Ha & F).
    split; [eapply ext_trans; [eassumption|eapply ext_trans; eassumption]|]. split; [auto|].
    exists ((k, adds) :: a''). split; [rewrite Ha, <- app_assoc; reflexivity|].
    constructor; [|exact F]. eapply names_entry_ext; [exact X3|]. split; cbn [fst snd]; [|exact N2].
    eapply names_ext; eassumption.
Qed.

Lemma intern_set_spec tbl a tbl' a' :
  intern_set tbl a = (tbl', a') ->
  ext tbl tbl' /\ (TblInv tbl -> TblInv tbl') /\ Forall2 (names_entry tbl') a' a.
Proof.
  unfold intern_set. intro H. apply intern_set_gen in H as (X & T & a'' & Ha & F).
  cbn [app] in Ha. subst a''. auto.
Qed.

(* ids that name records with property P *)
Definition IdAll (P : pyrec -> Prop) (tbl : list pyrec) (i : Z) : Prop := exists x, resolves tbl i x /\ P x.
Definition EntOK (P : pyrec -> Prop) (tbl : list pyrec) (e : entry) : Prop :=
  IdAll P tbl (fst e) /\ Forall (IdAll P tbl) (snd e).

Lemma IdAll_ext P t t' i : ext t t' -> IdAll P t i -> IdAll P t' i.
Proof. intros X (x & H & Hp). exists x. split; [eapply resolves_ext; eassumption|exact Hp]. Qed.

Lemma EntOK_ext P t t' e : ext t t' -> EntOK P t e -> EntOK P t' e.
Proof.
  intros X [H1 H2]. split; [eapply IdAll_ext; eassumption|].
  eapply Forall_impl; [|exact H2]. intros a Ha. eapply IdAll_ext; eassumption.
Qed.

Lemma QAll_EntOK_ext P t t' q : ext t t' -> QAll (EntOK P t) q -> QAll (EntOK P t') q.
Proof. intro X. apply QAll_impl. intros e. apply EntOK_ext. exact X. Qed.

(* ================= identity helpers ================= *)
Lemma gen_eq_true_kind a b : gen_eq a b = true -> p_kind a = p_kind b.
Proof. apply gen_eq_kind_. Qed.

Lemma gen_eq_true_name a b : gen_eq a b = true -> lower (p_name a) = lower (p_name b).
Proof. intro E. apply eq_iff_ident in E. apply ident_lower_name. exact E. Qed.

Lemma gen_eq_true_alias a b : gen_eq a b = true -> p_kind a = KPointer -> lower (p_alias a) = lower (p_alias b).
Proof.
  intros E K. pose proof (gen_eq_true_kind _ _ E) as K2. apply eq_iff_ident in E.
  unfold ident_of in E. rewrite <- K2, K in E. inversion E. reflexivity.
Qed.

(* a record with another TTL: same identity *)
Definition set_ttl (t : Z) (r : pyrec) : pyrec :=
  {| p_kind := p_kind r; p_name := p_name r; p_type_ := p_type_ r; p_class_ := p_class_ r; p_ttl := t;
     p_created := p_created r; p_address := p_address r; p_scope_id := p_scope_id r; p_cpu := p_cpu r; p_os := p_os r;
     p_alias := p_alias r; p_text := p_text r; p_priority := p_priority r; p_weight := p_weight r; p_port := p_port r;
     p_server := p_server r; p_next_name := p_next_name r; p_rdtypes := p_rdtypes r |}.

Lemma set_ttl_same_identity t r : gen_eq r (set_ttl t r) = true.
Proof. apply eq_iff_ident. reflexivity. Qed.

Lemma set_ttl_ttl t r : p_ttl (set_ttl t r) = t.
Proof. reflexivity. Qed.

(* ================= the records of a service ================= *)
Definition svc_records (s : svc) : list pyrec :=
  [dns_pointer s; dns_service s; dns_text s] ++ dns_addresses s ++ [the_nsec s].

Lemma address_and_nsec_sub s x : In x (address_and_nsec s) -> In x (dns_addresses s ++ [the_nsec s]).
Proof.
  unfold address_and_nsec, the_nsec. cbv zeta. intro H. apply in_app_or in H as [H|H]; apply in_or_app; [left; exact H|].
  destruct (nonempty (missing_types (map p_type_ (dns_addresses s)))); [right; exact H|destruct H].
Qed.

Lemma own_additionals_sub s x : In x (own_additionals s) -> In x (svc_records s).
Proof.
  unfold own_additionals, svc_records. intro H. apply in_app_or in H as [H|H].
  - destruct H as [<-|[<-|[]]]; cbn; auto.
  - apply address_and_nsec_sub in H. apply in_or_app. right. exact H.
Qed.

Lemma broadcast_records_sub s b x : In x (broadcast_records s None b) -> In x (svc_records s).
Proof.
  unfold broadcast_records, svc_records. intro H. apply in_app_or in H as [H|H]; apply in_or_app; [left; exact H|].
  right. destruct b; [|destruct H]. apply address_and_nsec_sub. exact H.
Qed.

(* the goodbye records are the announced records with the TTL overridden *)
Lemma dns_addresses_with_ttl s t : dns_addresses (with_ttl s t) = map (set_ttl t) (dns_addresses s).
Proof.
  unfold dns_addresses. rewrite map_app, !map_map. cbn [s_server s_v4 s_v6 with_ttl s_host_ttl]. reflexivity.
Qed.

Lemma map_type_set_ttl t l : map p_type_ (map (set_ttl t) l) = map p_type_ l.
Proof. rewrite map_map. apply map_ext. reflexivity. Qed.

Lemma address_and_nsec_with_ttl s t : address_and_nsec (with_ttl s t) = map (set_ttl t) (address_and_nsec s).
Proof.
  unfold address_and_nsec. cbv zeta. rewrite dns_addresses_with_ttl, map_type_set_ttl, map_app.
  destruct (nonempty (missing_types (map p_type_ (dns_addresses s)))); reflexivity.
Qed.

Lemma broadcast_records_override s t b :
  broadcast_records s (Some t) b = map (set_ttl t) (broadcast_records s None b).
Proof.
  unfold broadcast_records. rewrite map_app. destruct b; [rewrite address_and_nsec_with_ttl|]; reflexivity.
Qed.

(* who a record of a service "belongs to": the key of the service for PTR (via its target), SRV, TXT and NSEC,
   the server key for the address records *)
Definition owned_by (key server : text) (x : pyrec) : Prop :=
  (p_kind x = KPointer /\ lower (p_alias x) = key) \/
  ((p_kind x = KService \/ p_kind x = KText \/ p_kind x = KNsec) /\ lower (p_name x) = key) \/
  (p_kind x = KAddress /\ lower (p_name x) = server).

Lemma svc_records_owned s x : In x (svc_records s) -> owned_by (s_key s) (s_server_key s) x.
Proof.
  unfold svc_records, owned_by. intro H. apply in_app_or in H as [H|H]; [|apply in_app_or in H as [H|H]].
  - destruct H as [<-|[<-|[<-|[]]]]; cbn; auto 6.
  - right. right. unfold dns_addresses in H. apply in_app_or in H as [H|H]; apply in_map_iff in H as (a & <- & _); cbn; auto.
  - destruct H as [<-|[]]. cbn. auto 6.
Qed.

Lemma svc_records_pointer_name s x : In x (svc_records s) -> p_kind x = KPointer -> lower (p_name x) = lower (s_type s).
Proof.
  unfold svc_records. intros H K. apply in_app_or in H as [H|H]; [|apply in_app_or in H as [H|H]].
  - destruct H as [<-|[<-|[<-|[]]]]; cbn in K |- *; try discriminate. reflexivity.
  - unfold dns_addresses in H. apply in_app_or in H as [H|H]; apply in_map_iff in H as (a & <- & _); discriminate.
  - destruct H as [<-|[]]. discriminate.
Qed.

Lemma broadcast_records_address s b x :
  In x (broadcast_records s None b) -> p_kind x = KAddress -> b = true.
Proof.
  unfold broadcast_records. intros H K. apply in_app_or in H as [H|H].
  - destruct H as [<-|[<-|[<-|[]]]]; discriminate.
  - destruct b; [reflexivity|destruct H].
Qed.

(* two records with the same identity belong to the same key / server *)
Lemma owned_same_identity k1 v1 k2 v2 x y :
  owned_by k1 v1 x -> owned_by k2 v2 y -> gen_eq x y = true ->
  (p_kind x = KAddress /\ v1 = v2) \/ (p_kind x <> KAddress /\ k1 = k2).
Proof.
  intros Hx Hy E. pose proof (gen_eq_true_kind _ _ E) as K. pose proof (gen_eq_true_name _ _ E) as N.
  destruct Hx as [[Kx Ax]|[[Kx Nx]|[Kx Nx]]].
  - right. split; [congruence|]. pose proof (gen_eq_true_alias _ _ E Kx) as A.
    destruct Hy as [[Ky Ay]|[[Ky Ny]|[Ky Ny]]]; [congruence| |congruence].
    destruct Ky as [Ky|[Ky|Ky]]; congruence.
  - right. split; [destruct Kx as [Kx|[Kx|Kx]]; congruence|].
    destruct Hy as [[Ky Ay]|[[Ky Ny]|[Ky Ny]]]; [|congruence|]; destruct Kx as [Kx|[Kx|Kx]]; congruence.
  - left. split; [exact Kx|]. destruct Hy as [[Ky Ay]|[[Ky Ny]|[Ky Ny]]]; [congruence| |congruence].
    destruct Ky as [Ky|[Ky|Ky]]; congruence.
Qed.

(* ================= the withdrawn set and what is "clean" of it ================= *)
Section Withdrawn.
  Variable W : list pyrec.

  (* x has the identity of a withdrawn record *)
  Definition Wish (x : pyrec) : Prop := exists w, In w W /\ gen_eq w x = true.
  Definition NW (x : pyrec) : Prop := ~ Wish x.

  Lemma NW_identity x y : gen_eq x y = true -> NW x -> NW y.
  Proof.
    intros E Hx (w & Hw & Ew). apply Hx. exists w. split; [exact Hw|].
    eapply eq_trans_; [exact Ew|]. rewrite eq_sym_. exact E.
  Qed.

  Definition RegClean (g : registry) : Prop :=
    forall s x, In s (registered g) -> In x (svc_records s) -> NW x.
  Definition EnumClean : Prop := forall t, NW (enum_pointer t).

  Definition aset_clean (u : answer_set) : Prop :=
    forall r adds, In (r, adds) u -> NW r /\ forall x, In x adds -> NW x.

  (* ---- soundness of the answers w.r.t. the registry (no registry invariant needed) ---- *)
  Lemma answer_key_sound known t st a g :
    st_ok g st -> has (map fst (answer_question known t st)) a ->
    (exists ty, gen_eq (enum_pointer ty) a = true) \/
    (exists s x, In s (registered g) /\ In x (svc_records s) /\ gen_eq x a = true).
  Proof.
    intros Hok H. destruct st as [types|l|l|s|s]; cbn [st_ok] in Hok.
    - apply ans_enum in H as (r & HIn & _ & E). apply in_map_iff in HIn as (ty & <- & _). left. exists ty. exact E.
    - apply ans_ptr in H as (r & HIn & _ & E). apply in_map_iff in HIn as (s & <- & Hs). right.
      exists s, (dns_pointer s). split; [apply Hok; exact Hs|]. split; [cbn; auto|exact E].
    - apply ans_addr in H as (s & Hs & [(d & Hd & _ & _ & E)|(_ & _ & E)]); right.
      + exists s, d. split; [apply Hok; exact Hs|]. split; [|exact E].
        unfold svc_records. apply in_or_app. right. apply in_or_app. left. exact Hd.
      + exists s, (the_nsec s). split; [apply Hok; exact Hs|]. split; [|exact E].
        unfold svc_records. apply in_or_app. right. apply in_or_app. right. left. reflexivity.
    - apply ans_srv in H as (r & [<-|[]] & _ & E). right. exists s, (dns_service s).
      split; [exact Hok|]. split; [cbn; auto|exact E].
    - apply ans_txt in H as (r & [<-|[]] & _ & E). right. exists s, (dns_text s).
      split; [exact Hok|]. split; [cbn; auto|exact E].
  Qed.

  Lemma response_additionals_own g c msgs ucast r adds x :
    In (r, adds) (all_answers (async_response g c msgs ucast)) -> In x adds ->
    exists s, In s (registered g) /\ In x (own_additionals s).
  Proof.
    intros HIn Hx.
    destruct (async_response_cases g c msgs ucast) as [[_ E]|(now & p & qs & E)]; rewrite E in HIn; [destruct HIn|].
    cbn [all_answers] in HIn.
    match type of HIn with In _ (qa_ucast (qa_of ?q) ++ _) => set (qr := q) in * end.
    assert (Hq : adds_ok (own g) (q_additionals qr)).
    { apply adds_ok_fold; [|apply adds_ok_nil]. intros y Hy. apply in_strategies_of in Hy as (m & _ & _ & Hst).
      eapply get_strategies_ok. exact Hst. }
    assert (Ho : own g adds).
    { unfold qa_of in HIn; cbn [qa_ucast qa_mcast_now qa_mcast_aggregate qa_mcast_last_second] in HIn.
      repeat (apply in_app_or in HIn as [HIn|HIn]);
        eapply (in_with_additionals (own g)); try exact HIn; try exact Hq; apply own_nil. }
    apply Ho. exact Hx.
  Qed.

  Lemma response_clean g c msgs ucast :
    RegClean g -> EnumClean -> aset_clean (all_answers (async_response g c msgs ucast)).
  Proof.
    intros RC EC r adds HIn. split.
    - assert (Hh : has (map fst (all_answers (async_response g c msgs ucast))) r).
      { exists r. split; [|apply eq_refl_]. change r with (fst (r, adds)). apply in_map. exact HIn. }
      apply response_keys in Hh as (m & q & _ & _ & st & Hst & Hh).
      apply get_strategies_ok in Hst.
      destruct (answer_key_sound _ _ _ _ _ Hst Hh) as [(ty & E)|(s & x & Hs & Hx & E)].
      + eapply NW_identity; [exact E|apply EC].
      + eapply NW_identity; [exact E|]. eapply RC; eassumption.
    - intros x Hx. destruct (response_additionals_own _ _ _ _ _ _ _ HIn Hx) as (s & Hs & Hxs).
      eapply RC; [exact Hs|]. apply own_additionals_sub. exact Hxs.
  Qed.

  (* ---- messages ---- *)
  Definition msg_records (m : out_msg) : list pyrec := map fst (o_answers m) ++ o_additionals m.
  (* no withdrawn identity at all *)
  Definition msg_clean (m : out_msg) : Prop := forall r, In r (msg_records m) -> NW r.
  (* no withdrawn identity with a positive TTL *)
  Definition msg_ok (m : out_msg) : Prop := forall r, In r (msg_records m) -> p_ttl r > 0 -> NW r.

  Lemma msg_clean_ok m : msg_clean m -> msg_ok m.
  Proof. intros H r Hr _. apply H. exact Hr. Qed.

  Lemma additionals_from a : forall x, In x (snd (answers_additionals a)) -> exists ra, In ra a /\ In x (snd ra).
  Proof.
    unfold answers_additionals. cbn [snd]. set (answers := map fst a). clearbody answers.
    assert (Inner : forall (l : list pyrec) acc x,
              In x (fold_left (fun acc x => if existsb (fun y => gen_eq y x) (answers ++ acc) then acc else acc ++ [x]) l acc) ->
              In x acc \/ In x l).
    { induction l as [|y l IH]; intros acc x H; cbn [fold_left] in H; [left; exact H|].
      apply IH in H as [H|H]; [|right; right; exact H].
      destruct (existsb (fun y0 => gen_eq y0 y) (answers ++ acc)); [left; exact H|].
      apply in_app_or in H as [H|[<-|[]]]; [left; exact H|right; left; reflexivity]. }
    assert (Outer : forall (l : answer_set) acc x,
              In x (fold_left (fun acc ra => fold_left (fun acc x => if existsb (fun y => gen_eq y x) (answers ++ acc) then acc else acc ++ [x])
                                                      (snd ra) acc) l acc) ->
              In x acc \/ exists ra, In ra l /\ In x (snd ra)).
    { induction l as [|ra l IH]; intros acc x H; cbn [fold_left] in H; [left; exact H|].
      apply IH in H as [H|(ra' & Hra & Hx)]; [|right; exists ra'; split; [right; exact Hra|exact Hx]].
      apply Inner in H as [H|H]; [left; exact H|]. right. exists ra. split; [left; reflexivity|exact H]. }
    intros x H. apply Outer in H as [[]|H]. exact H.
  Qed.

  Lemma construct_records_clean u (m : out_msg) :
    aset_clean u ->
    map fst (o_answers m) = map fst u -> o_additionals m = snd (answers_additionals u) ->
    msg_clean m.
  Proof.
    intros Hu Ha Hd r Hr. unfold msg_records in Hr. rewrite Ha, Hd in Hr. apply in_app_or in Hr as [Hr|Hr].
    - apply in_map_iff in Hr as ([r' adds] & <- & HIn). cbn [fst]. exact (proj1 (Hu _ _ HIn)).
    - apply additionals_from in Hr as ([r' adds] & HIn & Hx). cbn [snd] in Hx. exact (proj2 (Hu _ _ HIn) _ Hx).
  Qed.

  Lemma map_fst_pair0 (l : list pyrec) : map fst (map (fun r => (r, 0)) l) = l.
  Proof. rewrite map_map. cbn [fst]. apply map_id. Qed.

  Lemma construct_multicast_clean u : aset_clean u -> msg_clean (construct_multicast u).
  Proof.
    intro Hu. apply (construct_records_clean u); [exact Hu| |]; unfold construct_multicast;
      destruct (answers_additionals u) as [ans adds] eqn:A; cbn [o_answers o_additionals snd].
    - rewrite map_fst_pair0. unfold answers_additionals in A. inversion A. reflexivity.
    - reflexivity.
  Qed.

  Lemma construct_unicast_clean u src qs id : aset_clean u -> msg_clean (construct_unicast u src qs id).
  Proof.
    intro Hu. apply (construct_records_clean u); [exact Hu| |]; unfold construct_unicast;
      destruct (answers_additionals u) as [ans adds] eqn:A; cbn [o_answers o_additionals snd].
    - rewrite map_fst_pair0. unfold answers_additionals in A. inversion A. reflexivity.
    - reflexivity.
  Qed.

  Definition act_clean (a : action) : Prop :=
    match a with
    | AUnicast _ _ m | AMulticast m => msg_clean m
    | AQueue _ u | ADelayQueue _ u => aset_clean u
    end.

  Lemma aset_clean_sub u v : (forall e, In e v -> In e u) -> aset_clean u -> aset_clean v.
  Proof. intros S Hu r adds HIn. apply Hu. apply S. exact HIn. Qed.

  Lemma handle_clean g c msgs id addr port a :
    RegClean g -> EnumClean -> In a (handle_assembled_query g c msgs id addr port) -> act_clean a.
  Proof.
    intros RC EC. unfold handle_assembled_query. cbv zeta.
    pose proof (response_clean g c msgs (negb (port =? C_MDNS_PORT)) RC EC) as Hall.
    destruct (async_response g c msgs (negb (port =? C_MDNS_PORT))) as [qa|]; [|intros []].
    destruct msgs as [|m0 ms]; [intros []|]. cbn [all_answers] in Hall.
    assert (H1 : aset_clean (qa_ucast qa)) by (eapply aset_clean_sub; [|exact Hall]; intros e He; apply in_or_app; auto).
    assert (H2 : aset_clean (qa_mcast_now qa))
      by (eapply aset_clean_sub; [|exact Hall]; intros e He; apply in_or_app; right; apply in_or_app; auto).
    assert (H3 : aset_clean (qa_mcast_aggregate qa))
      by (eapply aset_clean_sub; [|exact Hall]; intros e He; apply in_or_app; right; apply in_or_app; right; apply in_or_app; auto).
    assert (H4 : aset_clean (qa_mcast_last_second qa))
      by (eapply aset_clean_sub; [|exact Hall]; intros e He; apply in_or_app; right; apply in_or_app; right; apply in_or_app; auto).
    intro HIn. apply in_app_or in HIn as [HIn|HIn]; [|apply in_app_or in HIn as [HIn|HIn]; [|apply in_app_or in HIn as [HIn|HIn]]].
    - destruct (qa_ucast qa) as [|e u] eqn:U; [destruct HIn|]. destruct HIn as [<-|[]]. cbn [act_clean].
      apply construct_unicast_clean. exact H1.
    - destruct (qa_mcast_now qa) as [|e u] eqn:U; [destruct HIn|]. destruct HIn as [<-|[]]. cbn [act_clean].
      apply construct_multicast_clean. exact H2.
    - destruct (qa_mcast_aggregate qa) as [|e u] eqn:U; [destruct HIn|]. destruct HIn as [<-|[]]. exact H3.
    - destruct (qa_mcast_last_second qa) as [|e u] eqn:U; [destruct HIn|]. destruct HIn as [<-|[]]. exact H4.
  Qed.

  (* interning a clean answer set gives clean ids *)
  Lemma names_entry_clean tbl e ra :
    names_entry tbl e ra -> (NW (fst ra) /\ forall x, In x (snd ra) -> NW x) -> EntOK NW tbl e.
  Proof.
    intros [(x & Hx & Ex) F] [Hr Hadds]. split.
    - exists x. split; [exact Hx|]. eapply NW_identity; [|exact Hr]. rewrite eq_sym_. exact Ex.
    - clear Hx Ex. induction F as [|i y is ys (z & Hz & Ez) F IH]; [constructor|]. constructor.
      + exists z. split; [exact Hz|]. eapply NW_identity; [|apply Hadds; left; reflexivity]. rewrite eq_sym_. exact Ez.
      + apply IH. intros x0 Hx0. apply Hadds. right. exact Hx0.
  Qed.

  Lemma intern_set_clean tbl u tbl' a' :
    intern_set tbl u = (tbl', a') -> aset_clean u -> AnsAll (EntOK NW tbl') a'.
  Proof.
    intros I Hu. apply intern_set_spec in I as (_ & _ & F). unfold AnsAll.
    induction F as [|e ra es ras Hn F IH]; [constructor|]. constructor.
    - eapply names_entry_clean; [exact Hn|]. destruct ra as [r adds]. apply Hu. left. reflexivity.
    - apply IH. eapply aset_clean_sub; [|exact Hu]. intros e0 He0. right. exact He0.
  Qed.

  (* what comes out of a queue of clean ids is clean *)
  Lemma extern_clean tbl a : AnsAll (EntOK NW tbl) a -> aset_clean (extern_set tbl a).
  Proof.
    intros Ha r adds HIn. unfold extern_set in HIn. apply in_flat_map in HIn as ([k ads] & Hk & HIn).
    unfold AnsAll in Ha. rewrite Forall_forall in Ha. destruct (Ha _ Hk) as [(x & Hx & Px) Hads]. cbn [fst snd] in *.
    rewrite (resolves_lookup _ _ _ Hx) in HIn. destruct HIn as [HIn|[]]. inversion HIn; subst. split; [exact Px|].
    intros y Hy. apply in_flat_map in Hy as (i & Hi & Hy). rewrite Forall_forall in Hads.
    destruct (Hads _ Hi) as (z & Hz & Pz). rewrite (resolves_lookup _ _ _ Hz) in Hy. destruct Hy as [<-|[]]. exact Pz.
  Qed.
End Withdrawn.
