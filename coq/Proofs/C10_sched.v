(* C10_sched: the query-scheduler theorems (Model/Sched.v = zeroconf QueryScheduler).
   Vocabulary (timed runs [trun], events, [punctual], [well_timed], [spaced], [live], [WF],
   [post_startup], [pass_ready], [registered_query]) is in C10_defs.v; the per-step lemmas in C10_steps.v. *)
From Coq Require Import ZArith List Bool Lia ZifyBool.
From ZC Require Import Model.Base Model.Dict Gen.Const Model.Sched Proofs.C10_defs Proofs.C10_steps.
Import ListNotations.
Open Scope Z_scope.
Ltac Zify.zify_post_hook ::= Z.to_euclidean_division_equations.

(* ================================================================== *)
(** * Plumbing                                                          *)
(* ================================================================== *)

Lemma refresh_pass_basic s now s' out :
  refresh_pass s now = (s', out) ->
  sc_delay s' = sc_delay s /\ sc_startup_sent s' = sc_startup_sent s /\ sc_first_qu s' = sc_first_qu s /\
  sc_min_next s' = now + sc_delay s /\
  (exists d', sc_next_run s' = Some (d', TReady) /\ now + sc_delay s <= d') /\
  out = match pass_ready s now with
        | [] => []
        | _ => [{| ss_now := now; ss_qu_first := false; ss_types := dedup_text (map sq_name (pass_ready s now)) |}]
        end.
Proof.
  unfold refresh_pass, pass_ready.
  destruct (drain_of s now) as [[[h al] ready] nxt].
  intro H. inversion H; subst s' out; clear H. sfields.
  destruct (rescues_fields now ready (with_heap_alias_fresh s h al (sc_fresh s))) as (F1 & F2 & F3 & F4 & _).
  sfields_in F1. sfields_in F3. sfields_in F4.
  rewrite F1, F3, F4. repeat split.
  eexists. split; [reflexivity|].
  match goal with |- _ <= match ?X with Some _ => _ | None => _ end => destruct X as [m|] end; [|lia].
  destruct (sq_when m >? now + sc_delay s) eqn:E; lia.
Qed.

Lemma fire_cases types s now s' out :
  sstep types false s (LFire now) = Some (s', out) ->
  (exists d, sc_next_run s = Some (d, TStartup) /\ d <= now) \/
  (exists d, sc_next_run s = Some (d, TReady) /\ d <= now /\ refresh_pass s now = (s', out)).
Proof.
  intro H. destruct (sstep_fire_inv _ _ _ _ _ H) as [d [[|] [Hn Hd]]].
  - left. exists d. auto.
  - right. exists d. rewrite (sstep_ready types s now d Hn Hd) in H. inversion H. auto.
Qed.

Lemma push_next_run s a n ttl ex w :
  sc_next_run (push s a n ttl ex w) = sc_next_run s \/
  (sc_min_next s <> 0 /\ exists d k, sc_next_run s = Some (d, k) /\ Z.max w (sc_min_next s) < d /\
     sc_next_run (push s a n ttl ex w) = Some (Z.max w (sc_min_next s), TReady)).
Proof.
  unfold push.
  match goal with |- context [rearm_if_due_earlier ?x0 ?y0] =>
    destruct (rearm_next_run x0 y0) as [[Hr _]|[Hm [d [k [Hr0 [Hlt Hr]]]]]] end.
  - left. exact Hr.
  - right. sfields_in Hm. sfields_in Hr0. sfields_in Hlt. split; [exact Hm|]. exists d, k. auto.
Qed.

Lemma in_dedup_text x : forall l, In x (dedup_text l) <-> In x l.
Proof.
  induction l as [|y l IH]; [cbn; tauto|].
  cbn [dedup_text]. destruct (existsb (text_eqb y) l) eqn:E.
  - rewrite IH. split; [intro H; right; exact H|].
    intros [H|H]; [|exact H]. subst y. apply existsb_exists in E as [z [Hz1 Hz2]].
    apply text_eqb_eq in Hz2. subst z. exact Hz1.
  - cbn [In]. rewrite IH. tauto.
Qed.

Lemma ptr_step types s l s' out :
  sstep types false s l = Some (s', out) ->
  match l with
  | LResched a n created ttl => s' = reschedule_ptr_first_refresh s a n created ttl /\ out = []
  | LCancel a => s' = cancel_ptr_refresh s a /\ out = []
  | _ => True
  end.
Proof. destruct l; try exact (fun _ => I); cbn; intro H; inversion H; auto. Qed.

(* ================================================================== *)
(** * 3. liveness                                                       *)
(* ================================================================== *)

Lemma liveness_step types s l s' out :
  sstep types false s l = Some (s', out) -> l <> LStop ->
  (sc_next_run s <> None \/ exists t r, l = LStart t r) -> sc_next_run s' <> None.
Proof.
  intros H Hl Hn. destruct l as [now rnd|now|a n created ttl|a|].
  - cbn in H. inversion H; subst. cbn. discriminate.
  - destruct (fire_cases _ _ _ _ _ H) as [[d [Hd1 Hd2]]|[d [Hd1 [Hd2 Hp]]]].
    + destruct (sstep_startup types s now d Hd1 Hd2) as [s1 (E & _ & _ & _ & _ & _ & _ & Hge & Hlt)].
      rewrite E in H. inversion H; subst s1 out.
      destruct (Z_lt_le_dec (sc_startup_sent s + 1) 4) as [C|C].
      * destruct (Hlt C) as [Hr _]. rewrite Hr. discriminate.
      * destruct (Hge C) as [Hr _]. rewrite Hr. discriminate.
    + destruct (refresh_pass_basic _ _ _ _ Hp) as (_ & _ & _ & _ & [d' [Hr _]] & _). rewrite Hr. discriminate.
  - apply ptr_step in H as [-> _]. destruct Hn as [Hn|[t [r E]]]; [|discriminate].
    apply (resched_fields s a n created ttl). exact Hn.
  - apply ptr_step in H as [-> _]. destruct Hn as [Hn|[t [r E]]]; [|discriminate].
    destruct (cancel_fields s a) as [Hr _]. rewrite Hr. exact Hn.
  - congruence.
Qed.

(* after LStart, as long as the scheduler is not stopped, a timer is always armed *)
Theorem liveness : forall types s t0 rnd ls s' tr,
  ~ In LStop ls ->
  srun types s (LStart t0 rnd :: ls) [] = Some (s', tr) ->
  sc_next_run s' <> None.
Proof.
  intros types s t0 rnd ls s' tr Hns H.
  assert (Haux : forall ls s tr0 s' tr, ~ In LStop ls -> sc_next_run s <> None ->
            srun types s ls tr0 = Some (s', tr) -> sc_next_run s' <> None).
  { clear. induction ls as [|l r IH]; intros s tr0 s' tr Hns Hn H.
    - cbn in H. inversion H; subst. exact Hn.
    - cbn [srun] in H. destruct (sstep types false s l) as [[s1 out]|] eqn:E; [|discriminate].
      apply (IH s1 (tr0 ++ out) s' tr); [intro Hin; apply Hns; right; exact Hin| |exact H].
      eapply liveness_step; [exact E|intro El; apply Hns; left; exact El|left; exact Hn]. }
  cbn [srun] in H. destruct (sstep types false s (LStart t0 rnd)) as [[s1 out]|] eqn:E; [|discriminate].
  apply (Haux ls s1 ([] ++ out) s' tr Hns); [|exact H].
  eapply liveness_step; [exact E|discriminate|right; eauto].
Qed.

(* ================================================================== *)
(** * 2. rate_limit                                                     *)
(* ================================================================== *)

(* the invariant: a refresh timer is never armed before sc_min_next *)
Definition rate_inv (s : sched) : Prop :=
  forall d, sc_next_run s = Some (d, TReady) -> sc_min_next s <= d.

(* p + d <= x1, x1 + d <= x2, ... *)
Fixpoint spaced_after (p d : Z) (l : list Z) : Prop :=
  match l with [] => True | x :: r => p + d <= x /\ spaced_after x d r end.

Lemma spaced_after_spaced p d l : spaced_after p d l -> spaced d l.
Proof.
  revert p. induction l as [|x l IH]; intros p H; [exact I|].
  destruct H as [_ H]. destruct l as [|y l]; [exact I|].
  split; [exact (proj1 H)|]. eapply IH. exact H.
Qed.

Lemma spaced_after_mono p p' d l : p' <= p -> spaced_after p d l -> spaced_after p' d l.
Proof. destruct l as [|x l]; [auto|]. cbn. intros Hp [H1 H2]. split; [lia|exact H2]. Qed.

Lemma rate_inv_push s a n ttl ex w : rate_inv s -> rate_inv (push s a n ttl ex w).
Proof.
  intros Hr d Hd. destruct (push_fields s a n ttl ex w) as (_ & _ & _ & _ & P5 & _). rewrite P5.
  destruct (push_next_run s a n ttl ex w) as [E|[_ [d0 [k0 [_ [_ E]]]]]]; rewrite E in Hd.
  - apply Hr. exact Hd.
  - inversion Hd; subst d. lia.
Qed.

Lemma rate_inv_init delay qnone : rate_inv (sched_init delay qnone).
Proof. intros d H. discriminate. Qed.

(* what one step does to the rate-limit data *)
Lemma rate_step types s l s' out :
  rate_inv s -> sstep types false s l = Some (s', out) ->
  rate_inv s' /\ sc_delay s' = sc_delay s /\
  match l with
  | LFire now =>
      (exists d, sc_next_run s = Some (d, TReady) /\ sc_min_next s <= now /\
                 sc_min_next s' = now + sc_delay s /\
                 (out = [] \/ exists snd, out = [snd] /\ ss_now snd = now)) \/
      (exists d, sc_next_run s = Some (d, TStartup) /\
                 (sc_min_next s' = sc_min_next s \/ sc_min_next s' = now + sc_delay s))
  | _ => sc_min_next s' = sc_min_next s /\ out = []
  end.
Proof.
  intros Hr H. destruct l as [now rnd|now|a n created ttl|a|].
  - cbn in H. inversion H; subst. split; [intros d Hd; discriminate|]. repeat split.
  - destruct (fire_cases _ _ _ _ _ H) as [[d [Hd1 Hd2]]|[d [Hd1 [Hd2 Hp]]]].
    + destruct (sstep_startup types s now d Hd1 Hd2) as [s1 (E & _ & _ & _ & Hdl & _ & _ & Hge & Hlt)].
      rewrite E in H. inversion H; subst s1 out.
      destruct (Z_lt_le_dec (sc_startup_sent s + 1) 4) as [C|C].
      * destruct (Hlt C) as [Hn Hm]. split; [intros d' Hd'; congruence|]. split; [exact Hdl|].
        right. exists d. auto.
      * destruct (Hge C) as [Hn Hm]. split; [intros d' Hd'; rewrite Hn in Hd'; inversion Hd'; lia|].
        split; [exact Hdl|]. right. exists d. auto.
    + destruct (refresh_pass_basic _ _ _ _ Hp) as (B1 & _ & _ & B4 & [d' [B5 B6]] & B7).
      split; [intros d0 Hd0; rewrite B5 in Hd0; inversion Hd0; lia|]. split; [exact B1|].
      left. exists d. split; [exact Hd1|]. split; [specialize (Hr d Hd1); lia|]. split; [exact B4|].
      rewrite B7. destruct (pass_ready s now); [left; reflexivity|right; eexists; split; reflexivity].
  - apply ptr_step in H as [-> ->].
    destruct (resched_fields s a n created ttl) as (F1 & F2 & _).
    split; [|auto].
    destruct (resched_cases s a n created ttl) as [[cur [_ [_ E]]]|[[cur [_ [_ E]]]|[_ E]]]; rewrite E.
    + exact Hr.  (* retimed_for changes neither the armed timer nor sc_min_next *)
    + apply rate_inv_push. exact Hr.
    + apply rate_inv_push. exact Hr.
  - apply ptr_step in H as [-> ->].
    destruct (cancel_fields s a) as (F1 & F2 & F3 & _).
    split; [intros d Hd; rewrite F1 in Hd; rewrite F3; apply Hr; exact Hd|]. auto.
  - cbn in H. inversion H; subst. split; [intros d Hd; discriminate|]. repeat split.
Qed.

Lemma is_refresh_cons_fire e d k now :
  e_lab e = LFire now -> sc_next_run (e_pre e) = Some (d, k) ->
  is_refresh e = match k with TReady => true | TStartup => false end.
Proof. unfold is_refresh, pass_kind. intros -> ->. reflexivity. Qed.

Lemma is_refresh_nonfire e : is_fire e = false -> is_refresh e = false.
Proof. unfold is_refresh, pass_kind, is_fire. destruct (e_lab e); try reflexivity. discriminate. Qed.

Lemma sorted_from_mono c c' l : c' <= c -> sorted_from c l -> sorted_from c' l.
Proof. destruct l as [|x l]; [auto|]. cbn. intros Hc [A B]. split; [lia|exact B]. Qed.

Lemma rate_aux types : forall ls s es lastp,
  trun types s ls = Some es -> rate_inv s -> lastp + sc_delay s <= sc_min_next s ->
  well_timed_from lastp es ->
  spaced_after lastp (sc_delay s) (map e_time (refresh_passes es)) /\
  spaced_after lastp (sc_delay s) (map ss_now (trace (refresh_passes es))).
Proof.
  induction ls as [|[l t] r IH]; intros s es lastp H Hr Hm [Hs Hc].
  - cbn in H. inversion H; subst. split; exact I.
  - apply trun_cons in H as (s' & out & es' & E1 & E2 & ->).
    cbn [map e_time] in Hs. destruct Hs as [Hs1 Hs2]. inversion Hc as [|e0 l0 Hc1 Hc2]; subst.
    destruct (rate_step _ _ _ _ _ Hr E1) as (Hr' & Hdl & Hl).
    unfold refresh_passes. cbn [filter].
    assert (Hwt' : well_timed_from lastp es').
    { split; [eapply sorted_from_mono; [exact Hs1|exact Hs2]|exact Hc2]. }
    destruct l as [now rnd|now|a n created ttl|a|];
      try (destruct Hl as [Hmn ->];
           rewrite is_refresh_nonfire by reflexivity; rewrite <- Hdl;
           apply (IH s' es' lastp E2 Hr'); [rewrite Hdl, Hmn; exact Hm|exact Hwt']).
    unfold clock_ok in Hc1. cbn [e_lab e_time] in Hc1. subst now.
    destruct Hl as [[d [Hn [Hle [Hmn Hout]]]]|[d [Hn Hmn]]].
    + rewrite (is_refresh_cons_fire _ d TReady t) by (try reflexivity; exact Hn).
      cbn [map e_time]. rewrite trace_cons. cbn [e_out].
      assert (Hwt : well_timed_from t es') by (split; assumption).
      destruct (IH s' es' t E2 Hr' ltac:(lia) Hwt) as [I1 I2]. rewrite Hdl in I1, I2.
      split; [split; [lia|exact I1]|].
      destruct Hout as [->|[snd [-> Esnd]]]; cbn [app map].
      * eapply spaced_after_mono; [|exact I2]. lia.
      * rewrite Esnd. split; [lia|exact I2].
    + rewrite (is_refresh_cons_fire _ d TStartup t) by (try reflexivity; exact Hn).
      assert (Hwt : well_timed_from t es') by (split; assumption).
      assert (Hm' : lastp + sc_delay s' <= sc_min_next s') by (destruct Hmn as [->| ->]; lia).
      rewrite <- Hdl. apply (IH s' es' lastp E2 Hr' Hm' Hwt').
Qed.

Lemma well_timed_from_first es : well_timed es ->
  forall c, (match es with [] => True | e :: _ => c <= e_time e end) -> well_timed_from c es.
Proof.
  intros [Hs Hc] c Hle. split; [|exact Hc]. destruct es as [|e es]; [exact I|].
  cbn in *. split; assumption.
Qed.

(* two consecutive refresh passes are at least sc_delay apart, in every run from a state in which
   the timer is not armed before sc_min_next (all labels allowed, timers may fire late) *)
Theorem rate_limit_from : forall types s ls es,
  rate_inv s -> trun types s ls = Some es -> well_timed es ->
  spaced (sc_delay s) (map e_time (refresh_passes es)) /\
  spaced (sc_delay s) (map ss_now (trace (refresh_passes es))).
Proof.
  intros types s ls es Hr H Hwt.
  set (c := match es with [] => 0 | e :: _ => e_time e end).
  set (lastp := Z.min c (sc_min_next s - sc_delay s)).
  assert (Hwt' : well_timed_from lastp es).
  { apply well_timed_from_first; [exact Hwt|]. subst lastp c. destruct es; [exact I|lia]. }
  destruct (rate_aux types ls s es lastp H Hr ltac:(lia) Hwt') as [I1 I2].
  split; eapply spaced_after_spaced; eassumption.
Qed.

Theorem rate_limit : forall types delay qnone ls es,
  trun types (sched_init delay qnone) ls = Some es -> well_timed es ->
  spaced delay (map e_time (refresh_passes es)) /\
  spaced delay (map ss_now (trace (refresh_passes es))).
Proof.
  intros types delay qnone ls es H Hwt.
  apply (rate_limit_from types (sched_init delay qnone) ls es (rate_inv_init _ _) H Hwt).
Qed.

(* ================================================================== *)
(** * 1. start_up                                                       *)
(* ================================================================== *)

(* the four start-up passes: t0+rnd, +1 s, +5 s, +14 s (gaps 1 s, 4 s, 9 s) *)
Definition startup_offset (i : nat) : Z :=
  match i with 0%nat => 0 | 1%nat => 1000 | 2%nat => 5000 | _ => 14000 end.
Definition startup_time (t0 rnd : Z) (i : nat) : Z := t0 + rnd + startup_offset i.
Definition startup_send (types : list text) (qnone : bool) (t0 rnd : Z) (i : nat) : ssend :=
  {| ss_now := startup_time t0 rnd i; ss_qu_first := Nat.eqb i 0 && qnone; ss_types := types |}.

(* k start-up queries have been sent and the (k+1)-th is armed on schedule *)
Definition in_phase (delay : Z) (qnone : bool) (t0 rnd : Z) (k : nat) (s : sched) : Prop :=
  sc_startup_sent s = Z.of_nat k /\ sc_next_run s = Some (startup_time t0 rnd k, TStartup) /\
  sc_min_next s = 0 /\ sc_first_qu s = qnone /\ sc_delay s = delay.

Lemma in_phase_ptr types delay qnone t0 rnd k s l s' out :
  in_phase delay qnone t0 rnd k s -> sstep types false s l = Some (s', out) ->
  match l with LResched _ _ _ _ | LCancel _ => in_phase delay qnone t0 rnd k s' /\ out = [] | _ => True end.
Proof.
  intros (H1 & H2 & H3 & H4 & H5) H. destruct l as [now rnd'|now|a n created ttl|a|]; try exact I.
  - apply ptr_step in H as [-> ->]. split; [|reflexivity].
    destruct (resched_fields s a n created ttl) as (F1 & F2 & F3 & F4 & F5 & _).
    unfold in_phase. rewrite F1, F2, F3, F4, (F5 H3). auto.
  - apply ptr_step in H as [-> ->]. split; [|reflexivity].
    destruct (cancel_fields s a) as (F1 & F2 & F3 & F4 & F5 & _).
    unfold in_phase. rewrite F1, F2, F3, F4, F5. auto.
Qed.

Lemma in_phase_fire types delay qnone t0 rnd k s s' out :
  (k < 4)%nat -> in_phase delay qnone t0 rnd k s ->
  sstep types false s (LFire (startup_time t0 rnd k)) = Some (s', out) ->
  out = [startup_send types qnone t0 rnd k] /\
  ((k < 3)%nat -> in_phase delay qnone t0 rnd (S k) s') /\
  (k = 3%nat -> sc_next_run s' = Some (startup_time t0 rnd k + delay, TReady) /\
                sc_min_next s' = startup_time t0 rnd k + delay /\ sc_delay s' = delay).
Proof.
  intros Hk (H1 & H2 & H3 & H4 & H5) H.
  destruct (sstep_startup types s _ _ H2 (Z.le_refl _)) as [s1 (E & _ & _ & _ & Hdl & Hfq & Hsent & Hge & Hlt)].
  rewrite E in H. inversion H; subst s1 out; clear H.
  split.
  { unfold startup_send_of, startup_send. rewrite H1, H4. f_equal.
    destruct k; reflexivity. }
  split.
  - intro Hk3. destruct (Hlt ltac:(lia)) as [Hn Hm].
    unfold in_phase. rewrite Hsent, Hn, Hm, Hfq, Hdl, H1.
    split; [lia|]. split; [|auto]. f_equal. f_equal.
    destruct k as [|[|[|k]]]; try lia; unfold startup_time, startup_offset; cbn [Z.of_nat Pos.of_succ_nat Pos.succ]; lia.
  - intro Hk3. destruct (Hge ltac:(lia)) as [Hn Hm]. rewrite Hn, Hm, H5. repeat split. congruence.
Qed.

Lemma fires_cons_fire e es : is_fire e = true -> fires (e :: es) = e :: fires es.
Proof. unfold fires. cbn [filter]. intros ->. reflexivity. Qed.
Lemma fires_cons_nonfire e es : is_fire e = false -> fires (e :: es) = fires es.
Proof. unfold fires. cbn [filter]. intros ->. reflexivity. Qed.

Lemma start_up_aux types delay qnone t0 rnd : forall ls s es k,
  (k < 4)%nat -> in_phase delay qnone t0 rnd k s ->
  trun types s ls = Some es -> Forall ptr_or_fire (map fst ls) -> punctual es ->
  (forall i e, (k + i < 4)%nat -> nth_error (fires es) i = Some e ->
     pass_kind e = Some TStartup /\
     e_time e = startup_time t0 rnd (k + i) /\
     e_out e = [startup_send types qnone t0 rnd (k + i)] /\
     ((k + i)%nat = 3%nat -> sc_next_run (e_post e) = Some (e_time e + delay, TReady) /\
                             sc_min_next (e_post e) = e_time e + delay)) /\
  firstn (4 - k) (trace es) =
  firstn (length (fires es)) (map (startup_send types qnone t0 rnd) (seq k (4 - k))).
Proof.
  induction ls as [|[l t] r IH]; intros s es k Hk Hph H Hpf Hp.
  - cbn in H. inversion H; subst. split; [intros [|i] e _ Hn; discriminate|].
    unfold trace, fires. cbn [map concat filter length firstn]. apply firstn_nil.
  - apply trun_cons in H as (s' & out & es' & E1 & E2 & ->).
    cbn [map fst] in Hpf. inversion Hpf as [|l0 r0 Hpf1 Hpf2]; subst.
    inversion Hp as [|e0 r1 Hp1 Hp2]; subst.
    destruct l as [now rnd'|now|a n created ttl|a|]; try (destruct Hpf1).
    + (* the timer callback *)
      destruct Hp1 as [Hck Hpt]. unfold clock_ok in Hck. cbn [e_lab e_time e_pre] in Hck, Hpt.
      pose proof Hph as (_ & Hn & _). rewrite Hn in Hpt. subst now t.
      destruct (in_phase_fire _ _ _ _ _ _ _ _ _ Hk Hph E1) as (Hout & Hlt & Heq).
      rewrite fires_cons_fire by reflexivity. rewrite trace_cons. cbn [e_out]. subst out.
      destruct (Nat.eq_dec k 3) as [K3|K3].
      * subst k. destruct (Heq eq_refl) as (Q1 & Q2 & Q3). split.
        -- intros [|i] e Hi Hnth; [|lia]. cbn in Hnth. inversion Hnth; subst e; clear Hnth.
           rewrite Nat.add_0_r. unfold pass_kind. cbn [e_lab e_pre e_time e_out e_post]. rewrite Hn.
           split; [reflexivity|]. split; [reflexivity|]. split; [reflexivity|]. intros _. auto.
        -- change (4 - 3)%nat with 1%nat. cbn [seq map length firstn app]. rewrite firstn_nil. reflexivity.
      * assert (Hk3 : (k < 3)%nat) by lia. specialize (Hlt Hk3).
        destruct (IH s' es' (S k) ltac:(lia) Hlt E2 Hpf2 Hp2) as [I1 I2]. split.
        -- intros [|i] e Hi Hnth.
           ++ cbn in Hnth. inversion Hnth; subst e; clear Hnth.
              rewrite Nat.add_0_r. unfold pass_kind. cbn [e_lab e_pre e_time e_out e_post]. rewrite Hn.
              split; [reflexivity|]. split; [reflexivity|]. split; [reflexivity|]. intro; lia.
           ++ cbn [nth_error] in Hnth. replace (k + S i)%nat with (S k + i)%nat by lia.
              apply I1; [lia|exact Hnth].
        -- replace (4 - k)%nat with (S (4 - S k)) by lia.
           cbn [seq map length firstn app]. f_equal. exact I2.
    + destruct (in_phase_ptr _ _ _ _ _ _ _ _ _ _ Hph E1) as [Hph' ->].
      rewrite fires_cons_nonfire by reflexivity. rewrite trace_cons. cbn [e_out app].
      apply (IH s' es' k Hk Hph' E2 Hpf2 Hp2).
    + destruct (in_phase_ptr _ _ _ _ _ _ _ _ _ _ Hph E1) as [Hph' ->].
      rewrite fires_cons_nonfire by reflexivity. rewrite trace_cons. cbn [e_out app].
      apply (IH s' es' k Hk Hph' E2 Hpf2 Hp2).
Qed.

Lemma in_phase_start delay qnone t0 rnd :
  in_phase delay qnone t0 rnd 0 (arm (sched_init delay qnone) (Some (t0 + rnd, TStartup))).
Proof.
  unfold in_phase, startup_time, startup_offset. cbn. repeat split. f_equal. f_equal. lia.
Qed.

(* From sched_init, after LStart t0 rnd, in a punctual run with any PTR events interleaved, the i-th
   timer callback (i = 0..3) is a start-up pass at t0+rnd (+0, +1 s, +5 s, +14 s); it sends exactly one
   query for all the types, QU only for the first and only if question_type is None; the fourth
   hands over to the refresh timer, armed one delay later. *)
Theorem start_up : forall types delay qnone t0 rnd ls es,
  trun types (sched_init delay qnone) ((LStart t0 rnd, t0) :: ls) = Some es ->
  Forall ptr_or_fire (map fst ls) ->
  punctual es ->
  forall i e, (i < 4)%nat -> nth_error (fires es) i = Some e ->
    pass_kind e = Some TStartup /\
    e_time e = startup_time t0 rnd i /\
    e_out e = [startup_send types qnone t0 rnd i] /\
    (i = 3%nat -> sc_next_run (e_post e) = Some (e_time e + delay, TReady) /\
                  sc_min_next (e_post e) = e_time e + delay).
Proof.
  intros types delay qnone t0 rnd ls es H Hpf Hp i e Hi Hnth.
  apply trun_cons in H as (s' & out & es' & E1 & E2 & ->).
  cbn in E1. inversion E1; subst s' out; clear E1.
  inversion Hp as [|e0 r1 Hp1 Hp2]; subst.
  rewrite fires_cons_nonfire in Hnth by reflexivity.
  destruct (start_up_aux types delay qnone t0 rnd ls _ es' 0%nat ltac:(lia) (in_phase_start _ _ _ _) E2 Hpf Hp2)
    as [I1 _].
  apply (I1 i e); [lia|exact Hnth].
Qed.

(* the same on the output trace of the run (the trace of srun, see trun_srun): its first four
   ssends are the four start-up queries, as many as passes have run *)
Theorem start_up_trace : forall types delay qnone t0 rnd ls es,
  trun types (sched_init delay qnone) ((LStart t0 rnd, t0) :: ls) = Some es ->
  Forall ptr_or_fire (map fst ls) ->
  punctual es ->
  firstn 4 (trace es) =
  firstn (length (fires es)) (map (startup_send types qnone t0 rnd) [0; 1; 2; 3]%nat).
Proof.
  intros types delay qnone t0 rnd ls es H Hpf Hp.
  apply trun_cons in H as (s' & out & es' & E1 & E2 & ->).
  cbn in E1. inversion E1; subst s' out; clear E1.
  inversion Hp as [|e0 r1 Hp1 Hp2]; subst.
  rewrite fires_cons_nonfire by reflexivity. rewrite trace_cons. cbn [e_out app].
  destruct (start_up_aux types delay qnone t0 rnd ls _ es' 0%nat ltac:(lia) (in_phase_start _ _ _ _) E2 Hpf Hp2)
    as [_ I2].
  exact I2.
Qed.

(* ------------------------------------------------------------------ *)
(* rate limit on the output trace: whatever is sent after the four start-up queries is spaced by
   the delay (timers may fire late here; only loop time must not go backwards) *)

Definition in_startup (k : nat) (s : sched) : Prop :=
  sc_startup_sent s = Z.of_nat k /\ (exists d, sc_next_run s = Some (d, TStartup)) /\ sc_min_next s = 0.

Lemma ready_mode_trace types : forall ls s es,
  (exists d, sc_next_run s = Some (d, TReady)) ->
  trun types s ls = Some es -> Forall ptr_or_fire (map fst ls) ->
  trace (refresh_passes es) = trace es.
Proof.
  induction ls as [|[l t] r IH]; intros s es [d Hn] H Hpf.
  - cbn in H. inversion H; subst. reflexivity.
  - apply trun_cons in H as (s' & out & es' & E1 & E2 & ->).
    cbn [map fst] in Hpf. inversion Hpf as [|l0 r0 Hpf1 Hpf2]; subst.
    unfold refresh_passes. cbn [filter].
    destruct l as [now rnd'|now|a n created ttl|a|]; try (destruct Hpf1).
    + rewrite (is_refresh_cons_fire _ d TReady now) by (try reflexivity; exact Hn).
      rewrite !trace_cons. f_equal. apply (IH s' es'); [|exact E2|exact Hpf2].
      destruct (fire_cases _ _ _ _ _ E1) as [[d0 [Hd1 _]]|[d0 [_ [_ Hp]]]]; [congruence|].
      destruct (refresh_pass_basic _ _ _ _ Hp) as (_ & _ & _ & _ & [d' [B5 _]] & _). eauto.
    + rewrite is_refresh_nonfire by reflexivity. rewrite trace_cons.
      apply ptr_step in E1 as [-> ->]. cbn [e_out app].
      apply (IH (reschedule_ptr_first_refresh s a n created ttl) es'); [|exact E2|exact Hpf2].
      destruct (resched_cases s a n created ttl) as [[cur [_ [_ E]]]|[[cur [_ [_ E]]]|[_ E]]]; rewrite E.
      * eauto.
      * destruct (push_next_run (cancelled_for s a (sq_id cur)) a n ttl (created + 1000 * ttl) (created + 750 * ttl))
          as [Ep|[_ [d0 [k0 [_ [_ Ep]]]]]]; rewrite Ep; [exists d; exact Hn|eauto].
      * destruct (push_next_run s a n ttl (created + 1000 * ttl) (created + 750 * ttl))
          as [Ep|[_ [d0 [k0 [_ [_ Ep]]]]]]; rewrite Ep; [exists d; exact Hn|eauto].
    + rewrite is_refresh_nonfire by reflexivity. rewrite trace_cons.
      apply ptr_step in E1 as [-> ->]. cbn [e_out app].
      apply (IH (cancel_ptr_refresh s a) es'); [|exact E2|exact Hpf2].
      destruct (cancel_fields s a) as [F1 _]. rewrite F1. eauto.
Qed.

Lemma well_timed_from_well_timed c es : well_timed_from c es -> well_timed es.
Proof.
  intros [Hs Hc]. split; [|exact Hc]. destruct es as [|e es]; [exact I|]. cbn in *. tauto.
Qed.

Lemma rate_trace_aux types : forall ls s es k c,
  (k < 4)%nat -> in_startup k s ->
  trun types s ls = Some es -> Forall ptr_or_fire (map fst ls) -> well_timed_from c es ->
  spaced (sc_delay s) (map ss_now (skipn (4 - k) (trace es))).
Proof.
  induction ls as [|[l t] r IH]; intros s es k c Hk Hst H Hpf [Hs Hc].
  - cbn in H. inversion H; subst. unfold trace. cbn [map concat]. rewrite skipn_nil. exact I.
  - apply trun_cons in H as (s' & out & es' & E1 & E2 & ->).
    cbn [map fst] in Hpf. inversion Hpf as [|l0 r0 Hpf1 Hpf2]; subst.
    cbn [map e_time] in Hs. destruct Hs as [Hs1 Hs2]. inversion Hc as [|e0 l0 Hc1 Hc2]; subst.
    assert (Hwt : well_timed_from t es') by (split; assumption).
    destruct Hst as (H1 & [d Hn] & H3).
    rewrite trace_cons. cbn [e_out].
    destruct l as [now rnd'|now|a n created ttl|a|]; try (destruct Hpf1).
    + destruct (fire_cases _ _ _ _ _ E1) as [[d0 [Hd1 Hd2]]|[d0 [Hd1 _]]]; [|congruence].
      destruct (sstep_startup types s now d0 Hd1 Hd2) as [s1 (E & _ & _ & _ & Hdl & _ & Hsent & Hge & Hlt)].
      rewrite E in E1. inversion E1; subst s1 out; clear E1.
      destruct (Nat.eq_dec k 3) as [K3|K3].
      * subst k. cbn [Nat.sub skipn app]. destruct (Hge ltac:(lia)) as [Q1 Q2].
        rewrite <- Hdl.
        rewrite <- (ready_mode_trace types r s' es' (ex_intro _ _ Q1) E2 Hpf2).
        apply (rate_limit_from types s' r es'); [|exact E2|eapply well_timed_from_well_timed; exact Hwt].
        intros d' Hd'. rewrite Q1 in Hd'. inversion Hd'. lia.
      * destruct (Hlt ltac:(lia)) as [Q1 Q2].
        replace (4 - k)%nat with (S (4 - S k)) by lia. cbn [app skipn]. rewrite <- Hdl.
        apply (IH s' es' (S k) t); [lia| |exact E2|exact Hpf2|exact Hwt].
        split; [lia|]. split; [eauto|congruence].
    + apply ptr_step in E1 as [-> ->]. cbn [app].
      destruct (resched_fields s a n created ttl) as (F1 & F2 & F3 & F4 & F5 & _).
      rewrite <- F1. apply (IH (reschedule_ptr_first_refresh s a n created ttl) es' k t Hk); [|exact E2|exact Hpf2|exact Hwt].
      split; [congruence|]. split; [rewrite (F5 H3); eauto|congruence].
    + apply ptr_step in E1 as [-> ->]. cbn [app].
      destruct (cancel_fields s a) as (F1 & F2 & F3 & F4 & _).
      rewrite <- F2. apply (IH (cancel_ptr_refresh s a) es' k t Hk); [|exact E2|exact Hpf2|exact Hwt].
      split; [congruence|]. split; [rewrite F1; eauto|congruence].
Qed.

Theorem rate_limit_trace : forall types delay qnone t0 rnd ls es,
  trun types (sched_init delay qnone) ((LStart t0 rnd, t0) :: ls) = Some es ->
  Forall ptr_or_fire (map fst ls) ->
  well_timed es ->
  spaced delay (map ss_now (skipn 4 (trace es))).
Proof.
  intros types delay qnone t0 rnd ls es H Hpf Hwt.
  apply trun_cons in H as (s' & out & es' & E1 & E2 & ->).
  cbn in E1. inversion E1; subst s' out; clear E1.
  rewrite trace_cons. cbn [e_out app].
  destruct Hwt as [Hs Hc]. cbn [map times_sorted e_time] in Hs. inversion Hc as [|e0 l0 Hc1 Hc2]; subst.
  change delay with (sc_delay (arm (sched_init delay qnone) (Some (t0 + rnd, TStartup)))).
  change 4%nat with (4 - 0)%nat.
  apply (rate_trace_aux types ls (arm (sched_init delay qnone) (Some (t0 + rnd, TStartup))) es' 0%nat t0 ltac:(lia));
    [|exact E2|exact Hpf|split; assumption].
  split; [reflexivity|]. split; [|reflexivity]. exists (t0 + rnd). reflexivity.
Qed.

(* ================================================================== *)
(** * 6. no_churn                                                       *)
(* ================================================================== *)

Lemma push_fresh_neq s0 s1 a n ttl ex w : sc_fresh s0 = sc_fresh s1 -> push s0 a n ttl ex w <> s1.
Proof.
  intros Hf E. destruct (push_fields s0 a n ttl ex w) as (_ & _ & P3 & _). rewrite E in P3. lia.
Qed.

(* reschedule_ptr_first_refresh keeps the schedule exactly when the alias already has a registered query whose
   time is within sc_delay of the new refresh time created + 75% ttl; the result is then the old scheduler with
   that one entry re-timed (new ttl and expiry; same ids, times, heap order, alias table, fresh counter and
   armed timer), and in no other case is the result of that form (a new entry is pushed: sc_fresh grows) *)
Theorem no_churn : forall s a n created ttl,
  (exists cur, registered_query s a = Some cur /\
               Z.abs (created + 750 * ttl - sq_when cur) <= sc_delay s) <->
  (exists id, d_get text_eqb (sc_by_alias s) a = Some id /\ find_id (sc_heap s) id <> None /\
     reschedule_ptr_first_refresh s a n created ttl =
       with_heap_alias_fresh s (retime_id (sc_heap s) id ttl (created + 1000 * ttl)) (sc_by_alias s) (sc_fresh s)).
Proof.
  intros s a n created ttl.
  assert (Hreg : forall cur, registered_query s a = Some cur ->
            dget (sc_by_alias s) a = Some (sq_id cur) /\ find_id (sc_heap s) (sq_id cur) = Some cur).
  { intros cur Hr. unfold registered_query in Hr.
    destruct (dget (sc_by_alias s) a) as [id|]; [|discriminate].
    destruct (find_id_some _ _ _ Hr) as [_ Hid]. subst id. auto. }
  destruct (resched_cases s a n created ttl) as [[cur [Hr [Hw E]]]|[[cur [Hr [Hw E]]]|[Hr E]]]; rewrite E.
  - destruct (Hreg cur Hr) as [Hg Hf]. split.
    + intros _. exists (sq_id cur). split; [exact Hg|]. split; [congruence|reflexivity].
    + intros _. exists cur. split; [exact Hr|lia].
  - split.
    + intros [cur' [Hr' Hw']]. rewrite Hr in Hr'. inversion Hr'; subst cur'. exfalso. apply Hw. lia.
    + intros [id [_ [_ Hp]]]. exfalso. eapply push_fresh_neq; [|exact Hp]. reflexivity.
  - split.
    + intros [cur' [Hr' _]]. congruence.
    + intros [id [_ [_ Hp]]]. exfalso. eapply push_fresh_neq; [|exact Hp]. reflexivity.
Qed.

(* in the no-churn case the registered query of the alias takes over ttl and expiry of the refreshed record and
   keeps everything else (no well-formedness needed) *)
Corollary no_churn_takes_ttl : forall s a n created ttl cur,
  registered_query s a = Some cur ->
  Z.abs (created + 750 * ttl - sq_when cur) <= sc_delay s ->
  exists cur', registered_query (reschedule_ptr_first_refresh s a n created ttl) a = Some cur' /\
    sq_ttl cur' = ttl /\ sq_expire cur' = created + 1000 * ttl /\
    sq_when cur' = sq_when cur /\ sq_id cur' = sq_id cur /\
    sq_alias cur' = sq_alias cur /\ sq_name cur' = sq_name cur /\ sq_cancelled cur' = sq_cancelled cur.
Proof.
  intros s a n created ttl cur Hr Hw.
  destruct (resched_cases s a n created ttl) as [[cur' [Hr' [Hw' E]]]|[[cur' [Hr' [Hw' E]]]|[Hr' E]]].
  - rewrite Hr in Hr'. inversion Hr'; subst cur'. rewrite E.
    exists (set_ttl_expire cur ttl (created + 1000 * ttl)).
    rewrite registered_query_retimed_for, Hr. cbn [option_map]. rewrite retimed_same.
    repeat split.
  - rewrite Hr in Hr'. inversion Hr'; subst cur'. exfalso. apply Hw'. lia.
  - congruence.
Qed.

(* in a well-formed state "registered" means: the live query of that alias; it stays live, re-timed *)
Corollary no_churn_live : forall s a n created ttl, WF s ->
  ((exists cur, live s cur /\ sq_alias cur = a /\
                Z.abs (created + 750 * ttl - sq_when cur) <= sc_delay s) <->
   (exists cur, live s cur /\ sq_alias cur = a /\
      reschedule_ptr_first_refresh s a n created ttl = retimed_for s (sq_id cur) ttl (created + 1000 * ttl) /\
      live (reschedule_ptr_first_refresh s a n created ttl) (set_ttl_expire cur ttl (created + 1000 * ttl)))).
Proof.
  intros s a n created ttl Hwf. split.
  - intros [cur (Hl & Ha & Hw)].
    assert (Hr : registered_query s a = Some cur) by (apply registered_query_live; auto).
    destruct (resched_cases s a n created ttl) as [[cur' [Hr' [Hw' E]]]|[[cur' [Hr' [Hw' E]]]|[Hr' E]]].
    + rewrite Hr in Hr'. inversion Hr'; subst cur'. exists cur.
      split; [exact Hl|]. split; [exact Ha|]. split; [exact E|].
      rewrite E. apply live_retimed_for. exists cur. split; [exact Hl|]. symmetry. apply retimed_same.
    + rewrite Hr in Hr'. inversion Hr'; subst cur'. exfalso. apply Hw'. lia.
    + congruence.
  - intros [cur (Hl & Ha & E & _)].
    assert (Hr : registered_query s a = Some cur) by (apply registered_query_live; auto).
    exists cur. split; [exact Hl|]. split; [exact Ha|].
    assert (Hn : exists cur', registered_query s a = Some cur' /\
                   Z.abs (created + 750 * ttl - sq_when cur') <= sc_delay s).
    { apply (no_churn s a n created ttl).
      unfold registered_query in Hr. destruct (dget (sc_by_alias s) a) as [id|] eqn:Eg; [|discriminate].
      destruct (find_id_some _ _ _ Hr) as [_ Hid]. subst id.
      exists (sq_id cur). split; [reflexivity|]. split; [congruence|exact E]. }
    destruct Hn as [cur' [Hr' Hw']]. rewrite Hr in Hr'. inversion Hr'; subst cur'. exact Hw'.
Qed.

(* ================================================================== *)
(** * 5. cancelled_silent                                               *)
(* ================================================================== *)

(* a pass only ever finds ready what is in the heap, not cancelled, and due *)
Theorem ready_not_cancelled : forall s now x,
  In x (pass_ready s now) -> In x (sc_heap s) /\ sq_cancelled x = false /\ sq_when x <= now.
Proof. exact pass_ready_sound. Qed.

(* ... and the query a refresh pass sends asks exactly for the names of its ready list *)
Theorem refresh_pass_sends : forall types s now d s' out,
  sc_next_run s = Some (d, TReady) ->
  sstep types false s (LFire now) = Some (s', out) ->
  out = match pass_ready s now with
        | [] => []
        | _ => [{| ss_now := now; ss_qu_first := false; ss_types := dedup_text (map sq_name (pass_ready s now)) |}]
        end.
Proof.
  intros types s now d s' out Hn H.
  destruct (fire_cases _ _ _ _ _ H) as [[d0 [Hd1 _]]|[d0 [_ [_ Hp]]]]; [congruence|].
  apply (refresh_pass_basic _ _ _ _ Hp).
Qed.

(* once an entry is cancelled, no later pass of the run puts it (its id) in a ready list *)
Definition silent_inv (c : squery) (s : sched) : Prop :=
  sq_id c < sc_fresh s /\ forall x, In x (sc_heap s) -> sq_id x = sq_id c -> sq_cancelled x = true.

Lemma silent_push c s a n ttl ex w : silent_inv c s -> silent_inv c (push s a n ttl ex w).
Proof.
  intros [H1 H2]. destruct (push_fields s a n ttl ex w) as (P1 & _ & P3 & _).
  unfold silent_inv. rewrite P1, P3. split; [lia|].
  intros x Hx E. apply in_app_or in Hx as [Hx|[Hx|[]]]; [apply H2; assumption|].
  subst x. cbn in E. lia.
Qed.

Lemma silent_cancelled_for c s a id : silent_inv c s -> silent_inv c (cancelled_for s a id).
Proof.
  intros [H1 H2]. split; [exact H1|]. unfold cancelled_for. sfields.
  intros x Hx E. apply cancel_id_in in Hx as [y [Hy ->]].
  destruct (sq_id y =? id); [reflexivity|]. apply H2; assumption.
Qed.

Lemma silent_retimed_for c s id ttl ex : silent_inv c s -> silent_inv c (retimed_for s id ttl ex).
Proof.
  intros [H1 H2]. split; [exact H1|]. unfold retimed_for. sfields.
  intros x Hx E. apply retime_id_in in Hx as [y [Hy ->]].
  destruct (retimed_fields id ttl ex y) as (Fid & _ & _ & Fc & _). rewrite Fid in E. rewrite Fc.
  apply H2; assumption.
Qed.

Lemma silent_step types c s l s' out :
  silent_inv c s -> sstep types false s l = Some (s', out) -> silent_inv c s'.
Proof.
  intros Hs H. destruct l as [now rnd|now|a n created ttl|a|].
  - cbn in H. inversion H; subst. exact Hs.
  - destruct (fire_cases _ _ _ _ _ H) as [[d [Hd1 Hd2]]|[d [Hd1 [Hd2 Hp]]]].
    + destruct (sstep_startup types s now d Hd1 Hd2) as [s1 (E & F1 & _ & F3 & _)].
      rewrite E in H. inversion H; subst s1 out. unfold silent_inv. rewrite F1, F3. exact Hs.
    + destruct (refresh_pass_heap _ _ _ _ Hp) as [G1 G2]. destruct Hs as [H1 H2].
      split; [lia|]. intros x Hx E. destruct (G2 x Hx) as [Hin|Hid]; [apply H2; assumption|lia].
  - apply ptr_step in H as [-> _].
    destruct (resched_cases s a n created ttl) as [[cur [_ [_ E]]]|[[cur [_ [_ E]]]|[_ E]]]; rewrite E.
    + apply silent_retimed_for. exact Hs.
    + apply silent_push. apply silent_cancelled_for. exact Hs.
    + apply silent_push. exact Hs.
  - apply ptr_step in H as [-> _]. unfold cancel_ptr_refresh.
    destruct (dget (sc_by_alias s) a) as [id|]; [|exact Hs].
    apply (silent_cancelled_for c s a id). exact Hs.
  - cbn in H. inversion H; subst. destruct Hs as [H1 H2]. split; [exact H1|intros x []].
Qed.

Theorem cancelled_silent : forall types s ls es c,
  WF s -> trun types s ls = Some es ->
  In c (sc_heap s) -> sq_cancelled c = true ->
  forall e x, In e es -> In x (e_ready e) -> sq_id x <> sq_id c.
Proof.
  intros types s ls es c Hwf H Hc Hcc.
  assert (Hs : silent_inv c s).
  { destruct Hwf as (Hids & Hfr & _). split; [apply Hfr; exact Hc|].
    intros x Hx E. assert (x = c) by (apply (nodup_id_inj (sc_heap s)); assumption). subst x. exact Hcc. }
  clear Hwf Hc Hcc. revert s es H Hs.
  induction ls as [|[l t] r IH]; intros s es H Hs e x He Hx.
  - cbn in H. inversion H; subst. destruct He.
  - apply trun_cons in H as (s' & out & es' & E1 & E2 & ->).
    destruct He as [He|He].
    + subst e. unfold e_ready in Hx. cbn [e_lab e_pre] in Hx.
      destruct l as [now rnd|now|a n created ttl|a|]; try (destruct Hx).
      destruct (sc_next_run s) as [[d [|]]|]; try (destruct Hx).
      apply pass_ready_sound in Hx as (Hin & Hxc & _).
      intro E. destruct Hs as [_ H2]. rewrite (H2 x Hin E) in Hxc. discriminate.
    + apply (IH s' es' E2 (silent_step _ _ _ _ _ _ Hs E1) e x He Hx).
Qed.

(* LCancel a marks exactly the live query of alias a cancelled (and nothing if there is none) *)
Theorem cancel_marks_exactly : forall s a, WF s ->
  match registered_query s a with
  | Some cur =>
      live s cur /\ sq_alias cur = a /\
      exists h1 h2, sc_heap s = h1 ++ cur :: h2 /\
        sc_heap (cancel_ptr_refresh s a) = h1 ++ set_cancelled cur :: h2 /\
        registered_query (cancel_ptr_refresh s a) a = None
  | None => cancel_ptr_refresh s a = s
  end.
Proof.
  intros s a Hwf. destruct (registered_query s a) as [cur|] eqn:Hr.
  - pose proof (proj1 (registered_query_live _ _ _ Hwf) Hr) as [[Hin Hc] Ha].
    split; [split; assumption|]. split; [exact Ha|].
    pose proof Hwf as (Hids & Hfr & Hkeys & Hreg & Hlive).
    destruct (cancel_id_split _ _ Hids Hin) as [h1 [h2 [E1 E2]]]. exists h1, h2.
    pose proof (Hlive cur Hin Hc) as Hg. rewrite Ha in Hg.
    split; [exact E1|]. unfold cancel_ptr_refresh. rewrite Hg. sfields. split; [exact E2|].
    apply registered_query_none.
    + pose proof (WF_cancel s a Hwf) as W. unfold cancel_ptr_refresh in W. rewrite Hg in W. exact W.
    + sfields. apply dget_del_same. exact Hkeys.
  - apply (registered_query_none _ _ Hwf) in Hr. unfold cancel_ptr_refresh. rewrite Hr. reflexivity.
Qed.

(* a re-schedule beyond the no-churn window marks exactly the live query of the alias cancelled and
   pushes the new one *)
Theorem resched_marks_exactly : forall s a n created ttl cur, WF s ->
  registered_query s a = Some cur ->
  sc_delay s < Z.abs (created + 750 * ttl - sq_when cur) ->
  let s' := reschedule_ptr_first_refresh s a n created ttl in
  let newq := new_query (sc_fresh s) a n ttl (created + 1000 * ttl) (created + 750 * ttl) in
  exists h1 h2, sc_heap s = h1 ++ cur :: h2 /\
    sc_heap s' = h1 ++ set_cancelled cur :: h2 ++ [newq] /\
    registered_query s' a = Some newq.
Proof.
  intros s a n created ttl cur Hwf Hr Hw. cbv zeta.
  pose proof (WF_resched s a n created ttl Hwf) as Hwf'.
  destruct (resched_cases s a n created ttl) as [[cur' [Hr' [Hw' E]]]|[[cur' [Hr' [Hw' E]]]|[Hr' E]]];
    try congruence.
  - rewrite Hr in Hr'. inversion Hr'; subst cur'. lia.
  - rewrite Hr in Hr'. inversion Hr'; subst cur'. rewrite E in *.
    pose proof (proj1 (registered_query_live _ _ _ Hwf) Hr) as [[Hin Hc] Ha].
    pose proof Hwf as (Hids & _).
    destruct (cancel_id_split _ _ Hids Hin) as [h1 [h2 [E1 E2]]]. exists h1, h2.
    split; [exact E1|].
    destruct (push_fields (cancelled_for s a (sq_id cur)) a n ttl (created + 1000 * ttl) (created + 750 * ttl))
      as (P1 & _).
    split.
    + rewrite P1. unfold cancelled_for. sfields. rewrite E2, <- app_assoc. reflexivity.
    + apply (registered_query_live _ _ _ Hwf'). split; [|reflexivity].
      apply live_push. right. reflexivity.
Qed.

(* ================================================================== *)
(** * 4. refresh_on_time                                                *)
(* ================================================================== *)

(* the pass e finds q ready and sends one query that asks for q's name *)
Definition refreshed_by (q : squery) (e : event) : Prop :=
  is_refresh e = true /\ In q (e_ready e) /\
  exists snd, e_out e = [snd] /\ ss_now snd = e_time e /\ ss_qu_first snd = false /\
              In (sq_name q) (ss_types snd).

(* the rescue chain: after the pass that popped q the alias has a new registered (live) query at
   +10 % of the ttl, iff that is before the record expires *)
Definition rescue_chain (q : squery) (e : event) : Prop :=
  if e_time e + sq_ttl q * 100 <? sq_expire q
  then exists id, registered_query (e_post e) (sq_alias q) = Some (rescue_query q (e_time e) id)
  else registered_query (e_post e) (sq_alias q) = None.

Definition untouched (a : text) (l : slabel) : Prop := ptr_or_fire l /\ ~ touches a l.

Lemma rot_aux types q B : forall ls s es,
  trun types s ls = Some es -> WF s -> post_startup s -> live s q ->
  sq_when q + sc_delay s <= B -> sc_min_next s <= B ->
  punctual es ->
  Forall (untouched (sq_alias q)) (map fst ls) ->
  (exists e, In e es /\ B < e_time e) ->
  exists es1 e es2, es = es1 ++ e :: es2 /\ live (e_pre e) q /\
    refreshed_by q e /\ rescue_chain q e /\
    sq_when q <= e_time e <= B.
Proof.
  induction ls as [|[l t] r IH]; intros s es H Hwf Hps Hlive HB Hmn Hp Hut Hex.
  - cbn in H. inversion H; subst. destruct Hex as [e [[] _]].
  - apply trun_cons in H as (s' & out & es' & E1 & E2 & ->).
    cbn [map fst] in Hut. inversion Hut as [|l0 r0 [Hut1 Hnt] Hut2]; subst.
    inversion Hp as [|e0 r1 [Hck Hpt] Hp2]; subst.
    pose proof Hps as (Hd & Hm & d & Hn & Hmd & Hx).
    pose proof (Hx q Hlive) as Hdq.
    unfold clock_ok in Hck. cbn [e_lab e_time e_pre] in Hck, Hpt. rewrite Hn in Hpt.
    assert (Htail : t <= B -> exists e, In e es' /\ B < e_time e).
    { intros Ht. destruct Hex as [e [[He|He] Hlt]]; [subst e; cbn [e_time] in Hlt; lia|eauto]. }
    destruct l as [now rnd'|now|a n created ttl|a|]; try (destruct Hut1).
    + (* the timer callback: a refresh pass at now = t = d *)
      subst now. subst t.
      destruct (fire_cases _ _ _ _ _ E1) as [[d0 [Hd1 _]]|[d0 [_ [_ Hpass]]]]; [congruence|].
      destruct (refresh_pass_spec s d s' out Hwf Hpass)
        as (W' & Dl & _ & _ & Mn & [d' [Nr [Dle Dx]]] & Out & Rdy & Keep & Resc).
      destruct (Z_le_gt_dec (sq_when q) d) as [Hdue|Hnot].
      * (* q is due: popped here *)
        assert (Hq : In q (pass_ready s d)) by (apply Rdy; split; assumption).
        exists [], {| e_pre := s; e_lab := LFire d; e_time := d; e_post := s'; e_out := out |}, es'.
        split; [reflexivity|]. split; [exact Hlive|]. split; [|split].
        -- split; [apply (is_refresh_cons_fire _ d TReady d); [reflexivity|exact Hn]|]. split.
           ++ unfold e_ready. cbn [e_lab e_pre]. rewrite Hn. exact Hq.
           ++ cbn [e_out e_time]. rewrite Out. destruct (pass_ready s d) as [|r0 rest] eqn:Er; [destruct Hq|].
              eexists. split; [reflexivity|]. cbn [ss_now ss_qu_first ss_types].
              split; [reflexivity|]. split; [reflexivity|].
              apply in_dedup_text. apply in_map. exact Hq.
        -- unfold rescue_chain. cbn [e_time e_post]. exact (Resc q Hq).
        -- cbn [e_time]. lia.
      * (* not yet due: q stays live and the timer is re-armed in time *)
        assert (Hlive' : live s' q) by (apply Keep; [exact Hlive|lia]).
        assert (Hps' : post_startup s').
        { split; [lia|]. split; [lia|]. exists d'. split; [exact Nr|]. split; [lia|].
          intros x [Hxin _]. rewrite Mn. apply Dx. exact Hxin. }
        destruct (IH s' es' E2 W' Hps' Hlive' ltac:(lia) ltac:(lia) Hp2 Hut2 (Htail ltac:(lia)))
          as (es1 & e & es2 & Ees & I1 & I2 & I3 & I4).
        exists ({| e_pre := s; e_lab := LFire d; e_time := d; e_post := s'; e_out := out |} :: es1), e, es2.
        split; [rewrite Ees; reflexivity|]. auto.
    + (* a PTR of another alias was learned *)
      apply ptr_step in E1 as [-> ->].
      assert (Hne : sq_alias q <> a) by (intro E; apply Hnt; cbn; congruence).
      destruct (resched_fields s a n created ttl) as (F1 & F2 & _).
      destruct (IH _ es' E2 (WF_resched s a n created ttl Hwf) (post_startup_resched s a n created ttl Hps)
                  (live_resched_other s a n created ttl q Hwf Hlive Hne) ltac:(lia) ltac:(lia) Hp2 Hut2
                  (Htail ltac:(lia)))
        as (es1 & e & es2 & Ees & I1 & I2 & I3 & I4).
      exists ({| e_pre := s; e_lab := LResched a n created ttl; e_time := t;
                 e_post := reschedule_ptr_first_refresh s a n created ttl; e_out := [] |} :: es1), e, es2.
      split; [rewrite Ees; reflexivity|]. auto.
    + (* a PTR of another alias expired *)
      apply ptr_step in E1 as [-> ->].
      assert (Hne : sq_alias q <> a) by (intro E; apply Hnt; cbn; congruence).
      destruct (cancel_fields s a) as (_ & F1 & F2 & _).
      destruct (IH _ es' E2 (WF_cancel s a Hwf) (post_startup_cancel s a Hps)
                  (live_cancel_other s a q Hwf Hlive Hne) ltac:(lia) ltac:(lia) Hp2 Hut2
                  (Htail ltac:(lia)))
        as (es1 & e & es2 & Ees & I1 & I2 & I3 & I4).
      exists ({| e_pre := s; e_lab := LCancel a; e_time := t;
                 e_post := cancel_ptr_refresh s a; e_out := [] |} :: es1), e, es2.
      split; [rewrite Ees; reflexivity|]. auto.
Qed.

(* The key guarantee, in general.  s is any well-formed state of the refresh phase (see [handover]
   below: every state reached after the four start-up passes is one) in which q is live.  If the run
   is punctual, leaves q's alias alone and goes on past B = max (sq_when q + delay) sc_min_next, then
   q is popped by a refresh pass at a time in [sq_when q, B]; that pass sends a query asking for
   q's name, and schedules the rescue query. *)
Theorem refresh_on_time_general : forall types s q ls es,
  WF s -> post_startup s -> live s q ->
  trun types s ls = Some es ->
  punctual es ->
  Forall (untouched (sq_alias q)) (map fst ls) ->
  (exists e, In e es /\ Z.max (sq_when q + sc_delay s) (sc_min_next s) < e_time e) ->
  exists es1 e es2, es = es1 ++ e :: es2 /\ live (e_pre e) q /\
    refreshed_by q e /\ rescue_chain q e /\
    sq_when q <= e_time e <= Z.max (sq_when q + sc_delay s) (sc_min_next s).
Proof.
  intros types s q ls es Hwf Hps Hlive H Hp Hut Hex.
  apply (rot_aux types q (Z.max (sq_when q + sc_delay s) (sc_min_next s)) ls s es H Hwf Hps Hlive);
    try assumption; lia.
Qed.

(* The guarantee as sketched, [sq_when q, sq_when q + delay], needs the extra hypothesis that the
   rate limiter does not already block beyond sq_when q + delay (see refresh_on_time_counterexample).
   It holds whenever q is observed live before it is due: [handover] gives
   sc_min_next <= current time + delay, and see refresh_on_time_run. *)
Theorem refresh_on_time_partial : forall types s q ls es,
  WF s -> post_startup s -> live s q ->
  sc_min_next s <= sq_when q + sc_delay s ->
  trun types s ls = Some es ->
  punctual es ->
  Forall (untouched (sq_alias q)) (map fst ls) ->
  (exists e, In e es /\ sq_when q + sc_delay s < e_time e) ->
  exists es1 e es2, es = es1 ++ e :: es2 /\ live (e_pre e) q /\
    refreshed_by q e /\ rescue_chain q e /\
    sq_when q <= e_time e <= sq_when q + sc_delay s.
Proof.
  intros types s q ls es Hwf Hps Hlive Hmn H Hp Hut Hex.
  apply (rot_aux types q (sq_when q + sc_delay s) ls s es H Hwf Hps Hlive); try assumption; lia.
Qed.

(* ------------------------------------------------------------------ *)
(* the hypotheses of refresh_on_time hold in every state reached after the start-up phase *)

Definition last_time (c : Z) (es : list event) : Z := last (map e_time es) c.

Lemma last_time_cons c e es : last_time c (e :: es) = last_time (e_time e) es.
Proof.
  unfold last_time. cbn [map]. destruct (map e_time es) as [|x l]; [reflexivity|].
  change (last (e_time e :: x :: l) c) with (last (x :: l) c). apply last_cons_default.
Qed.

Lemma trun_app types : forall ls1 s es1 ls2 es2,
  trun types s ls1 = Some es1 -> trun types (final s es1) ls2 = Some es2 ->
  trun types s (ls1 ++ ls2) = Some (es1 ++ es2).
Proof.
  induction ls1 as [|[l t] r IH]; intros s es1 ls2 es2 H1 H2.
  - cbn in H1. inversion H1; subst. exact H2.
  - apply trun_cons in H1 as (s' & out & es' & E1 & E2 & ->).
    rewrite final_cons in H2. cbn [e_post] in H2.
    cbn [app trun]. rewrite E1, (IH s' es' ls2 es2 E2 H2). reflexivity.
Qed.

Lemma post_startup_pass s d now s' out :
  WF s -> post_startup s -> sc_next_run s = Some (d, TReady) -> d <= now ->
  refresh_pass s now = (s', out) -> post_startup s'.
Proof.
  intros Hwf (Hd & Hm & d0 & Hn & Hmd & Hx) Hn' Hle Hp.
  rewrite Hn in Hn'. inversion Hn'; subst d0.
  destruct (refresh_pass_spec s now s' out Hwf Hp) as (_ & Dl & _ & _ & Mn & [d' [Nr [Dle Dx]]] & _).
  split; [lia|]. split; [lia|]. exists d'. split; [exact Nr|]. split; [lia|].
  intros x [Hxin _]. rewrite Mn. apply Dx. exact Hxin.
Qed.

Lemma refresh_phase_inv types : forall ls s es c,
  WF s -> post_startup s -> sc_min_next s <= c + sc_delay s ->
  trun types s ls = Some es -> Forall ptr_or_fire (map fst ls) -> well_timed_from c es ->
  WF (final s es) /\ post_startup (final s es) /\ sc_delay (final s es) = sc_delay s /\
  sc_min_next (final s es) <= last_time c es + sc_delay s.
Proof.
  induction ls as [|[l t] r IH]; intros s es c Hwf Hps Hmn H Hpf [Hs Hc].
  - cbn in H. inversion H; subst. cbn. auto.
  - apply trun_cons in H as (s' & out & es' & E1 & E2 & ->).
    cbn [map fst] in Hpf. inversion Hpf as [|l0 r0 Hpf1 Hpf2]; subst.
    cbn [map e_time] in Hs. destruct Hs as [Hs1 Hs2]. inversion Hc as [|e0 l0 Hc1 Hc2]; subst.
    assert (Hwt : well_timed_from t es') by (split; assumption).
    rewrite final_cons, last_time_cons. cbn [e_post e_time].
    pose proof (WF_sstep _ _ _ _ _ Hwf E1) as Hwf'.
    destruct l as [now rnd'|now|a n created ttl|a|]; try (destruct Hpf1).
    + unfold clock_ok in Hc1. cbn [e_lab e_time] in Hc1. subst now.
      pose proof Hps as (_ & _ & d & Hn & _).
      destruct (fire_cases _ _ _ _ _ E1) as [[d0 [Hd1 _]]|[d0 [Hd1 [Hd2 Hpass]]]]; [congruence|].
      pose proof (post_startup_pass s d0 t s' out Hwf Hps Hd1 Hd2 Hpass) as Hps'.
      destruct (refresh_pass_basic _ _ _ _ Hpass) as (Dl & _ & _ & Mn & _).
      destruct (IH s' es' t Hwf' Hps' ltac:(lia) E2 Hpf2 Hwt) as (I1 & I2 & I3 & I4).
      rewrite Dl in I3, I4. auto.
    + apply ptr_step in E1 as [-> ->].
      destruct (resched_fields s a n created ttl) as (F1 & F2 & _).
      destruct (IH _ es' t Hwf' (post_startup_resched s a n created ttl Hps) ltac:(lia) E2 Hpf2 Hwt)
        as (I1 & I2 & I3 & I4).
      rewrite F1 in I3, I4. auto.
    + apply ptr_step in E1 as [-> ->].
      destruct (cancel_fields s a) as (_ & F1 & F2 & _).
      destruct (IH _ es' t Hwf' (post_startup_cancel s a Hps) ltac:(lia) E2 Hpf2 Hwt)
        as (I1 & I2 & I3 & I4).
      rewrite F1 in I3, I4. auto.
Qed.

Definition in_startup_nn (k : nat) (s : sched) : Prop :=
  sc_startup_sent s = Z.of_nat k /\
  (exists d, sc_next_run s = Some (d, TStartup) /\ 0 <= d /\ ((1 <= k)%nat -> 1 <= d)) /\
  sc_min_next s = 0.

Lemma handover_aux types : forall ls s es k c,
  (k < 4)%nat -> in_startup_nn k s -> WF s -> 0 <= sc_delay s ->
  trun types s ls = Some es -> Forall ptr_or_fire (map fst ls) -> well_timed_from c es ->
  (4 - k <= length (fires es))%nat ->
  WF (final s es) /\ post_startup (final s es) /\ sc_delay (final s es) = sc_delay s /\
  sc_min_next (final s es) <= last_time c es + sc_delay s.
Proof.
  induction ls as [|[l t] r IH]; intros s es k c Hk Hst Hwf Hdl H Hpf [Hs Hc] Hlen.
  - cbn in H. inversion H; subst. unfold fires in Hlen. cbn [filter length] in Hlen. lia.
  - apply trun_cons in H as (s' & out & es' & E1 & E2 & ->).
    cbn [map fst] in Hpf. inversion Hpf as [|l0 r0 Hpf1 Hpf2]; subst.
    cbn [map e_time] in Hs. destruct Hs as [Hs1 Hs2]. inversion Hc as [|e0 l0 Hc1 Hc2]; subst.
    assert (Hwt : well_timed_from t es') by (split; assumption).
    rewrite final_cons, last_time_cons. cbn [e_post e_time].
    pose proof (WF_sstep _ _ _ _ _ Hwf E1) as Hwf'.
    destruct Hst as (H1 & [d (Hn & Hd0 & Hd1)] & H3).
    destruct l as [now rnd'|now|a n created ttl|a|]; try (destruct Hpf1).
    + unfold clock_ok in Hc1. cbn [e_lab e_time] in Hc1. subst now.
      rewrite fires_cons_fire in Hlen by reflexivity. cbn [length] in Hlen.
      destruct (fire_cases _ _ _ _ _ E1) as [[d0 [Hd2 Hd3]]|[d0 [Hd2 _]]]; [|congruence].
      rewrite Hn in Hd2. inversion Hd2; subst d0.
      destruct (sstep_startup types s t d Hn Hd3) as [s1 (E & _ & _ & _ & Dl & _ & Hsent & Hge & Hlt)].
      rewrite E in E1. inversion E1; subst s1 out; clear E1.
      destruct (Nat.eq_dec k 3) as [K3|K3].
      * subst k. destruct (Hge ltac:(lia)) as [Q1 Q2]. specialize (Hd1 ltac:(lia)).
        assert (Hps' : post_startup s').
        { split; [lia|]. split; [lia|]. exists (t + sc_delay s). split; [exact Q1|]. split; [lia|].
          intros x _. lia. }
        destruct (refresh_phase_inv types r s' es' t Hwf' Hps' ltac:(lia) E2 Hpf2 Hwt) as (I1 & I2 & I3 & I4).
        rewrite Dl in I3, I4. auto.
      * destruct (Hlt ltac:(lia)) as [Q1 Q2].
        assert (Hst' : in_startup_nn (S k) s').
        { split; [lia|]. split; [|congruence].
          eexists. split; [exact Q1|]. rewrite H1.
          destruct k as [|[|[|k]]]; try lia; cbn [Z.of_nat Pos.of_succ_nat Pos.succ]; lia. }
        destruct (IH s' es' (S k) t ltac:(lia) Hst' Hwf' ltac:(lia) E2 Hpf2 Hwt ltac:(lia)) as (I1 & I2 & I3 & I4).
        rewrite Dl in I3, I4. auto.
    + rewrite fires_cons_nonfire in Hlen by reflexivity.
      apply ptr_step in E1 as [-> ->].
      destruct (resched_fields s a n created ttl) as (F1 & F2 & F3 & _ & F5 & _).
      assert (Hst' : in_startup_nn k (reschedule_ptr_first_refresh s a n created ttl)).
      { split; [congruence|]. split; [|congruence]. exists d. rewrite (F5 H3). auto. }
      destruct (IH _ es' k t Hk Hst' Hwf' ltac:(lia) E2 Hpf2 Hwt Hlen) as (I1 & I2 & I3 & I4).
      rewrite F1 in I3, I4. auto.
    + rewrite fires_cons_nonfire in Hlen by reflexivity.
      apply ptr_step in E1 as [-> ->].
      destruct (cancel_fields s a) as (F0 & F1 & F2 & F3 & _).
      assert (Hst' : in_startup_nn k (cancel_ptr_refresh s a)).
      { split; [congruence|]. split; [|congruence]. exists d. rewrite F0. auto. }
      destruct (IH _ es' k t Hk Hst' Hwf' ltac:(lia) E2 Hpf2 Hwt Hlen) as (I1 & I2 & I3 & I4).
      rewrite F1 in I3, I4. auto.
Qed.

(* hand-over: once the four start-up passes have run (timers may have fired late), the state is a
   well-formed refresh-phase state, and the rate limiter never blocks beyond (now + delay) *)
Theorem handover : forall types delay qnone t0 rnd ls es,
  0 <= delay -> 0 <= t0 + rnd ->
  trun types (sched_init delay qnone) ((LStart t0 rnd, t0) :: ls) = Some es ->
  Forall ptr_or_fire (map fst ls) -> well_timed es ->
  (4 <= length (fires es))%nat ->
  let s := final (sched_init delay qnone) es in
  WF s /\ post_startup s /\ sc_delay s = delay /\ sc_min_next s <= last_time t0 es + delay.
Proof.
  intros types delay qnone t0 rnd ls es Hd Ht H Hpf [Hs Hc] Hlen. cbv zeta.
  apply trun_cons in H as (s' & out & es' & E1 & E2 & ->).
  cbn in E1. inversion E1; subst s' out; clear E1.
  rewrite fires_cons_nonfire in Hlen by reflexivity.
  rewrite final_cons, last_time_cons. cbn [e_post e_time].
  cbn [map times_sorted e_time] in Hs. inversion Hc as [|e0 l0 Hc1 Hc2]; subst.
  apply (handover_aux types ls (arm (sched_init delay qnone) (Some (t0 + rnd, TStartup))) es' 0%nat t0);
    try assumption; try lia.
  - split; [reflexivity|]. split; [|reflexivity]. exists (t0 + rnd). split; [reflexivity|]. split; [exact Ht|lia].
  - apply WF_init.
  - split; assumption.
Qed.

(* refresh_on_time for a whole run from sched_init: es1 is the run up to some point after the
   start-up phase at which q is live and not yet due; es2 is how the run goes on *)
Theorem refresh_on_time_run : forall types delay qnone t0 rnd ls1 ls2 es1 es2 q,
  0 <= delay -> 0 <= t0 + rnd ->
  trun types (sched_init delay qnone) ((LStart t0 rnd, t0) :: ls1) = Some es1 ->
  Forall ptr_or_fire (map fst ls1) -> well_timed es1 -> (4 <= length (fires es1))%nat ->
  let s := final (sched_init delay qnone) es1 in
  live s q -> last_time t0 es1 <= sq_when q ->
  trun types s ls2 = Some es2 ->
  punctual es2 ->
  Forall (untouched (sq_alias q)) (map fst ls2) ->
  (exists e, In e es2 /\ sq_when q + delay < e_time e) ->
  exists es3 e es4, es2 = es3 ++ e :: es4 /\
    refreshed_by q e /\ rescue_chain q e /\
    sq_when q <= e_time e <= sq_when q + delay.
Proof.
  intros types delay qnone t0 rnd ls1 ls2 es1 es2 q Hd Ht H1 Hpf Hwt Hlen s Hlive Hnow H2 Hp Hut Hex.
  destruct (handover types delay qnone t0 rnd ls1 es1 Hd Ht H1 Hpf Hwt Hlen) as (W & P & Dl & Mn).
  fold s in W, P, Dl, Mn. rewrite <- Dl in Hex.
  destruct (refresh_on_time_partial types s q ls2 es2 W P Hlive ltac:(lia) H2 Hp Hut Hex)
    as (es3 & e & es4 & E & _ & R1 & R2 & R3).
  exists es3, e, es4. rewrite Dl in R3. auto.
Qed.

(* ================================================================== *)
(** * Non-vacuity: the two-pointer history                              *)
(* ================================================================== *)

(* delay 10 s; PTR a1 (ttl 4500 s) learned at 20 s, PTR a2 (ttl 1200 s) learned at 60 s.  After the
   hand-over pass at 24.1 s the timer is armed for a1's refresh at 3395 s; learning a2 must pull it
   forward to 60 s + 900 s (the unrepaired code kept 3395 s and a2 expired at 1260 s unrefreshed). *)
Definition ex_types : list text := [[95; 104]].
Definition ex_a1 : text := [97; 49].
Definition ex_n1 : text := [95; 104].
Definition ex_a2 : text := [97; 50].
Definition ex_n2 : text := [95; 105].

Definition ex_ls1 : list tlabel :=
  [(LFire 100, 100); (LFire 1100, 1100); (LFire 5100, 5100); (LFire 14100, 14100);
   (LResched ex_a1 ex_n1 20000 4500, 20000); (LFire 24100, 24100);
   (LResched ex_a2 ex_n2 60000 1200, 60000)].
Definition ex_ls2 : list tlabel := [(LFire 960000, 960000); (LFire 1080000, 1080000)].

Definition ex_q2 : squery := new_query 1 ex_a2 ex_n2 1200 1260000 960000.

Ltac ground := vm_compute; repeat split; try reflexivity; try discriminate; try exact I.

(* the run exists, is punctual and well timed; a refresh query for the second pointer goes out at
   60 000 + 900 000 ms, and the rescue query 120 s later *)
Example two_pointers :
  exists es,
    trun ex_types (sched_init 10000 true) ((LStart 0 100, 0) :: ex_ls1 ++ ex_ls2) = Some es /\
    punctual es /\ well_timed es /\
    trace es =
      [{| ss_now := 100; ss_qu_first := true; ss_types := ex_types |};
       {| ss_now := 1100; ss_qu_first := false; ss_types := ex_types |};
       {| ss_now := 5100; ss_qu_first := false; ss_types := ex_types |};
       {| ss_now := 14100; ss_qu_first := false; ss_types := ex_types |};
       {| ss_now := 960000; ss_qu_first := false; ss_types := [ex_n2] |};
       {| ss_now := 1080000; ss_qu_first := false; ss_types := [ex_n2] |}].
Proof.
  eexists. split; [vm_compute; reflexivity|].
  split; [repeat (apply Forall_cons; [ground|]); apply Forall_nil|].
  split; [|vm_compute; reflexivity].
  split; [ground|repeat (apply Forall_cons; [ground|]); apply Forall_nil].
Qed.

(* the punctual driver of Model/Sched.v produces the same refresh query *)
Example two_pointers_sdrive :
  sdrive 100 ex_types (sched_init 10000 true)
    [(LStart 0 100, 0); (LResched ex_a1 ex_n1 20000 4500, 20000); (LResched ex_a2 ex_n2 60000 1200, 60000)]
    1000000 [] =
  [{| ss_now := 100; ss_qu_first := true; ss_types := ex_types |};
   {| ss_now := 1100; ss_qu_first := false; ss_types := ex_types |};
   {| ss_now := 5100; ss_qu_first := false; ss_types := ex_types |};
   {| ss_now := 14100; ss_qu_first := false; ss_types := ex_types |};
   {| ss_now := 960000; ss_qu_first := false; ss_types := [ex_n2] |}].
Proof. vm_compute. reflexivity. Qed.

(* every hypothesis of refresh_on_time_run is satisfied on this history (q = the query scheduled for
   a2 when it was learned at 60 s): the theorem itself yields the refresh in [960 s, 970 s] *)
Example refresh_on_time_applies : forall es1 es2,
  trun ex_types (sched_init 10000 true) ((LStart 0 100, 0) :: ex_ls1) = Some es1 ->
  trun ex_types (final (sched_init 10000 true) es1) ex_ls2 = Some es2 ->
  exists es3 e es4, es2 = es3 ++ e :: es4 /\
    refreshed_by ex_q2 e /\ rescue_chain ex_q2 e /\
    sq_when ex_q2 <= e_time e <= sq_when ex_q2 + 10000.
Proof.
  intros es1 es2 H1 H2.
  apply (refresh_on_time_run ex_types 10000 true 0 100 ex_ls1 ex_ls2 es1 es2 ex_q2); try exact H1; try exact H2;
    try lia.
  - repeat (apply Forall_cons; [exact I|]); apply Forall_nil.
  - vm_compute in H1. inversion H1; subst es1.
    split; [ground|repeat (apply Forall_cons; [ground|]); apply Forall_nil].
  - vm_compute in H1. inversion H1; subst es1. vm_compute. lia.
  - vm_compute in H1. inversion H1; subst es1. vm_compute. split; [right; left; reflexivity|reflexivity].
  - vm_compute in H1. inversion H1; subst es1. vm_compute. discriminate.
  - vm_compute in H1. inversion H1; subst es1. vm_compute in H2. inversion H2; subst es2.
    repeat (apply Forall_cons; [ground|]); apply Forall_nil.
  - repeat (apply Forall_cons; [split; [exact I|intro Ht; exact Ht]|]); apply Forall_nil.
  - vm_compute in H1. inversion H1; subst es1. vm_compute in H2. inversion H2; subst es2.
    eexists. split; [right; left; reflexivity|vm_compute; reflexivity].
Qed.

(* Counterexample to the sketch of refresh_on_time without the extra hypothesis: the pointer a2 is
   reported at 25 s with created = 0, ttl = 32 s, so its refresh time 24 s is already past and the
   hand-over pass at 24.1 s has set sc_min_next = 34.1 s.  The query is live from 25 s on, nobody
   touches a2, the run is punctual and goes on to 44.1 s, yet the only refresh pass that pops it is at
   34.1 s > 24 s + delay.  (refresh_on_time_general gives exactly this bound: max (when + delay) sc_min_next.) *)
Definition ex_late_ls : list tlabel :=
  [(LStart 0 100, 0); (LFire 100, 100); (LFire 1100, 1100); (LFire 5100, 5100); (LFire 14100, 14100);
   (LFire 24100, 24100); (LResched ex_a2 ex_n2 0 32, 25000); (LFire 34100, 34100); (LFire 44100, 44100)].
Definition ex_q_late : squery := new_query 0 ex_a2 ex_n2 32 32000 24000.

Example refresh_on_time_counterexample :
  exists es e,
    trun ex_types (sched_init 10000 true) ex_late_ls = Some es /\
    punctual es /\ well_timed es /\
    map e_time (refresh_passes es) = [24100; 34100; 44100] /\
    In e es /\ live (e_pre e) ex_q_late /\ In ex_q_late (e_ready e) /\
    e_time e = 34100 /\ sq_when ex_q_late + sc_delay (e_pre e) = 34000 /\ sc_min_next (e_pre e) = 34100.
Proof.
  eexists. eexists. split; [vm_compute; reflexivity|].
  split; [repeat (apply Forall_cons; [ground|]); apply Forall_nil|].
  split; [split; [ground|repeat (apply Forall_cons; [ground|]); apply Forall_nil]|].
  split; [vm_compute; reflexivity|].
  split; [do 7 right; left; reflexivity|].
  vm_compute. repeat split; auto.
Qed.

Print Assumptions start_up.
Print Assumptions start_up_trace.
Print Assumptions rate_limit_from.
Print Assumptions rate_limit.
Print Assumptions rate_limit_trace.
Print Assumptions liveness.
Print Assumptions refresh_on_time_general.
Print Assumptions refresh_on_time_partial.
Print Assumptions handover.
Print Assumptions refresh_on_time_run.
Print Assumptions ready_not_cancelled.
Print Assumptions refresh_pass_sends.
Print Assumptions cancelled_silent.
Print Assumptions cancel_marks_exactly.
Print Assumptions resched_marks_exactly.
Print Assumptions no_churn.
Print Assumptions no_churn_takes_ttl.
Print Assumptions no_churn_live.
Print Assumptions two_pointers.
Print Assumptions two_pointers_sdrive.
Print Assumptions refresh_on_time_applies.
Print Assumptions refresh_on_time_counterexample.
