(* C09 (part 1): str(n) for the '-N' rename suffix.  [dec] prints the decimal digits of a non-negative
   number, it is injective, and the candidate names  instance-N.type  are pairwise different. *)
From Coq Require Import ZArith List Bool Lia ZifyBool.
From ZC Require Import Model.Base Model.PyRec Model.Dict Model.Re Model.Names Model.Cache Model.Respond Gen.Const Gen.DnsPure
  Model.Register.
Ltac Zify.zify_post_hook ::= Z.to_euclidean_division_equations.

(* int(text): the inverse used for injectivity *)
Definition undec_step (a d : Z) : Z := 10 * a + (d - 48).
Definition undec (l : text) : Z := fold_left undec_step l 0.

Lemma pow2_S (f : nat) : 2 ^ Z.of_nat (S f) = 2 * 2 ^ Z.of_nat f.
Proof. rewrite Nat2Z.inj_succ, Z.pow_succ_r by lia. reflexivity. Qed.

(* with enough fuel the digits of n are pushed in front of acc *)
Lemma dec_digits_value : forall (f : nat) (n : Z) (acc : text),
  0 <= n < 2 ^ Z.of_nat (S f) ->
  fold_left undec_step (dec_digits (S f) n acc) 0 = fold_left undec_step acc n.
Proof.
  induction f as [|f IH]; intros n acc Hn.
  - change (2 ^ Z.of_nat 1) with 2 in Hn. cbn [dec_digits].
    destruct (n <? 10) eqn:E; [|lia].
    cbn [fold_left]. unfold undec_step at 2. f_equal. lia.
  - rewrite pow2_S in Hn. remember (S f) as f1 eqn:Ef1. cbn [dec_digits]. destruct (n <? 10) eqn:E.
    + cbn [fold_left]. unfold undec_step at 2. f_equal. lia.
    + assert (Hq : 0 <= n / 10 < 2 ^ Z.of_nat f1).
      { assert (Hp : 0 < 2 ^ Z.of_nat f1) by (apply Z.pow_pos_nonneg; lia). lia. }
      rewrite (IH (n / 10) _ Hq). cbn [fold_left]. unfold undec_step at 2. f_equal. lia.
Qed.

Lemma dec_fuel (n : Z) : 0 <= n -> 0 <= n < 2 ^ Z.of_nat (S (Z.to_nat (Z.log2 n))).
Proof.
  intro Hn. split; [exact Hn|].
  rewrite Nat2Z.inj_succ, Z2Nat.id by apply Z.log2_nonneg.
  destruct (Z.eq_dec n 0) as [->|Hne]; [reflexivity|].
  apply Z.log2_spec. lia.
Qed.

Lemma undec_dec (n : Z) : 0 <= n -> undec (dec n) = n.
Proof.
  intro Hn. unfold undec, dec.
  rewrite (dec_digits_value _ n [] (dec_fuel n Hn)). reflexivity.
Qed.

Theorem dec_inj : forall a b, 0 <= a -> 0 <= b -> dec a = dec b -> a = b.
Proof.
  intros a b Ha Hb E. rewrite <- (undec_dec a Ha), <- (undec_dec b Hb), E. reflexivity.
Qed.

Definition is_digit (d : Z) : Prop := 48 <= d <= 57.

Lemma dec_digits_forall : forall (f : nat) (n : Z) (acc : text),
  0 <= n < 2 ^ Z.of_nat (S f) -> Forall is_digit acc -> Forall is_digit (dec_digits (S f) n acc).
Proof.
  induction f as [|f IH]; intros n acc Hn Hacc.
  - change (2 ^ Z.of_nat 1) with 2 in Hn. cbn [dec_digits].
    destruct (n <? 10) eqn:E; [|lia].
    constructor; [unfold is_digit; lia|exact Hacc].
  - rewrite pow2_S in Hn. remember (S f) as f1 eqn:Ef1. cbn [dec_digits]. destruct (n <? 10) eqn:E.
    + constructor; [unfold is_digit; lia|exact Hacc].
    + apply IH.
      * assert (Hp : 0 < 2 ^ Z.of_nat f1) by (apply Z.pow_pos_nonneg; lia). lia.
      * constructor; [unfold is_digit; lia|exact Hacc].
Qed.

Theorem dec_digits_only : forall n, 0 <= n -> Forall (fun d => 48 <= d <= 57) (dec n).
Proof.
  intros n Hn. unfold dec. apply (dec_digits_forall _ n [] (dec_fuel n Hn)). constructor.
Qed.

(* so the suffix contains neither '.' (46) nor '-' (45) *)
Corollary dec_no_dot_no_hyphen : forall n, 0 <= n -> ~ In DOT (dec n) /\ ~ In HYPHEN (dec n).
Proof.
  intros n Hn. pose proof (dec_digits_only n Hn) as HF. rewrite Forall_forall in HF.
  unfold DOT, HYPHEN. split; intro HIn; apply HF in HIn; lia.
Qed.

Lemma dec_nonempty n : 0 <= n -> dec n <> [].
Proof.
  intros Hn E. pose proof (undec_dec n Hn) as HU. rewrite E in HU. cbn in HU.
  assert (Hd : dec 0 = []) by (subst n; exact E). vm_compute in Hd. discriminate Hd.
Qed.

(* ---- the candidate names instance-N.type ---- *)
Definition cand (inst ty : text) (n : Z) : text := inst ++ [HYPHEN] ++ dec n ++ [DOT] ++ ty.

Lemma cand_inj inst ty a b : 0 <= a -> 0 <= b -> cand inst ty a = cand inst ty b -> a = b.
Proof.
  intros Ha Hb E. unfold cand in E.
  apply app_inv_head in E. apply app_inv_head in E. apply app_inv_tail in E.
  apply dec_inj; assumption.
Qed.

Print Assumptions dec_inj.
Print Assumptions dec_digits_only.
