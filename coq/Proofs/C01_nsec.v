(* C01 stage 3, part b: the NSEC type bitmap (window 0) written by DNSNsec.write is read back by the strict parser
   as the increasing enumeration of the set of types. *)
From Coq Require Import ZArith List Bool Lia ZifyBool Sorted.
From ZC Require Import Model.Base Model.PyRec Model.Dict Model.Re Model.Utf8 Model.Names Model.WireEnc
                       Spec.Rfc1035 Gen.Const Gen.DnsPure Gen.Shapes.
From ZC Require Import Proofs.C01_defs.
Import ListNotations.
Open Scope Z_scope.
Ltac Zify.zify_post_hook ::= Z.to_euclidean_division_equations.

(* ---------- specification: the set of types, enumerated in increasing order ---------- *)
Definition mem (types : list Z) (t : Z) : bool := existsb (Z.eqb t) types.
Fixpoint zrange (n : nat) (from : Z) : list Z :=
  match n with O => [] | S k => from :: zrange k (from + 1) end.
Definition nsec_types (types : list Z) : list Z := filter (mem types) (zrange 256 0).

(* ---------- insertion sort ---------- *)
Fixpoint is_sorted (l : list Z) : Prop :=
  match l with
  | [] => True
  | x :: r => match r with [] => True | y :: _ => x <= y end /\ is_sorted r
  end.

Lemma insert_sorted_sorted x l : is_sorted l -> is_sorted (insert_sorted x l).
Proof.
  induction l as [|y l IH]; intro H.
  - cbn. auto.
  - cbn [insert_sorted]. destruct (x <=? y) eqn:E.
    + cbn [is_sorted]. split; [lia|exact H].
    + cbn [is_sorted] in H. destruct H as [H1 H2]. specialize (IH H2).
      cbn [is_sorted]. split; [|exact IH].
      destruct l as [|z l]; cbn [insert_sorted]; [lia|].
      destruct (x <=? z) eqn:E2; lia.
Qed.

Lemma sorted_is_sorted l : is_sorted (sorted l).
Proof.
  induction l as [|x l IH]; [exact I|]. unfold sorted. cbn [fold_right].
  apply insert_sorted_sorted. exact IH.
Qed.

Lemma sorted_le_last l : is_sorted l -> forall t, In t l -> t <= last l 0.
Proof.
  induction l as [|x l IH]; intros H t Hin; [contradiction|].
  cbn [is_sorted] in H. destruct H as [H1 H2].
  destruct l as [|y l]; [destruct Hin as [->|[]]; cbn; lia|].
  change (last (x :: y :: l) 0) with (last (y :: l) 0).
  destruct Hin as [->|Hin]; [|apply IH; assumption].
  specialize (IH H2 y (or_introl eq_refl)). lia.
Qed.

Lemma mem_insert x l u : mem (insert_sorted x l) u = (u =? x) || mem l u.
Proof.
  unfold mem. induction l as [|y l IH]; [reflexivity|].
  cbn [insert_sorted]. destruct (x <=? y); [reflexivity|].
  cbn [existsb]. rewrite IH. destruct (u =? x), (u =? y); reflexivity.
Qed.

Lemma mem_sorted l u : mem (sorted l) u = mem l u.
Proof.
  induction l as [|x l IH]; [reflexivity|]. unfold sorted. cbn [fold_right].
  rewrite mem_insert. fold (sorted l). rewrite IH. reflexivity.
Qed.

Lemma mem_true_In l u : mem l u = true -> In u l.
Proof.
  unfold mem. intro H. apply existsb_exists in H. destruct H as [x [Hin Hx]].
  apply Z.eqb_eq in Hx. subst. exact Hin.
Qed.

(* ---------- the encoder's bitmap ---------- *)
Definition upd (bm : list Z) (t : Z) : list Z :=
  firstn (Z.to_nat (t / 8)) bm ++ [Z.lor (nth (Z.to_nat (t / 8)) bm 0) (Z.shiftr 128 (t mod 8))]
  ++ skipn (S (Z.to_nat (t / 8))) bm.

Definition bit_set (bm : list Z) (u : Z) : bool := Z.testbit (nth (Z.to_nat (u / 8)) bm 0) (7 - u mod 8).

Lemma nth_update {A} (x d : A) : forall bm b j, (b < length bm)%nat ->
  nth j (firstn b bm ++ [x] ++ skipn (S b) bm) d = if Nat.eqb j b then x else nth j bm d.
Proof.
  induction bm as [|y bm IH]; intros b j Hb; [cbn [length] in Hb; lia|].
  destruct b as [|b].
  - destruct j; reflexivity.
  - cbn [length] in Hb. destruct j as [|j]; [reflexivity|].
    cbn [firstn skipn app nth Nat.eqb]. apply IH. lia.
Qed.

Lemma length_update {A} (x : A) : forall bm b, (b < length bm)%nat ->
  length (firstn b bm ++ [x] ++ skipn (S b) bm) = length bm.
Proof.
  induction bm as [|y bm IH]; intros b Hb; [cbn [length] in Hb; lia|].
  destruct b as [|b]; [reflexivity|].
  cbn [length] in Hb. cbn [firstn skipn app length]. f_equal. apply IH. lia.
Qed.

Lemma upd_length bm t : 0 <= t <= 255 -> length bm = 32%nat -> length (upd bm t) = 32%nat.
Proof. intros Ht Hl. unfold upd. rewrite length_update; [exact Hl|lia]. Qed.

Lemma testbit_128 k : 0 <= k -> Z.testbit 128 k = (k =? 7).
Proof.
  intro Hk. change 128 with (2 ^ 7). rewrite Z.pow2_bits_eqb by lia. apply Z.eqb_sym.
Qed.

Lemma bit_set_upd bm t u : length bm = 32%nat -> 0 <= t <= 255 -> 0 <= u <= 255 ->
  bit_set (upd bm t) u = bit_set bm u || (u =? t).
Proof.
  intros Hl Ht Hu. unfold bit_set, upd. rewrite nth_update by lia.
  destruct (Nat.eqb (Z.to_nat (u / 8)) (Z.to_nat (t / 8))) eqn:E.
  - apply Nat.eqb_eq in E. assert (E' : u / 8 = t / 8) by lia. rewrite E'.
    rewrite Z.lor_spec. rewrite Z.shiftr_spec by lia. rewrite testbit_128 by lia.
    f_equal. lia.
  - apply Nat.eqb_neq in E. replace (u =? t) with false; [rewrite orb_false_r; reflexivity|].
    symmetry. apply Z.eqb_neq. intro Heq. subst u. apply E. reflexivity.
Qed.

Lemma nsec_bitmap_cons t rest bm total :
  nsec_bitmap (t :: rest) bm total =
  if 255 <? t then Raise ValueError else if t <? 0 then Raise IndexError else nsec_bitmap rest (upd bm t) (t / 8 + 1).
Proof. reflexivity. Qed.

Lemma nsec_bitmap_spec : forall types bm total bm' total', length bm = 32%nat ->
  nsec_bitmap types bm total = Ok (bm', total') ->
  length bm' = 32%nat /\ Forall (fun t => 0 <= t <= 255) types /\
  (forall u, 0 <= u <= 255 -> bit_set bm' u = bit_set bm u || mem types u) /\
  total' = match types with [] => total | _ => last types 0 / 8 + 1 end.
Proof.
  induction types as [|t rest IH]; intros bm total bm' total' Hl H.
  - cbn [nsec_bitmap] in H. inversion H; subst. split; [exact Hl|]. split; [constructor|].
    split; [intros u _; cbn; rewrite orb_false_r; reflexivity|reflexivity].
  - rewrite nsec_bitmap_cons in H.
    destruct (255 <? t) eqn:E1; [discriminate|]. destruct (t <? 0) eqn:E2; [discriminate|].
    assert (Ht : 0 <= t <= 255) by lia.
    destruct (IH _ _ _ _ (upd_length bm t Ht Hl) H) as (H1 & H2 & H3 & H4).
    split; [exact H1|]. split; [constructor; assumption|].
    split.
    + intros u Hu. rewrite (H3 u Hu). rewrite bit_set_upd by assumption.
      unfold mem. cbn [existsb]. rewrite orb_assoc. reflexivity.
    + rewrite H4. destruct rest as [|t' rest']; reflexivity.
Qed.

Lemma bit_set_zero u : bit_set (repeat 0 32) u = false.
Proof.
  unfold bit_set.
  assert (H : forall n k, nth k (repeat 0 n) 0 = 0).
  { induction n as [|n IHn]; intros [|k]; cbn [repeat nth]; auto. }
  rewrite H. apply Z.testbit_0_l.
Qed.

(* ---------- the parser's enumeration ---------- *)
Definition zrange8 (base : Z) : list Z :=
  [base + 0; base + 1; base + 2; base + 3; base + 4; base + 5; base + 6; base + 7].

Fixpoint chunks (n : nat) (j : Z) : list Z :=
  match n with O => [] | S k => zrange8 (0 * 256 + j * 8) ++ chunks k (j + 1) end.

Lemma zrange_chunks : zrange 256 0 = chunks 32 0.
Proof. vm_compute. reflexivity. Qed.

Lemma filter_cons_app {A} (f : A -> bool) x l : filter f (x :: l) = (if f x then [x] else []) ++ filter f l.
Proof. cbn [filter]. destruct (f x); reflexivity. Qed.

Lemma sbits_filter b base f :
  (forall i, 0 <= i <= 7 -> Z.testbit b (7 - i) = f (base + i)) -> sbits b 8 base = filter f (zrange8 base).
Proof.
  intro H. unfold zrange8. rewrite !filter_cons_app. cbn [filter].
  rewrite <- (H 0), <- (H 1), <- (H 2), <- (H 3), <- (H 4), <- (H 5), <- (H 6), <- (H 7) by lia.
  reflexivity.
Qed.

Lemma sbitmap_filter f : forall bs j,
  (forall k, (k < length bs)%nat -> forall i, 0 <= i <= 7 ->
     Z.testbit (nth k bs 0) (7 - i) = f (0 * 256 + (j + Z.of_nat k) * 8 + i)) ->
  sbitmap bs j 0 = filter f (chunks (length bs) j).
Proof.
  induction bs as [|b bs IH]; intros j H; [reflexivity|].
  cbn [sbitmap length chunks]. rewrite filter_app. f_equal.
  - apply sbits_filter. intros i Hi.
    assert (H0 := H 0%nat ltac:(cbn [length]; lia) i Hi). cbn [nth] in H0. rewrite H0. f_equal. lia.
  - apply IH. intros k Hk i Hi.
    assert (H1 := H (S k) ltac:(cbn [length]; lia) i Hi). cbn [nth] in H1. rewrite H1. f_equal. lia.
Qed.

Lemma chunks_app a b j : chunks (a + b) j = chunks a j ++ chunks b (j + Z.of_nat a).
Proof.
  revert j. induction a as [|a IH]; intro j.
  - cbn [chunks plus app]. f_equal. lia.
  - cbn [chunks plus]. rewrite IH, <- app_assoc. do 3 f_equal. lia.
Qed.

Lemma filter_chunks_nil f : forall n j, 0 <= j -> (forall u, j * 8 <= u -> f u = false) -> filter f (chunks n j) = [].
Proof.
  induction n as [|n IH]; intros j Hj H; [reflexivity|].
  cbn [chunks]. rewrite filter_app, IH; [|lia|intros u Hu; apply H; lia].
  rewrite app_nil_r. unfold zrange8. cbn [filter].
  rewrite !H by lia. reflexivity.
Qed.

Lemma nth_firstn {A} (d : A) : forall n l k, (k < n)%nat -> nth k (firstn n l) d = nth k l d.
Proof.
  induction n as [|n IH]; intros l k Hk; [lia|].
  destruct l as [|x l]; [destruct k; reflexivity|].
  destruct k as [|k]; [reflexivity|]. cbn [firstn nth]. apply IH. lia.
Qed.

(* ---------- round trip ---------- *)
Theorem nsec_roundtrip types bitmap total :
  nsec_bitmap (sorted types) (repeat 0 32) 0 = Ok (bitmap, total) -> (total =? 0) = false ->
  let out := firstn (Z.to_nat total) bitmap in
  1 <= total <= 32 /\ len out = total /\ sbitmap out 0 0 = nsec_types types.
Proof.
  intros H Hnz out.
  destruct (nsec_bitmap_spec _ _ _ _ _ (repeat_length 0 32) H) as (Hl & Hall & Hbits & Htot).
  assert (Hmem : forall u, 0 <= u <= 255 -> bit_set bitmap u = mem types u).
  { intros u Hu. rewrite Hbits by exact Hu. rewrite bit_set_zero, mem_sorted. reflexivity. }
  destruct (sorted types) as [|t0 st] eqn:Es; [lia|].
  rewrite <- Es in *.
  assert (Hlast : In (last (sorted types) 0) (sorted types)).
  { rewrite Es. clear. revert t0. induction st as [|y st IH]; intro t0; [left; reflexivity|].
    change (last (t0 :: y :: st) 0) with (last (y :: st) 0). right. apply IH. }
  assert (Hlr : 0 <= last (sorted types) 0 <= 255).
  { rewrite Forall_forall in Hall. apply Hall. exact Hlast. }
  assert (Ht : 1 <= total <= 32) by lia.
  assert (Hlen : length out = Z.to_nat total) by (unfold out; rewrite firstn_length; lia).
  split; [exact Ht|]. split; [unfold len; lia|].
  unfold nsec_types. rewrite zrange_chunks.
  replace 32%nat with (Z.to_nat total + (32 - Z.to_nat total))%nat by lia.
  rewrite chunks_app, filter_app.
  rewrite (filter_chunks_nil (mem types) (32 - Z.to_nat total)); [rewrite app_nil_r| lia |].
  - rewrite <- Hlen. apply sbitmap_filter. intros k Hk i Hi.
    unfold out. rewrite nth_firstn by lia.
    rewrite <- Hmem by lia. unfold bit_set.
    replace (Z.to_nat ((0 * 256 + (0 + Z.of_nat k) * 8 + i) / 8)) with k by lia.
    f_equal. lia.
  - intros u Hu. destruct (mem types u) eqn:Em; [|reflexivity]. exfalso.
    rewrite <- mem_sorted in Em. apply mem_true_In in Em.
    pose proof (sorted_le_last _ (sorted_is_sorted types) u Em) as Hle. lia.
Qed.

(* the enumeration is what one expects: strictly increasing, exactly the members in 0..255 *)
Lemma In_zrange u : forall n from, In u (zrange n from) <-> from <= u < from + Z.of_nat n.
Proof. induction n as [|n IH]; intro from; cbn [zrange In]; [lia|]. rewrite IH. lia. Qed.

Lemma nsec_types_In types u : In u (nsec_types types) <-> (In u types /\ 0 <= u <= 255).
Proof.
  unfold nsec_types. rewrite filter_In. rewrite In_zrange. split.
  - intros [H1 H2]. split; [apply mem_true_In; exact H2|lia].
  - intros [H1 H2]. split; [lia|]. unfold mem. apply existsb_exists. exists u. split; [exact H1|apply Z.eqb_refl].
Qed.

Lemma zrange_increasing : forall n from, StronglySorted Z.lt (zrange n from).
Proof.
  induction n as [|n IH]; intro from; cbn [zrange]; constructor; [apply IH|].
  apply Forall_forall. intros u Hu. apply In_zrange in Hu. lia.
Qed.

Lemma filter_increasing (f : Z -> bool) l : StronglySorted Z.lt l -> StronglySorted Z.lt (filter f l).
Proof.
  induction 1 as [|x l Hl IH Hx]; [constructor|].
  cbn [filter]. destruct (f x); [|exact IH]. constructor; [exact IH|].
  apply Forall_forall. intros u Hu. apply filter_In in Hu. destruct Hu as [Hu _].
  rewrite Forall_forall in Hx. apply Hx. exact Hu.
Qed.

Lemma nsec_types_increasing types : StronglySorted Z.lt (nsec_types types).
Proof. unfold nsec_types. apply filter_increasing, zrange_increasing. Qed.

Print Assumptions nsec_roundtrip.
