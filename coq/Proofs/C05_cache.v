(* C05: the DNSCache model keeps its representation invariant, every lookup path is a filter of
   the flat view, and the purge removes exactly the fully expired records. *)
From ZC Require Import Model.Base Model.PyRec Model.Dict Model.Re Model.Cache Model.Ingest Gen.Const Gen.DnsPure Spec.CacheSpec Proofs.C20_identity.
From Coq Require Import Permutation.
From ZC Require Import Proofs.C05_index.

Lemma flat_fl c : flat c = fl (c_main c).
Proof. reflexivity. Qed.
Lemma flat_srv_fl c : flat_srv c = fl (c_srv c).
Proof. reflexivity. Qed.

Definition has (c : cache) (r : pyrec) : Prop := exists x, In x (flat c) /\ gen_eq x r = true.

Lemma main_Hk (i : index) r : forall x, In x (fl i) -> gen_eq x r = true -> rkey x = rkey r.
Proof. intros x _ E. apply gen_eq_rkey; exact E. Qed.

Lemma srv_service c x : Inv c -> In x (fl (c_srv c)) -> is_service x = true.
Proof. intros [_ [_ Hmir]] Hx. destruct (proj1 (Hmir x) Hx) as [_ S]. exact S. Qed.

Lemma srv_Hk c r : Inv c -> forall x, In x (fl (c_srv c)) -> gen_eq x r = true -> skey x = skey r.
Proof. intros Hinv x Hx E. apply gen_eq_skey; [exact E|]. eapply srv_service; eassumption. Qed.

Lemma is_service_upd r c t x : is_service (upd r c t x) = is_service x.
Proof. unfold upd. destruct (gen_eq x r); reflexivity. Qed.

Lemma service_mismatch y r : is_service y = true -> is_service r = false -> gen_eq y r = false.
Proof.
  intros A B. destruct (gen_eq y r) eqn:E; [|reflexivity].
  apply gen_eq_service in E. congruence.
Qed.

(* ------------------------------------------------------------------ *)
Theorem inv_empty : Inv empty_cache.
Proof.
  split; [|split].
  - split; [exact I|]. intros k b [].
  - split; [exact I|]. intros k b [].
  - intro r. cbn. tauto.
Qed.

(* ---- add ---- *)
Lemma cache_add_flat_in c r y :
  Inv c -> (In y (flat (fst (cache_add c r))) <-> y = r \/ (In y (flat c) /\ gen_eq y r = false)).
Proof.
  intros [Hm _]. unfold cache_add. cbn [fst]. rewrite !flat_fl. cbn [c_main].
  apply (idx_add_in rkey _ _ _ Hm (main_Hk _ r)).
Qed.

Theorem cache_add_inv : forall c r, Inv c -> Inv (fst (cache_add c r)).
Proof.
  intros c r Hinv. pose proof Hinv as [Hm [Hs Hmir]].
  pose proof (main_Hk (c_main c) r) as HkM. pose proof (srv_Hk c r Hinv) as HkS.
  unfold cache_add. cbn [fst]. split; [|split]; cbn [c_main c_srv].
  - apply idx_add_ok; auto.
  - destruct (is_service r); [apply idx_add_ok; auto|exact Hs].
  - intro y. rewrite flat_fl, flat_srv_fl. cbn [c_main c_srv].
    specialize (Hmir y). rewrite flat_fl, flat_srv_fl in Hmir.
    rewrite (idx_add_in rkey _ _ _ Hm HkM y).
    destruct (is_service r) eqn:S.
    + rewrite (idx_add_in skey _ _ _ Hs HkS y). split.
      * intros [H|[H1 H2]]; [subst y; split; [left; reflexivity|exact S]|].
        apply Hmir in H1 as [H1 H3]. split; [right; split; assumption|exact H3].
      * intros [[H|[H1 H2]] H3]; [left; exact H|]. right. split; [|exact H2].
        apply Hmir. split; assumption.
    + split.
      * intro H. apply Hmir in H as [H1 H3]. split; [|exact H3]. right. split; [exact H1|].
        apply service_mismatch; assumption.
      * intros [[H|[H1 H2]] H3]; [subst y; congruence|]. apply Hmir. split; assumption.
Qed.

(* ---- set_lifetime ---- *)
Lemma set_lifetime_flat c r cr tt :
  Inv c -> flat (cache_set_lifetime c r cr tt) = map (upd r cr tt) (flat c).
Proof.
  intros [Hm _]. rewrite !flat_fl. unfold cache_set_lifetime. cbn [c_main].
  apply (idx_update_fl rkey); [exact Hm|apply main_Hk].
Qed.

Lemma set_lifetime_flat_srv c r cr tt :
  Inv c -> flat_srv (cache_set_lifetime c r cr tt) = map (upd r cr tt) (flat_srv c).
Proof.
  intros Hinv. pose proof Hinv as [_ [Hs _]]. rewrite !flat_srv_fl. unfold cache_set_lifetime. cbn [c_srv].
  destruct (is_service r) eqn:S.
  - apply (idx_update_fl skey); [exact Hs|apply srv_Hk; exact Hinv].
  - rewrite <- (map_id (fl (c_srv c))) at 1. apply map_ext_in. intros x Hx.
    unfold upd. rewrite service_mismatch; [reflexivity| |exact S].
    eapply srv_service; eassumption.
Qed.

Theorem cache_set_lifetime_inv : forall c r created ttl, Inv c -> Inv (cache_set_lifetime c r created ttl).
Proof.
  intros c r cr tt Hinv. pose proof Hinv as [Hm [Hs Hmir]]. split; [|split].
  - unfold cache_set_lifetime. cbn [c_main]. apply idx_update_ok; [reflexivity|exact Hm].
  - unfold cache_set_lifetime. cbn [c_srv]. destruct (is_service r); [|exact Hs].
    apply idx_update_ok; [reflexivity|exact Hs].
  - intro y. rewrite set_lifetime_flat, set_lifetime_flat_srv by exact Hinv.
    rewrite !in_map_iff. split.
    + intros [x [E Hx]]. apply Hmir in Hx as [H1 H2]. split.
      * exists x. split; assumption.
      * subst y. rewrite is_service_upd. exact H2.
    + intros [[x [E Hx]] S]. exists x. split; [exact E|]. apply Hmir. split; [exact Hx|].
      subst y. rewrite is_service_upd in S. exact S.
Qed.

(* ---- remove ---- *)
Lemma in_cache_has c r : in_cache c r = true -> has c r.
Proof.
  unfold in_cache, has. destruct (idx_get (c_main c) (rkey r)) as [b|] eqn:G; [|discriminate].
  intro M. unfold b_mem in M. apply existsb_exists in M as [x [Hx E]]. exists x. split; [|exact E].
  rewrite flat_fl. apply in_fl. exists (rkey r), b. split; [apply idx_get_in; exact G|exact Hx].
Qed.

Lemma has_in_cache c r : Inv c -> has c r -> in_cache c r = true.
Proof.
  intros [Hm _] [x [Hx E]]. unfold in_cache. rewrite flat_fl in Hx.
  destruct (in_fl_bucket rkey _ x Hm Hx) as [b [_ [Hxb G]]].
  rewrite (gen_eq_rkey x r E) in G. rewrite G. unfold b_mem. apply existsb_exists.
  exists x. split; assumption.
Qed.

Lemma cache_remove_ok c r :
  Inv c -> has c r ->
  exists c', cache_remove c r = Ok c' /\ Inv c' /\
             flat c' = filter (fun x => negb (gen_eq x r)) (flat c).
Proof.
  intros Hinv [x [Hx E]]. pose proof Hinv as [Hm [Hs Hmir]].
  pose proof (main_Hk (c_main c) r) as HkM. pose proof (srv_Hk c r Hinv) as HkS.
  assert (ExM : exists x, In x (fl (c_main c)) /\ gen_eq x r = true) by (exists x; split; assumption).
  destruct (idx_remove_ok rkey _ _ _ Hm HkM ExM) as [m' [Em [Hm' Fm]]].
  unfold cache_remove. destruct (is_service r) eqn:S.
  - assert (ExS : exists x, In x (fl (c_srv c)) /\ gen_eq x r = true).
    { exists x. split; [|exact E]. apply (Hmir x). split; [exact Hx|].
      rewrite (gen_eq_service x r E). exact S. }
    destruct (idx_remove_ok skey _ _ _ Hs HkS ExS) as [s' [Es [Hs' Fs]]].
    rewrite Es. cbn [bind]. rewrite Em. cbn [bind]. eexists. split; [reflexivity|].
    split; [|rewrite !flat_fl; exact Fm].
    split; [exact Hm'|]. split; [exact Hs'|]. intro y. rewrite flat_fl, flat_srv_fl. cbn [c_main c_srv].
    rewrite Fm, Fs, !filter_In. specialize (Hmir y). rewrite flat_fl, flat_srv_fl in Hmir. tauto.
  - cbn [bind]. rewrite Em. cbn [bind]. eexists. split; [reflexivity|].
    split; [|rewrite !flat_fl; exact Fm].
    split; [exact Hm'|]. split; [exact Hs|]. intro y. rewrite flat_fl, flat_srv_fl. cbn [c_main c_srv].
    rewrite Fm, !filter_In. specialize (Hmir y). rewrite flat_fl, flat_srv_fl in Hmir. split.
    + intro H. apply Hmir in H as [H1 H2]. split; [|exact H2]. split; [exact H1|].
      apply negb_true_iff. apply service_mismatch; assumption.
    + intros [[H1 _] H2]. apply Hmir. split; assumption.
Qed.

Theorem cache_remove_inv : forall c r, Inv c -> in_cache c r = true -> exists c', cache_remove c r = Ok c' /\ Inv c'.
Proof.
  intros c r Hinv Hin. destruct (cache_remove_ok c r Hinv (in_cache_has c r Hin)) as [c' [E [H _]]].
  exists c'. split; assumption.
Qed.

Lemma di_flat c : Inv c -> distinct_idents (flat c).
Proof.
  intros [Hm _]. rewrite flat_fl. apply (di_fl rkey); [exact Hm|].
  intros x y _ _ E. apply gen_eq_rkey; exact E.
Qed.

Lemma remove_records_ok : forall l c,
  Inv c -> distinct_idents l -> (forall r, In r l -> has c r) ->
  exists c', cache_remove_records c l = Ok c' /\ Inv c' /\
             flat c' = filter (fun x => negb (existsb (fun y => gen_eq x y) l)) (flat c).
Proof.
  induction l as [|r l IH]; intros c Hinv Hd Hh.
  - exists c. split; [reflexivity|]. split; [exact Hinv|].
    symmetry. apply filter_all_true. reflexivity.
  - simpl in Hd. destruct Hd as [Hd1 Hd2].
    destruct (cache_remove_ok c r Hinv (Hh r (or_introl eq_refl))) as [c1 [E1 [Hinv1 F1]]].
    cbn [cache_remove_records]. rewrite E1. cbn [bind].
    assert (Hh1 : forall r2, In r2 l -> has c1 r2).
    { intros r2 Hr2. destruct (Hh r2 (or_intror Hr2)) as [x2 [Hx2 E2]]. exists x2. split; [|exact E2].
      rewrite F1. apply filter_In. split; [exact Hx2|]. apply negb_true_iff.
      destruct (gen_eq x2 r) eqn:G; [|reflexivity].
      assert (C : gen_eq r r2 = true).
      { eapply eq_trans_; [|exact E2]. rewrite eq_sym_. exact G. }
      rewrite (Hd1 r2 Hr2) in C. discriminate. }
    destruct (IH c1 Hinv1 Hd2 Hh1) as [c' [E' [Hinv' F']]].
    exists c'. split; [exact E'|]. split; [exact Hinv'|].
    rewrite F', F1, filter_filter_. apply filter_ext_in_. intros x _. cbn [existsb].
    rewrite negb_orb. reflexivity.
Qed.

(* ------------------------------------------------------------------ *)
(* lookup paths *)

Theorem entries_with_name_flat : forall c n, Inv c ->
  entries_with_name c n = filter (fun r => text_eqb (rkey r) (lower n)) (flat c).
Proof.
  intros c n [Hm _]. unfold entries_with_name. rewrite flat_fl. apply (lookup_filter rkey); exact Hm.
Qed.

Lemma bucket_find c r : Inv c ->
  match idx_get (c_main c) (rkey r) with Some b => find (fun x => gen_eq x r) b | None => None end
  = find (fun x => gen_eq x r) (flat c).
Proof.
  intros [Hm _]. pose proof (lookup_filter rkey (c_main c) (rkey r) Hm) as L.
  rewrite flat_fl.
  rewrite <- (find_filter_ (fun x => gen_eq x r) (fun x => text_eqb (rkey x) (rkey r)) (fl (c_main c))).
  - rewrite <- L. destruct (idx_get (c_main c) (rkey r)); reflexivity.
  - intros x _ E. apply text_eqb_eq. apply gen_eq_rkey; exact E.
Qed.

Theorem get_unique_flat : forall c r, Inv c -> async_get_unique c r = find (fun x => gen_eq x r) (flat c).
Proof. intros c r Hinv. unfold async_get_unique, b_get. apply bucket_find; exact Hinv. Qed.

Theorem all_by_details_flat : forall c n t cl, Inv c ->
  async_all_by_details c n t cl = filter (fun r => text_eqb (rkey r) (lower n) && details_match t cl r) (flat c).
Proof.
  intros c n t cl [Hm _]. unfold async_all_by_details.
  pose proof (lookup_filter rkey (c_main c) (lower n) Hm) as L.
  rewrite flat_fl, <- filter_filter_, <- L. destruct (idx_get (c_main c) (lower n)); reflexivity.
Qed.

Theorem get_by_details_last : forall c n t cl,
  get_by_details c n t cl = hd_error (rev (get_all_by_details c n t cl)).
Proof.
  intros c n t cl. unfold get_by_details, get_all_by_details, async_all_by_details, entries_with_name.
  destruct (idx_get (c_main c) (lower n)) as [b|]; [|reflexivity].
  rewrite find_hd_filter, filter_rev_. reflexivity.
Qed.

Lemma find_ext_ {A} (p q : A -> bool) l : (forall x, p x = q x) -> find p l = find q l.
Proof.
  intro H. induction l as [|x l IH]; [reflexivity|]. simpl. rewrite H, IH. reflexivity.
Qed.

Theorem cache_get_flat : forall c r, Inv c -> p_kind r <> KQuestion ->
  cache_get c r = find (fun x => gen_eq x r) (flat c).
Proof.
  intros c r Hinv Hq. unfold cache_get.
  destruct (p_kind r) eqn:K; try (apply get_unique_flat; exact Hinv); [congruence|].
  rewrite <- get_unique_flat by exact Hinv.
  unfold entries_with_name, async_get_unique, b_get. change (lower (p_name r)) with (rkey r).
  destruct (idx_get (c_main c) (rkey r)) as [b|] eqn:G; [|reflexivity].
  rewrite (find_ext_ (fun x => gen_eq r x) (fun x => gen_eq x r)) by (intro x; apply eq_sym_).
  apply find_rev_unique. intros x y Hx Hy Ex Ey.
  destruct Hinv as [Hm _]. apply index_ok_iff in Hm as [_ Hb].
  destruct (Hb _ _ (idx_get_in _ _ _ G)) as [_ [_ Hd]].
  apply (di_unique b); try assumption.
  eapply eq_trans_; [exact Ex|]. rewrite eq_sym_. exact Ey.
Qed.

Theorem entries_with_server_flat : forall c s, Inv c ->
  Permutation (entries_with_server c s) (filter (fun r => is_service r && text_eqb (skey r) (lower s)) (flat c)).
Proof.
  intros c s Hinv. pose proof Hinv as [Hm [Hs Hmir]].
  assert (L : entries_with_server c s = filter (fun r => text_eqb (skey r) (lower s)) (fl (c_srv c))).
  { unfold entries_with_server. apply (lookup_filter skey); exact Hs. }
  rewrite L. apply NoDup_Permutation.
  - apply NoDup_filter. apply di_NoDup. apply (di_fl skey); [exact Hs|].
    intros x y Hx _ E. apply gen_eq_skey; [exact E|]. eapply srv_service; eassumption.
  - apply NoDup_filter. apply di_NoDup. apply di_flat; exact Hinv.
  - intro y. rewrite !filter_In, andb_true_iff. specialize (Hmir y). rewrite flat_srv_fl in Hmir. tauto.
Qed.

Theorem names_flat : forall c k, Inv c -> (In k (names c) <-> exists r, In r (flat c) /\ rkey r = k).
Proof.
  intros c k [Hm _]. unfold names. rewrite flat_fl. split.
  - intro H. apply in_map_iff in H as [[k0 b] [E Hin]]. simpl in E. subst k0.
    pose proof Hm as Hm'. apply index_ok_iff in Hm' as [_ Hb].
    destruct (Hb k b Hin) as [Hne [Hk _]]. destruct b as [|r b]; [congruence|].
    exists r. split; [|apply Hk; left; reflexivity]. apply in_fl. exists k, (r :: b).
    split; [exact Hin|left; reflexivity].
  - intros [r [Hr E]]. destruct (in_fl_bucket rkey _ r Hm Hr) as [b [Hin _]].
    rewrite E in Hin. apply in_map_iff. exists (k, b). split; [reflexivity|exact Hin].
Qed.

(* ------------------------------------------------------------------ *)
(* purge *)

Theorem expired_iff : forall r now, DNSRecord_is_expired r now = true <-> expires_at r <= now.
Proof.
  intros r now. unfold DNSRecord_is_expired, expires_at, DNSRecord_created, DNSRecord_ttl, C_EXPIRE_FULL_TIME_MS.
  apply Z.leb_le.
Qed.

Lemma purge_unfold now c :
  purge now c = {| pg_expired := filter (fun r => DNSRecord_is_expired r now) (flat c);
                   pg_final := cache_remove_records c (filter (fun r => DNSRecord_is_expired r now) (flat c)) |}.
Proof. reflexivity. Qed.

Lemma purge_full now c : Inv c ->
  exists c', pg_final (purge now c) = Ok c' /\ Inv c' /\
    pg_expired (purge now c) = filter (fun r => DNSRecord_is_expired r now) (flat c) /\
    flat c' = filter (fun r => negb (DNSRecord_is_expired r now)) (flat c) /\
    NoDup (pg_expired (purge now c)).
Proof.
  intro Hinv. rewrite purge_unfold. cbn [pg_final pg_expired].
  pose proof (di_flat c Hinv) as Hd.
  set (ex := filter (fun r => DNSRecord_is_expired r now) (flat c)).
  assert (Hdex : distinct_idents ex) by (apply di_filter; exact Hd).
  assert (Hh : forall r, In r ex -> has c r).
  { intros r Hr. apply filter_In in Hr as [Hr _]. exists r. split; [exact Hr|apply eq_refl_]. }
  destruct (remove_records_ok ex c Hinv Hdex Hh) as [c' [E [Hinv' F]]].
  exists c'. split; [exact E|]. split; [exact Hinv'|]. split; [reflexivity|].
  split; [|apply di_NoDup; exact Hdex].
  rewrite F. apply filter_ext_in_. intros x Hx. f_equal.
  destruct (DNSRecord_is_expired x now) eqn:X.
  - apply existsb_exists. exists x. split; [|apply eq_refl_].
    apply filter_In. split; assumption.
  - destruct (existsb (fun y => gen_eq x y) ex) eqn:Y; [|reflexivity].
    apply existsb_exists in Y as [y [Hy Exy]]. apply filter_In in Hy as [Hy Xy].
    rewrite (di_unique (flat c) x y Hd Hx Hy Exy) in X. congruence.
Qed.

Theorem purge_inv : forall now c, Inv c -> exists c', pg_final (purge now c) = Ok c' /\ Inv c'.
Proof.
  intros now c Hinv. destruct (purge_full now c Hinv) as [c' [E [H _]]]. exists c'. split; assumption.
Qed.

Theorem purge_exact : forall now c, Inv c ->
  exists c', pg_final (purge now c) = Ok c' /\
    pg_expired (purge now c) = filter (fun r => DNSRecord_is_expired r now) (flat c) /\
    flat c' = filter (fun r => negb (DNSRecord_is_expired r now)) (flat c) /\
    NoDup (pg_expired (purge now c)).
Proof.
  intros now c Hinv. destruct (purge_full now c Hinv) as [c' [E [_ H]]]. exists c'. split; assumption.
Qed.

Theorem no_early_purge : forall now c r, Inv c -> In r (flat c) -> now < expires_at r ->
  exists c', pg_final (purge now c) = Ok c' /\ In r (flat c').
Proof.
  intros now c r Hinv Hr Hlt. destruct (purge_full now c Hinv) as [c' [E [_ [_ [F _]]]]].
  exists c'. split; [exact E|]. rewrite F. apply filter_In. split; [exact Hr|].
  apply negb_true_iff. destruct (DNSRecord_is_expired r now) eqn:X; [|reflexivity].
  apply expired_iff in X. lia.
Qed.

(* ------------------------------------------------------------------ *)
(* ingest *)

Definition Good (c : cache) (l : list pyrec) : Prop := Inv c /\ forall r, In r l -> has c r.

Lemma has_set_lifetime c e cr tt r : Inv c -> has c r -> has (cache_set_lifetime c e cr tt) r.
Proof.
  intros Hinv [x [Hx E]]. exists (upd e cr tt x). split.
  - rewrite set_lifetime_flat by exact Hinv. apply in_map. exact Hx.
  - rewrite gen_eq_upd_l. exact E.
Qed.

Lemma has_add c r' r : Inv c -> has c r -> has (fst (cache_add c r')) r.
Proof.
  intros Hinv [x [Hx E]]. destruct (gen_eq x r') eqn:G.
  - exists r'. split; [apply cache_add_flat_in; [exact Hinv|left; reflexivity]|].
    eapply eq_trans_; [|exact E]. rewrite eq_sym_. exact G.
  - exists x. split; [|exact E]. apply cache_add_flat_in; [exact Hinv|]. right. split; assumption.
Qed.

Lemma good_set_lifetime c L e cr tt : Good c L -> Good (cache_set_lifetime c e cr tt) L.
Proof.
  intros [Hinv Hh]. split; [apply cache_set_lifetime_inv; exact Hinv|].
  intros r Hr. apply has_set_lifetime; [exact Hinv|apply Hh; exact Hr].
Qed.

Lemma good_add c L r' : Good c L -> Good (fst (cache_add c r')) L.
Proof.
  intros [Hinv Hh]. split; [apply cache_add_inv; exact Hinv|].
  intros r Hr. apply has_add; [exact Hinv|apply Hh; exact Hr].
Qed.

Lemma good_fold_sl (g : pyrec -> bool) now L : forall l c,
  Good c L -> Good (fold_left (fun c r => if g r then cache_set_lifetime c r now 1 else c) l c) L.
Proof.
  induction l as [|x l IH]; intros c H; [exact H|]. cbn [fold_left]. apply IH.
  destruct (g x); [apply good_set_lifetime; exact H|exact H].
Qed.

Lemma good_mark_one now answers L c u : Good c L -> Good (mark_one now answers c u) L.
Proof.
  intro H. destruct u as [[name ty] cl]. unfold mark_one.
  apply (good_fold_sl (fun r => (now - DNSRecord_created r >? C_ONE_SECOND)
                                 && negb (existsb (fun a => gen_eq a r) answers))). exact H.
Qed.

Lemma good_mark_unique now answers L : forall us c, Good c L -> Good (mark_unique c us answers now) L.
Proof.
  unfold mark_unique. induction us as [|u us IH]; intros c H; [exact H|]. cbn [fold_left].
  apply IH. apply good_mark_one. exact H.
Qed.

Lemma good_add_records L : forall rs c, Good c L -> Good (fst (cache_add_records c rs)) L.
Proof.
  induction rs as [|r rs IH]; intros c H; [exact H|]. cbn [cache_add_records].
  pose proof (good_add c L r H) as H1.
  destruct (cache_add c r) as [c1 n1]. cbn [fst] in H1.
  pose proof (IH c1 H1) as H2.
  destruct (cache_add_records c1 rs) as [c2 n2]. cbn [fst] in *. exact H2.
Qed.

Definition LI (a : ingest_acc) : Prop :=
  Inv (a_cache a) /\ distinct_idents (a_removes a) /\ forall r, In r (a_removes a) -> has (a_cache a) r.

Lemma ingest_one_LI now a r0 : LI a -> LI (ingest_one now a r0).
Proof.
  intros [Hinv [Hd Hh]]. unfold ingest_one. cbv zeta.
  set (record := apply_ptr_floor r0).
  destruct (negb (DNSRecord_is_expired record now));
    destruct (async_get_unique (a_cache a) record) as [e|] eqn:G; unfold LI; cbn [a_cache a_removes];
    try (split; [exact Hinv|split; [exact Hd|exact Hh]]).
  - split; [apply cache_set_lifetime_inv; exact Hinv|]. split; [exact Hd|].
    intros r Hr. apply has_set_lifetime; [exact Hinv|apply Hh; exact Hr].
  - split; [exact Hinv|]. unfold set_add.
    destruct (existsb (fun x => gen_eq x record) (a_removes a)) eqn:X; [split; [exact Hd|exact Hh]|].
    split.
    + apply di_app_single; [exact Hd|]. intros x Hx. destruct (gen_eq x record) eqn:Y; [|reflexivity].
      assert (C : existsb (fun x => gen_eq x record) (a_removes a) = true).
      { apply existsb_exists. exists x. split; assumption. }
      congruence.
    + intros r Hr. apply in_app_or in Hr as [Hr|[Hr|[]]]; [apply Hh; exact Hr|]. subst r.
      rewrite get_unique_flat in G by exact Hinv. apply find_some in G as [G1 G2].
      exists e. split; assumption.
Qed.

Lemma ingest_fold_LI now : forall answers a, LI a -> LI (fold_left (ingest_one now) answers a).
Proof.
  induction answers as [|r answers IH]; intros a H; [exact H|]. cbn [fold_left].
  apply IH. apply ingest_one_LI. exact H.
Qed.

Lemma ingest_tail c2 rem : Good c2 rem -> distinct_idents rem ->
  exists c', (if nonempty rem then cache_remove_records c2 rem else Ok c2) = Ok c' /\ Inv c'.
Proof.
  intros [Hinv Hh] Hd. destruct rem as [|r rem].
  - exists c2. split; [reflexivity|exact Hinv].
  - cbn [nonempty]. destruct (remove_records_ok (r :: rem) c2 Hinv Hd Hh) as [c' [E [Hinv' _]]].
    exists c'. split; assumption.
Qed.

Theorem ingest_inv : forall now answers c, Inv c ->
  exists c', i_final (ingest now answers c) = Ok c' /\ Inv c' /\ Inv (i_phase1 (ingest now answers c)).
Proof.
  intros now answers c Hinv. unfold ingest. cbv zeta.
  set (a0 := {| a_cache := c; a_updates := []; a_address_adds := []; a_other_adds := [];
                a_removes := []; a_unique := [] |}).
  assert (H0 : LI a0).
  { unfold LI, a0. cbn. split; [exact Hinv|]. split; [exact I|]. intros r []. }
  pose proof (ingest_fold_LI now answers a0 H0) as Ha.
  set (a := fold_left (ingest_one now) answers a0) in *.
  destruct Ha as [Hia [Hda Hha]].
  assert (G0 : Good (a_cache a) (a_removes a)) by (split; assumption).
  set (c1 := if nonempty (a_unique a)
             then mark_unique (a_cache a) (a_unique a) (map apply_ptr_floor answers) now
             else a_cache a).
  assert (G1 : Good c1 (a_removes a)).
  { unfold c1. destruct (nonempty (a_unique a)); [apply good_mark_unique; exact G0|exact G0]. }
  destruct (nonempty (a_other_adds a) || nonempty (a_address_adds a)).
  - pose proof (good_add_records (a_removes a) (a_address_adds a) c1 G1) as Ga.
    destruct (cache_add_records c1 (a_address_adds a)) as [ca n1]. cbn [fst] in Ga.
    pose proof (good_add_records (a_removes a) (a_other_adds a) ca Ga) as Gb.
    destruct (cache_add_records ca (a_other_adds a)) as [cb n2]. cbn [fst] in Gb.
    cbn [i_final i_phase1].
    destruct (ingest_tail cb (a_removes a) Gb Hda) as [c' [E Hinv']].
    exists c'. split; [exact E|]. split; [exact Hinv'|]. destruct G1 as [G1 _]. exact G1.
  - cbn [i_final i_phase1].
    destruct (ingest_tail c1 (a_removes a) G1 Hda) as [c' [E Hinv']].
    exists c'. split; [exact E|]. split; [exact Hinv'|]. destruct G1 as [G1 _]. exact G1.
Qed.

Lemma hrun_inv : forall h c, Inv c -> exists c', hrun c h = Ok c' /\ Inv c'.
Proof.
  induction h as [|e h IH]; intros c Hinv.
  - exists c. split; [reflexivity|exact Hinv].
  - cbn [hrun]. destruct e as [now answers|now]; cbn [hstep].
    + destruct (ingest_inv now answers c Hinv) as [c1 [E [H1 _]]]. rewrite E. cbn [bind]. apply IH; exact H1.
    + destruct (purge_inv now c Hinv) as [c1 [E H1]]. rewrite E. cbn [bind]. apply IH; exact H1.
Qed.

Theorem history_inv : forall h, exists c, hrun empty_cache h = Ok c /\ Inv c.
Proof. intro h. apply hrun_inv. apply inv_empty. Qed.

Print Assumptions inv_empty.
Print Assumptions cache_add_inv.
Print Assumptions cache_set_lifetime_inv.
Print Assumptions cache_remove_inv.
Print Assumptions ingest_inv.
Print Assumptions purge_inv.
Print Assumptions history_inv.
Print Assumptions entries_with_name_flat.
Print Assumptions get_unique_flat.
Print Assumptions all_by_details_flat.
Print Assumptions get_by_details_last.
Print Assumptions cache_get_flat.
Print Assumptions entries_with_server_flat.
Print Assumptions names_flat.
Print Assumptions expired_iff.
Print Assumptions purge_exact.
Print Assumptions no_early_purge.
