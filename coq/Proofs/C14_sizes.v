(* C14: size limits and section accounting of the DNSOutgoing model (Model/WireEnc.v). *)
From Coq Require Import ZArith List Bool Lia ZifyBool.
From ZC Require Import Model.Base Model.PyRec Model.Dict Model.Re Model.Utf8 Model.Names Model.WireEnc Gen.Const Gen.DnsPure Gen.Shapes.

Definition plen (p : bytes * counts) : Z := Z.of_nat (length (fst p)).
Definition nentries (c : counts) : nat := let '(a, b, c0, d) := c in (a + b + c0 + d)%nat.
Definition cq (c : counts) : nat := let '(a, _, _, _) := c in a.
Definition ca (c : counts) : nat := let '(_, b, _, _) := c in b.
Definition cu (c : counts) : nat := let '(_, _, c0, _) := c in c0.
Definition cd (c : counts) : nat := let '(_, _, _, d) := c in d.
Definition total (f : counts -> nat) (ps : list (bytes * counts)) : nat := fold_right (fun p acc => (f (snd p) + acc)%nat) 0%nat ps.

Definition header_of (m : out_msg) (last : bool) (c : counts) : bytes :=
  short_bytes (if o_multicast m then 0 else o_id m)
  ++ short_bytes (if negb last && is_query (o_flags m) then Z.lor (o_flags m) C_FLAGS_TC else o_flags m)
  ++ short_bytes (Z.of_nat (cq c)) ++ short_bytes (Z.of_nat (ca c)) ++ short_bytes (Z.of_nat (cu c)) ++ short_bytes (Z.of_nat (cd c)).

(* ------------------------------------------------------------------------------------------ *)
(* 0. generic helpers                                                                          *)

Lemma bind_ok {A B} (r : result A) (f : A -> result B) b :
  bind r f = Ok b -> exists a, r = Ok a /\ f a = Ok b.
Proof. destruct r as [a|e]; cbn [bind]; intro H; [exists a; split; [reflexivity|exact H] | discriminate]. Qed.

Ltac bind_inv H a Ha := apply bind_ok in H as (a & Ha & H); cbv beta in H.

Lemma nonempty_false {A} (l : list A) : nonempty l = false -> l = [].
Proof. destruct l; [reflexivity|discriminate]. Qed.

Lemma nonempty_true {A} (l : list A) : nonempty l = true -> l <> [].
Proof. destruct l; [discriminate|intros _ H; discriminate]. Qed.

Lemma nonempty_of_ne {A} (l : list A) : l <> [] -> nonempty l = true.
Proof. destruct l; [intro H; contradiction H; reflexivity|reflexivity]. Qed.

Lemma firstn_len_app {A} (h b : list A) n : length h = n -> firstn n (h ++ b) = h.
Proof.
  revert n; induction h as [|x h IH]; intros n Hn; cbn [length] in Hn; subst n.
  - reflexivity.
  - cbn [app firstn]. f_equal. apply IH. reflexivity.
Qed.

(* ------------------------------------------------------------------------------------------ *)
(* 1. the running size is exact; every primitive only extends the buffer                        *)

Definition SizeOk (st : enc) : Prop := e_size st = 12 + Z.of_nat (length (e_rev st)).

(* [ext st st']: st' was obtained from st by appending bytes (size-wise), keeping allow_long *)
Definition ext (st st' : enc) : Prop :=
  e_allow_long st' = e_allow_long st /\ e_size st <= e_size st' /\
  Z.of_nat (length (e_rev st')) - Z.of_nat (length (e_rev st)) = e_size st' - e_size st.

Lemma ext_refl st : ext st st.
Proof. unfold ext. repeat split; lia. Qed.

Lemma ext_trans a b c : ext a b -> ext b c -> ext a c.
Proof. unfold ext. intros (H1 & H2 & H3) (H4 & H5 & H6). repeat split; [congruence|lia|lia]. Qed.

Lemma ext_sizeok st st' : ext st st' -> SizeOk st -> SizeOk st'.
Proof. unfold ext, SizeOk. intros (H1 & H2 & H3) H. lia. Qed.

Lemma put_ext st bs : ext st (put st bs) /\ e_size (put st bs) = e_size st + Z.of_nat (length bs).
Proof.
  unfold ext, put; cbn [e_rev e_size e_allow_long].
  rewrite rev_append_rev, app_length, rev_length. repeat split; lia.
Qed.

Lemma write_byte_ext st v st' : write_byte st v = Ok st' -> ext st st'.
Proof.
  unfold write_byte. destruct ((v <? 0) || (255 <? v)); [discriminate|].
  intro H; inversion H; subst. apply put_ext.
Qed.

Lemma write_short_ext st v st' : write_short st v = Ok st' -> ext st st' /\ e_size st' = e_size st + 2.
Proof.
  unfold write_short. destruct ((v <? 0) || (65535 <? v)); [discriminate|].
  intro H; inversion H; subst. destruct (put_ext st [v / 256; v mod 256]) as [H1 H2].
  split; [exact H1|]. rewrite H2. cbn [length]. lia.
Qed.

Lemma write_int_ext st v st' : write_int st v = Ok st' -> ext st st'.
Proof.
  unfold write_int. destruct ((v <? 0) || (4294967295 <? v)); [discriminate|].
  intro H; inversion H; subst. apply put_ext.
Qed.

Lemma write_string_ext st b : ext st (write_string st b).
Proof. unfold write_string. apply put_ext. Qed.

Lemma write_utf_ext st s st' : write_utf st s = Ok st' -> ext st st'.
Proof.
  unfold write_utf. intro H. bind_inv H u Hu.
  destruct (write_utf_rejects (Z.of_nat (length u))); [discriminate|].
  bind_inv H s1 H1. inversion H; subst.
  eapply ext_trans; [eapply write_byte_ext; exact H1 | apply write_string_ext].
Qed.

Lemma write_character_string_ext st b st' : write_character_string st b = Ok st' -> ext st st'.
Proof.
  unfold write_character_string. intro H.
  destruct (256 <? Z.of_nat (length b)); [discriminate|].
  bind_inv H s1 H1. inversion H; subst.
  eapply ext_trans; [eapply write_byte_ext; exact H1 | apply write_string_ext].
Qed.

Lemma names_set_ext st n i : ext st (names_set st n i).
Proof. unfold ext, names_set; cbn [e_rev e_size e_allow_long]. repeat split; lia. Qed.

Lemma write_link_ext st i st' : write_link st i = Ok st' -> ext st st'.
Proof.
  unfold write_link. intro H. bind_inv H s1 H1.
  eapply ext_trans; eapply write_byte_ext; eassumption.
Qed.

Lemma write_name_rest_ext labels : forall st ss nl st',
  write_name_rest st ss nl labels = Ok st' -> ext st st'.
Proof.
  induction labels as [|l rest IH]; intros st ss nl st' H; cbn [write_name_rest] in H.
  - eapply write_byte_ext; exact H.
  - destruct (negb (names_get st (join_dot (l :: rest)) =? 0)).
    + eapply write_link_ext; exact H.
    + bind_inv H pl Hpl. bind_inv H s2 H2.
      eapply ext_trans; [apply names_set_ext|].
      eapply ext_trans; [eapply write_utf_ext; exact H2|].
      eapply IH; exact H.
Qed.

Lemma write_name_ext st name st' : write_name st name = Ok st' -> ext st st'.
Proof.
  unfold write_name. intro H.
  destruct (negb (names_get st (strip_dot name) =? 0)).
  - eapply write_link_ext; exact H.
  - destruct (split_dot (strip_dot name)) as [|l0 rest]; [discriminate|].
    bind_inv H s2 H2.
    eapply ext_trans; [apply names_set_ext|].
    eapply ext_trans; [eapply write_utf_ext; exact H2|].
    destruct rest as [|l1 rest].
    + eapply write_byte_ext; exact H.
    + bind_inv H nlen Hn. eapply write_name_rest_ext; exact H.
Qed.

Lemma write_record_class_ext mc st r st' :
  write_record_class mc st r = Ok st' -> ext st st' /\ e_size st' = e_size st + 2.
Proof.
  unfold write_record_class. destruct (DNSEntry_unique r && mc); apply write_short_ext.
Qed.

Lemma write_rdata_ext st r st' : write_rdata st r = Ok st' -> ext st st'.
Proof.
  unfold write_rdata. intro H. destruct (p_kind r).
  - discriminate.
  - inversion H; subst. apply write_string_ext.
  - bind_inv H cpu Hcpu. bind_inv H s1 H1. bind_inv H os Hos.
    eapply ext_trans; eapply write_character_string_ext; eassumption.
  - eapply write_name_ext; exact H.
  - inversion H; subst. apply write_string_ext.
  - bind_inv H s1 H1. bind_inv H s2 H2. bind_inv H s3 H3.
    apply write_short_ext in H1 as [H1 _]. apply write_short_ext in H2 as [H2 _].
    apply write_short_ext in H3 as [H3 _]. apply write_name_ext in H.
    eapply ext_trans; [exact H1|]. eapply ext_trans; [exact H2|]. eapply ext_trans; [exact H3|exact H].
  - bind_inv H bt Hbt. destruct bt as [bitmap tot]. cbv beta iota in H.
    destruct (tot =? 0); [discriminate|].
    bind_inv H s1 H1. bind_inv H s2 H2. bind_inv H s3 H3. inversion H; subst.
    apply write_name_ext in H1. apply write_byte_ext in H2. apply write_byte_ext in H3.
    eapply ext_trans; [exact H1|]. eapply ext_trans; [exact H2|]. eapply ext_trans; [exact H3|].
    apply write_string_ext.
Qed.

Lemma patch_short_length rv n v : (n + 2 <= length rv)%nat -> length (patch_short rv n v) = length rv.
Proof.
  intro H. unfold patch_short. rewrite !app_length, firstn_length, skipn_length. cbn [length]. lia.
Qed.

(* ------------------------------------------------------------------------------------------ *)
(* 2. one entry                                                                                 *)

Definition EntrySpec (st st' : enc) (fit : bool) : Prop :=
  SizeOk st' /\ e_allow_long st' = false /\
  (fit = true -> e_size st' <= (if e_allow_long st then 8966 else 1460) /\ e_size st + 2 <= e_size st') /\
  (fit = false -> e_rev st' = e_rev st /\ e_size st' = e_size st).

Lemma check_limit_spec st s st' fit :
  check_limit_or_rollback s st = (st', fit) -> SizeOk st -> ext st s -> e_size st + 2 <= e_size s ->
  EntrySpec st st' fit.
Proof.
  unfold check_limit_or_rollback, EntrySpec. intros H Hok Hext Hgrow.
  pose proof (ext_sizeok _ _ Hext Hok) as Hoks.
  destruct Hext as (Hal & Hle & Hlen). rewrite Hal in H.
  destruct (e_size s <=? (if e_allow_long st then C_MAX_MSG_ABSOLUTE else C_MAX_MSG_TYPICAL)) eqn:E;
    inversion H; subst; clear H; unfold SizeOk in *; cbn [e_rev e_size e_allow_long].
  - split; [exact Hoks|]. split; [reflexivity|]. split; [|intro Hf; discriminate].
    intros _. split; [|lia].
    unfold C_MAX_MSG_ABSOLUTE, C_MAX_MSG_TYPICAL in E. destruct (e_allow_long st); lia.
  - split; [exact Hok|]. split; [reflexivity|]. split; [intro Hf; discriminate|].
    intros _. split; reflexivity.
Qed.

Lemma write_question_spec mc st q st' fit :
  write_question mc st q = Ok (st', fit) -> SizeOk st -> EntrySpec st st' fit.
Proof.
  unfold write_question. intros H Hok.
  bind_inv H s1 H1. bind_inv H s2 H2. bind_inv H s3 H3. inversion H as [Hc]; clear H.
  apply write_name_ext in H1. apply write_short_ext in H2 as [H2 H2s].
  apply write_record_class_ext in H3 as [H3 H3s].
  eapply check_limit_spec; [exact Hc|exact Hok| |].
  - eapply ext_trans; [exact H1|]. eapply ext_trans; [exact H2|exact H3].
  - destruct H1 as (_ & H1 & _). lia.
Qed.

Lemma write_record_spec mc st r now st' fit :
  write_record mc st r now = Ok (st', fit) -> SizeOk st -> EntrySpec st st' fit.
Proof.
  unfold write_record. intros H Hok.
  bind_inv H s1 H1. bind_inv H s2 H2. bind_inv H s3 H3. bind_inv H s4 H4. bind_inv H s5 H5. bind_inv H s6 H6.
  cbv zeta in H.
  destruct ((e_size s6 - e_size s5 <? 0) || (65535 <? e_size s6 - e_size s5)) eqn:Erd; [discriminate|].
  inversion H as [Hc]; clear H.
  apply write_name_ext in H1. apply write_short_ext in H2 as [H2 H2s].
  apply write_record_class_ext in H3 as [H3 H3s]. apply write_int_ext in H4.
  apply write_short_ext in H5 as [H5 H5s]. apply write_rdata_ext in H6.
  assert (H04 : ext st s4).
  { eapply ext_trans; [exact H1|]. eapply ext_trans; [exact H2|]. eapply ext_trans; [exact H3|exact H4]. }
  assert (H06 : ext st s6).
  { eapply ext_trans; [exact H04|]. eapply ext_trans; [exact H5|exact H6]. }
  eapply check_limit_spec; [exact Hc|exact Hok| |].
  - unfold ext in *. cbn [e_rev e_size e_allow_long].
    destruct H06 as (A1 & A2 & A3). destruct H6 as (B1 & B2 & B3). destruct H5 as (C1 & C2 & C3).
    split; [exact A1|]. split; [exact A2|].
    rewrite patch_short_length; [exact A3|]. lia.
  - cbn [e_size]. destruct H1 as (_ & H1 & _). destruct H06 as (_ & A2 & _).
    destruct H6 as (_ & B2 & _). destruct H4 as (_ & D2 & _). destruct H3 as (_ & E2 & _). lia.
Qed.

(* ------------------------------------------------------------------------------------------ *)
(* 3. the section loops: [w] = number of entries written into this datagram so far             *)

Definition Inv (st : enc) (w : nat) : Prop :=
  SizeOk st /\
  (e_allow_long st = true -> w = 0%nat) /\
  (w = 0%nat -> e_rev st = []) /\
  (e_rev st = [] -> w = 0%nat) /\
  (w = 1%nat -> e_size st <= 8966) /\
  ((2 <= w)%nat -> e_size st <= 1460).

Lemma Inv_init : Inv enc_init 0.
Proof.
  unfold Inv, SizeOk, enc_init; cbn [e_rev e_size e_allow_long length]. unfold C_DNS_PACKET_HEADER_LEN.
  repeat split; intros; try reflexivity; try lia.
Qed.

Lemma Inv_fit st w st' : Inv st w -> EntrySpec st st' true -> Inv st' (S w).
Proof.
  unfold Inv, EntrySpec. intros (I1 & I2 & I3 & I4 & I5 & I6) (E1 & E2 & E3 & _).
  destruct (E3 eq_refl) as [E3a E3b].
  split; [exact E1|]. split; [intro Hc; congruence|]. split; [intro Hc; discriminate|].
  split.
  { intro Hr. unfold SizeOk in *. rewrite Hr in E1. cbn [length] in E1. lia. }
  split.
  { intros _. destruct (e_allow_long st); lia. }
  intro Hw. destruct (e_allow_long st) eqn:Eal; [|exact E3a].
  specialize (I2 eq_refl). lia.
Qed.

Lemma Inv_nofit st w st' : Inv st w -> EntrySpec st st' false -> Inv st' w.
Proof.
  unfold Inv, EntrySpec. intros (I1 & I2 & I3 & I4 & I5 & I6) (E1 & E2 & _ & E4).
  destruct (E4 eq_refl) as [E4a E4b]. rewrite E4a, E4b.
  split; [exact E1|]. split; [intro Hc; congruence|]. auto.
Qed.

Lemma write_questions_spec mc qs : forall st n st' n' w,
  write_questions mc st qs n = Ok (st', n') -> Inv st w ->
  exists k, n' = (n + k)%nat /\ (k <= length qs)%nat /\ Inv st' (w + k).
Proof.
  induction qs as [|q rest IH]; intros st n st' n' w H HI; cbn [write_questions] in H.
  - inversion H; subst. exists 0%nat. cbn [length]. rewrite !Nat.add_0_r. split; [reflexivity|]. split; [lia|exact HI].
  - bind_inv H sf Hq. destruct sf as [s1 fit]. cbv beta iota in H.
    apply write_question_spec in Hq; [|apply HI].
    destruct fit.
    + destruct (IH _ _ _ _ (S w) H (Inv_fit _ _ _ HI Hq)) as (k & K1 & K2 & K3).
      exists (S k). cbn [length]. split; [lia|]. split; [lia|].
      replace (w + S k)%nat with (S w + k)%nat by lia. exact K3.
    + inversion H; subst. exists 0%nat. rewrite !Nat.add_0_r. split; [reflexivity|]. split; [lia|].
      eapply Inv_nofit; eassumption.
Qed.

Lemma write_records_spec mc rs : forall st n st' n' w,
  write_records mc st rs n = Ok (st', n') -> Inv st w ->
  exists k, n' = (n + k)%nat /\ (k <= length rs)%nat /\ Inv st' (w + k).
Proof.
  induction rs as [|[r now] rest IH]; intros st n st' n' w H HI; cbn [write_records] in H.
  - inversion H; subst. exists 0%nat. cbn [length]. rewrite !Nat.add_0_r. split; [reflexivity|]. split; [lia|exact HI].
  - bind_inv H sf Hq. destruct sf as [s1 fit]. cbv beta iota in H.
    apply write_record_spec in Hq; [|apply HI].
    destruct fit.
    + destruct (IH _ _ _ _ (S w) H (Inv_fit _ _ _ HI Hq)) as (k & K1 & K2 & K3).
      exists (S k). cbn [length]. split; [lia|]. split; [lia|].
      replace (w + S k)%nat with (S w + k)%nat by lia. exact K3.
    + inversion H; subst. exists 0%nat. rewrite !Nat.add_0_r. split; [reflexivity|]. split; [lia|].
      eapply Inv_nofit; eassumption.
Qed.

(* one datagram's worth of section writing *)
Definition Sect (m : out_msg) (qs : list pyrec) (ans : list (pyrec * Z)) (auth adds : list pyrec)
           (s4 : enc) (nq na nau nad : nat) : Prop :=
  exists s1 s2 s3,
    write_questions (o_multicast m) enc_init qs 0 = Ok (s1, nq) /\
    write_records (o_multicast m) s1 ans 0 = Ok (s2, na) /\
    write_records (o_multicast m) s2 (map (fun r => (r, 0)) auth) 0 = Ok (s3, nau) /\
    write_records (o_multicast m) s3 (map (fun r => (r, 0)) adds) 0 = Ok (s4, nad).

Lemma Sect_spec m qs ans auth adds s4 nq na nau nad :
  Sect m qs ans auth adds s4 nq na nau nad ->
  Inv s4 (nq + na + nau + nad) /\
  (nq <= length qs)%nat /\ (na <= length ans)%nat /\ (nau <= length auth)%nat /\ (nad <= length adds)%nat.
Proof.
  intros (s1 & s2 & s3 & H1 & H2 & H3 & H4).
  destruct (write_questions_spec _ _ _ _ _ _ _ H1 Inv_init) as (k1 & A1 & A2 & A3).
  destruct (write_records_spec _ _ _ _ _ _ _ H2 A3) as (k2 & B1 & B2 & B3).
  destruct (write_records_spec _ _ _ _ _ _ _ H3 B3) as (k3 & C1 & C2 & C3).
  destruct (write_records_spec _ _ _ _ _ _ _ H4 C3) as (k4 & D1 & D2 & D3).
  rewrite map_length in C2, D2. cbn [Nat.add] in *. subst nq na nau nad.
  split; [exact D3|]. split; [exact A2|]. split; [exact B2|]. split; [exact C2|exact D2].
Qed.

(* ------------------------------------------------------------------------------------------ *)
(* 4. packets_loop as an inductive run                                                          *)

Definition mk_more (qs' : list pyrec) (ans' : list (pyrec * Z)) (auth' adds' : list pyrec) : bool :=
  nonempty qs' || nonempty ans' || nonempty auth' || nonempty adds'.

Definition mk_pkt (m : out_msg) (more : bool) (s4 : enc) (nq na nau nad : nat) : bytes * counts :=
  ((short_bytes (if o_multicast m then 0 else o_id m)
    ++ short_bytes (if more && is_query (o_flags m) then Z.lor (o_flags m) C_FLAGS_TC else o_flags m)
    ++ short_bytes (Z.of_nat nq) ++ short_bytes (Z.of_nat na)
    ++ short_bytes (Z.of_nat nau) ++ short_bytes (Z.of_nat nad)) ++ rev (e_rev s4), (nq, na, nau, nad)).

Inductive Run (m : out_msg) :
  list pyrec -> list (pyrec * Z) -> list pyrec -> list pyrec -> list (bytes * counts) -> Prop :=
| Run_last qs ans auth adds s4 nq na nau nad more :
    Sect m qs ans auth adds s4 nq na nau nad ->
    more = mk_more (skipn nq qs) (skipn na ans) (skipn nau auth) (skipn nad adds) ->
    (nonempty (e_rev s4) = false \/ more = false) ->
    Run m qs ans auth adds [mk_pkt m more s4 nq na nau nad]
| Run_more qs ans auth adds s4 nq na nau nad new :
    Sect m qs ans auth adds s4 nq na nau nad ->
    mk_more (skipn nq qs) (skipn na ans) (skipn nau auth) (skipn nad adds) = true ->
    nonempty (e_rev s4) = true ->
    Run m (skipn nq qs) (skipn na ans) (skipn nau auth) (skipn nad adds) new ->
    Run m qs ans auth adds (mk_pkt m true s4 nq na nau nad :: new).

Lemma packets_loop_run m fuel : forall qs ans auth adds acc ps,
  packets_loop fuel m qs ans auth adds acc = Ok ps ->
  exists new, ps = acc ++ new /\ Run m qs ans auth adds new.
Proof.
  induction fuel as [|fuel IH]; intros qs ans auth adds acc ps H; cbn [packets_loop] in H; [discriminate|].
  cbv zeta in H.
  bind_inv H r1 H1. destruct r1 as [s1 nq]. cbv beta iota in H.
  bind_inv H r2 H2. destruct r2 as [s2 na]. cbv beta iota in H.
  bind_inv H r3 H3. destruct r3 as [s3 nau]. cbv beta iota in H.
  bind_inv H r4 H4. destruct r4 as [s4 nad]. cbv beta iota in H.
  assert (HS : Sect m qs ans auth adds s4 nq na nau nad).
  { exists s1, s2, s3. repeat split; assumption. }
  fold (mk_more (skipn nq qs) (skipn na ans) (skipn nau auth) (skipn nad adds)) in H.
  remember (mk_more (skipn nq qs) (skipn na ans) (skipn nau auth) (skipn nad adds)) as more eqn:Emore.
  match type of H with (if ?c then _ else _) = _ => destruct c; [discriminate|] end.
  fold (mk_pkt m more s4 nq na nau nad) in H.
  destruct (nonempty (e_rev s4)) eqn:Emp; cbn [negb] in H.
  - destruct more.
    + destruct (IH _ _ _ _ _ _ H) as (new & Hps & Hrun).
      exists (mk_pkt m true s4 nq na nau nad :: new). split.
      * rewrite Hps, <- app_assoc. reflexivity.
      * apply Run_more; [exact HS|symmetry; exact Emore|exact Emp|exact Hrun].
    + inversion H; subst ps. eexists; split; [reflexivity|].
      eapply Run_last; [exact HS|exact Emore|right; reflexivity].
  - inversion H; subst ps. eexists; split; [reflexivity|].
    eapply Run_last; [exact HS|exact Emore|left; exact Emp].
Qed.

Lemma packets_info_run m ps : packets_info m = Ok ps ->
  Run m (o_questions m) (o_answers m) (o_authorities m) (o_additionals m) ps.
Proof.
  unfold packets_info. intro H. apply packets_loop_run in H as (new & Hps & Hrun).
  cbn [app] in Hps. subst ps. exact Hrun.
Qed.

Lemma Run_nonempty m qs ans auth adds ps : Run m qs ans auth adds ps -> ps <> [].
Proof. intro H; destruct H; intro Hc; discriminate. Qed.

(* ------------------------------------------------------------------------------------------ *)
(* 5. facts about one datagram                                                                  *)

Lemma mk_pkt_len m more s4 nq na nau nad :
  plen (mk_pkt m more s4 nq na nau nad) = 12 + Z.of_nat (length (e_rev s4)).
Proof.
  unfold plen, mk_pkt; cbn [fst]. rewrite !app_length, rev_length. unfold short_bytes; cbn [length]. lia.
Qed.

Lemma mk_pkt_snd m more s4 nq na nau nad : snd (mk_pkt m more s4 nq na nau nad) = (nq, na, nau, nad).
Proof. reflexivity. Qed.

Lemma mk_pkt_header m more s4 nq na nau nad :
  firstn 12 (fst (mk_pkt m more s4 nq na nau nad)) = header_of m (negb more) (nq, na, nau, nad).
Proof.
  unfold mk_pkt; cbn [fst]. rewrite firstn_len_app.
  - unfold header_of. rewrite negb_involutive. reflexivity.
  - rewrite !app_length. unfold short_bytes; cbn [length]. reflexivity.
Qed.

Definition PktOk (p : bytes * counts) : Prop :=
  exists s, Inv s (nentries (snd p)) /\ plen p = e_size s.

Lemma mk_pkt_ok m qs ans auth adds more s4 nq na nau nad :
  Sect m qs ans auth adds s4 nq na nau nad -> PktOk (mk_pkt m more s4 nq na nau nad).
Proof.
  intro HS. apply Sect_spec in HS as (HI & _). exists s4. rewrite mk_pkt_snd, mk_pkt_len.
  cbn [nentries]. split; [exact HI|]. destruct HI as (Hok & _). unfold SizeOk in Hok. lia.
Qed.

Lemma Run_all_ok m qs ans auth adds ps : Run m qs ans auth adds ps -> Forall PktOk ps.
Proof.
  intro H; induction H as [qs ans auth adds s4 nq na nau nad more HS Hm Hd
                          |qs ans auth adds s4 nq na nau nad new HS Hm Hp Hrun IH].
  - constructor; [eapply mk_pkt_ok; exact HS|constructor].
  - constructor; [eapply mk_pkt_ok; exact HS|exact IH].
Qed.

(* ------------------------------------------------------------------------------------------ *)
(* 6. the theorems                                                                              *)

Theorem packets_abs_limit : forall m ps, packets_info m = Ok ps -> Forall (fun p => plen p <= 8966) ps.
Proof.
  intros m ps H. apply packets_info_run, Run_all_ok in H.
  eapply Forall_impl; [|exact H]. intros p (s & (I1 & I2 & I3 & I4 & I5 & I6) & Hl). cbv beta.
  rewrite Hl.
  destruct (nentries (snd p)) as [|[|w]] eqn:Ew.
  - specialize (I3 eq_refl). unfold SizeOk in I1. rewrite I3 in I1. cbn [length] in I1. lia.
  - apply I5; reflexivity.
  - assert (e_size s <= 1460) by (apply I6; lia). lia.
Qed.

Theorem packets_typical_limit : forall m ps, packets_info m = Ok ps ->
  Forall (fun p => plen p <= 1460 \/ nentries (snd p) = 1%nat) ps.
Proof.
  intros m ps H. apply packets_info_run, Run_all_ok in H.
  eapply Forall_impl; [|exact H]. intros p (s & (I1 & I2 & I3 & I4 & I5 & I6) & Hl). cbv beta.
  rewrite Hl.
  destruct (nentries (snd p)) as [|[|w]] eqn:Ew.
  - left. specialize (I3 eq_refl). unfold SizeOk in I1. rewrite I3 in I1. cbn [length] in I1. lia.
  - right; reflexivity.
  - left. apply I6; lia.
Qed.

Theorem size_exact_packets : forall m ps, packets_info m = Ok ps ->
  Forall (fun p => exists s, plen p = e_size s /\ e_size s = 12 + Z.of_nat (length (e_rev s))) ps.
Proof.
  intros m ps H. apply packets_info_run, Run_all_ok in H.
  eapply Forall_impl; [|exact H]. intros p (s & (I1 & _) & Hl). exists s. split; [exact Hl|exact I1].
Qed.

(* --- non-emptiness --- *)

Lemma Run_nonlast_progress m qs ans auth adds ps : Run m qs ans auth adds ps ->
  forall i p, nth_error ps i = Some p -> (S i < length ps)%nat -> (1 <= nentries (snd p))%nat.
Proof.
  intro H; induction H as [qs ans auth adds s4 nq na nau nad more HS Hm Hd
                          |qs ans auth adds s4 nq na nau nad new HS Hm Hp Hrun IH]; intros i p Hn Hi.
  - cbn [length] in Hi. lia.
  - destruct i as [|j]; cbn [nth_error] in Hn.
    + inversion Hn; subst p. rewrite mk_pkt_snd. cbn [nentries].
      apply Sect_spec in HS as ((I1 & I2 & I3 & I4 & I5 & I6) & _).
      apply nonempty_true in Hp.
      destruct (nq + na + nau + nad)%nat eqn:Ew; [|lia]. contradiction Hp. apply I3; reflexivity.
    + apply (IH j p Hn). cbn [length] in Hi. lia.
Qed.

Theorem packets_nonempty : forall m ps, packets_info m = Ok ps ->
  ps <> [] /\ forall i p, nth_error ps i = Some p -> (S i < length ps)%nat -> (1 <= nentries (snd p))%nat.
Proof.
  intros m ps H. apply packets_info_run in H. split.
  - eapply Run_nonempty; exact H.
  - eapply Run_nonlast_progress; exact H.
Qed.

(* --- accounting --- *)

Lemma total_cons f p ps : total f (p :: ps) = (f (snd p) + total f ps)%nat.
Proof. reflexivity. Qed.

Lemma total_nil f : total f [] = 0%nat.
Proof. reflexivity. Qed.

Lemma skipn_empty_len {A} (l : list A) n : (n <= length l)%nat -> nonempty (skipn n l) = false -> n = length l.
Proof.
  intros Hn He. apply nonempty_false in He. apply (f_equal (@length A)) in He.
  rewrite skipn_length in He. cbn [length] in He. lia.
Qed.

Lemma Run_partition m qs ans auth adds ps : Run m qs ans auth adds ps ->
  (total cq ps <= length qs)%nat /\ (total ca ps <= length ans)%nat /\
  (total cu ps <= length auth)%nat /\ (total cd ps <= length adds)%nat /\
  (Forall (fun p => (1 <= nentries (snd p))%nat) ps ->
     total cq ps = length qs /\ total ca ps = length ans /\
     total cu ps = length auth /\ total cd ps = length adds).
Proof.
  intro H; induction H as [qs ans auth adds s4 nq na nau nad more HS Hm Hd
                          |qs ans auth adds s4 nq na nau nad new HS Hm Hp Hrun IH].
  - rewrite !total_cons, !total_nil, mk_pkt_snd. cbn [cq ca cu cd].
    apply Sect_spec in HS as (HI & L1 & L2 & L3 & L4).
    split; [lia|]. split; [lia|]. split; [lia|]. split; [lia|].
    intro HF. pose proof (Forall_inv HF) as Hx. cbv beta in Hx. rewrite mk_pkt_snd in Hx. cbn [nentries] in Hx.
    destruct HI as (I1 & I2 & I3 & I4 & I5 & I6).
    destruct Hd as [Hd|Hd].
    + apply nonempty_false in Hd. specialize (I4 Hd). lia.
    + rewrite Hd in Hm. symmetry in Hm. unfold mk_more in Hm.
      apply orb_false_iff in Hm as [Hm M4]. apply orb_false_iff in Hm as [Hm M3].
      apply orb_false_iff in Hm as [M1 M2].
      apply skipn_empty_len in M1; [|exact L1]. apply skipn_empty_len in M2; [|exact L2].
      apply skipn_empty_len in M3; [|exact L3]. apply skipn_empty_len in M4; [|exact L4]. lia.
  - rewrite !total_cons, mk_pkt_snd. cbn [cq ca cu cd].
    apply Sect_spec in HS as (HI & L1 & L2 & L3 & L4).
    destruct IH as (A1 & A2 & A3 & A4 & A5). rewrite !skipn_length in *.
    split; [lia|]. split; [lia|]. split; [lia|]. split; [lia|].
    intro HF. pose proof (Forall_inv_tail HF) as Hl. destruct (A5 Hl) as (B1 & B2 & B3 & B4). lia.
Qed.

Theorem packets_partition : forall m ps, packets_info m = Ok ps ->
  (total cq ps <= length (o_questions m))%nat /\ (total ca ps <= length (o_answers m))%nat /\
  (total cu ps <= length (o_authorities m))%nat /\ (total cd ps <= length (o_additionals m))%nat /\
  (Forall (fun p => (1 <= nentries (snd p))%nat) ps ->
     total cq ps = length (o_questions m) /\ total ca ps = length (o_answers m) /\
     total cu ps = length (o_authorities m) /\ total cd ps = length (o_additionals m)).
Proof. intros m ps H. apply (Run_partition m). apply packets_info_run. exact H. Qed.

(* --- headers --- *)

(* [packets_headers] as stated is FALSE: when packets() leaves through its "made no progress" exit
   (the next entry does not fit even an otherwise empty 8966-byte datagram) the final, empty datagram
   of a query still has entries pending, so it carries the TC bit although it is the last one. *)
Definition cex_txt : pyrec :=
  {| p_kind := KText; p_name := [97]; p_type_ := 16; p_class_ := 1; p_ttl := 120; p_created := 0;
     p_address := []; p_scope_id := None; p_cpu := []; p_os := []; p_alias := [];
     p_text := repeat 0 (Z.to_nat 9000); p_priority := 0; p_weight := 0; p_port := 0; p_server := [];
     p_next_name := []; p_rdtypes := [] |}.
Definition cex_msg : out_msg :=
  {| o_flags := 0; o_multicast := true; o_id := 0; o_questions := []; o_answers := [(cex_txt, 0)];
     o_authorities := []; o_additionals := [] |}.

Eval vm_compute in packets_info cex_msg.
Eval vm_compute in header_of cex_msg true (0, 0, 0, 0)%nat.

Lemma packets_headers_counterexample :
  exists m ps, packets_info m = Ok ps /\
    exists i p, nth_error ps i = Some p /\
      firstn 12 (fst p) <> header_of m (Nat.eqb (S i) (length ps)) (snd p).
Proof.
  exists cex_msg, [([0; 0; 2; 0; 0; 0; 0; 0; 0; 0; 0; 0], (0, 0, 0, 0)%nat)].
  split; [vm_compute; reflexivity|].
  exists 0%nat, ([0; 0; 2; 0; 0; 0; 0; 0; 0; 0; 0; 0], (0, 0, 0, 0)%nat).
  split; [reflexivity|]. vm_compute. intro H; discriminate.
Qed.

Lemma header_of_noquery m b b' c : is_query (o_flags m) = false -> header_of m b c = header_of m b' c.
Proof. intro Hq. unfold header_of. rewrite Hq, !andb_false_r. reflexivity. Qed.

Lemma Run_headers m qs ans auth adds ps : Run m qs ans auth adds ps ->
  forall i p, nth_error ps i = Some p ->
    (S i = length ps -> is_query (o_flags m) = true -> (1 <= nentries (snd p))%nat) ->
    firstn 12 (fst p) = header_of m (Nat.eqb (S i) (length ps)) (snd p) /\ 12 <= plen p.
Proof.
  intro H; induction H as [qs ans auth adds s4 nq na nau nad more HS Hm Hd
                          |qs ans auth adds s4 nq na nau nad new HS Hm Hp Hrun IH]; intros i p Hn Hlast.
  - destruct i as [|j]; cbn [nth_error] in Hn; [|destruct j; discriminate].
    inversion Hn; subst p. rewrite mk_pkt_len, mk_pkt_snd, mk_pkt_header. split; [|lia].
    cbn [length Nat.eqb].
    destruct Hd as [Hd|Hd]; [|rewrite Hd; reflexivity].
    destruct (is_query (o_flags m)) eqn:Eq; [|apply header_of_noquery; exact Eq].
    rewrite mk_pkt_snd in Hlast. cbn [nentries length] in Hlast. specialize (Hlast eq_refl eq_refl).
    apply Sect_spec in HS as ((I1 & I2 & I3 & I4 & I5 & I6) & _).
    apply nonempty_false in Hd. specialize (I4 Hd). lia.
  - destruct i as [|j]; cbn [nth_error] in Hn.
    + inversion Hn; subst p. rewrite mk_pkt_len, mk_pkt_snd, mk_pkt_header. split; [|lia].
      pose proof (Run_nonempty _ _ _ _ _ _ Hrun) as Hne.
      destruct new as [|p1 new']; [contradiction Hne; reflexivity|]. reflexivity.
    + cbn [length]. change (Nat.eqb (S (S j)) (S (length new))) with (Nat.eqb (S j) (length new)).
      apply IH; [exact Hn|]. intros Hj. apply Hlast. cbn [length]. lia.
Qed.

(* strongest true variant: the stated conclusion holds for every datagram except a final one that is empty
   of entries in a query (the "made no progress" exit); responses and all non-final datagrams are
   unconditional *)
Theorem packets_headers_partial : forall m ps, packets_info m = Ok ps ->
  forall i p, nth_error ps i = Some p ->
    (S i = length ps -> is_query (o_flags m) = true -> (1 <= nentries (snd p))%nat) ->
    firstn 12 (fst p) = header_of m (Nat.eqb (S i) (length ps)) (snd p) /\ 12 <= plen p.
Proof. intros m ps H. apply Run_headers with (1 := packets_info_run _ _ H). Qed.

(* the header length claim is unconditional *)
Theorem packets_headers_length : forall m ps, packets_info m = Ok ps ->
  forall i p, nth_error ps i = Some p -> 12 <= plen p.
Proof.
  intros m ps H i p Hn. apply packets_info_run, Run_all_ok in H.
  rewrite Forall_forall in H. apply nth_error_In in Hn. destruct (H p Hn) as (s & (I1 & _) & Hl).
  unfold SizeOk in I1. lia.
Qed.

(* unconditional exact form: TC is on every datagram of a query except a final one that completes the
   message, i.e. "last" in the stated theorem has to be read as "last and nothing is left pending" *)
Definition completeb (qs : list pyrec) (ans : list (pyrec * Z)) (auth adds : list pyrec)
           (ps : list (bytes * counts)) : bool :=
  (total cq ps =? length qs)%nat && (total ca ps =? length ans)%nat &&
  (total cu ps =? length auth)%nat && (total cd ps =? length adds)%nat.

Lemma skipn_nonempty_eqb {A} (l : list A) n :
  (n <= length l)%nat -> nonempty (skipn n l) = negb (n =? length l)%nat.
Proof.
  intro Hn. destruct (Nat.eqb_spec n (length l)) as [E|E]; cbn [negb].
  - subst n. rewrite skipn_all. reflexivity.
  - apply nonempty_of_ne. intro Hc. apply (f_equal (@length A)) in Hc.
    rewrite skipn_length in Hc. cbn [length] in Hc. lia.
Qed.

Lemma eqb_shift n t L : (n <= L)%nat -> (n + t =? L)%nat = (t =? L - n)%nat.
Proof.
  intro Hn. destruct (Nat.eqb_spec (n + t) L) as [E1|E1]; destruct (Nat.eqb_spec t (L - n)) as [E2|E2];
    try reflexivity; lia.
Qed.

Lemma Run_headers_exact m qs ans auth adds ps : Run m qs ans auth adds ps ->
  forall i p, nth_error ps i = Some p ->
    firstn 12 (fst p) = header_of m (Nat.eqb (S i) (length ps) && completeb qs ans auth adds ps) (snd p).
Proof.
  intro H; induction H as [qs ans auth adds s4 nq na nau nad more HS Hm Hd
                          |qs ans auth adds s4 nq na nau nad new HS Hm Hp Hrun IH]; intros i p Hn.
  - destruct i as [|j]; cbn [nth_error] in Hn; [|destruct j; discriminate].
    inversion Hn; subst p. rewrite mk_pkt_snd, mk_pkt_header.
    cbn [length Nat.eqb andb]. f_equal.
    apply Sect_spec in HS as (_ & L1 & L2 & L3 & L4).
    unfold completeb. rewrite !total_cons, !total_nil, mk_pkt_snd. cbn [cq ca cu cd].
    rewrite !Nat.add_0_r. rewrite Hm. unfold mk_more.
    rewrite (skipn_nonempty_eqb _ _ L1), (skipn_nonempty_eqb _ _ L2),
            (skipn_nonempty_eqb _ _ L3), (skipn_nonempty_eqb _ _ L4).
    rewrite !negb_orb, !negb_involutive. reflexivity.
  - destruct i as [|j]; cbn [nth_error] in Hn.
    + inversion Hn; subst p. rewrite mk_pkt_snd, mk_pkt_header.
      pose proof (Run_nonempty _ _ _ _ _ _ Hrun) as Hne.
      destruct new as [|p1 new']; [contradiction Hne; reflexivity|]. reflexivity.
    + cbn [length]. change (Nat.eqb (S (S j)) (S (length new))) with (Nat.eqb (S j) (length new)).
      rewrite (IH j p Hn). f_equal. f_equal.
      apply Sect_spec in HS as (_ & L1 & L2 & L3 & L4).
      unfold completeb. rewrite !total_cons, mk_pkt_snd. cbn [cq ca cu cd].
      rewrite !skipn_length.
      rewrite (eqb_shift _ _ _ L1), (eqb_shift _ _ _ L2), (eqb_shift _ _ _ L3), (eqb_shift _ _ _ L4).
      reflexivity.
Qed.

Theorem packets_headers_exact : forall m ps, packets_info m = Ok ps ->
  forall i p, nth_error ps i = Some p ->
    firstn 12 (fst p) =
      header_of m (Nat.eqb (S i) (length ps) &&
                   completeb (o_questions m) (o_answers m) (o_authorities m) (o_additionals m) ps) (snd p)
    /\ 12 <= plen p.
Proof.
  intros m ps H i p Hn. split.
  - apply (Run_headers_exact m _ _ _ _ _ (packets_info_run _ _ H)). exact Hn.
  - eapply packets_headers_length; eassumption.
Qed.

Print Assumptions packets_abs_limit.
Print Assumptions packets_typical_limit.
Print Assumptions packets_headers_partial.
Print Assumptions packets_headers_counterexample.
Print Assumptions packets_headers_length.
Print Assumptions packets_headers_exact.
Print Assumptions packets_partition.
Print Assumptions packets_nonempty.
Print Assumptions size_exact_packets.
