(* C09 (part 4): whole runs of async_check_service: check_start, then one turn per wake-up while the coroutine waits. *)
From Coq Require Import ZArith List Bool Lia ZifyBool.
From ZC Require Import Model.Base Model.PyRec Model.Dict Model.Re Model.Names Model.Cache Model.Respond Gen.Const Gen.DnsPure
  Model.Register Proofs.C09_dec Proofs.C09_turn.
Ltac Zify.zify_post_hook ::= Z.to_euclidean_division_equations.

(* ---- runs ---- *)
(* one resumption: the cache and the clock it saw, what it emitted, the coroutine state it left *)
Record step := { st_cache : cache; st_now : Z; st_outs : list chk_out; st_state : chk }.

Definition do_turn (k : chk) (c : cache) (now : Z) : step :=
  {| st_cache := c; st_now := now; st_outs := snd (check_turn c now k); st_state := fst (check_turn c now k) |}.

(* the coroutine is suspended in async_wait *)
Definition waiting (outs : list chk_out) : bool := match last outs CDone with CWait _ => true | _ => false end.

(* a further turn is only taken while the previous one ended in CWait, and the clock never goes back *)
Fixpoint run_turns (prev : step) (ts : list (cache * Z)) : option (list step) :=
  match ts with
  | [] => Some []
  | (c, now) :: ts' =>
      if waiting (st_outs prev) && (st_now prev <=? now) then
        match run_turns (do_turn (st_state prev) c now) ts' with
        | Some tr => Some (do_turn (st_state prev) c now :: tr)
        | None => None
        end
      else None
  end.

Definition initial_chk (now : Z) (s : svc) (inst : text) (allow strict : bool) : chk :=
  {| ck_svc := s; ck_instance := inst; ck_num := 2; ck_next := now; ck_i := 0; ck_allow := allow; ck_strict := strict |}.

(* check_start (not cooperating) at (c0, now0), then the turns ts = [(cache_j, now_j)]; None = not a run *)
Definition run (c0 : cache) (now0 : Z) (s : svc) (allow strict : bool) (ts : list (cache * Z)) : option (list step) :=
  match check_start c0 now0 s allow strict false with
  | Ok (k, outs) =>
      let st0 := {| st_cache := c0; st_now := now0; st_outs := outs; st_state := k |} in
      match run_turns st0 ts with Some tr => Some (st0 :: tr) | None => None end
  | Raise _ => None
  end.

(* every output, tagged with the cache it was computed from and the service (name) in force when it was emitted *)
Definition ev := (cache * svc * chk_out)%type.
Definition step_events (st : step) : list ev := map (fun o => (st_cache st, ck_svc (st_state st), o)) (st_outs st).
Definition events (tr : list step) : list ev := flat_map step_events tr.
Definition probe_ev (c : cache) (t : Z) (s : svc) : ev := (c, s, probe_of t s).
Definition only_waits (s : svc) (w : list ev) : Prop := forall e, In e w -> exists c ms, e = (c, s, CWait ms).

(* no turn is late / every turn is exactly on time *)
Fixpoint on_time_from (prev : step) (tr : list step) : Prop :=
  match tr with
  | [] => True
  | st :: tr' => (forall ms, last (st_outs prev) CDone = CWait ms -> st_now st <= st_now prev + ms) /\ on_time_from st tr'
  end.
Definition on_time (tr : list step) : Prop := match tr with [] => True | st :: tr' => on_time_from st tr' end.

Fixpoint punctual_from (prev : step) (tr : list step) : Prop :=
  match tr with
  | [] => True
  | st :: tr' => (forall ms, last (st_outs prev) CDone = CWait ms -> st_now st = st_now prev + ms) /\ punctual_from st tr'
  end.
Definition punctual (tr : list step) : Prop := match tr with [] => True | st :: tr' => punctual_from st tr' end.

Lemma run_start c0 now0 s allow strict ts tr :
  run c0 now0 s allow strict ts = Some tr ->
  exists inst tr1, instance_name strict s = Ok inst /\
    tr = do_turn (initial_chk now0 s inst allow strict) c0 now0 :: tr1 /\
    run_turns (do_turn (initial_chk now0 s inst allow strict) c0 now0) ts = Some tr1.
Proof.
  unfold run, check_start. destruct (instance_name strict s) as [inst|e]; cbn [bind]; [|discriminate].
  fold (initial_chk now0 s inst allow strict).
  destruct (check_turn c0 now0 (initial_chk now0 s inst allow strict)) as [k outs] eqn:E.
  assert (Hst : {| st_cache := c0; st_now := now0; st_outs := outs; st_state := k |} =
                do_turn (initial_chk now0 s inst allow strict) c0 now0).
  { unfold do_turn. rewrite E. reflexivity. }
  rewrite Hst.
  destruct (run_turns (do_turn (initial_chk now0 s inst allow strict) c0 now0) ts) as [tr1|] eqn:R; [|discriminate].
  intro H. injection H as H. subst tr. exists inst, tr1.
  split; [reflexivity|]. split; [reflexivity|exact R].
Qed.

Lemma last_cons_default {A} (a : A) l d : last (a :: l) d = last l a.
Proof.
  revert a d. induction l as [|b l IH]; intros a d; [reflexivity|].
  change (last (a :: b :: l) d) with (last (b :: l) d). rewrite (IH b d), (IH b a). reflexivity.
Qed.

Lemma ends_with_last outs o : ends_with outs o -> last outs CDone = o.
Proof. intros [pre ->]. apply last_last. Qed.

(* ---- the invariant ---- *)
Section Invariant.
  (* P = "the run is on time": under P every probe happens exactly when it is due *)
  Variable P : Prop.

  (* events from the first probe for s up to the latest one: n probes, the first at t1, the latest at tl *)
  Inductive stretch (s : svc) (t1 : Z) : Z -> Z -> list ev -> Prop :=
  | str_first c : free_at c t1 s -> stretch s t1 1 t1 [probe_ev c t1 s]
  | str_next n tl l w c t :
      stretch s t1 n tl l -> only_waits s w ->
      t1 + 175 * n <= t -> tl <= t -> (P -> t = t1 + 175 * n) -> free_at c t s ->
      stretch s t1 (n + 1) t (l ++ w ++ [probe_ev c t s]).

  Lemma stretch_inv s t1 n tl l : stretch s t1 n tl l ->
    (n = 1 /\ tl = t1 /\ exists c, free_at c t1 s /\ l = [probe_ev c t1 s]) \/
    (exists n' tl' l' w c, n = n' + 1 /\ stretch s t1 n' tl' l' /\ only_waits s w /\
       t1 + 175 * n' <= tl /\ tl' <= tl /\ (P -> tl = t1 + 175 * n') /\ free_at c tl s /\
       l = l' ++ w ++ [probe_ev c tl s]).
  Proof.
    intro H. destruct H as [c Hf|n tl l w c t Hs Hw H1 H2 H3 Hf].
    - left. split; [reflexivity|]. split; [reflexivity|]. exists c. split; [exact Hf|reflexivity].
    - right. exists n, tl, l, w, c. repeat split; assumption.
  Qed.

  Lemma stretch_pos s t1 n tl l : stretch s t1 n tl l -> 1 <= n /\ t1 <= tl.
  Proof.
    induction 1 as [c Hf|n tl l w c t Hs IH Hw H1 H2 H3 Hf]; lia.
  Qed.

  (* between turns, while waiting: i probes sent for the current name, the next one due at t1 + 175 i *)
  Definition Waiting_inv (now : Z) (evs : list ev) (k : chk) : Prop :=
    exists pre t1 tl l trail,
      evs = pre ++ l ++ trail /\ stretch (ck_svc k) t1 (ck_i k) tl l /\ only_waits (ck_svc k) trail /\
      ck_next k = t1 + 175 * ck_i k /\ tl <= now /\ 1 <= ck_i k < 3.

  Definition Done_inv (evs : list ev) (k : chk) : Prop :=
    exists pre t1 l0 c t3,
      evs = pre ++ l0 ++ [probe_ev c t3 (ck_svc k); (c, ck_svc k, CDone)] /\
      stretch (ck_svc k) t1 3 t3 (l0 ++ [probe_ev c t3 (ck_svc k)]).

  (* inside a turn at (c, now); probed = a probe has already been sent in this turn *)
  Definition Loop_inv (c : cache) (now : Z) (probed : bool) (evs : list ev) (k : chk) : Prop :=
    (probed = false /\ ck_i k = 0 /\ ck_next k = now) \/
    (exists pre t1 tl l trail,
       evs = pre ++ l ++ trail /\ stretch (ck_svc k) t1 (ck_i k) tl l /\ only_waits (ck_svc k) trail /\
       ck_next k = t1 + 175 * ck_i k /\ tl <= now /\ 1 <= ck_i k <= 3 /\
       (probed = false -> ck_i k < 3) /\
       (probed = true -> trail = [] /\ tl = now /\ exists l0, l = l0 ++ [probe_ev c now (ck_svc k)])).

  Definition Turn_post (c : cache) (now : Z) (evs : list ev) (k' : chk) (outs : list chk_out) : Prop :=
    (exists ms, ends_with outs (CWait ms) /\ ms = ck_next k' - now /\ 0 < ms /\ Waiting_inv now evs k') \/
    (ends_with outs CDone /\ Done_inv evs k').

  Lemma only_waits_nil s : only_waits s [].
  Proof. intros e []. Qed.

  Lemma only_waits_snoc s w c ms : only_waits s w -> only_waits s (w ++ [(c, s, CWait ms)]).
  Proof.
    intros Hw e HIn. apply in_app_or in HIn as [HIn|[HIn|[]]]; [apply Hw; exact HIn|].
    subst e. exists c, ms. reflexivity.
  Qed.

  Lemma ends_with_cons o outs x : ends_with outs x -> ends_with (o :: outs) x.
  Proof. intros [pre ->]. exists (o :: pre). reflexivity. Qed.

  Lemma quiet_turn_inv c now : forall k outs k', quiet_turn now k outs k' ->
    forall probed evs,
    free_at c now (ck_svc k) -> Loop_inv c now probed evs k -> (P -> now <= ck_next k) ->
    ck_svc k' = ck_svc k /\ ck_num k' = ck_num k /\
    Turn_post c now (evs ++ map (fun o => (c, ck_svc k, o)) outs) k' outs.
  Proof.
    induction 1 as [k Hi|k Hi Hn|k outs k' Hi Hn Hq IH]; intros probed evs Hfree HL HP.
    - (* CDone: only right after the third probe *)
      split; [reflexivity|]. split; [reflexivity|]. right. split; [exists []; reflexivity|].
      destruct HL as [(_ & Hi0 & _)|(pre & t1 & tl & l & trail & Hevs & Hs & Hw & Hnext & Htl & Hir & Hnp & Hp)]; [lia|].
      destruct probed; [|specialize (Hnp eq_refl); lia].
      destruct (Hp eq_refl) as (Htrail & Htl' & l0 & Hl). subst trail tl l.
      assert (Hi3 : ck_i k = 3) by lia. rewrite Hi3 in Hs.
      exists pre, t1, l0, c, now. split; [|exact Hs].
      rewrite Hevs. cbn [map]. rewrite app_nil_r, <- !app_assoc. reflexivity.
    - (* CWait *)
      split; [reflexivity|]. split; [reflexivity|]. left. exists (ck_next k - now).
      split; [exists []; reflexivity|]. split; [reflexivity|]. split; [lia|].
      destruct HL as [(_ & _ & Hnx)|(pre & t1 & tl & l & trail & Hevs & Hs & Hw & Hnext & Htl & Hir & Hnp & Hp)]; [lia|].
      exists pre, t1, tl, l, (trail ++ [(c, ck_svc k, CWait (ck_next k - now))]).
      split; [rewrite Hevs; cbn [map]; rewrite <- !app_assoc; reflexivity|].
      split; [exact Hs|]. split; [apply only_waits_snoc; exact Hw|]. split; [exact Hnext|]. split; [exact Htl|lia].
    - (* a probe, then the rest of the turn *)
      assert (HL' : Loop_inv c now true (evs ++ [probe_ev c now (ck_svc k)]) (bump k)).
      { right. cbn [bump ck_svc ck_i ck_next]. unfold C_CHECK_TIME.
        destruct HL as [(_ & Hi0 & Hnx)|(pre & t1 & tl & l & trail & Hevs & Hs & Hw & Hnext & Htl & Hir & Hnp & Hp)].
        - exists evs, now, now, [probe_ev c now (ck_svc k)], [].
          split; [reflexivity|]. rewrite Hi0. split; [apply str_first; exact Hfree|].
          split; [apply only_waits_nil|]. split; [lia|]. split; [lia|]. split; [lia|].
          split; [discriminate|]. intros _. split; [reflexivity|]. split; [reflexivity|]. exists []. reflexivity.
        - exists pre, t1, now, (l ++ trail ++ [probe_ev c now (ck_svc k)]), [].
          split; [rewrite Hevs, app_nil_r, <- !app_assoc; reflexivity|].
          split; [apply (str_next _ _ _ tl); try assumption; try lia; intro HPp; specialize (HP HPp); lia|].
          split; [apply only_waits_nil|]. split; [lia|]. split; [lia|]. split; [lia|].
          split; [discriminate|]. intros _. split; [reflexivity|]. split; [reflexivity|].
          exists (l ++ trail). rewrite <- app_assoc. reflexivity. }
      destruct (IH true (evs ++ [probe_ev c now (ck_svc k)])) as (Hsvc & Hnum & Hpost).
      + exact Hfree.
      + exact HL'.
      + cbn [bump ck_next]. unfold C_CHECK_TIME. intro HPp. specialize (HP HPp). lia.
      + cbn [bump ck_svc ck_num] in Hsvc, Hnum, Hpost.
        split; [exact Hsvc|]. split; [exact Hnum|].
        cbn [map]. unfold probe_ev in Hpost. rewrite <- app_assoc in Hpost. cbn [app] in Hpost.
        destruct Hpost as [(ms & He & Hms & Hpos & HW)|[He HD]].
        * left. exists ms. split; [apply ends_with_cons; exact He|]. split; [exact Hms|]. split; [exact Hpos|exact HW].
        * right. split; [apply ends_with_cons; exact He|exact HD].
  Qed.

  (* the state at the start of a turn at time now: nothing sent yet, or waiting *)
  Definition Turn_pre (now : Z) (evs : list ev) (k : chk) : Prop :=
    (ck_i k = 0 /\ ck_next k = now) \/ Waiting_inv now evs k.

  Lemma turn_inv c now k k' outs evs :
    Turn_pre now evs k -> (P -> now <= ck_next k) -> 0 <= ck_num k ->
    check_turn c now k = (k', outs) ->
    (exists e, outs = [CRaise e]) \/
    (0 <= ck_num k' /\ free_at c now (ck_svc k') /\
     Turn_post c now (evs ++ map (fun o => (c, ck_svc k', o)) outs) k' outs).
  Proof.
    intros Hpre HP Hnum H.
    assert (Hi : 0 <= ck_i k < 3).
    { destruct Hpre as [[Hi0 _]|(pre & t1 & tl & l & trail & _ & _ & _ & _ & _ & Hir)]; lia. }
    apply turn_cases in H; [|exact Hnum|pose proof (check_fuel_ge c k); lia].
    destruct H as [Hi3|e _ R|k1 k' outs _ R Hq]; [lia|left; exists e; reflexivity|]. right.
    apply rename_loop_spec in R as [Hfree Hcase].
    assert (HL : Loop_inv c now false evs k1 /\ (P -> now <= ck_next k1) /\ 0 <= ck_num k1).
    { destruct Hcase as [->|(_ & _ & _ & _ & _ & _ & Hi1 & Hnx & Hn1 & _)].
      - split; [|split; assumption].
        destruct Hpre as [[Hi0 Hnx]|(pre & t1 & tl & l & trail & Hevs & Hs & Hw & Hnext & Htl & Hir)].
        + left. repeat split; assumption.
        + right. exists pre, t1, tl, l, trail. repeat split; try assumption; try lia.
      - split; [left; repeat split; assumption|]. split; [intros _; lia|lia]. }
    destruct HL as (HL & HP1 & Hn1).
    destruct (quiet_turn_inv c now k1 outs k' Hq false evs Hfree HL HP1) as (Hsvc & Hnum' & Hpost).
    rewrite Hsvc, Hnum'. split; [exact Hn1|]. split; [exact Hfree|exact Hpost].
  Qed.

  Lemma Waiting_inv_later now now' evs k : now <= now' -> Waiting_inv now evs k -> Waiting_inv now' evs k.
  Proof.
    intros Hle (pre & t1 & tl & l & trail & Hevs & Hs & Hw & Hnext & Htl & Hir).
    exists pre, t1, tl, l, trail. repeat split; try assumption; lia.
  Qed.

  (* what is known after a step, given all events up to and including it *)
  Definition Step_inv (evs : list ev) (st : step) : Prop :=
    match last (st_outs st) CDone with
    | CWait ms =>
        0 <= ck_num (st_state st) /\ free_at (st_cache st) (st_now st) (ck_svc (st_state st)) /\
        ms = ck_next (st_state st) - st_now st /\ 0 < ms /\ Waiting_inv (st_now st) evs (st_state st)
    | CDone => free_at (st_cache st) (st_now st) (ck_svc (st_state st)) /\ Done_inv evs (st_state st)
    | _ => True
    end.

  Lemma do_turn_inv k c now evs :
    Turn_pre now evs k -> (P -> now <= ck_next k) -> 0 <= ck_num k ->
    Step_inv (evs ++ step_events (do_turn k c now)) (do_turn k c now).
  Proof.
    intros Hpre HP Hnum. unfold do_turn, step_events, Step_inv.
    destruct (check_turn c now k) as [k' outs] eqn:E. cbn [fst snd st_cache st_now st_outs st_state].
    destruct (turn_inv c now k k' outs evs Hpre HP Hnum E) as [[e ->]|(Hn' & Hfree & Hpost)]; [exact I|].
    destruct Hpost as [(ms & He & Hms & Hpos & HW)|[He HD]].
    - rewrite (ends_with_last _ _ He). repeat split; assumption.
    - rewrite (ends_with_last _ _ He). split; assumption.
  Qed.

  Lemma run_turns_inv : forall ts prev tr evs,
    Step_inv evs prev -> (P -> on_time_from prev tr) ->
    run_turns prev ts = Some tr ->
    Step_inv (evs ++ events tr) (last tr prev).
  Proof.
    induction ts as [|[c now] ts IH]; intros prev tr evs Hinv Hot H.
    - cbn [run_turns] in H. inversion H; subst tr. cbn [events flat_map last]. rewrite app_nil_r. exact Hinv.
    - cbn [run_turns] in H.
      destruct (waiting (st_outs prev) && (st_now prev <=? now)) eqn:Ew; [|discriminate].
      destruct (run_turns (do_turn (st_state prev) c now) ts) as [tr1|] eqn:R; [|discriminate].
      inversion H; subst tr. clear H.
      apply andb_true_iff in Ew as [Ew Hle].
      unfold waiting in Ew. unfold Step_inv in Hinv.
      destruct (last (st_outs prev) CDone) as [| ms | |] eqn:EL; try discriminate.
      destruct Hinv as (Hnum & _ & Hms & Hpos & HW).
      rewrite last_cons_default. cbn [events flat_map]. rewrite app_assoc.
      apply IH; [| |exact R].
      + apply do_turn_inv; [right; apply (Waiting_inv_later (st_now prev)); [lia|exact HW]| |exact Hnum].
        intro HPp. specialize (Hot HPp). cbn [on_time_from] in Hot. destruct Hot as [Hot _].
        specialize (Hot ms EL). cbn [do_turn st_now] in Hot. lia.
      + intro HPp. specialize (Hot HPp). cbn [on_time_from] in Hot. tauto.
  Qed.

  Lemma run_inv c0 now0 s allow strict ts tr0 stf :
    run c0 now0 s allow strict ts = Some (tr0 ++ [stf]) ->
    (P -> on_time (tr0 ++ [stf])) ->
    Step_inv (events (tr0 ++ [stf])) stf.
  Proof.
    intros H Hot. apply run_start in H as (inst & tr1 & _ & Htr & R).
    assert (Hlast : last tr1 (do_turn (initial_chk now0 s inst allow strict) c0 now0) = stf).
    { rewrite <- (last_cons_default _ tr1 stf), <- Htr. apply last_last. }
    rewrite Htr in *. cbn [events flat_map]. rewrite <- Hlast.
    apply run_turns_inv with (ts := ts); [| |exact R].
    - rewrite <- (app_nil_l (step_events _)). apply do_turn_inv.
      + left. split; reflexivity.
      + intros _. cbn [initial_chk ck_next]. lia.
      + cbn [initial_chk ck_num]. lia.
    - intro HPp. specialize (Hot HPp). exact Hot.
  Qed.

  (* unfolding a finished stretch *)
  Lemma done_inv_shape evs k : Done_inv evs k ->
    exists pre c1 t1 w1 c2 t2 w2 c3 t3,
      evs = pre ++ [probe_ev c1 t1 (ck_svc k)] ++ w1 ++ [probe_ev c2 t2 (ck_svc k)] ++ w2
                ++ [probe_ev c3 t3 (ck_svc k); (c3, ck_svc k, CDone)] /\
      only_waits (ck_svc k) w1 /\ only_waits (ck_svc k) w2 /\
      t1 + 175 <= t2 /\ t1 + 350 <= t3 /\ t2 <= t3 /\ (P -> t2 = t1 + 175 /\ t3 = t1 + 350) /\
      free_at c1 t1 (ck_svc k) /\ free_at c2 t2 (ck_svc k) /\ free_at c3 t3 (ck_svc k).
  Proof.
    intros (pre & t1 & l0 & c3 & t3 & Hevs & Hs).
    apply stretch_inv in Hs as [(Hn & _)|(n2 & t2 & l2 & w2 & c3' & Hn2 & Hs2 & Hw2 & Hd3 & Hle3 & HP3 & Hf3 & Hl3)]; [lia|].
    rewrite app_assoc in Hl3. apply app_inj_tail in Hl3 as [Hl0 Hc3]. inversion Hc3; subst c3'. clear Hc3.
    apply stretch_inv in Hs2 as [(Hn & _)|(n1 & t1' & l1 & w1 & c2 & Hn1 & Hs1 & Hw1 & Hd2 & Hle2 & HP2 & Hf2 & Hl2)]; [lia|].
    apply stretch_inv in Hs1 as [(Hn & Ht1 & c1 & Hf1 & Hl1)|(n0 & t0 & l' & w0 & c0 & Hn0 & Hs0 & _)].
    - subst t1' l1 l2 l0.
      exists pre, c1, t1, w1, c2, t2, w2, c3, t3.
      split; [rewrite Hevs, <- !app_assoc; reflexivity|].
      split; [exact Hw1|]. split; [exact Hw2|].
      split; [lia|]. split; [lia|]. split; [lia|]. split; [intro HPp; specialize (HP2 HPp); specialize (HP3 HPp); lia|].
      split; [exact Hf1|]. split; [exact Hf2|exact Hf3].
    - apply stretch_pos in Hs0. lia.
  Qed.
End Invariant.

(* ---- 4a ---- *)
(* as sketched (any non-decreasing schedule) the spacing t2 + 175 <= t3 is false: a late wake-up sends the probes that
   are overdue back to back.  check_start at 0, one turn at 1000: probes at 0, 1000, 1000. *)
Definition run_type : text := [95; 116; 46; 95; 116; 99; 112; 46; 108; 111; 99; 97; 108; 46].   (* "_t._tcp.local." *)
Definition run_svc : svc :=
  {| s_type := run_type; s_name := [97; 46] ++ run_type; s_server := [104; 46]; s_port := 80; s_weight := 0; s_priority := 0;
     s_text := []; s_host_ttl := 120; s_other_ttl := 4500; s_v4 := [[10; 0; 0; 1]]; s_v6 := [] |}.

Lemma late_turn_sends_probes_back_to_back :
  option_map (map st_outs) (run empty_cache 0 run_svc true false [(empty_cache, 1000)]) =
  Some [[probe_of 0 run_svc; CWait 175]; [probe_of 1000 run_svc; probe_of 1000 run_svc; CDone]].
Proof. vm_compute. reflexivity. Qed.

(* true for every schedule *)
Theorem done_after_three_probes_any_schedule : forall c0 now0 s allow strict ts tr0 stf,
  run c0 now0 s allow strict ts = Some (tr0 ++ [stf]) ->
  ends_with (st_outs stf) CDone ->
  let sf := ck_svc (st_state stf) in
  exists pre c1 t1 w1 c2 t2 w2 c3 t3,
    events (tr0 ++ [stf]) =
      pre ++ [probe_ev c1 t1 sf] ++ w1 ++ [probe_ev c2 t2 sf] ++ w2 ++ [probe_ev c3 t3 sf; (c3, sf, CDone)] /\
    only_waits sf w1 /\ only_waits sf w2 /\
    t1 + 175 <= t2 /\ t1 + 350 <= t3 /\ t2 <= t3 /\
    free_at c1 t1 sf /\ free_at c2 t2 sf /\ free_at c3 t3 sf.
Proof.
  intros c0 now0 s allow strict ts tr0 stf H He sf.
  pose proof (run_inv False c0 now0 s allow strict ts tr0 stf H (fun f => match f with end)) as Hinv.
  unfold Step_inv in Hinv. rewrite (ends_with_last _ _ He) in Hinv. destruct Hinv as [_ HD].
  apply done_inv_shape in HD as (pre & c1 & t1 & w1 & c2 & t2 & w2 & c3 & t3 & Hevs & Hw1 & Hw2 & H12 & H13 & H23 & _ & Hf1 & Hf2 & Hf3).
  exists pre, c1, t1, w1, c2, t2, w2, c3, t3. repeat split; assumption.
Qed.

(* the spacing of the sketch, for runs in which no turn is late (early wake-ups are allowed) *)
Theorem done_after_three_probes_partial : forall c0 now0 s allow strict ts tr0 stf,
  run c0 now0 s allow strict ts = Some (tr0 ++ [stf]) ->
  on_time (tr0 ++ [stf]) ->
  ends_with (st_outs stf) CDone ->
  let sf := ck_svc (st_state stf) in
  exists pre c1 t1 w1 c2 t2 w2 c3 t3,
    events (tr0 ++ [stf]) =
      pre ++ [probe_ev c1 t1 sf] ++ w1 ++ [probe_ev c2 t2 sf] ++ w2 ++ [probe_ev c3 t3 sf; (c3, sf, CDone)] /\
    only_waits sf w1 /\ only_waits sf w2 /\
    t1 < t2 < t3 /\ t1 + 175 <= t2 /\ t2 + 175 <= t3 /\ t2 = t1 + 175 /\ t3 = t2 + 175 /\
    free_at c1 t1 sf /\ free_at c2 t2 sf /\ free_at c3 t3 sf.
Proof.
  intros c0 now0 s allow strict ts tr0 stf H Hot He sf.
  pose proof (run_inv True c0 now0 s allow strict ts tr0 stf H (fun _ => Hot)) as Hinv.
  unfold Step_inv in Hinv. rewrite (ends_with_last _ _ He) in Hinv. destruct Hinv as [_ HD].
  apply done_inv_shape in HD as (pre & c1 & t1 & w1 & c2 & t2 & w2 & c3 & t3 & Hevs & Hw1 & Hw2 & H12 & H13 & H23 & HP & Hf1 & Hf2 & Hf3).
  destruct (HP I) as [E2 E3].
  exists pre, c1, t1, w1, c2, t2, w2, c3, t3. repeat split; try assumption; lia.
Qed.

(* ---- 4c ---- *)
Theorem never_registers_taken_name : forall c0 now0 s allow strict ts tr0 stf,
  run c0 now0 s allow strict ts = Some (tr0 ++ [stf]) ->
  ends_with (st_outs stf) CDone ->
  current_entry_with_name_and_alias (st_cache stf) (st_now stf)
    (s_type (ck_svc (st_state stf))) (s_name (ck_svc (st_state stf))) = None.
Proof.
  intros c0 now0 s allow strict ts tr0 stf H He.
  pose proof (run_inv False c0 now0 s allow strict ts tr0 stf H (fun f => match f with end)) as Hinv.
  unfold Step_inv in Hinv. rewrite (ends_with_last _ _ He) in Hinv. destruct Hinv as [Hfree _]. exact Hfree.
Qed.

(* ---- 4b ---- *)
Lemma punctual_turn_wait c k : free_at c (ck_next k) (ck_svc k) -> ck_i k < 2 ->
  check_turn c (ck_next k) k = (bump k, [probe_of (ck_next k) (ck_svc k); CWait 175]).
Proof.
  intros Hfree Hi. unfold check_turn. destruct (check_fuel_S c k) as (f & -> & Hf).
  destruct f as [|f]; [lia|].
  rewrite check_loop_S. unfold C_REGISTER_BROADCASTS.
  replace (ck_i k <? 3) with true by lia. cbn [negb].
  rewrite (rename_free _ c _ k Hfree). rewrite Z.ltb_irrefl.
  rewrite check_loop_S. unfold C_REGISTER_BROADCASTS. cbn [bump ck_i ck_next ck_svc].
  replace (ck_i k + 1 <? 3) with true by lia. cbn [negb].
  rewrite (rename_free _ c _ (bump k) Hfree). cbn [bump ck_next]. unfold C_CHECK_TIME.
  replace (ck_next k <? ck_next k + 175) with true by lia.
  replace (ck_next k + 175 - ck_next k) with 175 by lia. reflexivity.
Qed.

Lemma punctual_turn_done c k : free_at c (ck_next k) (ck_svc k) -> ck_i k = 2 ->
  check_turn c (ck_next k) k = (bump k, [probe_of (ck_next k) (ck_svc k); CDone]).
Proof.
  intros Hfree Hi. unfold check_turn. destruct (check_fuel_S c k) as (f & -> & Hf).
  destruct f as [|f]; [lia|].
  rewrite check_loop_S. unfold C_REGISTER_BROADCASTS.
  replace (ck_i k <? 3) with true by lia. cbn [negb].
  rewrite (rename_free _ c _ k Hfree). rewrite Z.ltb_irrefl.
  rewrite check_loop_S. unfold C_REGISTER_BROADCASTS. cbn [bump ck_i ck_next ck_svc].
  replace (ck_i k + 1 <? 3) with false by lia. reflexivity.
Qed.

(* the three steps of an undisturbed, punctual registration *)
Definition quiet_steps (t0 : Z) (s : svc) : list (Z * list chk_out * svc) :=
  [ (t0,       [probe_of t0 s;         CWait 175], s);
    (t0 + 175, [probe_of (t0 + 175) s; CWait 175], s);
    (t0 + 350, [probe_of (t0 + 350) s; CDone],     s) ].
Definition step_view (st : step) : Z * list chk_out * svc := (st_now st, st_outs st, ck_svc (st_state st)).

Theorem quiet_run : forall c0 t0 s allow strict ts tr,
  run c0 t0 s allow strict ts = Some tr ->
  (forall st, In st tr -> free_at (st_cache st) (st_now st) s) ->
  punctual tr ->
  length tr = S (length ts) /\ (length tr <= 3)%nat /\
  map step_view tr = firstn (length tr) (quiet_steps t0 s).
Proof.
  intros c0 t0 s allow strict ts tr H Hq Hp.
  apply run_start in H as (inst & tr1 & _ & Htr & R).
  set (k0 := initial_chk t0 s inst allow strict) in *.
  (* first step *)
  assert (E0 : do_turn k0 c0 t0 =
               {| st_cache := c0; st_now := t0; st_outs := [probe_of t0 s; CWait 175]; st_state := bump k0 |}).
  { assert (Hf0 : free_at c0 (ck_next k0) (ck_svc k0)).
    { apply (Hq (do_turn k0 c0 t0)). rewrite Htr. left. reflexivity. }
    unfold do_turn. change t0 with (ck_next k0) at 1 2 3 4.
    rewrite (punctual_turn_wait c0 k0 Hf0) by (cbn; lia). reflexivity. }
  rewrite E0 in *. clear E0.
  destruct ts as [|[c1 n1] ts].
  { cbn [run_turns] in R. inversion R; subst tr1. subst tr. cbn [length]. repeat split; try lia. }
  cbn [run_turns st_outs st_now st_state] in R.
  change (waiting [probe_of t0 s; CWait 175]) with true in R. cbn [andb] in R.
  destruct (t0 <=? n1) eqn:Hle1; [|discriminate].
  destruct (run_turns (do_turn (bump k0) c1 n1) ts) as [tr2|] eqn:R2; [|discriminate].
  inversion R; subst tr1. clear R. rewrite Htr in Hp, Hq.
  cbn [punctual punctual_from] in Hp. destruct Hp as [Hn1 Hp].
  specialize (Hn1 175 eq_refl). cbn [st_now do_turn] in Hn1.
  assert (E1 : do_turn (bump k0) c1 n1 =
               {| st_cache := c1; st_now := t0 + 175; st_outs := [probe_of (t0 + 175) s; CWait 175]; st_state := bump (bump k0) |}).
  { assert (Hf1 : free_at c1 (ck_next (bump k0)) (ck_svc (bump k0))).
    { replace (ck_next (bump k0)) with n1 by (cbn; unfold C_CHECK_TIME; lia).
      apply (Hq (do_turn (bump k0) c1 n1)). right. left. reflexivity. }
    unfold do_turn. replace n1 with (ck_next (bump k0)) by (cbn; unfold C_CHECK_TIME; lia).
    rewrite (punctual_turn_wait c1 (bump k0) Hf1) by (cbn; lia). cbn [fst snd]. f_equal. }
  rewrite E1 in *. clear E1.
  destruct ts as [|[c2 n2] ts].
  { cbn [run_turns] in R2. inversion R2; subst tr2. subst tr. cbn [length]. repeat split; try lia. }
  cbn [run_turns st_outs st_now st_state] in R2.
  change (waiting [probe_of (t0 + 175) s; CWait 175]) with true in R2. cbn [andb] in R2.
  destruct (t0 + 175 <=? n2) eqn:Hle2; [|discriminate].
  destruct (run_turns (do_turn (bump (bump k0)) c2 n2) ts) as [tr3|] eqn:R3; [|discriminate].
  inversion R2; subst tr2. clear R2.
  cbn [punctual_from] in Hp. destruct Hp as [Hn2 Hp].
  specialize (Hn2 175 eq_refl). cbn [st_now do_turn] in Hn2.
  assert (E2 : do_turn (bump (bump k0)) c2 n2 =
               {| st_cache := c2; st_now := t0 + 350; st_outs := [probe_of (t0 + 350) s; CDone]; st_state := bump (bump (bump k0)) |}).
  { assert (Hf2 : free_at c2 (ck_next (bump (bump k0))) (ck_svc (bump (bump k0)))).
    { replace (ck_next (bump (bump k0))) with n2 by (cbn; unfold C_CHECK_TIME; lia).
      apply (Hq (do_turn (bump (bump k0)) c2 n2)). right. right. left. reflexivity. }
    unfold do_turn. replace n2 with (ck_next (bump (bump k0))) by (cbn; unfold C_CHECK_TIME; lia).
    rewrite (punctual_turn_done c2 (bump (bump k0)) Hf2) by (cbn; lia). cbn [fst snd].
    replace (ck_next (bump (bump k0))) with (t0 + 350) by (cbn; unfold C_CHECK_TIME; lia). reflexivity. }
  rewrite E2 in *. clear E2.
  destruct ts as [|[c3 n3] ts].
  { cbn [run_turns] in R3. inversion R3; subst tr3. subst tr. cbn [length]. repeat split; try lia. }
  cbn [run_turns st_outs] in R3. change (waiting [probe_of (t0 + 350) s; CDone]) with false in R3.
  cbn [andb] in R3. discriminate.
Qed.

Print Assumptions done_after_three_probes_any_schedule.
Print Assumptions done_after_three_probes_partial.
Print Assumptions never_registers_taken_name.
Print Assumptions quiet_run.
