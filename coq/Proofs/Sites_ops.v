(* Sites_ops: for the comparisons that sit deep inside fuelled or monadic model functions, the operator (and constant) the model writes,
   with the place in coq/Model, equated with what the source writes now (Gen/Sites.v). Each conjunct is `reflexivity` while source and
   model agree; a changed operator or constant, or a comparison added to or removed from the method, breaks the conjunct. *)
From Coq Require Import ZArith.
From ZC Require Import Gen.Sites.
Open Scope Z_scope.

(* Model.Sched: sq_when m <? sq_when q (heap order, :122), w <? armed (:51), the no-churn window (:90), next >=? sq_expire (:102),
   sent >=? C_STARTUP_QUERIES (:174), sq_when q >? now (:138), sq_when q >? next_time (:192) *)
Definition sites_C10_ops : Prop :=
  sites_found_C10 = true /\
  site_sched_lt = Slt /\ site_sched_le = Slt /\ site_sched_ge = Sgt /\ site_sched_gt = Sgt /\
  site_sched_rearm = Slt /\ site_sched_no_churn_1 = Sle /\ site_sched_no_churn_2 = Sle /\
  site_sched_rescue_past_expiry = Sge /\ site_sched_startup_done = Sge /\ site_sched_startup_done_rhs = 4 /\
  site_sched_ready_stop = Sgt /\ site_sched_next_later = Sgt /\
  ncmp_services_browser_QueryScheduler_process_ready_types = 2 /\ ncmp_services_browser_QueryScheduler_process_startup_queries = 1 /\
  ncmp_services_browser_QueryScheduler_rearm_if_due_earlier = 1 /\ ncmp_services_browser_QueryScheduler_reschedule_ptr_first_refresh = 2 /\
  ncmp_services_browser_QueryScheduler_schedule_rescue_query = 1 /\
  ncmp_services_browser_ScheduledPTRQuery_lt = 1 /\ ncmp_services_browser_ScheduledPTRQuery_le = 1 /\
  ncmp_services_browser_ScheduledPTRQuery_ge = 1 /\ ncmp_services_browser_ScheduledPTRQuery_gt = 1.
Lemma sites_C10_ops_ok : sites_C10_ops. Proof. repeat split; reflexivity. Qed.

(* Model.WireEnc: 256 <? n (:41), e_size st <=? limit (:138), names kept iff snd ni <? e_size start, i.e. dropped iff idx >= start (:141),
   the four offsets of _has_more_to_add; Gen.Shapes carries the label limit for the theorems, repeated here with its count;
   Model.Front / Zeroconf.async_send: packets above _MAX_MSG_ABSOLUTE are not sent *)
Definition sites_C14_ops : Prop :=
  sites_found_C14 = true /\
  site_enc_label_limit = Sgt /\ site_enc_label_limit_rhs = 63 /\ site_enc_string_limit = Sgt /\ site_enc_string_limit_rhs = 256 /\
  site_enc_fits = Sle /\ site_enc_rollback_names = Sge /\
  site_enc_more_questions = Slt /\ site_enc_more_answers = Slt /\ site_enc_more_authorities = Slt /\ site_enc_more_additionals = Slt /\
  site_send_oversize = Sgt /\ site_send_oversize_rhs = 8966 /\
  ncmp_protocol_outgoing_DNSOutgoing_check_data_limit_or_rollback = 2 /\ ncmp_protocol_outgoing_DNSOutgoing_has_more_to_add = 4 /\
  ncmp_protocol_outgoing_DNSOutgoing_write_utf = 1 /\ ncmp_protocol_outgoing_DNSOutgoing_write_character_string = 1 /\
  ncmp_core_Zeroconf_async_send = 1.
Lemma sites_C14_ops_ok : sites_C14_ops. Proof. repeat split; reflexivity. Qed.

(* Model.Register.check_turn: ck_i k <? C_REGISTER_BROADCASTS (:83), now <? ck_next k1 (:88) *)
Definition sites_C09_ops : Prop :=
  sites_found_C09 = true /\
  site_reg_probe_count = Slt /\ site_reg_probe_count_rhs = 3 /\ site_reg_probe_wait = Slt /\ ncmp_core_Zeroconf_async_check_service = 2.
Lemma sites_C09_ops_ok : sites_C09_ops. Proof. repeat split; reflexivity. Qed.

(* Model.WireDec.decode_labels: off <? dlen (:58), length <? 64 (:62), length <? 192 (:66), link >? dlen (:70),
   |seen| >=? MAX_DNS_LABELS (:78), |labels| >? MAX_DNS_LABELS (:89); read_name: |name| >? MAX_NAME_LENGTH (:110); read_bitmap: o <? endo (:141);
   Model.Front.to_qmsg: is_probe = 0 <? m_nauth *)
Definition sites_C02_ops : Prop :=
  sites_found_C02 = true /\
  site_dec_in_packet = Slt /\ site_dec_is_label = Slt /\ site_dec_is_label_rhs = 64 /\ site_dec_is_reserved = Slt /\ site_dec_is_reserved_rhs = 192 /\
  site_dec_link_beyond = Sgt /\ site_dec_pointer_budget = Sge /\ site_dec_pointer_budget_rhs = 128 /\
  site_dec_label_budget = Sgt /\ site_dec_label_budget_rhs = 128 /\ site_dec_name_limit = Sgt /\ site_dec_name_limit_rhs = 253 /\
  site_dec_bitmap_more = Slt /\ site_dec_is_probe = Sgt /\ site_dec_is_probe_rhs = 0 /\
  ncmp_protocol_incoming_DNSIncoming_decode_labels_at_offset = 6 /\ ncmp_protocol_incoming_DNSIncoming_read_bitmap = 1 /\
  ncmp_protocol_incoming_DNSIncoming_read_name = 1 /\ ncmp_protocol_incoming_DNSIncoming_is_probe = 1.
Lemma sites_C02_ops_ok : sites_C02_ops. Proof. repeat split; reflexivity. Qed.
