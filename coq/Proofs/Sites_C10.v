(* Sites_C10: the comparisons of three scheduler methods of Model.Sched, stated on the model functions themselves with the operators the
   source writes now (Gen/Sites.v). The remaining scheduler sites are in Sites_ops.v. *)
From ZC Require Import Model.Base Model.Dict Model.Sched Gen.Const Gen.Sites.

Lemma tie_schedule_rescue s q now :
  schedule_rescue s q now =
  let next := now + (sq_ttl q * 1000 * C_RESCUE_RECORD_RETRY_TTL_PERCENTAGE_num) / C_RESCUE_RECORD_RETRY_TTL_PERCENTAGE_den in
  if sop_apply site_sched_rescue_past_expiry next (sq_expire q) then s
  else push s (sq_alias q) (sq_name q) (sq_ttl q) (sq_expire q) next.
Proof. reflexivity. Qed.

Lemma tie_no_churn s alias name created ttl id cur :
  d_get text_eqb (sc_by_alias s) alias = Some id -> find_id (sc_heap s) id = Some cur ->
  let refresh := created + C_EXPIRE_REFRESH_TIME_PERCENT * ttl * 10 in
  let expire := created + 100 * ttl * 10 in
  reschedule_ptr_first_refresh s alias name created ttl =
  if sop_apply site_sched_no_churn_1 (- sc_delay s) (refresh - sq_when cur) && sop_apply site_sched_no_churn_2 (refresh - sq_when cur) (sc_delay s)
  then with_heap_alias_fresh s (retime_id (sc_heap s) id ttl expire) (sc_by_alias s) (sc_fresh s)
  else push (with_heap_alias_fresh s (cancel_id (sc_heap s) id) (d_del text_eqb (sc_by_alias s) alias) (sc_fresh s))
            alias name ttl expire refresh.
Proof. intros H1 H2. unfold reschedule_ptr_first_refresh. rewrite H1, H2. reflexivity. Qed.

Lemma tie_rearm s when_ armed k :
  (sc_min_next s =? 0) = false -> sc_next_run s = Some (armed, k) ->
  rearm_if_due_earlier s when_ =
  if sop_apply site_sched_rearm (Z.max when_ (sc_min_next s)) armed
  then {| sc_heap := sc_heap s; sc_by_alias := sc_by_alias s; sc_next_run := Some (Z.max when_ (sc_min_next s), TReady);
          sc_startup_sent := sc_startup_sent s; sc_delay := sc_delay s; sc_first_qu := sc_first_qu s;
          sc_fresh := sc_fresh s; sc_stopped := sc_stopped s; sc_min_next := sc_min_next s |}
  else s.
Proof. intros H1 H2. unfold rearm_if_due_earlier. rewrite H1, H2. reflexivity. Qed.
