(* C11: reply routing. Which answers of a query go out by unicast, by immediate multicast, through the aggregation
   queue or through the delay queue, and with which header / class bits.
   Vocabulary (C11_lemmas.v):
     recent c now r       := has_mcast_within_one_quarter_ttl c now r
     last_second c now r  := has_mcast_record_in_last_second c now r
     keys a               := map fst a
     inset r a            := exists k, In k (keys a) /\ gen_eq k r = true          (membership up to record identity)
     answers_of g msgs q  := the keys of  answer_question (known_answers msgs) (p_type_ q) st  for st in get_strategies g q
   The general routing table (any number of packets / questions) is [response_routing]; items 2-5 are read off it. *)
From Coq Require Import ZArith List Bool Lia ZifyBool.
From ZC Require Import Model.Base Model.PyRec Model.Dict Model.Re Model.Cache Model.Respond Model.Route Model.WireEnc
                       Gen.Const Gen.Extra Gen.DnsPure Spec.AnswerSpec.
From ZC Require Import Proofs.C20_identity Proofs.C03_sets Proofs.C03_respond Proofs.C11_lemmas.
Ltac Zify.zify_post_hook ::= Z.to_euclidean_division_equations.

(* what handle_assembled_query asks of async_response for a query that came from [port] *)
Definition response (g : registry) (c : cache) (msgs : list qmsg) (port : Z) : option question_answers :=
  async_response g c msgs (negb (port =? C_MDNS_PORT)).

(* the multicast part of handle_assembled_query *)
Definition multicast_actions (qa : question_answers) (now : Z) : list action :=
  (match qa_mcast_now qa with [] => [] | u => [AMulticast (construct_multicast u)] end)
  ++ (match qa_mcast_aggregate qa with [] => [] | u => [AQueue now u] end)
  ++ (match qa_mcast_last_second qa with [] => [] | u => [ADelayQueue now u] end).

(* the three multicast sets *)
Inductive mset := MNow | MAggregate | MLastSecond.
Definition mset_of (qa : question_answers) (s : mset) : answer_set :=
  match s with
  | MNow => qa_mcast_now qa
  | MAggregate => qa_mcast_aggregate qa
  | MLastSecond => qa_mcast_last_second qa
  end.
(* r is in the multicast set s and in no other multicast set *)
Definition only_in (r : pyrec) (qa : question_answers) (s : mset) : Prop :=
  forall s', inset r (mset_of qa s') <-> s' = s.

(* where a QM answer goes *)
Definition qm_class (c : cache) (now : Z) (q r : pyrec) : mset :=
  if last_second c now r then MLastSecond
  else if respond_immediate (p_type_ q) then MNow
  else MAggregate.

Lemma respond_immediate_spec t :
  respond_immediate t = true <-> t = C_TYPE_A \/ t = C_TYPE_AAAA \/ t = C_TYPE_SRV \/ t = C_TYPE_NSEC.
Proof.
  unfold respond_immediate, C_RESPOND_IMMEDIATE_TYPES, C_TYPE_A, C_TYPE_AAAA, C_TYPE_SRV, C_TYPE_NSEC.
  cbn [existsb]. rewrite !orb_true_iff, !Z.eqb_eq. intuition discriminate.
Qed.

(* ================= 1. the two cache predicates ================= *)
Theorem recent_spec : forall c now r,
  recent c now r = true <->
  exists e, async_get_unique c r = Some e /\ p_created e + 250 * p_ttl e > now.
Proof.
  intros c now r. unfold recent, has_mcast_within_one_quarter_ttl. destruct (async_get_unique c r) as [e|].
  - unfold DNSRecord_is_recent, DNSRecord_created, DNSRecord_ttl. change C_RECENT_TIME_MS with 250. split.
    + intro H. exists e. split; [reflexivity|lia].
    + intros (e' & E & H). inversion E; subst e'. lia.
  - split; [discriminate|]. intros (e & E & _). discriminate E.
Qed.

Theorem last_second_spec : forall c now r,
  last_second c now r = true <->
  exists e, async_get_unique c r = Some e /\ now - p_created e < 1000.
Proof.
  intros c now r. unfold last_second, has_mcast_record_in_last_second. destruct (async_get_unique c r) as [e|].
  - unfold DNSRecord_created. change C_ONE_SECOND with 1000. split.
    + intro H. exists e. split; [reflexivity|lia].
    + intros (e' & E & H). inversion E; subst e'. lia.
  - split; [discriminate|]. intros (e & E & _). discriminate E.
Qed.

(* both depend on the record only through its identity *)
Theorem recent_last_second_identity : forall c now r r', gen_eq r r' = true ->
  recent c now r = recent c now r' /\ last_second c now r = last_second c now r'.
Proof. intros c now r r' E. split; [apply recent_congr|apply last_second_congr]; exact E. Qed.

(* ================= 0. the routing table, in general ================= *)
(* For every packet list and every record identity a: a is in a set of the response iff some asked question q has an
   answer with that identity and the table sends (q, a) there.
     QU branch (port 5353 and q has the QU bit):  ucast  iff probe or recent;          now iff not recent
     otherwise:  ucast iff legacy source port;  now iff probe, or not last_second and immediate;
                 aggregate iff no probe, not last_second, not immediate;  last_second iff no probe and last_second *)
Theorem response_routing : forall g c m0 ms ucast_source qa,
  async_response g c (m0 :: ms) ucast_source = Some qa ->
  let msgs := m0 :: ms in
  let now := qm_now (last msgs m0) in
  let p := existsb qm_is_probe msgs in
  let qs := qm_questions m0 in
  forall a,
    (inset a (qa_ucast qa) <->
       exists q, asked msgs q /\ has (answers_of g msgs q) a /\ to_ucast c now p ucast_source q a) /\
    (inset a (qa_mcast_now qa) <->
       exists q, asked msgs q /\ has (answers_of g msgs q) a /\ to_now c now p qs ucast_source q a) /\
    (inset a (qa_mcast_aggregate qa) <->
       exists q, asked msgs q /\ has (answers_of g msgs q) a /\ to_aggregate c now p qs ucast_source q a) /\
    (inset a (qa_mcast_last_second qa) <->
       exists q, asked msgs q /\ has (answers_of g msgs q) a /\ to_last_second c now p ucast_source q a).
Proof. intros g c m0 ms ucast qa H msgs now p qs a. apply (response_routing_ g c m0 ms ucast qa H a). Qed.

(* ================= 7. nothing matches: nothing happens ================= *)
Theorem no_action_without_answers : forall g c msgs first_id addr port,
  response g c msgs port = None ->
  handle_assembled_query g c msgs first_id addr port = [].
Proof.
  intros g c msgs first_id addr port H. unfold response in H. unfold handle_assembled_query. cbv zeta.
  rewrite H. reflexivity.
Qed.

Theorem no_strategy_no_action : forall g c msgs first_id addr port,
  (forall m q, In m msgs -> In q (qm_questions m) -> get_strategies g q = []) ->
  response g c msgs port = None /\ handle_assembled_query g c msgs first_id addr port = [].
Proof.
  intros g c msgs first_id addr port H.
  assert (R : response g c msgs port = None).
  { unfold response. rewrite async_response_eq.
    assert (S : strategies_of g msgs = []).
    { destruct (strategies_of g msgs) as [|x S] eqn:E; [reflexivity|]. exfalso.
      assert (HIn : In x (strategies_of g msgs)) by (rewrite E; left; reflexivity).
      apply in_strategies_of in HIn as (m & Hm & Hq & Hst). rewrite (H m (fst x) Hm Hq) in Hst. destruct Hst. }
    rewrite S. reflexivity. }
  split; [exact R|]. apply no_action_without_answers. exact R.
Qed.

(* ================= 2. legacy unicast ================= *)
Lemma handle_some g c m0 ms first_id addr port qa :
  response g c (m0 :: ms) port = Some qa ->
  handle_assembled_query g c (m0 :: ms) first_id addr port =
  (match qa_ucast qa with
   | [] => []
   | u => [AUnicast addr port (construct_unicast u (negb (port =? C_MDNS_PORT)) (qm_questions m0) first_id)]
   end) ++ multicast_actions qa (qm_now m0).
Proof.
  intro H. unfold response in H. unfold handle_assembled_query. cbv zeta. rewrite H. reflexivity.
Qed.

Theorem legacy_unicast : forall g c m0 ms first_id addr port qa,
  port <> C_MDNS_PORT ->
  response g c (m0 :: ms) port = Some qa ->
  qa_ucast qa <> [] ->
  (exists m rest,
     handle_assembled_query g c (m0 :: ms) first_id addr port = AUnicast addr port m :: rest /\
     o_id m = first_id /\ o_questions m = qm_questions m0 /\ o_multicast m = false /\
     o_flags m = 33792 /\ o_answers m = map (fun r => (r, 0)) (keys (qa_ucast qa)) /\
     rest = multicast_actions qa (qm_now m0) /\ rest <> []) /\
  (forall a, inset a (qa_ucast qa) <->
             inset a (qa_mcast_now qa ++ qa_mcast_aggregate qa ++ qa_mcast_last_second qa)).
Proof.
  intros g c m0 ms first_id addr port qa Hport H Hne.
  assert (Hp : negb (port =? C_MDNS_PORT) = true).
  { apply negb_true_iff. apply Z.eqb_neq. exact Hport. }
  assert (Sets : forall a, inset a (qa_ucast qa) <->
                           inset a (qa_mcast_now qa ++ qa_mcast_aggregate qa ++ qa_mcast_last_second qa)).
  { intro a. unfold response in H. rewrite Hp in H.
    destruct (response_routing g c m0 ms true qa H a) as (U & N & A & L).
    rewrite !inset_app, U, N, A, L. clear U N A L.
    unfold to_ucast, to_now, to_aggregate, to_last_second, qu_path. cbn [negb andb].
    split.
    - intros (q & Ha & Hh & _).
      destruct (existsb qm_is_probe (m0 :: ms)) eqn:P; [left; exists q; auto|].
      destruct (last_second c (qm_now (last (m0 :: ms) m0)) a) eqn:LS; [right; right; exists q; auto|].
      destruct (immediate (qm_questions m0)) eqn:I; [left; exists q; auto|right; left; exists q; auto].
    - intros [(q & Ha & Hh & _)|[(q & Ha & Hh & _)|(q & Ha & Hh & _)]]; exists q; auto. }
  split; [|exact Sets].
  rewrite (handle_some g c m0 ms first_id addr port qa H). rewrite Hp.
  destruct (qa_ucast qa) as [|u0 us] eqn:EU; [exfalso; apply Hne; reflexivity|].
  exists (construct_unicast (u0 :: us) true (qm_questions m0) first_id), (multicast_actions qa (qm_now m0)).
  repeat (split; [reflexivity|]).
  (* the multicast part is not empty: the first unicast key is in one of the three multicast sets *)
  assert (X : inset (fst u0) (qa_mcast_now qa ++ qa_mcast_aggregate qa ++ qa_mcast_last_second qa)).
  { apply Sets. unfold inset, keys. rewrite ?EU. apply has_in. left. reflexivity. }
  unfold multicast_actions. rewrite !inset_app in X.
  destruct X as [X|[X|X]].
  - destruct (qa_mcast_now qa); [apply inset_nil in X; destruct X|discriminate].
  - destruct (qa_mcast_aggregate qa); [apply inset_nil in X; destruct X|].
    intro E. apply app_eq_nil in E as [_ E]. discriminate E.
  - destruct (qa_mcast_last_second qa); [apply inset_nil in X; destruct X|].
    intro E. apply app_eq_nil in E as [_ E]. apply app_eq_nil in E as [_ E]. discriminate E.
Qed.

(* a message with o_multicast = false never carries the cache-flush / QU bit *)
Theorem unicast_class_without_flush_bit : forall st r,
  write_record_class false st r = write_short st (DNSEntry_class_ r).
Proof. intros st r. unfold write_record_class. cbv zeta. rewrite andb_false_r. reflexivity. Qed.

(* ================= 3. QU question, port 5353, no probe ================= *)
Theorem qu_routing : forall g c m q qa,
  qm_questions m = [q] -> DNSEntry_unique q = true -> qm_is_probe m = false ->
  response g c [m] C_MDNS_PORT = Some qa ->
  qa_mcast_aggregate qa = [] /\ qa_mcast_last_second qa = [] /\
  forall r, In r (answers_of g [m] q) ->
    (recent c (qm_now m) r = true ->
       inset r (qa_ucast qa) /\ ~ inset r (qa_mcast_now qa) /\
       ~ inset r (qa_mcast_aggregate qa) /\ ~ inset r (qa_mcast_last_second qa)) /\
    (recent c (qm_now m) r = false ->
       inset r (qa_mcast_now qa) /\ ~ inset r (qa_ucast qa)).
Proof.
  intros g c m q qa Hq Hu Hp H. change (response g c [m] C_MDNS_PORT) with (async_response g c [m] false) in H.
  pose proof (single_routing g c m q false qa Hq H) as R. rewrite Hp in R.
  unfold to_ucast, to_now, to_aggregate, to_last_second, qu_path in R. rewrite Hu in R. cbn [negb andb] in R.
  split; [|split].
  - apply inset_none_nil. intros a X. destruct (R a) as (_ & _ & A & _). apply A in X. tauto.
  - apply inset_none_nil. intros a X. destruct (R a) as (_ & _ & _ & L). apply L in X. tauto.
  - intros r Hr. pose proof (has_in _ _ Hr) as Hh. destruct (R r) as (U & N & A & L). split; intro Hrec.
    + rewrite U, N, A, L, Hrec. intuition congruence.
    + rewrite U, N, Hrec. intuition congruence.
Qed.

(* ================= 4. probes ================= *)
(* As sketched (no condition on the source port) the statement is false: see probe_routing_refuted below.
   It holds for queries from port 5353. *)
Theorem probe_routing_partial : forall g c m q qa,
  qm_questions m = [q] -> qm_is_probe m = true ->
  response g c [m] C_MDNS_PORT = Some qa ->
  qa_mcast_aggregate qa = [] /\ qa_mcast_last_second qa = [] /\
  (DNSEntry_unique q = true ->
     forall r, In r (answers_of g [m] q) ->
       inset r (qa_ucast qa) /\ (inset r (qa_mcast_now qa) <-> recent c (qm_now m) r = false)) /\
  (DNSEntry_unique q = false ->
     qa_ucast qa = [] /\ forall r, In r (answers_of g [m] q) -> inset r (qa_mcast_now qa)).
Proof.
  intros g c m q qa Hq Hp H. change (response g c [m] C_MDNS_PORT) with (async_response g c [m] false) in H.
  pose proof (single_routing g c m q false qa Hq H) as R. rewrite Hp in R.
  unfold to_ucast, to_now, to_aggregate, to_last_second, qu_path in R. cbn [negb andb] in R.
  split; [|split; [|split]].
  - apply inset_none_nil. intros a X. destruct (R a) as (_ & _ & A & _). apply A in X.
    destruct (DNSEntry_unique q); [tauto|]. destruct X as (_ & X & _). discriminate X.
  - apply inset_none_nil. intros a X. destruct (R a) as (_ & _ & _ & L). apply L in X.
    destruct (DNSEntry_unique q); [tauto|]. destruct X as (_ & X & _). discriminate X.
  - intros Hu r Hr. rewrite Hu in R. pose proof (has_in _ _ Hr) as Hh. destruct (R r) as (U & N & _ & _).
    rewrite U, N. tauto.
  - intros Hu. rewrite Hu in R. split.
    + apply inset_none_nil. intros a X. destruct (R a) as (U & _ & _ & _). apply U in X.
      destruct X as (_ & X). discriminate X.
    + intros r Hr. pose proof (has_in _ _ Hr) as Hh. destruct (R r) as (_ & N & _ & _). rewrite N. tauto.
Qed.

(* what a probe from a legacy port gets: every answer both by unicast and by immediate multicast, QU or not *)
Theorem probe_routing_legacy : forall g c m q qa port,
  port <> C_MDNS_PORT -> qm_questions m = [q] -> qm_is_probe m = true ->
  response g c [m] port = Some qa ->
  qa_mcast_aggregate qa = [] /\ qa_mcast_last_second qa = [] /\
  forall r, In r (answers_of g [m] q) -> inset r (qa_ucast qa) /\ inset r (qa_mcast_now qa).
Proof.
  intros g c m q qa port Hport Hq Hp H.
  assert (Hs : negb (port =? C_MDNS_PORT) = true).
  { apply negb_true_iff. apply Z.eqb_neq. exact Hport. }
  unfold response in H. rewrite Hs in H.
  pose proof (single_routing g c m q true qa Hq H) as R. rewrite Hp in R.
  unfold to_ucast, to_now, to_aggregate, to_last_second, qu_path in R. cbn [negb andb] in R.
  split; [|split].
  - apply inset_none_nil. intros a X. destruct (R a) as (_ & _ & A & _). apply A in X.
    destruct X as (_ & X & _). discriminate X.
  - apply inset_none_nil. intros a X. destruct (R a) as (_ & _ & _ & L). apply L in X.
    destruct X as (_ & X & _). discriminate X.
  - intros r Hr. pose proof (has_in _ _ Hr) as Hh. destruct (R r) as (U & N & _ & _). rewrite U, N. tauto.
Qed.

(* the counterexample: one registered service "n" (type "t", host "h"), a probe packet asking SRV "n" from port 5354 *)
Definition px_qm : pyrec := blank KQuestion [110] C_TYPE_SRV C_CLASS_IN 0.
Definition px_qu : pyrec := blank KQuestion [110] C_TYPE_SRV C_CLASS_IN_UNIQUE 0.
Definition px_m (q : pyrec) : qmsg := {| qm_questions := [q]; qm_answers := []; qm_is_probe := true; qm_now := 1 |}.
(* a cache that saw the SRV record on the wire at time 0 (ttl 120 s: recent until 30000 ms) *)
Definition px_cache : cache := fst (cache_add empty_cache (dns_service cx_s)).
Definition px_sets (o : option question_answers) : list (list pyrec) :=
  match o with
  | None => []
  | Some qa => [keys (qa_ucast qa); keys (qa_mcast_now qa); keys (qa_mcast_aggregate qa); keys (qa_mcast_last_second qa)]
  end.

Eval vm_compute in (DNSEntry_unique px_qm, DNSEntry_unique px_qu, answers_of cx_g [px_m px_qm] px_qm,
                    recent px_cache 1 (dns_service cx_s)).
Eval vm_compute in px_sets (response cx_g empty_cache [px_m px_qm] 5354).
Eval vm_compute in px_sets (response cx_g px_cache [px_m px_qu] 5354).

(* QM probe, legacy port: the unicast set is not empty *)
Example px_qm_legacy :
  DNSEntry_unique px_qm = false /\ answers_of cx_g [px_m px_qm] px_qm = [dns_service cx_s] /\
  px_sets (response cx_g empty_cache [px_m px_qm] 5354) = [[dns_service cx_s]; [dns_service cx_s]; []; []].
Proof. vm_compute. repeat split. Qed.

(* QU probe, legacy port: a recently multicast answer is multicast again *)
Example px_qu_legacy :
  DNSEntry_unique px_qu = true /\ answers_of cx_g [px_m px_qu] px_qu = [dns_service cx_s] /\
  recent px_cache 1 (dns_service cx_s) = true /\
  px_sets (response cx_g px_cache [px_m px_qu] 5354) = [[dns_service cx_s]; [dns_service cx_s]; []; []].
Proof. vm_compute. repeat split. Qed.

(* the same two queries from port 5353, for comparison *)
Example px_qm_5353 :
  px_sets (response cx_g empty_cache [px_m px_qm] 5353) = [[]; [dns_service cx_s]; []; []].
Proof. vm_compute. reflexivity. Qed.
Example px_qu_5353 :
  px_sets (response cx_g px_cache [px_m px_qu] 5353) = [[dns_service cx_s]; []; []; []].
Proof. vm_compute. reflexivity. Qed.

Theorem probe_routing_refuted :
  ~ (forall g c m q qa port,
       qm_questions m = [q] -> qm_is_probe m = true -> response g c [m] port = Some qa ->
       (DNSEntry_unique q = true ->
          forall r, In r (answers_of g [m] q) ->
            inset r (qa_ucast qa) /\ (inset r (qa_mcast_now qa) <-> recent c (qm_now m) r = false)) /\
       (DNSEntry_unique q = false ->
          qa_ucast qa = [] /\ forall r, In r (answers_of g [m] q) -> inset r (qa_mcast_now qa))).
Proof.
  intro H.
  destruct (response cx_g empty_cache [px_m px_qm] 5354) as [qa|] eqn:E; [|vm_compute in E; discriminate E].
  destruct (H cx_g empty_cache (px_m px_qm) px_qm qa 5354 eq_refl eq_refl E) as [_ H2].
  destruct (H2 eq_refl) as [H3 _].
  assert (X : px_sets (Some qa) = [[dns_service cx_s]; [dns_service cx_s]; []; []]).
  { rewrite <- E. vm_compute. reflexivity. }
  cbn [px_sets] in X. rewrite H3 in X. discriminate X.
Qed.

(* the QU half fails as well *)
Theorem probe_routing_qu_refuted :
  ~ (forall g c m q qa port,
       qm_questions m = [q] -> qm_is_probe m = true -> response g c [m] port = Some qa ->
       DNSEntry_unique q = true ->
       forall r, In r (answers_of g [m] q) -> (inset r (qa_mcast_now qa) <-> recent c (qm_now m) r = false)).
Proof.
  intro H.
  destruct (response cx_g px_cache [px_m px_qu] 5354) as [qa|] eqn:E; [|vm_compute in E; discriminate E].
  pose proof (H cx_g px_cache (px_m px_qu) px_qu qa 5354 eq_refl eq_refl E eq_refl (dns_service cx_s)) as H1.
  assert (HIn : In (dns_service cx_s) (answers_of cx_g [px_m px_qu] px_qu)) by (vm_compute; left; reflexivity).
  apply H1 in HIn. clear H1.
  assert (X : px_sets (Some qa) = [[dns_service cx_s]; [dns_service cx_s]; []; []]).
  { rewrite <- E. vm_compute. reflexivity. }
  cbn [px_sets] in X. injection X as _ X2 _ _.
  assert (R : recent px_cache (qm_now (px_m px_qu)) (dns_service cx_s) = true) by (vm_compute; reflexivity).
  rewrite R in HIn. destruct HIn as [HIn _].
  assert (F : true = false); [|discriminate F].
  apply HIn. unfold inset. rewrite X2. apply has_in. left. reflexivity.
Qed.

(* ================= 5. QM question, port 5353, no probe ================= *)
Theorem qm_routing : forall g c m q qa,
  qm_questions m = [q] -> DNSEntry_unique q = false -> qm_is_probe m = false ->
  response g c [m] C_MDNS_PORT = Some qa ->
  qa_ucast qa = [] /\
  forall r, In r (answers_of g [m] q) -> only_in r qa (qm_class c (qm_now m) q r).
Proof.
  intros g c m q qa Hq Hu Hp H. change (response g c [m] C_MDNS_PORT) with (async_response g c [m] false) in H.
  pose proof (single_routing g c m q false qa Hq H) as R. rewrite Hp in R.
  unfold to_ucast, to_now, to_aggregate, to_last_second, qu_path in R. rewrite Hu in R. cbn [negb andb] in R.
  change (immediate [q]) with (respond_immediate (p_type_ q)) in R.
  split.
  - apply inset_none_nil. intros a X. destruct (R a) as (U & _ & _ & _). apply U in X.
    destruct X as (_ & X). discriminate X.
  - intros r Hr s'. pose proof (has_in _ _ Hr) as Hh. destruct (R r) as (_ & N & A & L). unfold qm_class.
    destruct s'; cbn [mset_of]; rewrite ?N, ?A, ?L;
      destruct (last_second c (qm_now m) r), (respond_immediate (p_type_ q));
      intuition (try discriminate; try congruence).
Qed.

(* qm_routing, spelled out *)
Corollary qm_routing_cases : forall g c m q qa r,
  qm_questions m = [q] -> DNSEntry_unique q = false -> qm_is_probe m = false ->
  response g c [m] C_MDNS_PORT = Some qa -> In r (answers_of g [m] q) ->
  (last_second c (qm_now m) r = true ->
     inset r (qa_mcast_last_second qa) /\ ~ inset r (qa_mcast_now qa) /\ ~ inset r (qa_mcast_aggregate qa)) /\
  (last_second c (qm_now m) r = false -> respond_immediate (p_type_ q) = true ->
     inset r (qa_mcast_now qa) /\ ~ inset r (qa_mcast_aggregate qa) /\ ~ inset r (qa_mcast_last_second qa)) /\
  (last_second c (qm_now m) r = false -> respond_immediate (p_type_ q) = false ->
     inset r (qa_mcast_aggregate qa) /\ ~ inset r (qa_mcast_now qa) /\ ~ inset r (qa_mcast_last_second qa)).
Proof.
  intros g c m q qa r Hq Hu Hp H Hr.
  destruct (qm_routing g c m q qa Hq Hu Hp H) as [_ O]. specialize (O r Hr). unfold only_in, qm_class in O.
  pose proof (O MNow) as ON. pose proof (O MAggregate) as OA. pose proof (O MLastSecond) as OL.
  cbn [mset_of] in ON, OA, OL. clear O.
  split; [|split].
  - intro LS. rewrite LS in *. rewrite ON, OA, OL. repeat split; congruence.
  - intros LS RI. rewrite LS, RI in *. rewrite ON, OA, OL. repeat split; congruence.
  - intros LS RI. rewrite LS, RI in *. rewrite ON, OA, OL. repeat split; congruence.
Qed.

(* ================= 6. the multicast message ================= *)
Theorem multicast_format : forall a, let m := construct_multicast a in
  o_id m = 0 /\ o_flags m = 33792 /\ o_multicast m = true /\ o_questions m = [] /\ o_authorities m = [] /\
  o_answers m = map (fun r => (r, 0)) (keys a).
Proof. intro a. cbv zeta. repeat split. Qed.

Lemma lor_flush_bit c : 0 <= c < 32768 -> Z.lor c C_CLASS_UNIQUE = c + 32768.
Proof.
  intro Hc. change C_CLASS_UNIQUE with 32768.
  assert (L : Z.land c 32768 = 0).
  { apply Z.eqb_eq. change 32768 with (2 ^ 15). rewrite land_pow2_eq0 by lia. rewrite testbit15 by lia.
    replace (c / 32768) with 0 by lia. reflexivity. }
  rewrite <- (Z.lxor_lor _ _ L). symmetry. apply Z.add_nocarry_lxor. exact L.
Qed.

(* with o_multicast = true the class is written with the top bit (cache-flush) set iff the record is unique *)
Theorem multicast_class_flush_bit : forall st r,
  0 <= DNSEntry_class_ r < 32768 /\
  write_record_class true st r = write_short st (DNSEntry_class_ r + (if DNSEntry_unique r then 32768 else 0)) /\
  Z.testbit (DNSEntry_class_ r + (if DNSEntry_unique r then 32768 else 0)) 15 = DNSEntry_unique r.
Proof.
  intros st r.
  assert (Hc : 0 <= DNSEntry_class_ r < 32768).
  { unfold DNSEntry_class_. rewrite class_mask_mod. lia. }
  split; [exact Hc|]. split.
  - unfold write_record_class. cbv zeta. rewrite andb_true_r. destruct (DNSEntry_unique r).
    + rewrite (lor_flush_bit _ Hc). reflexivity.
    + rewrite Z.add_0_r. reflexivity.
  - destruct (DNSEntry_unique r); rewrite testbit15 by lia.
    + replace ((DNSEntry_class_ r + 32768) / 32768) with 1 by lia. reflexivity.
    + replace ((DNSEntry_class_ r + 0) / 32768) with 0 by lia. reflexivity.
Qed.

(* which records of a registered service carry the bit *)
Theorem service_record_flush_bits : forall s,
  DNSEntry_unique (dns_pointer s) = false /\
  DNSEntry_unique (dns_service s) = true /\
  DNSEntry_unique (dns_text s) = true /\
  (forall r, In r (dns_addresses s) -> p_class_ r = C_CLASS_IN_UNIQUE /\ DNSEntry_unique r = true) /\
  (forall missing, p_class_ (dns_nsec s missing) = C_CLASS_IN_UNIQUE /\ DNSEntry_unique (dns_nsec s missing) = true) /\
  (forall t, DNSEntry_unique (enum_pointer t) = false).
Proof.
  intro s.
  assert (A : forall r, In r (dns_addresses s) -> p_class_ r = C_CLASS_IN_UNIQUE /\ DNSEntry_unique r = true).
  { intros r Hr. unfold dns_addresses in Hr.
    apply in_app_or in Hr as [Hr|Hr]; apply in_map_iff in Hr as (x & <- & _); split; reflexivity. }
  split; [reflexivity|]. split; [reflexivity|]. split; [reflexivity|]. split; [exact A|].
  split; [intro missing; split; reflexivity|intro t; reflexivity].
Qed.

Print Assumptions recent_spec.
Print Assumptions last_second_spec.
Print Assumptions recent_last_second_identity.
Print Assumptions response_routing.
Print Assumptions legacy_unicast.
Print Assumptions unicast_class_without_flush_bit.
Print Assumptions qu_routing.
Print Assumptions probe_routing_partial.
Print Assumptions probe_routing_legacy.
Print Assumptions probe_routing_refuted.
Print Assumptions probe_routing_qu_refuted.
Print Assumptions qm_routing.
Print Assumptions qm_routing_cases.
Print Assumptions multicast_format.
Print Assumptions multicast_class_flush_bit.
Print Assumptions service_record_flush_bits.
Print Assumptions no_action_without_answers.
Print Assumptions no_strategy_no_action.
