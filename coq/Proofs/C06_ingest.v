(* C06: what one response datagram does to the cache (RecordManager.async_updates_from_response),
   stated on the flat view with the vocabulary of Spec/IngestSpec.v. *)
From ZC Require Import Model.Base Model.PyRec Model.Dict Model.Re Model.Cache Model.Ingest Gen.Const Gen.DnsPure
  Spec.CacheSpec Spec.IngestSpec.
From ZC Require Import Proofs.C20_identity Proofs.C05_index Proofs.C05_cache Proofs.C06_lemmas.

(* ------------------------------------------------------------------ *)
(* the stages of ingest *)

Definition phase1 (now : Z) (answers : list pyrec) (c : cache) : cache :=
  mark_unique (a_cache (loop now c answers)) (a_unique (loop now c answers)) (map apply_ptr_floor answers) now.

Definition adds (now : Z) (answers : list pyrec) (c : cache) : list pyrec :=
  a_address_adds (loop now c answers) ++ a_other_adds (loop now c answers).

Definition phase2 (now : Z) (answers : list pyrec) (c : cache) : cache :=
  fst (cache_add_records (phase1 now answers c) (adds now answers c)).

Lemma ingest_unfold now answers c :
  i_phase1 (ingest now answers c) = phase1 now answers c /\
  i_updates (ingest now answers c) = a_updates (loop now c answers) /\
  i_called (ingest now answers c) = nonempty (a_updates (loop now c answers)) /\
  i_final (ingest now answers c)
  = if nonempty (a_removes (loop now c answers))
    then cache_remove_records (phase2 now answers c) (a_removes (loop now c answers))
    else Ok (phase2 now answers c).
Proof.
  unfold ingest. cbv zeta.
  match goal with |- context [fold_left (ingest_one now) answers ?z] =>
    change (fold_left (ingest_one now) answers z) with (loop now c answers) end.
  assert (Ec1 : (if nonempty (a_unique (loop now c answers))
                 then mark_unique (a_cache (loop now c answers)) (a_unique (loop now c answers))
                        (map apply_ptr_floor answers) now
                 else a_cache (loop now c answers)) = phase1 now answers c).
  { unfold phase1. destruct (a_unique (loop now c answers)); reflexivity. }
  rewrite Ec1.
  destruct (nonempty (a_other_adds (loop now c answers)) || nonempty (a_address_adds (loop now c answers))) eqn:NE.
  - destruct (cache_add_records (phase1 now answers c) (a_address_adds (loop now c answers))) as [ca n1] eqn:Ea.
    destruct (cache_add_records ca (a_other_adds (loop now c answers))) as [cb n2] eqn:Eb.
    cbn [i_phase1 i_updates i_called i_final].
    assert (Ecb : cb = phase2 now answers c).
    { unfold phase2, adds. rewrite car_app, Ea. cbn [fst]. rewrite Eb. reflexivity. }
    rewrite Ecb. repeat split; reflexivity.
  - cbn [i_phase1 i_updates i_called i_final].
    assert (Ecb : phase1 now answers c = phase2 now answers c).
    { unfold phase2, adds.
      destruct (a_other_adds (loop now c answers)), (a_address_adds (loop now c answers)); try discriminate NE.
      reflexivity. }
    rewrite <- Ecb. repeat split; reflexivity.
Qed.

Lemma final_tail c2 rem : Inv c2 -> distinct_idents rem -> (forall r, In r rem -> has c2 r) ->
  exists c', (if nonempty rem then cache_remove_records c2 rem else Ok c2) = Ok c' /\ Inv c' /\
     flat c' = filter (fun x => negb (existsb (fun y => gen_eq x y) rem)) (flat c2).
Proof.
  intros Hinv Hd Hh. destruct rem as [|r rem].
  - exists c2. split; [reflexivity|]. split; [exact Hinv|]. symmetry. apply filter_all_true. reflexivity.
  - cbn [nonempty]. apply remove_records_ok; assumption.
Qed.

(* what the whole datagram does to a record that was cached before, as seen in phase 1 *)
Definition hfun (now : Z) (answers : list pyrec) (x : pyrec) : pyrec :=
  mk now (map floorr answers) (map triple (filter DNSEntry_unique (map floorr answers))) (refresh now answers x).

Lemma gen_eq_h_l now answers x y : gen_eq (hfun now answers x) y = gen_eq x y.
Proof. unfold hfun. rewrite gen_eq_mk_l. apply gen_eq_refresh_l. Qed.

Lemma gen_eq_h_r now answers x y : gen_eq y (hfun now answers x) = gen_eq y x.
Proof. rewrite eq_sym_, gen_eq_h_l. apply eq_sym_. Qed.

Lemma mark_cond answers x :
  existsb (fun u => pu u x) (map triple (filter DNSEntry_unique (map floorr answers)))
  = existsb (fun a => DNSEntry_unique a && text_eqb (lower (p_name a)) (rkey x)
                      && (p_type_ a =? p_type_ x) && (DNSEntry_class_ a =? DNSEntry_class_ x)) answers.
Proof.
  rewrite existsb_map_, existsb_filter_, existsb_map_. apply existsb_ext_in_. intros a _.
  unfold pu, triple, details_match, DNSEntry_type. cbv beta iota.
  rewrite floor_unique, floor_name, floor_type, floor_class, (text_eqb_sym (rkey x)), !andb_assoc.
  reflexivity.
Qed.

Lemma listed_floor answers x : existsb (fun a => gen_eq a x) (map floorr answers) = listed answers x.
Proof.
  rewrite existsb_map_. unfold listed. apply existsb_ext_in_. intros a _. apply gen_eq_floor_l.
Qed.

Lemma h_lifetime now answers x :
  lifetime (hfun now answers x)
  = match last_nonzero answers x with
    | Some a => (now, p_ttl (floorr a))
    | None => if negb (listed answers x) && flushed now answers x then (now, 1) else lifetime x
    end.
Proof.
  unfold hfun, refresh. destruct (last_nonzero answers x) as [a|] eqn:L.
  - unfold mk. rewrite gcond_sl, andb_false_r. reflexivity.
  - unfold mk. rewrite mark_cond. unfold gcond. rewrite listed_floor. unfold flushed.
    change (now - DNSRecord_created x >? C_ONE_SECOND) with (now - p_created x >? 1000).
    destruct (existsb _ answers), (now - p_created x >? 1000), (listed answers x); reflexivity.
Qed.

Lemma has_goodbye_congr answers y r : gen_eq y r = true -> has_goodbye answers y = has_goodbye answers r.
Proof.
  intro E. unfold has_goodbye. apply existsb_ext_in_. intros a _. rewrite (gen_eq_congr_r a y r E). reflexivity.
Qed.

(* ------------------------------------------------------------------ *)
Section Stages.
  Variables (now : Z) (answers : list pyrec) (c : cache).
  Hypothesis HInv : Inv c.
  Hypothesis Hwf : wf_answers now answers.

  Lemma phase1_flat :
    Inv (phase1 now answers c) /\ flat (phase1 now answers c) = map (hfun now answers) (flat c).
  Proof using HInv Hwf.
    destruct (loop_cache now c HInv answers Hwf) as [Hia Hfa].
    unfold phase1.
    destruct (mark_unique_flat now (map apply_ptr_floor answers) (a_unique (loop now c answers))
                (a_cache (loop now c answers)) Hia) as [I1 F1].
    split; [exact I1|]. rewrite F1, Hfa, map_map, loop_unique. reflexivity.
  Qed.

  Lemma adds_eq :
    adds now answers c
    = filter isaddr (news c answers) ++ filter (fun r => negb (isaddr r)) (news c answers).
  Proof using HInv Hwf.
    unfold adds. destruct (loop_adds now c HInv answers Hwf) as [Ha Ho]. rewrite Ha, Ho. reflexivity.
  Qed.

  Lemma in_adds r : In r (adds now answers c) ->
    exists a0, In a0 answers /\ r = floorr a0 /\ p_ttl a0 <> 0 /\ in_cache c a0 = false.
  Proof using HInv Hwf.
    rewrite adds_eq. intro H.
    assert (Hn : In r (news c answers)).
    { apply in_app_or in H as [H|H]; apply filter_In in H as [H _]; exact H. }
    unfold news in Hn. apply filter_In in Hn as [Hm Hn]. apply in_map_iff in Hm as [a0 [E Ha0]].
    exists a0. split; [exact Ha0|]. split; [symmetry; exact E|]. subst r.
    unfold isnew in Hn. apply andb_true_iff in Hn as [H1 H2].
    rewrite floor_ttl0 in H1. apply negb_true_iff, Z.eqb_neq in H1.
    apply negb_true_iff in H2. rewrite in_cache_floor in H2 by exact HInv. split; assumption.
  Qed.

  Lemma phase2_inv : Inv (phase2 now answers c).
  Proof using HInv Hwf. unfold phase2. apply car_inv. apply phase1_flat. Qed.

  Lemma phase2_in y :
    In y (flat (phase2 now answers c)) <->
    (In y (flat (phase1 now answers c)) /\ forall r, In r (adds now answers c) -> gen_eq y r = false) \/
    find (fun r => gen_eq r y) (rev (adds now answers c)) = Some y.
  Proof using HInv Hwf. unfold phase2. apply car_in. apply phase1_flat. Qed.

  Lemma final_flat :
    exists c', i_final (ingest now answers c) = Ok c' /\ Inv c' /\
      flat c' = filter (fun x => negb (existsb (fun y => gen_eq x y) (a_removes (loop now c answers))))
                       (flat (phase2 now answers c)).
  Proof using HInv Hwf.
    destruct (ingest_unfold now answers c) as [_ [_ [_ Ef]]]. rewrite Ef.
    destruct (loop_LI now c HInv answers) as [Hia [Hda Hha]].
    assert (G0 : Good (a_cache (loop now c answers)) (a_removes (loop now c answers))) by (split; assumption).
    assert (G1 : Good (phase1 now answers c) (a_removes (loop now c answers))).
    { unfold phase1. apply good_mark_unique. exact G0. }
    assert (G2 : Good (phase2 now answers c) (a_removes (loop now c answers))).
    { unfold phase2. apply good_add_records. exact G1. }
    destruct G2 as [I2 H2]. apply final_tail; assumption.
  Qed.

  (* a record cached before and not withdrawn by the datagram survives, in its phase-1 state *)
  Lemma kept c' x :
    flat c' = filter (fun x => negb (existsb (fun y => gen_eq x y) (a_removes (loop now c answers))))
                     (flat (phase2 now answers c)) ->
    In x (flat c) -> has_goodbye answers x = false -> In (hfun now answers x) (flat c').
  Proof using HInv Hwf.
    intros F' Hx Hg. rewrite F'. apply filter_In. split.
    - apply phase2_in. left. split.
      + destruct phase1_flat as [_ F1]. rewrite F1. apply in_map. exact Hx.
      + intros r Hr. destruct (in_adds r Hr) as [a0 [Ha0 [Er [_ Hin]]]]. subst r.
        rewrite gen_eq_h_l, gen_eq_floor_r.
        apply (in_cache_false_not c a0 x HInv Hin Hx).
    - apply negb_true_iff. apply existsb_false_. intros z Hz.
      destruct (loop_removes now c HInv answers Hwf) as [R1 _].
      destruct (R1 z Hz) as [g [Hg1 [Eg [Tg _]]]].
      rewrite gen_eq_h_l. destruct (gen_eq x z) eqn:E; [|reflexivity]. exfalso.
      assert (C : has_goodbye answers x = true).
      { unfold has_goodbye. apply existsb_exists. exists g. split; [exact Hg1|].
        rewrite (gen_eq_congr_r g x z E), Eg. apply Z.eqb_eq in Tg. rewrite Tg. reflexivity. }
      congruence.
  Qed.

  Lemma in_final_phase2 c' y :
    flat c' = filter (fun x => negb (existsb (fun y => gen_eq x y) (a_removes (loop now c answers))))
                     (flat (phase2 now answers c)) ->
    In y (flat c') -> In y (flat (phase2 now answers c)).
  Proof using. intros F' Hy. rewrite F' in Hy. apply filter_In in Hy as [Hy _]. exact Hy. Qed.

  (* an element of the final cache comes from the old cache or is the surviving add for its identity *)
  Lemma phase2_origin y : In y (flat (phase2 now answers c)) ->
    (exists x, In x (flat c) /\ y = hfun now answers x) \/
    (in_cache c y = false -> option_map floorr (last_nonzero answers y) = Some y) /\
    In y (adds now answers c).
  Proof using HInv Hwf.
    intro Hy. apply phase2_in in Hy as [[Hy _]|Hy].
    - left. destruct phase1_flat as [_ F1]. rewrite F1 in Hy. apply in_map_iff in Hy as [x [E Hx]].
      exists x. split; [exact Hx|symmetry; exact E].
    - right. split.
      + intro Hin. rewrite <- (adds_find c answers y HInv Hin), <- adds_eq. exact Hy.
      + apply find_some in Hy as [Hy _]. apply in_rev. exact Hy.
  Qed.
End Stages.

(* ------------------------------------------------------------------ *)
Section Ingest.
  Variables (now : Z) (answers : list pyrec) (c : cache).
  Hypothesis HInv : Inv c.
  Hypothesis Hwf : wf_answers now answers.      (* created = now, 0 <= ttl < 2^32, kind <> KQuestion *)
  Local Notation R := (ingest now answers c).

  (* never raises; ends in a well-formed cache *)
  Theorem ingest_total : exists c', i_final R = Ok c' /\ Inv c'.
  Proof using HInv Hwf.
    destruct (final_flat now answers c HInv Hwf) as [c' [E [H _]]]. exists c'. split; assumption.
  Qed.

  (* each record with non-zero TTL ends up cached with creation time = arrival time and the received
     TTL (PTR raised to the floor), namely that of its last non-zero occurrence - unless it was cached
     before and the datagram also withdraws it *)
  Theorem ingest_cached : forall c' r, i_final R = Ok c' -> In r answers -> p_ttl r <> 0 ->
    (in_cache c r = true -> has_goodbye answers r = false) ->
    exists x a, async_get_unique c' r = Some x /\ last_nonzero answers r = Some a /\
                p_created x = now /\ p_ttl x = p_ttl (floorr a).
  Proof using HInv Hwf.
    intros c' r Ef Hr Tr Hgb.
    destruct (final_flat now answers c HInv Hwf) as [c1 [E1 [Hinv' F']]].
    rewrite Ef in E1. inversion E1; subst c1. clear E1.
    destruct (last_nonzero_exists answers r r Hr (eq_refl_ r) Tr) as [a La].
    destruct (in_cache c r) eqn:Hin.
    - (* refreshed in place *)
      apply in_cache_has in Hin. destruct Hin as [y [Hy Ey]].
      assert (Gy : has_goodbye answers y = false).
      { rewrite (has_goodbye_congr answers y r Ey). apply Hgb. reflexivity. }
      pose proof (kept now answers c HInv Hwf c' y F' Hy Gy) as Hk.
      exists (hfun now answers y), a. split.
      + apply get_unique_eq; [exact Hinv'|exact Hk|]. rewrite gen_eq_h_l. exact Ey.
      + split; [exact La|].
        pose proof (h_lifetime now answers y) as HL.
        rewrite (last_nonzero_congr answers y r Ey), La in HL. unfold lifetime in HL.
        split; [exact (f_equal fst HL)|exact (f_equal snd HL)].
    - (* added *)
      pose proof (last_nonzero_some answers r a La) as [Ha [Ea Ta]].
      assert (Ex : gen_eq (floorr a) r = true) by (rewrite gen_eq_floor_l; exact Ea).
      assert (Hinx : in_cache c (floorr a) = false).
      { rewrite (in_cache_congr c (floorr a) r HInv Ex). exact Hin. }
      exists (floorr a), a. split; [|split; [exact La|split; [|reflexivity]]].
      + apply get_unique_eq; [exact Hinv'| |exact Ex].
        rewrite F'. apply filter_In. split.
        * apply (phase2_in now answers c HInv Hwf). right.
          rewrite (adds_eq now answers c HInv Hwf), (adds_find c answers (floorr a) HInv Hinx).
          rewrite (last_nonzero_congr answers (floorr a) r Ex), La. reflexivity.
        * apply negb_true_iff. apply existsb_false_. intros z Hz.
          destruct (loop_removes now c HInv answers Hwf) as [R1 _].
          destruct (R1 z Hz) as [g [Hg1 [Eg [_ Ig]]]].
          destruct (gen_eq (floorr a) z) eqn:E; [|reflexivity]. exfalso.
          assert (Egx : gen_eq g (floorr a) = true).
          { rewrite (gen_eq_congr_r g (floorr a) z E). exact Eg. }
          rewrite (in_cache_congr c g (floorr a) HInv Egx) in Ig. congruence.
      + rewrite floor_created. destruct (Hwf a Ha) as [Hc _]. exact Hc.
  Qed.

  (* each zero-TTL record that was cached is removed; one that was not cached has no effect by itself *)
  Theorem ingest_goodbye : forall c' r, i_final R = Ok c' -> has_goodbye answers r = true ->
    in_cache c r = true -> in_cache c' r = false.
  Proof using HInv Hwf.
    intros c' r Ef Hg Hin.
    destruct (final_flat now answers c HInv Hwf) as [c1 [E1 [Hinv' F']]].
    rewrite Ef in E1. inversion E1; subst c1. clear E1.
    destruct (in_cache c' r) eqn:Hin'; [|reflexivity]. exfalso.
    apply in_cache_has in Hin'. destruct Hin' as [y [Hy Ey]].
    rewrite F' in Hy. apply filter_In in Hy as [_ Hy]. apply negb_true_iff in Hy.
    unfold has_goodbye in Hg. apply existsb_exists in Hg as [g [Hg1 Hg2]].
    apply andb_true_iff in Hg2 as [Eg Tg]. apply Z.eqb_eq in Tg.
    destruct (loop_removes now c HInv answers Hwf) as [_ R2].
    assert (Ig : in_cache c g = true) by (rewrite (in_cache_congr c g r HInv Eg); exact Hin).
    pose proof (R2 g Hg1 Tg Ig) as X. apply existsb_exists in X as [z [Hz Ez]].
    assert (C : gen_eq y z = true).
    { rewrite (gen_eq_congr_l y r z Ey). rewrite eq_sym_.
      rewrite <- (gen_eq_congr_r z g r Eg). exact Ez. }
    rewrite (proj1 (existsb_false_ _ _) Hy z Hz) in C. discriminate.
  Qed.

  Theorem ingest_goodbye_uncached : forall c' r, i_final R = Ok c' -> in_cache c r = false ->
    last_nonzero answers r = None -> in_cache c' r = false.
  Proof using HInv Hwf.
    intros c' r Ef Hin Ln.
    destruct (final_flat now answers c HInv Hwf) as [c1 [E1 [Hinv' F']]].
    rewrite Ef in E1. inversion E1; subst c1. clear E1.
    destruct (in_cache c' r) eqn:Hin'; [|reflexivity]. exfalso.
    apply in_cache_has in Hin'. destruct Hin' as [y [Hy Ey]].
    apply (in_final_phase2 now answers c c' y F') in Hy.
    apply (phase2_origin now answers c HInv Hwf) in Hy as [[x [Hx E]]|[Hy _]].
    - subst y. rewrite gen_eq_h_l in Ey.
      rewrite (in_cache_false_not c r x HInv Hin Hx) in Ey. discriminate.
    - rewrite (in_cache_congr c y r HInv Ey) in Hy. specialize (Hy Hin).
      rewrite (last_nonzero_congr answers y r Ey), Ln in Hy. discriminate.
  Qed.

  (* every cached record not listed in the datagram stays cached; its lifetime becomes (now, 1) exactly
     when a cache-flush record of the same name/type/class is listed and it is older than one second,
     and is otherwise untouched *)
  Theorem ingest_others : forall c' x, i_final R = Ok c' -> In x (flat c) -> listed answers x = false ->
    exists x', async_get_unique c' x = Some x' /\
               lifetime x' = if flushed now answers x then (now, 1) else lifetime x.
  Proof using HInv Hwf.
    intros c' x Ef Hx Hl.
    destruct (final_flat now answers c HInv Hwf) as [c1 [E1 [Hinv' F']]].
    rewrite Ef in E1. inversion E1; subst c1. clear E1.
    assert (Gx : has_goodbye answers x = false).
    { unfold has_goodbye. apply existsb_false_. intros a Ha. unfold listed in Hl.
      rewrite (proj1 (existsb_false_ _ _) Hl a Ha). reflexivity. }
    exists (hfun now answers x). split.
    - apply get_unique_eq; [exact Hinv'|apply (kept now answers c HInv Hwf c' x F' Hx Gx)|].
      rewrite gen_eq_h_l. apply eq_refl_.
    - rewrite h_lifetime, (last_nonzero_none_unlisted answers x Hl), Hl. reflexivity.
  Qed.

  (* nothing is invented *)
  Theorem ingest_no_invention : forall c' x, i_final R = Ok c' -> In x (flat c') ->
    (exists y, In y (flat c) /\ gen_eq y x = true) \/
    (exists a, In a answers /\ gen_eq a x = true /\ p_ttl a <> 0).
  Proof using HInv Hwf.
    intros c' x Ef Hx.
    destruct (final_flat now answers c HInv Hwf) as [c1 [E1 [Hinv' F']]].
    rewrite Ef in E1. inversion E1; subst c1. clear E1.
    apply (in_final_phase2 now answers c c' x F') in Hx.
    apply (phase2_origin now answers c HInv Hwf) in Hx as [[y [Hy E]]|[_ Hx]].
    - left. exists y. split; [exact Hy|]. subst x. rewrite gen_eq_h_r. apply eq_refl_.
    - right. destruct (in_adds now answers c HInv Hwf x Hx) as [a0 [Ha0 [E [T _]]]].
      exists a0. split; [exact Ha0|]. split; [|exact T]. subst x. apply gen_eq_floor_self.
  Qed.

  (* the listener contract *)
  Theorem ingest_contract :
    i_called R = nonempty (i_updates R) /\
    map u_new (i_updates R) = reported now c answers /\                               (* datagram order *)
    (forall u, In u (i_updates R) -> (u_old u <> None <-> in_cache c (u_new u) = true)) /\   (* previous iff one existed *)
    (forall u e, In u (i_updates R) -> u_old u = Some e ->
       gen_eq e (u_new u) = true /\ exists y, In y (flat c) /\ gen_eq y e = true) /\
    (forall r, in_cache (i_phase1 R) r = in_cache c r).          (* phase 1: nothing added, nothing removed yet *)
  Proof using HInv Hwf.
    destruct (ingest_unfold now answers c) as [E1 [E2 [E3 _]]].
    destruct (loop_updates now c HInv answers Hwf) as [Hm Hok].
    rewrite E1, E2, E3. split; [reflexivity|]. split; [exact Hm|]. split; [|split].
    - intros u Hu. apply (Hok u Hu).
    - intros u e Hu He. apply (proj2 (Hok u Hu) e He).
    - intro r. destruct (phase1_flat now answers c HInv Hwf) as [I1 F1].
      rewrite (in_cache_flat _ r I1), (in_cache_flat c r HInv), F1, existsb_map_.
      apply existsb_ext_in_. intros x _. apply gen_eq_h_l.
  Qed.

  (* phase 1 already shows refreshed TTLs and flush marks *)
  Theorem ingest_phase1_lifetimes : forall x, In x (flat c) ->
    exists x1, async_get_unique (i_phase1 R) x = Some x1 /\
      lifetime x1 = match last_nonzero answers x with
                    | Some a => (now, p_ttl (floorr a))
                    | None => if negb (listed answers x) && flushed now answers x then (now, 1) else lifetime x
                    end.
  Proof using HInv Hwf.
    intros x Hx. destruct (ingest_unfold now answers c) as [E1 _]. rewrite E1.
    destruct (phase1_flat now answers c HInv Hwf) as [I1 F1].
    exists (hfun now answers x). split; [|apply h_lifetime].
    apply get_unique_eq; [exact I1|rewrite F1; apply in_map; exact Hx|].
    rewrite gen_eq_h_l. apply eq_refl_.
  Qed.
End Ingest.

Check ingest_total.
Check ingest_cached.
Check ingest_goodbye.
Check ingest_goodbye_uncached.
Check ingest_others.
Check ingest_no_invention.
Check ingest_contract.
Check ingest_phase1_lifetimes.

Print Assumptions ingest_total.
Print Assumptions ingest_cached.
Print Assumptions ingest_goodbye.
Print Assumptions ingest_goodbye_uncached.
Print Assumptions ingest_others.
Print Assumptions ingest_no_invention.
Print Assumptions ingest_contract.
Print Assumptions ingest_phase1_lifetimes.
