(* C03 (part 1): the ServiceRegistry invariant. The three indexes are kept in the ORDER of the
   flat service list, so the invariant used for the induction is an equality (bucket k = the
   keys of the services whose index key is k); RegInv follows from it. *)
From ZC Require Import Model.Base Model.PyRec Model.Dict Model.Re Model.Cache Model.Respond Gen.Const Gen.Extra Gen.DnsPure Spec.AnswerSpec.
From Coq Require Import Permutation.

(* ---- association lists keyed by text ---- *)
Lemma teqb_false (a b : text) : a <> b -> text_eqb a b = false.
Proof.
  intro H. destruct (text_eqb a b) eqn:E; [|reflexivity]. apply text_eqb_eq in E. contradiction.
Qed.

Lemma teqb_sym (a b : text) : text_eqb a b = text_eqb b a.
Proof.
  destruct (text_eqb a b) eqn:E.
  - apply text_eqb_eq in E. subst. symmetry. apply text_eqb_refl.
  - symmetry. apply teqb_false. intro H. subst. rewrite text_eqb_refl in E. discriminate.
Qed.

Section TD.
  Context {V : Type}.
  Implicit Types (d : list (text * V)).

  Lemma td_get_in d k v : d_get text_eqb d k = Some v -> In (k, v) d.
  Proof.
    induction d as [|[k0 v0] d IH]; cbn [d_get]; [discriminate|].
    destruct (text_eqb k0 k) eqn:E.
    - intro H. inversion H; subst. apply text_eqb_eq in E. subst. left. reflexivity.
    - intro H. right. apply IH. exact H.
  Qed.

  Lemma td_get_none d k : d_get text_eqb d k = None <-> ~ In k (map fst d).
  Proof.
    induction d as [|[k0 v0] d IH]; cbn [d_get map fst In].
    - split; [intros _ []|reflexivity].
    - destruct (text_eqb k0 k) eqn:E.
      + apply text_eqb_eq in E. subst. split; [discriminate|]. intro H. exfalso. apply H. left. reflexivity.
      + rewrite IH. split.
        * intros H [H1|H1]; [subst; rewrite text_eqb_refl in E; discriminate|contradiction].
        * intros H H1. apply H. right. exact H1.
  Qed.

  Lemma td_in_get d k v : NoDup (map fst d) -> In (k, v) d -> d_get text_eqb d k = Some v.
  Proof.
    induction d as [|[k0 v0] d IH]; cbn [d_get map fst In]; intros ND HIn; [contradiction|].
    inversion ND as [|? ? Hnot ND']; subst.
    destruct HIn as [HIn|HIn].
    - inversion HIn; subst. rewrite text_eqb_refl. reflexivity.
    - destruct (text_eqb k0 k) eqn:E.
      + apply text_eqb_eq in E. subst. exfalso. apply Hnot.
        change k with (fst (k, v)). apply in_map. exact HIn.
      + apply IH; assumption.
  Qed.

  Lemma td_get_set d k v k' :
    d_get text_eqb (d_set text_eqb d k v) k' = if text_eqb k k' then Some v else d_get text_eqb d k'.
  Proof.
    induction d as [|[k0 v0] d IH]; cbn [d_set d_get]; [reflexivity|].
    destruct (text_eqb k0 k) eqn:E; cbn [d_get].
    - apply text_eqb_eq in E. subst. destruct (text_eqb k k'); reflexivity.
    - rewrite IH. destruct (text_eqb k0 k') eqn:E1, (text_eqb k k') eqn:E2; try reflexivity.
      apply text_eqb_eq in E1, E2. subst. rewrite text_eqb_refl in E. discriminate.
  Qed.

  Lemma td_get_snoc d k v k' :
    d_get text_eqb (d ++ [(k, v)]) k' =
    match d_get text_eqb d k' with Some x => Some x | None => if text_eqb k k' then Some v else None end.
  Proof.
    induction d as [|[k0 v0] d IH]; cbn [app d_get]; [reflexivity|].
    destruct (text_eqb k0 k'); [reflexivity|exact IH].
  Qed.

  Lemma td_in_del d k x : In x (d_del text_eqb d k) -> In x d.
  Proof.
    induction d as [|[k0 v0] d IH]; cbn [d_del]; [intros []|].
    destruct (text_eqb k0 k).
    - intro H. right. exact H.
    - intros [H|H]; [left; exact H|right; apply IH; exact H].
  Qed.

  Lemma td_in_keys_del d k x : In x (map fst (d_del text_eqb d k)) -> In x (map fst d).
  Proof.
    intro H. apply in_map_iff in H as (y & Hy & HIn). apply in_map_iff. exists y. split; [exact Hy|].
    eapply td_in_del. exact HIn.
  Qed.

  Lemma td_nodup_del d k : NoDup (map fst d) -> NoDup (map fst (d_del text_eqb d k)).
  Proof.
    induction d as [|[k0 v0] d IH]; cbn [d_del map fst]; intro ND; [constructor|].
    inversion ND as [|? ? Hnot ND']; subst.
    destruct (text_eqb k0 k); [exact ND'|].
    cbn [map fst]. constructor; [|apply IH; exact ND'].
    intro H. apply Hnot. eapply td_in_keys_del. exact H.
  Qed.

  Lemma td_get_del d k k' :
    NoDup (map fst d) ->
    d_get text_eqb (d_del text_eqb d k) k' = if text_eqb k k' then None else d_get text_eqb d k'.
  Proof.
    induction d as [|[k0 v0] d IH]; cbn [d_del d_get map fst]; intro ND.
    - destruct (text_eqb k k'); reflexivity.
    - inversion ND as [|? ? Hnot ND']; subst.
      destruct (text_eqb k0 k) eqn:E.
      + apply text_eqb_eq in E. subst. destruct (text_eqb k k') eqn:E2; [|reflexivity].
        apply text_eqb_eq in E2. subst. apply td_get_none. exact Hnot.
      + cbn [d_get]. destruct (text_eqb k0 k') eqn:E3.
        * apply text_eqb_eq in E3. subst. rewrite teqb_sym, E. reflexivity.
        * apply IH. exact ND'.
  Qed.

  Lemma td_keys_set d k v : d_get text_eqb d k <> None -> map fst (d_set text_eqb d k v) = map fst d.
  Proof.
    induction d as [|[k0 v0] d IH]; cbn [d_set d_get map fst]; intro H; [contradiction|].
    destruct (text_eqb k0 k); cbn [map fst]; [reflexivity|]. f_equal. apply IH. exact H.
  Qed.

  Lemma td_nodup_snoc d k v : d_get text_eqb d k = None -> NoDup (map fst d) -> NoDup (map fst (d ++ [(k, v)])).
  Proof.
    intros G ND. rewrite map_app. cbn [map fst].
    apply td_get_none in G.
    induction (map fst d) as [|x l IH]; cbn [app].
    - constructor; [intros []|constructor].
    - inversion ND as [|? ? Hnot ND']; subst. constructor.
      + intro H. apply in_app_or in H as [H|[H|[]]]; [contradiction|]. subst. apply G. left. reflexivity.
      + apply IH; [|exact ND']. intro H. apply G. right. exact H.
  Qed.
End TD.

(* ---- the index invariant ---- *)
Definition bk (I : list (text * list text)) (k : text) : list text :=
  match d_get text_eqb I k with Some l => l | None => [] end.

Definition sel (kf : svc -> text) (k : text) (sv : list (text * svc)) : list text :=
  map fst (filter (fun ks => text_eqb (kf (snd ks)) k) sv).

Record IdxInv (kf : svc -> text) (I : list (text * list text)) (sv : list (text * svc)) : Prop := {
  ii_bk : forall k, bk I k = sel kf k sv;
  ii_ne : forall k, d_get text_eqb I k <> Some [];
  ii_nd : NoDup (map fst I)
}.

Lemma sel_snoc kf k sv n s :
  sel kf k (sv ++ [(n, s)]) = sel kf k sv ++ (if text_eqb (kf s) k then [n] else []).
Proof.
  unfold sel. rewrite filter_app, map_app. cbn [filter snd].
  destruct (text_eqb (kf s) k); reflexivity.
Qed.

Lemma sel_del kf k sv name old :
  d_get text_eqb sv name = Some old ->
  sel kf k (d_del text_eqb sv name) =
  if text_eqb (kf old) k then remove_first (sel kf k sv) name else sel kf k sv.
Proof.
  induction sv as [|[n0 s0] sv IH]; cbn [d_get d_del]; [discriminate|].
  destruct (text_eqb n0 name) eqn:E.
  - intro H. inversion H; subst. unfold sel. cbn [filter snd].
    destruct (text_eqb (kf old) k); [|reflexivity].
    cbn [map fst remove_first]. rewrite E. reflexivity.
  - intro H. specialize (IH H). unfold sel in *. cbn [filter snd].
    destruct (text_eqb (kf s0) k) eqn:E1; cbn [map fst].
    + rewrite IH. destruct (text_eqb (kf old) k); [|reflexivity].
      cbn [remove_first]. rewrite E. reflexivity.
    + exact IH.
Qed.

Lemma in_sel kf sv n s : In (n, s) sv -> In n (sel kf (kf s) sv).
Proof.
  intro H. unfold sel. change n with (fst (n, s)). apply in_map. apply filter_In. split; [exact H|].
  cbn [snd]. apply text_eqb_refl.
Qed.

Lemma idx_inv_empty kf : IdxInv kf [] [].
Proof. constructor; [reflexivity|discriminate|constructor]. Qed.

Lemma idx_append_inv kf I sv n s :
  IdxInv kf I sv -> IdxInv kf (idx_append I (kf s) n) (sv ++ [(n, s)]).
Proof.
  intros [Hbk Hne Hnd]. unfold idx_append. destruct (d_get text_eqb I (kf s)) as [l|] eqn:G.
  - constructor.
    + intro k. rewrite sel_snoc. unfold bk. rewrite td_get_set.
      destruct (text_eqb (kf s) k) eqn:E.
      * apply text_eqb_eq in E. subst k. rewrite <- Hbk. unfold bk. rewrite G. reflexivity.
      * rewrite app_nil_r. apply Hbk.
    + intro k. rewrite td_get_set. destruct (text_eqb (kf s) k); [|apply Hne].
      intro H. inversion H as [H1]. destruct l; discriminate H1.
    + rewrite td_keys_set; [exact Hnd|]. rewrite G. discriminate.
  - constructor.
    + intro k. rewrite sel_snoc. unfold bk. rewrite td_get_snoc.
      destruct (text_eqb (kf s) k) eqn:E.
      * apply text_eqb_eq in E. subst k. rewrite <- Hbk. unfold bk. rewrite G. reflexivity.
      * rewrite app_nil_r. rewrite <- Hbk. unfold bk. destruct (d_get text_eqb I k); reflexivity.
    + intro k. rewrite td_get_snoc. specialize (Hne k). destruct (d_get text_eqb I k) as [x|].
      * intro H. apply Hne. inversion H. reflexivity.
      * destruct (text_eqb (kf s) k); discriminate.
    + apply td_nodup_snoc; assumption.
Qed.

Lemma idx_remove_inv kf I sv name old :
  IdxInv kf I sv -> d_get text_eqb sv name = Some old ->
  IdxInv kf (idx_remove_name I (kf old) name) (d_del text_eqb sv name).
Proof.
  intros [Hbk Hne Hnd] G. unfold idx_remove_name.
  pose proof (Hbk (kf old)) as Hb0. unfold bk in Hb0.
  destruct (d_get text_eqb I (kf old)) as [l|] eqn:GI.
  - destruct (nonempty (remove_first l name)) eqn:NE.
    + constructor.
      * intro k. rewrite (sel_del kf k sv name old G). unfold bk. rewrite td_get_set.
        destruct (text_eqb (kf old) k) eqn:E.
        -- apply text_eqb_eq in E. subst k. rewrite Hb0. reflexivity.
        -- apply Hbk.
      * intro k. rewrite td_get_set. destruct (text_eqb (kf old) k); [|apply Hne].
        intro H. inversion H as [H1]. rewrite H1 in NE. discriminate.
      * rewrite td_keys_set; [exact Hnd|]. rewrite GI. discriminate.
    + constructor.
      * intro k. rewrite (sel_del kf k sv name old G). unfold bk. rewrite td_get_del by exact Hnd.
        destruct (text_eqb (kf old) k) eqn:E.
        -- apply text_eqb_eq in E. subst k. rewrite <- Hb0.
           destruct (remove_first l name); [reflexivity|discriminate].
        -- apply Hbk.
      * intro k. rewrite td_get_del by exact Hnd. destruct (text_eqb (kf old) k); [discriminate|apply Hne].
      * apply td_nodup_del. exact Hnd.
  - exfalso. apply td_get_in in G. apply (in_sel kf) in G. rewrite <- Hb0 in G. exact G.
Qed.

(* ---- the registry invariant used for the induction ---- *)
Definition J (g : registry) : Prop :=
  NoDup (map fst (g_services g)) /\
  (forall k s, In (k, s) (g_services g) -> k = s_key s) /\
  IdxInv (fun s => lower (s_type s)) (g_types g) (g_services g) /\
  IdxInv s_server_key (g_servers g) (g_services g).

Lemma J_empty : J empty_registry.
Proof.
  unfold J, empty_registry; cbn [g_services g_types g_servers].
  split; [constructor|]. split; [intros k s []|]. split; apply idx_inv_empty.
Qed.

Lemma J_add g s g' : J g -> reg_add g s = Ok g' -> J g'.
Proof.
  intros (ND & KEY & IT & IS). unfold reg_add, d_mem.
  destruct (d_get text_eqb (g_services g) (s_key s)) eqn:G; [discriminate|].
  intro H. inversion H; subst g'; clear H. unfold J; cbn [g_services g_types g_servers].
  split; [|split; [|split]].
  - apply td_nodup_snoc; assumption.
  - intros k s0 HIn. apply in_app_or in HIn as [HIn|[HIn|[]]]; [apply KEY; exact HIn|].
    inversion HIn; subst. reflexivity.
  - apply (idx_append_inv (fun s => lower (s_type s))). exact IT.
  - apply (idx_append_inv s_server_key). exact IS.
Qed.

Lemma J_remove g key : J g -> J (reg_remove g key).
Proof.
  intros (ND & KEY & IT & IS). unfold reg_remove.
  destruct (d_get text_eqb (g_services g) key) as [old|] eqn:G; [|unfold J; auto].
  unfold J; cbn [g_services g_types g_servers].
  split; [|split; [|split]].
  - apply td_nodup_del. exact ND.
  - intros k s HIn. apply KEY. eapply td_in_del. exact HIn.
  - apply (idx_remove_inv (fun s => lower (s_type s))); assumption.
  - apply (idx_remove_inv s_server_key); assumption.
Qed.

Lemma J_step g o : J g -> J (reg_step g o).
Proof.
  intro HJ. destruct o as [s|s|k]; cbn [reg_step].
  - destruct (reg_add g s) as [g'|e] eqn:E; [eapply J_add; eassumption|exact HJ].
  - unfold reg_update. destruct (reg_add (reg_remove g (s_key s)) s) as [g'|e] eqn:E; [|exact HJ].
    eapply J_add; [|exact E]. apply J_remove. exact HJ.
  - apply J_remove. exact HJ.
Qed.

Lemma J_run ops : J (reg_run ops).
Proof.
  unfold reg_run. generalize J_empty. generalize empty_registry.
  induction ops as [|o ops IH]; intros g HJ; cbn [fold_left]; [exact HJ|].
  apply IH. apply J_step. exact HJ.
Qed.

(* ---- J implies RegInv ---- *)
Definition lookup (sv : list (text * svc)) (n : text) : list svc :=
  match d_get text_eqb sv n with Some s => [s] | None => [] end.

Lemma lookup_all sv l :
  NoDup (map fst sv) -> incl l sv -> flat_map (lookup sv) (map fst l) = map snd l.
Proof.
  intros ND. induction l as [|[n s] l IH]; intro Hincl; cbn [map flat_map fst snd]; [reflexivity|].
  unfold lookup at 1. rewrite (td_in_get sv n s ND) by (apply Hincl; left; reflexivity).
  cbn [app]. f_equal. apply IH. intros x Hx. apply Hincl. right. exact Hx.
Qed.

Lemma map_snd_filter (p : svc -> bool) (sv : list (text * svc)) :
  map snd (filter (fun ks => p (snd ks)) sv) = filter p (map snd sv).
Proof.
  induction sv as [|[n s] sv IH]; cbn [filter map snd]; [reflexivity|].
  destruct (p s); cbn [map snd]; rewrite IH; reflexivity.
Qed.

Lemma get_infos_eq g kf I k :
  NoDup (map fst (g_services g)) -> IdxInv kf I (g_services g) ->
  get_infos g I k = filter (fun s => text_eqb (kf s) k) (registered g).
Proof.
  intros ND [Hbk _ _]. unfold get_infos, registered.
  rewrite <- (map_snd_filter (fun s => text_eqb (kf s) k)).
  rewrite <- (lookup_all (g_services g)); [|exact ND|intros x Hx; apply filter_In in Hx; tauto].
  fold (sel kf k (g_services g)). rewrite <- Hbk. unfold bk.
  destruct (d_get text_eqb I k); reflexivity.
Qed.

Lemma idx_keys_spec kf I sv t :
  IdxInv kf I sv -> (In t (map fst I) <-> exists s, In s (map snd sv) /\ kf s = t).
Proof.
  intros [Hbk Hne Hnd]. split.
  - intro HIn. destruct (d_get text_eqb I t) as [l|] eqn:G.
    + specialize (Hbk t). unfold bk in Hbk. rewrite G in Hbk.
      destruct l as [|n l]; [exfalso; apply (Hne t); exact G|].
      assert (HIn' : In n (sel kf t sv)) by (rewrite <- Hbk; left; reflexivity).
      unfold sel in HIn'. apply in_map_iff in HIn' as ([n' s] & _ & HF).
      apply filter_In in HF as [HF1 HF2]. cbn [snd] in HF2. apply text_eqb_eq in HF2.
      exists s. split; [|exact HF2]. change s with (snd (n', s)). apply in_map. exact HF1.
    + apply td_get_none in G. contradiction.
  - intros (s & Hs & Ht). apply in_map_iff in Hs as ([n s'] & Hsnd & HIn). cbn [snd] in Hsnd. subst s'.
    apply (in_sel kf) in HIn. rewrite Ht in HIn. rewrite <- Hbk in HIn. unfold bk in HIn.
    destruct (d_get text_eqb I t) as [l|] eqn:G; [|destruct HIn].
    apply td_get_in in G. change t with (fst (t, l)). apply in_map. exact G.
Qed.

Lemma J_RegInv g : J g -> RegInv g.
Proof.
  intros (ND & KEY & IT & IS). unfold RegInv.
  split; [exact ND|]. split; [exact KEY|]. split; [|split; [|split]].
  - intro k. rewrite (get_infos_eq g (fun s => lower (s_type s)) (g_types g) k ND IT). apply Permutation_refl.
  - intro k. rewrite (get_infos_eq g s_server_key (g_servers g) k ND IS). apply Permutation_refl.
  - intro t. unfold get_types, registered. apply (idx_keys_spec (fun s => lower (s_type s))). exact IT.
  - unfold get_types. destruct IT as [_ _ Hnd]. exact Hnd.
Qed.

(* services looked up by key *)
Lemma services_lookup g n s :
  RegInv g -> (d_get text_eqb (g_services g) n = Some s <-> In s (registered g) /\ s_key s = n).
Proof.
  intros (ND & KEY & _). split.
  - intro G. apply td_get_in in G. split.
    + unfold registered. change s with (snd (n, s)). apply in_map. exact G.
    + symmetry. apply KEY. exact G.
  - intros [HIn Hk]. unfold registered in HIn. apply in_map_iff in HIn as ([n' s'] & Hsnd & HIn).
    cbn [snd] in Hsnd. subst s'. pose proof (KEY _ _ HIn) as Hn. subst n'. subst n.
    apply td_in_get; assumption.
Qed.

Lemma get_infos_registered g I k s : In s (get_infos g I k) -> In s (registered g).
Proof.
  unfold get_infos. destruct (d_get text_eqb I k) as [names|]; [|intros []].
  intro H. apply in_flat_map in H as (n & _ & Hn).
  destruct (d_get text_eqb (g_services g) n) as [s'|] eqn:G; [|destruct Hn].
  destruct Hn as [Hn|[]]. subst s'. apply td_get_in in G.
  unfold registered. change s with (snd (n, s)). apply in_map. exact G.
Qed.

Theorem reg_run_inv_ : forall ops, RegInv (reg_run ops).
Proof. intro ops. apply J_RegInv. apply J_run. Qed.

Theorem reg_add_duplicate_ : forall g s, d_mem text_eqb (g_services g) (s_key s) = true ->
  reg_add g s = Raise ServiceNameAlreadyRegistered.
Proof. intros g s H. unfold reg_add. rewrite H. reflexivity. Qed.
