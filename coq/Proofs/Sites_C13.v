(* Sites_C13: the comparisons of Model.Query's question history and bucketing are the ones _history.py / browser.py write now. *)
From ZC Require Import Model.Base Model.PyRec Model.Dict Model.Query Gen.Const Gen.Sites.

Lemma tie_hist_suppresses h q now known :
  hist_suppresses h q now known =
  match hist_get h q with
  | None => false
  | Some (than, prev) => if sop_apply site_hist_suppress_age (now - than) site_hist_suppress_age_rhs then false else subset_ident prev known
  end.
Proof. reflexivity. Qed.

Lemma tie_hist_expire h now :
  hist_expire h now = filter (fun e => negb (sop_apply site_hist_expire_age (now - fst (snd e)) site_hist_expire_age_rhs)) h.
Proof. reflexivity. Qed.

(* Model.Query.bucket_add: `b_bytes b + sz <=? maxb` *)
Definition sites_C13_ops : Prop :=
  sites_found_C13 = true /\ site_bucket_fits = Sle /\ ncmp_services_browser_group_ptr_queries_with_known_answers = 1 /\
  ncmp_history_QuestionHistory_suppresses = 1 /\ ncmp_history_QuestionHistory_async_expire = 1.
Lemma sites_C13_ops_ok : sites_C13_ops. Proof. repeat split; reflexivity. Qed.
