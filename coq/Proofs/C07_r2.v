(* C07, lookup half (helper 2): what a pending service-info lookup makes of the records of the reply (Model/Info.v: process_record,
   request_update with the address records handled last).  The info is followed through its two shapes: [unres] (no SRV record seen
   yet) and [res] (host, port, ... taken from the SRV record of the service). *)
From Coq Require Import ZArith List Bool Lia ZifyBool.
From ZC Require Import Model.Base Model.PyRec Model.Dict Model.Re Model.Cache Model.Respond Model.Query Model.Info Model.Link
  Gen.Const Gen.Extra Gen.DnsPure Spec.AnswerSpec.
From ZC Require Import Proofs.C18_info Proofs.C07_lookup Proofs.C09_register.
Import ListNotations.
Open Scope Z_scope.
Ltac Zify.zify_post_hook ::= Z.to_euclidean_division_equations.

Lemma stamp_live r now : 0 < p_ttl r -> DNSRecord_is_expired (stamp now r) now = false.
Proof.
  intro H. unfold DNSRecord_is_expired, DNSRecord_created, DNSRecord_ttl, stamp, C_EXPIRE_FULL_TIME_MS. cbn [set_lifetime p_created p_ttl]. lia.
Qed.

Lemma stamp_dead r now : p_ttl r <= 0 -> DNSRecord_is_expired (stamp now r) now = true.
Proof.
  intro H. unfold DNSRecord_is_expired, DNSRecord_created, DNSRecord_ttl, stamp, C_EXPIRE_FULL_TIME_MS. cbn [set_lifetime p_created p_ttl]. lia.
Qed.

(* the host's live cached addresses that an SRV record pulls in when it sets the host (phase-1 cache) *)
Definition cached_v4 (c : cache) (now : Z) (s : svc) : list bytes := addresses_from_cache c now (Some (s_server_key s)) C_TYPE_A 4.
Definition cached_v6 (c : cache) (now : Z) (s : svc) : list bytes := addresses_from_cache c now (Some (s_server_key s)) C_TYPE_AAAA 6.

Section Resolve.
  Variables (c : cache) (now : Z) (s : svc) (name : text).
  Hypothesis Hname : lower name = s_key s.
  Hypothesis Hhost : 0 < s_host_ttl s.

  (* before the SRV record: only the TXT data may be known *)
  Definition unres (txt : bytes) : sinfo :=
    {| si_name := name; si_key := lower name; si_server := None; si_server_key := None; si_port := None;
       si_weight := 0; si_priority := 0; si_text := txt; si_v4 := []; si_v6 := [] |}.

  (* after it *)
  Definition res (txt : bytes) (v4 v6 : list bytes) : sinfo :=
    {| si_name := s_name s; si_key := s_key s; si_server := Some (s_server s); si_server_key := Some (s_server_key s);
       si_port := Some (s_port s); si_weight := s_weight s; si_priority := s_priority s; si_text := txt; si_v4 := v4; si_v6 := v6 |}.

  Lemma unres_init : unres [] = sinfo_init name.
  Proof. reflexivity. Qed.

  Let SRV := stamp now (dns_service s).
  Let TXT := stamp now (dns_text s).

  Lemma srv_live : DNSRecord_is_expired SRV now = false.
  Proof. apply stamp_live. exact Hhost. Qed.

  Lemma txt_live : 0 < s_other_ttl s -> DNSRecord_is_expired TXT now = false.
  Proof. intro Ho. apply stamp_live. exact Ho. Qed.
  Lemma txt_dead : s_other_ttl s <= 0 -> DNSRecord_is_expired TXT now = true.
  Proof. intro Ho. apply stamp_dead. exact Ho. Qed.

  (* ---- the SRV record ---- *)
  Lemma pr1_srv_unres txt : pr1 c now (unres txt) SRV = res txt (cached_v4 c now s) (cached_v6 c now s).
  Proof.
    unfold pr1, process_record. rewrite srv_live.
    change (p_kind SRV) with KService. cbn [kind_eqb andb].
    change (p_name SRV) with (s_name s). cbn [unres si_key]. rewrite Hname. unfold s_key. rewrite text_eqb_refl. cbn [negb].
    reflexivity.
  Qed.

  Lemma pr1_srv_res txt v4 v6 : pr1 c now (res txt v4 v6) SRV = res txt v4 v6.
  Proof.
    unfold pr1, process_record. rewrite srv_live.
    change (p_kind SRV) with KService. cbn [kind_eqb andb].
    change (p_name SRV) with (s_name s). cbn [res si_key]. unfold s_key. rewrite text_eqb_refl. cbn [negb fst].
    change (p_server SRV) with (s_server s). cbn [res si_server_key opt_text_eqb]. unfold s_server_key. rewrite text_eqb_refl. reflexivity.
  Qed.

  (* ---- the TXT record ---- *)
  Lemma pr1_txt_unres txt : 0 < s_other_ttl s -> pr1 c now (unres txt) TXT = unres (s_text s).
  Proof.
    intro Ho. unfold pr1, process_record. rewrite (txt_live Ho).
    change (p_kind TXT) with KText. cbn [kind_eqb andb].
    change (p_name TXT) with (s_name s). cbn [unres si_key].
    replace (text_eqb (lower (s_name s)) (lower name)) with true by (rewrite Hname; unfold s_key; symmetry; apply text_eqb_refl).
    reflexivity.
  Qed.

  Lemma pr1_txt_res txt v4 v6 : 0 < s_other_ttl s -> pr1 c now (res txt v4 v6) TXT = res (s_text s) v4 v6.
  Proof.
    intro Ho. unfold pr1, process_record. rewrite (txt_live Ho).
    change (p_kind TXT) with KText. cbn [kind_eqb andb].
    change (p_name TXT) with (s_name s). cbn [res si_key]. unfold s_key. rewrite text_eqb_refl. reflexivity.
  Qed.

  (* ---- the NSEC record changes nothing ---- *)
  Lemma pr1_nsec i m : pr1 c now i (stamp now (dns_nsec s m)) = i.
  Proof.
    unfold pr1, process_record. destruct (DNSRecord_is_expired (stamp now (dns_nsec s m)) now); [reflexivity|].
    change (p_kind (stamp now (dns_nsec s m))) with KNsec. cbn [kind_eqb andb].
    destruct (negb (text_eqb (lower (p_name (stamp now (dns_nsec s m)))) (si_key i))); reflexivity.
  Qed.

  (* ---- address records of the host ---- *)
  Lemma pr1_a txt v4 v6 a : length a = 4%nat ->
    pr1 c now (res txt v4 v6) (stamp now (a_record s a)) = res txt (fst (lifo_insert a v4)) v6.
  Proof.
    intro Hl. unfold pr1, process_record. rewrite (stamp_live (a_record s a) now Hhost).
    change (p_kind (stamp now (a_record s a))) with KAddress. change (p_name (stamp now (a_record s a))) with (s_server s).
    cbn [kind_eqb andb res si_server_key opt_text_eqb]. unfold s_server_key. rewrite text_eqb_refl.
    change (p_address (stamp now (a_record s a))) with a. unfold ip_version. rewrite Hl. cbn [Nat.eqb].
    change (si_v4 (res txt v4 v6)) with v4. destruct (lifo_insert a v4) as [l added]. reflexivity.
  Qed.

  Lemma pr1_aaaa txt v4 v6 a : length a = 16%nat ->
    pr1 c now (res txt v4 v6) (stamp now (aaaa_record s a)) = res txt v4 (fst (lifo_insert a v6)).
  Proof.
    intro Hl. unfold pr1, process_record. rewrite (stamp_live (aaaa_record s a) now Hhost).
    change (p_kind (stamp now (aaaa_record s a))) with KAddress. change (p_name (stamp now (aaaa_record s a))) with (s_server s).
    cbn [kind_eqb andb res si_server_key opt_text_eqb]. unfold s_server_key. rewrite text_eqb_refl.
    change (p_address (stamp now (aaaa_record s a))) with a. unfold ip_version. rewrite Hl. cbn [Nat.eqb].
    change (si_v6 (res txt v4 v6)) with v6. destruct (lifo_insert a v6) as [l added]. reflexivity.
  Qed.

  (* ---- phase 1: the records that are not address records ---- *)
  Definition other_rec (x : pyrec) : Prop := x = SRV \/ x = TXT \/ exists m, x = stamp now (dns_nsec s m).

  Lemma srv_not_txt : SRV <> TXT.
  Proof. intro E. apply (f_equal p_kind) in E. discriminate E. Qed.
  Lemma nsec_not_txt m : stamp now (dns_nsec s m) <> TXT.
  Proof. intro E. apply (f_equal p_kind) in E. discriminate E. Qed.
  Lemma nsec_not_srv m : stamp now (dns_nsec s m) <> SRV.
  Proof. intro E. apply (f_equal p_kind) in E. discriminate E. Qed.

  (* the TXT data at the end: that of the service once the TXT record has been seen (or was known before) *)
  Definition txt_ok (L : list pyrec) (txt txt' : bytes) : Prop :=
    (In TXT L -> 0 < s_other_ttl s -> txt' = s_text s) /\ (txt = s_text s -> txt' = s_text s) /\ (~ In TXT L -> txt' = txt).

  Lemma phase1_res : forall L txt v4 v6, (forall x, In x L -> other_rec x) ->
    exists txt', fold_left (pr1 c now) L (res txt v4 v6) = res txt' v4 v6 /\ txt_ok L txt txt'.
  Proof.
    induction L as [|x L IH]; intros txt v4 v6 HL; cbn [fold_left].
    - exists txt. split; [reflexivity|]. split; [intros []|]. split; auto.
    - assert (HL' : forall y, In y L -> other_rec y) by (intros y Hy; apply HL; right; exact Hy).
      destruct (HL x (or_introl eq_refl)) as [-> |[-> |(m & ->)]].
      + rewrite pr1_srv_res. destruct (IH txt v4 v6 HL') as (txt' & E & T1 & T2 & T3). exists txt'. split; [exact E|].
        split; [|split]; [intros [H|H] Ho; [elim (srv_not_txt H)|exact (T1 H Ho)]|exact T2|].
        intro H. apply T3. intro H'. apply H. right. exact H'.
      + destruct (Z_lt_le_dec 0 (s_other_ttl s)) as [Ho|Ho].
        * rewrite (pr1_txt_res _ _ _ Ho). destruct (IH (s_text s) v4 v6 HL') as (txt' & E & T1 & T2 & T3). exists txt'. split; [exact E|].
          split; [|split]; [intros _ _; exact (T2 eq_refl)|intros _; exact (T2 eq_refl)|]. intro H. elim H. left. reflexivity.
        * assert (Ed : pr1 c now (res txt v4 v6) TXT = res txt v4 v6).
          { unfold pr1. rewrite expired_ignored; [reflexivity|]. apply txt_dead. exact Ho. }
          rewrite Ed. destruct (IH txt v4 v6 HL') as (txt' & E & T1 & T2 & T3). exists txt'. split; [exact E|].
          split; [|split]; [intros _ Ho'; lia|exact T2|]. intro H. elim H. left. reflexivity.
      + rewrite pr1_nsec. destruct (IH txt v4 v6 HL') as (txt' & E & T1 & T2 & T3). exists txt'. split; [exact E|].
        split; [|split]; [intros [H|H] Ho; [elim (nsec_not_txt m H)|exact (T1 H Ho)]|exact T2|].
        intro H. apply T3. intro H'. apply H. right. exact H'.
  Qed.

  Lemma phase1_unres : forall L txt, (forall x, In x L -> other_rec x) -> In SRV L ->
    exists txt', fold_left (pr1 c now) L (unres txt) = res txt' (cached_v4 c now s) (cached_v6 c now s) /\ txt_ok L txt txt'.
  Proof.
    induction L as [|x L IH]; intros txt HL HS; [destruct HS|]. cbn [fold_left].
    assert (HL' : forall y, In y L -> other_rec y) by (intros y Hy; apply HL; right; exact Hy).
    destruct (HL x (or_introl eq_refl)) as [-> |[-> |(m & ->)]].
    - rewrite pr1_srv_unres. destruct (phase1_res L txt (cached_v4 c now s) (cached_v6 c now s) HL') as (txt' & E & T1 & T2 & T3). exists txt'. split; [exact E|].
      split; [|split]; [intros [H|H] Ho; [elim (srv_not_txt H)|exact (T1 H Ho)]|exact T2|].
      intro H. apply T3. intro H'. apply H. right. exact H'.
    - assert (HS' : In SRV L) by (destruct HS as [H|H]; [elim (srv_not_txt (eq_sym H))|exact H]).
      destruct (Z_lt_le_dec 0 (s_other_ttl s)) as [Ho|Ho].
      + rewrite (pr1_txt_unres _ Ho). destruct (IH (s_text s) HL' HS') as (txt' & E & T1 & T2 & T3). exists txt'. split; [exact E|].
        split; [|split]; [intros _ _; exact (T2 eq_refl)|intros _; exact (T2 eq_refl)|]. intro H. elim H. left. reflexivity.
      + assert (Ed : pr1 c now (unres txt) TXT = unres txt).
        { unfold pr1. rewrite expired_ignored; [reflexivity|]. apply txt_dead. exact Ho. }
        rewrite Ed. destruct (IH txt HL' HS') as (txt' & E & T1 & T2 & T3). exists txt'. split; [exact E|].
        split; [|split]; [intros _ Ho'; lia|exact T2|]. intro H. elim H. left. reflexivity.
    - assert (HS' : In SRV L) by (destruct HS as [H|H]; [elim (nsec_not_srv m H)|exact H]).
      rewrite pr1_nsec. destruct (IH txt HL' HS') as (txt' & E & T1 & T2 & T3). exists txt'. split; [exact E|].
      split; [|split]; [intros [H|H] Ho; [elim (nsec_not_txt m H)|exact (T1 H Ho)]|exact T2|].
      intro H. apply T3. intro H'. apply H. right. exact H'.
  Qed.

  (* ---- phase 2: the address records ---- *)
  Hypothesis Hlen4 : forall a, In a (s_v4 s) -> length a = 4%nat.
  Hypothesis Hlen6 : forall a, In a (s_v6 s) -> length a = 16%nat.

  Definition addr_rec (x : pyrec) : Prop :=
    (exists a, In a (s_v4 s) /\ x = stamp now (a_record s a)) \/ (exists a, In a (s_v6 s) /\ x = stamp now (aaaa_record s a)).

  Lemma lifo_iff x l a : In a (fst (lifo_insert x l)) <-> a = x \/ In a l.
  Proof.
    split; [apply lifo_insert_In|]. intros [-> |H]; [apply lifo_insert_has|apply lifo_insert_keeps; exact H].
  Qed.

  Lemma a_inj a b : stamp now (a_record s a) = stamp now (a_record s b) -> a = b.
  Proof. intro E. apply (f_equal p_address) in E. exact E. Qed.
  Lemma aaaa_inj a b : stamp now (aaaa_record s a) = stamp now (aaaa_record s b) -> a = b.
  Proof. intro E. apply (f_equal p_address) in E. exact E. Qed.
  Lemma a_not_aaaa a b : stamp now (a_record s a) <> stamp now (aaaa_record s b).
  Proof. intro E. apply (f_equal p_type_) in E. discriminate E. Qed.

  Lemma phase2 : forall L txt v4 v6, (forall x, In x L -> addr_rec x) ->
    exists v4' v6', fold_left (pr1 c now) L (res txt v4 v6) = res txt v4' v6' /\
      (forall a, In a v4' <-> In a v4 \/ In (stamp now (a_record s a)) L) /\
      (forall a, In a v6' <-> In a v6 \/ In (stamp now (aaaa_record s a)) L).
  Proof.
    induction L as [|x L IH]; intros txt v4 v6 HL; cbn [fold_left].
    - exists v4, v6. split; [reflexivity|]. split; intro a; cbn [In]; tauto.
    - assert (HL' : forall y, In y L -> addr_rec y) by (intros y Hy; apply HL; right; exact Hy).
      destruct (HL x (or_introl eq_refl)) as [(a0 & Ha0 & ->)|(a0 & Ha0 & ->)].
      + rewrite (pr1_a _ _ _ _ (Hlen4 a0 Ha0)). destruct (IH txt (fst (lifo_insert a0 v4)) v6 HL') as (v4' & v6' & E & I4 & I6).
        exists v4', v6'. split; [exact E|]. split; intro a.
        * rewrite I4, lifo_iff. cbn [In]. split.
          -- intros [[-> |H]|H]; [right; left; reflexivity|left; exact H|right; right; exact H].
          -- intros [H|[H|H]]; [left; right; exact H|left; left; symmetry; apply a_inj; exact H|right; exact H].
        * rewrite I6. cbn [In]. split; [intros [H|H]; [left; exact H|right; right; exact H]|].
          intros [H|[H|H]]; [left; exact H|elim (a_not_aaaa _ _ H)|right; exact H].
      + rewrite (pr1_aaaa _ _ _ _ (Hlen6 a0 Ha0)). destruct (IH txt v4 (fst (lifo_insert a0 v6)) HL') as (v4' & v6' & E & I4 & I6).
        exists v4', v6'. split; [exact E|]. split; intro a.
        * rewrite I4. cbn [In]. split; [intros [H|H]; [left; exact H|right; right; exact H]|].
          intros [H|[H|H]]; [left; exact H|elim (a_not_aaaa _ _ (eq_sym H))|right; exact H].
        * rewrite I6, lifo_iff. cbn [In]. split.
          -- intros [[-> |H]|H]; [right; left; reflexivity|left; exact H|right; right; exact H].
          -- intros [H|[H|H]]; [left; right; exact H|left; left; symmetry; apply aaaa_inj; exact H|right; exact H].
  Qed.
End Resolve.

(* ================================================================================================ *)
(* one batch of reply records                                                                        *)

(* the stamped records of one service, by cases *)
Lemma own_cases now s y : In y (map (stamp now) (own_additionals s)) ->
  y = stamp now (dns_service s) \/ y = stamp now (dns_text s) \/
  (exists a, In a (s_v4 s) /\ y = stamp now (a_record s a)) \/ (exists a, In a (s_v6 s) /\ y = stamp now (aaaa_record s a)) \/
  (exists m, y = stamp now (dns_nsec s m)).
Proof.
  intro H. apply in_map_iff in H as (x & <- & Hx). unfold own_additionals in Hx. rewrite address_and_nsec_content in Hx.
  cbn [app] in Hx. destruct Hx as [<-|[<-|Hx]]; [left; reflexivity|right; left; reflexivity|]. right. right.
  apply in_app_or in Hx as [Hx|Hx]; [left; apply in_map_iff in Hx as (a & <- & Ha); exists a; split; [exact Ha|reflexivity]|].
  apply in_app_or in Hx as [Hx|Hx]; [right; left; apply in_map_iff in Hx as (a & <- & Ha); exists a; split; [exact Ha|reflexivity]|].
  right. right. unfold nsec_part in Hx. destruct (s_v4 s), (s_v6 s); [| | |destruct Hx]; (destruct Hx as [<-|[]]; eexists; reflexivity).
Qed.

(* a batch that is made of (stamped) records of the service and holds at least its SRV record and all its address records *)
Definition reply_batch (now : Z) (s : svc) (news : list pyrec) : Prop :=
  (forall y, In y news -> In y (map (stamp now) (own_additionals s))) /\
  In (stamp now (dns_service s)) news /\
  (forall x, In x (address_and_nsec s) -> In (stamp now x) news).

Definition addr_lengths (s : svc) : Prop :=
  (forall a, In a (s_v4 s) -> length a = 4%nat) /\ (forall a, In a (s_v6 s) -> length a = 16%nat).

Lemma batch_resolves c now s name news txt :
  lower name = s_key s -> 0 < s_host_ttl s -> addr_lengths s -> reply_batch now s news ->
  exists txt' v4 v6,
    fst (process_records c now (unres name txt) (addresses_last news)) = res s txt' v4 v6 /\
    txt_ok now s news txt txt' /\
    (forall a, In a v4 <-> In a (s_v4 s) \/ In a (cached_v4 c now s)) /\
    (forall a, In a v6 <-> In a (s_v6 s) \/ In a (cached_v6 c now s)).
Proof.
  intros Hn Hh [Hl4 Hl6] (Hsub & Hsrv & Hadr).
  unfold process_records. rewrite process_records_fst. unfold addresses_last. rewrite fold_left_app.
  set (L1 := filter (fun r => negb (kind_eqb (p_kind r) KAddress)) news).
  set (L2 := filter (fun r => kind_eqb (p_kind r) KAddress) news).
  assert (H1 : forall x, In x L1 -> other_rec now s x).
  { intros x Hx. apply filter_In in Hx as [Hx Hk]. unfold other_rec.
    destruct (own_cases now s x (Hsub x Hx)) as [-> |[-> |[(a & _ & ->)|[(a & _ & ->)|(m & ->)]]]];
      [left; reflexivity|right; left; reflexivity|discriminate Hk|discriminate Hk|right; right; exists m; reflexivity]. }
  assert (H2 : forall x, In x L2 -> addr_rec now s x).
  { intros x Hx. apply filter_In in Hx as [Hx Hk]. unfold addr_rec.
    destruct (own_cases now s x (Hsub x Hx)) as [-> |[-> |[(a & Ha & ->)|[(a & Ha & ->)|(m & ->)]]]];
      [discriminate Hk|discriminate Hk|left; exists a; split; [exact Ha|reflexivity]|right; exists a; split; [exact Ha|reflexivity]|discriminate Hk]. }
  assert (HS : In (stamp now (dns_service s)) L1) by (apply filter_In; split; [exact Hsrv|reflexivity]).
  destruct (phase1_unres c now s name Hn Hh L1 txt H1 HS) as (txt' & E1 & T1 & T2 & T3). rewrite E1.
  destruct (phase2 c now s Hh Hl4 Hl6 L2 txt' (cached_v4 c now s) (cached_v6 c now s) H2) as (v4 & v6 & E2 & I4 & I6). rewrite E2.
  exists txt', v4, v6. split; [reflexivity|]. split; [|split].
  - split; [|split]; [|exact T2|].
    + intros HT Ho. apply T1; [|exact Ho]. apply filter_In. split; [exact HT|reflexivity].
    + intro HT. apply T3. intro HT'. apply HT. apply filter_In in HT'. tauto.
  - intro a. rewrite I4. split.
    + intros [H|H]; [right; exact H|left]. apply filter_In in H as [H _].
      destruct (own_cases now s _ (Hsub _ H)) as [E|[E|[(b & Hb & E)|[(b & Hb & E)|(m & E)]]]];
        try (apply (f_equal p_kind) in E; discriminate E).
      * apply a_inj in E. subst b. exact Hb.
      * elim (a_not_aaaa now s _ _ E).
    + intros [H|H]; [right|left; exact H]. apply filter_In. split; [|reflexivity]. apply Hadr.
      rewrite address_and_nsec_content. apply in_or_app. left. apply in_map. exact H.
  - intro a. rewrite I6. split.
    + intros [H|H]; [right; exact H|left]. apply filter_In in H as [H _].
      destruct (own_cases now s _ (Hsub _ H)) as [E|[E|[(b & Hb & E)|[(b & Hb & E)|(m & E)]]]];
        try (apply (f_equal p_kind) in E; discriminate E).
      * elim (a_not_aaaa now s _ _ (eq_sym E)).
      * apply aaaa_inj in E. subst b. exact Hb.
    + intros [H|H]; [right|left; exact H]. apply filter_In. split; [|reflexivity]. apply Hadr.
      rewrite address_and_nsec_content. apply in_or_app. right. apply in_or_app. left. apply in_map. exact H.
Qed.

(* the TXT record alone (the other message of a split reply), before or after the SRV record *)
Lemma txt_batch_unres c now s name txt : lower name = s_key s -> 0 < s_other_ttl s ->
  process_records c now (unres name txt) (addresses_last [stamp now (dns_text s)]) = (unres name (s_text s), true).
Proof.
  intros Hn Ho. unfold process_records, addresses_last. cbn [filter stamp set_lifetime dns_text set_text blank p_kind kind_eqb negb app fold_left fst snd].
  pose proof (pr1_txt_unres c now s name Hn txt Ho) as E. unfold pr1 in E.
  unfold process_record in E |- *. rewrite (txt_live now s Ho) in E |- *.
  change (stamp now (dns_text s)) with (set_lifetime (dns_text s) now (p_ttl (dns_text s))) in E.
  cbn [stamp set_lifetime dns_text set_text blank p_kind kind_eqb negb andb p_name p_ttl p_text] in E |- *.
  cbn [unres si_key] in E |- *.
  destruct (text_eqb (lower (s_name s)) (lower name)) eqn:K; cbn [negb fst snd orb] in E |- *.
  - reflexivity.
  - exfalso. rewrite Hn in K. unfold s_key in K. rewrite text_eqb_refl in K. discriminate K.
Qed.

Lemma txt_batch_res c now s txt v4 v6 : 0 < s_other_ttl s ->
  process_records c now (res s txt v4 v6) (addresses_last [stamp now (dns_text s)]) = (res s (s_text s) v4 v6, true).
Proof.
  intro Ho. unfold process_records, addresses_last. cbn [filter stamp set_lifetime dns_text set_text blank p_kind kind_eqb negb app fold_left fst snd].
  unfold process_record. rewrite (txt_live now s Ho).
  cbn [stamp set_lifetime dns_text set_text blank p_kind kind_eqb negb andb p_name p_ttl p_text].
  cbn [res si_key]. unfold s_key. rewrite text_eqb_refl. reflexivity.
Qed.

(* the coroutine is woken: the SRV record counts as an update in every state of the lookup *)
Lemma srv_updates c now s i : 0 < s_host_ttl s -> si_key i = s_key s ->
  snd (process_record c now i (stamp now (dns_service s))) = true.
Proof.
  intros Hh Hk. unfold process_record. rewrite (srv_live now s Hh).
  change (p_kind (stamp now (dns_service s))) with KService. cbn [kind_eqb andb].
  change (p_name (stamp now (dns_service s))) with (s_name s). rewrite Hk. unfold s_key. rewrite text_eqb_refl. reflexivity.
Qed.

Lemma updated_sticky c now : forall rs i,
  snd (fold_left (fun acc r => let '(i', u) := process_record c now (fst acc) r in (i', snd acc || u)) rs (i, true)) = true.
Proof.
  induction rs as [|x rs IH]; intro i; cbn [fold_left]; [reflexivity|].
  cbn [fst snd orb]. destruct (process_record c now i x) as [i' u]. apply IH.
Qed.

Lemma batch_updates c now s : forall rs i b, 0 < s_host_ttl s -> si_key i = s_key s -> In (stamp now (dns_service s)) rs ->
  snd (fold_left (fun acc r => let '(i', u) := process_record c now (fst acc) r in (i', snd acc || u)) rs (i, b)) = true.
Proof.
  induction rs as [|x rs IH]; intros i b Hh Hk HIn; [destruct HIn|]. cbn [fold_left fst snd].
  destruct HIn as [->|HIn].
  - pose proof (srv_updates c now s i Hh Hk) as U. destruct (process_record c now i (stamp now (dns_service s))) as [i' u].
    cbn [snd] in U. subst u. rewrite orb_true_r. apply updated_sticky.
  - pose proof (pr1_key c now i x) as K. unfold pr1 in K. destruct (process_record c now i x) as [i' u]. cbn [fst] in K.
    apply IH; [exact Hh|rewrite K; exact Hk|exact HIn].
Qed.

Print Assumptions batch_resolves.
Print Assumptions batch_updates.
