(* C07, lookup half (helper 1): the first query of a service-info lookup, and what a node that has the service registered
   answers to it.  Model/Info.v (request_start / loop_turn), Model/Query.v (generate_request_query), Model/Respond.v
   (async_response), Model/Route.v (handle_assembled_query), Model/Node.v (nstep, LQuery). *)
From Coq Require Import ZArith List Bool Lia ZifyBool Permutation.
From ZC Require Import Model.Base Model.PyRec Model.Dict Model.Re Model.Cache Model.Respond Model.Route Model.WireEnc
  Model.OutQueue Model.Query Model.Info Model.Node Gen.Const Gen.Extra Gen.DnsPure Spec.AnswerSpec.
From ZC Require Import Proofs.C20_identity Proofs.C03_reg Proofs.C03_sets Proofs.C03_respond Proofs.C11_lemmas Proofs.C09_register.
Import ListNotations.
Open Scope Z_scope.
Ltac Zify.zify_post_hook ::= Z.to_euclidean_division_equations.

(* ================================================================================================ *)
(* 1. the first query of a lookup that starts with nothing cached                                    *)

(* SRV, TXT, A, AAAA - all for the instance name (the host is not known yet: `server` defaults to si_name), all with the QU bit *)
Definition lookup_questions (name : text) : list pyrec :=
  [mkq name C_TYPE_SRV true; mkq name C_TYPE_TXT true; mkq name C_TYPE_A true; mkq name C_TYPE_AAAA true].

Definition first_query (name : text) (t0 : Z) : query_msg :=
  {| qm_qs := lookup_questions name; qm_known := []; qm_time := t0 |}.

(* the lookup after its first query: nothing known, next query 200 ms + draw later, no longer the first (QU) query *)
Definition pending0 (name : text) (t0 timeout rnd : Z) : req :=
  {| rq_info := sinfo_init name; rq_next := t0 + C_LISTENER_TIME + rnd; rq_last := t0 + timeout; rq_delay := C_LISTENER_TIME;
     rq_first := false; rq_forced := None; rq_done := None |}.

Lemma load_empty name now : load_from_cache empty_cache now (sinfo_init name) = sinfo_init name.
Proof. reflexivity. Qed.

Lemma fresh_known_empty now name ty : fresh_known empty_cache now name ty = [].
Proof. reflexivity. Qed.

Lemma first_request_query name t0 :
  generate_request_query empty_cache [] t0 name name true = (first_query name t0, []).
Proof. reflexivity. Qed.

Lemma lookup_first_query_eq name t0 timeout rnd : 0 < timeout ->
  request_start empty_cache [] name t0 timeout rnd None
  = (pending0 name t0 timeout rnd, [], [RSend t0 true (first_query name t0)]).
Proof.
  intro Ht. unfold request_start. rewrite load_empty.
  change (is_complete (sinfo_init name)) with false. cbv iota.
  unfold loop_turn. cbn [rq_info rq_last rq_next rq_first rq_forced rq_delay].
  change (is_complete (sinfo_init name)) with false. cbv iota.
  replace (t0 + timeout <=? t0) with false by lia. rewrite Z.leb_refl.
  cbn [sinfo_init si_server si_name]. rewrite first_request_query. reflexivity.
Qed.

(* a lookup with a timeout <= 0 gives up at once, without asking anything *)
Lemma lookup_no_time name t0 timeout rnd : timeout <= 0 ->
  snd (request_start empty_cache [] name t0 timeout rnd None) = [RReturn t0 false].
Proof.
  intro Ht. unfold request_start. rewrite load_empty.
  change (is_complete (sinfo_init name)) with false. cbv iota.
  unfold loop_turn. cbn [rq_info rq_last rq_next rq_first rq_forced rq_delay].
  change (is_complete (sinfo_init name)) with false. cbv iota.
  replace (t0 + timeout <=? t0) with true by lia. reflexivity.
Qed.

(* ================================================================================================ *)
(* 2. the responder                                                                                  *)

(* the query as the responder sees it *)
Definition lookup_qmsg (name : text) (now : Z) : qmsg :=
  {| qm_questions := lookup_questions name; qm_answers := []; qm_is_probe := false; qm_now := now |}.

(* the two answers: the SRV record (additionals: the host's address records and the NSEC record) and the TXT record *)
Definition srv_part (s : svc) : answer_set := [(dns_service s, address_and_nsec s)].
Definition txt_part (s : svc) : answer_set := [(dns_text s, [])].

(* every record a reply message carries: answer section, then additional section *)
Definition reply_records (m : out_msg) : list pyrec := map fst (o_answers m) ++ o_additionals m.

(* "no registered service uses the instance name of s as its host name" *)
Definition no_host_named_like (g : registry) (s : svc) : Prop :=
  forall s2, In s2 (registered g) -> s_server_key s2 <> s_key s.

Lemma no_host_infos g s : RegInv g -> no_host_named_like g s -> get_infos g (g_servers g) (s_key s) = [].
Proof.
  intros (_ & _ & _ & HS & _) Hno. specialize (HS (s_key s)).
  assert (E : filter (fun s2 => text_eqb (s_server_key s2) (s_key s)) (registered g) = []).
  { destruct (filter (fun s2 => text_eqb (s_server_key s2) (s_key s)) (registered g)) as [|x l] eqn:F; [reflexivity|].
    exfalso. assert (Hx : In x (x :: l)) by (left; reflexivity). rewrite <- F in Hx. apply filter_In in Hx as [Hx1 Hx2].
    apply text_eqb_eq in Hx2. exact (Hno x Hx1 Hx2). }
  rewrite E in HS. apply Permutation_sym in HS. apply Permutation_nil in HS. exact HS.
Qed.

Section Strategies.
  Variables (g : registry) (s : svc) (name : text).
  Hypothesis Hname : lower name = s_key s.
  Hypothesis Hget : d_get text_eqb (g_services g) (s_key s) = Some s.
  Hypothesis Hhost : get_infos g (g_servers g) (s_key s) = [].

  Lemma strat_srv : get_strategies g (mkq name C_TYPE_SRV true) = [SService s].
  Proof. unfold get_strategies. cbn [mkq p_name p_type_]. rewrite Hname, Hget. reflexivity. Qed.

  Lemma strat_txt : get_strategies g (mkq name C_TYPE_TXT true) = [SText s].
  Proof. unfold get_strategies. cbn [mkq p_name p_type_]. rewrite Hname, Hget. reflexivity. Qed.

  Lemma strat_a : get_strategies g (mkq name C_TYPE_A true) = [].
  Proof. unfold get_strategies. cbn [mkq p_name p_type_]. rewrite Hname, Hhost. reflexivity. Qed.

  Lemma strat_aaaa : get_strategies g (mkq name C_TYPE_AAAA true) = [].
  Proof. unfold get_strategies. cbn [mkq p_name p_type_]. rewrite Hname, Hhost. reflexivity. Qed.
End Strategies.

Lemma srv_txt_distinct s : gen_eq (dns_service s) (dns_text s) = false.
Proof. reflexivity. Qed.

(* the classification: each of the two answers goes to the unicast reply if the responder has seen it multicast within a quarter
   of its TTL (C11_recent), otherwise to a multicast reply sent at once; nothing is queued *)
Lemma lookup_response g c s name now :
  lower name = s_key s -> d_get text_eqb (g_services g) (s_key s) = Some s -> get_infos g (g_servers g) (s_key s) = [] ->
  async_response g c [lookup_qmsg name now] false =
  Some {| qa_ucast := (if recent c now (dns_service s) then srv_part s else []) ++ (if recent c now (dns_text s) then txt_part s else []);
          qa_mcast_now := (if recent c now (dns_service s) then [] else srv_part s) ++ (if recent c now (dns_text s) then [] else txt_part s);
          qa_mcast_aggregate := []; qa_mcast_last_second := [] |}.
Proof.
  intros Hn Hg Hh. unfold async_response, lookup_qmsg, lookup_questions. cbn [flat_map qm_questions app].
  rewrite (strat_srv g s name Hn Hg), (strat_txt g s name Hn Hg), (strat_a g s name Hn Hh), (strat_aaaa g s name Hn Hh).
  cbn [map app existsb qm_is_probe orb flat_map qm_answers last qm_now qm_questions fold_left].
  change (DNSEntry_unique (mkq name C_TYPE_SRV true)) with true.
  change (DNSEntry_unique (mkq name C_TYPE_TXT true)) with true.
  cbn [negb andb]. cbn [mkq p_type_]. unfold answer_question.
  change (suppresses [] (dns_service s)) with false. change (suppresses [] (dns_text s)) with false. cbv iota.
  unfold as_set. cbn [d_set]. unfold add_qu. cbn [fold_left].
  cbn [q_additionals q_ucast q_mcast_now q_mcast_aggregate q_mcast_last_second negb].
  unfold as_set. cbn [d_set]. rewrite srv_txt_distinct. unfold recent.
  destruct (has_mcast_within_one_quarter_ttl c now (dns_service s)),
           (has_mcast_within_one_quarter_ttl c now (dns_text s));
    cbn [negb]; unfold sadd; cbn [existsb app]; rewrite ?srv_txt_distinct; cbn [orb app];
    unfold with_additionals; cbn [map d_get q_additionals q_ucast q_mcast_now q_mcast_aggregate q_mcast_last_second];
    rewrite ?srv_txt_distinct, ?eq_refl_; reflexivity.
Qed.

Definition lookup_ucast (c : cache) (now : Z) (s : svc) : answer_set :=
  (if recent c now (dns_service s) then srv_part s else []) ++ (if recent c now (dns_text s) then txt_part s else []).
Definition lookup_mcast (c : cache) (now : Z) (s : svc) : answer_set :=
  (if recent c now (dns_service s) then [] else srv_part s) ++ (if recent c now (dns_text s) then [] else txt_part s).

(* the whole node step: nothing changes in the node; at most one unicast message (first) and at most one multicast message *)
Lemma lookup_nstep n s name now id addr rq rd :
  lower name = s_key s -> d_get text_eqb (g_services (n_reg n)) (s_key s) = Some s ->
  get_infos (n_reg n) (g_servers (n_reg n)) (s_key s) = [] -> n_done n = false ->
  nstep n (LQuery now [lookup_qmsg name now] id addr C_MDNS_PORT rq rd) =
  (n, (match lookup_ucast (n_cache n) now s with
       | [] => []
       | u => [OSend now (Some (addr, C_MDNS_PORT)) (construct_unicast u false (lookup_questions name) id)]
       end)
      ++ (match lookup_mcast (n_cache n) now s with
          | [] => []
          | u => [OSend now None (construct_multicast u)]
          end)).
Proof.
  intros Hn Hg Hh Hd. cbn [nstep]. unfold handle_assembled_query.
  change (negb (C_MDNS_PORT =? C_MDNS_PORT)) with false.
  rewrite (lookup_response _ _ s name now Hn Hg Hh).
  cbn [qa_ucast qa_mcast_now qa_mcast_aggregate qa_mcast_last_second lookup_qmsg qm_questions qm_now].
  unfold gate. rewrite Hd. unfold lookup_ucast, lookup_mcast.
  destruct (recent (n_cache n) now (dns_service s)), (recent (n_cache n) now (dns_text s)); reflexivity.
Qed.

(* ---- the sections of the reply messages ---- *)

(* records of one service are identified by their content: the duplicate elimination of _add_answers_additionals (by record
   identity) never drops an address of the service in favour of a different record *)
Lemma addr_gen_eq y x : p_kind y = KAddress -> gen_eq y x = true -> p_address y = p_address x /\ p_type_ y = p_type_ x.
Proof.
  intros K E. unfold gen_eq in E. rewrite K in E. unfold DNSAddress_eq, DNSAddress__eq, DNSEntry__dns_entry_matches in E.
  apply andb_true_iff in E as [_ E]. apply andb_true_iff in E as [E1 E2]. apply andb_true_iff in E1 as [E1 _].
  apply andb_true_iff in E2 as [E2 _]. apply andb_true_iff in E2 as [_ E2].
  apply (proj1 (list_eqb_eq Z.eqb Z.eqb_eq _ _)) in E1. apply Z.eqb_eq in E2. split; assumption.
Qed.

Lemma own_identity s x y : In x (own_additionals s) -> In y (own_additionals s) -> gen_eq y x = true -> y = x.
Proof.
  unfold own_additionals. rewrite address_and_nsec_content. cbn [app]. intros Hx Hy E.
  assert (K : forall z, In z (dns_service s :: dns_text s :: map (a_record s) (s_v4 s) ++ map (aaaa_record s) (s_v6 s) ++ nsec_part s) ->
              z = dns_service s \/ z = dns_text s \/ (exists a, z = a_record s a) \/ (exists a, z = aaaa_record s a) \/
              (exists m, z = dns_nsec s m /\ In z (nsec_part s))).
  { intros z [Hz|[Hz|Hz]]; [left; auto|right; left; auto|]. right. right.
    apply in_app_or in Hz as [Hz|Hz]; [left; apply in_map_iff in Hz as (a & Ea & _); exists a; auto|].
    apply in_app_or in Hz as [Hz|Hz]; [right; left; apply in_map_iff in Hz as (a & Ea & _); exists a; auto|].
    right. right. unfold nsec_part in Hz |- *. destruct (s_v4 s), (s_v6 s); [| | |destruct Hz]; (destruct Hz as [Hz|[]]; eexists; (split; [symmetry; exact Hz|left; exact Hz])). }
  destruct (K x Hx) as [-> |[-> |[(a & ->)|[(a & ->)|(m & -> & Hm)]]]];
  destruct (K y Hy) as [-> |[-> |[(b & ->)|[(b & ->)|(m' & -> & Hm')]]]]; try reflexivity; try discriminate E.
  - apply addr_gen_eq in E as [Ea Et]; [|reflexivity]. cbn [a_record aaaa_record set_address p_address] in Ea. subst b. reflexivity.
  - apply addr_gen_eq in E as [Ea Et]; [|reflexivity]. cbv in Et. discriminate Et.
  - apply addr_gen_eq in E as [Ea Et]; [|reflexivity]. cbv in Et. discriminate Et.
  - apply addr_gen_eq in E as [Ea Et]; [|reflexivity]. cbn [a_record aaaa_record set_address p_address] in Ea. subst b. reflexivity.
  - unfold nsec_part in Hm, Hm'. destruct (s_v4 s), (s_v6 s); [| | |destruct Hm]; (destruct Hm as [Hm|[]]; destruct Hm' as [Hm'|[]]; congruence).
Qed.

(* the additional section: every additional of every answer, except those with the identity of an answer or of an earlier one *)
Definition add_step (ans : list pyrec) (acc : list pyrec) (x : pyrec) : list pyrec :=
  if existsb (fun y => gen_eq y x) (ans ++ acc) then acc else acc ++ [x].

Lemma additionals_flat (ans : list pyrec) (a : answer_set) : forall acc,
  fold_left (fun acc ra => fold_left (add_step ans) (snd ra) acc) a acc = fold_left (add_step ans) (flat_map snd a) acc.
Proof.
  induction a as [|ra a IH]; intro acc; cbn [fold_left flat_map]; [reflexivity|]. rewrite fold_left_app. apply IH.
Qed.

Lemma answers_additionals_eq a :
  answers_additionals a = (map fst a, fold_left (add_step (map fst a)) (flat_map snd a) []).
Proof. unfold answers_additionals. rewrite <- additionals_flat. reflexivity. Qed.

Lemma add_fold_sub ans : forall xs acc y, In y (fold_left (add_step ans) xs acc) -> In y acc \/ In y xs.
Proof.
  induction xs as [|x xs IH]; intros acc y H; cbn [fold_left] in H; [left; exact H|].
  apply IH in H as [H|H]; [|right; right; exact H]. unfold add_step in H.
  destruct (existsb (fun y0 => gen_eq y0 x) (ans ++ acc)); [left; exact H|].
  apply in_app_or in H as [H|[H|[]]]; [left; exact H|right; left; exact H].
Qed.

Lemma add_fold_keeps ans : forall xs acc y, In y acc -> In y (fold_left (add_step ans) xs acc).
Proof.
  induction xs as [|x xs IH]; intros acc y H; cbn [fold_left]; [exact H|]. apply IH. unfold add_step.
  destruct (existsb (fun y0 => gen_eq y0 x) (ans ++ acc)); [exact H|apply in_or_app; left; exact H].
Qed.

Lemma add_fold_has ans : forall xs acc x, In x xs ->
  exists y, In y (ans ++ fold_left (add_step ans) xs acc) /\ gen_eq y x = true.
Proof.
  induction xs as [|x0 xs IH]; intros acc x H; [destruct H|]. cbn [fold_left]. destruct H as [->|H]; [|apply IH; exact H].
  unfold add_step at 2. destruct (existsb (fun y0 => gen_eq y0 x) (ans ++ acc)) eqn:E.
  - apply existsb_exists in E as (y & Hy & Ey). exists y. split; [|exact Ey].
    apply in_app_or in Hy as [Hy|Hy]; apply in_or_app; [left; exact Hy|right; apply add_fold_keeps; exact Hy].
  - exists x. split; [|apply eq_refl_]. apply in_or_app. right. apply add_fold_keeps. apply in_or_app. right. left. reflexivity.
Qed.

(* a reply built from records of one service carries, as a set, exactly the answers and their additionals *)
Lemma reply_set s (a : answer_set) :
  (forall y, In y (map fst a ++ flat_map snd a) -> In y (own_additionals s)) ->
  forall y, In y (fst (answers_additionals a) ++ snd (answers_additionals a)) <-> In y (map fst a ++ flat_map snd a).
Proof.
  intros Hown y. rewrite answers_additionals_eq. cbn [fst snd]. split; intro H.
  - apply in_app_or in H as [H|H]; apply in_or_app; [left; exact H|].
    apply add_fold_sub in H as [[]|H]. right. exact H.
  - apply in_app_or in H as [H|H]; [apply in_or_app; left; exact H|].
    destruct (add_fold_has (map fst a) (flat_map snd a) [] y H) as (z & Hz & Ez).
    assert (Hzo : In z (own_additionals s)).
    { apply Hown. apply in_app_or in Hz as [Hz|Hz]; apply in_or_app; [left; exact Hz|].
      apply add_fold_sub in Hz as [[]|Hz]. right. exact Hz. }
    assert (Hyo : In y (own_additionals s)) by (apply Hown; apply in_or_app; right; exact H).
    rewrite <- (own_identity s y z Hyo Hzo Ez). exact Hz.
Qed.

Lemma multicast_records a : reply_records (construct_multicast a) = fst (answers_additionals a) ++ snd (answers_additionals a).
Proof.
  unfold reply_records, construct_multicast. destruct (answers_additionals a) as [ans adds]. cbn [o_answers o_additionals fst snd].
  rewrite map_map. cbn [fst]. rewrite map_id. reflexivity.
Qed.

Lemma unicast_records a u qs id : reply_records (construct_unicast a u qs id) = fst (answers_additionals a) ++ snd (answers_additionals a).
Proof.
  unfold reply_records, construct_unicast. destruct (answers_additionals a) as [ans adds]. cbn [o_answers o_additionals fst snd].
  rewrite map_map. cbn [fst]. rewrite map_id. reflexivity.
Qed.

Lemma multicast_answers a : o_answers (construct_multicast a) = map (fun r => (r, 0)) (map fst a).
Proof. unfold construct_multicast. rewrite answers_additionals_eq. reflexivity. Qed.

Lemma unicast_answers a u qs id : o_answers (construct_unicast a u qs id) = map (fun r => (r, 0)) (map fst a).
Proof. unfold construct_unicast. rewrite answers_additionals_eq. reflexivity. Qed.

Lemma unicast_header a qs id :
  o_id (construct_unicast a false qs id) = id /\ o_multicast (construct_unicast a false qs id) = false /\
  o_questions (construct_unicast a false qs id) = [] /\ o_flags (construct_unicast a false qs id) = 33792.
Proof. unfold construct_unicast. destruct (answers_additionals a). repeat split. Qed.

Lemma multicast_header a :
  o_id (construct_multicast a) = 0 /\ o_multicast (construct_multicast a) = true /\
  o_questions (construct_multicast a) = [] /\ o_flags (construct_multicast a) = 33792.
Proof. unfold construct_multicast. destruct (answers_additionals a). repeat split. Qed.

(* [carries m ans recs]: the answer section of m is ans, and its answer + additional sections hold exactly the records recs *)
Definition carries (m : out_msg) (ans recs : list pyrec) : Prop :=
  map fst (o_answers m) = ans /\ forall y, In y (reply_records m) <-> In y recs.

Lemma carries_both s m :
  (exists qs id, m = construct_unicast (srv_part s ++ txt_part s) false qs id) \/ m = construct_multicast (srv_part s ++ txt_part s) ->
  carries m [dns_service s; dns_text s] (own_additionals s).
Proof.
  assert (R : forall y, In y (fst (answers_additionals (srv_part s ++ txt_part s)) ++ snd (answers_additionals (srv_part s ++ txt_part s)))
                        <-> In y (own_additionals s)).
  { intro y. rewrite (reply_set s).
    - unfold srv_part, txt_part, own_additionals. cbn [app map fst flat_map snd]. rewrite !app_nil_r. reflexivity.
    - unfold srv_part, txt_part, own_additionals. cbn [app map fst flat_map snd]. rewrite !app_nil_r. intros z Hz. exact Hz. }
  intros [(qs & id & ->)| ->]; split.
  - rewrite unicast_answers, map_map. reflexivity.
  - intro y. rewrite unicast_records. apply R.
  - rewrite multicast_answers, map_map. reflexivity.
  - intro y. rewrite multicast_records. apply R.
Qed.

Lemma carries_srv s m :
  (exists qs id, m = construct_unicast (srv_part s) false qs id) \/ m = construct_multicast (srv_part s) ->
  carries m [dns_service s] (dns_service s :: address_and_nsec s).
Proof.
  assert (R : forall y, In y (fst (answers_additionals (srv_part s)) ++ snd (answers_additionals (srv_part s)))
                        <-> In y (dns_service s :: address_and_nsec s)).
  { intro y. rewrite (reply_set s).
    - unfold srv_part. cbn [app map fst flat_map snd]. rewrite !app_nil_r. reflexivity.
    - unfold srv_part, own_additionals. cbn [app map fst flat_map snd]. rewrite !app_nil_r. intros z [Hz|Hz]; [left; exact Hz|right; right; exact Hz]. }
  intros [(qs & id & ->)| ->]; split.
  - rewrite unicast_answers, map_map. reflexivity.
  - intro y. rewrite unicast_records. apply R.
  - rewrite multicast_answers, map_map. reflexivity.
  - intro y. rewrite multicast_records. apply R.
Qed.

Lemma carries_txt s m :
  (exists qs id, m = construct_unicast (txt_part s) false qs id) \/ m = construct_multicast (txt_part s) ->
  carries m [dns_text s] [dns_text s].
Proof.
  intros [(qs & id & ->)| ->]; split; try reflexivity; intro y; reflexivity.
Qed.

Print Assumptions lookup_first_query_eq.
Print Assumptions lookup_nstep.
Print Assumptions carries_both.
