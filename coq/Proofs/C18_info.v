(* C18: the service-info lookup (ServiceInfo as a resolver, info.py).
   Theorems about Model/Info.v: which records a ServiceInfo believes (process_record), the cache-first
   shortcut of async_request, what its return value means, the timeout bound, QU/QM question types and
   the pacing of the lookup queries. *)
From Coq Require Import ZArith List Bool Lia ZifyBool.
From ZC Require Import Model.Base Model.PyRec Model.Dict Model.Re Model.Cache Model.Query
  Gen.Const Gen.DnsPure Model.Info.
Ltac Zify.zify_post_hook ::= Z.to_euclidean_division_equations.

(* ================================================================================================ *)
(*  1. complete_iff: the lookup succeeds iff it knows at least one address                          *)
(* ================================================================================================ *)

Lemma nonempty_true_iff {A} (l : list A) : nonempty l = true <-> l <> [].
Proof. destruct l as [|x l]; simpl; split; intro H; congruence. Qed.

Theorem complete_iff i : is_complete i = true <-> si_v4 i <> [] \/ si_v6 i <> [].
Proof.
  unfold is_complete. rewrite orb_true_iff, !nonempty_true_iff. tauto.
Qed.

Corollary incomplete_iff i : is_complete i = false <-> si_v4 i = [] /\ si_v6 i = [].
Proof.
  unfold is_complete. rewrite orb_false_iff.
  destruct (si_v4 i) as [|a l], (si_v6 i) as [|b l']; simpl; split; intros [H1 H2]; split; congruence.
Qed.

(* ================================================================================================ *)
(*  2. expired_ignored                                                                              *)
(* ================================================================================================ *)

Theorem expired_ignored c now i r :
  DNSRecord_is_expired r now = true -> process_record c now i r = (i, false).
Proof. intro Hexp. unfold process_record. rewrite Hexp. reflexivity. Qed.

(* ================================================================================================ *)
(*  3. sources: where the fields of a ServiceInfo come from (one record)                            *)
(* ================================================================================================ *)

Lemma bytes_eqb_eq a b : bytes_eqb a b = true <-> a = b.
Proof. apply list_eqb_eq. intros; apply Z.eqb_eq. Qed.

Lemma opt_text_eqb_eq a b : opt_text_eqb a b = true <-> a = b.
Proof.
  destruct a as [x|], b as [y|]; simpl; split; intro H; try discriminate; try reflexivity.
  - apply text_eqb_eq in H. congruence.
  - inversion H; subst. apply text_eqb_refl.
Qed.

Lemma remove_bytes_In a x l : In a (remove_bytes x l) -> In a l.
Proof. unfold remove_bytes. intro H. apply filter_In in H. tauto. Qed.

(* the LIFO insert only ever adds the inserted address *)
Lemma lifo_insert_In x l a : In a (fst (lifo_insert x l)) -> a = x \/ In a l.
Proof.
  unfold lifo_insert. destruct (negb (mem_bytes x l)) eqn:Emem; simpl.
  - intros [H|H]; auto.
  - destruct l as [|y l']; [simpl; tauto|].
    destruct (bytes_eqb x y) eqn:Exy; cbn [fst].
    + auto.
    + intros [H|H]; [auto|]. right. eapply remove_bytes_In; eauto.
Qed.

(* ... and keeps every address it had *)
Lemma lifo_insert_keeps x l a : In a l -> In a (fst (lifo_insert x l)).
Proof.
  unfold lifo_insert. intro Hin. destruct (negb (mem_bytes x l)) eqn:Emem; cbn [fst]; [right; exact Hin|].
  destruct l as [|y l']; [exact Hin|].
  destruct (bytes_eqb x y) eqn:Exy; cbn [fst]; [exact Hin|].
  destruct (list_eq_dec Z.eq_dec a x) as [->|Hne]; [left; reflexivity|]. right.
  unfold remove_bytes. apply filter_In. split; [exact Hin|].
  destruct (bytes_eqb x a) eqn:Exa; [|reflexivity].
  apply bytes_eqb_eq in Exa. congruence.
Qed.

Lemma lifo_insert_has x l : In x (fst (lifo_insert x l)).
Proof.
  unfold lifo_insert. destruct (negb (mem_bytes x l)) eqn:Emem; cbn [fst]; [left; reflexivity|].
  destruct l as [|y l'].
  - unfold mem_bytes in Emem. simpl in Emem. discriminate.
  - destruct (bytes_eqb x y) eqn:Exy; cbn [fst]; [|left; reflexivity].
    apply bytes_eqb_eq in Exy. left. congruence.
Qed.

(* the accumulator of _get_ip_addresses_from_cache_lifo *)
Definition afc_step (now : Z) (acc : list bytes) (r : pyrec) : list bytes :=
  if DNSRecord_is_expired r now then acc
  else match ip_version (p_address r) with
       | Some _ => if mem_bytes (p_address r) acc then acc else acc ++ [p_address r]
       | None => acc
       end.

Lemma afc_fold_sound now a : forall (rs : list pyrec) (acc : list bytes),
  In a (fold_left (afc_step now) rs acc) ->
  In a acc \/ exists x, In x rs /\ p_address x = a /\ DNSRecord_is_expired x now = false
                        /\ ip_version a <> None.
Proof.
  induction rs as [|r rs IH]; intros acc Hin; simpl in Hin; [auto|].
  apply IH in Hin. destruct Hin as [Hin|[x [Hx1 Hx2]]].
  - unfold afc_step in Hin. destruct (DNSRecord_is_expired r now) eqn:Eexp; [auto|].
    destruct (ip_version (p_address r)) as [v|] eqn:Eip; [|auto].
    destruct (mem_bytes (p_address r) acc); [auto|].
    apply in_app_or in Hin. destruct Hin as [Hin|Hin]; [auto|].
    simpl in Hin. destruct Hin as [Hin|[]]. right. exists r. subst a.
    repeat split; simpl; auto. congruence.
  - right. exists x. split; [simpl; auto|exact Hx2].
Qed.

Theorem addresses_from_cache_sound c now k ty v a :
  In a (addresses_from_cache c now (Some k) ty v) ->
  exists x, In x (get_all_by_details c k ty C_CLASS_IN) /\ p_address x = a /\ DNSRecord_is_expired x now = false.
Proof.
  unfold addresses_from_cache. intro Hin. apply in_rev in Hin.
  change (In a (fold_left (afc_step now) (get_all_by_details c k ty C_CLASS_IN) [])) in Hin.
  apply afc_fold_sound in Hin. destruct Hin as [[]|[x [H1 [H2 [H3 _]]]]].
  exists x. auto.
Qed.

(* additionally: only well-formed (4- or 16-byte) addresses are taken from the cache *)
Theorem addresses_from_cache_wellformed c now k ty v a :
  In a (addresses_from_cache c now k ty v) -> length a = 4%nat \/ length a = 16%nat.
Proof.
  destruct k as [k|]; [|intros []].
  unfold addresses_from_cache. intro Hin. apply in_rev in Hin.
  change (In a (fold_left (afc_step now) (get_all_by_details c k ty C_CLASS_IN) [])) in Hin.
  apply afc_fold_sound in Hin. destruct Hin as [[]|[x [_ [_ [_ Hip]]]]].
  unfold ip_version in Hip.
  destruct (length a =? 4)%nat eqn:E4; [apply Nat.eqb_eq in E4; auto|].
  destruct (length a =? 16)%nat eqn:E16; [apply Nat.eqb_eq in E16; auto|congruence].
Qed.

(* "r is an unexpired record of kind k" *)
Definition live_kind (r : pyrec) (now : Z) (k : kind) : Prop :=
  DNSRecord_is_expired r now = false /\ p_kind r = k.

(* the two ways an address can be learnt from one record:
   - r is a live address record of the host the info currently points at, or
   - r is a live SRV record of this instance that moves the info to a new host, whose live cached
     addresses (of the right type) are adopted *)
Definition learnt_from_address (now : Z) (i : sinfo) (r : pyrec) (a : bytes) : Prop :=
  live_kind r now KAddress /\ si_server_key i = Some (lower (p_name r)) /\ a = p_address r.

Definition learnt_from_new_host (c : cache) (now : Z) (i : sinfo) (r : pyrec) (ty : Z) (a : bytes) : Prop :=
  live_kind r now KService /\ lower (p_name r) = si_key i /\
  si_server_key i <> Some (lower (p_server r)) /\
  exists x, In x (get_all_by_details c (lower (p_server r)) ty C_CLASS_IN) /\
            p_address x = a /\ DNSRecord_is_expired x now = false.

Ltac pr_split H r now i Eexp Eaddr Ekey Etxt Esrv :=
  unfold process_record in H;
  destruct (DNSRecord_is_expired r now) eqn:Eexp;
  [| destruct (kind_eqb (p_kind r) KAddress && opt_text_eqb (Some (lower (p_name r))) (si_server_key i)) eqn:Eaddr;
     [| destruct (negb (text_eqb (lower (p_name r)) (si_key i))) eqn:Ekey;
        [| destruct (kind_eqb (p_kind r) KText) eqn:Etxt;
           [| destruct (kind_eqb (p_kind r) KService) eqn:Esrv ] ] ] ].

Theorem sources_v4 c now i r i' u a :
  process_record c now i r = (i', u) -> In a (si_v4 i') ->
  In a (si_v4 i) \/ learnt_from_address now i r a \/ learnt_from_new_host c now i r C_TYPE_A a.
Proof.
  intros H Hin. pr_split H r now i Eexp Eaddr Ekey Etxt Esrv.
  - inversion H; subst; auto.
  - apply andb_true_iff in Eaddr as [Ek Es]. apply kind_eqb_eq in Ek. apply opt_text_eqb_eq in Es.
    unfold ip_version in H.
    destruct (length (p_address r) =? 4)%nat eqn:E4; [|destruct (length (p_address r) =? 16)%nat eqn:E16];
      cbv beta iota in H.
    + destruct (lifo_insert (p_address r) (si_v4 i)) as [l added] eqn:El.
      inversion H; subst; simpl in Hin.
      assert (Hl : l = fst (lifo_insert (p_address r) (si_v4 i))) by (rewrite El; reflexivity).
      rewrite Hl in Hin. apply lifo_insert_In in Hin. destruct Hin as [Hin|Hin]; [|auto].
      right; left. unfold learnt_from_address, live_kind. auto.
    + destruct (lifo_insert (p_address r) (si_v6 i)) as [l added] eqn:El.
      inversion H; subst; simpl in Hin. auto.
    + inversion H; subst; auto.
  - inversion H; subst; auto.
  - inversion H; subst; simpl in Hin; auto.
  - inversion H; subst; cbn [si_v4 si_v6] in Hin.
    destruct (negb (opt_text_eqb (si_server_key i) (Some (lower (p_server r))))) eqn:Ech; [|auto].
    right; right. apply kind_eqb_eq in Esrv. apply negb_false_iff in Ekey. apply text_eqb_eq in Ekey.
    apply (addresses_from_cache_sound c now _ _ 4) in Hin.
    unfold learnt_from_new_host, live_kind.
    split; [split; [exact Eexp|exact Esrv]|]. split; [exact Ekey|]. split; [|exact Hin].
    intro Heq. apply negb_true_iff in Ech. apply (proj2 (opt_text_eqb_eq _ _)) in Heq. congruence.
  - inversion H; subst; auto.
Qed.

Theorem sources_v6 c now i r i' u a :
  process_record c now i r = (i', u) -> In a (si_v6 i') ->
  In a (si_v6 i) \/ learnt_from_address now i r a \/ learnt_from_new_host c now i r C_TYPE_AAAA a.
Proof.
  intros H Hin. pr_split H r now i Eexp Eaddr Ekey Etxt Esrv.
  - inversion H; subst; auto.
  - apply andb_true_iff in Eaddr as [Ek Es]. apply kind_eqb_eq in Ek. apply opt_text_eqb_eq in Es.
    unfold ip_version in H.
    destruct (length (p_address r) =? 4)%nat eqn:E4; [|destruct (length (p_address r) =? 16)%nat eqn:E16];
      cbv beta iota in H.
    + destruct (lifo_insert (p_address r) (si_v4 i)) as [l added] eqn:El.
      inversion H; subst; simpl in Hin. auto.
    + destruct (lifo_insert (p_address r) (si_v6 i)) as [l added] eqn:El.
      inversion H; subst; simpl in Hin.
      assert (Hl : l = fst (lifo_insert (p_address r) (si_v6 i))) by (rewrite El; reflexivity).
      rewrite Hl in Hin. apply lifo_insert_In in Hin. destruct Hin as [Hin|Hin]; [|auto].
      right; left. unfold learnt_from_address, live_kind. auto.
    + inversion H; subst; auto.
  - inversion H; subst; auto.
  - inversion H; subst; simpl in Hin; auto.
  - inversion H; subst; cbn [si_v4 si_v6] in Hin.
    destruct (negb (opt_text_eqb (si_server_key i) (Some (lower (p_server r))))) eqn:Ech; [|auto].
    right; right. apply kind_eqb_eq in Esrv. apply negb_false_iff in Ekey. apply text_eqb_eq in Ekey.
    apply (addresses_from_cache_sound c now _ _ 6) in Hin.
    unfold learnt_from_new_host, live_kind.
    split; [split; [exact Eexp|exact Esrv]|]. split; [exact Ekey|]. split; [|exact Hin].
    intro Heq. apply negb_true_iff in Ech. apply (proj2 (opt_text_eqb_eq _ _)) in Heq. congruence.
  - inversion H; subst; auto.
Qed.

(* the SRV-derived fields *)
Definition srv_fields (i : sinfo) : option text * option Z * Z * Z :=
  (si_server i, si_port i, si_weight i, si_priority i).

Theorem sources_service c now i r i' u :
  process_record c now i r = (i', u) -> srv_fields i' <> srv_fields i ->
  live_kind r now KService /\ lower (p_name r) = si_key i /\
  srv_fields i' = (Some (p_server r), Some (p_port r), p_weight r, p_priority r).
Proof.
  intros H Hne. pr_split H r now i Eexp Eaddr Ekey Etxt Esrv.
  - inversion H; subst; congruence.
  - exfalso. unfold ip_version in H.
    destruct (length (p_address r) =? 4)%nat eqn:E4; [|destruct (length (p_address r) =? 16)%nat eqn:E16];
      cbv beta iota in H.
    + destruct (lifo_insert (p_address r) (si_v4 i)) as [l added] eqn:El.
      inversion H; subst. apply Hne. reflexivity.
    + destruct (lifo_insert (p_address r) (si_v6 i)) as [l added] eqn:El.
      inversion H; subst. apply Hne. reflexivity.
    + inversion H; subst; congruence.
  - inversion H; subst; congruence.
  - exfalso. inversion H; subst. apply Hne. reflexivity.
  - inversion H; subst. apply kind_eqb_eq in Esrv. apply negb_false_iff in Ekey. apply text_eqb_eq in Ekey.
    unfold live_kind. repeat split; auto.
  - inversion H; subst; congruence.
Qed.

Theorem sources_text c now i r i' u :
  process_record c now i r = (i', u) -> si_text i' <> si_text i ->
  live_kind r now KText /\ lower (p_name r) = si_key i /\ si_text i' = p_text r.
Proof.
  intros H Hne. pr_split H r now i Eexp Eaddr Ekey Etxt Esrv.
  - inversion H; subst; congruence.
  - exfalso. unfold ip_version in H.
    destruct (length (p_address r) =? 4)%nat eqn:E4; [|destruct (length (p_address r) =? 16)%nat eqn:E16];
      cbv beta iota in H.
    + destruct (lifo_insert (p_address r) (si_v4 i)) as [l added] eqn:El.
      inversion H; subst. apply Hne. reflexivity.
    + destruct (lifo_insert (p_address r) (si_v6 i)) as [l added] eqn:El.
      inversion H; subst. apply Hne. reflexivity.
    + inversion H; subst; congruence.
  - inversion H; subst; congruence.
  - inversion H; subst. apply kind_eqb_eq in Etxt. apply negb_false_iff in Ekey. apply text_eqb_eq in Ekey.
    unfold live_kind. simpl. repeat split; auto.
  - exfalso. inversion H; subst. apply Hne. reflexivity.
  - inversion H; subst; congruence.
Qed.

(* ================================================================================================ *)
(*  The async_request state machine: vocabulary                                                     *)
(* ================================================================================================ *)

(* the state async_request starts its loop in (after _load_from_cache) *)
Definition req_init (c : cache) (name : text) (now timeout : Z) (forced : option bool) : req :=
  {| rq_info := load_from_cache c now (sinfo_init name); rq_next := now; rq_last := now + timeout;
     rq_delay := C_LISTENER_TIME; rq_first := true; rq_forced := forced; rq_done := None |}.

Definition set_done (r : req) (d : option bool) : req :=
  {| rq_info := rq_info r; rq_next := rq_next r; rq_last := rq_last r; rq_delay := rq_delay r;
     rq_first := rq_first r; rq_forced := rq_forced r; rq_done := d |}.

(* the question type a query sent from state r would use *)
Definition turn_qu (r : req) : bool :=
  if rq_first r then match rq_forced r with Some b => b | None => true end else false.

(* the state after a query turn at time now with draw rnd *)
Definition after_query (r : req) (now rnd : Z) : req :=
  {| rq_info := rq_info r; rq_next := now + rq_delay r + rnd; rq_last := rq_last r;
     rq_delay := if negb (turn_qu r) && (rq_delay r <? C_DUPLICATE_QUESTION_INTERVAL)
                 then C_DUPLICATE_QUESTION_INTERVAL else rq_delay r;
     rq_first := false; rq_forced := rq_forced r; rq_done := None |}.

(* "a turn at time now is a query turn": the loop is still running, not timed out, and a query is due
   (the query message may still come out empty when every question is suppressed) *)
Definition query_turn (r : req) (now : Z) : Prop :=
  is_complete (rq_info r) = false /\ rq_next r <= now < rq_last r.

Definition lookup_server (r : req) : text :=
  match si_server (rq_info r) with Some s => s | None => si_name (rq_info r) end.

(* the four things one loop turn can do *)
Lemma loop_turn_cases c h r now rnd :
  (is_complete (rq_info r) = true /\
   loop_turn c h r now rnd = (set_done r (Some true), h, [RReturn now true]))
  \/ (is_complete (rq_info r) = false /\ rq_last r <= now /\
      loop_turn c h r now rnd = (set_done r (Some false), h, [RReturn now false]))
  \/ (query_turn r now /\
      exists m h', generate_request_query c h now (si_name (rq_info r)) (lookup_server r) (turn_qu r) = (m, h') /\
        loop_turn c h r now rnd =
          (after_query r now rnd, h', match qm_qs m with [] => [] | _ => [RSend now (turn_qu r) m] end))
  \/ (is_complete (rq_info r) = false /\ now < rq_last r /\ now < rq_next r /\
      loop_turn c h r now rnd = (r, h, [])).
Proof.
  unfold loop_turn.
  destruct (is_complete (rq_info r)) eqn:Ec; [left; split; reflexivity|].
  destruct (rq_last r <=? now) eqn:El; [right; left; split; [reflexivity|split; [lia|reflexivity]]|].
  destruct (rq_next r <=? now) eqn:En.
  - right; right; left. split; [unfold query_turn; split; [exact Ec|lia]|].
    fold (lookup_server r). fold (turn_qu r).
    destruct (generate_request_query c h now (si_name (rq_info r)) (lookup_server r) (turn_qu r)) as [m h'] eqn:Eg.
    exists m, h'. split; reflexivity.
  - right; right; right. split; [reflexivity|]. split; [lia|]. split; [lia|reflexivity].
Qed.

Lemma request_start_eq c h name now timeout rnd forced :
  request_start c h name now timeout rnd forced = loop_turn c h (req_init c name now timeout forced) now rnd.
Proof.
  unfold request_start. fold (req_init c name now timeout forced).
  destruct (is_complete (load_from_cache c now (sinfo_init name))) eqn:Ec; [|reflexivity].
  unfold loop_turn. cbn [req_init rq_info]. rewrite Ec. reflexivity.
Qed.

(* ================================================================================================ *)
(*  4. cache_first                                                                                  *)
(* ================================================================================================ *)

Theorem cache_first c h name now timeout rnd forced :
  is_complete (load_from_cache c now (sinfo_init name)) = true ->
  request_start c h name now timeout rnd forced =
    (set_done (req_init c name now timeout forced) (Some true), h, [RReturn now true]).
Proof.
  intro Hc. unfold request_start. rewrite Hc. reflexivity.
Qed.

(* spelled out: no RSend, the only output is the successful return, the history is untouched *)
Corollary cache_first_outputs c h name now timeout rnd forced r h' outs :
  is_complete (load_from_cache c now (sinfo_init name)) = true ->
  request_start c h name now timeout rnd forced = (r, h', outs) ->
  outs = [RReturn now true] /\ h' = h /\ (forall t qu m, ~ In (RSend t qu m) outs) /\
  rq_done r = Some true /\ rq_info r = load_from_cache c now (sinfo_init name).
Proof.
  intros Hc Hs. rewrite (cache_first _ _ _ _ _ _ _ Hc) in Hs. inversion Hs; subst.
  repeat split; try reflexivity.
  intros t qu m [Hin|[]]. discriminate.
Qed.

(* ================================================================================================ *)
(*  5. return_iff                                                                                   *)
(* ================================================================================================ *)

Theorem return_iff_turn c h r now rnd r' h' outs t b :
  loop_turn c h r now rnd = (r', h', outs) -> In (RReturn t b) outs ->
  (b = true <-> is_complete (rq_info r') = true) /\ (b = false -> rq_last r' <= t) /\
  t = now /\ rq_done r' = Some b /\ outs = [RReturn t b] /\ h' = h /\ rq_info r' = rq_info r.
Proof.
  intros Ht Hin.
  destruct (loop_turn_cases c h r now rnd) as [[Hc E]|[[Hc [Hl E]]|[[Hq [m [h1 [Eg E]]]]|[Hc [Hl [Hn E]]]]]];
    rewrite E in Ht; inversion Ht; subst; clear Ht.
  - destruct Hin as [Hin|[]]. inversion Hin; subst. cbn [set_done rq_info rq_last rq_done].
    repeat split; auto. intro Hd; discriminate.
  - destruct Hin as [Hin|[]]. inversion Hin; subst. cbn [set_done rq_info rq_last rq_done].
    repeat split; auto; try congruence.
  - destruct (qm_qs m); [destruct Hin|]. destruct Hin as [Hin|[]]. discriminate.
  - destruct Hin.
Qed.

Theorem return_iff_start c h name now timeout rnd forced r' h' outs t b :
  request_start c h name now timeout rnd forced = (r', h', outs) -> In (RReturn t b) outs ->
  (b = true <-> is_complete (rq_info r') = true) /\ (b = false -> rq_last r' <= t) /\
  t = now /\ rq_done r' = Some b /\ outs = [RReturn t b] /\ h' = h.
Proof.
  rewrite request_start_eq. intros Ht Hin.
  destruct (return_iff_turn _ _ _ _ _ _ _ _ _ _ Ht Hin) as [H1 [H2 [H3 [H4 [H5 [H6 _]]]]]].
  repeat split; auto; apply H1.
Qed.

(* ================================================================================================ *)
(*  Runs of the state machine                                                                       *)
(* ================================================================================================ *)

(* what can happen to a pending async_request: its loop takes a turn (it woke up, at time now, and
   if it sends it draws rnd; the cache it sees is c), or the record-update listener hands it records *)
Inductive step :=
| Turn (c : cache) (now rnd : Z)
| Update (c1 : cache) (now : Z) (news : list pyrec).

Definition step_time (st : step) : Z :=
  match st with Turn _ now _ => now | Update _ now _ => now end.

(* a coroutine that has returned does nothing any more (request_update already says so for updates) *)
Definition do_step (r : req) (h : history) (st : step) : req * history * list rq_out :=
  match st with
  | Turn c now rnd =>
      match rq_done r with
      | Some _ => (r, h, [])
      | None => loop_turn c h r now rnd
      end
  | Update c1 now news => (fst (request_update c1 now r news), h, [])
  end.

Fixpoint run (r : req) (h : history) (steps : list step) : req * history * list rq_out :=
  match steps with
  | [] => (r, h, [])
  | st :: rest =>
      let '(r1, h1, o1) := do_step r h st in
      let '(r2, h2, o2) := run r1 h1 rest in
      (r2, h2, o1 ++ o2)
  end.

(* punctual: times never decrease (starting from t), and no turn happens later than the time the
   coroutine's wait times out *)
Fixpoint punctual (r : req) (h : history) (t : Z) (steps : list step) : Prop :=
  match steps with
  | [] => True
  | st :: rest =>
      t <= step_time st /\
      match st with Turn _ now _ => now <= wake_at r | Update _ _ _ => True end /\
      punctual (fst (fst (do_step r h st))) (snd (fst (do_step r h st))) (step_time st) rest
  end.

(* a whole lookup: async_request called at t0 (first draw rnd0), then the given steps *)
Definition lookup (c : cache) (h : history) (name : text) (t0 timeout : Z) (forced : option bool)
                  (rnd0 : Z) (steps : list step) : req * history * list rq_out :=
  let '(r, h1, o0) := request_start c h name t0 timeout rnd0 forced in
  let '(r', h', o) := run r h1 steps in
  (r', h', o0 ++ o).

Definition lookup_punctual (c : cache) (h : history) (name : text) (t0 timeout : Z) (forced : option bool)
                           (rnd0 : Z) (steps : list step) : Prop :=
  punctual (fst (fst (request_start c h name t0 timeout rnd0 forced)))
           (snd (fst (request_start c h name t0 timeout rnd0 forced))) t0 steps.

(* a lookup is a run from the initial state whose first step is a turn at t0 *)
Lemma lookup_as_run c h name t0 timeout forced rnd0 steps :
  lookup c h name t0 timeout forced rnd0 steps =
  run (req_init c name t0 timeout forced) h (Turn c t0 rnd0 :: steps).
Proof.
  unfold lookup. cbn [run do_step req_init rq_done]. fold (req_init c name t0 timeout forced).
  rewrite request_start_eq. reflexivity.
Qed.

Definition out_time (o : rq_out) : Z := match o with RSend t _ _ => t | RReturn t _ => t end.

Lemma loop_turn_out_time c h r now rnd r' h' outs o :
  loop_turn c h r now rnd = (r', h', outs) -> In o outs -> out_time o = now.
Proof.
  intros Ht Hin.
  destruct (loop_turn_cases c h r now rnd) as [[Hc E]|[[Hc [Hl E]]|[[Hq [m [h1 [Eg E]]]]|[Hc [Hl [Hn E]]]]]];
    rewrite E in Ht; inversion Ht; subst; clear Ht.
  - destruct Hin as [Hin|[]]. subst o. reflexivity.
  - destruct Hin as [Hin|[]]. subst o. reflexivity.
  - destruct (qm_qs m); [destruct Hin|]. destruct Hin as [Hin|[]]. subst o. reflexivity.
  - destruct Hin.
Qed.

(* the things no step changes *)
Lemma loop_turn_const c h r now rnd r' h' outs :
  loop_turn c h r now rnd = (r', h', outs) -> rq_last r' = rq_last r /\ rq_forced r' = rq_forced r.
Proof.
  intros Ht.
  destruct (loop_turn_cases c h r now rnd) as [[Hc E]|[[Hc [Hl E]]|[[Hq [m [h1 [Eg E]]]]|[Hc [Hl [Hn E]]]]]];
    rewrite E in Ht; inversion Ht; subst; clear Ht; split; reflexivity.
Qed.

Lemma request_update_fields c1 now r news :
  let r' := fst (request_update c1 now r news) in
  rq_last r' = rq_last r /\ rq_forced r' = rq_forced r /\ rq_next r' = rq_next r /\
  rq_delay r' = rq_delay r /\ rq_first r' = rq_first r /\ rq_done r' = rq_done r.
Proof.
  unfold request_update. destruct (rq_done r) as [d|] eqn:Ed.
  - cbn [fst]. rewrite Ed. repeat split; reflexivity.
  - destruct (process_records c1 now (rq_info r) (addresses_last news)) as [i' upd]. cbn. repeat split; reflexivity.
Qed.

Lemma do_step_const r h st r' h' outs :
  do_step r h st = (r', h', outs) -> rq_last r' = rq_last r /\ rq_forced r' = rq_forced r.
Proof.
  destruct st as [c now rnd|c1 now news]; cbn [do_step]; intro Hs.
  - destruct (rq_done r) as [d|]; [inversion Hs; subst; split; reflexivity|].
    eapply loop_turn_const; eauto.
  - inversion Hs; subst. pose proof (request_update_fields c1 now r news) as Hf. cbv zeta in Hf. tauto.
Qed.

Lemma run_const : forall steps r h r' h' outs,
  run r h steps = (r', h', outs) -> rq_last r' = rq_last r /\ rq_forced r' = rq_forced r.
Proof.
  induction steps as [|st rest IH]; intros r h r' h' outs Hr; cbn [run] in Hr.
  - inversion Hr; subst; split; reflexivity.
  - destruct (do_step r h st) as [[r1 h1] o1] eqn:Es.
    destruct (run r1 h1 rest) as [[r2 h2] o2] eqn:Er. inversion Hr; subst.
    apply do_step_const in Es. apply IH in Er. destruct Es as [E1 E2], Er as [E3 E4]. split; congruence.
Qed.

(* ================================================================================================ *)
(*  6. bounded                                                                                      *)
(* ================================================================================================ *)

(* the two essential lemmas *)
Lemma wake_at_le_last r : wake_at r <= rq_last r.
Proof. unfold wake_at. apply Z.le_min_r. Qed.

Lemma timed_out_returns c h r now rnd :
  is_complete (rq_info r) = false -> rq_last r <= now ->
  loop_turn c h r now rnd = (set_done r (Some false), h, [RReturn now false]).
Proof.
  intros Hc Hl. unfold loop_turn. rewrite Hc.
  destruct (rq_last r <=? now) eqn:El; [reflexivity|lia].
Qed.

Lemma punctual_run_bounded : forall steps r h t r' h' outs x b,
  punctual r h t steps -> run r h steps = (r', h', outs) -> In (RReturn x b) outs -> x <= rq_last r.
Proof.
  induction steps as [|st rest IH]; intros r h t r' h' outs x b Hp Hr Hin; cbn [run] in Hr.
  - inversion Hr; subst. destruct Hin.
  - destruct (do_step r h st) as [[r1 h1] o1] eqn:Es.
    destruct (run r1 h1 rest) as [[r2 h2] o2] eqn:Er. inversion Hr; subst. clear Hr.
    cbn [punctual] in Hp. destruct Hp as [Ht [Hw Hp]]. rewrite Es in Hp. cbn [fst snd] in Hp.
    apply in_app_or in Hin. destruct Hin as [Hin|Hin].
    + destruct st as [c now rnd|c1 now news]; cbn [do_step] in Es.
      * destruct (rq_done r) as [d|]; [inversion Es; subst; destruct Hin|].
        apply (loop_turn_out_time _ _ _ _ _ _ _ _ _ Es) in Hin. cbn [out_time] in Hin.
        pose proof (wake_at_le_last r). lia.
      * inversion Es; subst. destruct Hin.
    + pose proof (IH _ _ _ _ _ _ _ _ Hp Er Hin) as Hb.
      apply do_step_const in Es. destruct Es as [El _]. lia.
Qed.

(* every return of a punctual lookup happens no later than max t0 (t0 + timeout) ... *)
Theorem bounded_general c h name t0 timeout forced rnd0 steps r' h' outs t b :
  lookup_punctual c h name t0 timeout forced rnd0 steps ->
  lookup c h name t0 timeout forced rnd0 steps = (r', h', outs) ->
  In (RReturn t b) outs -> t <= Z.max t0 (t0 + timeout).
Proof.
  unfold lookup_punctual, lookup. intros Hp Hl Hin.
  destruct (request_start c h name t0 timeout rnd0 forced) as [[r h1] o0] eqn:Es.
  destruct (run r h1 steps) as [[r2 h2] o] eqn:Er. inversion Hl; subst. clear Hl.
  cbn [fst snd] in Hp. rewrite request_start_eq in Es.
  apply in_app_or in Hin. destruct Hin as [Hin|Hin].
  - apply (loop_turn_out_time _ _ _ _ _ _ _ _ _ Es) in Hin. cbn [out_time] in Hin. lia.
  - pose proof (punctual_run_bounded _ _ _ _ _ _ _ _ _ Hp Er Hin) as Hb.
    apply loop_turn_const in Es. destruct Es as [El _]. cbn [req_init rq_last] in El. lia.
Qed.

(* ... which is t0 + timeout for a non-negative timeout. The statement "t <= t0 + timeout" is false for
   a negative timeout: async_request then returns False immediately, at t0 > t0 + timeout. *)
Example bounded_needs_nonneg_timeout :
  lookup empty_cache [] [] 0 (-1) None 20 [] =
    (set_done (req_init empty_cache [] 0 (-1) None) (Some false), [], [RReturn 0 false])
  /\ lookup_punctual empty_cache [] [] 0 (-1) None 20 [] /\ ~ (0 <= 0 + -1).
Proof. split; [vm_compute; reflexivity|]. split; [exact I|lia]. Qed.

Theorem bounded_partial c h name t0 timeout forced rnd0 steps r' h' outs t b :
  0 <= timeout ->
  lookup_punctual c h name t0 timeout forced rnd0 steps ->
  lookup c h name t0 timeout forced rnd0 steps = (r', h', outs) ->
  In (RReturn t b) outs -> t <= t0 + timeout.
Proof.
  intros Hto Hp Hl Hin. pose proof (bounded_general _ _ _ _ _ _ _ _ _ _ _ _ _ Hp Hl Hin). lia.
Qed.

(* the deadline of the state reached by any lookup run is t0 + timeout *)
Lemma lookup_last c h name t0 timeout forced rnd0 steps r' h' outs :
  lookup c h name t0 timeout forced rnd0 steps = (r', h', outs) ->
  rq_last r' = t0 + timeout /\ rq_forced r' = forced.
Proof.
  rewrite lookup_as_run. intro Hr. apply run_const in Hr. exact Hr.
Qed.

(* a turn at the deadline (or later) of a lookup that still has no address returns False; at the
   deadline itself that is exactly t0 + timeout *)
Theorem timeout_exact c h name t0 timeout forced rnd0 steps r' h' outs c' rnd :
  lookup c h name t0 timeout forced rnd0 steps = (r', h', outs) ->
  is_complete (rq_info r') = false ->
  loop_turn c' h' r' (rq_last r') rnd = (set_done r' (Some false), h', [RReturn (t0 + timeout) false]).
Proof.
  intros Hl Hc. destruct (lookup_last _ _ _ _ _ _ _ _ _ _ _ Hl) as [El _].
  rewrite timed_out_returns; [|exact Hc|lia]. rewrite El. reflexivity.
Qed.

(* when the coroutine's wait times out (a turn at exactly wake_at) and it is still incomplete, the turn
   is never idle: it either returns False at the deadline or is a query turn *)
Theorem wake_turn_progress r :
  is_complete (rq_info r) = false ->
  (wake_at r = rq_last r /\ forall c h rnd,
      loop_turn c h r (wake_at r) rnd = (set_done r (Some false), h, [RReturn (rq_last r) false]))
  \/ query_turn r (wake_at r).
Proof.
  intro Hc. unfold wake_at. destruct (Z.le_gt_cases (rq_last r) (rq_next r)) as [Hle|Hgt].
  - left. rewrite Z.min_r by exact Hle. split; [reflexivity|]. intros c h rnd.
    apply timed_out_returns; [exact Hc|lia].
  - right. rewrite Z.min_l by lia. unfold query_turn. split; [exact Hc|lia].
Qed.

(* ================================================================================================ *)
(*  7. question_types                                                                               *)
(* ================================================================================================ *)

(* a query is only ever sent by a query turn, at the turn's time, with the state's question type *)
Lemma turn_send c h r now rnd r' h' outs t qu m :
  loop_turn c h r now rnd = (r', h', outs) -> In (RSend t qu m) outs ->
  qu = turn_qu r /\ t = now /\ query_turn r now /\ r' = after_query r now rnd.
Proof.
  intros Ht Hin.
  destruct (loop_turn_cases c h r now rnd) as [[Hc E]|[[Hc [Hl E]]|[[Hq [m1 [h1 [Eg E]]]]|[Hc [Hl [Hn E]]]]]];
    rewrite E in Ht; inversion Ht; subst; clear Ht.
  - destruct Hin as [Hin|[]]. discriminate.
  - destruct Hin as [Hin|[]]. discriminate.
  - destruct (qm_qs m1); [destruct Hin|]. destruct Hin as [Hin|[]]. inversion Hin; subst. auto.
  - destruct Hin.
Qed.

(* "the first question has been asked": a coroutine that is still running is past its first query *)
Definition started (r : req) : Prop := rq_done r = None -> rq_first r = false.

Lemma loop_turn_started c h r now rnd r' h' outs :
  loop_turn c h r now rnd = (r', h', outs) -> started r \/ rq_next r <= now -> started r'.
Proof.
  intros Ht Hs.
  destruct (loop_turn_cases c h r now rnd) as [[Hc E]|[[Hc [Hl E]]|[[Hq [m1 [h1 [Eg E]]]]|[Hc [Hl [Hn E]]]]]];
    rewrite E in Ht; inversion Ht; subst; clear Ht; unfold started; cbn [set_done after_query rq_done rq_first];
    try discriminate; try reflexivity.
  destruct Hs as [Hs|Hs]; [exact Hs|lia].
Qed.

(* rq_first is true only in the initial state *)
Lemma request_start_started c h name now timeout rnd forced r h' outs :
  request_start c h name now timeout rnd forced = (r, h', outs) -> started r.
Proof.
  rewrite request_start_eq. intro Ht. eapply loop_turn_started; [exact Ht|].
  right. cbn [req_init rq_next]. lia.
Qed.

Lemma do_step_started r h st r' h' outs :
  do_step r h st = (r', h', outs) -> started r -> started r'.
Proof.
  destruct st as [c now rnd|c1 now news]; cbn [do_step]; intros Hs Hst.
  - destruct (rq_done r) as [d|] eqn:Ed; [inversion Hs; subst; exact Hst|].
    eapply loop_turn_started; eauto.
  - inversion Hs; subst. pose proof (request_update_fields c1 now r news) as Hf. cbv zeta in Hf.
    destruct Hf as [_ [_ [_ [_ [Hf1 Hf2]]]]]. unfold started in *. rewrite Hf1, Hf2. exact Hst.
Qed.

Lemma run_sends_qm : forall steps r h r' h' outs t qu m,
  started r -> run r h steps = (r', h', outs) -> In (RSend t qu m) outs -> qu = false.
Proof.
  induction steps as [|st rest IH]; intros r h r' h' outs t qu m Hst Hr Hin; cbn [run] in Hr.
  - inversion Hr; subst. destruct Hin.
  - destruct (do_step r h st) as [[r1 h1] o1] eqn:Es.
    destruct (run r1 h1 rest) as [[r2 h2] o2] eqn:Er. inversion Hr; subst. clear Hr.
    apply in_app_or in Hin. destruct Hin as [Hin|Hin].
    + destruct st as [c now rnd|c1 now news]; cbn [do_step] in Es.
      * destruct (rq_done r) as [d|] eqn:Ed; [inversion Es; subst; destruct Hin|].
        destruct (turn_send _ _ _ _ _ _ _ _ _ _ _ Es Hin) as [Hq _].
        unfold turn_qu in Hq. rewrite (Hst Ed) in Hq. exact Hq.
      * inversion Es; subst. destruct Hin.
    + eapply IH; [|exact Er|exact Hin]. eapply do_step_started; eauto.
Qed.

Definition first_question_type (forced : option bool) : bool :=
  match forced with Some b => b | None => true end.

(* the query async_request sends at once is QU unless the caller forced QM;
   every query sent by a later turn is QM *)
Theorem question_types c h name t0 timeout forced rnd0 steps r h1 o0 r' h' o :
  request_start c h name t0 timeout rnd0 forced = (r, h1, o0) ->
  run r h1 steps = (r', h', o) ->
  (forall t qu m, In (RSend t qu m) o0 -> qu = first_question_type forced /\ t = t0) /\
  (forall t qu m, In (RSend t qu m) o -> qu = false).
Proof.
  intros Hs Hr. split.
  - intros t qu m Hin. rewrite request_start_eq in Hs.
    destruct (turn_send _ _ _ _ _ _ _ _ _ _ _ Hs Hin) as [Hq [Ht _]].
    split; [exact Hq|exact Ht].
  - intros t qu m Hin. eapply run_sends_qm; [|exact Hr|exact Hin].
    eapply request_start_started; eauto.
Qed.

(* ================================================================================================ *)
(*  8. pacing                                                                                       *)
(* ================================================================================================ *)

(* what a query turn does to the schedule *)
Theorem pacing_turn c h r now rnd r' h' outs :
  query_turn r now -> loop_turn c h r now rnd = (r', h', outs) ->
  rq_next r' = now + rq_delay r + rnd /\
  rq_delay r' = (if negb (turn_qu r) && (rq_delay r <? 999) then 999 else rq_delay r) /\
  rq_first r' = false /\ rq_done r' = None.
Proof.
  intros [Hc Hq] Ht.
  destruct (loop_turn_cases c h r now rnd) as [[Hc1 E]|[[Hc1 [Hl E]]|[[Hq1 [m1 [h1 [Eg E]]]]|[Hc1 [Hl [Hn E]]]]]];
    try congruence; try lia.
  rewrite E in Ht; inversion Ht; subst. cbn [after_query rq_next rq_delay rq_first rq_done].
  repeat split; reflexivity.
Qed.

(* the delay is 999 as soon as a QM query turn has happened (it starts at 200 and never exceeds 999) *)
Corollary pacing_qm_turn c h r now rnd r' h' outs :
  query_turn r now -> loop_turn c h r now rnd = (r', h', outs) ->
  turn_qu r = false -> rq_delay r <= 999 -> rq_delay r' = 999.
Proof.
  intros Hq Ht Hqm Hd. destruct (pacing_turn _ _ _ _ _ _ _ _ Hq Ht) as [_ [Hd' _]].
  rewrite Hd', Hqm. cbn [negb andb]. destruct (rq_delay r <? 999) eqn:E; lia.
Qed.

(* query turns of a run, as a boolean test and as the list of their times *)
Definition is_query_turn (r : req) (now : Z) : bool :=
  negb (is_complete (rq_info r)) && (rq_next r <=? now) && (now <? rq_last r).

Lemma is_query_turn_iff r now : is_query_turn r now = true <-> query_turn r now.
Proof.
  unfold is_query_turn, query_turn. rewrite !andb_true_iff, negb_true_iff, Z.leb_le, Z.ltb_lt. tauto.
Qed.

Definition step_query_time (r : req) (st : step) : list Z :=
  match st with
  | Turn _ now _ => match rq_done r with
                    | None => if is_query_turn r now then [now] else []
                    | Some _ => []
                    end
  | Update _ _ _ => []
  end.

Fixpoint query_times (r : req) (h : history) (steps : list step) : list Z :=
  match steps with
  | [] => []
  | st :: rest =>
      step_query_time r st ++ query_times (fst (fst (do_step r h st))) (snd (fst (do_step r h st))) rest
  end.

(* the query turns of a whole lookup, the one inside async_request's first loop turn included *)
Definition lookup_query_times (c : cache) (h : history) (name : text) (t0 timeout : Z) (forced : option bool)
                              (rnd0 : Z) (steps : list step) : list Z :=
  query_times (req_init c name t0 timeout forced) h (Turn c t0 rnd0 :: steps).

(* every query that is sent is sent at one of those times *)
Lemma sends_at_query_times : forall steps r h r' h' outs t qu m,
  run r h steps = (r', h', outs) -> In (RSend t qu m) outs -> In t (query_times r h steps).
Proof.
  induction steps as [|st rest IH]; intros r h r' h' outs t qu m Hr Hin; cbn [run] in Hr.
  - inversion Hr; subst. destruct Hin.
  - cbn [query_times].
    destruct (do_step r h st) as [[r1 h1] o1] eqn:Es.
    destruct (run r1 h1 rest) as [[r2 h2] o2] eqn:Er. inversion Hr; subst. clear Hr.
    cbn [fst snd]. apply in_or_app.
    apply in_app_or in Hin. destruct Hin as [Hin|Hin].
    + left. destruct st as [c now rnd|c1 now news]; cbn [do_step] in Es; cbn [step_query_time].
      * destruct (rq_done r) as [d|] eqn:Ed; [inversion Es; subst; destruct Hin|].
        destruct (turn_send _ _ _ _ _ _ _ _ _ _ _ Es Hin) as [_ [Ht [Hq _]]].
        apply is_query_turn_iff in Hq. rewrite Hq. left. congruence.
      * inversion Es; subst. destruct Hin.
    + right. eapply IH; eauto.
Qed.

Theorem lookup_sends_at_query_times c h name t0 timeout forced rnd0 steps r' h' outs t qu m :
  lookup c h name t0 timeout forced rnd0 steps = (r', h', outs) -> In (RSend t qu m) outs ->
  In t (lookup_query_times c h name t0 timeout forced rnd0 steps).
Proof.
  rewrite lookup_as_run. unfold lookup_query_times. apply sends_at_query_times.
Qed.

Definition draw_ok (st : step) : Prop :=
  match st with Turn _ _ rnd => 20 <= rnd | Update _ _ _ => True end.

(* paced first d lo ts: the first time is >= lo; the gap after a query turn made with delay >= d is
   >= d + 20, and the delay in force after any turn that is not the very first one is >= 999 *)
Fixpoint paced (first : bool) (d lo : Z) (ts : list Z) : Prop :=
  match ts with
  | [] => True
  | a :: rest => lo <= a /\ paced false (if first then d else 999) (a + d + 20) rest
  end.

Lemma query_times_paced : forall steps r h d lo,
  Forall draw_ok steps -> d <= rq_delay r -> lo <= rq_next r ->
  paced (rq_first r) d lo (query_times r h steps).
Proof.
  induction steps as [|st rest IH]; intros r h d lo Hdr Hd Hlo; cbn [query_times]; [exact I|].
  inversion Hdr as [|st' rest' Hd1 Hdr']; subst.
  destruct st as [c now rnd|c1 now news]; cbn [step_query_time do_step].
  - destruct (rq_done r) as [dn|] eqn:Ed.
    + cbn [app fst snd]. apply IH; assumption.
    + destruct (is_query_turn r now) eqn:Eq.
      * apply is_query_turn_iff in Eq.
        destruct (loop_turn c h r now rnd) as [[r1 h1] o1] eqn:Et. cbn [fst snd app paced].
        destruct (pacing_turn _ _ _ _ _ _ _ _ Eq Et) as [Hn [Hdl [Hf _]]].
        destruct Eq as [_ Hq]. cbn [draw_ok] in Hd1.
        split; [lia|]. rewrite <- Hf. apply IH; [exact Hdr'| |lia].
        rewrite Hdl. unfold turn_qu. destruct (rq_first r); [|cbn [negb andb]].
        -- destruct (negb match rq_forced r with Some b => b | None => true end && (rq_delay r <? 999)) eqn:E; lia.
        -- destruct (rq_delay r <? 999) eqn:E; lia.
      * cbn [app].
        destruct (loop_turn_cases c h r now rnd) as [[Hc E]|[[Hc [Hl E]]|[[Hq [m1 [h1 [Eg E]]]]|[Hc [Hl [Hn E]]]]]];
          rewrite E; cbn [fst snd].
        -- apply (IH (set_done r (Some true))); assumption.
        -- apply (IH (set_done r (Some false))); assumption.
        -- apply is_query_turn_iff in Hq. congruence.
        -- apply IH; assumption.
  - cbn [app fst snd].
    pose proof (request_update_fields c1 now r news) as Hf. cbv zeta in Hf.
    destruct Hf as [_ [_ [Hf1 [Hf2 [Hf3 _]]]]]. rewrite <- Hf3.
    apply IH; [exact Hdr'|lia|lia].
Qed.

Lemma paced_999_gaps : forall ts lo,
  paced false 999 lo ts ->
  forall k a b, nth_error ts k = Some a -> nth_error ts (S k) = Some b -> a + 1019 <= b.
Proof.
  induction ts as [|x ts IH]; intros lo Hp k a b Ha Hb; [destruct k; discriminate|].
  cbn [paced] in Hp. destruct Hp as [Hlo Hp].
  destruct k as [|k].
  - cbn in Ha, Hb. inversion Ha; subst. destruct ts as [|y ts']; [discriminate|].
    cbn in Hb. inversion Hb; subst. cbn [paced] in Hp. lia.
  - cbn [nth_error] in Ha. change (nth_error ts (S k) = Some b) in Hb. eapply IH; eauto.
Qed.

(* In a lookup whose draws are all >= 20 (they are drawn from 20..120), consecutive query turns are at
   least 200 + 20 ms apart, and from the third query turn on at least 999 + 20 ms apart
   (k counts from 0: k = 2 is the gap between the third and the fourth query turn). *)
Theorem pacing c h name t0 timeout forced rnd0 steps k a b :
  Forall draw_ok (Turn c t0 rnd0 :: steps) ->
  nth_error (lookup_query_times c h name t0 timeout forced rnd0 steps) k = Some a ->
  nth_error (lookup_query_times c h name t0 timeout forced rnd0 steps) (S k) = Some b ->
  a + 220 <= b /\ ((2 <= k)%nat -> a + 1019 <= b).
Proof.
  intros Hdr Ha Hb. unfold lookup_query_times in Ha, Hb.
  pose proof (query_times_paced (Turn c t0 rnd0 :: steps) (req_init c name t0 timeout forced) h 200 t0 Hdr) as Hp.
  cbn [req_init rq_delay rq_next rq_first] in Hp.
  specialize (Hp ltac:(unfold C_LISTENER_TIME; lia) ltac:(lia)).
  fold (req_init c name t0 timeout forced) in Hp.
  destruct (query_times (req_init c name t0 timeout forced) h (Turn c t0 rnd0 :: steps)) as [|t1 ts1];
    [destruct k; discriminate|].
  cbn [paced] in Hp. destruct Hp as [_ Hp].
  destruct ts1 as [|t2 ts2]; [destruct k as [|[|k]]; discriminate|].
  cbn [paced] in Hp. destruct Hp as [H12 Hp].
  destruct k as [|k].
  - cbn in Ha, Hb. inversion Ha; inversion Hb; subst. split; [lia|intro Hk; lia].
  - change (nth_error (t2 :: ts2) k = Some a) in Ha. change (nth_error (t2 :: ts2) (S k) = Some b) in Hb.
    destruct k as [|k].
    + cbn in Ha. inversion Ha; subst. destruct ts2 as [|t3 ts3]; [discriminate|].
      cbn in Hb. inversion Hb; subst. cbn [paced] in Hp. split; [lia|intro Hk; lia].
    + (* the gaps inside ts2 *)
      change (nth_error ts2 k = Some a) in Ha. change (nth_error ts2 (S k) = Some b) in Hb.
      pose proof (paced_999_gaps ts2 _ Hp k a b Ha Hb) as Hg. split; [lia|intro Hk; lia].
Qed.

(* ================================================================================================ *)
(*  5/6 at the level of whole lookups                                                               *)
(* ================================================================================================ *)

(* once async_request has returned nothing happens any more *)
Lemma run_done : forall steps r h d, rq_done r = Some d -> run r h steps = (r, h, []).
Proof.
  induction steps as [|st rest IH]; intros r h d Hd; cbn [run]; [reflexivity|].
  destruct st as [c now rnd|c1 now news]; cbn [do_step].
  - rewrite Hd. rewrite (IH r h d Hd). reflexivity.
  - unfold request_update. rewrite Hd. cbn [fst]. rewrite (IH r h d Hd). reflexivity.
Qed.

Lemma run_return : forall steps r h r' h' outs t b,
  run r h steps = (r', h', outs) -> In (RReturn t b) outs ->
  (b = true <-> is_complete (rq_info r') = true) /\ (b = false -> rq_last r' <= t) /\ rq_done r' = Some b.
Proof.
  induction steps as [|st rest IH]; intros r h r' h' outs t b Hr Hin; cbn [run] in Hr.
  - inversion Hr; subst. destruct Hin.
  - destruct (do_step r h st) as [[r1 h1] o1] eqn:Es.
    destruct (run r1 h1 rest) as [[r2 h2] o2] eqn:Er. inversion Hr; subst. clear Hr.
    apply in_app_or in Hin. destruct Hin as [Hin|Hin]; [|eapply IH; eauto].
    destruct st as [c now rnd|c1 now news]; cbn [do_step] in Es.
    + destruct (rq_done r) as [d|] eqn:Ed; [inversion Es; subst; destruct Hin|].
      destruct (return_iff_turn _ _ _ _ _ _ _ _ _ _ Es Hin) as [H1 [H2 [_ [H4 _]]]].
      rewrite (run_done rest r1 h1 b H4) in Er. inversion Er; subst. auto.
    + inversion Es; subst. destruct Hin.
Qed.

(* the return value of a lookup describes its final state; it returns at most once *)
Theorem return_iff_lookup c h name t0 timeout forced rnd0 steps r' h' outs t b :
  lookup c h name t0 timeout forced rnd0 steps = (r', h', outs) -> In (RReturn t b) outs ->
  (b = true <-> is_complete (rq_info r') = true) /\ (b = false -> t0 + timeout <= t) /\
  rq_done r' = Some b /\ (forall t2 b2, In (RReturn t2 b2) outs -> b2 = b).
Proof.
  intros Hl Hin. pose proof (lookup_last _ _ _ _ _ _ _ _ _ _ _ Hl) as [El _].
  rewrite lookup_as_run in Hl.
  destruct (run_return _ _ _ _ _ _ _ _ Hl Hin) as [H1 [H2 H3]].
  split; [exact H1|]. split; [intro Hb; specialize (H2 Hb); lia|]. split; [exact H3|].
  intros t2 b2 Hin2. destruct (run_return _ _ _ _ _ _ _ _ Hl Hin2) as [_ [_ H3']]. congruence.
Qed.

(* hence: a punctual lookup with a non-negative timeout that fails, fails at exactly t0 + timeout *)
Theorem false_return_exact c h name t0 timeout forced rnd0 steps r' h' outs t :
  0 <= timeout ->
  lookup_punctual c h name t0 timeout forced rnd0 steps ->
  lookup c h name t0 timeout forced rnd0 steps = (r', h', outs) ->
  In (RReturn t false) outs -> t = t0 + timeout.
Proof.
  intros Hto Hp Hl Hin.
  pose proof (bounded_partial _ _ _ _ _ _ _ _ _ _ _ _ _ Hto Hp Hl Hin) as Hub.
  destruct (return_iff_lookup _ _ _ _ _ _ _ _ _ _ _ _ _ Hl Hin) as [_ [Hlb _]].
  specialize (Hlb eq_refl). lia.
Qed.

Print Assumptions complete_iff.
Print Assumptions expired_ignored.
Print Assumptions addresses_from_cache_sound.
Print Assumptions sources_v4.
Print Assumptions sources_v6.
Print Assumptions sources_service.
Print Assumptions sources_text.
Print Assumptions cache_first.
Print Assumptions cache_first_outputs.
Print Assumptions return_iff_turn.
Print Assumptions return_iff_start.
Print Assumptions wake_at_le_last.
Print Assumptions timed_out_returns.
Print Assumptions bounded_general.
Print Assumptions bounded_needs_nonneg_timeout.
Print Assumptions bounded_partial.
Print Assumptions timeout_exact.
Print Assumptions wake_turn_progress.
Print Assumptions question_types.
Print Assumptions pacing_turn.
Print Assumptions pacing_qm_turn.
Print Assumptions lookup_sends_at_query_times.
Print Assumptions pacing.
Print Assumptions return_iff_lookup.
Print Assumptions false_return_exact.
