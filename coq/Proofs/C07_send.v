(* C07, sender side: the records an instance multicasts (broadcast_records, unregister_all) are arrivals of the three kinds of
   C07_recv: announcements, goodbyes, unrelated. *)
From Coq Require Import ZArith List Bool Lia ZifyBool.
From ZC Require Import Model.Base Model.PyRec Model.Dict Model.Re Model.Cache Model.Ingest Model.Respond Model.Register
  Model.Link Gen.Const Gen.DnsPure Spec.CacheSpec Spec.IngestSpec Spec.AnswerSpec.
From ZC Require Import Proofs.C20_identity Proofs.C05_index Proofs.C05_cache Proofs.C06_lemmas Proofs.C07_recv.
Ltac Zify.zify_post_hook ::= Z.to_euclidean_division_equations.

(* the records of a service other than its pointer *)
Definition other_rec (s : svc) (r : pyrec) : Prop :=
  p_type_ r <> C_TYPE_PTR /\ p_kind r <> KPointer /\ p_kind r <> KQuestion /\ (p_ttl r = s_host_ttl s \/ p_ttl r = s_other_ttl s).

Lemma address_and_nsec_shape s r : In r (address_and_nsec s) -> other_rec s r.
Proof.
  unfold address_and_nsec, dns_addresses. intro H.
  apply in_app_or in H as [H|H].
  - apply in_app_or in H as [H|H]; apply in_map_iff in H as [a [E _]]; subst r;
      (split; [discriminate|split; [discriminate|split; [discriminate|left; reflexivity]]]).
  - match type of H with In _ (if ?b then _ else _) => destruct b end; [|destruct H].
    destruct H as [H|[]]. subst r.
    split; [discriminate|split; [discriminate|split; [discriminate|left; reflexivity]]].
Qed.

Lemma bcast_shape s b r : In r (broadcast_records s None b) -> r = dns_pointer s \/ other_rec s r.
Proof.
  unfold broadcast_records. cbn [app In]. intros [H|[H|[H|H]]].
  - left. symmetry. exact H.
  - right. subst r. split; [discriminate|split; [discriminate|split; [discriminate|left; reflexivity]]].
  - right. subst r. split; [discriminate|split; [discriminate|split; [discriminate|right; reflexivity]]].
  - right. destruct b; [apply address_and_nsec_shape; exact H|destruct H].
Qed.

Lemma bcast_override s ov b :
  broadcast_records s ov b = broadcast_records (match ov with Some t => with_ttl s t | None => s end) None b.
Proof. destruct ov; reflexivity. Qed.

Lemma pointer_in_bcast s b : In (dns_pointer s) (broadcast_records s None b).
Proof. left. reflexivity. Qed.

(* identity of two pointers *)
Lemma pointer_gen_eq s1 s2 :
  gen_eq (dns_pointer s1) (dns_pointer s2)
  = text_eqb (lower (s_name s1)) (lower (s_name s2)) && text_eqb (lower (s_type s1)) (lower (s_type s2)).
Proof.
  unfold gen_eq, dns_pointer, DNSPointer_eq, DNSPointer__eq, DNSEntry__dns_entry_matches, DNSPointer_alias_key, DNSEntry_key,
    DNSEntry_type, DNSEntry_class_.
  cbn [p_kind p_name p_type_ p_class_ p_alias set_alias blank kind_eqb andb].
  rewrite !Z.eqb_refl, !andb_true_r. reflexivity.
Qed.

Lemma other_not_pointer s0 s r : other_rec s0 r -> gen_eq r (dns_pointer s) = false.
Proof.
  intros [_ [Hk _]]. destruct (gen_eq r (dns_pointer s)) eqn:E; [|reflexivity].
  apply gen_eq_kind in E. exfalso. apply Hk. exact E.
Qed.

Lemma faithful_other s0 s r : other_rec s0 r -> faithful s r.
Proof.
  intro H. unfold faithful. rewrite (other_not_pointer s0 s r H). destruct H as [Ht _].
  unfold looks_like. apply Z.eqb_neq in Ht. rewrite Ht, andb_false_r. reflexivity.
Qed.

(* the pointer of s' is faithful for s unless s' is another spelling of the same instance *)
Lemma faithful_pointer s' s :
  (lower (s_type s') = lower (s_type s) -> lower (s_name s') = lower (s_name s) -> s_name s' = s_name s) ->
  faithful s (dns_pointer s').
Proof.
  intro H. unfold faithful. rewrite pointer_gen_eq. unfold looks_like.
  cbn [dns_pointer p_name p_type_ p_alias set_alias blank]. rewrite Z.eqb_refl, andb_true_r.
  destruct (text_eqb (lower (s_type s')) (lower (s_type s))) eqn:Et; [|rewrite andb_false_r; reflexivity].
  cbn [andb]. rewrite andb_true_r. apply text_eqb_eq in Et.
  destruct (text_eqb (lower (s_name s')) (lower (s_name s))) eqn:En.
  - apply text_eqb_eq in En. apply text_eqb_eq. apply H; assumption.
  - destruct (text_eqb (s_name s') (s_name s)) eqn:En'; [|reflexivity].
    apply text_eqb_eq in En'. rewrite En', text_eqb_refl in En. discriminate.
Qed.

Lemma flush_other s0 s r : other_rec s0 r -> flush_hits s r = false.
Proof.
  intros [Ht _]. unfold flush_hits. apply Z.eqb_neq in Ht. rewrite Ht, andb_false_r. reflexivity.
Qed.

Lemma flush_pointer s' s : flush_hits s (dns_pointer s') = false.
Proof. reflexivity. Qed.

Definition svc_ok (s : svc) : Prop := 0 < s_other_ttl s < 4294967296 /\ 0 <= s_host_ttl s < 4294967296.

Lemma bcast_is_announcement s b : announcement s (s_other_ttl s) (broadcast_records s None b).
Proof.
  split.
  - unfold listed. apply existsb_exists. exists (dns_pointer s). split; [apply pointer_in_bcast|apply eq_refl_].
  - intros a Ha Ea. apply bcast_shape in Ha as [Ha|Ha].
    + subst a. cbn. lia.
    + rewrite (other_not_pointer s s a Ha) in Ea. discriminate.
Qed.

(* ---- the announcement message ---- *)
Lemma announce_arrival_ok s t b : svc_ok s -> arrival_ok s (s_other_ttl s) (t, broadcast_records s None b).
Proof.
  intros [Ho Hh]. unfold arrival_ok. cbn [snd]. split; [|split].
  - intros r Hr. apply bcast_shape in Hr as [Hr|[_ [_ [Hq Ht]]]].
    + subst r. split; [cbn; lia|discriminate].
    + split; [destruct Ht as [Ht|Ht]; rewrite Ht; lia|exact Hq].
  - intros r Hr. apply bcast_shape in Hr as [Hr|Hr].
    + subst r. apply faithful_pointer. intros _ _. reflexivity.
    + apply (faithful_other s s r Hr).
  - left. split.
    + unfold listed. apply existsb_exists. exists (dns_pointer s). split; [apply pointer_in_bcast|apply eq_refl_].
    + intros a Ha Ea. apply bcast_shape in Ha as [Ha|Ha].
      * subst a. cbn. lia.
      * rewrite (other_not_pointer s s a Ha) in Ea. discriminate.
Qed.

(* ---- the goodbye message of one service ---- *)
Lemma pointer_with_ttl s t : dns_pointer (with_ttl s t) = set_lifetime (dns_pointer s) 0 t.
Proof. reflexivity. Qed.

Lemma bcast_is_goodbye s b : goodbye s (broadcast_records s (Some 0) b).
Proof.
  rewrite bcast_override. split.
  - unfold listed. apply existsb_exists. exists (dns_pointer (with_ttl s 0)). split; [apply pointer_in_bcast|].
    rewrite pointer_with_ttl, gen_eq_sl_l. apply eq_refl_.
  - intros a Ha Ea. apply bcast_shape in Ha as [Ha|Ha].
    + subst a. reflexivity.
    + rewrite (other_not_pointer _ s a Ha) in Ea. discriminate.
Qed.

Lemma goodbye_arrival_ok s ttl t b : arrival_ok s ttl (t, broadcast_records s (Some 0) b).
Proof.
  rewrite bcast_override. unfold arrival_ok. cbn [snd]. split; [|split].
  - intros r Hr. apply bcast_shape in Hr as [Hr|[_ [_ [Hq Ht]]]].
    + subst r. split; [cbn; lia|discriminate].
    + split; [destruct Ht as [Ht|Ht]; rewrite Ht; cbn; lia|exact Hq].
  - intros r Hr. apply bcast_shape in Hr as [Hr|Hr].
    + subst r. apply faithful_pointer. intros _ _. reflexivity.
    + apply (faithful_other _ s r Hr).
  - right. left. split.
    + unfold listed. apply existsb_exists. exists (dns_pointer (with_ttl s 0)). split; [apply pointer_in_bcast|].
      rewrite pointer_with_ttl, gen_eq_sl_l. apply eq_refl_.
    + intros a Ha Ea. apply bcast_shape in Ha as [Ha|Ha].
      * subst a. reflexivity.
      * rewrite (other_not_pointer _ s a Ha) in Ea. discriminate.
Qed.

(* ---- the goodbye message of shutdown: every registered service, TTL 0 ---- *)
Lemma nodup_fst_fun {A B} (d : list (A * B)) k x y : NoDup (map fst d) -> In (k, x) d -> In (k, y) d -> x = y.
Proof.
  induction d as [|[k0 x0] d IH]; intros ND H1 H2; [destruct H1|].
  cbn [map fst] in ND. inversion ND as [|k' d' Hn ND']; subst k' d'.
  destruct H1 as [H1|H1], H2 as [H2|H2].
  - congruence.
  - inversion H1; subst k0 x0. exfalso. apply Hn. change k with (fst (k, y)). apply in_map. exact H2.
  - inversion H2; subst k0 x0. exfalso. apply Hn. change k with (fst (k, x)). apply in_map. exact H1.
  - apply IH; assumption.
Qed.

Lemma registered_same_key g s1 s2 :
  RegInv g -> In s1 (all_services g) -> In s2 (all_services g) -> s_key s1 = s_key s2 -> s1 = s2.
Proof.
  intros [ND [KEY _]] H1 H2 E. unfold all_services in H1, H2.
  apply in_map_iff in H1 as [[k1 x1] [E1 H1]]. apply in_map_iff in H2 as [[k2 x2] [E2 H2]].
  cbn [snd] in E1, E2. subst x1 x2.
  pose proof (KEY _ _ H1) as K1. pose proof (KEY _ _ H2) as K2.
  assert (Ek : k1 = k2) by congruence. rewrite <- Ek in H2.
  exact (nodup_fst_fun (g_services g) k1 s1 s2 ND H1 H2).
Qed.

Lemma close_records_in g r : In r (snd (unregister_all g)) ->
  exists s', In s' (all_services g) /\ (r = dns_pointer (with_ttl s' 0) \/ other_rec (with_ttl s' 0) r).
Proof.
  unfold unregister_all. cbn [snd]. intro H. apply in_flat_map in H as [s' [Hs' Hr]].
  exists s'. split; [exact Hs'|]. rewrite bcast_override in Hr. apply bcast_shape in Hr. exact Hr.
Qed.

Lemma close_is_goodbye g s : In s (all_services g) -> goodbye s (snd (unregister_all g)).
Proof.
  intro Hs. split.
  - unfold listed. apply existsb_exists. exists (dns_pointer (with_ttl s 0)). split.
    + unfold unregister_all. cbn [snd]. apply in_flat_map. exists s. split; [exact Hs|].
      rewrite bcast_override. apply pointer_in_bcast.
    + rewrite pointer_with_ttl, gen_eq_sl_l. apply eq_refl_.
  - intros a Ha Ea. apply close_records_in in Ha as [s' [_ [Ha|Ha]]].
    + subst a. reflexivity.
    + rewrite (other_not_pointer _ s a Ha) in Ea. discriminate.
Qed.

Lemma close_arrival_ok g s ttl t : RegInv g -> In s (all_services g) -> arrival_ok s ttl (t, snd (unregister_all g)).
Proof.
  intros RI Hs. unfold arrival_ok. cbn [snd]. split; [|split].
  - intros r Hr. apply close_records_in in Hr as [s' [_ [Hr|[_ [_ [Hq Ht]]]]]].
    + subst r. split; [cbn; lia|discriminate].
    + split; [destruct Ht as [Ht|Ht]; rewrite Ht; cbn; lia|exact Hq].
  - intros r Hr. apply close_records_in in Hr as [s' [Hs' [Hr|Hr]]].
    + subst r. apply faithful_pointer. cbn [with_ttl s_type s_name]. intros _ En.
      assert (Eq : s' = s) by (apply (registered_same_key g s' s RI Hs' Hs); exact En).
      subst s'. reflexivity.
    + apply (faithful_other _ s r Hr).
  - right. left. split.
    + unfold listed. apply existsb_exists. exists (dns_pointer (with_ttl s 0)). split.
      * unfold unregister_all. cbn [snd]. apply in_flat_map. exists s. split; [exact Hs|].
        rewrite bcast_override. apply pointer_in_bcast.
      * rewrite pointer_with_ttl, gen_eq_sl_l. apply eq_refl_.
    + intros a Ha Ea. apply close_records_in in Ha as [s' [_ [Ha|Ha]]].
      * subst a. reflexivity.
      * rewrite (other_not_pointer _ s a Ha) in Ea. discriminate.
Qed.

(* 1a for the records exactly as the sender emits them *)
Corollary arrival_teaches_broadcast : forall c s t b t',
  Recv c s -> svc_ok s -> t' < t + 1000 * s_other_ttl s ->
  knows (receive c (t, broadcast_records s None b)) t' s = true.
Proof.
  intros c s t b t' HR Hs Ht'. destruct (announce_arrival_ok s t b Hs) as [HD [HF [Hk|[Hk|Hk]]]]; cbn [snd] in *.
  - apply (arrival_teaches_partial c s t _ (s_other_ttl s) HR HD HF (proj1 (proj1 Hs)) Hk). exact Ht'.
  - exfalso. destruct Hk as [_ Hall]. pose proof (Hall (dns_pointer s) (pointer_in_bcast s b) (eq_refl_ _)) as Z0.
    cbn in Z0. destruct Hs as [Ho _]. lia.
  - exfalso. destruct Hk as [Hl _]. unfold listed in Hl.
    pose proof (proj1 (existsb_false_ _ _) Hl (dns_pointer s) (pointer_in_bcast s b)) as C. cbv beta in C.
    rewrite eq_refl_ in C. discriminate.
Qed.

Corollary goodbye_forgets_broadcast : forall c s t b t',
  Recv c s -> knows (receive c (t, broadcast_records s (Some 0) b)) t' s = false.
Proof.
  intros c s t b t' HR. destruct (goodbye_arrival_ok s 1 t b) as [HD [HF [Hk|[Hk|Hk]]]]; cbn [snd] in *.
  - exfalso. destruct Hk as [_ Hall]. rewrite bcast_override in Hall.
    pose proof (Hall (dns_pointer (with_ttl s 0)) (pointer_in_bcast _ b)) as Z0.
    rewrite pointer_with_ttl, gen_eq_sl_l, eq_refl_ in Z0. specialize (Z0 eq_refl). cbn in Z0. lia.
  - apply (goodbye_forgets_partial c s t _ HR HD HF Hk).
  - exfalso. destruct Hk as [Hl _]. unfold listed in Hl. rewrite bcast_override in Hl.
    pose proof (proj1 (existsb_false_ _ _) Hl (dns_pointer (with_ttl s 0)) (pointer_in_bcast _ b)) as C. cbv beta in C.
    rewrite pointer_with_ttl, gen_eq_sl_l, eq_refl_ in C. discriminate.
Qed.
