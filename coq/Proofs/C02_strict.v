(* C02_strict: wherever the strict RFC 1035 parser accepts a datagram, the library decoder model
   (memoising, tolerant, recursive) decodes it to the same message.  Name layer: C02_strict_names. *)
From Coq Require Import ZArith List Bool Lia ZifyBool.
From ZC Require Import Model.Base Model.PyRec Model.Dict Model.Utf8 Model.WireDec Spec.Rfc1035 Gen.Const Gen.Shapes.
From ZC Require Import Proofs.C02_strict_names.
Ltac Zify.zify_post_hook ::= Z.to_euclidean_division_equations.

Definition wf_bytes (d : bytes) : Prop := Forall (fun b => 0 <= b < 256) d.

Local Strategy 100 [sname read_name scharstr swindows read_bitmap_loop su16 short_at sslice slice sbyte byte_at].
Local Strategy 50 [srecord read_record].
Ltac mstep := cbv [mbind get_off set_off get_cache set_cache ret]; cbn [d_off d_cache].

Section Records.
  Variable data : bytes.
  Variable now : Z.
  Variable frames : nat.
  Hypothesis Hwf : wf_bytes data.
  Hypothesis Hframes : (130 <= frames)%nat.

  Notation dec := utf8_decode_replace.

  Lemma short_at_ok i v s : su16 data i = Some v -> short_at data i s = DOk v s.
  Proof.
    unfold su16, short_at. destruct (sbyte data i) as [h|] eqn:Hh; [|discriminate].
    destruct (sbyte data (i + 1)) as [l|] eqn:Hl; [|discriminate]. intro H. inversion H; subst.
    unfold mbind. rewrite (byte_at_ok _ _ _ s Hh). rewrite (byte_at_ok _ _ _ s Hl). reflexivity.
  Qed.

  Lemma name_ok pos name e c :
    sname data pos = Some (name, e) -> CacheOk data c ->
    exists c', read_name data frames {| d_off := pos; d_cache := c |} = DOk name {| d_off := e; d_cache := c' |}
               /\ CacheOk data c'.
  Proof.
    intros Hs Hc. eapply (strict_name_agrees data Hwf frames pos name e); eauto. lia.
  Qed.

  (* ---------------- questions ---------------- *)

  Theorem strict_questions_agree : forall n off acc qs o c,
    squestions data now n off acc = Some (qs, o) -> CacheOk data c ->
    exists c', read_questions data now frames n acc {| d_off := off; d_cache := c |}
               = (qs, None, {| d_off := o; d_cache := c' |}) /\ CacheOk data c'.
  Proof.
    induction n as [|n IH]; intros off acc qs o c H Hc.
    - cbn [squestions] in H. inversion H; subst. exists c. split; [reflexivity|exact Hc].
    - cbn [squestions] in H. cbn [read_questions].
      destruct (sname data off) as [[name o1]|] eqn:Hn; [|discriminate].
      destruct (su16 data o1) as [ty|] eqn:Hty; [|discriminate].
      destruct (su16 data (o1 + 2)) as [cl|] eqn:Hcl; [|discriminate].
      destruct (name_ok _ _ _ c Hn Hc) as (c1 & Hrn & Hc1).
      unfold mbind at 1. rewrite Hrn. mstep.
      rewrite (short_at_ok _ _ _ Hty). rewrite (short_at_ok _ _ _ Hcl).
      destruct (IH _ _ _ _ c1 H Hc1) as (c' & Hrun & Hc').
      exists c'. split; [|exact Hc'].
      change (mk_rec now KQuestion name ty cl 0) with (mk now KQuestion name ty cl 0). exact Hrun.
  Qed.

  (* ---------------- rdata helpers ---------------- *)

  Lemma bits_sbits byte bit base : bits_of_byte byte bit base = sbits byte bit base.
  Proof.
    induction bit as [|b IH]; [reflexivity|].
    cbn [bits_of_byte sbits]. cbv zeta. rewrite IH.
    rewrite (Z.add_comm (Z.of_nat (8 - S b)) base). reflexivity.
  Qed.

  Lemma bitmap_sbitmap bs : forall i w, bits_of_bytes bs i w = sbitmap bs i w.
  Proof.
    induction bs as [|b r IH]; intros i w; [reflexivity|].
    cbn [bits_of_bytes sbitmap]. rewrite IH, bits_sbits. reflexivity.
  Qed.

  Lemma bitmap_agrees : forall fuel off endo acc ts c,
    swindows data fuel off endo acc = Some ts ->
    read_bitmap_loop data fuel endo acc {| d_off := off; d_cache := c |}
      = DOk ts {| d_off := endo; d_cache := c |}.
  Proof.
    induction fuel as [|fuel IH]; intros off endo acc ts c H; cbn [swindows] in H; [discriminate|].
    cbn [read_bitmap_loop]. mstep.
    destruct (off =? endo) eqn:E0.
    { apply Z.eqb_eq in E0. subst endo. inversion H; subst.
      destruct (off <? off) eqn:E; [lia|]. reflexivity. }
    destruct (endo <? off + 2) eqn:E1; [discriminate|].
    destruct (sbyte data off) as [w|] eqn:Hw; [|discriminate].
    destruct (sbyte data (off + 1)) as [blen|] eqn:Hb; [|discriminate].
    destruct ((blen <? 1) || (32 <? blen) || (endo <? off + 2 + blen)) eqn:E2; [discriminate|].
    destruct (sslice data (off + 2) blen) as [bs|] eqn:Hs; [|discriminate].
    destruct (off <? endo) eqn:E3; [|lia]. cbn [negb].
    rewrite (byte_at_ok _ _ _ _ Hw). rewrite (byte_at_ok _ _ _ _ Hb).
    rewrite (slice_ok _ _ _ _ Hs). rewrite bitmap_sbitmap.
    apply IH. exact H.
  Qed.

  Lemma charstr_agrees off endo t o2 c :
    scharstr data off endo = Some (t, o2) ->
    read_character_string data {| d_off := off; d_cache := c |} = DOk t {| d_off := o2; d_cache := c |}.
  Proof.
    unfold scharstr. destruct (endo <=? off); [discriminate|].
    destruct (sbyte data off) as [n|] eqn:Hn; [|discriminate].
    destruct (endo <? off + 1 + n); [discriminate|].
    destruct (sslice data (off + 1) n) as [b|] eqn:Hs; [|discriminate].
    intro H. inversion H; subst.
    unfold read_character_string. mstep. rewrite (byte_at_ok _ _ _ _ Hn).
    rewrite (slice_ok _ _ _ _ Hs). reflexivity.
  Qed.

  (* ---------------- one record ---------------- *)

  (* the rdata part of [srecord], as a function of the header fields *)
  Definition srd (name : text) (ty cl ttl rd rdlen : Z) : option (option pyrec * Z) :=
    let endo := rd + rdlen in
            if ty =? 1 then
              if rdlen =? 4 then match sslice data rd 4 with Some a => Some (Some (upd_address (mk now KAddress name ty cl ttl) a), endo) | None => None end
              else None
            else if ty =? 28 then
              if rdlen =? 16 then match sslice data rd 16 with Some a => Some (Some (upd_address (mk now KAddress name ty cl ttl) a), endo) | None => None end
              else None
            else if (ty =? 5) || (ty =? 12) then
              match sname data rd with
              | Some (target, e) => if e =? endo then Some (Some (upd_alias (mk now KPointer name ty cl ttl) target), endo) else None
              | None => None
              end
            else if ty =? 16 then
              match sslice data rd rdlen with Some t => Some (Some (upd_text (mk now KText name ty cl ttl) t), endo) | None => None end
            else if ty =? 33 then
              match su16 data rd, su16 data (rd + 2), su16 data (rd + 4), sname data (rd + 6) with
              | Some pr, Some w, Some po, Some (target, e) =>
                  if (e =? endo) && (7 <=? rdlen) then Some (Some (upd_srv (mk now KService name ty cl ttl) pr w po target), endo) else None
              | _, _, _, _ => None
              end
            else if ty =? 13 then
              match scharstr data rd endo with
              | Some (cpu, o2) =>
                  match scharstr data o2 endo with
                  | Some (os, o3) => if o3 =? endo then Some (Some (upd_hinfo (mk now KHinfo name ty cl ttl) cpu os), endo) else None
                  | None => None
                  end
              | None => None
              end
            else if ty =? 47 then
              match sname data rd with
              | Some (nx, o2) =>
                  if endo <? o2 then None else
                  match swindows data (S (length data)) o2 endo [] with
                  | Some ts => Some (Some (upd_nsec (mk now KNsec name ty cl ttl) nx ts), endo)
                  | None => None
                  end
              | None => None
              end
            else Some (None, endo).

  Lemma srecord_unfold off :
    srecord data now off =
    match sname data off with
    | None => None
    | Some (name, o) =>
        match su16 data o, su16 data (o + 2), su16 data (o + 4), su16 data (o + 6), su16 data (o + 8) with
        | Some ty, Some cl, Some t1, Some t2, Some rdlen =>
            if slen data <? o + 10 + rdlen then None
            else srd name ty cl (t1 * 65536 + t2) (o + 10) rdlen
        | _, _, _, _, _ => None
        end
    end.
  Proof. reflexivity. Qed.

  Lemma rdata_agrees name ty cl ttl rd rdlen r e c :
    srd name ty cl ttl rd rdlen = Some (r, e) -> CacheOk data c ->
    exists c', read_record data now None frames name ty cl ttl rdlen {| d_off := rd; d_cache := c |}
               = DOk r {| d_off := e; d_cache := c' |} /\ CacheOk data c'.
  Proof.
    unfold srd, read_record. cbv zeta.
    change C_TYPE_A with 1. change C_TYPE_CNAME with 5. change C_TYPE_PTR with 12. change C_TYPE_TXT with 16.
    change C_TYPE_SRV with 33. change C_TYPE_HINFO with 13. change C_TYPE_AAAA with 28. change C_TYPE_NSEC with 47.
    intros H Hc.
    destruct (ty =? 1) eqn:E1.
    { (* A *)
      destruct (rdlen =? 4) eqn:El; [|discriminate]. apply Z.eqb_eq in El. subst rdlen.
      destruct (sslice data rd 4) as [a|] eqn:Hs; [|discriminate]. inversion H; subst.
      exists c. split; [|exact Hc]. unfold read_string. mstep. rewrite (slice_ok _ _ _ _ Hs). reflexivity. }
    destruct (ty =? 28) eqn:E28.
    { (* AAAA *)
      apply Z.eqb_eq in E28. subst ty.
      destruct (rdlen =? 16) eqn:El; [|discriminate]. apply Z.eqb_eq in El. subst rdlen.
      destruct (sslice data rd 16) as [a|] eqn:Hs; [|discriminate]. inversion H; subst.
      exists c. split; [|exact Hc].
      replace ((28 =? 5) || (28 =? 12)) with false by reflexivity.
      replace (28 =? 16) with false by reflexivity. replace (28 =? 33) with false by reflexivity.
      replace (28 =? 13) with false by reflexivity. replace (28 =? 28) with true by reflexivity.
      unfold read_string. mstep. rewrite (slice_ok _ _ _ _ Hs). reflexivity. }
    destruct ((ty =? 5) || (ty =? 12)) eqn:E5.
    { (* CNAME / PTR *)
      destruct (sname data rd) as [[target e1]|] eqn:Hn; [|discriminate].
      destruct (e1 =? rd + rdlen) eqn:Ee; [|discriminate]. apply Z.eqb_eq in Ee. inversion H; subst.
      destruct (name_ok _ _ _ c Hn Hc) as (c' & Hrn & Hc').
      exists c'. split; [|exact Hc']. unfold mbind at 1. rewrite Hrn. reflexivity. }
    destruct (ty =? 16) eqn:E16.
    { (* TXT *)
      destruct (sslice data rd rdlen) as [t|] eqn:Hs; [|discriminate]. inversion H; subst.
      exists c. split; [|exact Hc]. unfold read_string. mstep. rewrite (slice_ok _ _ _ _ Hs). reflexivity. }
    destruct (ty =? 33) eqn:E33.
    { (* SRV *)
      destruct (su16 data rd) as [pr|] eqn:Hpr; [|discriminate].
      destruct (su16 data (rd + 2)) as [w|] eqn:Hw; [|discriminate].
      destruct (su16 data (rd + 4)) as [po|] eqn:Hpo; [|discriminate].
      destruct (sname data (rd + 6)) as [[target e1]|] eqn:Hn; [|discriminate].
      destruct ((e1 =? rd + rdlen) && (7 <=? rdlen)) eqn:Ee; [|discriminate]. inversion H; subst.
      destruct (name_ok _ _ _ c Hn Hc) as (c' & Hrn & Hc').
      exists c'. split; [|exact Hc'].
      unfold mbind at 1. unfold get_off at 1. cbn [d_off].
      unfold mbind at 1. unfold set_off at 1. cbn [d_off d_cache].
      unfold mbind at 1. rewrite (short_at_ok _ _ _ Hpr).
      unfold mbind at 1. rewrite (short_at_ok _ _ _ Hw).
      unfold mbind at 1. rewrite (short_at_ok _ _ _ Hpo).
      unfold mbind at 1. rewrite Hrn.
      assert (e1 = rd + rdlen) by lia. subst e1. reflexivity. }
    destruct (ty =? 13) eqn:E13.
    { (* HINFO *)
      destruct (scharstr data rd (rd + rdlen)) as [[cpu o2]|] eqn:H1; [|discriminate].
      destruct (scharstr data o2 (rd + rdlen)) as [[os o3]|] eqn:H2; [|discriminate].
      destruct (o3 =? rd + rdlen) eqn:Ee; [|discriminate]. apply Z.eqb_eq in Ee. inversion H; subst.
      exists c. split; [|exact Hc].
      unfold mbind at 1. rewrite (charstr_agrees _ _ _ _ c H1).
      unfold mbind at 1. rewrite (charstr_agrees _ _ _ _ c H2). reflexivity. }
    destruct (ty =? 47) eqn:E47.
    { (* NSEC *)
      destruct (sname data rd) as [[nx o2]|] eqn:Hn; [|discriminate].
      destruct (rd + rdlen <? o2) eqn:Ee; [discriminate|].
      destruct (swindows data (S (length data)) o2 (rd + rdlen) []) as [ts|] eqn:Hsw; [|discriminate].
      inversion H; subst.
      destruct (name_ok _ _ _ c Hn Hc) as (c' & Hrn & Hc').
      exists c'. split; [|exact Hc'].
      unfold mbind at 1. unfold get_off at 1. cbn [d_off].
      unfold mbind at 1. rewrite Hrn.
      unfold mbind at 1. rewrite (bitmap_agrees _ _ _ _ _ c' Hsw). reflexivity. }
    (* unsupported type: skipped by both *)
    inversion H; subst. exists c. split; [|exact Hc]. mstep. reflexivity.
  Qed.

  Definition rr_header : M (text * Z * Z * Z * Z * Z) :=
    domain <- read_name data frames ;;
    o <- get_off ;;
    _ <- set_off (o + 10) ;;
    ty <- short_at data o ;; cl <- short_at data (o + 2) ;;
    t1 <- short_at data (o + 4) ;; t2 <- short_at data (o + 6) ;;
    len <- short_at data (o + 8) ;;
    ret (domain, ty, cl, t1 * 65536 + t2, len, o + 10 + len).

  Lemma read_others_S n acc s :
    read_others data now None frames (S n) acc s =
    match rr_header s with
    | DErr e s' => (acc, Some e, s')
    | DOk (domain, ty, cl, ttl, len, endo) s1 =>
        match read_record data now None frames domain ty cl ttl len s1 with
        | DOk (Some r) s2 => read_others data now None frames n (acc ++ [r]) s2
        | DOk None s2 => read_others data now None frames n acc s2
        | DErr e s2 =>
            if catches e
            then read_others data now None frames n acc {| d_off := endo; d_cache := d_cache s2 |}
            else (acc, Some e, s2)
        end
    end.
  Proof. reflexivity. Qed.

  (* one resource record: header + rdata, including well-formed records of unsupported types *)
  Theorem strict_record_agrees off r e c :
    srecord data now off = Some (r, e) -> CacheOk data c ->
    exists name ty cl ttl len c1 c',
      rr_header {| d_off := off; d_cache := c |} = DOk (name, ty, cl, ttl, len, e) {| d_off := e - len; d_cache := c1 |} /\
      read_record data now None frames name ty cl ttl len {| d_off := e - len; d_cache := c1 |}
        = DOk r {| d_off := e; d_cache := c' |} /\ CacheOk data c'.
  Proof.
    rewrite srecord_unfold. intros H Hc.
    destruct (sname data off) as [[name o]|] eqn:Hn; [|discriminate].
    destruct (su16 data o) as [ty|] eqn:Hty; [|discriminate].
    destruct (su16 data (o + 2)) as [cl|] eqn:Hcl; [|discriminate].
    destruct (su16 data (o + 4)) as [t1|] eqn:Ht1; [|discriminate].
    destruct (su16 data (o + 6)) as [t2|] eqn:Ht2; [|discriminate].
    destruct (su16 data (o + 8)) as [rdlen|] eqn:Hlen; [|discriminate].
    destruct (slen data <? o + 10 + rdlen) eqn:Esl; [discriminate|].
    assert (He : e = o + 10 + rdlen).
    { unfold srd in H. cbv zeta in H.
      repeat match type of H with
             | (if ?b then _ else _) = _ => destruct b
             | match ?x with _ => _ end = _ => destruct x
             | (let (_, _) := ?x in _) = _ => destruct x
             end; try discriminate; inversion H; reflexivity. }
    destruct (name_ok _ _ _ c Hn Hc) as (c1 & Hrn & Hc1).
    destruct (rdata_agrees _ _ _ _ _ _ _ _ c1 H Hc1) as (c' & Hrd & Hc').
    exists name, ty, cl, (t1 * 65536 + t2), rdlen, c1, c'.
    replace (e - rdlen) with (o + 10) by lia.
    split; [|split; [exact Hrd|exact Hc']].
    unfold rr_header. unfold mbind at 1. rewrite Hrn. mstep.
    rewrite (short_at_ok _ _ _ Hty), (short_at_ok _ _ _ Hcl), (short_at_ok _ _ _ Ht1),
            (short_at_ok _ _ _ Ht2), (short_at_ok _ _ _ Hlen).
    rewrite He. reflexivity.
  Qed.

  Theorem strict_records_agree : forall n off acc b rs o b' c,
    srecords data now n off acc b = Some (rs, o, b') -> CacheOk data c ->
    exists c', read_others data now None frames n acc {| d_off := off; d_cache := c |}
               = (rs, None, {| d_off := o; d_cache := c' |}) /\ CacheOk data c'.
  Proof.
    induction n as [|n IH]; intros off acc b rs o b' c H Hc.
    - cbn [srecords] in H. inversion H; subst. exists c. split; [reflexivity|exact Hc].
    - cbn [srecords] in H. rewrite read_others_S.
      destruct (srecord data now off) as [[r e]|] eqn:Hr; [|discriminate].
      destruct (strict_record_agrees _ _ _ c Hr Hc) as (name & ty & cl & ttl & len & c1 & c2 & Hh & Hrd & Hc2).
      rewrite Hh. rewrite Hrd.
      destruct r as [r|]; eapply IH; eauto.
  Qed.
End Records.

Theorem parse_agrees_with_strict : forall data now frames m,
  wf_bytes data -> (130 <= frames)%nat ->
  strict_parse data now = Some m -> s_supported m = true ->
  let p := parse data now None frames in
  m_valid p = true /\ m_escaped p = None /\
  m_id p = s_id m /\ m_flags p = s_flags m /\
  m_nq p = s_nq m /\ m_nans p = s_nan m /\ m_nauth p = s_nau m /\ m_nadd p = s_nad m /\
  m_questions p = s_questions m /\ m_answers p = s_records m.
Proof.
  intros data now frames m Hwf Hfr Hsp _.
  unfold strict_parse in Hsp.
  destruct (su16 data 0) as [id|] eqn:H0; [|discriminate].
  destruct (su16 data 2) as [fl|] eqn:H2; [|discriminate].
  destruct (su16 data 4) as [nq|] eqn:H4; [|discriminate].
  destruct (su16 data 6) as [na|] eqn:H6; [|discriminate].
  destruct (su16 data 8) as [nau|] eqn:H8; [|discriminate].
  destruct (su16 data 10) as [nad|] eqn:H10; [|discriminate].
  destruct (squestions data now (Z.to_nat nq) 12 []) as [[qs o]|] eqn:Hq; [|discriminate].
  destruct (srecords data now (Z.to_nat (na + nau + nad)) o [] true) as [[[rs o'] sup]|] eqn:Hr; [|discriminate].
  destruct (o' =? slen data); [|discriminate].
  inversion Hsp; subst m. cbn [s_id s_flags s_nq s_nan s_nau s_nad s_questions s_records].
  destruct (strict_questions_agree data now frames Hwf Hfr _ _ _ _ _ [] Hq (CacheOk_nil data)) as (c1 & Hrq & Hc1).
  destruct (strict_records_agree data now frames Hwf Hfr _ _ _ _ _ _ _ c1 Hr Hc1) as (c2 & Hro & Hc2).
  assert (Hp : parse data now None frames =
               {| m_valid := (if nq =? 0 then true else true); m_id := id; m_flags := fl;
                  m_nq := nq; m_nans := na; m_nauth := nau; m_nadd := nad;
                  m_questions := qs; m_answers := rs; m_escaped := None |}).
  { unfold parse. cbv zeta.
    unfold mbind at 1. rewrite (short_at_ok data 0 id _ H0).
    unfold mbind at 1. rewrite (short_at_ok data 2 fl _ H2).
    unfold mbind at 1. rewrite (short_at_ok data 4 nq _ H4).
    unfold mbind at 1. rewrite (short_at_ok data 6 na _ H6).
    unfold mbind at 1. rewrite (short_at_ok data 8 nau _ H8).
    unfold mbind at 1. rewrite (short_at_ok data 10 nad _ H10).
    unfold mbind at 1. unfold set_off at 1. cbn [d_off d_cache]. unfold ret at 1.
    rewrite Hrq. cbn [escapes]. rewrite Hro. cbn [escapes]. reflexivity. }
  cbv zeta. rewrite Hp.
  cbn [m_valid m_escaped m_id m_flags m_nq m_nans m_nauth m_nadd m_questions m_answers].
  destruct (nq =? 0); repeat split; reflexivity.
Qed.

Print Assumptions strict_questions_agree.
Print Assumptions strict_record_agrees.
Print Assumptions strict_records_agree.
Print Assumptions parse_agrees_with_strict.
