(* C10_defs: vocabulary (timed runs, events, predicates, invariants) for the query-scheduler theorems,
   and the heap / alias-map lemmas they rest on (Model/Sched.v). *)
From Coq Require Import ZArith List Bool Lia ZifyBool.
From ZC Require Import Model.Base Model.Dict Gen.Const Model.Sched.
Import ListNotations.
Open Scope Z_scope.
Ltac Zify.zify_post_hook ::= Z.to_euclidean_division_equations.

(* ================================================================== *)
(** * Timed runs                                                        *)
(* ================================================================== *)

(* a label together with the loop time at which it happens *)
Definition tlabel := (slabel * Z)%type.

(* one step of a run: state before, label, time, state after, the ssends it produced *)
Record event := { e_pre : sched; e_lab : slabel; e_time : Z; e_post : sched; e_out : list ssend }.

(* the timed run: fold of [sstep] (zc.done = false) that records every step *)
Fixpoint trun (types : list text) (s : sched) (ls : list tlabel) : option (list event) :=
  match ls with
  | [] => Some []
  | (l, t) :: r =>
      match sstep types false s l with
      | None => None
      | Some (s', out) =>
          match trun types s' r with
          | None => None
          | Some es => Some ({| e_pre := s; e_lab := l; e_time := t; e_post := s'; e_out := out |} :: es)
          end
      end
  end.

Definition final (s : sched) (es : list event) : sched := last (map e_post es) s.
Definition trace (es : list event) : list ssend := concat (map e_out es).

(* the labels LFire / LStart carry the loop time themselves: it must agree with the time of the step *)
Definition clock_ok (e : event) : Prop :=
  match e_lab e with LFire now | LStart now _ => now = e_time e | _ => True end.

(* c <= t1 <= t2 <= ... *)
Fixpoint sorted_from (c : Z) (l : list Z) : Prop :=
  match l with [] => True | t :: r => c <= t /\ sorted_from t r end.
Definition times_sorted (l : list Z) : Prop :=
  match l with [] => True | t :: r => sorted_from t r end.

(* loop time never goes backwards (c: the time of the previous step) *)
Definition well_timed_from (c : Z) (es : list event) : Prop :=
  sorted_from c (map e_time es) /\ Forall clock_ok es.
Definition well_timed (es : list event) : Prop :=
  times_sorted (map e_time es) /\ Forall clock_ok es.

(* the kind of pass an event is (None: not a timer callback) *)
Definition pass_kind (e : event) : option timer_kind :=
  match e_lab e, sc_next_run (e_pre e) with
  | LFire _, Some (_, k) => Some k
  | _, _ => None
  end.
Definition is_fire (e : event) : bool := match e_lab e with LFire _ => true | _ => false end.
Definition is_refresh (e : event) : bool := match pass_kind e with Some TReady => true | _ => false end.
Definition fires (es : list event) : list event := filter is_fire es.
Definition refresh_passes (es : list event) : list event := filter is_refresh es.

(* punctual: the timer callback runs exactly at the armed deadline, and no other label happens at a
   time later than the armed deadline *)
Definition punctual_event (e : event) : Prop :=
  clock_ok e /\
  match sc_next_run (e_pre e) with
  | None => True
  | Some (d, _) => match e_lab e with LFire _ => e_time e = d | _ => e_time e <= d end
  end.
Definition punctual (es : list event) : Prop := Forall punctual_event es.

(* a + d <= b for consecutive elements a, b *)
Fixpoint spaced (d : Z) (l : list Z) : Prop :=
  match l with
  | a :: (b :: _) as r => a + d <= b /\ spaced d r
  | _ => True
  end.

(* label classes *)
Definition ptr_or_fire (l : slabel) : Prop :=
  match l with LFire _ | LResched _ _ _ _ | LCancel _ => True | _ => False end.
Definition touches (a : text) (l : slabel) : Prop :=
  match l with LResched b _ _ _ | LCancel b => b = a | _ => False end.

(* ================================================================== *)
(** * Heap vocabulary                                                   *)
(* ================================================================== *)

(* q is in the heap and not cancelled *)
Definition live (s : sched) (q : squery) : Prop := In q (sc_heap s) /\ sq_cancelled q = false.

(* the query that sc_by_alias records for alias a *)
Definition registered_query (s : sched) (a : text) : option squery :=
  match d_get text_eqb (sc_by_alias s) a with
  | Some id => find_id (sc_heap s) id
  | None => None
  end.

Definition set_cancelled (q : squery) : squery :=
  {| sq_id := sq_id q; sq_alias := sq_alias q; sq_name := sq_name q; sq_ttl := sq_ttl q;
     sq_cancelled := true; sq_expire := sq_expire q; sq_when := sq_when q |}.

(* the list of queries a refresh pass at time now finds ready (the [ready] of _process_ready_types) *)
Definition drain_of (s : sched) (now : Z) :=
  drain (S (length (sc_heap s))) (sc_heap s) (sc_by_alias s) now [].
Definition pass_ready (s : sched) (now : Z) : list squery :=
  match drain_of s now with (_, _, ready, _) => ready end.

(* the ready list of an event (empty unless it is a refresh pass) *)
Definition e_ready (e : event) : list squery :=
  match e_lab e, sc_next_run (e_pre e) with
  | LFire now, Some (_, TReady) => pass_ready (e_pre e) now
  | _, _ => []
  end.

(* heap / alias-map well-formedness: ids are unique and below sc_fresh, the alias map has unique keys,
   and it records exactly the live queries *)
Definition WFh (h : list squery) (al : list (text * Z)) (f : Z) : Prop :=
  NoDup (map sq_id h) /\
  (forall q, In q h -> sq_id q < f) /\
  NoDup (map fst al) /\
  (forall a id, d_get text_eqb al a = Some id ->
     exists q, In q h /\ sq_id q = id /\ sq_alias q = a /\ sq_cancelled q = false) /\
  (forall q, In q h -> sq_cancelled q = false -> d_get text_eqb al (sq_alias q) = Some (sq_id q)).
Definition WF (s : sched) : Prop := WFh (sc_heap s) (sc_by_alias s) (sc_fresh s).

(* the timer invariant that holds once the start-up phase has handed over to the refresh phase:
   a TReady timer is armed, not before sc_min_next, and not after max(when, sc_min_next) of any live query *)
Definition post_startup (s : sched) : Prop :=
  0 <= sc_delay s /\ 0 < sc_min_next s /\
  exists d, sc_next_run s = Some (d, TReady) /\ sc_min_next s <= d /\
            forall x, live s x -> d <= Z.max (sq_when x) (sc_min_next s).

(* ================================================================== *)
(** * trun plumbing                                                     *)
(* ================================================================== *)

Lemma last_cons_default {A} : forall (l : list A) x d d', last (x :: l) d = last (x :: l) d'.
Proof.
  induction l as [|y l IH]; intros x d d'; [reflexivity|].
  change (last (x :: y :: l) d) with (last (y :: l) d).
  change (last (x :: y :: l) d') with (last (y :: l) d'). apply IH.
Qed.

Lemma final_cons s e es : final s (e :: es) = final (e_post e) es.
Proof.
  unfold final. cbn [map]. destruct (map e_post es) as [|x l]; [reflexivity|].
  change (last (e_post e :: x :: l) s) with (last (x :: l) s). apply last_cons_default.
Qed.

Lemma trace_cons e es : trace (e :: es) = e_out e ++ trace es.
Proof. reflexivity. Qed.

Lemma trun_srun types : forall ls s es,
  trun types s ls = Some es ->
  forall tr, srun types s (map fst ls) tr = Some (final s es, tr ++ trace es).
Proof.
  induction ls as [|[l t] r IH]; intros s es H tr.
  - cbn in H. inversion H; subst. cbn. rewrite app_nil_r. reflexivity.
  - cbn [trun] in H. cbn [map fst srun].
    destruct (sstep types false s l) as [[s' out]|] eqn:E; [|discriminate].
    destruct (trun types s' r) as [es'|] eqn:E2; [|discriminate].
    inversion H; subst. rewrite (IH _ _ E2).
    rewrite final_cons, trace_cons. cbn [e_post e_out]. rewrite app_assoc. reflexivity.
Qed.

Lemma trun_cons types s l t r es :
  trun types s ((l, t) :: r) = Some es ->
  exists s' out es', sstep types false s l = Some (s', out) /\ trun types s' r = Some es' /\
    es = {| e_pre := s; e_lab := l; e_time := t; e_post := s'; e_out := out |} :: es'.
Proof.
  cbn [trun]. intro H.
  destruct (sstep types false s l) as [[s' out]|] eqn:E; [|discriminate].
  destruct (trun types s' r) as [es'|] eqn:E2; [|discriminate].
  inversion H; subst. exists s', out, es'. repeat split; assumption.
Qed.

(* ================================================================== *)
(** * Alias map (dict with text keys)                                   *)
(* ================================================================== *)

Lemma text_eqb_neq a b : a <> b -> text_eqb a b = false.
Proof.
  intro H. destruct (text_eqb a b) eqn:E; [|reflexivity].
  apply text_eqb_eq in E. contradiction.
Qed.

Notation dget := (d_get text_eqb).
Notation dset := (d_set text_eqb).
Notation ddel := (d_del text_eqb).

Lemma dget_set_same (d : list (text * Z)) k v : dget (dset d k v) k = Some v.
Proof.
  induction d as [|[k' v'] d IH]; cbn.
  - rewrite text_eqb_refl. reflexivity.
  - destruct (text_eqb k' k) eqn:E; cbn; rewrite E; [reflexivity|exact IH].
Qed.

Lemma dget_set_other (d : list (text * Z)) k k' v : k' <> k -> dget (dset d k v) k' = dget d k'.
Proof.
  intro Hne. induction d as [|[k0 v0] d IH]; cbn.
  - rewrite text_eqb_neq; [reflexivity|congruence].
  - destruct (text_eqb k0 k) eqn:E; cbn.
    + apply text_eqb_eq in E. subst k0. rewrite text_eqb_neq; [reflexivity|congruence].
    + destruct (text_eqb k0 k'); [reflexivity|exact IH].
Qed.

Lemma dget_del_other (d : list (text * Z)) k k' : k' <> k -> dget (ddel d k) k' = dget d k'.
Proof.
  intro Hne. induction d as [|[k0 v0] d IH]; cbn; [reflexivity|].
  destruct (text_eqb k0 k) eqn:E; cbn.
  - apply text_eqb_eq in E. subst k0. rewrite text_eqb_neq; [reflexivity|congruence].
  - destruct (text_eqb k0 k'); [reflexivity|exact IH].
Qed.

Lemma dget_in_keys (d : list (text * Z)) k v : dget d k = Some v -> In k (map fst d).
Proof.
  induction d as [|[k0 v0] d IH]; cbn; [discriminate|].
  destruct (text_eqb k0 k) eqn:E; intro H.
  - apply text_eqb_eq in E. left; exact E.
  - right; apply IH; exact H.
Qed.

Lemma notin_keys_dget (d : list (text * Z)) k : ~ In k (map fst d) -> dget d k = None.
Proof.
  intro H. destruct (dget d k) eqn:E; [|reflexivity].
  exfalso. apply H. eapply dget_in_keys; exact E.
Qed.

Lemma dget_del_same (d : list (text * Z)) k : NoDup (map fst d) -> dget (ddel d k) k = None.
Proof.
  induction d as [|[k0 v0] d IH]; cbn; intro ND; [reflexivity|].
  inversion ND as [|x l Hnotin ND']; subst.
  destruct (text_eqb k0 k) eqn:E; cbn.
  - apply text_eqb_eq in E. subst k0. apply notin_keys_dget. exact Hnotin.
  - rewrite E. apply IH. exact ND'.
Qed.

Lemma in_keys_dset (d : list (text * Z)) k v x :
  In x (map fst (dset d k v)) -> In x (map fst d) \/ x = k.
Proof.
  induction d as [|[k0 v0] d IH]; cbn.
  - intros [H|[]]; right; congruence.
  - destruct (text_eqb k0 k) eqn:E; cbn.
    + intros [H|H]; left; [left|right]; assumption.
    + intros [H|H]; [left; left; exact H|].
      destruct (IH H) as [H'|H']; [left; right; exact H'|right; exact H'].
Qed.

Lemma in_keys_ddel (d : list (text * Z)) k x : In x (map fst (ddel d k)) -> In x (map fst d).
Proof.
  induction d as [|[k0 v0] d IH]; cbn; [tauto|].
  destruct (text_eqb k0 k) eqn:E; cbn.
  - intro H; right; exact H.
  - intros [H|H]; [left; exact H|right; apply IH; exact H].
Qed.

Lemma nodup_dset (d : list (text * Z)) k v : NoDup (map fst d) -> NoDup (map fst (dset d k v)).
Proof.
  induction d as [|[k0 v0] d IH]; cbn; intro ND.
  - constructor; [intros []|constructor].
  - inversion ND as [|x l Hnotin ND']; subst.
    destruct (text_eqb k0 k) eqn:E; cbn.
    + constructor; assumption.
    + constructor; [|apply IH; exact ND'].
      intro H. apply in_keys_dset in H as [H|H]; [contradiction|].
      subst k0. rewrite text_eqb_refl in E. discriminate.
Qed.

Lemma nodup_ddel (d : list (text * Z)) k : NoDup (map fst d) -> NoDup (map fst (ddel d k)).
Proof.
  induction d as [|[k0 v0] d IH]; cbn; intro ND; [constructor|].
  inversion ND as [|x l Hnotin ND']; subst.
  destruct (text_eqb k0 k) eqn:E; cbn; [exact ND'|].
  constructor; [|apply IH; exact ND'].
  intro H. apply in_keys_ddel in H. contradiction.
Qed.

(* ================================================================== *)
(** * Heap operations                                                   *)
(* ================================================================== *)

Lemma min_query_none h : min_query h = None -> h = [].
Proof.
  destruct h as [|q r]; [reflexivity|]. cbn.
  destruct (min_query r) as [m|]; [destruct (sq_when m <? sq_when q)|]; discriminate.
Qed.

Lemma min_query_spec : forall h m, min_query h = Some m ->
  In m h /\ forall x, In x h -> sq_when m <= sq_when x.
Proof.
  induction h as [|q r IH]; intros m H; [discriminate|].
  cbn in H. destruct (min_query r) as [m'|] eqn:E.
  - destruct (IH m' eq_refl) as [Hin Hle].
    destruct (sq_when m' <? sq_when q) eqn:C; inversion H; subst.
    + split; [right; exact Hin|]. intros x [Hx|Hx]; [subst; lia|apply Hle; exact Hx].
    + split; [left; reflexivity|]. intros x [Hx|Hx]; [subst; lia|].
      specialize (Hle x Hx). lia.
  - inversion H; subst. apply min_query_none in E. subst r.
    split; [left; reflexivity|]. intros x [Hx|[]]. subst; lia.
Qed.

Lemma remove_id_subset : forall h id x, In x (remove_id h id) -> In x h.
Proof.
  induction h as [|q r IH]; intros id x H; [exact H|].
  cbn in H. destruct (sq_id q =? id); [right; exact H|].
  destruct H as [H|H]; [left; exact H|right; eapply IH; exact H].
Qed.

Lemma nodup_id_inj h x y :
  NoDup (map sq_id h) -> In x h -> In y h -> sq_id x = sq_id y -> x = y.
Proof.
  induction h as [|q r IH]; intros ND Hx Hy E; [destruct Hx|].
  cbn in ND. inversion ND as [|i l Hnotin ND']; subst.
  destruct Hx as [Hx|Hx], Hy as [Hy|Hy].
  - congruence.
  - subst x. exfalso. apply Hnotin. rewrite E. apply in_map. exact Hy.
  - subst y. exfalso. apply Hnotin. rewrite <- E. apply in_map. exact Hx.
  - apply IH; assumption.
Qed.

Lemma remove_id_in : forall h id x,
  NoDup (map sq_id h) -> (In x (remove_id h id) <-> In x h /\ sq_id x <> id).
Proof.
  induction h as [|q r IH]; intros id x ND; [cbn; tauto|].
  cbn in ND. inversion ND as [|i l Hnotin ND']; subst.
  cbn [remove_id]. destruct (sq_id q =? id) eqn:E.
  - apply Z.eqb_eq in E. split.
    + intro H. split; [right; exact H|]. intro Hx. apply Hnotin. rewrite E, <- Hx. apply in_map. exact H.
    + intros [[H|H] Hne]; [subst; contradiction|exact H].
  - apply Z.eqb_neq in E. cbn [In]. rewrite (IH id x ND'). split.
    + intros [H|[H1 H2]]; [subst; split; [left; reflexivity|exact E]|split; [right; exact H1|exact H2]].
    + intros [[H|H] Hne]; [left; exact H|right; split; assumption].
Qed.

Lemma remove_id_length : forall h m, In m h -> S (length (remove_id h (sq_id m))) = length h.
Proof.
  induction h as [|q r IH]; intros m H; [destruct H|].
  cbn [remove_id]. destruct (sq_id q =? sq_id m) eqn:E; [reflexivity|].
  destruct H as [H|H]; [subst; rewrite Z.eqb_refl in E; discriminate|].
  cbn [length]. rewrite (IH m H). reflexivity.
Qed.

Lemma remove_id_nodup : forall h id, NoDup (map sq_id h) -> NoDup (map sq_id (remove_id h id)).
Proof.
  induction h as [|q r IH]; intros id ND; [exact ND|].
  cbn in ND. inversion ND as [|i l Hnotin ND']; subst.
  cbn [remove_id]. destruct (sq_id q =? id); [exact ND'|].
  cbn. constructor; [|apply IH; exact ND'].
  intro H. apply in_map_iff in H as [y [Hy1 Hy2]]. apply remove_id_subset in Hy2.
  apply Hnotin. rewrite <- Hy1. apply in_map. exact Hy2.
Qed.

Lemma cancel_id_ids h id : map sq_id (cancel_id h id) = map sq_id h.
Proof.
  unfold cancel_id. rewrite map_map. apply map_ext. intro q.
  destruct (sq_id q =? id); reflexivity.
Qed.

Lemma cancel_id_in h id x :
  In x (cancel_id h id) <->
  exists y, In y h /\ x = if sq_id y =? id then set_cancelled y else y.
Proof.
  unfold cancel_id. rewrite in_map_iff. split; intros [y [H1 H2]]; exists y.
  - split; [exact H2|]. rewrite <- H1. reflexivity.
  - split; [|exact H1]. rewrite H2. reflexivity.
Qed.

Lemma cancel_id_split h cur :
  NoDup (map sq_id h) -> In cur h ->
  exists h1 h2, h = h1 ++ cur :: h2 /\ cancel_id h (sq_id cur) = h1 ++ set_cancelled cur :: h2.
Proof.
  intros ND Hin. destruct (in_split _ _ Hin) as [h1 [h2 E]]. exists h1, h2. split; [exact E|].
  subst h. unfold cancel_id. rewrite map_app. cbn [map]. rewrite Z.eqb_refl.
  rewrite map_app in ND. cbn [map] in ND.
  assert (Hfix : forall l, ~ In (sq_id cur) (map sq_id l) ->
            map (fun q => if sq_id q =? sq_id cur
                          then {| sq_id := sq_id q; sq_alias := sq_alias q; sq_name := sq_name q; sq_ttl := sq_ttl q;
                                  sq_cancelled := true; sq_expire := sq_expire q; sq_when := sq_when q |}
                          else q) l = l).
  { induction l as [|y l IHl]; intro Hn; [reflexivity|]. cbn [map].
    destruct (sq_id y =? sq_id cur) eqn:E.
    - exfalso. apply Hn. left. apply Z.eqb_eq. exact E.
    - rewrite IHl; [reflexivity|]. intro H. apply Hn. right. exact H. }
  pose proof (NoDup_remove_2 _ _ _ ND) as Hn.
  rewrite (Hfix h1), (Hfix h2); [reflexivity| |]; intro H; apply Hn; apply in_or_app; [right|left]; exact H.
Qed.

(* retime_id: the entry with that id takes over ttl and expiry; id, alias, name, cancelled flag, time and position stay *)
Definition set_ttl_expire (q : squery) (ttl expire : Z) : squery :=
  {| sq_id := sq_id q; sq_alias := sq_alias q; sq_name := sq_name q; sq_ttl := ttl;
     sq_cancelled := sq_cancelled q; sq_expire := expire; sq_when := sq_when q |}.

(* the entry x of the old heap as it stands in the re-timed heap *)
Definition retimed (id ttl expire : Z) (x : squery) : squery :=
  if sq_id x =? id then set_ttl_expire x ttl expire else x.

Lemma retime_id_map h id ttl ex : retime_id h id ttl ex = map (retimed id ttl ex) h.
Proof. reflexivity. Qed.

Lemma retimed_fields id ttl ex x :
  sq_id (retimed id ttl ex x) = sq_id x /\ sq_alias (retimed id ttl ex x) = sq_alias x /\
  sq_name (retimed id ttl ex x) = sq_name x /\ sq_cancelled (retimed id ttl ex x) = sq_cancelled x /\
  sq_when (retimed id ttl ex x) = sq_when x.
Proof. unfold retimed. destruct (sq_id x =? id); repeat split. Qed.

Lemma retimed_other id ttl ex x : sq_id x <> id -> retimed id ttl ex x = x.
Proof. intro H. unfold retimed. apply Z.eqb_neq in H. rewrite H. reflexivity. Qed.

Lemma retimed_same ttl ex x : retimed (sq_id x) ttl ex x = set_ttl_expire x ttl ex.
Proof. unfold retimed. rewrite Z.eqb_refl. reflexivity. Qed.

Lemma retime_id_length h id ttl ex : length (retime_id h id ttl ex) = length h.
Proof. rewrite retime_id_map. apply map_length. Qed.

Lemma retime_id_ids h id ttl ex : map sq_id (retime_id h id ttl ex) = map sq_id h.
Proof. rewrite retime_id_map, map_map. apply map_ext. intro q. apply retimed_fields. Qed.

Lemma retime_id_whens h id ttl ex : map sq_when (retime_id h id ttl ex) = map sq_when h.
Proof. rewrite retime_id_map, map_map. apply map_ext. intro q. apply retimed_fields. Qed.

Lemma retime_id_aliases h id ttl ex : map sq_alias (retime_id h id ttl ex) = map sq_alias h.
Proof. rewrite retime_id_map, map_map. apply map_ext. intro q. apply retimed_fields. Qed.

Lemma retime_id_cancelled h id ttl ex : map sq_cancelled (retime_id h id ttl ex) = map sq_cancelled h.
Proof. rewrite retime_id_map, map_map. apply map_ext. intro q. apply retimed_fields. Qed.

Lemma retime_id_in h id ttl ex x :
  In x (retime_id h id ttl ex) <-> exists y, In y h /\ x = retimed id ttl ex y.
Proof.
  rewrite retime_id_map, in_map_iff. split; intros [y [H1 H2]]; exists y; auto.
Qed.

Lemma find_id_retime : forall h id ttl ex id',
  find_id (retime_id h id ttl ex) id' = option_map (retimed id ttl ex) (find_id h id').
Proof.
  unfold find_id. induction h as [|q r IH]; intros id ttl ex id'; [reflexivity|].
  rewrite retime_id_map. cbn [map find].
  destruct (retimed_fields id ttl ex q) as (Hid & _). rewrite Hid.
  destruct (sq_id q =? id'); [reflexivity|]. rewrite <- retime_id_map. apply IH.
Qed.

Lemma retime_id_split h cur ttl ex :
  NoDup (map sq_id h) -> In cur h ->
  exists h1 h2, h = h1 ++ cur :: h2 /\ retime_id h (sq_id cur) ttl ex = h1 ++ set_ttl_expire cur ttl ex :: h2.
Proof.
  intros ND Hin. destruct (in_split _ _ Hin) as [h1 [h2 E]]. exists h1, h2. split; [exact E|].
  subst h. rewrite retime_id_map, map_app. cbn [map]. rewrite retimed_same.
  rewrite map_app in ND. cbn [map] in ND.
  assert (Hfix : forall l, ~ In (sq_id cur) (map sq_id l) -> map (retimed (sq_id cur) ttl ex) l = l).
  { induction l as [|y l IHl]; intro Hn; [reflexivity|]. cbn [map].
    rewrite retimed_other by (intro E; apply Hn; left; exact E).
    rewrite IHl; [reflexivity|]. intro H. apply Hn. right. exact H. }
  pose proof (NoDup_remove_2 _ _ _ ND) as Hn.
  rewrite (Hfix h1), (Hfix h2); [reflexivity| |]; intro H; apply Hn; apply in_or_app; [right|left]; exact H.
Qed.

Lemma find_id_some h id q : find_id h id = Some q -> In q h /\ sq_id q = id.
Proof.
  unfold find_id. intro H. apply find_some in H as [H1 H2]. apply Z.eqb_eq in H2. tauto.
Qed.

Lemma find_id_in h q : NoDup (map sq_id h) -> In q h -> find_id h (sq_id q) = Some q.
Proof.
  intros ND Hin. unfold find_id.
  destruct (find (fun x => sq_id x =? sq_id q) h) as [y|] eqn:E.
  - apply find_some in E as [H1 H2]. apply Z.eqb_eq in H2. f_equal. eapply nodup_id_inj; eassumption.
  - exfalso. pose proof (find_none _ _ E q Hin) as H. cbn in H. rewrite Z.eqb_refl in H. discriminate.
Qed.

Lemma find_id_none h id : find_id h id = None -> forall x, In x h -> sq_id x <> id.
Proof.
  unfold find_id. intros H x Hx E. pose proof (find_none _ _ H x Hx) as H'. cbn in H'.
  apply Z.eqb_neq in H'. contradiction.
Qed.

Lemma nodup_snoc {A} (l : list A) x : NoDup l -> ~ In x l -> NoDup (l ++ [x]).
Proof.
  induction l as [|y l IH]; intros ND Hn; cbn.
  - constructor; [intros []|constructor].
  - inversion ND as [|z l' Hy ND']; subst. constructor.
    + intro H. apply in_app_or in H as [H|[H|[]]]; [contradiction|]. subst. apply Hn. left; reflexivity.
    + apply IH; [exact ND'|]. intro H. apply Hn. right; exact H.
Qed.

(* ================================================================== *)
(** * WFh is preserved by the three heap operations                     *)
(* ================================================================== *)

Lemma WFh_push h al f q :
  WFh h al f -> sq_id q = f -> sq_cancelled q = false -> dget al (sq_alias q) = None ->
  WFh (h ++ [q]) (dset al (sq_alias q) f) (f + 1).
Proof.
  intros (Hids & Hfr & Hkeys & Hreg & Hlive) Hid Hc Hnone.
  repeat split.
  - rewrite map_app. cbn [map]. apply nodup_snoc; [exact Hids|].
    intro H. apply in_map_iff in H as [y [H1 H2]]. specialize (Hfr y H2). lia.
  - intros x Hx. apply in_app_or in Hx as [Hx|[Hx|[]]]; [specialize (Hfr x Hx); lia|subst; lia].
  - apply nodup_dset. exact Hkeys.
  - intros a id H.
    destruct (list_eq_dec Z.eq_dec a (sq_alias q)) as [->|Hne].
    + rewrite dget_set_same in H. inversion H; subst id.
      exists q. repeat split; auto. apply in_or_app. right. left. reflexivity.
    + rewrite dget_set_other in H by exact Hne.
      destruct (Hreg a id H) as [y [H1 H2]]. exists y. split; [apply in_or_app; left; exact H1|exact H2].
  - intros x Hx Hxc. apply in_app_or in Hx as [Hx|[Hx|[]]].
    + pose proof (Hlive x Hx Hxc) as Hg.
      rewrite dget_set_other; [exact Hg|]. intro E. rewrite E in Hg. congruence.
    + subst x. rewrite dget_set_same. congruence.
Qed.

Lemma WFh_cancel h al f a id :
  WFh h al f -> dget al a = Some id -> WFh (cancel_id h id) (ddel al a) f.
Proof.
  intros (Hids & Hfr & Hkeys & Hreg & Hlive) Hget.
  destruct (Hreg a id Hget) as [q0 (Hq0in & Hq0id & Hq0al & Hq0c)].
  repeat split.
  - rewrite cancel_id_ids. exact Hids.
  - intros x Hx. apply cancel_id_in in Hx as [y [Hy ->]].
    specialize (Hfr y Hy). destruct (sq_id y =? id); cbn; exact Hfr.
  - apply nodup_ddel. exact Hkeys.
  - intros b id' H.
    destruct (list_eq_dec Z.eq_dec b a) as [->|Hne].
    + rewrite dget_del_same in H by exact Hkeys. discriminate.
    + rewrite dget_del_other in H by exact Hne.
      destruct (Hreg b id' H) as [y (Hyin & Hyid & Hyal & Hyc)].
      exists y. split; [|auto].
      apply cancel_id_in. exists y. split; [exact Hyin|].
      destruct (sq_id y =? id) eqn:E; [|reflexivity].
      apply Z.eqb_eq in E. exfalso. apply Hne.
      assert (y = q0) by (eapply nodup_id_inj; [exact Hids|exact Hyin|exact Hq0in|congruence]).
      subst y. congruence.
  - intros x Hx Hxc. apply cancel_id_in in Hx as [y [Hy Hxe]].
    destruct (sq_id y =? id) eqn:E; [subst x; cbn in Hxc; discriminate|].
    subst x. apply Z.eqb_neq in E.
    pose proof (Hlive y Hy Hxc) as Hg.
    rewrite dget_del_other; [exact Hg|]. intro Ea. rewrite Ea in Hg. congruence.
Qed.

(* re-timing an entry touches neither ids, aliases nor cancelled flags *)
Lemma WFh_retime h al f id ttl ex : WFh h al f -> WFh (retime_id h id ttl ex) al f.
Proof.
  intros (Hids & Hfr & Hkeys & Hreg & Hlive).
  repeat split.
  - rewrite retime_id_ids. exact Hids.
  - intros x Hx. apply retime_id_in in Hx as [y [Hy ->]].
    destruct (retimed_fields id ttl ex y) as (Fid & _). rewrite Fid. apply Hfr. exact Hy.
  - exact Hkeys.
  - intros a id' H. destruct (Hreg a id' H) as [y (Hyin & Hyid & Hyal & Hyc)].
    destruct (retimed_fields id ttl ex y) as (Fid & Fal & _ & Fc & _).
    exists (retimed id ttl ex y). split; [apply retime_id_in; exists y; auto|].
    rewrite Fid, Fal, Fc. auto.
  - intros x Hx Hxc. apply retime_id_in in Hx as [y [Hy ->]].
    destruct (retimed_fields id ttl ex y) as (Fid & Fal & _ & Fc & _).
    rewrite Fid, Fal. rewrite Fc in Hxc. apply Hlive; assumption.
Qed.

(* popping the heap minimum m: a cancelled entry is dropped, a live one is unregistered *)
Lemma WFh_pop_cancelled h al f m :
  WFh h al f -> In m h -> sq_cancelled m = true -> WFh (remove_id h (sq_id m)) al f.
Proof.
  intros (Hids & Hfr & Hkeys & Hreg & Hlive) Hm Hc.
  repeat split.
  - apply remove_id_nodup. exact Hids.
  - intros x Hx. apply Hfr. eapply remove_id_subset. exact Hx.
  - exact Hkeys.
  - intros a id H. destruct (Hreg a id H) as [y (Hyin & Hyid & Hyal & Hyc)].
    exists y. split; [|auto]. apply remove_id_in; [exact Hids|]. split; [exact Hyin|].
    intro E. assert (y = m) by (eapply nodup_id_inj; eassumption). subst y. congruence.
  - intros x Hx Hxc. apply Hlive; [eapply remove_id_subset; exact Hx|exact Hxc].
Qed.

Lemma WFh_pop_live h al f m :
  WFh h al f -> In m h -> sq_cancelled m = false ->
  WFh (remove_id h (sq_id m)) (ddel al (sq_alias m)) f.
Proof.
  intros (Hids & Hfr & Hkeys & Hreg & Hlive) Hm Hc.
  pose proof (Hlive m Hm Hc) as Hmreg.
  repeat split.
  - apply remove_id_nodup. exact Hids.
  - intros x Hx. apply Hfr. eapply remove_id_subset. exact Hx.
  - apply nodup_ddel. exact Hkeys.
  - intros a id H.
    destruct (list_eq_dec Z.eq_dec a (sq_alias m)) as [->|Hne].
    + rewrite dget_del_same in H by exact Hkeys. discriminate.
    + rewrite dget_del_other in H by exact Hne.
      destruct (Hreg a id H) as [y (Hyin & Hyid & Hyal & Hyc)].
      exists y. split; [|auto]. apply remove_id_in; [exact Hids|]. split; [exact Hyin|].
      intro E. assert (y = m) by (eapply nodup_id_inj; eassumption). subst y. congruence.
  - intros x Hx Hxc. apply remove_id_in in Hx as [Hx Hne]; [|exact Hids].
    pose proof (Hlive x Hx Hxc) as Hg.
    rewrite dget_del_other; [exact Hg|]. intro Ea. rewrite Ea in Hg. congruence.
Qed.

(* ================================================================== *)
(** * drain                                                             *)
(* ================================================================== *)

(* what drain pops never includes a cancelled entry (no well-formedness needed) *)
Lemma drain_ready_sound : forall fuel h al now ready h' al' ready' nxt,
  drain fuel h al now ready = (h', al', ready', nxt) ->
  forall x, In x ready' -> In x ready \/ (In x h /\ sq_cancelled x = false /\ sq_when x <= now).
Proof.
  induction fuel as [|fuel IH]; intros h al now ready h' al' ready' nxt H x Hx.
  - cbn in H. inversion H; subst. left; exact Hx.
  - cbn [drain] in H. destruct (min_query h) as [m|] eqn:Em.
    + destruct (min_query_spec _ _ Em) as [Hm _].
      destruct (sq_cancelled m) eqn:Ec.
      * destruct (IH _ _ _ _ _ _ _ _ H x Hx) as [H1|[H1 H2]]; [left; exact H1|].
        right. split; [eapply remove_id_subset; exact H1|exact H2].
      * destruct (sq_when m >? now) eqn:Ew.
        -- inversion H; subst. left; exact Hx.
        -- destruct (IH _ _ _ _ _ _ _ _ H x Hx) as [H1|[H1 H2]].
           ++ apply in_app_or in H1 as [H1|[H1|[]]]; [left; exact H1|].
              subst x. right. repeat split; [exact Hm|exact Ec|lia].
           ++ right. split; [eapply remove_id_subset; exact H1|exact H2].
    + inversion H; subst. left; exact Hx.
Qed.

(* full specification of drain on a well-formed heap with enough fuel *)
Lemma drain_spec : forall fuel h al now ready h' al' ready' nxt f,
  drain fuel h al now ready = (h', al', ready', nxt) ->
  WFh h al f -> (length h < fuel)%nat ->
  WFh h' al' f /\
  (forall x, In x h' -> In x h /\ now < sq_when x) /\
  (forall x, In x h -> sq_cancelled x = false -> now < sq_when x -> In x h') /\
  (match nxt with Some m => min_query h' = Some m | None => h' = [] end) /\
  exists popped, ready' = ready ++ popped /\
    NoDup (map sq_id popped) /\
    (forall x, In x popped <-> (In x h /\ sq_cancelled x = false /\ sq_when x <= now)).
Proof.
  induction fuel as [|fuel IH]; intros h al now ready h' al' ready' nxt f H Hwf Hlen; [lia|].
  cbn [drain] in H. destruct (min_query h) as [m|] eqn:Em.
  - destruct (min_query_spec _ _ Em) as [Hm Hmin].
    pose proof Hwf as (Hids & _).
    pose proof (remove_id_length h m Hm) as Hl.
    destruct (sq_cancelled m) eqn:Ec.
    + pose proof (WFh_pop_cancelled _ _ _ _ Hwf Hm Ec) as Hwf'.
      destruct (IH _ _ _ _ _ _ _ _ f H Hwf' ltac:(lia)) as (R1 & R2 & R3 & R4 & popped & R5 & R6 & R7).
      split; [exact R1|]. split.
      { intros x Hx. destruct (R2 x Hx) as [Ha Hb]. split; [eapply remove_id_subset; exact Ha|exact Hb]. }
      split.
      { intros x Hx Hxc Hxw. apply R3; [|exact Hxc|exact Hxw].
        apply remove_id_in; [exact Hids|]. split; [exact Hx|]. intro E.
        assert (x = m) by (apply (nodup_id_inj h); assumption). subst x. congruence. }
      split; [exact R4|]. exists popped. split; [exact R5|]. split; [exact R6|].
      intro x. rewrite R7. split.
      * intros [Ha Hb]. split; [eapply remove_id_subset; exact Ha|exact Hb].
      * intros [Ha [Hb Hc]]. split; [|tauto].
        apply remove_id_in; [exact Hids|]. split; [exact Ha|]. intro E.
        assert (x = m) by (apply (nodup_id_inj h); assumption). subst x. congruence.
    + destruct (sq_when m >? now) eqn:Ew.
      * inversion H; subst h' al' ready' nxt.
        split; [exact Hwf|]. split.
        { intros x Hx. split; [exact Hx|]. specialize (Hmin x Hx). lia. }
        split; [intros x Hx _ _; exact Hx|]. split; [exact Em|].
        exists []. split; [rewrite app_nil_r; reflexivity|]. split; [constructor|].
        intro x. split; [intros []|]. intros [Ha [Hb Hc]]. specialize (Hmin x Ha). lia.
      * pose proof (WFh_pop_live _ _ _ _ Hwf Hm Ec) as Hwf'.
        destruct (IH _ _ _ _ _ _ _ _ f H Hwf' ltac:(lia)) as (R1 & R2 & R3 & R4 & popped & R5 & R6 & R7).
        split; [exact R1|]. split.
        { intros x Hx. destruct (R2 x Hx) as [Ha Hb]. split; [eapply remove_id_subset; exact Ha|exact Hb]. }
        split.
        { intros x Hx Hxc Hxw. apply R3; [|exact Hxc|exact Hxw].
          apply remove_id_in; [exact Hids|]. split; [exact Hx|]. intro E.
          assert (x = m) by (apply (nodup_id_inj h); assumption). subst x. lia. }
        split; [exact R4|]. exists (m :: popped). split; [rewrite R5, <- app_assoc; reflexivity|]. split.
        { cbn [map]. constructor; [|exact R6]. intro Hin. apply in_map_iff in Hin as [y [Hy1 Hy2]].
          apply R7 in Hy2 as [Hy2 _]. apply remove_id_in in Hy2 as [_ Hy2]; [|exact Hids]. congruence. }
        intro x. cbn [In]. rewrite R7. split.
        -- intros [Hx|[Ha Hb]]; [subst x; repeat split; [exact Hm|exact Ec|lia]|].
           split; [eapply remove_id_subset; exact Ha|exact Hb].
        -- intros [Ha [Hb Hc]].
           destruct (Z.eq_dec (sq_id x) (sq_id m)) as [E|E].
           ++ left. symmetry. apply (nodup_id_inj h); assumption.
           ++ right. split; [|tauto]. apply remove_id_in; [exact Hids|]. tauto.
  - inversion H; subst h' al' ready' nxt. apply min_query_none in Em. subst h.
    split; [exact Hwf|]. split; [intros x []|]. split; [intros x []|]. split; [reflexivity|].
    exists []. split; [rewrite app_nil_r; reflexivity|]. split; [constructor|].
    intro x. split; [intros []|intros [[] _]].
Qed.

(* ================================================================== *)
(** * Field projections of the scheduler operations                     *)
(* ================================================================== *)

Lemma rearm_fields s w :
  sc_heap (rearm_if_due_earlier s w) = sc_heap s /\
  sc_by_alias (rearm_if_due_earlier s w) = sc_by_alias s /\
  sc_fresh (rearm_if_due_earlier s w) = sc_fresh s /\
  sc_delay (rearm_if_due_earlier s w) = sc_delay s /\
  sc_min_next (rearm_if_due_earlier s w) = sc_min_next s /\
  sc_startup_sent (rearm_if_due_earlier s w) = sc_startup_sent s /\
  sc_first_qu (rearm_if_due_earlier s w) = sc_first_qu s.
Proof.
  unfold rearm_if_due_earlier.
  destruct (sc_min_next s =? 0); [repeat split|].
  destruct (sc_next_run s) as [[armed k]|]; [|repeat split].
  destruct (Z.max w (sc_min_next s) <? armed); repeat split.
Qed.

Definition new_query (id : Z) (alias name : text) (ttl expire when_ : Z) : squery :=
  {| sq_id := id; sq_alias := alias; sq_name := name; sq_ttl := ttl; sq_cancelled := false;
     sq_expire := expire; sq_when := when_ |}.

Lemma push_fields s a n ttl ex w :
  sc_heap (push s a n ttl ex w) = sc_heap s ++ [new_query (sc_fresh s) a n ttl ex w] /\
  sc_by_alias (push s a n ttl ex w) = dset (sc_by_alias s) a (sc_fresh s) /\
  sc_fresh (push s a n ttl ex w) = sc_fresh s + 1 /\
  sc_delay (push s a n ttl ex w) = sc_delay s /\
  sc_min_next (push s a n ttl ex w) = sc_min_next s /\
  sc_startup_sent (push s a n ttl ex w) = sc_startup_sent s /\
  sc_first_qu (push s a n ttl ex w) = sc_first_qu s.
Proof.
  unfold push.
  destruct (rearm_fields
    (with_heap_alias_fresh s (sc_heap s ++ [new_query (sc_fresh s) a n ttl ex w])
       (dset (sc_by_alias s) a (sc_fresh s)) (sc_fresh s + 1)) w) as (H1 & H2 & H3 & H4 & H5 & H6 & H7).
  unfold new_query in *. cbn [sq_id] in *.
  rewrite H1, H2, H3, H4, H5, H6, H7. repeat split.
Qed.

Lemma WF_push s a n ttl ex w :
  WF s -> dget (sc_by_alias s) a = None -> WF (push s a n ttl ex w).
Proof.
  intros Hwf Hnone. unfold WF.
  destruct (push_fields s a n ttl ex w) as (H1 & H2 & H3 & _). rewrite H1, H2, H3.
  apply (WFh_push _ _ _ (new_query (sc_fresh s) a n ttl ex w)); auto.
Qed.
